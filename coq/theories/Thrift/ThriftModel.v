(** Model of src/thrift/thrift_encode.c and src/thrift/thrift_decode.c, one Gallina function per C
    function, with the C integer widths written out.

    Conventions (DESIGN.md section 4):
    - bytes are [N] below 256; C unsigned words are [N] reduced [mod 2^k]; C signed values are [Z];
    - the reader is a zipper: [d_rest] is what lies at and after the cursor (`data + pos .. data + size`),
      [d_pos] the number of bytes consumed.  Every read pattern-matches on [d_rest]; reading past the end is
      [Fault OobRead].  The C guards (`has_bytes`) are mirrored as they are written, so a guard that is
      too weak shows up as a reachable Fault;
    - the C code keeps a sticky `status` and goes on executing with dummy values after the first
      error; the model stops at the first error ([Err c], c = the status the C code ends up returning).
      After an error the C code reads nothing that is not guarded by the same primitives, reports no
      structure and no byte count, so nothing observable is lost (the post-error continuation itself is not
      modelled);
    - `last_field_id[THRIFT_MAX_NESTING]` + `nesting_level` is a list: its length is `nesting_level`, its
      head is `last_field_id[nesting_level - 1]`;
    - the C recursion of the skip function is explicit: [depth] is the C parameter, [fuel] the recursion
      budget of the model; running out of it is [Fault DepthExceeded]. *)
From Coq Require Import ZArith NArith List Bool.
From Carquet Require Import Base.Res Gen.Consts_gen Gen.Enums_gen.
Import ListNotations.
Local Open Scope N_scope.

(* ------------------------------------------------------------------------------------------ *)
(** * C integer conversions *)

Definition u64 (z : Z) : N := Z.to_N (z mod 2 ^ 64).                    (* (uint64_t) z *)
Definition scast (bits : Z) (z : Z) : Z :=                               (* (intN_t) z, two's complement wrap *)
  ((z + 2 ^ (bits - 1)) mod 2 ^ bits - 2 ^ (bits - 1))%Z.
Definition s64 (n : N) : Z := scast 64 (Z.of_N n).                       (* (int64_t) n *)
Definition i8 (z : Z) : Z := scast 8 z.
Definition i16 (z : Z) : Z := scast 16 z.
Definition i32 (z : Z) : Z := scast 32 z.
Definition i64 (z : Z) : Z := scast 64 z.
Definition ones64 : N := 18446744073709551615.

(** core/endian.h: carquet_zigzag_encode64:  ((uint64_t)v << 1) ^ ((uint64_t)((int64_t)v >> 63)) *)
Definition zigzag_encode64 (v : Z) : N :=
  N.lxor ((u64 v * 2) mod 2 ^ 64) (if (v <? 0)%Z then ones64 else 0).

(** carquet_zigzag_decode64:  (int64_t)((v >> 1) ^ (-(int64_t)(v & 1))) *)
Definition zigzag_decode64 (v : N) : Z :=
  s64 (N.lxor (N.shiftr v 1) (if N.odd v then ones64 else 0)).

(** status codes (include/carquet/error.h through Gen/Enums_gen.v) *)
Definition ST_TRUNCATED : Z := E_CARQUET_ERROR_THRIFT_TRUNCATED.
Definition ST_DECODE : Z := E_CARQUET_ERROR_THRIFT_DECODE.
Definition ST_ENCODE : Z := E_CARQUET_ERROR_THRIFT_ENCODE.
Definition ST_INVALID_TYPE : Z := E_CARQUET_ERROR_THRIFT_INVALID_TYPE.

Definition MAX_NESTING : N := Thrift_THRIFT_MAX_NESTING.            (* thrift_decode.h *)
Definition ENC_MAX_NESTING : N := ThriftEnc_THRIFT_ENCODER_MAX_NESTING.   (* thrift_encode.h *)

Definition len {A} (l : list A) : N := N.of_nat (length l).

(* ------------------------------------------------------------------------------------------ *)
(** * thrift_encode.c *)

(** [e_rev]: the bytes appended to the buffer so far, most recent first (so that appending is cheap when the
    model is executed); [e_out] is the buffer content. *)
Record encoder := { e_rev : list N; e_lfid : list Z }.
Definition e_out (e : encoder) : list N := rev_append (e_rev e) [].   (* = rev (e_rev e), in linear time *)

Definition encoder_init : encoder := {| e_rev := []; e_lfid := [] |}.
Definition emit (bs : list N) (e : encoder) : encoder := {| e_rev := rev_append bs (e_rev e); e_lfid := e_lfid e |}.

(** thrift_write_varint: `uint8_t buf[10]`; running past it would be an out-of-bounds write *)
Fixpoint varint_loop (room : nat) (value : N) : res (list N) :=
  match room with
  | O => Fault OobWrite
  | S r =>
    if 128 <=? value then
      match varint_loop r (N.shiftr value 7) with
      | Ok bs => Ok (N.lor (N.land value 127) 128 :: bs)
      | Err c => Err c
      | Fault f => Fault f
      end
    else Ok [value]
  end.

Definition varint_bytes (value : N) : res (list N) := varint_loop 10 (value mod 2 ^ 64).

Definition write_varint (value : N) (e : encoder) : res encoder :=
  match varint_bytes value with
  | Ok bs => Ok (emit bs e)
  | Err c => Err c
  | Fault f => Fault f
  end.

Definition write_zigzag (v : Z) (e : encoder) : res encoder := write_varint (zigzag_encode64 (i64 v)) e.

Definition write_byte (v : Z) (e : encoder) : res encoder := Ok (emit [Z.to_N (v mod 256)] e).   (* (uint8_t)(int8_t) *)
Definition write_i16 (v : Z) (e : encoder) : res encoder := write_zigzag (i16 v) e.
Definition write_i32 (v : Z) (e : encoder) : res encoder := write_zigzag (i32 v) e.
Definition write_i64 (v : Z) (e : encoder) : res encoder := write_zigzag (i64 v) e.

Fixpoint le_bytes (k : nat) (n : N) : list N :=
  match k with O => [] | S k' => N.land n 255 :: le_bytes k' (N.shiftr n 8) end.
Definition write_double (bits : N) (e : encoder) : res encoder := Ok (emit (le_bytes 8 bits) e).
Definition write_bool (b : bool) (e : encoder) : res encoder := write_byte (if b then 1 else 0)%Z e.

(** copy of [n] bytes out of a caller's object *)
Fixpoint read_obj (n : nat) (data : list N) : res (list N) :=
  match n with
  | O => Ok []
  | S n' => match data with
            | [] => Fault OobRead
            | b :: tl => match read_obj n' tl with Ok r => Ok (b :: r) | Err c => Err c | Fault f => Fault f end
            end
  end.

(** thrift_write_binary(enc, data, length): data = None is a NULL pointer *)
Definition write_binary (data : option (list N)) (length : Z) (e : encoder) : res encoder :=
  match write_varint (u64 (i32 length)) e with
  | Ok e1 =>
    match data with
    | Some bs =>
      if (0 <? i32 length)%Z then
        match read_obj (Z.to_nat (i32 length)) bs with
        | Ok cp => Ok (emit cp e1)
        | Err c => Err c
        | Fault f => Fault f
        end
      else Ok e1
    | None => Ok e1
    end
  | Err c => Err c
  | Fault f => Fault f
  end.

(** C strings: the content is what precedes the first NUL *)
Fixpoint cstr (bs : list N) : list N :=
  match bs with [] => [] | b :: tl => if b =? 0 then [] else b :: cstr tl end.

Definition write_string (s : option (list N)) (e : encoder) : res encoder :=
  match s with
  | None => write_binary None 0 e
  | Some bs => let c := cstr bs in write_binary (Some c) (Z.of_N (len c)) e
  end.

Definition write_struct_begin (e : encoder) : res encoder :=
  if ENC_MAX_NESTING <=? len (e_lfid e) then Err ST_ENCODE
  else Ok {| e_rev := e_rev e; e_lfid := 0%Z :: e_lfid e |}.

Definition write_field_stop (e : encoder) : res encoder := write_byte 0 e.

Definition write_struct_end (e : encoder) : res encoder :=
  match write_field_stop e with
  | Ok e1 => Ok {| e_rev := e_rev e1; e_lfid := tl (e_lfid e1) |}
  | Err c => Err c
  | Fault f => Fault f
  end.

Definition set_top (id : Z) (l : list Z) : list Z := match l with [] => [] | _ :: t => id :: t end.
Definition top (l : list Z) : Z := match l with [] => 0%Z | x :: _ => x end.

(** thrift_write_field_header(enc, type, field_id) *)
Definition write_field_header (ty : N) (field_id : Z) (e : encoder) : res encoder :=
  let fid := i16 field_id in
  let last_id := top (e_lfid e) in
  let delta := i16 (fid - last_id) in
  let r :=
    if ((0 <? delta) && (delta <=? 15))%Z then
      write_byte (Z.of_N (N.lor (N.shiftl (N.land (Z.to_N delta) 15) 4) (N.land ty 15))) e
    else
      match write_byte (Z.of_N (N.land ty 15)) e with
      | Ok e1 => write_i16 fid e1
      | Err c => Err c
      | Fault f => Fault f
      end in
  match r with
  | Ok e2 => Ok {| e_rev := e_rev e2; e_lfid := set_top fid (e_lfid e2) |}
  | Err c => Err c
  | Fault f => Fault f
  end.

(** thrift_write_list_begin(enc, elem_type, count)  (thrift_write_set_begin is the same function) *)
Definition write_list_begin (elem_type : N) (count : Z) (e : encoder) : res encoder :=
  let c := i32 count in
  if (c <? 15)%Z then
    write_byte (Z.of_N (N.lor (N.shiftl (Z.to_N (Z.land c 15)) 4) (N.land elem_type 15))) e
  else
    match write_byte (Z.of_N (N.lor 240 (N.land elem_type 15))) e with
    | Ok e1 => write_varint (u64 c) e1
    | Err c => Err c
    | Fault f => Fault f
    end.

Definition write_map_begin (key_type value_type : N) (count : Z) (e : encoder) : res encoder :=
  let c := i32 count in
  if (c =? 0)%Z then write_byte 0 e
  else
    match write_varint (u64 c) e with
    | Ok e1 => write_byte (Z.of_N (N.lor (N.shiftl (N.land key_type 15) 4) (N.land value_type 15))) e1
    | Err c => Err c
    | Fault f => Fault f
    end.

(* ------------------------------------------------------------------------------------------ *)
(** * thrift_decode.c *)

Record decoder := {
  d_rest : list N;       (* reader.data + reader.pos .. reader.data + reader.size *)
  d_pos : N;             (* reader.pos *)
  d_lfid : list Z;       (* last_field_id[0 .. nesting_level-1], innermost first *)
  d_boolp : bool;        (* bool_pending *)
  d_boolv : bool         (* bool_value *)
}.

Definition decoder_init (data : list N) : decoder :=
  {| d_rest := data; d_pos := 0; d_lfid := []; d_boolp := false; d_boolv := false |}.

(** `pos + n <= size`, i.e. at least n bytes lie at and after the cursor *)
Fixpoint has_len (l : list N) (n : N) : bool :=
  match n with
  | 0 => true
  | _ => match l with [] => false | _ :: t => has_len t (N.pred n) end
  end.
Definition has_bytes (d : decoder) (n : N) : bool := has_len (d_rest d) n.

Definition with_reader (d : decoder) (rest : list N) (pos : N) : decoder :=
  {| d_rest := rest; d_pos := pos; d_lfid := d_lfid d; d_boolp := d_boolp d; d_boolv := d_boolv d |}.
Definition with_lfid (d : decoder) (l : list Z) : decoder :=
  {| d_rest := d_rest d; d_pos := d_pos d; d_lfid := l; d_boolp := d_boolp d; d_boolv := d_boolv d |}.
Definition with_bool (d : decoder) (p v : bool) : decoder :=
  {| d_rest := d_rest d; d_pos := d_pos d; d_lfid := d_lfid d; d_boolp := p; d_boolv := v |}.

(** the unguarded access `reader->data[reader->pos++]` *)
Definition get_byte (d : decoder) : res (N * decoder) :=
  match d_rest d with
  | [] => Fault OobRead
  | b :: tl => Ok (b, with_reader d tl (d_pos d + 1))
  end.

(** the unguarded `pos += n` after n bytes at the cursor have been used *)
Fixpoint take_bytes (n : nat) (l : list N) : res (list N * list N) :=
  match n with
  | O => Ok ([], l)
  | S n' => match l with
            | [] => Fault OobRead
            | b :: tl => match take_bytes n' tl with
                         | Ok (a, r) => Ok (b :: a, r)
                         | Err c => Err c
                         | Fault f => Fault f
                         end
            end
  end.

(** read_byte_raw *)
Definition read_byte_raw (d : decoder) : res (N * decoder) :=
  if has_bytes d 1 then get_byte d else Err ST_TRUNCATED.

(** carquet_buffer_reader_skip as used by thrift_skip for BYTE / DOUBLE / UUID: a short buffer is reported as
    THRIFT_TRUNCATED (since /repo 831b13e; before, the failed skip was ignored and the cursor stayed) *)
Definition reader_skip (n : N) (d : decoder) : res decoder :=
  if has_bytes d n then
    match take_bytes (N.to_nat n) (d_rest d) with
    | Ok (_, r) => Ok (with_reader d r (d_pos d + n))
    | Err c => Err c
    | Fault f => Fault f
    end
  else Err ST_TRUNCATED.

(** thrift_read_varint: `while (shift < 64)` runs for shift = 0, 7, ..., 63 *)
Fixpoint read_varint_loop (iters : nat) (shift : N) (result : N) (d : decoder) : res (N * decoder) :=
  match iters with
  | O => Err ST_DECODE                                     (* "Varint overflow" *)
  | S k =>
    if has_bytes d 1 then
      match read_byte_raw d with
      | Ok (byte, d1) =>
        let result' := N.lor result ((N.shiftl (N.land byte 127) shift) mod 2 ^ 64) in
        if N.land byte 128 =? 0 then Ok (result', d1)
        else read_varint_loop k (shift + 7) result' d1
      | Err c => Err c
      | Fault f => Fault f
      end
    else Err ST_TRUNCATED
  end.

Definition read_varint (d : decoder) : res (N * decoder) := read_varint_loop 10 0 0 d.

Definition read_zigzag (d : decoder) : res (Z * decoder) :=
  match read_varint d with
  | Ok (n, d1) => Ok (zigzag_decode64 n, d1)
  | Err c => Err c
  | Fault f => Fault f
  end.

Definition read_byte (d : decoder) : res (Z * decoder) :=
  match read_byte_raw d with
  | Ok (b, d1) => Ok (i8 (Z.of_N b), d1)
  | Err c => Err c
  | Fault f => Fault f
  end.

Definition read_int (bits : Z) (d : decoder) : res (Z * decoder) :=
  match read_zigzag d with
  | Ok (z, d1) => Ok (scast bits z, d1)
  | Err c => Err c
  | Fault f => Fault f
  end.
Definition read_i16 := read_int 16.
Definition read_i32 := read_int 32.
Definition read_i64 := read_int 64.

Fixpoint le_val (bs : list N) : N :=
  match bs with [] => 0 | b :: tl => N.lor b (N.shiftl (le_val tl) 8) end.

Definition read_double (d : decoder) : res (N * decoder) :=
  if has_bytes d 8 then
    match take_bytes 8 (d_rest d) with
    | Ok (a, r) => Ok (le_val a, with_reader d r (d_pos d + 8))
    | Err c => Err c
    | Fault f => Fault f
    end
  else Err ST_TRUNCATED.

Definition read_bool (d : decoder) : res (bool * decoder) :=
  if d_boolp d then Ok (d_boolv d, with_bool d false (d_boolv d))
  else
    match read_byte_raw d with
    | Ok (b, d1) => Ok (b =? 1, d1)
    | Err c => Err c
    | Fault f => Fault f
    end.

(** thrift_read_binary: the bytes (the C function returns a pointer into the buffer and the length) *)
Definition read_binary (d : decoder) : res (list N * decoder) :=
  match read_varint d with
  | Ok (n, d1) =>
    let l := i32 (Z.of_N n) in
    if (l <? 0)%Z then Err ST_DECODE
    else if has_bytes d1 (Z.to_N l) then
      match take_bytes (Z.to_nat l) (d_rest d1) with
      | Ok (a, r) => Ok (a, with_reader d1 r (d_pos d1 + Z.to_N l))
      | Err c => Err c
      | Fault f => Fault f
      end
    else Err ST_TRUNCATED
  | Err c => Err c
  | Fault f => Fault f
  end.

Definition read_struct_begin (d : decoder) : res decoder :=
  if MAX_NESTING <=? len (d_lfid d) then Err ST_DECODE
  else Ok (with_lfid d (0%Z :: d_lfid d)).

Definition read_struct_end (d : decoder) : decoder := with_lfid d (tl (d_lfid d)).

(** thrift_read_field_begin: None is STOP (the function returns false) *)
Definition read_field_begin (d : decoder) : res (option (N * Z) * decoder) :=
  match read_byte_raw d with
  | Ok (header, d1) =>
    if header =? 0 then Ok (None, d1)
    else
      let ty := N.land header 15 in
      let delta := N.land (N.shiftr header 4) 15 in
      let prev := top (d_lfid d1) in
      let r := if delta =? 0 then read_i16 d1
               else Ok (i16 (prev + Z.of_N delta), d1) in
      match r with
      | Ok (fid, d2) =>
        let d3 := with_lfid d2 (set_top fid (d_lfid d2)) in
        let d4 := if ty =? 1 then with_bool d3 true true
                  else if ty =? 2 then with_bool d3 true false else d3 in
        Ok (Some (ty, fid), d4)
      | Err c => Err c
      | Fault f => Fault f
      end
  | Err c => Err c
  | Fault f => Fault f
  end.

(** thrift_read_list_begin (and thrift_read_set_begin): (element type, count) *)
Definition read_list_begin (d : decoder) : res (N * Z * decoder) :=
  match read_byte_raw d with
  | Ok (header, d1) =>
    let et := N.land header 15 in
    let st := N.land (N.shiftr header 4) 15 in
    let r := if st =? 15 then
               match read_varint d1 with
               | Ok (n, d2) => Ok (i32 (Z.of_N n), d2)
               | Err c => Err c
               | Fault f => Fault f
               end
             else Ok (Z.of_N st, d1) in
    match r with
    | Ok (count, d2) =>
      if (count <? 0)%Z then Err ST_DECODE
      else if negb (has_bytes d2 (Z.to_N count)) then Err ST_DECODE          (* (size_t)count > remaining *)
      else Ok (et, count, d2)
    | Err c => Err c
    | Fault f => Fault f
    end
  | Err c => Err c
  | Fault f => Fault f
  end.

(** thrift_read_map_begin: (key type, value type, count) *)
Definition read_map_begin (d : decoder) : res (N * N * Z * decoder) :=
  match read_varint d with
  | Ok (n, d1) =>
    let count := i32 (Z.of_N n) in
    if (count <? 0)%Z then Err ST_DECODE
    else if (count =? 0)%Z then Ok (0, 0, 0%Z, d1)
    else if negb (has_bytes d1 (Z.to_N count)) then Err ST_DECODE            (* (size_t)count > remaining *)
    else
      match read_byte_raw d1 with
      | Ok (types, d2) => Ok (N.land (N.shiftr types 4) 15, N.land types 15, count, d2)
      | Err c => Err c
      | Fault f => Fault f
      end
  | Err c => Err c
  | Fault f => Fault f
  end.

(** The three loops of the skip function, abstracted over the recursive call [sk]. *)
Fixpoint skip_elems (sk : decoder -> res decoder) (n : nat) (d : decoder) : res decoder :=
  match n with
  | O => Ok d
  | S n' => match sk d with
            | Ok d1 => skip_elems sk n' d1
            | Err c => Err c
            | Fault f => Fault f
            end
  end.

Fixpoint skip_pairs (skk skv : decoder -> res decoder) (n : nat) (d : decoder) : res decoder :=
  match n with
  | O => Ok d
  | S n' => match skk d with
            | Ok d1 => match skv d1 with
                       | Ok d2 => skip_pairs skk skv n' d2
                       | Err c => Err c
                       | Fault f => Fault f
                       end
            | Err c => Err c
            | Fault f => Fault f
            end
  end.

(** `while (thrift_read_field_begin(...)) skip(field_type)`: every iteration consumes at least the
    header byte, so one more iteration than there are bytes left is always enough (ThriftProofs).  The
    fuel is a list used for its length only (the remaining bytes themselves serve, at no cost). *)
Fixpoint skip_fields (sk : N -> decoder -> res decoder) (k : list N) (d : decoder) : res decoder :=
  match k with
  | [] => Fault OutOfFuel
  | _ :: k' => match read_field_begin d with
            | Ok (None, d1) => Ok d1
            | Ok (Some (ft, _), d1) =>
              match sk ft d1 with
              | Ok d2 => skip_fields sk k' d2
              | Err c => Err c
              | Fault f => Fault f
              end
            | Err c => Err c
            | Fault f => Fault f
            end
  end.

(** skip_value(dec, type, depth, is_element) - the repaired thrift_skip (commits 970c3cc, e3562e1).
    [fuel] is the number of C stack frames the model is prepared to open. *)
Fixpoint skip_value (fuel : nat) (ty : N) (depth : N) (is_element : bool) (d : decoder) {struct fuel} : res decoder :=
  if MAX_NESTING <=? depth then Err ST_DECODE              (* "Nesting too deep while skipping" *)
  else
  match fuel with
  | O => Fault DepthExceeded
  | S fuel' =>
    match ty with
    | 0 => Err ST_DECODE                                   (* "Cannot skip STOP type" *)
    | 1 | 2 =>
      if is_element then
        match read_byte_raw d with Ok (_, d1) => Ok d1 | Err c => Err c | Fault f => Fault f end
      else Ok (with_bool d false (d_boolv d))
    | 3 => reader_skip 1 d
    | 4 | 5 | 6 => match read_varint d with Ok (_, d1) => Ok d1 | Err c => Err c | Fault f => Fault f end
    | 7 => reader_skip 8 d
    | 8 => match read_binary d with Ok (_, d1) => Ok d1 | Err c => Err c | Fault f => Fault f end
    | 9 | 10 =>
      match read_list_begin d with
      | Ok (et, count, d1) => skip_elems (skip_value fuel' et (depth + 1) true) (Z.to_nat count) d1
      | Err c => Err c
      | Fault f => Fault f
      end
    | 11 =>
      match read_map_begin d with
      | Ok (kt, vt, count, d1) =>
          skip_pairs (skip_value fuel' kt (depth + 1) true) (skip_value fuel' vt (depth + 1) true) (Z.to_nat count) d1
      | Err c => Err c
      | Fault f => Fault f
      end
    | 12 =>
      match read_struct_begin d with
      | Ok d1 => match skip_fields (fun ft => skip_value fuel' ft (depth + 1) false) (0 :: d_rest d1) d1 with
                 | Ok d2 => Ok (read_struct_end d2)
                 | Err c => Err c
                 | Fault f => Fault f
                 end
      | Err c => Err c
      | Fault f => Fault f
      end
    | 13 => reader_skip 16 d
    | _ => Err ST_INVALID_TYPE                             (* "Unknown type to skip" *)
    end
  end.

(** thrift_skip(dec, type) = skip_value(dec, type, 0, false).  One frame per nesting level up to the
    limit at which the C code gives up, so the budget below is never exhausted
    (ThriftProofs.skip_depth_bounded). *)
Definition skip_fuel : nat := N.to_nat MAX_NESTING.
Definition thrift_skip (ty : N) (d : decoder) : res decoder := skip_value skip_fuel ty 0 false d.

(** The function as it was before commit 970c3cc: no depth parameter, so the only bound on the C
    recursion is the stack.  [stack_frames] is how many frames the stack affords. *)
Fixpoint skip_unbounded (stack_frames : nat) (ty : N) (d : decoder) {struct stack_frames} : res decoder :=
  match stack_frames with
  | O => Fault DepthExceeded
  | S fuel' =>
    match ty with
    | 9 | 10 =>
      match read_list_begin d with
      | Ok (et, count, d1) => skip_elems (skip_unbounded fuel' et) (Z.to_nat count) d1
      | Err c => Err c
      | Fault f => Fault f
      end
    | 3 => reader_skip 1 d
    | _ => Err ST_INVALID_TYPE   (* the other cases are as in skip_value and play no role in the refutation *)
    end
  end.

(* ------------------------------------------------------------------------------------------ *)
(** * Remaining entry points of thrift_encode.c / thrift_decode.c (not used by parquet_types.c) *)

(** thrift_write_uuid: 16 bytes copied from the caller's array *)
Definition write_uuid (uuid : list N) (e : encoder) : res encoder :=
  match read_obj 16 uuid with
  | Ok cp => Ok (emit cp e)
  | Err c => Err c
  | Fault f => Fault f
  end.

(** thrift_write_set_begin / thrift_read_set_begin: "Set has the same encoding as list" *)
Definition write_set_begin := write_list_begin.
Definition read_set_begin := read_list_begin.

(** thrift_read_uuid *)
Definition read_uuid (d : decoder) : res (list N * decoder) :=
  if has_bytes d 16 then
    match take_bytes 16 (d_rest d) with
    | Ok (a, r) => Ok (a, with_reader d r (d_pos d + 16))
    | Err c => Err c
    | Fault f => Fault f
    end
  else Err ST_TRUNCATED.

(** thrift_read_string_alloc: the C string made of the binary's bytes (what strlen sees) *)
Definition read_string (d : decoder) : res (list N * decoder) :=
  match read_binary d with
  | Ok (bs, d1) => Ok (cstr bs, d1)
  | Err c => Err c
  | Fault f => Fault f
  end.

(** thrift_skip_field *)
Definition skip_field := thrift_skip.
