(** The generic theorems about the descriptor-driven writer and parser, proved once for every descriptor
    table, then instantiated for carquet's FileMetaData and PageHeader:

    parse_accepts     the parser reads EVERY legal compact-protocol encoding (ThriftSpec.enc) of a field list
                      whose known fields have the declared types - any field order, long or short headers,
                      padded varints, unknown fields of every wire type anywhere - to [interp], consuming all
                      the bytes;
    write_is_compact  the writer's bytes are a legal encoding of [to_tval] of the record;
    write_parse       parse (write m) = Ok (norm m, length (write m)). *)
From Coq Require Import ZArith NArith List Bool Lia.
From Carquet Require Import Base.Res Gen.Consts_gen Gen.Enums_gen.
From Carquet Require Import Thrift.ThriftSpec Thrift.ThriftSpecProofs Thrift.ThriftModel Thrift.ThriftProofs Thrift.ThriftConform.
From Carquet Require Import Thrift.ParquetMetaDesc Thrift.ParquetMetaModel Thrift.ParquetMetaSem Thrift.ParquetMetaProofs.
Import ListNotations.
Local Open Scope N_scope.

(* ------------------------------------------------------------------------------------------ *)
(** * Reading the elements of a list *)

Lemma repeat_read_elems {A} (rd : decoder -> res (A * decoder)) (g : tval -> A) et lf :
  forall vs body, enc_elems et vs body ->
  (forall v b d tail pos, In v vs -> enc et v b -> at_ d (b ++ tail) pos lf ->
     exists d', rd d = Ok (g v, d') /\ at_ d' tail (pos + N.of_nat (length b)) lf) ->
  forall d tail pos, at_ d (body ++ tail) pos lf ->
  exists d', repeat_read rd (length vs) d = Ok (map g vs, d') /\ at_ d' tail (pos + N.of_nat (length body)) lf.
Proof.
  induction 1 as [et | et v vs b1 b2 H1 H2 IH]; intros R d tail pos Hat.
  - exists d. split; [reflexivity|]. simpl. replace (pos + 0) with pos by lia. exact Hat.
  - cbn [length repeat_read map]. rewrite <- app_assoc in Hat.
    destruct (R v b1 d (b2 ++ tail) pos (or_introl eq_refl) H1 Hat) as (d1 & R1 & Hat1). rewrite R1. cbn [rbind].
    destruct (IH (fun x b dd tl p Hin => R x b dd tl p (or_intror Hin)) d1 tail _ Hat1) as (d2 & R2 & Hat2).
    rewrite R2. cbn [rbind]. exists d2. split; [reflexivity|]. rewrite app_length.
    replace (pos + N.of_nat (length b1 + length b2)) with (pos + N.of_nat (length b1) + N.of_nat (length b2)) by lia. exact Hat2.
Qed.

(** inversions of the encoding relation in a usable form *)
Lemma enc_binary_inv bs b : enc TBinary (VBinary bs) b ->
  exists l, b = l ++ bs /\ N.of_nat (length bs) < 2 ^ 31 /\ varint (N.of_nat (length bs)) l.
Proof. intros H; inversion H; subst. eauto. Qed.
Lemma enc_i16_inv z b : enc TI16 (VI16 z) b -> in_range 16 z /\ varint (zz z) b.
Proof. intros H; inversion H; subst. auto. Qed.
Lemma enc_i32_inv z b : enc TI32 (VI32 z) b -> in_range 32 z /\ varint (zz z) b.
Proof. intros H; inversion H; subst. auto. Qed.
Lemma enc_i64_inv z b : enc TI64 (VI64 z) b -> in_range 64 z /\ varint (zz z) b.
Proof. intros H; inversion H; subst. auto. Qed.
Lemma enc_byte_inv z b : enc TByte (VByte z) b -> b = [byte_of_z z] /\ in_range 8 z.
Proof. intros H; inversion H; subst. auto. Qed.
Lemma enc_struct_inv fs b : enc TStruct (VStruct fs) b -> enc_fields 0%Z fs b.
Proof. intros H; inversion H; subst. auto. Qed.
Lemma enc_list_inv et vs b : enc TList (VList et vs) b ->
  exists ec h body, b = h ++ body /\ tcode et ec /\ lhdr ec (N.of_nat (length vs)) h /\ enc_elems et vs body.
Proof. intros H; inversion H; subst. eauto 8. Qed.
Lemma enc_vi32 v b : enc TI32 v b -> exists z, v = VI32 z.
Proof. intros H; inversion H; subst. eauto. Qed.
Lemma enc_vbinary v b : enc TBinary v b -> exists bs, v = VBinary bs.
Proof. intros H; inversion H; subst. eauto. Qed.
Lemma enc_vstruct v b : enc TStruct v b -> exists fs, v = VStruct fs.
Proof. intros H; inversion H; subst. eauto. Qed.

Lemma read_str_spec bs b d tail pos lf : enc TBinary (VBinary bs) b -> at_ d (b ++ tail) pos lf ->
  exists d', read_str d = Ok (MBytes (Some (cstr bs)), d') /\ at_ d' tail (pos + N.of_nat (length b)) lf.
Proof.
  intros H Hat. destruct (enc_binary_inv _ _ H) as (l & -> & HL & HV). unfold read_str.
  destruct (read_binary_spec bs l d tail pos lf HL HV Hat) as (d' & RB & Hat'). rewrite RB. cbn [rbind]. eauto.
Qed.

Lemma read_bin_spec bs b d tail pos lf : enc TBinary (VBinary bs) b -> at_ d (b ++ tail) pos lf ->
  exists d', read_bin d = Ok (MBytes (match bs with [] => None | _ => Some bs end), d') /\
             at_ d' tail (pos + N.of_nat (length b)) lf.
Proof.
  intros H Hat. destruct (enc_binary_inv _ _ H) as (l & -> & HL & HV). unfold read_bin.
  destruct (read_binary_spec bs l d tail pos lf HL HV Hat) as (d' & RB & Hat'). rewrite RB. cbn [rbind]. eauto.
Qed.

Lemma read_i32_m_spec z b d tail pos lf : enc TI32 (VI32 z) b -> at_ d (b ++ tail) pos lf ->
  exists d', read_i32_m d = Ok (MInt z, d') /\ at_ d' tail (pos + N.of_nat (length b)) lf.
Proof.
  intros H Hat. destruct (enc_i32_inv _ _ H) as [HR HV]. unfold read_i32_m, read_i32.
  destruct (read_int_spec 32 z b d tail pos lf ltac:(lia) HR HV Hat) as (d' & RI & Hat'). rewrite RI. cbn [rbind]. eauto.
Qed.

(* ------------------------------------------------------------------------------------------ *)
(** * parse_accepts *)
Section Accepts.
  Variable tbl : nat -> sdesc.

  Definition struct_spec (fuel : nat) : Prop :=
    forall sid fs pre r d tail pos lf,
      enc_fields 0%Z fs pre -> typed tbl fuel sid (len lf) fs -> at_ d (pre ++ tail) pos lf ->
      exists d', parse_struct tbl fuel sid r d = Ok (interp tbl fuel sid fs r, d') /\
                 at_ d' tail (pos + N.of_nat (length pre)) lf.

  (** one known field, non-boolean wire type *)
  Lemma parse_field_spec fuel (IHf : struct_spec fuel) f v pay r d tail pos lf :
    type_of v <> TBool -> enc (type_of v) v pay ->
    typed_value (typed tbl fuel) (len lf) (f_kind f) v -> at_ d (pay ++ tail) pos lf ->
    exists d', parse_field tbl (parse_struct tbl fuel) f (code (type_of v)) r d =
                 Ok (interp_field tbl (interp tbl fuel) f v r, d') /\
               at_ d' tail (pos + N.of_nat (length pay)) lf.
  Proof.
    intros NB HE TV Hat. unfold parse_field, interp_field.
    destruct (f_kind f) as [ | | | | | | |s'|max err|max err|s' max err|s' pre|pre] eqn:K;
      destruct v; cbn [typed_value] in TV; try contradiction; cbn [type_of] in HE, NB |- *;
      (* KSetSkip: every non-boolean wire type *)
      try solve [ destruct TV as [D1 D2];
                  match goal with HE' : enc _ ?v pay |- context [thrift_skip _ _] =>
                    destruct (thrift_skip_field_spec v pay d tail pos lf) as (d' & SK & Hat');
                      [cbn [type_of]; discriminate | exact HE' | exact D1 | exact D2 | exact Hat |];
                      cbn [type_of] in SK; rewrite SK; cbn [rbind]; eauto
                  end ].
    - (* KI8 *) destruct (enc_byte_inv _ _ HE) as [-> HR].
      destruct (read_byte_spec z d tail pos lf HR Hat) as (d' & RB & Hat'). rewrite RB. cbn [rbind]. eauto.
    - destruct (enc_i16_inv _ _ HE) as [HR HV]. unfold read_i16.
      destruct (read_int_spec 16 z pay d tail pos lf ltac:(lia) HR HV Hat) as (d' & RI & Hat'). rewrite RI. cbn [rbind]. eauto.
    - destruct (enc_i32_inv _ _ HE) as [HR HV]. unfold read_i32.
      destruct (read_int_spec 32 z pay d tail pos lf ltac:(lia) HR HV Hat) as (d' & RI & Hat'). rewrite RI. cbn [rbind]. eauto.
    - destruct (enc_i64_inv _ _ HE) as [HR HV]. unfold read_i64.
      destruct (read_int_spec 64 z pay d tail pos lf ltac:(lia) HR HV Hat) as (d' & RI & Hat'). rewrite RI. cbn [rbind]. eauto.
    - (* KBin *) destruct (read_bin_spec bs pay d tail pos lf HE Hat) as (d' & RB & Hat'). rewrite RB. cbn [rbind]. eauto.
    - (* KStr *) destruct (read_str_spec bs pay d tail pos lf HE Hat) as (d' & RB & Hat'). rewrite RB. cbn [rbind]. eauto.
    - (* KStruct *) apply enc_struct_inv in HE.
      destruct (IHf s' fs pay (s_init (tbl s')) d tail pos lf HE TV Hat) as (d' & PS & Hat'). rewrite PS. cbn [rbind]. eauto.
    - (* KListI32 *) destruct et; try contradiction.
      destruct (enc_list_inv _ _ _ HE) as (ec & h & body & -> & TC & LH & EE).
      pose proof (type_of_code_bound _ _ TC) as ECb. rewrite <- app_assoc in Hat.
      assert (Hn : N.of_nat (length vs) < 2 ^ 31) by (inversion LH; subst; [change (2 ^ 31) with 2147483648; lia | assumption]).
      destruct (read_list_begin_spec ec _ h d (body ++ tail) pos lf ltac:(lia) LH Hn) as (d1 & RL & Hat1);
        [rewrite Nat2N.id, app_length; pose proof (enc_elems_length _ _ _ EE); lia | exact Hat |].
      rewrite RL. cbn [rbind]. unfold validate_count.
      assert (VC : ((Z.of_N (N.of_nat (length vs)) <? 0) || (max <? Z.of_N (N.of_nat (length vs))))%Z = false)
        by (apply orb_false_iff; split; [apply Z.ltb_ge | apply Z.ltb_ge]; lia).
      rewrite VC. cbn [rbind]. replace (Z.to_nat (Z.of_N (N.of_nat (length vs)))) with (length vs) by lia.
      destruct (repeat_read_elems read_i32_m (fun x => match x with VI32 z => MInt z | _ => MInt 0%Z end) TI32 lf vs body EE) with (d := d1) (tail := tail) (pos := pos + N.of_nat (length h))
        as (d2 & RR & Hat2); [|exact Hat1|].
      { intros v b dd tl p _ Hv Hd. destruct (enc_vi32 _ _ Hv) as [z ->]. apply read_i32_m_spec; [exact Hv | exact Hd]. }
      rewrite RR. cbn [rbind]. exists d2. split; [reflexivity|]. rewrite app_length.
      replace (pos + N.of_nat (length h + length body)) with (pos + N.of_nat (length h) + N.of_nat (length body)) by lia. exact Hat2.
    - (* KListStr *) destruct et; try contradiction.
      destruct (enc_list_inv _ _ _ HE) as (ec & h & body & -> & TC & LH & EE).
      pose proof (type_of_code_bound _ _ TC) as ECb. rewrite <- app_assoc in Hat.
      assert (Hn : N.of_nat (length vs) < 2 ^ 31) by (inversion LH; subst; [change (2 ^ 31) with 2147483648; lia | assumption]).
      destruct (read_list_begin_spec ec _ h d (body ++ tail) pos lf ltac:(lia) LH Hn) as (d1 & RL & Hat1);
        [rewrite Nat2N.id, app_length; pose proof (enc_elems_length _ _ _ EE); lia | exact Hat |].
      rewrite RL. cbn [rbind]. unfold validate_count.
      assert (VC : ((Z.of_N (N.of_nat (length vs)) <? 0) || (max <? Z.of_N (N.of_nat (length vs))))%Z = false)
        by (apply orb_false_iff; split; [apply Z.ltb_ge | apply Z.ltb_ge]; lia).
      rewrite VC. cbn [rbind]. replace (Z.to_nat (Z.of_N (N.of_nat (length vs)))) with (length vs) by lia.
      destruct (repeat_read_elems read_str (fun x => match x with VBinary bs => MBytes (Some (cstr bs)) | _ => MBytes None end) TBinary lf vs body EE)
        with (d := d1) (tail := tail) (pos := pos + N.of_nat (length h)) as (d2 & RR & Hat2); [|exact Hat1|].
      { intros v b dd tl p _ Hv Hd. destruct (enc_vbinary _ _ Hv) as [bs ->]. apply read_str_spec; [exact Hv | exact Hd]. }
      rewrite RR. cbn [rbind]. exists d2. split; [reflexivity|]. rewrite app_length.
      replace (pos + N.of_nat (length h + length body)) with (pos + N.of_nat (length h) + N.of_nat (length body)) by lia. exact Hat2.
    - (* KListStruct *) destruct et; try contradiction. destruct TV as [TV1 TV2].
      destruct (enc_list_inv _ _ _ HE) as (ec & h & body & -> & TC & LH & EE).
      pose proof (type_of_code_bound _ _ TC) as ECb. rewrite <- app_assoc in Hat.
      assert (Hn : N.of_nat (length vs) < 2 ^ 31) by (inversion LH; subst; [change (2 ^ 31) with 2147483648; lia | assumption]).
      destruct (read_list_begin_spec ec _ h d (body ++ tail) pos lf ltac:(lia) LH Hn) as (d1 & RL & Hat1);
        [rewrite Nat2N.id, app_length; pose proof (enc_elems_length _ _ _ EE); lia | exact Hat |].
      rewrite RL. cbn [rbind]. unfold validate_count.
      assert (VC : ((Z.of_N (N.of_nat (length vs)) <? 0) || (max <? Z.of_N (N.of_nat (length vs))))%Z = false)
        by (apply orb_false_iff; split; [apply Z.ltb_ge | apply Z.ltb_ge]; lia).
      rewrite VC. cbn [rbind]. replace (Z.to_nat (Z.of_N (N.of_nat (length vs)))) with (length vs) by lia.
      destruct (repeat_read_elems
                  (fun d0 => do (sub, d1) <- parse_struct tbl fuel s' (s_init (tbl s')) d0; Ok (MRec sub, d1))
                  (fun x => match x with VStruct fs => MRec (interp tbl fuel s' fs (s_init (tbl s'))) | _ => MRec [] end)
                  TStruct lf vs body EE) with (d := d1) (tail := tail) (pos := pos + N.of_nat (length h)) as (d2 & RR & Hat2); [|exact Hat1|].
      { intros v b dd tl p Hin Hv Hd. destruct (enc_vstruct _ _ Hv) as [fs ->]. apply enc_struct_inv in Hv.
        rewrite Forall_forall in TV2. specialize (TV2 _ Hin). cbn in TV2.
        destruct (IHf s' fs b (s_init (tbl s')) dd tl p lf Hv TV2 Hd) as (d' & PS & Hat'). rewrite PS. cbn [rbind]. eauto. }
      rewrite RR. cbn [rbind]. exists d2. split; [reflexivity|]. rewrite app_length.
      replace (pos + N.of_nat (length h + length body)) with (pos + N.of_nat (length h) + N.of_nat (length body)) by lia. exact Hat2.
    - (* KInline *) apply enc_struct_inv in HE. apply IHf; assumption.
  Qed.

  (** the `while (thrift_read_field_begin ...) switch (field_id)` loop on any legal encoding of a field list *)
  Lemma fields_loop_spec fuel (IHf : struct_spec fuel) fds lf :
    forall last fs pre, enc_fields last fs pre ->
    forall k r d tail pos, in_range 16 last ->
      Forall (typed_one (typed tbl fuel) fds (len lf + 1)) fs -> (length fs < length k)%nat ->
      at_ d (pre ++ tail) pos (last :: lf) ->
      exists d' last', parse_loop (handle_field tbl (parse_struct tbl fuel) fds) k r d =
                         Ok (fold_left (interp_one tbl (interp tbl fuel) fds) fs r, d') /\
                       at_ d' tail (pos + N.of_nat (length pre)) (last' :: lf).
  Proof.
    induction 1 as [last | last id b fs h rest Rid FH HF IH | last id v fs h pay rest Rid NB FH HE HF IH];
      intros k r d tail pos Rl TY Hk Hat.
    - (* STOP *) destruct k; [simpl in Hk; lia|]. cbn [parse_loop app].
      destruct (read_field_begin_stop _ _ _ _ Hat) as (d' & RF & Hat'). rewrite RF. cbn [rbind].
      exists d', last. split; [reflexivity | exact Hat'].
    - (* boolean field: the value is in the header *)
      destruct k as [|k0 k]; [simpl in Hk; lia|]. cbn [parse_loop]. rewrite <- app_assoc in Hat.
      destruct (read_field_begin_spec last id _ h d (rest ++ tail) pos lf FH ltac:(destruct b; lia) Rid Rl Hat) as (d1 & RF & A).
      rewrite RF. cbn [rbind]. inversion TY as [|x l T1 T2]; subst.
      assert (STEP : exists d2, handle_field tbl (parse_struct tbl fuel) fds (if b then 1 else 2) id r d1 =
                                  Ok (interp_one tbl (interp tbl fuel) fds r (id, VBool b), d2) /\
                                at_ d2 (rest ++ tail) (pos + N.of_nat (length h)) (id :: lf)).
      { assert (TC12 : (if b then 1 else 2) = 1 \/ (if b then 1 else 2) = 2) by (destruct b; auto).
        unfold handle_field, interp_one, typed_one in *. cbn [fst snd] in *.
        destruct (find_field id fds) as [f|] eqn:FF.
        - unfold parse_field, interp_field. destruct (f_kind f) eqn:K; cbn [typed_value] in T1; try contradiction.
          + (* KBool *) unfold read_bool. destruct A as (R1 & P1 & L1 & B1 & V1).
            assert (BP : d_boolp d1 = true) by (rewrite B1; destruct b; reflexivity). rewrite BP. cbn [rbind].
            rewrite (V1 BP). destruct b; (eexists; split; [reflexivity | unfold at_; simpl; auto]).
          + (* KSetSkip *) destruct (thrift_skip_bool_field_spec (if b then 1 else 2) d1 _ _ _ TC12 A) as (d2 & SK & Hat2).
            rewrite SK. cbn [rbind]. eauto.
        - destruct (thrift_skip_bool_field_spec (if b then 1 else 2) d1 _ _ _ TC12 A) as (d2 & SK & Hat2).
          rewrite SK. cbn [rbind]. eauto. }
      destruct STEP as (d2 & HS & Hat2). rewrite HS. cbn [rbind].
      destruct (IH k (interp_one tbl (interp tbl fuel) fds r (id, VBool b)) d2 tail (pos + N.of_nat (length h)) Rid T2 ltac:(simpl in Hk; lia) Hat2)
        as (d3 & last' & PL & Hat3).
      exists d3, last'. split; [exact PL|]. rewrite app_length.
      replace (pos + N.of_nat (length h + length rest)) with (pos + N.of_nat (length h) + N.of_nat (length rest)) by lia. exact Hat3.
    - (* any other field *)
      destruct k as [|k0 k]; [simpl in Hk; lia|]. cbn [parse_loop]. rewrite <- !app_assoc in Hat.
      pose proof (code_bound (type_of v)) as CB. destruct (code_nonbool _ NB) as [N1 N2].
      destruct (read_field_begin_spec last id _ h d (pay ++ rest ++ tail) pos lf FH ltac:(lia) Rid Rl Hat) as (d1 & RF & A).
      rewrite RF. cbn [rbind]. inversion TY as [|x l T1 T2]; subst.
      assert (Hat1 : at_ d1 (pay ++ rest ++ tail) (pos + N.of_nat (length h)) (id :: lf)).
      { destruct A as (R1 & P1 & L1 & B1 & V1). unfold at_. repeat split; auto. rewrite B1.
        apply N.eqb_neq in N1, N2. rewrite N1, N2. reflexivity. }
      assert (STEP : exists d2, handle_field tbl (parse_struct tbl fuel) fds (code (type_of v)) id r d1 =
                                  Ok (interp_one tbl (interp tbl fuel) fds r (id, v), d2) /\
                                at_ d2 (rest ++ tail) (pos + N.of_nat (length h) + N.of_nat (length pay)) (id :: lf)).
      { unfold handle_field, interp_one, typed_one in *. cbn [fst snd] in *.
        destruct (find_field id fds) as [f|] eqn:FF.
        - apply (parse_field_spec fuel IHf f v pay r d1 (rest ++ tail) (pos + N.of_nat (length h)) (id :: lf) NB HE); [|exact Hat1].
          rewrite len_cons. exact T1.
        - destruct T1 as [D1 D2].
          destruct (thrift_skip_field_spec v pay d1 (rest ++ tail) (pos + N.of_nat (length h)) (id :: lf) NB HE D1) as (d2 & SK & Hat2);
            [rewrite len_cons; exact D2 | exact Hat1 |].
          rewrite SK. cbn [rbind]. eauto. }
      destruct STEP as (d2 & HS & Hat2). rewrite HS. cbn [rbind].
      destruct (IH k (interp_one tbl (interp tbl fuel) fds r (id, v)) d2 tail (pos + N.of_nat (length h) + N.of_nat (length pay)) Rid T2 ltac:(simpl in Hk; lia) Hat2)
        as (d3 & last' & PL & Hat3).
      exists d3, last'. split; [exact PL|]. rewrite !app_length.
      replace (pos + N.of_nat (length h + (length pay + length rest)))
        with (pos + N.of_nat (length h) + N.of_nat (length pay) + N.of_nat (length rest)) by lia. exact Hat3.
  Qed.

  (** parse_xxx() on any legal encoding of a struct whose known fields are well typed *)
  Theorem parse_struct_spec : forall fuel, struct_spec fuel.
  Proof.
    induction fuel as [|fuel IH]; intros sid fs pre r d tail pos lf HE TY Hat; [destruct TY|].
    destruct TY as [NL TY]. cbn [parse_struct interp].
    unfold read_struct_begin. destruct Hat as (R & P & L & B). rewrite L.
    assert (E : (MAX_NESTING <=? len lf) = false) by (apply N.leb_gt; exact NL). rewrite E. cbn [rbind].
    set (d0 := with_lfid d (0%Z :: lf)).
    assert (Hat0 : at_ d0 (pre ++ tail) pos (0%Z :: lf)) by (unfold at_, d0; simpl; auto).
    destruct (fields_loop_spec fuel IH (s_fields (tbl sid)) lf 0%Z fs pre HE (0 :: d_rest d0) r d0 tail pos) as (d1 & last' & PL & Hat1).
    - unfold in_range. simpl. lia.
    - exact TY.
    - unfold d0. simpl. rewrite R, app_length. pose proof (enc_fields_length _ _ _ HE). lia.
    - exact Hat0.
    - rewrite PL. cbn [rbind]. eexists. split; [reflexivity|]. destruct Hat1 as (R1 & P1 & L1 & B1).
      unfold at_, read_struct_end. simpl. rewrite L1. simpl. auto.
  Qed.

  (** parquet_parse_xxx(data, size): every legal encoding of a well-typed field list parses to [interp],
      all bytes consumed *)
  Theorem parse_accepts : forall fuel sid fs bs,
    Encodes bs (VStruct fs) -> typed tbl fuel sid 0 fs ->
    parse_message tbl fuel sid bs = Ok (interp tbl fuel sid fs (s_init (tbl sid)), N.of_nat (length bs)).
  Proof.
    intros fuel sid fs bs HE TY. unfold parse_message, Encodes in *. apply enc_struct_inv in HE.
    destruct (parse_struct_spec fuel sid fs bs (s_init (tbl sid)) (decoder_init bs) [] 0 []) as (d' & PS & Hat).
    - exact HE.
    - exact TY.
    - rewrite app_nil_r. unfold at_, decoder_init. simpl. auto.
    - rewrite PS. cbn [rbind]. destruct Hat as (_ & P & _). rewrite P. reflexivity.
  Qed.
End Accepts.

(* ------------------------------------------------------------------------------------------ *)
(** * write_is_compact *)
Section Compact.
  Variable tbl : nat -> sdesc.
  (** field ids are positive int16 (so that headers never wrap) *)
  Hypothesis ids_ok : forall sid f, In f (s_fields (tbl sid)) -> (0 < f_id f <= 32767)%Z.

  Definition write_spec (fuel : nat) : Prop :=
    forall sid r e, wf tbl fuel sid r -> len (e_lfid e) + N.of_nat fuel < ENC_MAX_NESTING ->
      exists e' bs, write_struct tbl fuel sid r e = Ok e' /\ wrote e e' bs (e_lfid e) /\
                    enc_fields 0%Z (fields_of tbl fuel sid r) bs.

  Lemma wrote_refl e : wrote e e [] (e_lfid e).
  Proof. split; [rewrite app_nil_r; reflexivity | reflexivity]. Qed.

  Lemma write_binary_null e : exists e', write_binary None 0 e = Ok e' /\ wrote e e' [0] (e_lfid e).
  Proof.
    unfold write_binary. change (u64 (i32 0)) with 0.
    destruct (write_varint_spec 0 e ltac:(reflexivity)) as (e1 & W & Wr). rewrite W. exists e1. split; [reflexivity | exact Wr].
  Qed.

  Lemma bytes_ok_enc bs : bytes_ok bs -> enc TBinary (VBinary bs) (uleb (N.of_nat (length bs)) ++ bs).
  Proof.
    intros [B L]. constructor; [exact B | exact L | apply uleb_varint; apply lt31_64; exact L].
  Qed.

  Lemma write_cstr_spec c e : bytes_ok c ->
    exists e', write_binary (Some c) (Z.of_N (len c)) e = Ok e' /\ wrote e e' (uleb (N.of_nat (length c)) ++ c) (e_lfid e).
  Proof.
    intros [B L]. unfold len. rewrite nat_N_Z. apply write_binary_spec. exact L.
  Qed.

  (** elements of a list, written one after the other *)
  Lemma iterM_elems (w : mval -> encoder -> res encoder) (g : mval -> tval) et :
    forall l e, (forall x e0, In x l -> e_lfid e0 = e_lfid e -> exists e1 b, w x e0 = Ok e1 /\ wrote e0 e1 b (e_lfid e0) /\ enc et (g x) b) ->
    exists e' body, iterM w l e = Ok e' /\ wrote e e' body (e_lfid e) /\ enc_elems et (map g l) body.
  Proof.
    induction l as [|x t IH]; intros e H.
    - exists e, []. split; [reflexivity|]. split; [apply wrote_refl | constructor].
    - cbn [iterM map]. destruct (H x e (or_introl eq_refl) eq_refl) as (e1 & b & W & Wr & HE). rewrite W. cbn [rbind].
      destruct Wr as [O1 L1].
      destruct (IH e1) as (e2 & body & W2 & [O2 L2] & HE2).
      { intros y e0 Hy HL. apply H; [right; exact Hy | congruence]. }
      exists e2, (b ++ body). split; [exact W2|]. split.
      + split; [rewrite O2, O1, app_assoc; reflexivity | congruence].
      + constructor; assumption.
  Qed.

  Lemma list_len_ok (l : list mval) max : (Z.of_nat (length l) <= max)%Z -> (max < 2 ^ 31)%Z -> N.of_nat (length l) < 2 ^ 31.
  Proof. intros A B. change (2 ^ 31)%Z with 2147483648%Z in B. change (2 ^ 31) with 2147483648. lia. Qed.

  Lemma kind_eq_bool k : k = KBool \/ k <> KBool.
  Proof. destruct k; (left; reflexivity) || (right; discriminate). Qed.

  Ltac finish W Wr := split; [reflexivity|]; split; [discriminate|]; split; [reflexivity|]; split; [exact W|]; split; [exact Wr|]; cbn [type_of].

  (** the value of one (non-boolean) field *)
  Lemma write_value_spec fuel (IHf : write_spec fuel) r k v e :
    k <> KBool -> wf_value (wf tbl fuel) r k v -> len (e_lfid e) + N.of_nat fuel < ENC_MAX_NESTING ->
    exists tv e' pay, value_of (fields_of tbl fuel) r k v = Some tv /\ type_of tv <> TBool /\
      wire_type k v = code (type_of tv) /\
      write_value (write_struct tbl fuel) r k v e = Ok e' /\ wrote e e' pay (e_lfid e) /\ enc (type_of tv) tv pay.
  Proof.
    intros NB WF Hn.
    destruct k as [ | | | | | | |s'|max err|max err|s' max err|s' pre|pre]; try congruence;
      destruct v as [z|o|sub|l]; cbn [wf_value] in WF; try contradiction; cbn [value_of write_value wire_type];
      (* KInline: the fields of the same record *)
      try solve [ destruct (IHf s' r e WF Hn) as (e' & bs & W & Wr & HE); eexists _, e', bs; finish W Wr; constructor; exact HE ];
      (* KSetSkip: an empty struct *)
      try solve [ destruct (write_struct_begin_spec e ltac:(lia)) as (e1 & W1 & [O1 L1]);
                  destruct (write_struct_end_spec e1) as (e2 & W2 & [O2 L2]);
                  rewrite W1; cbn [rbind]; eexists _, e2, [0];
                  split; [reflexivity|]; split; [discriminate|]; split; [reflexivity|]; split; [exact W2|];
                  split; [split; [rewrite O2, O1, app_nil_r; reflexivity | rewrite L2, L1; reflexivity]|];
                  cbn [type_of]; constructor; constructor ].
    - (* KI8 *) destruct (write_byte_spec z e) as (e' & W & Wr). eexists _, e', _. finish W Wr. constructor. exact WF.
    - (* KI16 *) destruct (write_int_spec 16 z e ltac:(lia) WF) as (e' & W & Wr). eexists _, e', _. finish W Wr.
      constructor; [exact WF | apply (uleb_zz_varint 16); [lia | exact WF]].
    - destruct (write_int_spec 32 z e ltac:(lia) WF) as (e' & W & Wr). eexists _, e', _. finish W Wr.
      constructor; [exact WF | apply (uleb_zz_varint 32); [lia | exact WF]].
    - destruct (write_int_spec 64 z e ltac:(lia) WF) as (e' & W & Wr). eexists _, e', _. finish W Wr.
      constructor; [exact WF | apply (uleb_zz_varint 64); [lia | exact WF]].
    - (* KBin *) destruct o as [bs|].
      + destruct WF as [B L]. destruct (write_binary_spec bs e L) as (e' & W & Wr). eexists _, e', _. finish W Wr.
        apply bytes_ok_enc. split; assumption.
      + destruct (write_binary_null e) as (e' & W & Wr). eexists _, e', _. finish W Wr.
        apply (bytes_ok_enc []). split; [constructor | reflexivity].
    - (* KStr *) destruct o as [s|]; cbn [write_string].
      + destruct (write_cstr_spec (cstr s) e WF) as (e' & W & Wr). eexists _, e', _. finish W Wr. apply bytes_ok_enc. exact WF.
      + destruct (write_binary_null e) as (e' & W & Wr). eexists _, e', _. finish W Wr.
        apply (bytes_ok_enc []). split; [constructor | reflexivity].
    - (* KStruct *) destruct (IHf s' sub e WF Hn) as (e' & bs & W & Wr & HE). eexists _, e', bs. finish W Wr. constructor. exact HE.
    - (* KListI32 *) destruct WF as (L1 & L2 & FA). pose proof (list_len_ok l max L1 L2) as LN.
      rewrite <- nat_N_Z. destruct (write_list_begin_spec 5 (N.of_nat (length l)) e ltac:(lia) LN) as (e1 & W1 & [O1 LF1]).
      rewrite W1. cbn [rbind].
      destruct (iterM_elems (fun x ea => match x with MInt z => write_i32 z ea | _ => Err ERR_SHAPE end)
                  (fun x => match x with MInt z => VI32 z | _ => VI32 0 end) TI32 l e1) as (e2 & body & W2 & [O2 LF2] & HE).
      { intros x e0 Hx _. rewrite Forall_forall in FA. specialize (FA x Hx). destruct x as [z| | |]; try contradiction.
        destruct (write_int_spec 32 z e0 ltac:(lia) FA) as (e' & W & Wr). exists e', (uleb (zz z)).
        split; [exact W|]. split; [exact Wr|]. constructor; [exact FA | apply (uleb_zz_varint 32); [lia | exact FA]]. }
      eexists _, e2, (enc_lhdr 5 (N.of_nat (length l)) ++ body).
      split; [reflexivity|]. split; [discriminate|]. split; [reflexivity|]. split; [exact W2|].
      split; [split; [rewrite O2, O1, app_assoc; reflexivity | congruence]|].
      cbn [type_of]. apply (E_list TI32 5); [reflexivity | rewrite map_length; apply enc_lhdr_ok; exact LN | exact HE].
    - (* KListStr *) destruct WF as (L1 & L2 & FA). pose proof (list_len_ok l max L1 L2) as LN.
      rewrite <- nat_N_Z. destruct (write_list_begin_spec 8 (N.of_nat (length l)) e ltac:(lia) LN) as (e1 & W1 & [O1 LF1]).
      rewrite W1. cbn [rbind].
      destruct (iterM_elems (fun x ea => match x with MBytes s => write_string s ea | _ => Err ERR_SHAPE end)
                  (fun x => match x with MBytes (Some s) => VBinary (cstr s) | _ => VBinary [] end) TBinary l e1) as (e2 & body & W2 & [O2 LF2] & HE).
      { intros x e0 Hx _. rewrite Forall_forall in FA. specialize (FA x Hx). destruct x as [|o| |]; try contradiction.
        destruct o as [s|]; cbn [write_string].
        - destruct (write_cstr_spec (cstr s) e0 FA) as (e' & W & Wr). exists e', (uleb (N.of_nat (length (cstr s))) ++ cstr s).
          split; [exact W|]. split; [exact Wr | apply bytes_ok_enc; exact FA].
        - destruct (write_binary_null e0) as (e' & W & Wr). exists e', [0]. split; [exact W|]. split; [exact Wr|].
          apply (bytes_ok_enc []). split; [constructor | reflexivity]. }
      eexists _, e2, (enc_lhdr 8 (N.of_nat (length l)) ++ body).
      split; [reflexivity|]. split; [discriminate|]. split; [reflexivity|]. split; [exact W2|].
      split; [split; [rewrite O2, O1, app_assoc; reflexivity | congruence]|].
      cbn [type_of]. apply (E_list TBinary 8); [reflexivity | rewrite map_length; apply enc_lhdr_ok; exact LN | exact HE].
    - (* KListStruct *) destruct WF as (L1 & L2 & FA). pose proof (list_len_ok l max L1 L2) as LN.
      rewrite <- nat_N_Z. destruct (write_list_begin_spec 12 (N.of_nat (length l)) e ltac:(lia) LN) as (e1 & W1 & [O1 LF1]).
      rewrite W1. cbn [rbind].
      destruct (iterM_elems (fun x ea => match x with MRec sub => write_struct tbl fuel s' sub ea | _ => Err ERR_SHAPE end)
                  (fun x => match x with MRec sub => VStruct (fields_of tbl fuel s' sub) | _ => VStruct [] end) TStruct l e1) as (e2 & body & W2 & [O2 LF2] & HE).
      { intros x e0 Hx HL. rewrite Forall_forall in FA. specialize (FA x Hx). destruct x as [| |sub|]; try contradiction.
        destruct (IHf s' sub e0 FA) as (e' & bs & W & Wr & HEs); [rewrite HL, LF1; exact Hn|].
        exists e', bs. split; [exact W|]. split; [exact Wr | constructor; exact HEs]. }
      eexists _, e2, (enc_lhdr 12 (N.of_nat (length l)) ++ body).
      split; [reflexivity|]. split; [discriminate|]. split; [reflexivity|]. split; [exact W2|].
      split; [split; [rewrite O2, O1, app_assoc; reflexivity | congruence]|].
      cbn [type_of]. apply (E_list TStruct 12); [reflexivity | rewrite map_length; apply enc_lhdr_ok; exact LN | exact HE].
  Qed.
  Lemma in_range16 z : (0 <= z <= 32767)%Z -> in_range 16 z.
  Proof. unfold in_range. change (2 ^ (16 - 1))%Z with 32768%Z. lia. Qed.

  (** the fields of one struct, in table order, threading the last field id *)
  Lemma fields_write_spec fuel (IHf : write_spec fuel) r st :
    forall fds last e, e_lfid e = last :: st -> (0 <= last <= 32767)%Z ->
      (forall f, In f fds -> (0 < f_id f <= 32767)%Z) ->
      Forall (wf_field (wf tbl fuel) r) fds -> len (e_lfid e) + N.of_nat fuel < ENC_MAX_NESTING ->
      exists e' last' bs, iterM (write_field (write_struct tbl fuel) r) fds e = Ok e' /\
        wrote e e' bs (last' :: st) /\ (0 <= last' <= 32767)%Z /\
        forall tailfs rest, enc_fields last' tailfs rest ->
          enc_fields last (flat_map (field_of (fields_of tbl fuel) r) fds ++ tailfs) (bs ++ rest).
  Proof.
    induction fds as [|f fds IH]; intros last e HL Rl IDS WF Hn.
    - exists e, last, []. split; [reflexivity|]. split; [split; [rewrite app_nil_r; reflexivity | exact HL]|].
      split; [exact Rl|]. intros tailfs rest H. exact H.
    - cbn [iterM flat_map]. inversion WF as [|x l WF1 WF2]; subst.
      pose proof (IDS f (or_introl eq_refl)) as IDf.
      unfold write_field at 1, field_of at 1. destruct (present f r) eqn:P.
      + destruct (WF1 P) as (v & NT & WV). rewrite NT.
        assert (STEP : exists e1 hb tvs, (do e1 <- write_field_header (wire_type (f_kind f) v) (f_id f) e;
                                          write_value (write_struct tbl fuel) r (f_kind f) v e1) = Ok e1 /\
                   wrote e e1 hb (f_id f :: st) /\
                   match value_of (fields_of tbl fuel) r (f_kind f) v with Some tv => [(f_id f, tv)] | None => [] end = tvs /\
                   forall tailfs rest, enc_fields (f_id f) tailfs rest -> enc_fields last (tvs ++ tailfs) (hb ++ rest)).
        { destruct (kind_eq_bool (f_kind f)) as [KB | KB].
          - (* boolean: value in the header *)
            rewrite KB in *. destruct v as [z| | |]; cbn [wf_value] in WV; try contradiction.
            cbn [wire_type value_of write_value].
            set (b := negb (z =? 0)%Z).
            assert (WT : match z with 0%Z => 2 | _ => 1 end = if b then 1 else 2) by (unfold b; destruct z; reflexivity).
            change (match MInt z with MInt 0 => 2 | _ => 1 end) with (match z with 0%Z => 2 | _ => 1 end). rewrite WT.
            destruct (write_field_header_spec (if b then 1 else 2) (f_id f) last st e ltac:(destruct b; lia)
                        (in_range16 (f_id f) ltac:(lia)) (in_range16 last Rl) ltac:(lia) HL) as (e1 & W & Wr).
            rewrite W. cbn [rbind]. exists e1, (enc_fhdr last (f_id f) (if b then 1 else 2)), [(f_id f, VBool b)].
            split; [reflexivity|]. split; [exact Wr|]. split; [reflexivity|].
            intros tailfs rest H. cbn [app]. apply EF_bool; [apply in_range16; lia | apply enc_fhdr_ok; apply in_range16; lia | exact H].
          - (* any other kind *)
            assert (HT : wire_type (f_kind f) v <= 15) by (destruct (f_kind f); cbn [wire_type]; try lia; destruct v as [[| |]| | |]; lia).
            destruct (write_field_header_spec (wire_type (f_kind f) v) (f_id f) last st e HT
                        (in_range16 (f_id f) ltac:(lia)) (in_range16 last Rl) ltac:(lia) HL) as (e1 & W & [O1 L1]).
            rewrite W. cbn [rbind].
            destruct (write_value_spec fuel IHf r (f_kind f) v e1 KB WV) as (tv & e2 & pay & VO & NBt & WTt & W2 & [O2 L2] & HE).
            { rewrite L1. rewrite HL in Hn. unfold len in *. cbn [length] in *. exact Hn. }
            rewrite W2, VO. exists e2, (enc_fhdr last (f_id f) (wire_type (f_kind f) v) ++ pay), [(f_id f, tv)].
            split; [reflexivity|]. split; [split; [rewrite O2, O1, app_assoc; reflexivity | rewrite L2, L1; reflexivity]|].
            split; [reflexivity|]. intros tailfs rest H. cbn [app]. rewrite <- app_assoc.
            apply EF_val; [apply in_range16; lia | exact NBt | rewrite <- WTt; apply enc_fhdr_ok; apply in_range16; lia | exact HE | exact H]. }
        destruct STEP as (e1 & hb & tvs & W1 & [O1 L1] & TV & K1). rewrite W1. cbn [rbind]. rewrite TV.
        destruct (IH (f_id f) e1 L1 ltac:(lia) (fun g Hg => IDS g (or_intror Hg)) WF2) as (e2 & last' & bs & W2 & [O2 L2] & R2 & K2).
        { rewrite L1. rewrite HL in Hn. unfold len in *. cbn [length] in *. exact Hn. }
        exists e2, last', (hb ++ bs). split; [exact W2|]. split; [split; [rewrite O2, O1, app_assoc; reflexivity | exact L2]|].
        split; [exact R2|]. intros tailfs rest H. rewrite <- !app_assoc. apply K1. apply K2. exact H.
      + cbn [rbind app].
        destruct (IH last e HL Rl (fun g Hg => IDS g (or_intror Hg)) WF2 Hn) as (e2 & last' & bs & W2 & Wr2 & R2 & K2).
        exists e2, last', bs. auto.
  Qed.
  (** write_xxx(): the bytes are a legal encoding of the fields [fields_of] lists *)
  Theorem write_struct_spec : forall fuel, write_spec fuel.
  Proof.
    induction fuel as [|fuel IH]; intros sid r e WF Hn; [destruct WF|].
    cbn [write_struct wf fields_of] in *.
    destruct (write_struct_begin_spec e ltac:(lia)) as (e0 & W0 & [O0 L0]). rewrite W0. cbn [rbind].
    destruct (fields_write_spec fuel IH r (e_lfid e) (s_fields (tbl sid)) 0%Z e0 L0 ltac:(lia) (ids_ok sid) WF) as (e1 & last' & bs & W1 & [O1 L1] & R1 & K1).
    { rewrite L0. unfold len in *. cbn [length]. lia. }
    rewrite W1. cbn [rbind].
    destruct (write_struct_end_spec e1) as (e2 & W2 & [O2 L2]). exists e2, (bs ++ [0]).
    split; [exact W2|]. split; [split; [rewrite O2, O1, O0, app_nil_r, app_assoc; reflexivity | rewrite L2, L1; reflexivity]|].
    specialize (K1 [] [0] (EF_stop last')). rewrite app_nil_r in K1. exact K1.
  Qed.

  Theorem write_message_spec : forall fuel sid r, wf tbl fuel sid r -> N.of_nat fuel < ENC_MAX_NESTING ->
    exists bs, write_message tbl fuel sid r = Ok bs /\ Encodes bs (to_tval tbl fuel sid r).
  Proof.
    intros fuel sid r WF Hn. unfold write_message.
    destruct (write_struct_spec fuel sid r encoder_init WF) as (e' & bs & W & [O L] & HE); [simpl; lia|].
    rewrite W. cbn [rbind]. exists (e_out e'). split; [reflexivity|]. rewrite O. cbn. constructor. exact HE.
  Qed.
End Compact.

(* ------------------------------------------------------------------------------------------ *)
(** * write_parse *)
Section Roundtrip.
  Variable tbl : nat -> sdesc.
  Hypothesis ids_ok : forall sid f, In f (s_fields (tbl sid)) -> (0 < f_id f <= 32767)%Z.
  (** a field id names one field of a struct *)
  Hypothesis ids_nodup : forall sid, NoDup (map f_id (s_fields (tbl sid))).

  Lemma find_field_in fds f : NoDup (map f_id fds) -> In f fds -> find_field (f_id f) fds = Some f.
  Proof.
    induction fds as [|g fds IH]; intros ND Hin; [destruct Hin|]. cbn [find_field find]. inversion ND; subst.
    destruct Hin as [->|Hin]; [rewrite Z.eqb_refl; reflexivity|].
    destruct (f_id g =? f_id f)%Z eqn:E.
    - apply Z.eqb_eq in E. exfalso. apply H1. rewrite E. apply in_map. exact Hin.
    - apply IH; assumption.
  Qed.

  (** what the writer emits is well typed for the parser *)
  Lemma fields_of_typed : forall fuel sid r nl, wf tbl fuel sid r -> nl + N.of_nat fuel < MAX_NESTING ->
    typed tbl fuel sid nl (fields_of tbl fuel sid r).
  Proof.
    induction fuel as [|fuel IH]; intros sid r nl WF Hn; [destruct WF|]. cbn [typed fields_of wf] in *.
    split; [lia|]. pose proof (ids_nodup sid) as ND. set (all := s_fields (tbl sid)) in *.
    assert (AUX : forall fds, (forall f, In f fds -> In f all) -> Forall (wf_field (wf tbl fuel) r) fds ->
                  Forall (typed_one (typed tbl fuel) all (nl + 1)) (flat_map (field_of (fields_of tbl fuel) r) fds));
      [|apply AUX; [auto | exact WF]].
    induction fds as [|f fds IHl]; intros SUB WFl; [constructor|].
    inversion WFl as [|x l WF1 WF2]; subst. cbn [flat_map]. apply Forall_app.
    split; [|apply IHl; [intros g Hg; apply SUB; right; exact Hg | exact WF2]].
    unfold field_of. destruct (present f r) eqn:P; [|constructor]. destruct (WF1 P) as (v & NT & WV). rewrite NT.
    destruct (value_of (fields_of tbl fuel) r (f_kind f) v) as [tv|] eqn:VO; [|constructor]. constructor; [|constructor].
    unfold typed_one. cbn [fst snd]. rewrite (find_field_in _ f ND (SUB f (or_introl eq_refl))).
    destruct (f_kind f) as [ | | | | | | |s'|max err|max err|s' max err|s' pre|pre]; destruct v as [z|o|sub|l];
      cbn [wf_value value_of] in WV, VO; try contradiction; try discriminate; inversion VO; subst; cbn [typed_value]; auto.
    - destruct o; inversion VO; subst; exact I.
    - destruct o; inversion VO; subst; exact I.
    - apply IH; [exact WV | lia].
    - destruct WV as (L1 & _). rewrite map_length. exact L1.
    - destruct WV as (L1 & _). rewrite map_length. exact L1.
    - destruct WV as (L1 & L2 & FA). rewrite map_length. split; [exact L1|]. apply Forall_map.
      eapply Forall_impl; [|exact FA]. intros x Hx. destruct x; try contradiction. apply IH; [exact Hx | lia].
    - apply IH; [exact WV | lia].
    - apply IH; [exact WV | lia].
    - apply IH; [exact WV | lia].
    - apply IH; [exact WV | lia].
    - cbn [vdepth fold_right]. lia.
    - cbn [vdepth fold_right]. lia.
    - cbn [vdepth fold_right]. lia.
    - cbn [vdepth fold_right]. lia.
  Qed.

  (** THE GENERIC ROUND TRIP.  For every descriptor table with positive, distinct field ids, every record in
      the writer's domain: the bytes written are a legal compact-protocol encoding of [to_tval r] (and the
      independent reader of the specification reads exactly that), and the parser reads them back to
      [norm r], consuming exactly the bytes produced. *)
  Theorem write_parse_generic : forall fuel sid r,
    wf tbl fuel sid r -> N.of_nat fuel < ENC_MAX_NESTING -> N.of_nat fuel < MAX_NESTING ->
    exists bs, write_message tbl fuel sid r = Ok bs /\
               spec_decode bs = Some (to_tval tbl fuel sid r) /\
               parse_message tbl fuel sid bs = Ok (norm tbl fuel sid r, N.of_nat (length bs)).
  Proof.
    intros fuel sid r WF H1 H2.
    destruct (write_message_spec tbl ids_ok fuel sid r WF H1) as (bs & W & HE).
    exists bs. split; [exact W|]. split; [apply spec_decode_complete; exact HE|].
    unfold norm. apply parse_accepts; [exact HE|]. apply fields_of_typed; [exact WF | lia].
  Qed.
End Roundtrip.

(* ------------------------------------------------------------------------------------------ *)
(** * carquet's FileMetaData and PageHeader *)

Definition ids_ok_upto (tbl : nat -> sdesc) (n : nat) : bool :=
  forallb (fun sid => forallb (fun f => (0 <? f_id f)%Z && (f_id f <=? 32767)%Z) (s_fields (tbl sid))) (seq 0 n).

Fixpoint nodup_z (l : list Z) : bool :=
  match l with [] => true | x :: t => negb (existsb (Z.eqb x) t) && nodup_z t end.

Lemma nodup_z_spec l : nodup_z l = true -> NoDup l.
Proof.
  induction l as [|x t IH]; intros H; [constructor|]. cbn [nodup_z] in H. apply andb_true_iff in H. destruct H as [H1 H2].
  constructor; [|apply IH; exact H2]. intros Hin. apply negb_true_iff in H1.
  assert (existsb (Z.eqb x) t = true) by (apply existsb_exists; exists x; split; [exact Hin | apply Z.eqb_refl]). congruence.
Qed.

Lemma carquet_empty_above sid : (18 <= sid)%nat -> s_fields (carquet_tbl sid) = [].
Proof. intros H. do 18 (destruct sid as [|sid]; [lia|]). reflexivity. Qed.

Lemma carquet_ids_ok : forall sid f, In f (s_fields (carquet_tbl sid)) -> (0 < f_id f <= 32767)%Z.
Proof.
  assert (H : ids_ok_upto carquet_tbl 18 = true) by (vm_compute; reflexivity).
  intros sid f Hf. destruct (Nat.lt_ge_cases sid 18) as [Lt|Ge].
  - unfold ids_ok_upto in H. rewrite forallb_forall in H. specialize (H sid ltac:(apply in_seq; lia)).
    rewrite forallb_forall in H. specialize (H f Hf). apply andb_true_iff in H. destruct H as [A B].
    apply Z.ltb_lt in A. apply Z.leb_le in B. lia.
  - rewrite carquet_empty_above in Hf by exact Ge. destruct Hf.
Qed.

Lemma carquet_ids_nodup : forall sid, NoDup (map f_id (s_fields (carquet_tbl sid))).
Proof.
  assert (H : forallb (fun sid => nodup_z (map f_id (s_fields (carquet_tbl sid)))) (seq 0 18) = true) by (vm_compute; reflexivity).
  intros sid. destruct (Nat.lt_ge_cases sid 18) as [Lt|Ge].
  - rewrite forallb_forall in H. apply nodup_z_spec. apply H. apply in_seq. lia.
  - rewrite carquet_empty_above by exact Ge. constructor.
Qed.

Lemma fuel_ok : N.of_nat FUEL < ENC_MAX_NESTING /\ N.of_nat FUEL < MAX_NESTING.
Proof. split; vm_compute; reflexivity. Qed.

(** write_parse + write_is_compact for parquet_write_file_metadata / parquet_parse_file_metadata *)
Theorem file_metadata_roundtrip : forall m, wf_file_metadata m ->
  exists bs, write_file_metadata m = Ok bs /\
             spec_decode bs = Some (to_tval_file_metadata m) /\
             parse_file_metadata bs = Ok (norm_file_metadata m, N.of_nat (length bs)).
Proof.
  intros m WF. destruct fuel_ok as [F1 F2].
  apply (write_parse_generic carquet_tbl carquet_ids_ok carquet_ids_nodup FUEL S_FILE_META m WF F1 F2).
Qed.

(** ... and for parquet_write_page_header / parquet_parse_page_header *)
Theorem page_header_roundtrip : forall m, wf_page_header m ->
  exists bs, write_page_header m = Ok bs /\
             spec_decode bs = Some (to_tval_page_header m) /\
             parse_page_header bs = Ok (norm_page_header m, N.of_nat (length bs)).
Proof.
  intros m WF. destruct fuel_ok as [F1 F2].
  apply (write_parse_generic carquet_tbl carquet_ids_ok carquet_ids_nodup FUEL S_PAGE_HEADER m WF F1 F2).
Qed.

(** carquet parses what an independent encoder produces: ANY legal encoding of a field list whose known
    fields have the types of parquet.thrift - any field order, long-form headers, padded varints, unknown
    fields of every wire type at every struct (within THRIFT_MAX_NESTING) *)
Theorem file_metadata_parse_accepts : forall fs bs, Encodes bs (VStruct fs) -> typed carquet_tbl FUEL S_FILE_META 0 fs ->
  parse_file_metadata bs = Ok (interp carquet_tbl FUEL S_FILE_META fs (s_init d_file_meta), N.of_nat (length bs)).
Proof. intros fs bs H T. apply (parse_accepts carquet_tbl FUEL S_FILE_META fs bs H T). Qed.

Theorem page_header_parse_accepts : forall fs bs, Encodes bs (VStruct fs) -> typed carquet_tbl FUEL S_PAGE_HEADER 0 fs ->
  parse_page_header bs = Ok (interp carquet_tbl FUEL S_PAGE_HEADER fs (s_init d_page_header), N.of_nat (length bs)).
Proof. intros fs bs H T. apply (parse_accepts carquet_tbl FUEL S_PAGE_HEADER fs bs H T). Qed.

(** unknown fields are ignored: the structure built does not depend on them (at the top level here; inside
    nested structs by the same lemma, since [interp] is the same function at every level) *)
Lemma interp_ignores_unknown tbl fuel sid uid v fs1 fs2 r :
  find_field uid (s_fields (tbl sid)) = None ->
  interp tbl fuel sid (fs1 ++ (uid, v) :: fs2) r = interp tbl fuel sid (fs1 ++ fs2) r.
Proof.
  intros H. destruct fuel; [reflexivity|]. cbn [interp]. rewrite !fold_left_app. cbn [fold_left].
  unfold interp_one at 2. cbn [fst]. rewrite H. reflexivity.
Qed.

Theorem page_header_accepts_unknown_field : forall fs1 fs2 uid v bs',
  find_field uid (s_fields d_page_header) = None ->
  typed carquet_tbl FUEL S_PAGE_HEADER 0 (fs1 ++ fs2) ->
  N.of_nat (vdepth v) + 1 <= MAX_NESTING ->
  Encodes bs' (VStruct (fs1 ++ (uid, v) :: fs2)) ->
  parse_page_header bs' = Ok (interp carquet_tbl FUEL S_PAGE_HEADER (fs1 ++ fs2) (s_init d_page_header), N.of_nat (length bs')).
Proof.
  intros fs1 fs2 uid v bs' NF TY DV HE.
  rewrite <- (interp_ignores_unknown carquet_tbl FUEL S_PAGE_HEADER uid v fs1 fs2 _ NF).
  apply page_header_parse_accepts; [exact HE|].
  destruct TY as [NL TY]. split; [exact NL|]. apply Forall_app in TY. destruct TY as [T1 T2]. apply Forall_app.
  split; [exact T1|]. constructor; [|exact T2]. unfold typed_one. cbn [fst snd]. change (s_fields (carquet_tbl S_PAGE_HEADER)) with (s_fields d_page_header).
  rewrite NF. split; lia.
Qed.

Theorem file_metadata_accepts_unknown_field : forall fs1 fs2 uid v bs',
  find_field uid (s_fields d_file_meta) = None ->
  typed carquet_tbl FUEL S_FILE_META 0 (fs1 ++ fs2) ->
  N.of_nat (vdepth v) + 1 <= MAX_NESTING ->
  Encodes bs' (VStruct (fs1 ++ (uid, v) :: fs2)) ->
  parse_file_metadata bs' = Ok (interp carquet_tbl FUEL S_FILE_META (fs1 ++ fs2) (s_init d_file_meta), N.of_nat (length bs')).
Proof.
  intros fs1 fs2 uid v bs' NF TY DV HE.
  rewrite <- (interp_ignores_unknown carquet_tbl FUEL S_FILE_META uid v fs1 fs2 _ NF).
  apply file_metadata_parse_accepts; [exact HE|].
  destruct TY as [NL TY]. split; [exact NL|]. apply Forall_app in TY. destruct TY as [T1 T2]. apply Forall_app.
  split; [exact T1|]. constructor; [|exact T2]. unfold typed_one. cbn [fst snd]. change (s_fields (carquet_tbl S_FILE_META)) with (s_fields d_file_meta).
  rewrite NF. split; lia.
Qed.

(** the executable domain check is sound *)
Lemma bytes_okb_sound bs : bytes_okb bs = true -> bytes_ok bs.
Proof.
  unfold bytes_okb, bytes_ok. intros H. apply andb_true_iff in H. destruct H as [A B]. apply N.ltb_lt in B. split; [|exact B].
  rewrite forallb_forall in A. apply Forall_forall. intros x Hx. apply N.ltb_lt. apply A. exact Hx.
Qed.

Lemma wfb_sound tbl : forall fuel sid r, wfb tbl fuel sid r = true -> wf tbl fuel sid r.
Proof.
  induction fuel as [|fuel IH]; intros sid r H; [discriminate|]. cbn [wfb wf] in *.
  rewrite forallb_forall in H. apply Forall_forall. intros f Hf P. specialize (H f Hf). unfold wfb_field in H. rewrite P in H.
  destruct (nth_error r (f_slot f)) as [v|]; [|discriminate]. exists v. split; [reflexivity|].
  destruct (f_kind f) as [ | | | | | | |s'|max err|max err|s' max err|s' pre|pre]; destruct v as [z|o|sub|l];
    cbn [wfb_value wf_value] in *; try discriminate; try exact I; try (apply in_rangeb_iff; exact H); try (apply IH; exact H).
  - destruct o; [apply bytes_okb_sound; exact H | exact I].
  - destruct o; [apply bytes_okb_sound; exact H | exact I].
  - apply andb_true_iff in H. destruct H as [H H3]. apply andb_true_iff in H. destruct H as [H1 H2].
    apply Z.leb_le in H1. apply Z.ltb_lt in H2. split; [exact H1|]. split; [exact H2|].
    rewrite forallb_forall in H3. apply Forall_forall. intros x Hx. specialize (H3 x Hx). destruct x; try discriminate.
    apply in_rangeb_iff. exact H3.
  - apply andb_true_iff in H. destruct H as [H H3]. apply andb_true_iff in H. destruct H as [H1 H2].
    apply Z.leb_le in H1. apply Z.ltb_lt in H2. split; [exact H1|]. split; [exact H2|].
    rewrite forallb_forall in H3. apply Forall_forall. intros x Hx. specialize (H3 x Hx). destruct x as [|o| |]; try discriminate.
    destruct o; [apply bytes_okb_sound; exact H3 | exact I].
  - apply andb_true_iff in H. destruct H as [H H3]. apply andb_true_iff in H. destruct H as [H1 H2].
    apply Z.leb_le in H1. apply Z.ltb_lt in H2. split; [exact H1|]. split; [exact H2|].
    rewrite forallb_forall in H3. apply Forall_forall. intros x Hx. specialize (H3 x Hx). destruct x; try discriminate.
    apply IH. exact H3.
Qed.

(** non-trivial instances of the hypotheses: a data page header with statistics, and a footer with a schema
    element carrying a TIME logical type, a row group with a column chunk, key/value metadata *)
Example wf_page_header_example :
  let st := [MBytes (Some [1; 2]); MBytes None; MInt 1; MInt (-5); MInt 0; MInt 7; MBytes (Some [255]); MBytes (Some []);
             MInt 0; MInt 0; MInt 0; MInt 0] in
  let ph := [MInt 0; MInt 100; MInt (-7); MInt 1; MInt (-2147483648); MInt 10; MInt 8; MInt 3; MInt 3; MInt 1; MRec st] ++ zeros 11 in
  wf_page_header ph /\
  norm_page_header ph = [MInt 0; MInt 100; MInt (-7); MInt 1; MInt (-2147483648); MInt 10; MInt 8; MInt 3; MInt 3; MInt 1;
                         MRec [MBytes (Some [1; 2]); MBytes None; MInt 1; MInt (-5); MInt 0; MInt 0; MBytes (Some [255]); MBytes None;
                               MInt 0; MInt 0; MInt 0; MInt 0]] ++ zeros 11.
Proof. split; [apply wfb_sound; vm_compute; reflexivity | vm_compute; reflexivity]. Qed.

Example wf_file_metadata_example :
  let lt := MRec [MInt 7; MInt 0; MInt 0; MInt 0; MInt 0; MInt 2; MInt 1] in
  let se := MRec [MInt 1; MInt 2; MInt 0; MInt 1; MInt 1; MBytes (Some [195; 169]); MInt 0; MInt 0; MInt 0; MInt 0; MInt 0;
                  MInt 1; MInt (-1); MInt 1; lt] in
  let cm := MRec (s_init d_col_meta) in
  let cc := MRec [MBytes None; MInt 4; MInt 1; cm; MInt 0; MInt 0; MInt 0; MInt 0; MInt 0; MInt 0; MInt 0; MInt 0] in
  let rg := MRec [MArr [cc]; MInt 9223372036854775807; MInt (-9223372036854775808); MInt 0; MInt 0; MInt 0; MInt 0; MInt 1; MInt (-32768)] in
  let kv := MRec [MBytes (Some [107]); MBytes None] in
  let fm := [MInt 2; MArr (repeat se 16); MInt 5; MArr [rg]; MArr [kv]; MBytes (Some [99])] in
  wf_file_metadata fm /\ norm_file_metadata fm = fm.
Proof. split; [apply wfb_sound; vm_compute; reflexivity | vm_compute; reflexivity]. Qed.

(* ------------------------------------------------------------------------------------------ *)
(** * Framed variants: the encoding is followed by other bytes (a page header followed by the page body) *)

Theorem parse_accepts_framed : forall tbl fuel sid fs bs tail,
  Encodes bs (VStruct fs) -> typed tbl fuel sid 0 fs ->
  parse_message tbl fuel sid (bs ++ tail) = Ok (interp tbl fuel sid fs (s_init (tbl sid)), N.of_nat (length bs)).
Proof.
  intros tbl fuel sid fs bs tail HE TY. unfold parse_message, Encodes in *. apply enc_struct_inv in HE.
  destruct (parse_struct_spec tbl fuel sid fs bs (s_init (tbl sid)) (decoder_init (bs ++ tail)) tail 0 []) as (d' & PS & Hat).
  - exact HE.
  - exact TY.
  - unfold at_, decoder_init. simpl. auto.
  - rewrite PS. cbn [rbind]. destruct Hat as (_ & P & _). rewrite P. reflexivity.
Qed.

Theorem page_header_roundtrip_framed : forall m tail, wf_page_header m ->
  exists bs, write_page_header m = Ok bs /\
             parse_page_header (bs ++ tail) = Ok (norm_page_header m, N.of_nat (length bs)).
Proof.
  intros m tail WF. destruct fuel_ok as [F1 F2].
  destruct (write_message_spec carquet_tbl carquet_ids_ok FUEL S_PAGE_HEADER m WF F1) as (bs & W & HE).
  exists bs. split; [exact W|]. unfold parse_page_header, norm_page_header, norm.
  apply parse_accepts_framed; [exact HE|].
  apply (fields_of_typed carquet_tbl carquet_ids_ok carquet_ids_nodup) || apply (fields_of_typed carquet_tbl carquet_ids_nodup); [exact WF | lia].
Qed.
