(** What the descriptor tables MEAN, independently of bytes:

    [fields_of tbl fuel sid r]   the Thrift struct (field ids, wire types, values) that the writer emits for
                                 the record r - [to_tval];
    [interp tbl fuel sid fs r]   the record the parser builds from a Thrift field list fs (known fields
                                 stored per descriptor, unknown fields ignored, last occurrence wins) -
                                 what "parse" means at the level of values;
    [norm tbl fuel sid r]        parse-after-write on records: interp (fields_of r) starting from the
                                 zeroed record.  ParquetMetaRoundtrip.v proves parse (write r) = norm r and
                                 characterises norm slot by slot;
    [wf ...]                     the writer's own domain;
    [typed ...]                  Thrift field lists whose known fields have the declared wire types. *)
From Coq Require Import ZArith NArith List Bool.
From Carquet Require Import Base.Res Gen.Consts_gen Gen.Enums_gen.
From Carquet Require Import Thrift.ThriftSpec Thrift.ThriftModel Thrift.ParquetMetaDesc Thrift.ParquetMetaModel.
Import ListNotations.
Local Open Scope Z_scope.

Section Sem.
  Variable tbl : nat -> sdesc.

  (* ---------------------------------------------------------------------------------------- *)
  (** * record -> Thrift value *)

  (** the value of one field; [fo] gives the fields of a nested struct; [r] is the enclosing record *)
  Definition value_of (fo : nat -> list mval -> list (Z * tval)) (r : list mval) (k : kind) (v : mval) : option tval :=
    match k, v with
    | KBool, MInt z => Some (VBool (negb (z =? 0)))
    | KI8, MInt z => Some (VByte z)
    | KI16, MInt z => Some (VI16 z)
    | KI32, MInt z => Some (VI32 z)
    | KI64, MInt z => Some (VI64 z)
    | KBin, MBytes (Some bs) => Some (VBinary bs)
    | KBin, MBytes None => Some (VBinary [])
    | KStr, MBytes (Some s) => Some (VBinary (cstr s))
    | KStr, MBytes None => Some (VBinary [])
    | KStruct sid', MRec sub => Some (VStruct (fo sid' sub))
    | KListI32 _ _, MArr l => Some (VList TI32 (map (fun x => match x with MInt z => VI32 z | _ => VI32 0 end) l))
    | KListStr _ _, MArr l =>
        Some (VList TBinary (map (fun x => match x with MBytes (Some s) => VBinary (cstr s) | _ => VBinary [] end) l))
    | KListStruct sid' _ _, MArr l =>
        Some (VList TStruct (map (fun x => match x with MRec sub => VStruct (fo sid' sub) | _ => VStruct [] end) l))
    | KInline sid' _, _ => Some (VStruct (fo sid' r))
    | KSetSkip _, _ => Some (VStruct [])
    | _, _ => None
    end.

  Definition field_of (fo : nat -> list mval -> list (Z * tval)) (r : list mval) (f : field) : list (Z * tval) :=
    if present f r then
      match nth_error r (f_slot f) with
      | Some v => match value_of fo r (f_kind f) v with Some tv => [(f_id f, tv)] | None => [] end
      | None => []
      end
    else [].

  Fixpoint fields_of (fuel : nat) (sid : nat) (r : list mval) : list (Z * tval) :=
    match fuel with
    | O => []
    | S fuel' => flat_map (field_of (fields_of fuel') r) (s_fields (tbl sid))
    end.

  Definition to_tval (fuel : nat) (sid : nat) (r : list mval) : tval := VStruct (fields_of fuel sid r).

  (* ---------------------------------------------------------------------------------------- *)
  (** * Thrift value -> record *)

  (** storing one known field; [ip] interprets a nested struct into the record given *)
  Definition interp_field (ip : nat -> list (Z * tval) -> list mval -> list mval) (f : field) (v : tval)
             (r : list mval) : list mval :=
    let r1 := set_has f r in
    let fresh := fun sid' fs => MRec (ip sid' fs (s_init (tbl sid'))) in
    match f_kind f, v with
    | KBool, VBool b => set_nth (f_slot f) (MInt (if b then 1 else 0)) r1
    | KI8, VByte z | KI16, VI16 z | KI32, VI32 z | KI64, VI64 z => set_nth (f_slot f) (MInt z) r1
    | KBin, VBinary bs => set_nth (f_slot f) (MBytes (match bs with [] => None | _ => Some bs end)) r1
    | KStr, VBinary bs => set_nth (f_slot f) (MBytes (Some (cstr bs))) r1
    | KStruct sid', VStruct fs => set_nth (f_slot f) (fresh sid' fs) r1
    | KListI32 _ _, VList _ vs =>
        set_nth (f_slot f) (MArr (map (fun x => match x with VI32 z => MInt z | _ => MInt 0 end) vs)) r1
    | KListStr _ _, VList _ vs =>
        set_nth (f_slot f) (MArr (map (fun x => match x with VBinary bs => MBytes (Some (cstr bs)) | _ => MBytes None end) vs)) r1
    | KListStruct sid' _ _, VList _ vs =>
        set_nth (f_slot f) (MArr (map (fun x => match x with VStruct fs => fresh sid' fs | _ => MRec [] end) vs)) r1
    | KInline sid' pre, VStruct fs => ip sid' fs (apply_pre pre r1)
    | KSetSkip pre, _ => apply_pre pre r1
    | _, _ => r
    end.

  Definition interp_one (ip : nat -> list (Z * tval) -> list mval -> list mval) (fds : list field)
             (r : list mval) (iv : Z * tval) : list mval :=
    match find_field (fst iv) fds with
    | Some f => interp_field ip f (snd iv) r
    | None => r                                     (* unknown field: skipped *)
    end.

  Fixpoint interp (fuel : nat) (sid : nat) (fs : list (Z * tval)) (r : list mval) : list mval :=
    match fuel with
    | O => r
    | S fuel' => fold_left (interp_one (interp fuel') (s_fields (tbl sid))) fs r
    end.

  (** parse-after-write on records *)
  Definition norm (fuel : nat) (sid : nat) (r : list mval) : list mval :=
    interp fuel sid (fields_of fuel sid r) (s_init (tbl sid)).

  (* ---------------------------------------------------------------------------------------- *)
  (** * Domains *)

  Definition bytes_ok (bs : list N) : Prop := Forall (fun b => (b < 256)%N) bs /\ (N.of_nat (length bs) < 2 ^ 31)%N.

  (** the writer's domain for one field value: C ranges of the scalar types, binary/list sizes that fit
      int32, list sizes within the parser's CARQUET_MAX_* limit, nested records well-formed *)
  Definition wf_value (wfs : nat -> list mval -> Prop) (r : list mval) (k : kind) (v : mval) : Prop :=
    match k, v with
    | KBool, MInt _ => True
    | KI8, MInt z => in_range 8 z
    | KI16, MInt z => in_range 16 z
    | KI32, MInt z => in_range 32 z
    | KI64, MInt z => in_range 64 z
    | KBin, MBytes (Some bs) => bytes_ok bs
    | KBin, MBytes None => True
    | KStr, MBytes (Some s) => bytes_ok (cstr s)
    | KStr, MBytes None => True
    | KStruct sid', MRec sub => wfs sid' sub
    | KListI32 max _, MArr l => Z.of_nat (length l) <= max /\ max < 2 ^ 31 /\
                                Forall (fun x => match x with MInt z => in_range 32 z | _ => False end) l
    | KListStr max _, MArr l => Z.of_nat (length l) <= max /\ max < 2 ^ 31 /\
                                Forall (fun x => match x with MBytes (Some s) => bytes_ok (cstr s) | MBytes None => True | _ => False end) l
    | KListStruct sid' max _, MArr l => Z.of_nat (length l) <= max /\ max < 2 ^ 31 /\
                                Forall (fun x => match x with MRec sub => wfs sid' sub | _ => False end) l
    | KInline sid' _, _ => wfs sid' r
    | KSetSkip _, _ => True
    | _, _ => False
    end.

  Definition wf_field (wfs : nat -> list mval -> Prop) (r : list mval) (f : field) : Prop :=
    present f r = true -> exists v, nth_error r (f_slot f) = Some v /\ wf_value wfs r (f_kind f) v.

  Fixpoint wf (fuel : nat) (sid : nat) (r : list mval) : Prop :=
    match fuel with
    | O => False
    | S fuel' => Forall (wf_field (wf fuel') r) (s_fields (tbl sid))
    end.

  (** executable version of [wf] (sound: ParquetMetaRoundtrip.wfb_sound), used to show that the hypotheses of
      the round-trip theorems hold on concrete structures and, by the check, on every generated structure *)
  Definition bytes_okb (bs : list N) : bool := forallb (fun b => (b <? 256)%N) bs && (N.of_nat (length bs) <? 2 ^ 31)%N.

  Definition wfb_value (wfs : nat -> list mval -> bool) (r : list mval) (k : kind) (v : mval) : bool :=
    match k, v with
    | KBool, MInt _ => true
    | KI8, MInt z => in_rangeb 8 z
    | KI16, MInt z => in_rangeb 16 z
    | KI32, MInt z => in_rangeb 32 z
    | KI64, MInt z => in_rangeb 64 z
    | KBin, MBytes (Some bs) => bytes_okb bs
    | KBin, MBytes None => true
    | KStr, MBytes (Some s) => bytes_okb (cstr s)
    | KStr, MBytes None => true
    | KStruct sid', MRec sub => wfs sid' sub
    | KListI32 max _, MArr l => (Z.of_nat (length l) <=? max) && (max <? 2 ^ 31) &&
                                forallb (fun x => match x with MInt z => in_rangeb 32 z | _ => false end) l
    | KListStr max _, MArr l => (Z.of_nat (length l) <=? max) && (max <? 2 ^ 31) &&
                                forallb (fun x => match x with MBytes (Some s) => bytes_okb (cstr s) | MBytes None => true | _ => false end) l
    | KListStruct sid' max _, MArr l => (Z.of_nat (length l) <=? max) && (max <? 2 ^ 31) &&
                                forallb (fun x => match x with MRec sub => wfs sid' sub | _ => false end) l
    | KInline sid' _, _ => wfs sid' r
    | KSetSkip _, _ => true
    | _, _ => false
    end.

  Definition wfb_field (wfs : nat -> list mval -> bool) (r : list mval) (f : field) : bool :=
    if present f r then
      match nth_error r (f_slot f) with Some v => wfb_value wfs r (f_kind f) v | None => false end
    else true.

  Fixpoint wfb (fuel : nat) (sid : nat) (r : list mval) : bool :=
    match fuel with
    | O => false
    | S fuel' => forallb (wfb_field (wfb fuel') r) (s_fields (tbl sid))
    end.

  (** Thrift field lists the parser understands: known fields carry the declared wire type (and list sizes
      within the limits); unknown fields are arbitrary values within the nesting limit.
      [typed fuel sid nl fs]: fs are the fields of a struct of kind sid that is opened when nl structs are open;
      [typed_value .. nli ..] / [typed_one .. nli ..]: nli = nl + 1 structs are open while the fields are read. *)
  Definition typed_value (tys : nat -> N -> list (Z * tval) -> Prop) (nl : N) (k : kind) (v : tval) : Prop :=
    match k, v with
    | KBool, VBool _ | KI8, VByte _ | KI16, VI16 _ | KI32, VI32 _ | KI64, VI64 _ => True
    | KBin, VBinary _ | KStr, VBinary _ => True
    | KStruct sid', VStruct fs => tys sid' nl fs
    | KListI32 max _, VList TI32 vs => Z.of_nat (length vs) <= max
    | KListStr max _, VList TBinary vs => Z.of_nat (length vs) <= max
    | KListStruct sid' max _, VList TStruct vs =>
        Z.of_nat (length vs) <= max /\ Forall (fun x => match x with VStruct fs => tys sid' nl fs | _ => False end) vs
    | KInline sid' _, VStruct fs => tys sid' nl fs
    | KSetSkip _, v => (N.of_nat (vdepth v) <= MAX_NESTING)%N /\ (nl + N.of_nat (vdepth v) <= MAX_NESTING)%N
    | _, _ => False
    end.

  Definition typed_one (tys : nat -> N -> list (Z * tval) -> Prop) (fds : list field) (nl : N) (iv : Z * tval) : Prop :=
    match find_field (fst iv) fds with
    | Some f => typed_value tys nl (f_kind f) (snd iv)
    | None => (N.of_nat (vdepth (snd iv)) <= MAX_NESTING)%N /\ (nl + N.of_nat (vdepth (snd iv)) <= MAX_NESTING)%N
    end.

  Fixpoint typed (fuel : nat) (sid : nat) (nl : N) (fs : list (Z * tval)) : Prop :=
    match fuel with
    | O => False
    | S fuel' => (nl < MAX_NESTING)%N /\ Forall (typed_one (typed fuel') (s_fields (tbl sid)) (nl + 1)%N) fs
    end.
End Sem.

(** carquet's structures *)
Definition to_tval_file_metadata (m : list mval) : tval := to_tval carquet_tbl FUEL S_FILE_META m.
Definition to_tval_page_header (m : list mval) : tval := to_tval carquet_tbl FUEL S_PAGE_HEADER m.
Definition norm_file_metadata (m : list mval) : list mval := norm carquet_tbl FUEL S_FILE_META m.
Definition norm_page_header (m : list mval) : list mval := norm carquet_tbl FUEL S_PAGE_HEADER m.
Definition wf_file_metadata (m : list mval) : Prop := wf carquet_tbl FUEL S_FILE_META m.
Definition wf_page_header (m : list mval) : Prop := wf carquet_tbl FUEL S_PAGE_HEADER m.
Definition wfb_file_metadata (m : list mval) : bool := wfb carquet_tbl FUEL S_FILE_META m.
Definition wfb_page_header (m : list mval) : bool := wfb carquet_tbl FUEL S_PAGE_HEADER m.
