(** Descriptor tables for the Parquet metadata structures of src/thrift/parquet_types.c.

    A C struct is a positional record of generic values ([mval]); a struct descriptor lists, for every
    Thrift field the C code knows, the field id, how the value is read/written ([kind]), the slot(s) of the
    C struct it lives in, and the rule under which the writer emits it ([pres]).  The generic writer and
    parser of ParquetMetaModel.v are driven by these tables; that the C functions behave like the tables
    say is checked by the tie (checks/C13.py).

    Slot layouts are fixed here and repeated in harness/h_thrift.c and checks/C13.py. *)
From Coq Require Import ZArith NArith List Bool.
From Carquet Require Import Gen.Consts_gen Gen.Enums_gen.
Import ListNotations.
Local Open Scope Z_scope.

(** Generic image of C data.  [MInt]: every integer, enum and bool scalar (bool as 0/1).
    [MBytes None]: NULL pointer; [MBytes (Some bs)]: a `char*` string (bs without the terminating NUL) or a
    `uint8_t*` + length pair.  [MRec]: a struct, positional.  [MArr]: pointer + count. *)
Inductive mval : Type :=
| MInt (z : Z)
| MBytes (o : option (list N))
| MRec (l : list mval)
| MArr (l : list mval).

(** When does the writer emit the field? *)
Inductive pres : Type :=
| PAlways
| PHas                                  (* iff the has_x flag (slot f_has) is set *)
| PPos                                  (* iff value > 0 *)
| PNonZero                              (* iff value != 0 *)
| PNonNull                              (* iff pointer != NULL *)
| PNonEmpty                             (* iff pointer != NULL && count/len > 0 *)
| PEq (slot : nat) (v : Z)              (* iff the integer in [slot] of the same record == v (switch on it) *)
| PNotIn (slot : nat) (vs : list Z)     (* the `else` branch of such a chain *)
| PHasSubNonZero (sub : nat)            (* iff has_x && value.slot[sub] != 0 *)
| PNever.                               (* the parser knows the field, the writer never emits it *)

(** How is the value read / written?  Struct descriptors are referred to by index into the table. *)
Inductive kind : Type :=
| KBool                                 (* thrift_read_bool / value in the field-header type *)
| KI8                                   (* thrift_read_byte / thrift_write_byte *)
| KI16 | KI32 | KI64                    (* thrift_read_iNN / thrift_write_iNN *)
| KBin                                  (* arena_bindup_thrift (empty -> NULL) / thrift_write_binary *)
| KStr                                  (* arena_strdup_thrift / thrift_write_string *)
| KStruct (sid : nat)                   (* parse_xxx(): memset + own loop / write_xxx() *)
| KListI32 (max : Z) (err : Z)          (* list<i32> with VALIDATE_COUNT(count, max) reporting err *)
| KListStr (max : Z) (err : Z)          (* list<binary> of strings *)
| KListStruct (sid : nat) (max : Z) (err : Z)
| KInline (sid : nat) (pre : list (nat * Z))
                                        (* assignments [pre], then a struct whose fields live in the SAME record *)
| KSetSkip (pre : list (nat * Z)).      (* assignments [pre], then thrift_skip(type) / an empty struct *)

Record field : Type := mkF {
  f_id : Z; f_kind : kind; f_slot : nat; f_has : option nat; f_pres : pres }.

Record sdesc : Type := mkS {
  s_fields : list field;                (* in the order the writer emits them *)
  s_init : list mval                    (* the record after memset(0) (+ defaults) *)
}.

Definition F (id : Z) (k : kind) (slot : nat) (p : pres) : field := mkF id k slot None p.
Definition FH (id : Z) (k : kind) (slot has : nat) : field := mkF id k slot (Some has) PHas.

Definition zeros (n : nat) : list mval := repeat (MInt 0) n.

(* ------------------------------------------------------------------------------------------ *)
(** * Struct ids *)
Definition S_FILE_META : nat := 0.
Definition S_SCHEMA_ELEM : nat := 1.
Definition S_LOGICAL : nat := 2.
Definition S_DECIMAL : nat := 3.
Definition S_TIME : nat := 4.
Definition S_TIMEUNIT : nat := 5.
Definition S_INT : nat := 6.
Definition S_ROW_GROUP : nat := 7.
Definition S_COL_CHUNK : nat := 8.
Definition S_COL_META : nat := 9.
Definition S_STATS : nat := 10.
Definition S_KV : nat := 11.
Definition S_PES : nat := 12.
Definition S_PAGE_HEADER : nat := 13.
Definition S_DPH : nat := 14.
Definition S_DICT : nat := 15.
Definition S_V2 : nat := 16.
Definition S_EMPTY : nat := 17.

Definition ERR_DECODE : Z := E_CARQUET_ERROR_THRIFT_DECODE.              (* VALIDATE_COUNT *)
Definition ERR_META : Z := E_CARQUET_ERROR_INVALID_METADATA.             (* VALIDATE_COUNT_STATUS *)
Definition lim (n : N) : Z := Z.of_N n.

(** parquet_statistics_t.
    0 max_deprecated  1 min_deprecated  2 has_null_count  3 null_count  4 has_distinct_count
    5 distinct_count  6 max_value  7 min_value  8 has_is_max_value_exact  9 is_max_value_exact
    10 has_is_min_value_exact  11 is_min_value_exact *)
Definition d_stats : sdesc := mkS
  [ F 1 KBin 0%nat PNonEmpty; F 2 KBin 1%nat PNonEmpty;
    FH 3 KI64 3 2; FH 4 KI64 5 4;
    F 5 KBin 6%nat PNonEmpty; F 6 KBin 7%nat PNonEmpty;
    mkF 7 KBool 9 (Some 8%nat) PNever; mkF 8 KBool 11 (Some 10%nat) PNever ]
  [ MBytes None; MBytes None; MInt 0; MInt 0; MInt 0; MInt 0; MBytes None; MBytes None;
    MInt 0; MInt 0; MInt 0; MInt 0 ].

(** carquet_logical_type_t, flattened (the C `params` union is laid out side by side; see design.d/C13.md).
    0 id  1 decimal.scale  2 decimal.precision  3 integer.bit_width  4 integer.is_signed
    5 time/timestamp.unit  6 time/timestamp.is_adjusted_to_utc *)
Definition L_ID : nat := 0.
Definition tag (fid : Z) (id : Z) : field := F fid (KSetSkip [(L_ID, id)]) L_ID (PEq L_ID id).
Definition d_logical : sdesc := mkS
  [ tag 1 E_CARQUET_LOGICAL_STRING; tag 2 E_CARQUET_LOGICAL_MAP; tag 3 E_CARQUET_LOGICAL_LIST;
    tag 4 E_CARQUET_LOGICAL_ENUM;
    F 5 (KInline S_DECIMAL [(L_ID, E_CARQUET_LOGICAL_DECIMAL)]) L_ID (PEq L_ID E_CARQUET_LOGICAL_DECIMAL);
    tag 6 E_CARQUET_LOGICAL_DATE;
    F 7 (KInline S_TIME [(L_ID, E_CARQUET_LOGICAL_TIME)]) L_ID (PEq L_ID E_CARQUET_LOGICAL_TIME);
    F 8 (KInline S_TIME [(L_ID, E_CARQUET_LOGICAL_TIMESTAMP)]) L_ID (PEq L_ID E_CARQUET_LOGICAL_TIMESTAMP);
    F 10 (KInline S_INT [(L_ID, E_CARQUET_LOGICAL_INTEGER)]) L_ID (PEq L_ID E_CARQUET_LOGICAL_INTEGER);
    tag 11 E_CARQUET_LOGICAL_NULL; tag 12 E_CARQUET_LOGICAL_JSON; tag 13 E_CARQUET_LOGICAL_BSON;
    tag 14 E_CARQUET_LOGICAL_UUID; tag 15 E_CARQUET_LOGICAL_FLOAT16 ]
  (zeros 7).
Definition d_decimal : sdesc := mkS [ F 1 KI32 1%nat PAlways; F 2 KI32 2%nat PAlways ] (zeros 7).
Definition d_time : sdesc := mkS [ F 1 KBool 6%nat PAlways; F 2 (KInline S_TIMEUNIT []) 5%nat PAlways ] (zeros 7).
Definition d_timeunit : sdesc := mkS
  [ F 1 (KSetSkip [(5%nat, E_CARQUET_TIME_UNIT_MILLIS)]) 5%nat (PEq 5 E_CARQUET_TIME_UNIT_MILLIS);
    F 2 (KSetSkip [(5%nat, E_CARQUET_TIME_UNIT_MICROS)]) 5%nat (PEq 5 E_CARQUET_TIME_UNIT_MICROS);
    F 3 (KSetSkip [(5%nat, E_CARQUET_TIME_UNIT_NANOS)]) 5%nat
      (PNotIn 5 [E_CARQUET_TIME_UNIT_MILLIS; E_CARQUET_TIME_UNIT_MICROS]) ]
  (zeros 7).
Definition d_int : sdesc := mkS [ F 1 KI8 3%nat PAlways; F 2 KBool 4%nat PAlways ] (zeros 7).

(** parquet_schema_element_t.
    0 has_type 1 type 2 type_length 3 has_repetition 4 repetition_type 5 name 6 num_children
    7 has_converted_type 8 converted_type 9 scale 10 precision 11 has_field_id 12 field_id
    13 has_logical_type 14 logical_type *)
Definition d_schema_elem : sdesc := mkS
  [ FH 1 KI32 1 0; F 2 KI32 2%nat PPos; FH 3 KI32 4 3; F 4 KStr 5%nat PNonNull; F 5 KI32 6%nat PPos;
    FH 6 KI32 8 7; F 7 KI32 9%nat PNonZero; F 8 KI32 10%nat PNonZero; FH 9 KI32 12 11;
    mkF 10 (KStruct S_LOGICAL) 14 (Some 13%nat) (PHasSubNonZero L_ID) ]
  [ MInt 0; MInt 0; MInt 0; MInt 0; MInt 0; MBytes None; MInt 0; MInt 0; MInt 0; MInt 0; MInt 0; MInt 0;
    MInt 0; MInt 0; MRec (zeros 7) ].

(** parquet_key_value_t.  0 key  1 value *)
Definition d_kv : sdesc := mkS [ F 1 KStr 0%nat PAlways; F 2 KStr 1%nat PNonNull ] [ MBytes None; MBytes None ].

(** parquet_page_encoding_stats_t.  0 page_type  1 encoding  2 count *)
Definition d_pes : sdesc := mkS [ F 1 KI32 0%nat PAlways; F 2 KI32 1%nat PAlways; F 3 KI32 2%nat PAlways ] (zeros 3).

(** parquet_column_metadata_t.
    0 type 1 encodings 2 path_in_schema 3 codec 4 num_values 5 total_uncompressed_size
    6 total_compressed_size 7 key_value_metadata 8 data_page_offset 9 has_index_page_offset
    10 index_page_offset 11 has_dictionary_page_offset 12 dictionary_page_offset 13 has_statistics
    14 statistics 15 encoding_stats 16 has_bloom_filter_offset 17 bloom_filter_offset
    18 has_bloom_filter_length 19 bloom_filter_length *)
Definition d_col_meta : sdesc := mkS
  [ F 1 KI32 0%nat PAlways;
    F 2 (KListI32 (lim Pq_CARQUET_MAX_ENCODINGS) ERR_DECODE) 1%nat PAlways;
    F 3 (KListStr (lim Pq_CARQUET_MAX_PATH_ELEMENTS) ERR_DECODE) 2%nat PAlways;
    F 4 KI32 3%nat PAlways; F 5 KI64 4%nat PAlways; F 6 KI64 5%nat PAlways; F 7 KI64 6%nat PAlways;
    F 8 (KListStruct S_KV (lim Pq_CARQUET_MAX_KEY_VALUE_PAIRS) ERR_DECODE) 7%nat PNever;
    F 9 KI64 8%nat PAlways; FH 10 KI64 10 9; FH 11 KI64 12 11;
    FH 12 (KStruct S_STATS) 14 13;
    F 13 (KListStruct S_PES (lim Pq_CARQUET_MAX_ENCODING_STATS) ERR_DECODE) 15%nat PNever;
    FH 14 KI64 17 16; FH 15 KI32 19 18 ]
  [ MInt 0; MArr []; MArr []; MInt 0; MInt 0; MInt 0; MInt 0; MArr []; MInt 0; MInt 0; MInt 0; MInt 0;
    MInt 0; MInt 0; MRec (s_init d_stats); MArr []; MInt 0; MInt 0; MInt 0; MInt 0 ].

(** parquet_column_chunk_t.
    0 file_path 1 file_offset 2 has_metadata 3 metadata 4 has_offset_index_offset 5 offset_index_offset
    6 has_offset_index_length 7 offset_index_length 8 has_column_index_offset 9 column_index_offset
    10 has_column_index_length 11 column_index_length *)
Definition d_col_chunk : sdesc := mkS
  [ F 1 KStr 0%nat PNonNull; F 2 KI64 1%nat PAlways; FH 3 (KStruct S_COL_META) 3 2;
    FH 4 KI64 5 4; FH 5 KI32 7 6; FH 6 KI64 9 8; FH 7 KI32 11 10 ]
  [ MBytes None; MInt 0; MInt 0; MRec (s_init d_col_meta); MInt 0; MInt 0; MInt 0; MInt 0; MInt 0; MInt 0;
    MInt 0; MInt 0 ].

(** parquet_row_group_t.
    0 columns 1 total_byte_size 2 num_rows 3 has_file_offset 4 file_offset 5 has_total_compressed_size
    6 total_compressed_size 7 has_ordinal 8 ordinal *)
Definition d_row_group : sdesc := mkS
  [ F 1 (KListStruct S_COL_CHUNK (lim Pq_CARQUET_MAX_COLUMNS_PER_RG) ERR_DECODE) 0%nat PAlways;
    F 2 KI64 1%nat PAlways; F 3 KI64 2%nat PAlways; FH 5 KI64 4 3; FH 6 KI64 6 5; FH 7 KI16 8 7 ]
  [ MArr []; MInt 0; MInt 0; MInt 0; MInt 0; MInt 0; MInt 0; MInt 0; MInt 0 ].

(** parquet_file_metadata_t.
    0 version 1 schema 2 num_rows 3 row_groups 4 key_value_metadata 5 created_by *)
Definition d_file_meta : sdesc := mkS
  [ F 1 KI32 0%nat PAlways;
    F 2 (KListStruct S_SCHEMA_ELEM (lim Pq_CARQUET_MAX_SCHEMA_ELEMENTS) ERR_META) 1%nat PAlways;
    F 3 KI64 2%nat PAlways;
    F 4 (KListStruct S_ROW_GROUP (lim Pq_CARQUET_MAX_ROW_GROUPS) ERR_META) 3%nat PAlways;
    F 5 (KListStruct S_KV (lim Pq_CARQUET_MAX_KEY_VALUE_PAIRS) ERR_META) 4%nat PNonEmpty;
    F 6 KStr 5%nat PNonNull ]
  [ MInt 0; MArr []; MInt 0; MArr []; MArr []; MBytes None ].

(** parquet_page_header_t, flattened (the three type-specific headers are an anonymous union in C).
    0 type 1 uncompressed_page_size 2 compressed_page_size 3 has_crc 4 crc
    data_page_header:       5 num_values 6 encoding 7 definition_level_encoding
                            8 repetition_level_encoding 9 has_statistics 10 statistics
    dictionary_page_header: 11 num_values 12 encoding 13 is_sorted
    data_page_header_v2:    14 num_values 15 num_nulls 16 num_rows 17 encoding
                            18 definition_levels_byte_length 19 repetition_levels_byte_length
                            20 is_compressed 21 has_statistics *)
Definition d_page_header : sdesc := mkS
  [ F 1 KI32 0%nat PAlways; F 2 KI32 1%nat PAlways; F 3 KI32 2%nat PAlways; FH 4 KI32 4 3;
    F 5 (KInline S_DPH []) 5%nat (PEq 0 E_CARQUET_PAGE_DATA);
    F 7 (KInline S_DICT []) 11%nat (PEq 0 E_CARQUET_PAGE_DICTIONARY);
    F 8 (KInline S_V2 [(20%nat, 1)]) 14%nat (PEq 0 E_CARQUET_PAGE_DATA_V2) ]
  (zeros 10 ++ [MRec (s_init d_stats)] ++ zeros 11).
Definition d_dph : sdesc := mkS
  [ F 1 KI32 5%nat PAlways; F 2 KI32 6%nat PAlways; F 3 KI32 7%nat PAlways; F 4 KI32 8%nat PAlways;
    FH 5 (KStruct S_STATS) 10 9 ]
  (s_init d_page_header).
Definition d_dict : sdesc := mkS
  [ F 1 KI32 11%nat PAlways; F 2 KI32 12%nat PAlways; F 3 KBool 13%nat PAlways ] (s_init d_page_header).
Definition d_v2 : sdesc := mkS
  [ F 1 KI32 14%nat PAlways; F 2 KI32 15%nat PAlways; F 3 KI32 16%nat PAlways; F 4 KI32 17%nat PAlways;
    F 5 KI32 18%nat PAlways; F 6 KI32 19%nat PAlways; F 7 KBool 20%nat PAlways;
    F 8 (KSetSkip [(21%nat, 1)]) 21%nat PNever ]
  (s_init d_page_header).

Definition d_empty : sdesc := mkS [] [].

(** The table. *)
Definition carquet_tbl (sid : nat) : sdesc :=
  match sid with
  | 0 => d_file_meta | 1 => d_schema_elem | 2 => d_logical | 3 => d_decimal | 4 => d_time
  | 5 => d_timeunit | 6 => d_int | 7 => d_row_group | 8 => d_col_chunk | 9 => d_col_meta
  | 10 => d_stats | 11 => d_kv | 12 => d_pes | 13 => d_page_header | 14 => d_dph | 15 => d_dict
  | 16 => d_v2 | _ => d_empty
  end%nat.

(** Nesting rank: a struct only refers to structs of smaller rank, so [rank sid] levels of recursion
    are enough to traverse it. *)
Definition carquet_rank (sid : nat) : nat :=
  match sid with
  | 0 => 6 (* file: row group / schema element *)
  | 1 => 4 (* schema element: logical type *)
  | 2 => 3 | 3 => 0 | 4 => 1 | 5 => 0 | 6 => 0
  | 7 => 5 | 8 => 4 | 9 => 3 | 10 => 0 | 11 => 0 | 12 => 0
  | 13 => 2 | 14 => 1 | 15 => 0 | 16 => 0 | _ => 0
  end%nat.
