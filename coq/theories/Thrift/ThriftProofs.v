(** Proofs about the model of thrift_encode.c / thrift_decode.c (ThriftModel.v) alone: memory safety of
    every reader primitive, termination and depth bound of the repaired skip function, and the refutation
    for the function as it was. The relation to the specification is in ThriftConform.v. *)
From Coq Require Import ZArith NArith List Bool Lia.
From Carquet Require Import Base.Res Gen.Consts_gen Gen.Enums_gen Thrift.ThriftModel.
Import ListNotations.
Local Open Scope N_scope.

Definition nofault {A} (r : res A) : Prop := forall f, r <> Fault f.
Definition rem (d : decoder) : nat := length (d_rest d).
(** bytes consumed + bytes left: constant through every operation (the cursor stays inside the buffer) *)
Definition tot (d : decoder) : N := d_pos d + N.of_nat (rem d).

Lemma nofault_ok {A} (a : A) : nofault (Ok a). Proof. intros f H; discriminate. Qed.
Lemma nofault_err {A} c : nofault (@Err A c). Proof. intros f H; discriminate. Qed.
#[export] Hint Resolve nofault_ok nofault_err : nf.

Lemma has_len_spec : forall l n, has_len l n = true <-> (N.to_nat n <= length l)%nat.
Proof.
  induction l as [|b t IH]; intros n.
  - destruct n; simpl; split; intros; try lia; try discriminate; try reflexivity.
  - destruct n as [|p]; [simpl; split; intros; [lia|reflexivity]|].
    change (has_len (b :: t) (N.pos p)) with (has_len t (N.pred (N.pos p))). rewrite IH. simpl length. lia.
Qed.

Lemma len_nat d n : has_bytes d n = true <-> (N.to_nat n <= length (d_rest d))%nat.
Proof. apply has_len_spec. Qed.

(* ------------------------------------------------------------------------------------------ *)
(** * Primitives: guarded reads never fault, never move backwards *)

Lemma take_bytes_ok : forall n l, (n <= length l)%nat ->
  take_bytes n l = Ok (firstn n l, skipn n l).
Proof.
  induction n as [|n IH]; intros l H; [reflexivity|].
  destruct l as [|b tl]; [simpl in H; lia|]. simpl in H. cbn [take_bytes firstn skipn].
  rewrite IH by lia. reflexivity.
Qed.

Lemma read_byte_raw_cases d :
  (d_rest d = [] /\ read_byte_raw d = Err ST_TRUNCATED) \/
  (exists b tl, d_rest d = b :: tl /\ read_byte_raw d = Ok (b, with_reader d tl (d_pos d + 1))).
Proof.
  unfold read_byte_raw, has_bytes, get_byte. destruct (d_rest d) as [|b tl]; [left|right].
  - split; reflexivity.
  - exists b, tl. split; [reflexivity|]. cbn [has_len N.pred]. destruct tl; reflexivity.
Qed.

Lemma read_byte_raw_nf d : nofault (read_byte_raw d).
Proof. destruct (read_byte_raw_cases d) as [[_ H]|(b & tl & _ & H)]; rewrite H; auto with nf. Qed.

Lemma read_byte_raw_rem d b d' : read_byte_raw d = Ok (b, d') ->
  S (rem d') = rem d /\ d_lfid d' = d_lfid d /\ d_boolp d' = d_boolp d /\ d_boolv d' = d_boolv d /\ tot d' = tot d.
Proof.
  destruct (read_byte_raw_cases d) as [[_ H]|(b0 & tl & E & H)]; rewrite H; intros X; inversion X; subst.
  unfold tot, rem. rewrite E. simpl. repeat split; auto. lia.
Qed.

Lemma reader_skip_nf n d : nofault (reader_skip n d).
Proof.
  unfold reader_skip. destruct (has_bytes d n) eqn:E; auto with nf.
  apply len_nat in E. rewrite take_bytes_ok by exact E. auto with nf.
Qed.

Lemma reader_skip_rem n d d' : reader_skip n d = Ok d' ->
  (rem d' <= rem d)%nat /\ d_lfid d' = d_lfid d /\ d_boolp d' = d_boolp d /\ tot d' = tot d.
Proof.
  unfold reader_skip. destruct (has_bytes d n) eqn:E.
  - apply len_nat in E. rewrite take_bytes_ok by exact E. intros X; inversion X; subst. unfold tot, rem. simpl.
    rewrite skipn_length. repeat split; lia.
  - discriminate.
Qed.

Lemma read_varint_loop_nf : forall k s r d, nofault (read_varint_loop k s r d).
Proof.
  induction k as [|k IH]; intros s r d; cbn [read_varint_loop]; auto with nf.
  destruct (has_bytes d 1); auto with nf.
  destruct (read_byte_raw_cases d) as [[_ H]|(b & tl & _ & H)]; rewrite H; auto with nf.
  destruct (N.land b 128 =? 0); auto with nf.
Qed.

Lemma read_varint_loop_rem : forall k s r d v d', read_varint_loop k s r d = Ok (v, d') ->
  (S (rem d') <= rem d)%nat /\ d_lfid d' = d_lfid d /\ d_boolp d' = d_boolp d /\ d_boolv d' = d_boolv d /\ tot d' = tot d.
Proof.
  induction k as [|k IH]; intros s r d v d'; cbn [read_varint_loop]; [discriminate|].
  destruct (has_bytes d 1); [|discriminate].
  destruct (read_byte_raw d) as [[b d1]| |] eqn:RB; try discriminate.
  apply read_byte_raw_rem in RB. destruct RB as (R1 & R2 & R3 & R4 & R5).
  destruct (N.land b 128 =? 0).
  - intros X; inversion X; subst. repeat split; try congruence; lia.
  - intros X. apply IH in X. destruct X as (X1 & X2 & X3 & X4 & X5). repeat split; try congruence; lia.
Qed.

Lemma read_varint_nf d : nofault (read_varint d).
Proof. apply read_varint_loop_nf. Qed.

Lemma read_varint_rem d v d' : read_varint d = Ok (v, d') ->
  (S (rem d') <= rem d)%nat /\ d_lfid d' = d_lfid d /\ d_boolp d' = d_boolp d /\ d_boolv d' = d_boolv d /\ tot d' = tot d.
Proof. apply read_varint_loop_rem. Qed.

Lemma read_int_nf bits d : nofault (read_int bits d).
Proof.
  unfold read_int, read_zigzag. pose proof (read_varint_nf d) as H.
  destruct (read_varint d) as [[? ?]| |]; auto with nf. intros f0 X. inversion X; subst. eapply H; reflexivity.
Qed.

Lemma read_int_rem bits d v d' : read_int bits d = Ok (v, d') ->
  (S (rem d') <= rem d)%nat /\ d_lfid d' = d_lfid d /\ d_boolp d' = d_boolp d /\ d_boolv d' = d_boolv d /\ tot d' = tot d.
Proof.
  unfold read_int, read_zigzag. destruct (read_varint d) as [[n d1]| |] eqn:E; try discriminate.
  intros X; inversion X; subst. eapply read_varint_rem; eauto.
Qed.

Lemma read_binary_nf d : nofault (read_binary d).
Proof.
  unfold read_binary. pose proof (read_varint_nf d) as H.
  destruct (read_varint d) as [[n d1]| |]; auto with nf.
  - destruct (i32 (Z.of_N n) <? 0)%Z eqn:Neg; auto with nf.
    destruct (has_bytes d1 (Z.to_N (i32 (Z.of_N n)))) eqn:E; auto with nf.
    apply len_nat in E. rewrite take_bytes_ok; auto with nf. apply Z.ltb_ge in Neg. lia.
  - intros f0 X. inversion X; subst. eapply H; reflexivity.
Qed.

Lemma read_binary_rem d v d' : read_binary d = Ok (v, d') ->
  (S (rem d') <= rem d)%nat /\ d_lfid d' = d_lfid d /\ d_boolp d' = d_boolp d /\ tot d' = tot d.
Proof.
  unfold read_binary. destruct (read_varint d) as [[n d1]| |] eqn:RV; try discriminate.
  apply read_varint_rem in RV. destruct RV as (R1 & R2 & R3 & R4 & R5).
  destruct (i32 (Z.of_N n) <? 0)%Z eqn:Neg; [discriminate|].
  destruct (has_bytes d1 (Z.to_N (i32 (Z.of_N n)))) eqn:E; [|discriminate].
  apply len_nat in E. apply Z.ltb_ge in Neg. rewrite take_bytes_ok by lia.
  intros X; inversion X; subst. unfold tot, rem in *. simpl. rewrite skipn_length. repeat split; try congruence; lia.
Qed.

Lemma read_struct_begin_nf d : nofault (read_struct_begin d).
Proof. unfold read_struct_begin. destruct (MAX_NESTING <=? len (d_lfid d)); auto with nf. Qed.

Lemma read_field_begin_nf d : nofault (read_field_begin d).
Proof.
  unfold read_field_begin.
  destruct (read_byte_raw_cases d) as [[_ H]|(b & tl & _ & H)]; rewrite H; auto with nf.
  destruct (b =? 0); auto with nf.
  destruct (N.land (N.shiftr b 4) 15 =? 0); auto with nf.
  unfold read_i16. pose proof (read_int_nf 16 (with_reader d tl (d_pos d + 1))) as Hn.
  destruct (read_int 16 _) as [[? ?]| |]; auto with nf. intros f0 X; inversion X; subst. eapply Hn; reflexivity.
Qed.

Lemma read_field_begin_rem d h d' : read_field_begin d = Ok (h, d') ->
  (S (rem d') <= rem d)%nat /\ length (d_lfid d') = length (d_lfid d) /\ tot d' = tot d.
Proof.
  unfold read_field_begin. destruct (read_byte_raw d) as [[b d1]| |] eqn:RB; try discriminate.
  apply read_byte_raw_rem in RB. destruct RB as (R1 & R2 & R3 & R4 & R5).
  destruct (b =? 0). { intros X; inversion X; subst. repeat split; [lia|congruence|congruence]. }
  assert (Hset : forall id l, length (set_top id l) = length l) by (intros id [|x t]; reflexivity).
  destruct (N.land (N.shiftr b 4) 15 =? 0).
  - unfold read_i16. destruct (read_int 16 d1) as [[fid d2]| |] eqn:RI; try discriminate.
    apply read_int_rem in RI. destruct RI as (I1 & I2 & I3 & I4 & I5).
    intros X; inversion X; subst.
    destruct (N.land b 15 =? 1); [|destruct (N.land b 15 =? 2)]; unfold tot, rem in *; simpl; rewrite Hset; repeat split; try lia; congruence.
  - intros X; inversion X; subst.
    destruct (N.land b 15 =? 1); [|destruct (N.land b 15 =? 2)]; unfold tot, rem in *; simpl; rewrite Hset; repeat split; try lia; congruence.
Qed.

Lemma read_list_begin_nf d : nofault (read_list_begin d).
Proof.
  unfold read_list_begin.
  destruct (read_byte_raw_cases d) as [[_ H]|(b & tl & _ & H)]; rewrite H; auto with nf.
  destruct (N.land (N.shiftr b 4) 15 =? 15).
  - pose proof (read_varint_nf (with_reader d tl (d_pos d + 1))) as Hn.
    destruct (read_varint _) as [[n d2]| |]; auto with nf.
    + destruct (i32 (Z.of_N n) <? 0)%Z; auto with nf. destruct (negb (has_bytes d2 _)); auto with nf.
    + intros f0 X; inversion X; subst. eapply Hn; reflexivity.
  - destruct (Z.of_N (N.land (N.shiftr b 4) 15) <? 0)%Z; auto with nf. destruct (negb (has_bytes _ _)); auto with nf.
Qed.

Lemma read_list_begin_rem d et c d' : read_list_begin d = Ok (et, c, d') ->
  (S (rem d') <= rem d)%nat /\ d_lfid d' = d_lfid d /\ d_boolp d' = d_boolp d /\ (0 <= c)%Z /\ (Z.to_nat c <= rem d')%nat /\ tot d' = tot d.
Proof.
  unfold read_list_begin. destruct (read_byte_raw d) as [[b d1]| |] eqn:RB; try discriminate.
  apply read_byte_raw_rem in RB. destruct RB as (R1 & R2 & R3 & R4 & R5).
  assert (G : forall (count : Z) (d2 : decoder),
    (if (count <? 0)%Z then Err ST_DECODE else if negb (has_bytes d2 (Z.to_N count)) then Err ST_DECODE
     else Ok (N.land b 15, count, d2)) = Ok (et, c, d') -> d2 = d' /\ (0 <= c)%Z /\ (Z.to_nat c <= rem d')%nat).
  { intros count d2. destruct (count <? 0)%Z eqn:Neg; [discriminate|]. destruct (has_bytes d2 (Z.to_N count)) eqn:E; [|discriminate].
    intros X; inversion X; subst. apply Z.ltb_ge in Neg. apply len_nat in E. unfold rem in *. repeat split; lia. }
  destruct (N.land (N.shiftr b 4) 15 =? 15).
  - destruct (read_varint d1) as [[n d2]| |] eqn:RV; try discriminate.
    apply read_varint_rem in RV. destruct RV as (V1 & V2 & V3 & V4 & V5).
    intros X. apply G in X. destruct X as (-> & X2 & X3). repeat split; try congruence; lia.
  - intros X. apply G in X. destruct X as (-> & X2 & X3). repeat split; try congruence; lia.
Qed.

Lemma read_map_begin_nf d : nofault (read_map_begin d).
Proof.
  unfold read_map_begin. pose proof (read_varint_nf d) as Hn.
  destruct (read_varint d) as [[n d1]| |]; auto with nf.
  - destruct (i32 (Z.of_N n) <? 0)%Z; auto with nf. destruct (i32 (Z.of_N n) =? 0)%Z; auto with nf.
    destruct (negb (has_bytes d1 _)); auto with nf.
    destruct (read_byte_raw_cases d1) as [[_ H]|(b & tl & _ & H)]; rewrite H; auto with nf.
  - intros f0 X; inversion X; subst. eapply Hn; reflexivity.
Qed.

Lemma read_map_begin_rem d kt vt c d' : read_map_begin d = Ok (kt, vt, c, d') ->
  (S (rem d') <= rem d)%nat /\ d_lfid d' = d_lfid d /\ d_boolp d' = d_boolp d /\ (Z.to_nat c <= S (rem d'))%nat /\ tot d' = tot d.
Proof.
  unfold read_map_begin. destruct (read_varint d) as [[n d1]| |] eqn:RV; try discriminate.
  apply read_varint_rem in RV. destruct RV as (V1 & V2 & V3 & V4 & V5).
  destruct (i32 (Z.of_N n) <? 0)%Z eqn:Neg; [discriminate|]. apply Z.ltb_ge in Neg.
  destruct (i32 (Z.of_N n) =? 0)%Z eqn:Zr.
  { intros X; inversion X; subst. repeat split; try congruence; simpl; lia. }
  destruct (has_bytes d1 (Z.to_N (i32 (Z.of_N n)))) eqn:E; [|discriminate]. apply len_nat in E.
  destruct (read_byte_raw d1) as [[b d2]| |] eqn:RB; try discriminate.
  apply read_byte_raw_rem in RB. destruct RB as (R1 & R2 & R3 & R4 & R5).
  intros X; inversion X; subst. unfold rem in *. repeat split; try congruence; lia.
Qed.

(* ------------------------------------------------------------------------------------------ *)
(** * The loops of the skip function *)

(** what is needed of the recursive call: never faults, moves forward, stays inside the buffer *)
Definition fwd (d d' : decoder) : Prop :=
  (rem d' <= rem d)%nat /\ length (d_lfid d') = length (d_lfid d) /\ tot d' = tot d.
Lemma fwd_refl d : fwd d d. Proof. repeat split; auto. Qed.
Lemma fwd_trans a b c : fwd a b -> fwd b c -> fwd a c.
Proof. intros (A1 & A2 & A3) (B1 & B2 & B3). repeat split; [lia|congruence|congruence]. Qed.

Definition good_skip (sk : decoder -> res decoder) : Prop :=
  forall d, nofault (sk d) /\ forall d', sk d = Ok d' -> fwd d d'.

Lemma skip_elems_good sk : good_skip sk -> forall n, good_skip (skip_elems sk n).
Proof.
  intros G. induction n as [|n IH]; intros d; cbn [skip_elems].
  - split; auto with nf. intros d' X; inversion X; subst. apply fwd_refl.
  - destruct (G d) as [Gn Gr]. destruct (sk d) as [d1| |] eqn:E.
    + pose proof (Gr d1 eq_refl) as R. destruct (IH d1) as [In Ir]. split; [exact In|].
      intros d' X. eapply fwd_trans; eauto.
    + split; [auto with nf | discriminate].
    + exfalso. eapply Gn; reflexivity.
Qed.

Lemma skip_pairs_good skk skv : good_skip skk -> good_skip skv -> forall n, good_skip (skip_pairs skk skv n).
Proof.
  intros Gk Gv. induction n as [|n IH]; intros d; cbn [skip_pairs].
  - split; auto with nf. intros d' X; inversion X; subst. apply fwd_refl.
  - destruct (Gk d) as [Gn Gr]. destruct (skk d) as [d1| |] eqn:E.
    + pose proof (Gr d1 eq_refl) as R. destruct (Gv d1) as [Hn Hr].
      destruct (skv d1) as [d2| |] eqn:E2.
      * pose proof (Hr d2 eq_refl) as R2. destruct (IH d2) as [In Ir]. split; [exact In|].
        intros d' X. eapply fwd_trans; [exact R|]. eapply fwd_trans; eauto.
      * split; [auto with nf | discriminate].
      * exfalso. eapply Hn; reflexivity.
    + split; [auto with nf | discriminate].
    + exfalso. eapply Gn; reflexivity.
Qed.

Lemma skip_fields_good sk : (forall ft, good_skip (sk ft)) ->
  forall k d, (rem d < length k)%nat ->
    nofault (skip_fields sk k d) /\ forall d', skip_fields sk k d = Ok d' -> fwd d d'.
Proof.
  intros G. induction k as [|k0 k IH]; intros d Hk; [simpl in Hk; lia|]. simpl in Hk. cbn [skip_fields].
  pose proof (read_field_begin_nf d) as Fn.
  destruct (read_field_begin d) as [[[[ft fid]|] d1]| |] eqn:RF.
  - apply read_field_begin_rem in RF. destruct RF as (R1 & R2 & R3).
    destruct (G ft d1) as [Gn Gr]. destruct (sk ft d1) as [d2| |] eqn:E.
    + destruct (Gr d2 eq_refl) as (S1 & S2 & S3). destruct (IH d2) as [In Ir]; [lia|]. split; [exact In|].
      intros d' X. destruct (Ir d' X) as (T1 & T2 & T3). repeat split; [lia|congruence|congruence].
    + split; [auto with nf | discriminate].
    + exfalso. eapply Gn; reflexivity.
  - apply read_field_begin_rem in RF. destruct RF as (R1 & R2 & R3). split; auto with nf.
    intros d' X; inversion X; subst. repeat split; [lia|congruence|congruence].
  - split; [auto with nf | discriminate].
  - exfalso. eapply Fn; reflexivity.
Qed.

(* ------------------------------------------------------------------------------------------ *)
(** * skip_value: never faults, never runs out of frames within the limit the C code enforces *)

Lemma skip_value_good : forall fuel ty depth el,
  MAX_NESTING <= N.of_nat fuel + depth -> good_skip (skip_value fuel ty depth el).
Proof.
  induction fuel as [|fuel IH]; intros ty depth el Hb d.
  - simpl. destruct (MAX_NESTING <=? depth) eqn:E.
    + split; [auto with nf | discriminate].
    + apply N.leb_gt in E. simpl in Hb. lia.
  - cbn [skip_value]. destruct (MAX_NESTING <=? depth) eqn:E.
    { split; [auto with nf | discriminate]. }
    apply N.leb_gt in E.
    assert (Hrec : forall ty' el', good_skip (skip_value fuel ty' (depth + 1) el')).
    { intros. apply IH. lia. }
    assert (Hbool : nofault (if el then match read_byte_raw d with Ok (_, d1) => Ok d1 | Err c => Err c | Fault f => Fault f end
                             else Ok (with_bool d false (d_boolv d))) /\
                    forall d', (if el then match read_byte_raw d with Ok (_, d1) => Ok d1 | Err c => Err c | Fault f => Fault f end
                                else Ok (with_bool d false (d_boolv d))) = Ok d' -> fwd d d').
    { destruct el.
      - pose proof (read_byte_raw_nf d) as Hn. destruct (read_byte_raw d) as [[b d1]| |] eqn:RB.
        + split; auto with nf. intros d' X; inversion X; subst. apply read_byte_raw_rem in RB.
          destruct RB as (R1 & R2 & _ & _ & R5). repeat split; [lia|congruence|congruence].
        + split; [auto with nf | discriminate].
        + exfalso. eapply Hn; reflexivity.
      - split; auto with nf. intros d' X; inversion X; subst. unfold fwd, tot, rem; simpl; repeat split; lia. }
    assert (Hskip : forall n, nofault (reader_skip n d) /\ forall d', reader_skip n d = Ok d' -> fwd d d').
    { intros n. split; [apply reader_skip_nf|]. intros d' X. apply reader_skip_rem in X.
      destruct X as (X1 & X2 & _ & X4). repeat split; [lia|congruence|congruence]. }
    assert (Hvar : nofault (match read_varint d with Ok (_, d1) => Ok d1 | Err c => Err c | Fault f => Fault f end) /\
                   forall d', match read_varint d with Ok (_, d1) => Ok d1 | Err c => Err c | Fault f => Fault f end = Ok d' -> fwd d d').
    { pose proof (read_varint_nf d) as Hn. destruct (read_varint d) as [[v d1]| |] eqn:RV.
      - split; auto with nf. intros d' X; inversion X; subst. apply read_varint_rem in RV.
        destruct RV as (R1 & R2 & _ & _ & R5). repeat split; [lia|congruence|congruence].
      - split; [auto with nf | discriminate].
      - exfalso. eapply Hn; reflexivity. }
    assert (Hlist : nofault (match read_list_begin d with
                             | Ok (et, count, d1) => skip_elems (skip_value fuel et (depth + 1) true) (Z.to_nat count) d1
                             | Err c => Err c | Fault f => Fault f end) /\
                    forall d', match read_list_begin d with
                               | Ok (et, count, d1) => skip_elems (skip_value fuel et (depth + 1) true) (Z.to_nat count) d1
                               | Err c => Err c | Fault f => Fault f end = Ok d' -> fwd d d').
    { pose proof (read_list_begin_nf d) as Hn. destruct (read_list_begin d) as [[[et c] d1]| |] eqn:RL.
      - apply read_list_begin_rem in RL. destruct RL as (R1 & R2 & _ & _ & _ & R6).
        destruct (skip_elems_good _ (Hrec et true) (Z.to_nat c) d1) as [Sn Sr]. split; [exact Sn|].
        intros d' X. destruct (Sr d' X) as (T1 & T2 & T3). repeat split; [lia|congruence|congruence].
      - split; [auto with nf | discriminate].
      - exfalso. eapply Hn; reflexivity. }
    destruct ty as [|p]; [split; [auto with nf | discriminate]|].
    do 4 (destruct p as [p|p|]; try (split; [auto with nf | discriminate]); try exact Hbool; try apply Hskip;
          try exact Hvar; try exact Hlist).
    { (* map *)
      pose proof (read_map_begin_nf d) as Hn. destruct (read_map_begin d) as [[[[kt vt] c] d1]| |] eqn:RM.
      + apply read_map_begin_rem in RM. destruct RM as (R1 & R2 & _ & _ & R5).
        destruct (skip_pairs_good _ _ (Hrec kt true) (Hrec vt true) (Z.to_nat c) d1) as [Sn Sr]. split; [exact Sn|].
        intros d' X. destruct (Sr d' X) as (T1 & T2 & T3). repeat split; [lia|congruence|congruence].
      + split; [auto with nf | discriminate].
      + exfalso. eapply Hn; reflexivity. }
    { (* struct *)
      pose proof (read_struct_begin_nf d) as Hn. unfold read_struct_begin in *.
      destruct (MAX_NESTING <=? len (d_lfid d)); [split; [auto with nf | discriminate]|].
      set (d1 := with_lfid d (0%Z :: d_lfid d)).
      destruct (skip_fields_good (fun ft => skip_value fuel ft (depth + 1) false) (fun ft => Hrec ft false)
                  (0 :: d_rest d1) d1) as [Sn Sr]; [unfold rem; simpl; lia|].
      destruct (skip_fields _ _ d1) as [d2| |] eqn:SF.
      + split; [auto with nf|]. intros d' X; inversion X; subst. destruct (Sr d2 eq_refl) as (S1 & S2 & S3).
        unfold fwd, tot, rem in *. simpl in *. repeat split; [lia| |lia]. destruct (d_lfid d2); simpl in *; lia.
      + split; [auto with nf | discriminate].
      + exfalso. eapply Sn; reflexivity. }
    { (* binary *)
      pose proof (read_binary_nf d) as Hn. destruct (read_binary d) as [[v d1]| |] eqn:RB.
      + split; [auto with nf|]. intros d' X; inversion X; subst. apply read_binary_rem in RB.
        destruct RB as (R1 & R2 & _ & R4). repeat split; [lia|congruence|congruence].
      + split; [auto with nf | discriminate].
      + exfalso. eapply Hn; reflexivity. }
Qed.

(** thrift_skip never reads outside the buffer, never needs more than THRIFT_MAX_NESTING frames, always
    terminates within its fuel, and only moves forward - for every type code and every decoder state. *)
Theorem skip_never_faults_all : forall ty d, nofault (thrift_skip ty d).
Proof.
  intros ty d. unfold thrift_skip, skip_fuel.
  apply (skip_value_good (N.to_nat MAX_NESTING) ty 0 false). rewrite N2Nat.id. lia.
Qed.

Theorem skip_depth_bounded_all : forall ty d, thrift_skip ty d <> Fault DepthExceeded.
Proof. intros ty d. apply skip_never_faults_all. Qed.

Theorem skip_forward : forall ty d d', thrift_skip ty d = Ok d' -> fwd d d'.
Proof.
  intros ty d d'. unfold thrift_skip, skip_fuel.
  apply (skip_value_good (N.to_nat MAX_NESTING) ty 0 false). rewrite N2Nat.id. lia.
Qed.

Lemma thrift_skip_good ty : good_skip (thrift_skip ty).
Proof. intros d. split; [apply skip_never_faults_all | apply skip_forward]. Qed.

(** non-trivial instances: a list of lists is skipped, 32 nested lists are refused with an error *)
Example skip_example_ok :
  thrift_skip 9 (decoder_init [0x19; 0x13; 7; 42]) = Ok (with_reader (decoder_init []) [42] 3).
Proof. vm_compute. reflexivity. Qed.
Example skip_example_deep :
  thrift_skip 9 (decoder_init (repeat 0x19 40 ++ [0])) = Err ST_DECODE.
Proof. vm_compute. reflexivity. Qed.

(** The function as it was before the repair (no depth parameter): whatever number of frames the stack
    affords, frames+1 input bytes exhaust it.  (F9: 200 KB of 0x19 overflowed the default 8 MiB stack.) *)
Lemma skip_unbounded_overflows : forall frames d,
  d_rest d = repeat 0x19 frames ++ [0] -> skip_unbounded frames 9 d = Fault DepthExceeded.
Proof.
  induction frames as [|n IH]; intros d Hd; [reflexivity|].
  cbn [skip_unbounded]. unfold read_list_begin.
  destruct (read_byte_raw_cases d) as [[E _]|(b & tl & E & H)]; [rewrite Hd in E; discriminate|].
  rewrite H. rewrite Hd in E. simpl in E. inversion E; subst b tl. clear E.
  change (N.land 25 15) with 9. change (N.land (N.shiftr 25 4) 15 =? 15) with false. cbv iota.
  change (Z.of_N (N.land (N.shiftr 25 4) 15)) with 1%Z. change (1 <? 0)%Z with false. cbv iota.
  assert (R : negb (has_bytes (with_reader d (repeat 25 n ++ [0]) (d_pos d + 1)) (Z.to_N 1)) = false).
  { apply Bool.negb_false_iff. apply len_nat. simpl d_rest. rewrite app_length, repeat_length. simpl. lia. }
  rewrite R. change (Z.to_nat 1) with 1%nat. cbn [skip_elems].
  rewrite IH by reflexivity. reflexivity.
Qed.

Theorem skip_unbounded_refuted : forall frames, exists bs,
  length bs = S frames /\ skip_unbounded frames 9 (decoder_init bs) = Fault DepthExceeded.
Proof.
  intros frames. exists (repeat 0x19 frames ++ [0]). split.
  - rewrite app_length, repeat_length. simpl. lia.
  - apply skip_unbounded_overflows. reflexivity.
Qed.
