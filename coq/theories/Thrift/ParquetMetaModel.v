(** Generic descriptor-driven writer and parser: the model of parquet_write_* / parquet_parse_* of
    src/thrift/parquet_types.c, built on the primitives of ThriftModel.v.

    [write_struct tbl fuel sid r e]   mirrors  write_xxx(enc, &r)   for the struct described by [tbl sid]
    [parse_struct tbl fuel sid r d]   mirrors  parse_xxx(dec, arena, &r): thrift_read_struct_begin, the
                                      `while (thrift_read_field_begin(..)) switch (field_id)` loop with
                                      thrift_skip in the default branch, thrift_read_struct_end.
    [fuel] bounds the struct-descriptor nesting ([carquet_rank]); running out of it is [Fault OutOfFuel],
    which the proofs exclude for ranked tables. *)
From Coq Require Import ZArith NArith List Bool.
From Carquet Require Import Base.Res Gen.Consts_gen Gen.Enums_gen Thrift.ThriftModel Thrift.ParquetMetaDesc.
Import ListNotations.
Local Open Scope Z_scope.

(** The record does not have the shape of the C struct (cannot happen for images of C data). *)
Definition ERR_SHAPE : Z := -1.

Fixpoint set_nth {A} (n : nat) (x : A) (l : list A) : list A :=
  match l with
  | [] => []
  | y :: t => match n with O => x :: t | S n' => y :: set_nth n' x t end
  end.

Definition get_int (r : list mval) (slot : nat) : option Z :=
  match nth_error r slot with Some (MInt z) => Some z | _ => None end.

Definition apply_pre (pre : list (nat * Z)) (r : list mval) : list mval :=
  fold_left (fun acc sv => set_nth (fst sv) (MInt (snd sv)) acc) pre r.

Definition set_has (f : field) (r : list mval) : list mval :=
  match f_has f with Some h => set_nth h (MInt 1) r | None => r end.

Definition find_field (id : Z) (fs : list field) : option field :=
  find (fun f => f_id f =? id) fs.

(** the writer's `if (...)` in front of a field *)
Definition present (f : field) (r : list mval) : bool :=
  match f_pres f with
  | PAlways => true
  | PHas => match f_has f with
            | Some h => match get_int r h with Some z => negb (z =? 0) | None => false end
            | None => false
            end
  | PPos => match get_int r (f_slot f) with Some z => 0 <? z | None => false end
  | PNonZero => match get_int r (f_slot f) with Some z => negb (z =? 0) | None => false end
  | PNonNull => match nth_error r (f_slot f) with Some (MBytes (Some _)) => true | _ => false end
  | PNonEmpty => match nth_error r (f_slot f) with
                 | Some (MBytes (Some (_ :: _))) => true
                 | Some (MArr (_ :: _)) => true
                 | _ => false
                 end
  | PEq s v => match get_int r s with Some z => z =? v | None => false end
  | PNotIn s vs => match get_int r s with Some z => negb (existsb (Z.eqb z) vs) | None => false end
  | PHasSubNonZero sub =>
      match f_has f with
      | Some h =>
        match get_int r h, nth_error r (f_slot f) with
        | Some z, Some (MRec l) => negb (z =? 0) && match get_int l sub with Some i => negb (i =? 0) | None => false end
        | _, _ => false
        end
      | None => false
      end
  | PNever => false
  end.

(** wire type written in the field header *)
Definition wire_type (k : kind) (v : mval) : N :=
  match k with
  | KBool => match v with MInt 0 => 2 | _ => 1 end
  | KI8 => 3 | KI16 => 4 | KI32 => 5 | KI64 => 6
  | KBin | KStr => 8
  | KStruct _ | KInline _ _ | KSetSkip _ => 12
  | KListI32 _ _ | KListStr _ _ | KListStruct _ _ _ => 9
  end%N.

Definition rbind {A B} (r : res A) (k : A -> res B) : res B :=
  match r with Ok a => k a | Err c => Err c | Fault f => Fault f end.
Notation "'do' x '<-' r ';' k" := (rbind r (fun x => k)) (at level 200, x pattern, r at level 100, k at level 200).

(* ------------------------------------------------------------------------------------------ *)
(** * Writer *)
Fixpoint iterM {A} (f : A -> encoder -> res encoder) (l : list A) (e : encoder) : res encoder :=
  match l with
  | [] => Ok e
  | x :: t => do e1 <- f x e; iterM f t e1
  end.

Section Writer.
  Variable tbl : nat -> sdesc.

  (** the value of one field, after its header; [ws] writes a nested struct; [r] is the enclosing record *)
  Definition write_value (ws : nat -> list mval -> encoder -> res encoder) (r : list mval)
             (k : kind) (v : mval) (e : encoder) : res encoder :=
    match k, v with
    | KBool, MInt _ => Ok e                                   (* carried by the field header *)
    | KI8, MInt z => write_byte z e
    | KI16, MInt z => write_i16 z e
    | KI32, MInt z => write_i32 z e
    | KI64, MInt z => write_i64 z e
    | KBin, MBytes (Some bs) => write_binary (Some bs) (Z.of_nat (length bs)) e
    | KBin, MBytes None => write_binary None 0 e
    | KStr, MBytes s => write_string s e
    | KStruct sid', MRec sub => ws sid' sub e
    | KListI32 _ _, MArr l =>
        do e1 <- write_list_begin 5 (Z.of_nat (length l)) e;
        iterM (fun x ea => match x with MInt z => write_i32 z ea | _ => Err ERR_SHAPE end) l e1
    | KListStr _ _, MArr l =>
        do e1 <- write_list_begin 8 (Z.of_nat (length l)) e;
        iterM (fun x ea => match x with MBytes s => write_string s ea | _ => Err ERR_SHAPE end) l e1
    | KListStruct sid' _ _, MArr l =>
        do e1 <- write_list_begin 12 (Z.of_nat (length l)) e;
        iterM (fun x ea => match x with MRec sub => ws sid' sub ea | _ => Err ERR_SHAPE end) l e1
    | KInline sid' _, _ => ws sid' r e                           (* same record *)
    | KSetSkip _, _ => do e1 <- write_struct_begin e; write_struct_end e1
    | _, _ => Err ERR_SHAPE
    end.

  (** `if (present) { thrift_write_field_header(..); write value }` *)
  Definition write_field (ws : nat -> list mval -> encoder -> res encoder) (r : list mval)
             (f : field) (e : encoder) : res encoder :=
    if present f r then
      match nth_error r (f_slot f) with
      | Some v => do e1 <- write_field_header (wire_type (f_kind f) v) (f_id f) e;
                  write_value ws r (f_kind f) v e1
      | None => Err ERR_SHAPE
      end
    else Ok e.

  Fixpoint write_struct (fuel : nat) (sid : nat) (r : list mval) (e : encoder) {struct fuel} : res encoder :=
    match fuel with
    | O => Fault OutOfFuel
    | S fuel' =>
      do e0 <- write_struct_begin e;
      do e1 <- iterM (write_field (write_struct fuel') r) (s_fields (tbl sid)) e0;
      write_struct_end e1
    end.

  (** parquet_write_file_metadata / parquet_write_page_header: the bytes appended to the buffer *)
  Definition write_message (fuel : nat) (sid : nat) (r : list mval) : res (list N) :=
    do e <- write_struct fuel sid r encoder_init; Ok (e_out e).
End Writer.

(* ------------------------------------------------------------------------------------------ *)
(** * Parser *)
Definition validate_count (count max err : Z) : res unit :=
  if (count <? 0) || (max <? count) then Err err else Ok tt.

(** arena_strdup_thrift / arena_bindup_thrift *)
Definition read_str (d : decoder) : res (mval * decoder) :=
  do (bs, d1) <- read_binary d; Ok (MBytes (Some (cstr bs)), d1).
Definition read_bin (d : decoder) : res (mval * decoder) :=
  do (bs, d1) <- read_binary d; Ok (MBytes (match bs with [] => None | _ => Some bs end), d1).
Definition read_i32_m (d : decoder) : res (mval * decoder) :=
  do (z, d1) <- read_i32 d; Ok (MInt z, d1).

Fixpoint repeat_read {A} (rd : decoder -> res (A * decoder)) (n : nat) (d : decoder) : res (list A * decoder) :=
  match n with
  | O => Ok ([], d)
  | S n' => do (x, d1) <- rd d; do (xs, d2) <- repeat_read rd n' d1; Ok (x :: xs, d2)
  end.

(** `while (thrift_read_field_begin(dec, &type, &field_id)) handle(type, field_id)`; every iteration
    consumes at least the header byte; the fuel is a list used for its length only *)
Fixpoint parse_loop (handle : N -> Z -> list mval -> decoder -> res (list mval * decoder))
         (k : list N) (r : list mval) (d : decoder) : res (list mval * decoder) :=
  match k with
  | [] => Fault OutOfFuel
  | _ :: k' =>
    do (h, d1) <- read_field_begin d;
    match h with
    | None => Ok (r, d1)
    | Some (ty, id) => do (r2, d2) <- handle ty id r d1; parse_loop handle k' r2 d2
    end
  end.

Section Parser.
  Variable tbl : nat -> sdesc.

  (** the body of one `case` of the switch; [ps] parses a nested struct into the record given *)
  Definition parse_field (ps : nat -> list mval -> decoder -> res (list mval * decoder))
             (f : field) (ty : N) (r : list mval) (d : decoder) : res (list mval * decoder) :=
    let r1 := set_has f r in
    let fresh := fun (sid' : nat) (d : decoder) =>
      do (sub, d1) <- ps sid' (s_init (tbl sid')) d; Ok (MRec sub, d1) in
    match f_kind f with
    | KBool => do (b, d1) <- read_bool d; Ok (set_nth (f_slot f) (MInt (if b then 1 else 0)) r1, d1)
    | KI8 => do (z, d1) <- read_byte d; Ok (set_nth (f_slot f) (MInt z) r1, d1)
    | KI16 => do (z, d1) <- read_i16 d; Ok (set_nth (f_slot f) (MInt z) r1, d1)
    | KI32 => do (z, d1) <- read_i32 d; Ok (set_nth (f_slot f) (MInt z) r1, d1)
    | KI64 => do (z, d1) <- read_i64 d; Ok (set_nth (f_slot f) (MInt z) r1, d1)
    | KBin => do (v, d1) <- read_bin d; Ok (set_nth (f_slot f) v r1, d1)
    | KStr => do (v, d1) <- read_str d; Ok (set_nth (f_slot f) v r1, d1)
    | KStruct sid' => do (v, d1) <- fresh sid' d; Ok (set_nth (f_slot f) v r1, d1)
    | KListI32 max err =>
        do (_, count, d1) <- read_list_begin d;
        do _u <- validate_count count max err;
        do (xs, d2) <- repeat_read read_i32_m (Z.to_nat count) d1;
        Ok (set_nth (f_slot f) (MArr xs) r1, d2)
    | KListStr max err =>
        do (_, count, d1) <- read_list_begin d;
        do _u <- validate_count count max err;
        do (xs, d2) <- repeat_read read_str (Z.to_nat count) d1;
        Ok (set_nth (f_slot f) (MArr xs) r1, d2)
    | KListStruct sid' max err =>
        do (_, count, d1) <- read_list_begin d;
        do _u <- validate_count count max err;
        do (xs, d2) <- repeat_read (fresh sid') (Z.to_nat count) d1;
        Ok (set_nth (f_slot f) (MArr xs) r1, d2)
    | KInline sid' pre => ps sid' (apply_pre pre r1) d
    | KSetSkip pre => do d1 <- thrift_skip ty d; Ok (apply_pre pre r1, d1)
    end.

  (** `switch (field_id) { case ...: ...; default: thrift_skip(dec, type); }` *)
  Definition handle_field (ps : nat -> list mval -> decoder -> res (list mval * decoder)) (fs : list field)
             (ty : N) (id : Z) (r : list mval) (d : decoder) : res (list mval * decoder) :=
    match find_field id fs with
    | Some f => parse_field ps f ty r d
    | None => do d1 <- thrift_skip ty d; Ok (r, d1)
    end.

  Fixpoint parse_struct (fuel : nat) (sid : nat) (r : list mval) (d : decoder) {struct fuel} : res (list mval * decoder) :=
    match fuel with
    | O => Fault OutOfFuel
    | S fuel' =>
      do d0 <- read_struct_begin d;
      do (r1, d1) <- parse_loop (handle_field (parse_struct fuel') (s_fields (tbl sid))) (0%N :: d_rest d0) r d0;
      Ok (r1, read_struct_end d1)
    end.

  (** parquet_parse_file_metadata / parquet_parse_page_header: (structure, bytes consumed) *)
  Definition parse_message (fuel : nat) (sid : nat) (data : list N) : res (list mval * N) :=
    do (r, d) <- parse_struct fuel sid (s_init (tbl sid)) (decoder_init data); Ok (r, d_pos d).
End Parser.

(** carquet's entry points *)
Definition FUEL : nat := 8.
Definition write_file_metadata (m : list mval) : res (list N) := write_message carquet_tbl FUEL S_FILE_META m.
Definition write_page_header (m : list mval) : res (list N) := write_message carquet_tbl FUEL S_PAGE_HEADER m.
Definition parse_file_metadata (bs : list N) : res (list mval * N) := parse_message carquet_tbl FUEL S_FILE_META bs.
Definition parse_page_header (bs : list N) : res (list mval * N) := parse_message carquet_tbl FUEL S_PAGE_HEADER bs.
