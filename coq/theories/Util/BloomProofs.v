(** Proofs for C20, filter part.  The byte-array model of src/metadata/bloom_filter.c (BloomModel) is
    related to the Parquet split-block Bloom filter (BloomSpec) by a simulation relation [R]:
    the model's data is the stored form of the specification's filter.  Every model operation
    preserves [R] and never faults; the properties are proved on the specification side and carried
    over: no false negatives (also after reload and after merge), fresh filters are empty, sizes are
    whole blocks, and the bits set are the ones of the Parquet algorithm. *)
From Coq Require Import NArith ZArith Arith List Bool Lia ZifyBool ZifyNat ZifyN.
From Carquet Require Import Base.Bits Base.Res Gen.Enums_gen
     Util.Xxh64Spec Util.Xxh64Model Util.Xxh64Proofs Util.BloomSpec Util.BloomModel.
Import ListNotations.
Local Open Scope N_scope.

Ltac Zify.zify_post_hook ::= Z.div_mod_to_equations.

Definition w32 (x : N) : Prop := x < 2^32.

(* ------------------------------------------------------------------ generic list facts *)

Lemma update_length {A} (l : list A) i f : length (update l i f) = length l.
Proof. revert i; induction l as [|x l IH]; intros [|i]; cbn [update length]; try reflexivity; rewrite IH; reflexivity. Qed.

Lemma update_nth_same {A} (l : list A) i f x : nth_error l i = Some x -> nth_error (update l i f) i = Some (f x).
Proof.
  revert i; induction l as [|y l IH]; intros [|i] H; cbn in *; try discriminate.
  - inversion H; reflexivity.
  - apply IH, H.
Qed.

Lemma update_nth_other {A} (l : list A) i j f : i <> j -> nth_error (update l i f) j = nth_error l j.
Proof.
  revert i j; induction l as [|y l IH]; intros [|i] [|j] H; cbn; try reflexivity; try congruence.
  apply IH. congruence.
Qed.

Lemma update_ext_at {A} (l : list A) i f g x : nth_error l i = Some x -> f x = g x -> update l i f = update l i g.
Proof.
  revert i; induction l as [|y l IH]; intros [|i] H E; cbn in *; try discriminate; try reflexivity.
  - inversion H; subst. rewrite E. reflexivity.
  - f_equal. apply IH; assumption.
Qed.

Lemma update_Forall {A} (P : A -> Prop) (l : list A) i f :
  Forall P l -> (forall x, P x -> P (f x)) -> Forall P (update l i f).
Proof.
  intros H Hf. revert i; induction H as [|x l Hx Hl IH]; intros [|i]; cbn [update]; constructor; auto.
Qed.

Lemma update_app_at {A} (pre : list A) x rest f :
  update (pre ++ x :: rest) (length pre) f = pre ++ f x :: rest.
Proof. induction pre as [|y pre IH]; cbn [app length update]; [reflexivity|rewrite IH; reflexivity]. Qed.

Lemma nth_error_app_at {A} (pre : list A) x rest : nth_error (pre ++ x :: rest) (length pre) = Some x.
Proof. induction pre as [|y pre IH]; cbn; [reflexivity|exact IH]. Qed.

Lemma map2_length {A B C} (f : A -> B -> C) xs : forall ys, length xs = length ys -> length (map2 f xs ys) = length xs.
Proof. induction xs as [|x xs IH]; intros [|y ys] H; cbn in *; try lia. rewrite IH; lia. Qed.

(* ------------------------------------------------------------------ words stored as bytes *)

Definition wbytes (ws : list N) : list N := flat_map (le_bytes 4) ws.

Lemma le4_eq v : le_bytes 4 v = [v mod 256; (v / 256) mod 256; (v / 65536) mod 256; (v / 16777216) mod 256].
Proof. cbn [le_bytes]. rewrite !N.div_div by discriminate. reflexivity. Qed.

Lemma wbytes_cons w ws :
  wbytes (w :: ws) = w mod 256 :: (w / 256) mod 256 :: (w / 65536) mod 256 :: (w / 16777216) mod 256 :: wbytes ws.
Proof. unfold wbytes. cbn [flat_map]. rewrite le4_eq. reflexivity. Qed.

Lemma wbytes_length ws : length (wbytes ws) = (length ws * 4)%nat.
Proof. induction ws as [|w ws IH]; [reflexivity|]. rewrite wbytes_cons. cbn [length]. rewrite IH. lia. Qed.

Lemma wbytes_app a b : wbytes (a ++ b) = wbytes a ++ wbytes b.
Proof. unfold wbytes. apply flat_map_app. Qed.

Lemma le4_value w : w32 w ->
  w mod 256 + 256 * ((w / 256) mod 256 + 256 * ((w / 65536) mod 256 + 256 * ((w / 16777216) mod 256))) = w.
Proof. unfold w32. change (2^32) with 4294967296. intros H. lia. Qed.

Lemma rd32_wbytes k : forall ws w, nth_error ws k = Some w -> w32 w -> rd32 (wbytes ws) (k * 4) = Ok w.
Proof.
  induction k as [|k IH]; intros [|w0 ws] w H Hw; cbn [nth_error] in H; try discriminate.
  - inversion H; subst. rewrite wbytes_cons. cbn [Nat.mul rd32]. rewrite le4_value by exact Hw. reflexivity.
  - rewrite wbytes_cons. cbn [Nat.mul Nat.add rd32]. apply IH; assumption.
Qed.

Lemma wr32_wbytes k : forall ws v, (k < length ws)%nat ->
  wr32 (wbytes ws) (k * 4) v = Ok (wbytes (update ws k (fun _ => v))).
Proof.
  induction k as [|k IH]; intros [|w0 ws] v H; cbn [length] in H; try lia.
  - rewrite wbytes_cons. cbn [Nat.mul wr32 update]. rewrite wbytes_cons. reflexivity.
  - rewrite wbytes_cons. cbn [Nat.mul Nat.add wr32 update]. rewrite IH by lia. cbn [rmap].
    rewrite wbytes_cons. reflexivity.
Qed.

(* ------------------------------------------------------------------ the mask bits *)

Definition mbit (key s : N) : N := 2 ^ (((key * s) mod 2^32) / 2^27).

Lemma mask_mbit x : mask x = map (mbit x) salt.
Proof. reflexivity. Qed.

Lemma SALT_salt : SALT = salt.
Proof. reflexivity. Qed.

Lemma mbit_pos_lt key s : ((key * s) mod 2^32) / 2^27 < 32.
Proof.
  apply N.div_lt_upper_bound; [apply N.pow_nonzero; discriminate|].
  change (2^27 * 32) with (2^32). apply N.mod_lt. apply N.pow_nonzero; discriminate.
Qed.

Lemma mbit_w32 key s : w32 (mbit key s).
Proof. unfold w32, mbit. apply N.pow_lt_mono_r; [reflexivity|apply mbit_pos_lt]. Qed.

Lemma mbit_nz key s : mbit key s <> 0.
Proof. apply N.pow_nonzero. discriminate. Qed.

Lemma bit32_spec s key : bit32 (N.shiftr (u32 (s * key)) 27) = Ok (mbit key s).
Proof.
  unfold bit32, u32. rewrite N.shiftr_div_pow2. change 4294967296 with (2^32). rewrite (N.mul_comm s key).
  pose proof (mbit_pos_lt key s) as L.
  destruct (32 <=? (key * s) mod 2^32 / 2^27) eqn:E; [apply N.leb_le in E; lia|].
  rewrite N.shiftl_mul_pow2, N.mul_1_l. f_equal. apply N.mod_small. apply mbit_w32.
Qed.

(** a word and-ed with a single bit is that bit or nothing *)
Lemma land_pow2 w p : N.land w (2^p) = if N.testbit w p then 2^p else 0.
Proof.
  apply N.bits_inj_iff; intro n. rewrite N.land_spec, N.pow2_bits_eqb.
  destruct (N.eqb_spec p n) as [->|Hne].
  - destruct (N.testbit w n); [rewrite N.pow2_bits_true; reflexivity|rewrite N.bits_0; reflexivity].
  - rewrite andb_false_r. destruct (N.testbit w p); [|rewrite N.bits_0; reflexivity].
    rewrite N.pow2_bits_false by exact Hne. reflexivity.
Qed.

Lemma word_has_mbit w key s : word_has w (mbit key s) = negb (N.land w (mbit key s) =? 0).
Proof.
  unfold word_has, mbit. rewrite land_pow2. set (p := (key * s) mod 2 ^ 32 / 2 ^ 27).
  assert (Hp : 2^p <> 0) by (apply N.pow_nonzero; discriminate).
  destruct (N.testbit w p).
  - rewrite N.eqb_refl. apply N.eqb_neq in Hp. rewrite Hp. reflexivity.
  - rewrite (N.eqb_refl 0). change (negb true) with false. apply N.eqb_neq. congruence.
Qed.

(* ------------------------------------------------------------------ the block loops on words *)

Fixpoint or_at (k : nat) (ms ws : list N) : list N :=
  match ms with [] => ws | m :: ms' => or_at (S k) ms' (update ws k (fun w => N.lor w m)) end.

Fixpoint has_at (k : nat) (ms ws : list N) : bool :=
  match ms with
  | [] => true
  | m :: ms' => match nth_error ws k with
                | Some w => if word_has w m then has_at (S k) ms' ws else false
                | None => false
                end
  end.

Lemma or_at_length ms : forall k ws, length (or_at k ms ws) = length ws.
Proof. induction ms as [|m ms IH]; intros k ws; cbn [or_at]; [reflexivity|]. rewrite IH. apply update_length. Qed.

Lemma nth_error_lt {A} (l : list A) k : (k < length l)%nat -> exists x, nth_error l k = Some x.
Proof. intros H. destruct (nth_error l k) eqn:E; [eauto|]. apply nth_error_None in E. lia. Qed.

Lemma Forall_nth_error {A} (P : A -> Prop) l k x : Forall P l -> nth_error l k = Some x -> P x.
Proof. intros H E. rewrite Forall_forall in H. apply H. eapply nth_error_In, E. Qed.

Lemma block_insert_words key salts : forall k ws,
  (k + length salts <= length ws)%nat -> Forall w32 ws ->
  BloomModel.block_insert salts (wbytes ws) (k * 4) key = Ok (wbytes (or_at k (map (mbit key) salts) ws)).
Proof.
  induction salts as [|s ss IH]; intros k ws Hk Hw; [reflexivity|].
  cbn [length] in Hk. cbn [BloomModel.block_insert map or_at].
  destruct (nth_error_lt ws k) as [w E]; [lia|].
  rewrite (rd32_wbytes k ws w E) by (eapply Forall_nth_error; eassumption).
  rewrite bit32_spec, wr32_wbytes by lia.
  rewrite (update_ext_at ws k (fun _ => N.lor w (mbit key s)) (fun w => N.lor w (mbit key s)) w E eq_refl).
  replace (k * 4 + 4)%nat with (S k * 4)%nat by lia.
  apply IH.
  - rewrite update_length. lia.
  - apply update_Forall; [exact Hw|]. intros x Hx. apply lor_lt_pow2; [exact Hx|apply mbit_w32].
Qed.

Lemma block_check_words key salts : forall k ws,
  (k + length salts <= length ws)%nat -> Forall w32 ws ->
  BloomModel.block_check salts (wbytes ws) (k * 4) key = Ok (has_at k (map (mbit key) salts) ws).
Proof.
  induction salts as [|s ss IH]; intros k ws Hk Hw; [reflexivity|].
  cbn [length] in Hk. cbn [BloomModel.block_check map has_at].
  destruct (nth_error_lt ws k) as [w E]; [lia|].
  rewrite (rd32_wbytes k ws w E) by (eapply Forall_nth_error; eassumption).
  rewrite bit32_spec, E, word_has_mbit.
  destruct (N.land w (mbit key s) =? 0); cbn [negb]; [reflexivity|].
  replace (k * 4 + 4)%nat with (S k * 4)%nat by lia.
  apply IH; [lia|exact Hw].
Qed.

(** the loops seen on one block inside the flat word array *)
Lemma or_at_block ms : forall pre b rest, length b = length ms ->
  or_at (length pre) ms (pre ++ b ++ rest) = pre ++ map2 N.lor b ms ++ rest.
Proof.
  induction ms as [|m ms IH]; intros pre [|w b] rest H; cbn [length] in H; try lia; [reflexivity|].
  cbn [or_at map2 app]. rewrite update_app_at.
  replace (S (length pre)) with (length (pre ++ [N.lor w m])) by (rewrite app_length; cbn [length]; lia).
  replace (pre ++ N.lor w m :: b ++ rest) with ((pre ++ [N.lor w m]) ++ b ++ rest)
    by (rewrite <- app_assoc; reflexivity).
  rewrite IH by lia. rewrite <- app_assoc. reflexivity.
Qed.

Lemma has_at_block ms : forall pre b rest, length b = length ms ->
  has_at (length pre) ms (pre ++ b ++ rest) = forallb (fun wm => word_has (fst wm) (snd wm)) (combine b ms).
Proof.
  induction ms as [|m ms IH]; intros pre [|w b] rest H; cbn [length] in H; try lia; [reflexivity|].
  cbn [has_at combine forallb app fst snd]. rewrite nth_error_app_at.
  destruct (word_has w m); cbn [andb]; [|reflexivity].
  replace (S (length pre)) with (length (pre ++ [w])) by (rewrite app_length; cbn [length]; lia).
  replace (pre ++ w :: b ++ rest) with ((pre ++ [w]) ++ b ++ rest) by (rewrite <- app_assoc; reflexivity).
  apply IH. lia.
Qed.

(* ------------------------------------------------------------------ well-formed specification filters *)

Definition wf_block (b : block) : Prop := length b = 8%nat /\ Forall w32 b.
Definition wf (s : sbbf) : Prop := Forall wf_block s.

Lemma concat_length_wf s : wf s -> length (concat s) = (length s * 8)%nat.
Proof.
  intros H. induction H as [|b s [Hb _] Hs IH]; [reflexivity|].
  cbn [concat length]. rewrite app_length, IH, Hb. lia.
Qed.

Lemma concat_w32 s : wf s -> Forall w32 (concat s).
Proof.
  intros H. induction H as [|b s [_ Hb] Hs IH]; [constructor|].
  cbn [concat]. apply Forall_app. split; assumption.
Qed.

Lemma mask_length x : length (mask x) = 8%nat.
Proof. reflexivity. Qed.

(** splitting the flat array around block i *)
Lemma concat_split (s : sbbf) i b : nth_error s i = Some b -> wf s ->
  exists pre rest, concat s = pre ++ b ++ rest /\ length pre = (i * 8)%nat /\
    forall g, concat (update s i g) = pre ++ g b ++ rest.
Proof.
  revert i; induction s as [|b0 s IH]; intros [|i] H Hwf; cbn [nth_error] in H; try discriminate.
  - inversion H; subst. exists [], (concat s). repeat split; reflexivity.
  - inversion Hwf as [|? ? [Hb0 _] Hs]; subst.
    destruct (IH i H Hs) as (pre & rest & E & L & U).
    exists (b0 ++ pre), rest. split; [|split].
    + cbn [concat]. rewrite E, <- app_assoc. reflexivity.
    + rewrite app_length, L, Hb0. lia.
    + intros g. cbn [update concat]. rewrite U, <- app_assoc. reflexivity.
Qed.

Lemma block_insert_wf b x : wf_block b -> wf_block (BloomSpec.block_insert b x).
Proof.
  intros [L W]. unfold BloomSpec.block_insert. split.
  - rewrite map2_length; [exact L|rewrite L; reflexivity].
  - rewrite mask_mbit. revert W. generalize salt. clear L.
    induction b as [|w b IH]; intros sl W; destruct sl as [|s sl]; cbn [map map2]; try constructor.
    + inversion W; subst. apply lor_lt_pow2; [assumption|apply mbit_w32].
    + inversion W; subst. apply IH. assumption.
Qed.

Lemma insert_at_wf s i x : wf s -> wf (insert_at s i x).
Proof. intros H. unfold insert_at. apply update_Forall; [exact H|]. intros b Hb. apply block_insert_wf, Hb. Qed.

Lemma insert_at_length s i x : length (insert_at s i x) = length s.
Proof. apply update_length. Qed.

(* ------------------------------------------------------------------ the simulation relation *)

Definition R (f : filter) (s : sbbf) : Prop :=
  data f = to_bytes s /\ num_blocks f = nblocks s /\ num_bytes f = 32 * nblocks s /\
  wf s /\ 0 < nblocks s /\ num_bytes f < 2^64.

Lemma to_bytes_wbytes s : to_bytes s = wbytes (concat s).
Proof. reflexivity. Qed.

(** the index computed by the C code is inside the filter, for every size *)
Lemma model_index_lt h nb : w64 h -> 0 < nb -> BloomModel.block_index h nb < nb.
Proof.
  intros Hh Hnb. unfold BloomModel.block_index, usz. rewrite !N.shiftr_div_pow2.
  change 18446744073709551616 with (2^64).
  assert (Hhi : h / 2^32 < 2^32).
  { apply N.div_lt_upper_bound; [apply N.pow_nonzero; discriminate|]. exact Hh. }
  destruct (N.le_gt_cases nb (2^32)) as [Le|Gt].
  - rewrite N.mod_small.
    + apply N.div_lt_upper_bound; [apply N.pow_nonzero; discriminate|].
      apply N.mul_lt_mono_pos_r; assumption.
    + apply N.lt_le_trans with (2^32 * nb); [apply N.mul_lt_mono_pos_r; assumption|].
      change (2^64) with (2^32 * 2^32). apply N.mul_le_mono_l. exact Le.
  - apply N.lt_trans with (2^32); [|exact Gt].
    apply N.div_lt_upper_bound; [apply N.pow_nonzero; discriminate|].
    change (2^32 * 2^32) with (2^64). apply N.mod_lt. apply N.pow_nonzero; discriminate.
Qed.

(** ... and for filters of at most 2^32 blocks (128 GiB) it is the index of the Parquet format *)
Lemma model_index_eq h nb : w64 h -> nb <= 2^32 -> BloomModel.block_index h nb = BloomSpec.block_index h nb.
Proof.
  intros Hh Hnb. unfold BloomModel.block_index, BloomSpec.block_index, usz. rewrite !N.shiftr_div_pow2.
  change 18446744073709551616 with (2^64).
  assert (Hhi : h / 2^32 < 2^32).
  { apply N.div_lt_upper_bound; [apply N.pow_nonzero; discriminate|]. exact Hh. }
  destruct (N.eq_dec nb 0) as [->|Hz]; [rewrite N.mul_0_r; reflexivity|].
  rewrite N.mod_small; [reflexivity|].
  apply N.lt_le_trans with (2^32 * nb); [apply N.mul_lt_mono_pos_r; [lia|assumption]|].
  change (2^64) with (2^32 * 2^32). apply N.mul_le_mono_l. exact Hnb.
Qed.

Lemma key_eq h : u32 h = key h.
Proof. reflexivity. Qed.

Lemma block_offset f s i : R f s -> i < nblocks s ->
  N.to_nat (usz (i * BLOCK_SIZE)) = (N.to_nat i * 8 * 4)%nat.
Proof.
  intros (_ & _ & Hnby & _ & _ & Hlt) Hi. unfold usz, BLOCK_SIZE.
  change Gen.Consts_gen.Bloom_BLOOM_FILTER_BLOCK_SIZE with 32.
  change 18446744073709551616 with (2^64).
  rewrite N.mod_small by lia. lia.
Qed.

Lemma R_insert_hash f s h : R f s -> w64 h ->
  exists f', insert_hash f h = Ok f' /\
             R f' (insert_at s (BloomModel.block_index h (num_blocks f)) (key h)) /\
             num_blocks f' = num_blocks f /\ num_bytes f' = num_bytes f.
Proof.
  intros HR Hh. pose proof HR as (Hd & Hnb & Hnby & Hwf & Hpos & Hlt).
  set (i := BloomModel.block_index h (num_blocks f)).
  assert (Hi : i < nblocks s) by (unfold i; rewrite Hnb; apply model_index_lt; assumption).
  assert (Hin : (N.to_nat i < length s)%nat) by (unfold nblocks in Hi; lia).
  destruct (nth_error_lt s (N.to_nat i) Hin) as [b Eb].
  destruct (concat_split s (N.to_nat i) b Eb Hwf) as (pre & rest & Ec & Lp & U).
  assert (Hb : wf_block b) by (eapply Forall_nth_error; eassumption).
  unfold insert_hash. fold i. rewrite (block_offset f s i HR Hi), Hd, to_bytes_wbytes, key_eq, SALT_salt.
  rewrite block_insert_words.
  - rewrite <- mask_mbit. rewrite Ec, <- Lp, or_at_block by (rewrite mask_length; apply Hb).
    eexists. split; [reflexivity|]. split; [|split; reflexivity].
    unfold R, set_data. cbn [data num_bytes num_blocks].
    unfold insert_at, nblocks. rewrite update_length, to_bytes_wbytes, U. fold (nblocks s).
    repeat split; try assumption. apply (insert_at_wf s i (key h) Hwf).
  - rewrite concat_length_wf by exact Hwf. change (length salt) with 8%nat. lia.
  - apply concat_w32, Hwf.
Qed.

Lemma R_check_hash f s h : R f s -> w64 h ->
  check_hash f h = Ok (check_at s (BloomModel.block_index h (num_blocks f)) (key h)).
Proof.
  intros HR Hh. pose proof HR as (Hd & Hnb & Hnby & Hwf & Hpos & Hlt).
  set (i := BloomModel.block_index h (num_blocks f)).
  assert (Hi : i < nblocks s) by (unfold i; rewrite Hnb; apply model_index_lt; assumption).
  assert (Hin : (N.to_nat i < length s)%nat) by (unfold nblocks in Hi; lia).
  destruct (nth_error_lt s (N.to_nat i) Hin) as [b Eb].
  destruct (concat_split s (N.to_nat i) b Eb Hwf) as (pre & rest & Ec & Lp & U).
  assert (Hb : wf_block b) by (eapply Forall_nth_error; eassumption).
  unfold check_hash. fold i. rewrite (block_offset f s i HR Hi), Hd, to_bytes_wbytes, key_eq, SALT_salt.
  rewrite block_check_words.
  - rewrite <- mask_mbit. rewrite Ec, <- Lp, has_at_block by (rewrite mask_length; apply Hb).
    unfold check_at. rewrite Eb. reflexivity.
  - rewrite concat_length_wf by exact Hwf. change (length salt) with 8%nat. lia.
  - apply concat_w32, Hwf.
Qed.

(* ------------------------------------------------------------------ bit inclusion on the specification side *)

(** every bit of a is a bit of b *)
Definition subw (a b : N) : Prop := N.land a b = a.
Definition sub (s s' : sbbf) : Prop := Forall2 (Forall2 subw) s s'.

Lemma subw_refl a : subw a a.
Proof. apply N.land_diag. Qed.

Lemma subw_trans a b c : subw a b -> subw b c -> subw a c.
Proof. unfold subw. intros H1 H2. rewrite <- H1 at 1. rewrite <- N.land_assoc, H2. exact H1. Qed.

Lemma subw_lor_l a m : subw a (N.lor a m).
Proof.
  unfold subw. apply N.bits_inj_iff; intro n. rewrite N.land_spec, N.lor_spec.
  destruct (N.testbit a n), (N.testbit m n); reflexivity.
Qed.

Lemma subw_lor_r a m : subw m (N.lor a m).
Proof.
  unfold subw. apply N.bits_inj_iff; intro n. rewrite N.land_spec, N.lor_spec.
  destruct (N.testbit a n), (N.testbit m n); reflexivity.
Qed.

Lemma word_has_subw w m : word_has w m = true <-> subw m w.
Proof. unfold word_has, subw. rewrite N.eqb_eq, N.land_comm. tauto. Qed.

Lemma word_has_mono w w' m : subw w w' -> word_has w m = true -> word_has w' m = true.
Proof. rewrite !word_has_subw. intros H1 H2. eapply subw_trans; eassumption. Qed.

Lemma Forall2_refl {A} (P : A -> A -> Prop) l : (forall x, P x x) -> Forall2 P l l.
Proof. intros H. induction l; constructor; auto. Qed.

Lemma Forall2_trans {A} (P : A -> A -> Prop) : (forall x y z, P x y -> P y z -> P x z) ->
  forall a b c, Forall2 P a b -> Forall2 P b c -> Forall2 P a c.
Proof.
  intros HT a b c H1. revert c. induction H1 as [|x y a b Hxy Hab IH]; intros c H2; inversion H2; subst; constructor.
  - eapply HT; eassumption.
  - apply IH. assumption.
Qed.

Lemma Forall2_nth {A B} (P : A -> B -> Prop) l l' i a : Forall2 P l l' -> nth_error l i = Some a ->
  exists b, nth_error l' i = Some b /\ P a b.
Proof.
  intros H. revert i. induction H as [|x y l l' Hxy Hl IH]; intros [|i] E; cbn in *; try discriminate.
  - inversion E; subst. eauto.
  - apply IH, E.
Qed.

Lemma sub_refl s : sub s s.
Proof. apply Forall2_refl. intro b. apply Forall2_refl. apply subw_refl. Qed.

Lemma sub_trans a b c : sub a b -> sub b c -> sub a c.
Proof. apply Forall2_trans. apply Forall2_trans. apply subw_trans. Qed.

Lemma block_check_gen_mono ms : forall b b', Forall2 subw b b' ->
  forallb (fun wm => word_has (fst wm) (snd wm)) (combine b ms) = true ->
  forallb (fun wm => word_has (fst wm) (snd wm)) (combine b' ms) = true.
Proof.
  induction ms as [|m ms IH]; intros b b' H; destruct H as [|w w' b b' Hw Hb]; cbn [combine forallb fst snd]; try tauto.
  rewrite !andb_true_iff. intros [H1 H2]. split; [eapply word_has_mono; eassumption|eapply IH; eassumption].
Qed.

Lemma check_at_mono s s' i x : sub s s' -> check_at s i x = true -> check_at s' i x = true.
Proof.
  intros H. unfold check_at. destruct (nth_error s (N.to_nat i)) as [b|] eqn:E; [|discriminate].
  destruct (Forall2_nth _ _ _ _ _ H E) as (b' & E' & Hb). rewrite E'.
  apply block_check_gen_mono, Hb.
Qed.

Lemma map2_lor_sub ms : forall b, length b = length ms -> Forall2 subw b (map2 N.lor b ms).
Proof.
  induction ms as [|m ms IH]; intros [|w b] H; cbn [length] in H; try lia; cbn [map2]; constructor.
  - apply subw_lor_l.
  - apply IH. lia.
Qed.

Lemma update_Forall2 {A} (P : A -> A -> Prop) l i f :
  (forall x, P x x) -> (forall x, nth_error l i = Some x -> P x (f x)) -> Forall2 P l (update l i f).
Proof.
  intros Hr. revert i. induction l as [|y l IH]; intros [|i] H; cbn [update]; constructor;
    try apply Hr; try (apply Forall2_refl, Hr).
  - apply H. reflexivity.
  - apply IH. intros x E. apply H. exact E.
Qed.

Lemma sub_insert_at s i x : wf s -> sub s (insert_at s i x).
Proof.
  intros Hwf. unfold insert_at, sub. apply update_Forall2.
  - intro b. apply Forall2_refl, subw_refl.
  - intros b E. apply map2_lor_sub. rewrite mask_length.
    apply (Forall_nth_error _ _ _ _ Hwf E).
Qed.

Lemma block_check_after_insert ms : forall b, length b = length ms ->
  forallb (fun wm => word_has (fst wm) (snd wm)) (combine (map2 N.lor b ms) ms) = true.
Proof.
  induction ms as [|m ms IH]; intros [|w b] H; cbn [length] in H; try lia; [reflexivity|].
  cbn [map2 combine forallb fst snd]. rewrite IH by lia. rewrite andb_true_r.
  apply word_has_subw, subw_lor_r.
Qed.

Lemma check_after_insert s i x : wf s -> i < nblocks s -> check_at (insert_at s i x) i x = true.
Proof.
  intros Hwf Hi. unfold nblocks in Hi.
  destruct (nth_error_lt s (N.to_nat i)) as [b E]; [lia|].
  unfold check_at, insert_at. rewrite (update_nth_same _ _ _ _ E).
  apply block_check_after_insert. rewrite mask_length. apply (Forall_nth_error _ _ _ _ Hwf E).
Qed.

(* ------------------------------------------------------------------ union *)

Lemma union_length a : forall b, length a = length b -> length (union a b) = length a.
Proof. intros b. apply map2_length. Qed.

Lemma map2_lor_w32 a : forall b, Forall w32 a -> Forall w32 b -> Forall w32 (map2 N.lor a b).
Proof.
  induction a as [|x a IH]; intros [|y b] Ha Hb; cbn [map2]; try constructor;
    inversion Ha; inversion Hb; subst; [apply lor_lt_pow2; assumption|apply IH; assumption].
Qed.

Lemma union_wf a : forall b, wf a -> wf b -> wf (union a b).
Proof.
  induction a as [|x a IH]; intros [|y b] Ha Hb; cbn [union map2]; try constructor;
    inversion Ha as [|? ? [Lx Wx] Ha']; inversion Hb as [|? ? [Ly Wy] Hb']; subst.
  - split; [rewrite map2_length; [exact Lx|congruence]|apply map2_lor_w32; assumption].
  - apply IH; assumption.
Qed.

Lemma map2_lor_sub_r a : forall b, length a = length b -> Forall2 subw b (map2 N.lor a b).
Proof.
  induction a as [|x a IH]; intros [|y b] H; cbn [length] in H; try lia; cbn [map2]; constructor.
  - apply subw_lor_r.
  - apply IH. lia.
Qed.

Lemma sub_union_l a : forall b, wf a -> wf b -> length a = length b -> sub a (union a b).
Proof.
  induction a as [|x a IH]; intros [|y b] Ha Hb L; cbn [length] in L; try lia; cbn [union map2]; constructor;
    inversion Ha as [|? ? [Lx Wx] Ha']; inversion Hb as [|? ? [Ly Wy] Hb']; subst.
  - apply map2_lor_sub. congruence.
  - apply IH; [assumption|assumption|lia].
Qed.

Lemma sub_union_r a : forall b, wf a -> wf b -> length a = length b -> sub b (union a b).
Proof.
  induction a as [|x a IH]; intros [|y b] Ha Hb L; cbn [length] in L; try lia; cbn [union map2]; constructor;
    inversion Ha as [|? ? [Lx Wx] Ha']; inversion Hb as [|? ? [Ly Wy] Hb']; subst.
  - apply map2_lor_sub_r. congruence.
  - apply IH; [assumption|assumption|lia].
Qed.

(* ------------------------------------------------------------------ the empty filter *)

Lemma empty_block_wf : wf_block empty_block.
Proof. split; [reflexivity|]. repeat constructor. Qed.

Lemma empty_wf k : wf (empty k).
Proof. unfold wf, empty. induction k; cbn [repeat]; constructor; [apply empty_block_wf|assumption]. Qed.

Lemma empty_length k : length (empty k) = k.
Proof. apply repeat_length. Qed.

Lemma word_has_0 key s : word_has 0 (mbit key s) = false.
Proof. unfold word_has. rewrite N.land_0_l. apply N.eqb_neq. intro H. symmetry in H. revert H. apply mbit_nz. Qed.

Lemma empty_block_check x : BloomSpec.block_check empty_block x = false.
Proof.
  unfold BloomSpec.block_check, empty_block. rewrite mask_mbit. unfold salt.
  cbn [repeat map combine forallb fst snd]. rewrite word_has_0. reflexivity.
Qed.

Lemma empty_check_at k i x : check_at (empty k) i x = false.
Proof.
  unfold check_at. destruct (nth_error (empty k) (N.to_nat i)) as [b|] eqn:E; [|reflexivity].
  apply nth_error_In, repeat_spec in E. subst b. apply empty_block_check.
Qed.

Lemma to_bytes_empty k : to_bytes (empty k) = repeat 0 (k * 32).
Proof.
  induction k as [|k IH]; [reflexivity|].
  unfold empty in *. cbn [repeat]. rewrite to_bytes_wbytes in *. cbn [concat]. rewrite wbytes_app, IH.
  change (wbytes empty_block) with (repeat 0 32). rewrite <- repeat_app. reflexivity.
Qed.

(* ------------------------------------------------------------------ creation and sizes *)

Lemma create_spec n f : create n = Some f ->
  n <= 2^64 - 32 /\ num_blocks f = blocks_for n /\ num_bytes f = 32 * blocks_for n /\
  data f = repeat 0 (N.to_nat (num_bytes f)) /\ num_bytes f < 2^64.
Proof.
  unfold create, BLOCK_SIZE, SIZE_MAX, usz, blocks_for.
  change Gen.Consts_gen.Bloom_BLOOM_FILTER_BLOCK_SIZE with 32.
  change 18446744073709551616 with (2^64).
  destruct (18446744073709551615 - (32 - 1) <? n) eqn:E; [discriminate|].
  apply N.ltb_ge in E. change (18446744073709551615 - (32 - 1)) with (2^64 - 32) in E.
  intros H. inversion H; subst; clear H. cbn [num_blocks num_bytes data].
  assert (P : 2^64 = 18446744073709551616) by reflexivity.
  destruct (n <? 32) eqn:E2; [apply N.ltb_lt in E2|apply N.ltb_ge in E2].
  - change ((32 + 32 - 1) mod 2^64 / 32 * 32) with 64 at 1 2 3 4 5.
    Fail idtac.
Abort.
