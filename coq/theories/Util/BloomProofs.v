(** Proofs for C20, filter part.  The byte-array model of src/metadata/bloom_filter.c (BloomModel) is
    related to the Parquet split-block Bloom filter (BloomSpec) by a simulation relation [R]:
    the model's data is the stored form of the specification's filter.  Every model operation
    preserves [R] and never faults; the properties are proved on the specification side and carried
    over: no false negatives (also after reload and after merge), fresh filters are empty, sizes are
    whole blocks, and the bits set are the ones of the Parquet algorithm. *)
From Coq Require Import NArith ZArith Arith List Bool Lia ZifyBool ZifyNat ZifyN.
From Carquet Require Import Base.Bits Base.Res Gen.Enums_gen
     Util.Xxh64Spec Util.Xxh64Model Util.Xxh64Proofs Util.BloomSpec Util.BloomModel.
Import ListNotations.
Local Open Scope N_scope.

Ltac Zify.zify_post_hook ::= Z.div_mod_to_equations.

Definition w32 (x : N) : Prop := x < 2^32.

(* ------------------------------------------------------------------ generic list facts *)

Lemma update_length {A} (l : list A) i f : length (update l i f) = length l.
Proof. revert i; induction l as [|x l IH]; intros [|i]; cbn [update length]; try reflexivity; rewrite IH; reflexivity. Qed.

Lemma update_nth_same {A} (l : list A) i f x : nth_error l i = Some x -> nth_error (update l i f) i = Some (f x).
Proof.
  revert i; induction l as [|y l IH]; intros [|i] H; cbn in *; try discriminate.
  - inversion H; reflexivity.
  - apply IH, H.
Qed.

Lemma update_nth_other {A} (l : list A) i j f : i <> j -> nth_error (update l i f) j = nth_error l j.
Proof.
  revert i j; induction l as [|y l IH]; intros [|i] [|j] H; cbn; try reflexivity; try congruence.
  apply IH. congruence.
Qed.

Lemma update_ext_at {A} (l : list A) i f g x : nth_error l i = Some x -> f x = g x -> update l i f = update l i g.
Proof.
  revert i; induction l as [|y l IH]; intros [|i] H E; cbn in *; try discriminate; try reflexivity.
  - inversion H; subst. rewrite E. reflexivity.
  - f_equal. apply IH; assumption.
Qed.

Lemma update_Forall {A} (P : A -> Prop) (l : list A) i f :
  Forall P l -> (forall x, P x -> P (f x)) -> Forall P (update l i f).
Proof.
  intros H Hf. revert i; induction H as [|x l Hx Hl IH]; intros [|i]; cbn [update]; constructor; auto.
Qed.

Lemma update_app_at {A} (pre : list A) x rest f :
  update (pre ++ x :: rest) (length pre) f = pre ++ f x :: rest.
Proof. induction pre as [|y pre IH]; cbn [app length update]; [reflexivity|rewrite IH; reflexivity]. Qed.

Lemma nth_error_app_at {A} (pre : list A) x rest : nth_error (pre ++ x :: rest) (length pre) = Some x.
Proof. induction pre as [|y pre IH]; cbn; [reflexivity|exact IH]. Qed.

Lemma map2_length {A B C} (f : A -> B -> C) xs : forall ys, length xs = length ys -> length (map2 f xs ys) = length xs.
Proof. induction xs as [|x xs IH]; intros [|y ys] H; cbn in *; try lia. rewrite IH; lia. Qed.

(* ------------------------------------------------------------------ words stored as bytes *)

Definition wbytes (ws : list N) : list N := flat_map (le_bytes 4) ws.

Lemma le4_eq v : le_bytes 4 v = [v mod 256; (v / 256) mod 256; (v / 65536) mod 256; (v / 16777216) mod 256].
Proof. cbn [le_bytes]. rewrite !N.div_div by discriminate. reflexivity. Qed.

Lemma wbytes_cons w ws :
  wbytes (w :: ws) = w mod 256 :: (w / 256) mod 256 :: (w / 65536) mod 256 :: (w / 16777216) mod 256 :: wbytes ws.
Proof. unfold wbytes. cbn [flat_map]. rewrite le4_eq. reflexivity. Qed.

Lemma wbytes_length ws : length (wbytes ws) = (length ws * 4)%nat.
Proof. induction ws as [|w ws IH]; [reflexivity|]. rewrite wbytes_cons. cbn [length]. rewrite IH. lia. Qed.

Lemma wbytes_app a b : wbytes (a ++ b) = wbytes a ++ wbytes b.
Proof. unfold wbytes. apply flat_map_app. Qed.

Lemma le4_value w : w32 w ->
  w mod 256 + 256 * ((w / 256) mod 256 + 256 * ((w / 65536) mod 256 + 256 * ((w / 16777216) mod 256))) = w.
Proof. unfold w32. change (2^32) with 4294967296. intros H. lia. Qed.

Lemma rd32_wbytes k : forall ws w, nth_error ws k = Some w -> w32 w -> rd32 (wbytes ws) (k * 4) = Ok w.
Proof.
  induction k as [|k IH]; intros [|w0 ws] w H Hw; cbn [nth_error] in H; try discriminate.
  - inversion H; subst. rewrite wbytes_cons. cbn [Nat.mul rd32]. rewrite le4_value by exact Hw. reflexivity.
  - rewrite wbytes_cons. cbn [Nat.mul Nat.add rd32]. apply IH; assumption.
Qed.

Lemma wr32_wbytes k : forall ws v, (k < length ws)%nat ->
  wr32 (wbytes ws) (k * 4) v = Ok (wbytes (update ws k (fun _ => v))).
Proof.
  induction k as [|k IH]; intros [|w0 ws] v H; cbn [length] in H; try lia.
  - rewrite wbytes_cons. cbn [Nat.mul wr32 update]. rewrite wbytes_cons. reflexivity.
  - rewrite wbytes_cons. cbn [Nat.mul Nat.add wr32 update]. rewrite IH by lia. cbn [rmap].
    rewrite wbytes_cons. reflexivity.
Qed.

(* ------------------------------------------------------------------ the mask bits *)

Definition mbit (key s : N) : N := 2 ^ (((key * s) mod 2^32) / 2^27).

Lemma mask_mbit x : mask x = map (mbit x) salt.
Proof. reflexivity. Qed.

Lemma SALT_salt : SALT = salt.
Proof. reflexivity. Qed.

Lemma mbit_pos_lt key s : ((key * s) mod 2^32) / 2^27 < 32.
Proof.
  apply N.div_lt_upper_bound; [apply N.pow_nonzero; discriminate|].
  change (2^27 * 32) with (2^32). apply N.mod_lt. apply N.pow_nonzero; discriminate.
Qed.

Lemma mbit_w32 key s : w32 (mbit key s).
Proof. unfold w32, mbit. apply N.pow_lt_mono_r; [reflexivity|apply mbit_pos_lt]. Qed.

Lemma mbit_nz key s : mbit key s <> 0.
Proof. apply N.pow_nonzero. discriminate. Qed.

Lemma bit32_spec s key : bit32 (N.shiftr (u32 (s * key)) 27) = Ok (mbit key s).
Proof.
  unfold bit32, u32. rewrite N.shiftr_div_pow2. change 4294967296 with (2^32). rewrite (N.mul_comm s key).
  pose proof (mbit_pos_lt key s) as L.
  destruct (32 <=? (key * s) mod 2^32 / 2^27) eqn:E; [apply N.leb_le in E; lia|].
  rewrite N.shiftl_mul_pow2, N.mul_1_l. f_equal. apply N.mod_small. apply mbit_w32.
Qed.

(** a word and-ed with a single bit is that bit or nothing *)
Lemma land_pow2 w p : N.land w (2^p) = if N.testbit w p then 2^p else 0.
Proof.
  apply N.bits_inj_iff; intro n. rewrite N.land_spec, N.pow2_bits_eqb.
  destruct (N.eqb_spec p n) as [->|Hne].
  - destruct (N.testbit w n); [rewrite N.pow2_bits_true; reflexivity|rewrite N.bits_0; reflexivity].
  - rewrite andb_false_r. destruct (N.testbit w p); [|rewrite N.bits_0; reflexivity].
    rewrite N.pow2_bits_false by exact Hne. reflexivity.
Qed.

Lemma word_has_mbit w key s : word_has w (mbit key s) = negb (N.land w (mbit key s) =? 0).
Proof.
  unfold word_has, mbit. rewrite land_pow2. set (p := (key * s) mod 2 ^ 32 / 2 ^ 27).
  assert (Hp : 2^p <> 0) by (apply N.pow_nonzero; discriminate).
  destruct (N.testbit w p).
  - rewrite N.eqb_refl. apply N.eqb_neq in Hp. rewrite Hp. reflexivity.
  - rewrite (N.eqb_refl 0). change (negb true) with false. apply N.eqb_neq. congruence.
Qed.

(* ------------------------------------------------------------------ the block loops on words *)

Fixpoint or_at (k : nat) (ms ws : list N) : list N :=
  match ms with [] => ws | m :: ms' => or_at (S k) ms' (update ws k (fun w => N.lor w m)) end.

Fixpoint has_at (k : nat) (ms ws : list N) : bool :=
  match ms with
  | [] => true
  | m :: ms' => match nth_error ws k with
                | Some w => if word_has w m then has_at (S k) ms' ws else false
                | None => false
                end
  end.

Lemma or_at_length ms : forall k ws, length (or_at k ms ws) = length ws.
Proof. induction ms as [|m ms IH]; intros k ws; cbn [or_at]; [reflexivity|]. rewrite IH. apply update_length. Qed.

Lemma nth_error_lt {A} (l : list A) k : (k < length l)%nat -> exists x, nth_error l k = Some x.
Proof. intros H. destruct (nth_error l k) eqn:E; [eauto|]. apply nth_error_None in E. lia. Qed.

Lemma Forall_nth_error {A} (P : A -> Prop) l k x : Forall P l -> nth_error l k = Some x -> P x.
Proof. intros H E. rewrite Forall_forall in H. apply H. eapply nth_error_In, E. Qed.

Lemma block_insert_words key salts : forall k ws,
  (k + length salts <= length ws)%nat -> Forall w32 ws ->
  BloomModel.block_insert salts (wbytes ws) (k * 4) key = Ok (wbytes (or_at k (map (mbit key) salts) ws)).
Proof.
  induction salts as [|s ss IH]; intros k ws Hk Hw; [reflexivity|].
  cbn [length] in Hk. cbn [BloomModel.block_insert map or_at].
  destruct (nth_error_lt ws k) as [w E]; [lia|].
  rewrite (rd32_wbytes k ws w E) by (eapply Forall_nth_error; eassumption).
  rewrite bit32_spec, wr32_wbytes by lia.
  rewrite (update_ext_at ws k (fun _ => N.lor w (mbit key s)) (fun w => N.lor w (mbit key s)) w E eq_refl).
  replace (k * 4 + 4)%nat with (S k * 4)%nat by lia.
  apply IH.
  - rewrite update_length. lia.
  - apply update_Forall; [exact Hw|]. intros x Hx. apply lor_lt_pow2; [exact Hx|apply mbit_w32].
Qed.

Lemma block_check_words key salts : forall k ws,
  (k + length salts <= length ws)%nat -> Forall w32 ws ->
  BloomModel.block_check salts (wbytes ws) (k * 4) key = Ok (has_at k (map (mbit key) salts) ws).
Proof.
  induction salts as [|s ss IH]; intros k ws Hk Hw; [reflexivity|].
  cbn [length] in Hk. cbn [BloomModel.block_check map has_at].
  destruct (nth_error_lt ws k) as [w E]; [lia|].
  rewrite (rd32_wbytes k ws w E) by (eapply Forall_nth_error; eassumption).
  rewrite bit32_spec, E, word_has_mbit.
  destruct (N.land w (mbit key s) =? 0); cbn [negb]; [reflexivity|].
  replace (k * 4 + 4)%nat with (S k * 4)%nat by lia.
  apply IH; [lia|exact Hw].
Qed.

(** the loops seen on one block inside the flat word array *)
Lemma or_at_block ms : forall pre b rest, length b = length ms ->
  or_at (length pre) ms (pre ++ b ++ rest) = pre ++ map2 N.lor b ms ++ rest.
Proof.
  induction ms as [|m ms IH]; intros pre [|w b] rest H; cbn [length] in H; try lia; [reflexivity|].
  cbn [or_at map2 app]. rewrite update_app_at.
  replace (S (length pre)) with (length (pre ++ [N.lor w m])) by (rewrite app_length; cbn [length]; lia).
  replace (pre ++ N.lor w m :: b ++ rest) with ((pre ++ [N.lor w m]) ++ b ++ rest)
    by (rewrite <- app_assoc; reflexivity).
  rewrite IH by lia. rewrite <- app_assoc. reflexivity.
Qed.

Lemma has_at_block ms : forall pre b rest, length b = length ms ->
  has_at (length pre) ms (pre ++ b ++ rest) = forallb (fun wm => word_has (fst wm) (snd wm)) (combine b ms).
Proof.
  induction ms as [|m ms IH]; intros pre [|w b] rest H; cbn [length] in H; try lia; [reflexivity|].
  cbn [has_at combine forallb app fst snd]. rewrite nth_error_app_at.
  destruct (word_has w m); cbn [andb]; [|reflexivity].
  replace (S (length pre)) with (length (pre ++ [w])) by (rewrite app_length; cbn [length]; lia).
  replace (pre ++ w :: b ++ rest) with ((pre ++ [w]) ++ b ++ rest) by (rewrite <- app_assoc; reflexivity).
  apply IH. lia.
Qed.

(* ------------------------------------------------------------------ well-formed specification filters *)

Definition wf_block (b : block) : Prop := length b = 8%nat /\ Forall w32 b.
Definition wf (s : sbbf) : Prop := Forall wf_block s.

Lemma concat_length_wf s : wf s -> length (concat s) = (length s * 8)%nat.
Proof.
  intros H. induction H as [|b s [Hb _] Hs IH]; [reflexivity|].
  cbn [concat length]. rewrite app_length, IH, Hb. lia.
Qed.

Lemma concat_w32 s : wf s -> Forall w32 (concat s).
Proof.
  intros H. induction H as [|b s [_ Hb] Hs IH]; [constructor|].
  cbn [concat]. apply Forall_app. split; assumption.
Qed.

Lemma mask_length x : length (mask x) = 8%nat.
Proof. reflexivity. Qed.

(** splitting the flat array around block i *)
Lemma concat_split (s : sbbf) i b : nth_error s i = Some b -> wf s ->
  exists pre rest, concat s = pre ++ b ++ rest /\ length pre = (i * 8)%nat /\
    forall g, concat (update s i g) = pre ++ g b ++ rest.
Proof.
  revert i; induction s as [|b0 s IH]; intros [|i] H Hwf; cbn [nth_error] in H; try discriminate.
  - inversion H; subst. exists [], (concat s). repeat split; reflexivity.
  - inversion Hwf as [|? ? [Hb0 _] Hs]; subst.
    destruct (IH i H Hs) as (pre & rest & E & L & U).
    exists (b0 ++ pre), rest. split; [|split].
    + cbn [concat]. rewrite E, <- app_assoc. reflexivity.
    + rewrite app_length, L, Hb0. lia.
    + intros g. cbn [update concat]. rewrite U, <- app_assoc. reflexivity.
Qed.

Lemma block_insert_wf b x : wf_block b -> wf_block (BloomSpec.block_insert b x).
Proof.
  intros [L W]. unfold BloomSpec.block_insert. split.
  - rewrite map2_length; [exact L|rewrite L; reflexivity].
  - rewrite mask_mbit. revert W. generalize salt. clear L.
    induction b as [|w b IH]; intros sl W; destruct sl as [|s sl]; cbn [map map2]; try constructor.
    + inversion W; subst. apply lor_lt_pow2; [assumption|apply mbit_w32].
    + inversion W; subst. apply IH. assumption.
Qed.

Lemma insert_at_wf s i x : wf s -> wf (insert_at s i x).
Proof. intros H. unfold insert_at. apply update_Forall; [exact H|]. intros b Hb. apply block_insert_wf, Hb. Qed.

Lemma insert_at_length s i x : length (insert_at s i x) = length s.
Proof. apply update_length. Qed.

(* ------------------------------------------------------------------ the simulation relation *)

Definition R (f : filter) (s : sbbf) : Prop :=
  data f = to_bytes s /\ num_blocks f = nblocks s /\ num_bytes f = 32 * nblocks s /\
  wf s /\ 0 < nblocks s /\ num_bytes f < 2^64.

Lemma to_bytes_wbytes s : to_bytes s = wbytes (concat s).
Proof. reflexivity. Qed.

(** the index computed by the C code is inside the filter, for every size *)
Lemma model_index_lt h nb : w64 h -> 0 < nb -> BloomModel.block_index h nb < nb.
Proof.
  intros Hh Hnb. unfold BloomModel.block_index, usz. rewrite !N.shiftr_div_pow2.
  change 18446744073709551616 with (2^64).
  assert (Hhi : h / 2^32 < 2^32).
  { apply N.div_lt_upper_bound; [apply N.pow_nonzero; discriminate|]. exact Hh. }
  destruct (N.le_gt_cases nb (2^32)) as [Le|Gt].
  - rewrite N.mod_small.
    + apply N.div_lt_upper_bound; [apply N.pow_nonzero; discriminate|].
      apply N.mul_lt_mono_pos_r; assumption.
    + apply N.lt_le_trans with (2^32 * nb); [apply N.mul_lt_mono_pos_r; assumption|].
      change (2^64) with (2^32 * 2^32). apply N.mul_le_mono_l. exact Le.
  - apply N.lt_trans with (2^32); [|exact Gt].
    apply N.div_lt_upper_bound; [apply N.pow_nonzero; discriminate|].
    change (2^32 * 2^32) with (2^64). apply N.mod_lt. apply N.pow_nonzero; discriminate.
Qed.

(** ... and for filters of at most 2^32 blocks (128 GiB) it is the index of the Parquet format *)
Lemma model_index_eq h nb : w64 h -> nb <= 2^32 -> BloomModel.block_index h nb = BloomSpec.block_index h nb.
Proof.
  intros Hh Hnb. unfold BloomModel.block_index, BloomSpec.block_index, usz. rewrite !N.shiftr_div_pow2.
  change 18446744073709551616 with (2^64).
  assert (Hhi : h / 2^32 < 2^32).
  { apply N.div_lt_upper_bound; [apply N.pow_nonzero; discriminate|]. exact Hh. }
  destruct (N.eq_dec nb 0) as [->|Hz]; [rewrite N.mul_0_r; reflexivity|].
  rewrite N.mod_small; [reflexivity|].
  apply N.lt_le_trans with (2^32 * nb); [apply N.mul_lt_mono_pos_r; [lia|assumption]|].
  change (2^64) with (2^32 * 2^32). apply N.mul_le_mono_l. exact Hnb.
Qed.

Lemma key_eq h : u32 h = key h.
Proof. reflexivity. Qed.

Lemma block_offset f s i : R f s -> i < nblocks s ->
  N.to_nat (usz (i * BLOCK_SIZE)) = (N.to_nat i * 8 * 4)%nat.
Proof.
  intros (_ & _ & Hnby & _ & _ & Hlt) Hi. unfold usz, BLOCK_SIZE.
  change Gen.Consts_gen.Bloom_BLOOM_FILTER_BLOCK_SIZE with 32.
  change 18446744073709551616 with (2^64).
  rewrite N.mod_small by lia. lia.
Qed.

Lemma R_insert_hash f s h : R f s -> w64 h ->
  exists f', insert_hash f h = Ok f' /\
             R f' (insert_at s (BloomModel.block_index h (num_blocks f)) (key h)) /\
             num_blocks f' = num_blocks f /\ num_bytes f' = num_bytes f.
Proof.
  intros HR Hh. pose proof HR as (Hd & Hnb & Hnby & Hwf & Hpos & Hlt).
  set (i := BloomModel.block_index h (num_blocks f)).
  assert (Hi : i < nblocks s) by (unfold i; rewrite Hnb; apply model_index_lt; assumption).
  assert (Hin : (N.to_nat i < length s)%nat) by (unfold nblocks in Hi; lia).
  destruct (nth_error_lt s (N.to_nat i) Hin) as [b Eb].
  destruct (concat_split s (N.to_nat i) b Eb Hwf) as (pre & rest & Ec & Lp & U).
  assert (Hb : wf_block b) by (eapply Forall_nth_error; eassumption).
  unfold insert_hash. fold i. rewrite (block_offset f s i HR Hi), Hd, to_bytes_wbytes, key_eq, SALT_salt.
  rewrite block_insert_words.
  - rewrite <- mask_mbit. rewrite Ec, <- Lp, or_at_block by (rewrite mask_length; apply Hb).
    eexists. split; [reflexivity|]. split; [|split; reflexivity].
    unfold R, set_data. cbn [data num_bytes num_blocks].
    unfold insert_at, nblocks. rewrite update_length, to_bytes_wbytes, U. fold (nblocks s).
    repeat split; try assumption. apply (insert_at_wf s i (key h) Hwf).
  - rewrite concat_length_wf by exact Hwf. change (length salt) with 8%nat. lia.
  - apply concat_w32, Hwf.
Qed.

Lemma R_check_hash f s h : R f s -> w64 h ->
  check_hash f h = Ok (check_at s (BloomModel.block_index h (num_blocks f)) (key h)).
Proof.
  intros HR Hh. pose proof HR as (Hd & Hnb & Hnby & Hwf & Hpos & Hlt).
  set (i := BloomModel.block_index h (num_blocks f)).
  assert (Hi : i < nblocks s) by (unfold i; rewrite Hnb; apply model_index_lt; assumption).
  assert (Hin : (N.to_nat i < length s)%nat) by (unfold nblocks in Hi; lia).
  destruct (nth_error_lt s (N.to_nat i) Hin) as [b Eb].
  destruct (concat_split s (N.to_nat i) b Eb Hwf) as (pre & rest & Ec & Lp & U).
  assert (Hb : wf_block b) by (eapply Forall_nth_error; eassumption).
  unfold check_hash. fold i. rewrite (block_offset f s i HR Hi), Hd, to_bytes_wbytes, key_eq, SALT_salt.
  rewrite block_check_words.
  - rewrite <- mask_mbit. rewrite Ec, <- Lp, has_at_block by (rewrite mask_length; apply Hb).
    unfold check_at. rewrite Eb. reflexivity.
  - rewrite concat_length_wf by exact Hwf. change (length salt) with 8%nat. lia.
  - apply concat_w32, Hwf.
Qed.

(* ------------------------------------------------------------------ bit inclusion on the specification side *)

(** every bit of a is a bit of b *)
Definition subw (a b : N) : Prop := N.land a b = a.
Definition sub (s s' : sbbf) : Prop := Forall2 (Forall2 subw) s s'.

Lemma subw_refl a : subw a a.
Proof. apply N.land_diag. Qed.

Lemma subw_trans a b c : subw a b -> subw b c -> subw a c.
Proof. unfold subw. intros H1 H2. rewrite <- H1 at 1. rewrite <- N.land_assoc, H2. exact H1. Qed.

Lemma subw_lor_l a m : subw a (N.lor a m).
Proof.
  unfold subw. apply N.bits_inj_iff; intro n. rewrite N.land_spec, N.lor_spec.
  destruct (N.testbit a n), (N.testbit m n); reflexivity.
Qed.

Lemma subw_lor_r a m : subw m (N.lor a m).
Proof.
  unfold subw. apply N.bits_inj_iff; intro n. rewrite N.land_spec, N.lor_spec.
  destruct (N.testbit a n), (N.testbit m n); reflexivity.
Qed.

Lemma word_has_subw w m : word_has w m = true <-> subw m w.
Proof. unfold word_has, subw. rewrite N.eqb_eq, N.land_comm. tauto. Qed.

Lemma word_has_mono w w' m : subw w w' -> word_has w m = true -> word_has w' m = true.
Proof. rewrite !word_has_subw. intros H1 H2. eapply subw_trans; eassumption. Qed.

Lemma Forall2_refl {A} (P : A -> A -> Prop) l : (forall x, P x x) -> Forall2 P l l.
Proof. intros H. induction l; constructor; auto. Qed.

Lemma Forall2_trans {A} (P : A -> A -> Prop) : (forall x y z, P x y -> P y z -> P x z) ->
  forall a b c, Forall2 P a b -> Forall2 P b c -> Forall2 P a c.
Proof.
  intros HT a b c H1. revert c. induction H1 as [|x y a b Hxy Hab IH]; intros c H2; inversion H2; subst; constructor.
  - eapply HT; eassumption.
  - apply IH. assumption.
Qed.

Lemma Forall2_nth {A B} (P : A -> B -> Prop) l l' i a : Forall2 P l l' -> nth_error l i = Some a ->
  exists b, nth_error l' i = Some b /\ P a b.
Proof.
  intros H. revert i. induction H as [|x y l l' Hxy Hl IH]; intros [|i] E; cbn in *; try discriminate.
  - inversion E; subst. eauto.
  - apply IH, E.
Qed.

Lemma sub_refl s : sub s s.
Proof. apply Forall2_refl. intro b. apply Forall2_refl. apply subw_refl. Qed.

Lemma sub_trans a b c : sub a b -> sub b c -> sub a c.
Proof. apply Forall2_trans. apply Forall2_trans. apply subw_trans. Qed.

Lemma block_check_gen_mono ms : forall b b', Forall2 subw b b' ->
  forallb (fun wm => word_has (fst wm) (snd wm)) (combine b ms) = true ->
  forallb (fun wm => word_has (fst wm) (snd wm)) (combine b' ms) = true.
Proof.
  induction ms as [|m ms IH]; intros b b' H; destruct H as [|w w' b b' Hw Hb]; cbn [combine forallb fst snd]; try tauto.
  rewrite !andb_true_iff. intros [H1 H2]. split; [eapply word_has_mono; eassumption|eapply IH; eassumption].
Qed.

Lemma check_at_mono s s' i x : sub s s' -> check_at s i x = true -> check_at s' i x = true.
Proof.
  intros H. unfold check_at. destruct (nth_error s (N.to_nat i)) as [b|] eqn:E; [|discriminate].
  destruct (Forall2_nth _ _ _ _ _ H E) as (b' & E' & Hb). unfold sbbf, block in *. rewrite E'.
  apply block_check_gen_mono, Hb.
Qed.

Lemma map2_lor_sub ms : forall b, length b = length ms -> Forall2 subw b (map2 N.lor b ms).
Proof.
  induction ms as [|m ms IH]; intros [|w b] H; cbn [length] in H; try lia; cbn [map2]; constructor.
  - apply subw_lor_l.
  - apply IH. lia.
Qed.

Lemma update_Forall2 {A} (P : A -> A -> Prop) l i f :
  (forall x, P x x) -> (forall x, nth_error l i = Some x -> P x (f x)) -> Forall2 P l (update l i f).
Proof.
  intros Hr. revert i. induction l as [|y l IH]; intros [|i] H; cbn [update]; constructor;
    try apply Hr; try (apply Forall2_refl, Hr).
  - apply H. reflexivity.
  - apply IH. intros x E. apply H. exact E.
Qed.

Lemma sub_insert_at s i x : wf s -> sub s (insert_at s i x).
Proof.
  intros Hwf. unfold insert_at, sub. apply update_Forall2.
  - intro b. apply Forall2_refl, subw_refl.
  - intros b E. apply map2_lor_sub. rewrite mask_length.
    apply (Forall_nth_error _ _ _ _ Hwf E).
Qed.

Lemma block_check_after_insert ms : forall b, length b = length ms ->
  forallb (fun wm => word_has (fst wm) (snd wm)) (combine (map2 N.lor b ms) ms) = true.
Proof.
  induction ms as [|m ms IH]; intros [|w b] H; cbn [length] in H; try lia; [reflexivity|].
  cbn [map2 combine forallb fst snd]. rewrite IH by lia. rewrite andb_true_r.
  apply word_has_subw, subw_lor_r.
Qed.

Lemma check_after_insert s i x : wf s -> i < nblocks s -> check_at (insert_at s i x) i x = true.
Proof.
  intros Hwf Hi. unfold nblocks in Hi.
  destruct (nth_error_lt s (N.to_nat i)) as [b E]; [lia|].
  unfold check_at, insert_at. rewrite (update_nth_same _ _ _ _ E).
  apply block_check_after_insert. rewrite mask_length. apply (Forall_nth_error _ _ _ _ Hwf E).
Qed.

(* ------------------------------------------------------------------ union *)

Lemma union_length a : forall b, length a = length b -> length (union a b) = length a.
Proof. intros b. apply map2_length. Qed.

Lemma map2_lor_w32 a : forall b, Forall w32 a -> Forall w32 b -> Forall w32 (map2 N.lor a b).
Proof.
  induction a as [|x a IH]; intros [|y b] Ha Hb; cbn [map2]; try constructor;
    inversion Ha; inversion Hb; subst; [apply lor_lt_pow2; assumption|apply IH; assumption].
Qed.

Lemma union_wf a : forall b, wf a -> wf b -> wf (union a b).
Proof.
  induction a as [|x a IH]; intros [|y b] Ha Hb; cbn [union map2]; try constructor;
    inversion Ha as [|? ? [Lx Wx] Ha']; inversion Hb as [|? ? [Ly Wy] Hb']; subst.
  - split; [rewrite map2_length; [exact Lx|congruence]|apply map2_lor_w32; assumption].
  - apply IH; assumption.
Qed.

Lemma map2_lor_sub_r a : forall b, length a = length b -> Forall2 subw b (map2 N.lor a b).
Proof.
  induction a as [|x a IH]; intros [|y b] H; cbn [length] in H; try lia; cbn [map2]; constructor.
  - apply subw_lor_r.
  - apply IH. lia.
Qed.

Lemma sub_union_l a : forall b, wf a -> wf b -> length a = length b -> sub a (union a b).
Proof.
  induction a as [|x a IH]; intros [|y b] Ha Hb L; cbn [length] in L; try lia; cbn [union map2]; constructor;
    inversion Ha as [|? ? [Lx Wx] Ha']; inversion Hb as [|? ? [Ly Wy] Hb']; subst.
  - apply map2_lor_sub. congruence.
  - apply IH; [assumption|assumption|lia].
Qed.

Lemma sub_union_r a : forall b, wf a -> wf b -> length a = length b -> sub b (union a b).
Proof.
  induction a as [|x a IH]; intros [|y b] Ha Hb L; cbn [length] in L; try lia; cbn [union map2]; constructor;
    inversion Ha as [|? ? [Lx Wx] Ha']; inversion Hb as [|? ? [Ly Wy] Hb']; subst.
  - apply map2_lor_sub_r. congruence.
  - apply IH; [assumption|assumption|lia].
Qed.

(* ------------------------------------------------------------------ the empty filter *)

Lemma empty_block_wf : wf_block empty_block.
Proof. split; [reflexivity|]. repeat constructor. Qed.

Lemma empty_wf k : wf (empty k).
Proof. unfold wf, empty. induction k; cbn [repeat]; constructor; [apply empty_block_wf|assumption]. Qed.

Lemma empty_length k : length (empty k) = k.
Proof. apply repeat_length. Qed.

Lemma word_has_0 key s : word_has 0 (mbit key s) = false.
Proof. unfold word_has. rewrite N.land_0_l. apply N.eqb_neq. intro H. symmetry in H. revert H. apply mbit_nz. Qed.

Lemma empty_block_check x : BloomSpec.block_check empty_block x = false.
Proof.
  unfold BloomSpec.block_check, empty_block. rewrite mask_mbit. unfold salt.
  cbn [repeat map combine forallb fst snd]. rewrite word_has_0. reflexivity.
Qed.

Lemma empty_check_at k i x : check_at (empty k) i x = false.
Proof.
  unfold check_at. destruct (nth_error (empty k) (N.to_nat i)) as [b|] eqn:E; [|reflexivity].
  apply nth_error_In, repeat_spec in E. subst b. apply empty_block_check.
Qed.

Lemma to_bytes_empty k : to_bytes (empty k) = repeat 0 (k * 32).
Proof.
  induction k as [|k IH]; [reflexivity|].
  unfold empty in *. cbn [repeat]. rewrite to_bytes_wbytes in *. cbn [concat]. rewrite wbytes_app, IH.
  change (wbytes empty_block) with (repeat 0 32). rewrite <- repeat_app. reflexivity.
Qed.

(* ------------------------------------------------------------------ creation and sizes *)

Lemma create_spec n f : create n = Some f ->
  n <= 2^64 - 32 /\ num_blocks f = blocks_for n /\ num_bytes f = 32 * blocks_for n /\
  data f = repeat 0 (N.to_nat (num_bytes f)) /\ num_bytes f < 2^64 /\ 0 < blocks_for n.
Proof.
  unfold create, BLOCK_SIZE, SIZE_MAX, usz, blocks_for.
  change Gen.Consts_gen.Bloom_BLOOM_FILTER_BLOCK_SIZE with 32.
  change (2^64) with 18446744073709551616.
  destruct (_ <? n) eqn:E; [discriminate|]. apply N.ltb_ge in E.
  intros H; inversion H; subst; clear H. cbn [num_blocks num_bytes data].
  set (m := if n <? 32 then 32 else n).
  assert (Hm : 32 <= m /\ m <= 18446744073709551616 - 32 /\ (n < 32 -> m = 32) /\ (32 <= n -> m = n)).
  { unfold m; destruct (n <? 32) eqn:E2; [apply N.ltb_lt in E2|apply N.ltb_ge in E2]; lia. }
  clearbody m.
  assert (E1 : (m + 32 - 1) mod 18446744073709551616 = m + 31) by (rewrite N.mod_small; lia).
  rewrite E1.
  assert (E2 : ((m + 31) / 32 * 32) mod 18446744073709551616 = (m + 31) / 32 * 32) by (apply N.mod_small; lia).
  rewrite E2. rewrite N.div_mul by discriminate.
  assert (E3 : (m + 31) / 32 = N.max 1 ((n + 31) / 32)) by lia.
  rewrite E3. repeat split; try reflexivity; lia.
Qed.

Lemma create_none n : create n = None <-> 2^64 - 32 < n.
Proof.
  unfold create, BLOCK_SIZE, SIZE_MAX. change Gen.Consts_gen.Bloom_BLOOM_FILTER_BLOCK_SIZE with 32.
  change (18446744073709551615 - (32 - 1)) with (2^64 - 32).
  destruct (2^64 - 32 <? n) eqn:E; [apply N.ltb_lt in E|apply N.ltb_ge in E]; split; intros H; try reflexivity;
    try assumption; [discriminate|lia].
Qed.

Lemma create_R n f : create n = Some f -> R f (empty (N.to_nat (blocks_for n))).
Proof.
  intros H. destruct (create_spec n f H) as (Hn & Hnb & Hby & Hd & Hlt & Hpos).
  unfold R, nblocks. rewrite empty_length, N2Nat.id. repeat split; try assumption.
  - rewrite Hd, to_bytes_empty, Hby. f_equal. lia.
  - apply empty_wf.
Qed.

(* ------------------------------------------------------------------ sequences of insertions *)

Fixpoint insert_hashes (f : filter) (hs : list N) : res filter :=
  match hs with
  | [] => Ok f
  | h :: t => match insert_hash f h with Ok f' => insert_hashes f' t | Err c => Err c | Fault x => Fault x end
  end.

(** the same insertions on the specification side, with the block number the C code computes *)
Definition ins_seq (nb : N) (s : sbbf) (hs : list N) : sbbf :=
  fold_left (fun s h => insert_at s (BloomModel.block_index h nb) (key h)) hs s.

Lemma R_insert_hashes hs : forall f s, R f s -> Forall w64 hs ->
  exists f', insert_hashes f hs = Ok f' /\ R f' (ins_seq (num_blocks f) s hs) /\
             num_blocks f' = num_blocks f /\ num_bytes f' = num_bytes f.
Proof.
  induction hs as [|h hs IH]; intros f s HR Hw.
  - exists f. split; [reflexivity|]. split; [exact HR|]. split; reflexivity.
  - inversion Hw as [|? ? Hh Hhs]; subst.
    destruct (R_insert_hash f s h HR Hh) as (f1 & E1 & R1 & NB1 & NY1).
    destruct (IH f1 _ R1 Hhs) as (f' & E' & R' & NB' & NY').
    exists f'. cbn [insert_hashes]. rewrite E1. split; [exact E'|]. rewrite NB1 in *.
    split; [exact R'|]. split; congruence.
Qed.

Lemma ins_seq_wf nb hs : forall s, wf s -> wf (ins_seq nb s hs).
Proof. induction hs as [|h hs IH]; intros s H; [exact H|]. apply IH, insert_at_wf, H. Qed.

Lemma ins_seq_length nb hs : forall s, length (ins_seq nb s hs) = length s.
Proof. induction hs as [|h hs IH]; intros s; [reflexivity|]. cbn [ins_seq fold_left]. fold (ins_seq nb (insert_at s (BloomModel.block_index h nb) (key h)) hs). rewrite IH. apply insert_at_length. Qed.

Lemma ins_seq_sub nb hs : forall s, wf s -> sub s (ins_seq nb s hs).
Proof.
  induction hs as [|h hs IH]; intros s H; [apply sub_refl|].
  eapply sub_trans; [apply (sub_insert_at s (BloomModel.block_index h nb) (key h) H)|].
  apply IH, insert_at_wf, H.
Qed.

Lemma ins_seq_contains nb hs : forall s h, wf s -> nb = nblocks s -> 0 < nb -> Forall w64 hs -> In h hs ->
  check_at (ins_seq nb s hs) (BloomModel.block_index h nb) (key h) = true.
Proof.
  induction hs as [|h0 hs IH]; intros s h Hwf Hnb Hpos Hw Hin; [destruct Hin|].
  inversion Hw as [|? ? Hh0 Hhs]; subst.
  cbn [ins_seq fold_left]. fold (ins_seq (nblocks s) (insert_at s (BloomModel.block_index h0 (nblocks s)) (key h0)) hs).
  destruct Hin as [->|Hin].
  - eapply check_at_mono; [apply ins_seq_sub, insert_at_wf, Hwf|].
    apply check_after_insert; [exact Hwf|]. apply model_index_lt; assumption.
  - apply IH; try assumption.
    + apply insert_at_wf, Hwf.
    + unfold nblocks. rewrite insert_at_length. reflexivity.
Qed.

(** for filters of at most 2^32 blocks these are the insertions of the Parquet format *)
Lemma ins_seq_spec hs : forall s, nblocks s <= 2^32 -> Forall w64 hs ->
  ins_seq (nblocks s) s hs = fold_left BloomSpec.insert_hash hs s.
Proof.
  induction hs as [|h hs IH]; intros s Hnb Hw; [reflexivity|].
  inversion Hw as [|? ? Hh Hhs]; subst. cbn [ins_seq fold_left].
  rewrite model_index_eq by assumption. fold (BloomSpec.insert_hash s h).
  assert (E : nblocks (BloomSpec.insert_hash s h) = nblocks s).
  { unfold nblocks, BloomSpec.insert_hash. rewrite insert_at_length. reflexivity. }
  rewrite <- E. apply (IH (BloomSpec.insert_hash s h)); [rewrite E; exact Hnb|exact Hhs].
Qed.

(* ------------------------------------------------------------------ typed values *)

Definition value_ok (v : value) : Prop := match v with Bytes bs => bytes bs | _ => True end.

Definition mem_of (v : value) : list N :=
  match v with
  | I32 z => mem_i32 z | I64 z => mem_i64 z | F32 b => mem_float b | F64 b => mem_double b | Bytes bs => bs
  end.

(** the typed entry points of the C API *)
Definition insert_value (f : filter) (v : value) : res filter :=
  match v with
  | I32 z => insert_i32 f z | I64 z => insert_i64 f z | F32 b => insert_float f b
  | F64 b => insert_double f b | Bytes bs => insert_bytes f bs
  end.

Definition check_value (f : filter) (v : value) : res bool :=
  match v with
  | I32 z => check_i32 f z | I64 z => check_i64 f z | F32 b => check_float f b
  | F64 b => check_double f b | Bytes bs => check_bytes f bs
  end.

Fixpoint insert_values (f : filter) (vs : list value) : res filter :=
  match vs with
  | [] => Ok f
  | v :: t => match insert_value f v with Ok f' => insert_values f' t | Err c => Err c | Fault x => Fault x end
  end.

Lemma mem_bytes_le k : forall x, mem_bytes k x = le_bytes k x.
Proof.
  induction k as [|k IH]; intro x; [reflexivity|]. cbn [mem_bytes le_bytes]. rewrite IH.
  change 255 with (N.ones 8). rewrite N.land_ones, N.shiftr_div_pow2. reflexivity.
Qed.

Lemma le_bytes_bytes k : forall x, bytes (le_bytes k x).
Proof.
  induction k as [|k IH]; intro x; cbn [le_bytes]; constructor; [|apply IH].
  unfold byte. apply N.mod_lt. discriminate.
Qed.

Lemma mem_of_plain v : mem_of v = plain v.
Proof. destruct v; cbn [mem_of plain]; unfold mem_i32, mem_i64, mem_float, mem_double; rewrite ?mem_bytes_le; reflexivity. Qed.

Lemma plain_bytes v : value_ok v -> bytes (plain v).
Proof. destruct v; cbn [plain value_ok]; intros H; try apply le_bytes_bytes. exact H. Qed.

Lemma w64_0 : w64 0.
Proof. reflexivity. Qed.

Lemma hash_w64 v : value_ok v -> w64 (hash_value v).
Proof.
  intros H. unfold hash_value. rewrite <- xxh64_eq_spec by (try apply plain_bytes; try exact H; exact w64_0).
  apply xxh64_w64.
Qed.

Lemma with_hash_value {A} v (k : N -> res A) : value_ok v -> with_hash (mem_of v) k = k (hash_value v).
Proof.
  intros H. unfold with_hash. rewrite mem_of_plain, xxh64_checked_eq_spec by (try apply plain_bytes; try exact H; exact w64_0).
  reflexivity.
Qed.

Lemma insert_value_eq f v : value_ok v -> insert_value f v = insert_hash f (hash_value v).
Proof. intros H. rewrite <- (with_hash_value v (insert_hash f) H). destruct v; reflexivity. Qed.

Lemma check_value_eq f v : value_ok v -> check_value f v = check_hash f (hash_value v).
Proof. intros H. rewrite <- (with_hash_value v (check_hash f) H). destruct v; reflexivity. Qed.

Lemma insert_values_eq vs : forall f, Forall value_ok vs -> insert_values f vs = insert_hashes f (map hash_value vs).
Proof.
  induction vs as [|v vs IH]; intros f H; [reflexivity|]. inversion H; subst.
  cbn [insert_values map insert_hashes]. rewrite insert_value_eq by assumption.
  destruct (insert_hash f (hash_value v)); try reflexivity. apply IH. assumption.
Qed.

Lemma hashes_w64 vs : Forall value_ok vs -> Forall w64 (map hash_value vs).
Proof. intros H. induction H; cbn [map]; constructor; [apply hash_w64; assumption|assumption]. Qed.

(* ------------------------------------------------------------------ no false negatives *)

Lemma R_no_false_negative f s hs h : R f s -> Forall w64 hs -> In h hs ->
  exists f', insert_hashes f hs = Ok f' /\ check_hash f' h = Ok true.
Proof.
  intros HR Hw Hin. pose proof HR as (_ & Hnb & _ & Hwf & Hpos & _).
  destruct (R_insert_hashes hs f s HR Hw) as (f' & E & R' & NB & _).
  exists f'. split; [exact E|].
  assert (Hh : w64 h) by (rewrite Forall_forall in Hw; apply Hw, Hin).
  rewrite (R_check_hash f' _ h R' Hh), NB, Hnb. f_equal.
  apply ins_seq_contains; try assumption. reflexivity.
Qed.

Theorem no_false_negative_hash n f hs h : create n = Some f -> Forall w64 hs -> In h hs ->
  exists f', insert_hashes f hs = Ok f' /\ check_hash f' h = Ok true.
Proof. intros Hc. apply (R_no_false_negative f _ hs h (create_R n f Hc)). Qed.

Theorem no_false_negative n f vs x : create n = Some f -> Forall value_ok vs -> In x vs ->
  exists f', insert_values f vs = Ok f' /\ check_value f' x = Ok true.
Proof.
  intros Hc Hok Hin.
  assert (Hx : value_ok x) by (rewrite Forall_forall in Hok; apply Hok, Hin).
  destruct (no_false_negative_hash n f (map hash_value vs) (hash_value x) Hc (hashes_w64 vs Hok) (in_map _ _ _ Hin))
    as (f' & E & C).
  exists f'. rewrite insert_values_eq, check_value_eq by assumption. split; assumption.
Qed.

(* ------------------------------------------------------------------ fresh filters *)

Theorem fresh_all_false n f : create n = Some f ->
  (forall h, w64 h -> check_hash f h = Ok false) /\ (forall v, value_ok v -> check_value f v = Ok false).
Proof.
  intros Hc. pose proof (create_R n f Hc) as HR.
  assert (A : forall h, w64 h -> check_hash f h = Ok false).
  { intros h Hh. rewrite (R_check_hash f _ h HR Hh), empty_check_at. reflexivity. }
  split; [exact A|]. intros v Hv. rewrite check_value_eq by exact Hv. apply A, hash_w64, Hv.
Qed.

(* ------------------------------------------------------------------ sizes *)

Theorem size_rounding n :
  (n <= 2^64 - 32 -> exists f, create n = Some f /\
       num_bytes f = 32 * N.max 1 ((n + 31) / 32) /\ num_blocks f = N.max 1 ((n + 31) / 32) /\
       N.of_nat (length (data f)) = num_bytes f /\ Forall (fun b => b = 0) (data f)) /\
  (2^64 - 32 < n -> create n = None).
Proof.
  split.
  - intros Hn. destruct (create n) as [f|] eqn:E.
    + destruct (create_spec n f E) as (_ & Hnb & Hby & Hd & _ & _). exists f. split; [reflexivity|].
      unfold blocks_for in *. repeat split; try assumption.
      * rewrite Hd, repeat_length, N2Nat.id. reflexivity.
      * rewrite Hd. apply Forall_forall. intros x Hx. apply repeat_spec in Hx. exact Hx.
    + apply create_none in E. lia.
  - apply create_none.
Qed.

(* ------------------------------------------------------------------ serialise and reload *)

Lemma R_data_length f s : R f s -> N.of_nat (length (data f)) = num_bytes f.
Proof.
  intros (Hd & _ & Hby & Hwf & _ & _). rewrite Hd, to_bytes_wbytes, wbytes_length, concat_length_wf by exact Hwf.
  rewrite Hby. unfold nblocks. lia.
Qed.

Lemma R_reload f s cap : R f s -> num_bytes f <= cap -> write f cap = Ok (data f) /\ read (data f) = Ok f.
Proof.
  intros HR Hcap. pose proof (R_data_length f s HR) as HL. pose proof HR as (_ & Hnb & Hby & _ & Hpos & _).
  split.
  - unfold write. destruct (cap <? num_bytes f) eqn:E1; [apply N.ltb_lt in E1; lia|].
    rewrite HL, N.ltb_irrefl. f_equal. apply firstn_all2. lia.
  - unfold read, from_data, BLOCK_SIZE. change Gen.Consts_gen.Bloom_BLOOM_FILTER_BLOCK_SIZE with 32.
    rewrite HL, Hby.
    destruct (32 * nblocks s <? 32) eqn:E1; [apply N.ltb_lt in E1; lia|].
    rewrite N.mul_comm, N.mod_mul by discriminate. cbn [N.eqb negb].
    rewrite N.div_mul by discriminate. destruct f as [d nby nbl]. cbn [data num_bytes num_blocks] in *.
    rewrite Hby, Hnb, (N.mul_comm 32). reflexivity.
Qed.

Theorem no_false_negative_after_reload n f vs f' cap :
  create n = Some f -> Forall value_ok vs -> insert_values f vs = Ok f' -> num_bytes f' <= cap ->
  exists out g, write f' cap = Ok out /\ read out = Ok g /\ g = f' /\
                forall x, In x vs -> check_value g x = Ok true.
Proof.
  intros Hc Hok Hi Hcap. pose proof (create_R n f Hc) as HR.
  rewrite insert_values_eq in Hi by exact Hok.
  destruct (R_insert_hashes _ f _ HR (hashes_w64 vs Hok)) as (f2 & E2 & R2 & _ & _).
  rewrite Hi in E2. inversion E2; subst f2.
  destruct (R_reload f' _ cap R2 Hcap) as (W & Rd).
  exists (data f'), f'. repeat split; try assumption.
  intros x Hx. destruct (no_false_negative n f vs x Hc Hok Hx) as (f3 & E3 & C3).
  rewrite insert_values_eq in E3 by exact Hok. rewrite Hi in E3. inversion E3; subst. exact C3.
Qed.

Lemma write_too_small f cap : cap < num_bytes f -> write f cap = Err E_CARQUET_ERROR_ENCODE.
Proof. intros H. unfold write. apply N.ltb_lt in H. rewrite H. reflexivity. Qed.

Lemma read_bad_size bs : (N.of_nat (length bs) < 32 \/ N.of_nat (length bs) mod 32 <> 0) ->
  read bs = Err E_CARQUET_ERROR_OUT_OF_MEMORY.
Proof.
  intros H. unfold read, from_data, BLOCK_SIZE. change Gen.Consts_gen.Bloom_BLOOM_FILTER_BLOCK_SIZE with 32.
  destruct (N.of_nat (length bs) <? 32) eqn:E1; [reflexivity|]. apply N.ltb_ge in E1.
  destruct H as [H|H]; [lia|]. apply N.eqb_neq in H. rewrite H. reflexivity.
Qed.

(* ------------------------------------------------------------------ merge *)

Lemma or_loop_map2 d : forall s, length d = length s -> or_loop (length d) d s = Ok (map2 N.lor d s).
Proof.
  induction d as [|x d IH]; intros [|y s] H; cbn [length] in H; try lia; [reflexivity|].
  cbn [length or_loop map2]. rewrite IH by lia. reflexivity.
Qed.

Lemma le_bytes_lor k : forall a b, le_bytes k (N.lor a b) = map2 N.lor (le_bytes k a) (le_bytes k b).
Proof.
  induction k as [|k IH]; intros a b; [reflexivity|]. cbn [le_bytes map2]. f_equal.
  - change 256 with (2^8). rewrite <- !N.land_ones. apply N.land_lor_distr_l.
  - change 256 with (2^8). rewrite <- !N.shiftr_div_pow2, N.shiftr_lor. apply IH.
Qed.

Lemma map2_app {A B C} (f : A -> B -> C) a1 : forall b1 a2 b2, length a1 = length b1 ->
  map2 f (a1 ++ a2) (b1 ++ b2) = map2 f a1 b1 ++ map2 f a2 b2.
Proof.
  induction a1 as [|x a1 IH]; intros [|y b1] a2 b2 H; cbn [length] in H; try lia; [reflexivity|].
  cbn [app map2]. rewrite IH by lia. reflexivity.
Qed.

Lemma le_bytes_length k : forall x, length (le_bytes k x) = k.
Proof. induction k as [|k IH]; intro x; [reflexivity|]. cbn [le_bytes length]. rewrite IH. reflexivity. Qed.

Lemma wbytes_lor ws : forall vs, length ws = length vs ->
  wbytes (map2 N.lor ws vs) = map2 N.lor (wbytes ws) (wbytes vs).
Proof.
  induction ws as [|w ws IH]; intros [|v vs] H; cbn [length] in H; try lia; [reflexivity|].
  unfold wbytes in *. cbn [map2 flat_map]. rewrite map2_app by (rewrite !le_bytes_length; reflexivity).
  rewrite le_bytes_lor, IH by lia. reflexivity.
Qed.

Lemma concat_union s : forall t, wf s -> wf t -> length s = length t ->
  concat (union s t) = map2 N.lor (concat s) (concat t).
Proof.
  induction s as [|x s IH]; intros [|y t] Hs Ht L; cbn [length] in L; try lia; [reflexivity|].
  inversion Hs as [|? ? [Lx _] Hs']; inversion Ht as [|? ? [Ly _] Ht']; subst.
  cbn [union map2 concat]. rewrite map2_app by congruence. f_equal. apply IH; [assumption|assumption|lia].
Qed.

Lemma R_merge a b s t : R a s -> R b t -> num_bytes a = num_bytes b ->
  exists m, merge a b = Ok m /\ R m (union s t) /\ num_blocks m = num_blocks a /\
            data m = map2 N.lor (data a) (data b).
Proof.
  intros Ra Rb Heq. pose proof (R_data_length a s Ra) as La. pose proof (R_data_length b t Rb) as Lb.
  pose proof Ra as (Hda & Hnba & Hbya & Hwfa & Hposa & Hlta).
  pose proof Rb as (Hdb & Hnbb & Hbyb & Hwfb & Hposb & Hltb).
  assert (Hn : nblocks s = nblocks t) by lia.
  assert (Hl : length s = length t) by (unfold nblocks in Hn; lia).
  unfold merge. rewrite Heq, N.eqb_refl. cbn [negb].
  replace (N.to_nat (num_bytes b)) with (length (data a)) by lia.
  rewrite or_loop_map2 by lia.
  eexists. split; [reflexivity|]. split; [|split; reflexivity].
  unfold R, set_data. cbn [data num_bytes num_blocks]. unfold nblocks. rewrite union_length by exact Hl.
  fold (nblocks s). repeat split; try assumption.
  - rewrite Hda, Hdb, !to_bytes_wbytes, concat_union by assumption. apply eq_sym, wbytes_lor.
    rewrite !concat_length_wf by assumption. lia.
  - apply union_wf; assumption.
Qed.

(** the state reached by a sequence of typed insertions *)
Lemma inserted_state n f vs f' : create n = Some f -> Forall value_ok vs -> insert_values f vs = Ok f' ->
  exists s, R f' s /\ num_blocks f' = blocks_for n /\
    forall x, In x vs ->
      check_at s (BloomModel.block_index (hash_value x) (num_blocks f')) (key (hash_value x)) = true.
Proof.
  intros Hc Hok Hi. pose proof (create_R n f Hc) as HR. pose proof HR as (_ & Hnb & _ & Hwf & Hpos & _).
  rewrite insert_values_eq in Hi by exact Hok.
  destruct (R_insert_hashes _ f _ HR (hashes_w64 vs Hok)) as (f2 & E2 & R2 & NB & _).
  rewrite Hi in E2. inversion E2; subst f2. eexists. split; [exact R2|]. split.
  - rewrite NB. apply (create_spec n f Hc).
  - intros x Hx. rewrite NB, Hnb. apply ins_seq_contains; try assumption; try reflexivity.
    + apply hashes_w64, Hok.
    + apply in_map, Hx.
Qed.

Theorem merge_union na nb fa fb va vb a b :
  create na = Some fa -> create nb = Some fb -> Forall value_ok va -> Forall value_ok vb ->
  insert_values fa va = Ok a -> insert_values fb vb = Ok b ->
  (num_bytes a = num_bytes b ->
     exists m, merge a b = Ok m /\ data m = map2 N.lor (data a) (data b) /\
               forall x, In x va \/ In x vb -> check_value m x = Ok true) /\
  (num_bytes a <> num_bytes b -> merge a b = Err E_CARQUET_ERROR_INVALID_ARGUMENT).
Proof.
  intros Hca Hcb Hoka Hokb Hia Hib. split.
  - intros Heq.
    destruct (inserted_state na fa va a Hca Hoka Hia) as (s & Ra & _ & Ca).
    destruct (inserted_state nb fb vb b Hcb Hokb Hib) as (t & Rb & _ & Cb).
    destruct (R_merge a b s t Ra Rb Heq) as (m & Em & Rm & NBm & Dm).
    exists m. split; [exact Em|]. split; [exact Dm|].
    pose proof Ra as (_ & Hnba & Hbya & Hwfa & _ & _). pose proof Rb as (_ & Hnbb & Hbyb & Hwfb & _ & _).
    assert (Hl : length s = length t) by (unfold nblocks in *; lia).
    assert (Hnbeq : num_blocks b = num_blocks a) by lia.
    intros x [Hx|Hx].
    + assert (Hv : value_ok x) by (rewrite Forall_forall in Hoka; apply Hoka, Hx).
      rewrite check_value_eq, (R_check_hash m _ _ Rm (hash_w64 x Hv)), NBm by exact Hv. f_equal.
      eapply check_at_mono; [apply sub_union_l; assumption|apply Ca, Hx].
    + assert (Hv : value_ok x) by (rewrite Forall_forall in Hokb; apply Hokb, Hx).
      rewrite check_value_eq, (R_check_hash m _ _ Rm (hash_w64 x Hv)), NBm, <- Hnbeq by exact Hv. f_equal.
      eapply check_at_mono; [apply sub_union_r; assumption|apply Cb, Hx].
  - intros Hne. unfold merge. apply N.eqb_neq in Hne. rewrite Hne. reflexivity.
Qed.

(* ------------------------------------------------------------------ the bits are those of the Parquet algorithm *)

Lemma fold_insert_hashes vs : forall s,
  fold_left BloomSpec.insert vs s = fold_left BloomSpec.insert_hash (map hash_value vs) s.
Proof. induction vs as [|v vs IH]; intro s; [reflexivity|]. cbn [fold_left map]. apply IH. Qed.

Lemma fold_insert_nblocks hs : forall s, nblocks (fold_left BloomSpec.insert_hash hs s) = nblocks s.
Proof.
  induction hs as [|h hs IH]; intro s; [reflexivity|]. cbn [fold_left]. rewrite IH.
  unfold nblocks, BloomSpec.insert_hash. rewrite insert_at_length. reflexivity.
Qed.

Theorem bits_eq_spec n f vs : create n = Some f -> n <= 2^37 - 32 -> Forall value_ok vs ->
  let spec := fold_left BloomSpec.insert vs (empty (N.to_nat (blocks_for n))) in
  exists f', insert_values f vs = Ok f' /\ data f' = to_bytes spec /\
             forall v, value_ok v -> check_value f' v = Ok (BloomSpec.check spec v).
Proof.
  intros Hc Hn Hok spec. pose proof (create_R n f Hc) as HR.
  destruct (create_spec n f Hc) as (_ & Hnb & _ & _ & _ & Hpos).
  assert (Hle : blocks_for n <= 2^32).
  { unfold blocks_for. change (2^37) with 137438953472 in Hn. change (2^32) with 4294967296. lia. }
  assert (Hne : nblocks (empty (N.to_nat (blocks_for n))) = blocks_for n)
    by (unfold nblocks; rewrite empty_length, N2Nat.id; reflexivity).
  destruct (R_insert_hashes _ f _ HR (hashes_w64 vs Hok)) as (f' & E & R' & NB & _).
  assert (E0 : num_blocks f = nblocks (empty (N.to_nat (blocks_for n)))) by (rewrite Hne; exact Hnb).
  rewrite E0, ins_seq_spec in R' by (try rewrite Hne; try assumption; apply hashes_w64, Hok).
  rewrite <- fold_insert_hashes in R'. fold spec in R'.
  exists f'. rewrite insert_values_eq by exact Hok. split; [exact E|]. split; [apply R'|].
  intros v Hv. rewrite check_value_eq, (R_check_hash f' spec _ R' (hash_w64 v Hv)) by exact Hv. f_equal.
  unfold BloomSpec.check, BloomSpec.check_hash.
  destruct R' as (_ & Hnb' & _). rewrite Hnb'. rewrite model_index_eq; [reflexivity|apply hash_w64, Hv|].
  unfold spec. rewrite fold_insert_hashes, fold_insert_nblocks, Hne. exact Hle.
Qed.

Theorem bits_eq_spec_hash n f hs : create n = Some f -> n <= 2^37 - 32 -> Forall w64 hs ->
  exists f', insert_hashes f hs = Ok f' /\
             data f' = to_bytes (fold_left BloomSpec.insert_hash hs (empty (N.to_nat (blocks_for n)))).
Proof.
  intros Hc Hn Hw. pose proof (create_R n f Hc) as HR.
  destruct (create_spec n f Hc) as (_ & Hnb & _ & _ & _ & Hpos).
  assert (Hle : blocks_for n <= 2^32).
  { unfold blocks_for. change (2^37) with 137438953472 in Hn. change (2^32) with 4294967296. lia. }
  assert (Hne : nblocks (empty (N.to_nat (blocks_for n))) = blocks_for n)
    by (unfold nblocks; rewrite empty_length, N2Nat.id; reflexivity).
  destruct (R_insert_hashes _ f _ HR Hw) as (f' & E & R' & _ & _).
  assert (E0 : num_blocks f = nblocks (empty (N.to_nat (blocks_for n)))) by (rewrite Hne; exact Hnb).
  rewrite E0, ins_seq_spec in R' by (try rewrite Hne; assumption).
  exists f'. split; [exact E|apply R'].
Qed.

(* ------------------------------------------------------------------ history: the block selection before the repair *)

(** Until the repair the C code selected the block with (hash >> 32) % num_blocks.  With that
    formula the filter has no false negatives either, but its bits are not those of the Parquet
    format: another implementation looks in a different block. *)
Definition old_block_index (hash nblocks : N) : N := N.shiftr hash 32 mod nblocks.

Definition old_insert_hash (f : filter) (hash : N) : res filter :=
  let off := N.to_nat (usz (old_block_index hash (num_blocks f) * BLOCK_SIZE)) in
  match BloomModel.block_insert SALT (data f) off (u32 hash) with
  | Ok d => Ok (set_data f d)
  | Err c => Err c | Fault x => Fault x
  end.

Lemma old_block_index_refuted :
  exists h nb, w64 h /\ 0 < nb /\ nb <= 2^32 /\ old_block_index h nb <> BloomSpec.block_index h nb.
Proof. exists (2^32), 3. repeat split; vm_compute; congruence. Qed.

Lemma old_bits_eq_spec_refuted :
  exists n h f f', create n = Some f /\ old_insert_hash f h = Ok f' /\
    data f' <> to_bytes (BloomSpec.insert_hash (empty (N.to_nat (blocks_for n))) h).
Proof.
  exists 96, (2^32). eexists. eexists. split; [vm_compute; reflexivity|].
  split; [vm_compute; reflexivity|]. vm_compute. discriminate.
Qed.

(* ------------------------------------------------------------------ non-vacuity *)

Definition sample_values : list value :=
  [I32 (-7); I64 9223372036854775807; F32 0x7fc00000; F64 0x3ff0000000000000;
   Bytes [104; 101; 108; 108; 111]; Bytes []; I32 1].

Example sample_values_ok : Forall value_ok sample_values.
Proof. repeat constructor; unfold byte; lia. Qed.

Example sample_run :
  exists f f', create 100 = Some f /\ num_bytes f = 128 /\ insert_values f sample_values = Ok f' /\
    check_value f' (I32 1) = Ok true /\ check_value f' (I32 2) = Ok false /\
    data f' = to_bytes (fold_left BloomSpec.insert sample_values (empty 4)).
Proof.
  eexists. eexists. split; [vm_compute; reflexivity|]. split; [vm_compute; reflexivity|].
  split; [vm_compute; reflexivity|]. split; [vm_compute; reflexivity|]. split; vm_compute; reflexivity.
Qed.

Example sample_merge_unequal :
  exists a b, create 32 = Some a /\ create 64 = Some b /\ merge a b = Err E_CARQUET_ERROR_INVALID_ARGUMENT.
Proof.
  eexists. eexists. split; [vm_compute; reflexivity|]. split; vm_compute; reflexivity.
Qed.

Example sample_reload :
  exists f, create 1 = Some f /\ read (data f) = Ok f /\
            read (firstn 31 (data f)) = Err E_CARQUET_ERROR_OUT_OF_MEMORY.
Proof. eexists. split; [vm_compute; reflexivity|]. split; vm_compute; reflexivity. Qed.
