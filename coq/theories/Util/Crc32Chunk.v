(** C14, chunked computation: carquet_crc32_update may be fed a buffer in any number of pieces of any
    sizes (empty pieces included), starting from any 32-bit state, and the result is that of one
    call on the concatenation; every result is a 32-bit value.  The main loop of the slicing-by-8
    implementation restarts at each piece boundary (so the 8-byte groups of a chunked computation
    are NOT those of the one-shot one): the statement is not a triviality of the loop structure. *)
From Coq Require Import NArith Arith List Bool Lia.
From Carquet Require Import Base.Bits Util.Crc32Spec Util.Crc32Model Util.Crc32Proofs.
Import ListNotations.
Local Open Scope N_scope.

Lemma mask32_lt : mask32 < 2^32.
Proof. reflexivity. Qed.

Lemma not32_lt x : x < 2^32 -> not32 x < 2^32.
Proof. intros H. unfold not32. apply lxor_lt_pow2; [exact H|exact mask32_lt]. Qed.

Lemma crc32_update_lt c data : c < 2^32 -> bytes data -> crc32_update c data < 2^32.
Proof.
  intros Hc Hb. unfold crc32_update. apply not32_lt.
  destruct (slice8_spec data (not32 c) (not32_lt c Hc) Hb) as [_ L]. exact L.
Qed.

Lemma crc32_lt data : bytes data -> crc32 data < 2^32.
Proof. intros Hb. unfold crc32. apply crc32_update_lt; [reflexivity|exact Hb]. Qed.

Lemma crc32_update_app c a b : c < 2^32 -> bytes a -> bytes b ->
  crc32_update (crc32_update c a) b = crc32_update c (a ++ b).
Proof.
  intros Hc Ha Hb. unfold crc32_update. rewrite not32_invol.
  assert (Hn : not32 c < 2^32) by (apply not32_lt; exact Hc).
  assert (Hab : bytes (a ++ b)) by (apply Forall_app; split; assumption).
  destruct (slice8_spec (a ++ b) (not32 c) Hn Hab) as [E1 _].
  destruct (slice8_spec a (not32 c) Hn Ha) as [E2 L2].
  destruct (slice8_spec b (slice8 (not32 c) a) L2 Hb) as [E3 _].
  rewrite E1, E3, E2, fold_left_app. reflexivity.
Qed.

Lemma crc32_update_nil c : c < 2^32 -> crc32_update c [] = c.
Proof. intros _. unfold crc32_update. cbn [slice8 fold_left]. apply not32_invol. Qed.

(** any chunking, from any 32-bit starting state *)
Lemma crc32_update_chunks chunks : forall c, c < 2^32 -> Forall bytes chunks ->
  fold_left crc32_update chunks c = crc32_update c (concat chunks).
Proof.
  induction chunks as [|ch chunks IH]; intros c Hc Hall; cbn [fold_left concat].
  - symmetry. apply crc32_update_nil. exact Hc.
  - inversion Hall as [|? ? Hch Hrest]; subst.
    rewrite (IH (crc32_update c ch) (crc32_update_lt c ch Hc Hch) Hrest).
    apply crc32_update_app; [exact Hc|exact Hch|].
    clear -Hrest. induction Hrest as [|x l Hx _ IHl]; cbn [concat]; [constructor|].
    apply Forall_app; split; assumption.
Qed.

(** from the initial state: the chunked computation is the one-shot CRC, hence the IEEE CRC-32 *)
Lemma crc32_chunked chunks : Forall bytes chunks ->
  fold_left crc32_update chunks 0 = crc32 (concat chunks).
Proof. intros H. unfold crc32. apply crc32_update_chunks; [reflexivity|exact H]. Qed.

Lemma crc32_chunked_spec chunks : Forall bytes chunks ->
  fold_left crc32_update chunks 0 = Crc32Spec.crc (concat chunks).
Proof.
  intros H. rewrite (crc32_chunked chunks H). apply crc32_eq_spec.
  clear -H. induction H as [|x l Hx _ IHl]; cbn [concat]; [constructor|].
  apply Forall_app; split; assumption.
Qed.

(** non-vacuity: "123456789" in three pieces of sizes 1, 0 and 8 (the 8-byte main loop runs only in
    the chunked computation's last piece, never at the one-shot computation's offsets) *)
Example crc_chunked_check_value :
  fold_left crc32_update [[49]; []; [50;51;52;53;54;55;56;57]] 0 = 0xCBF43926.
Proof. vm_compute. reflexivity. Qed.
