(** Proofs for C20, hash part: the model of carquet_xxhash64 (Xxh64Model, mirror of the C code)
    computes XXH64 as specified (Xxh64Spec) for every byte string and every 64-bit seed, and never
    reads outside its input. *)
From Coq Require Import NArith Arith List Bool Lia.
From Carquet Require Import Base.Bits Util.Xxh64Spec Util.Xxh64Model.
Import ListNotations.
Local Open Scope N_scope.

Definition byte (x : N) : Prop := x < 256.
Definition bytes (l : list N) : Prop := Forall byte l.
Definition w64 (x : N) : Prop := x < 2^64.

(* ------------------------------------------------------------------ constants and word operations *)

Lemma primes_eq : PRIME1 = P1 /\ PRIME2 = P2 /\ PRIME3 = P3 /\ PRIME4 = P4 /\ PRIME5 = P5.
Proof. repeat split; reflexivity. Qed.

Lemma two64_eq : two64 = 2^64.
Proof. reflexivity. Qed.

Lemma M64_eq : M64 = 2^64.
Proof. reflexivity. Qed.

Lemma pow64_nz : 2^64 <> 0.
Proof. apply N.pow_nonzero. discriminate. Qed.

Lemma u64_w64 x : w64 (u64 x).
Proof. unfold w64, u64. rewrite two64_eq. apply N.mod_lt, pow64_nz. Qed.

Lemma add_w64 a b : w64 (add a b).
Proof. apply u64_w64. Qed.

Lemma mul_w64 a b : w64 (mul a b).
Proof. apply u64_w64. Qed.

Lemma add_eq a b : add a b = add64 a b.
Proof. reflexivity. Qed.

Lemma mul_eq a b : mul a b = mul64 a b.
Proof. reflexivity. Qed.

Lemma sub_eq a b : w64 b -> sub a b = sub64 a b.
Proof.
  intros Hb. unfold sub, sub64, u64. rewrite M64_eq, two64_eq.
  rewrite (N.mod_small b) by exact Hb. f_equal. unfold w64 in Hb. lia.
Qed.

Lemma lxor_w64 a b : w64 a -> w64 b -> w64 (N.lxor a b).
Proof. apply lxor_lt_pow2. Qed.

(** or with a value shifted beyond the first operand is addition *)
Lemma lor_disjoint_add x w k : x < 2^k -> N.lor x (2^k * w) = x + 2^k * w.
Proof.
  intros Hx. rewrite add_shift_lxor by exact Hx.
  apply N.bits_inj_iff; intro m. rewrite N.lor_spec, N.lxor_spec.
  destruct (N.lt_ge_cases m k) as [L|G].
  - rewrite (N.mul_comm (2^k)), N.mul_pow2_bits_low by exact L. destruct (N.testbit x m); reflexivity.
  - rewrite (testbit_high_lt x k m Hx G). destruct (N.testbit (2 ^ k * w) m); reflexivity.
Qed.

Lemma lor_shiftl_add x y k : x < 2^k -> N.lor x (N.shiftl y k) = x + 2^k * y.
Proof. intros Hx. rewrite N.shiftl_mul_pow2, (N.mul_comm y). apply lor_disjoint_add, Hx. Qed.

(** the C rotation (shift, shift, or) is the arithmetic rotation of the specification *)
Lemma rotl_eq x r : w64 x -> 0 < r -> r < 64 -> rotl x r = rotl64 x r.
Proof.
  intros Hx H0 H64. unfold rotl, rotl64, u64. rewrite two64_eq, M64_eq.
  rewrite N.shiftl_mul_pow2, N.shiftr_div_pow2.
  assert (E : 2^64 = 2^(64 - r) * 2^r) by (rewrite <- N.pow_add_r; f_equal; lia).
  assert (Hr : 2^r <> 0) by (apply N.pow_nonzero; discriminate).
  assert (Hs : 2^(64 - r) <> 0) by (apply N.pow_nonzero; discriminate).
  assert (Hq : x / 2^(64 - r) < 2^r).
  { apply N.div_lt_upper_bound; [exact Hs|]. rewrite <- E. exact Hx. }
  rewrite E. rewrite N.mul_mod_distr_r by assumption.
  rewrite N.lor_comm, (N.mul_comm _ (2^r)), N.add_comm.
  apply lor_disjoint_add, Hq.
Qed.

Lemma rotl_w64 x r : w64 x -> w64 (rotl x r).
Proof.
  intros Hx. unfold rotl. apply lor_lt_pow2; [apply u64_w64|].
  apply lt_pow2_of_bits; intros m Hm. rewrite N.shiftr_spec by apply N.le_0_l.
  apply (testbit_high_lt x 64); [exact Hx|lia].
Qed.

Lemma round_eq acc input : Xxh64Model.round acc input = Xxh64Spec.round acc input.
Proof.
  unfold Xxh64Model.round, Xxh64Spec.round.
  rewrite rotl_eq; [reflexivity|apply add_w64|reflexivity|reflexivity].
Qed.

Lemma round_w64 acc input : w64 (Xxh64Model.round acc input).
Proof. apply mul_w64. Qed.

Lemma merge_eq acc v : merge_round acc v = merge_acc acc v.
Proof. unfold merge_round, merge_acc. rewrite round_eq. reflexivity. Qed.

Lemma merge_w64 acc v : w64 (merge_round acc v).
Proof. apply add_w64. Qed.

(* ------------------------------------------------------------------ little-endian reads *)

Lemma read32_eq a b c d : byte a -> byte b -> byte c -> byte d ->
  read32_le a b c d = le [a; b; c; d].
Proof.
  unfold byte, read32_le. intros Ha Hb Hc Hd. cbn [le].
  rewrite (lor_shiftl_add a b 8) by (change (2^8) with 256; lia).
  rewrite (lor_shiftl_add _ c 16) by (change (2^8) with 256; change (2^16) with 65536; lia).
  rewrite (lor_shiftl_add _ d 24)
    by (change (2^8) with 256; change (2^16) with 65536; change (2^24) with 16777216; lia).
  change (2^8) with 256; change (2^16) with 65536; change (2^24) with 16777216. lia.
Qed.

Lemma read32_lt a b c d : byte a -> byte b -> byte c -> byte d -> le [a; b; c; d] < 2^32.
Proof. unfold byte. intros. cbn [le]. change (2^32) with 4294967296. lia. Qed.

Lemma read64_eq a b c d e f g h :
  byte a -> byte b -> byte c -> byte d -> byte e -> byte f -> byte g -> byte h ->
  read64_le a b c d e f g h = le [a; b; c; d; e; f; g; h].
Proof.
  intros Ha Hb Hc Hd He Hf Hg Hh. unfold read64_le.
  fold (read32_le a b c d). rewrite read32_eq by assumption.
  pose proof (read32_lt a b c d Ha Hb Hc Hd) as L. revert L. cbn [le]. unfold byte in *.
  change (2^32) with 4294967296. intros L.
  rewrite (lor_shiftl_add _ e 32) by (change (2^32) with 4294967296; lia).
  rewrite (lor_shiftl_add _ f 40) by (change (2^32) with 4294967296; change (2^40) with 1099511627776; lia).
  rewrite (lor_shiftl_add _ g 48)
    by (change (2^32) with 4294967296; change (2^40) with 1099511627776; change (2^48) with 281474976710656; lia).
  rewrite (lor_shiftl_add _ h 56)
    by (change (2^32) with 4294967296; change (2^40) with 1099511627776; change (2^48) with 281474976710656;
        change (2^56) with 72057594037927936; lia).
  change (2^32) with 4294967296; change (2^40) with 1099511627776; change (2^48) with 281474976710656;
    change (2^56) with 72057594037927936. lia.
Qed.

(* ------------------------------------------------------------------ groups of k bytes *)

Lemma split_n_pair n k bs : split_n n k bs = (fst (split_n n k bs), snd (split_n n k bs)).
Proof. apply surjective_pairing. Qed.

Lemma firstn_app_exact (g rest : list N) : firstn (length g) (g ++ rest) = g.
Proof. induction g as [|x g IH]; cbn [length firstn app]; [destruct rest; reflexivity|rewrite IH; reflexivity]. Qed.

Lemma skipn_app_exact (g rest : list N) : skipn (length g) (g ++ rest) = rest.
Proof. induction g as [|x g IH]; cbn [length skipn app]; [reflexivity|exact IH]. Qed.

Lemma split_n_S n k bs :
  split_n (S n) k bs = (firstn k bs :: fst (split_n n k (skipn k bs)), snd (split_n n k (skipn k bs))).
Proof. change (split_n (S n) k bs) with (let (g, r) := split_n n k (skipn k bs) in (firstn k bs :: g, r)).
  destruct (split_n n k (skipn k bs)); reflexivity. Qed.

Lemma groups_app k g rest : length g = k -> (0 < k)%nat ->
  groups k (g ++ rest) = (g :: fst (groups k rest), snd (groups k rest)).
Proof.
  intros Hg Hk. subst k. unfold groups. rewrite app_length.
  replace ((length g + length rest) / length g)%nat with (S (length rest / length g)).
  - rewrite split_n_S, skipn_app_exact, firstn_app_exact. reflexivity.
  - replace (length g + length rest)%nat with (1 * length g + length rest)%nat by lia.
    rewrite Nat.div_add_l by lia. reflexivity.
Qed.

Lemma groups_short k bs : (length bs < k)%nat -> groups k bs = ([], bs).
Proof. intros H. unfold groups. rewrite Nat.div_small by exact H. reflexivity. Qed.

Lemma groups_pair k bs : groups k bs = (fst (groups k bs), snd (groups k bs)).
Proof. apply surjective_pairing. Qed.

(* ------------------------------------------------------------------ the stripe loop *)

Lemma list_32 (p : list N) : (32 <= length p)%nat ->
  exists a0 a1 a2 a3 a4 a5 a6 a7 b0 b1 b2 b3 b4 b5 b6 b7 c0 c1 c2 c3 c4 c5 c6 c7 d0 d1 d2 d3 d4 d5 d6 d7 rest,
    p = [a0;a1;a2;a3;a4;a5;a6;a7;b0;b1;b2;b3;b4;b5;b6;b7;c0;c1;c2;c3;c4;c5;c6;c7;d0;d1;d2;d3;d4;d5;d6;d7] ++ rest.
Proof.
  intros H. do 32 (destruct p as [|? p]; [exfalso; cbn [length] in H; lia|]).
  do 33 eexists. cbn [app]. reflexivity.
Qed.

Lemma stripe_step v1 v2 v3 v4 a0 a1 a2 a3 a4 a5 a6 a7 b0 b1 b2 b3 b4 b5 b6 b7
      c0 c1 c2 c3 c4 c5 c6 c7 d0 d1 d2 d3 d4 d5 d6 d7 rest :
  stripe_loop v1 v2 v3 v4
    ([a0;a1;a2;a3;a4;a5;a6;a7;b0;b1;b2;b3;b4;b5;b6;b7;c0;c1;c2;c3;c4;c5;c6;c7;d0;d1;d2;d3;d4;d5;d6;d7] ++ rest) =
  if (32 <=? length rest)%nat
  then stripe_loop (Xxh64Model.round v1 (read64_le a0 a1 a2 a3 a4 a5 a6 a7))
                   (Xxh64Model.round v2 (read64_le b0 b1 b2 b3 b4 b5 b6 b7))
                   (Xxh64Model.round v3 (read64_le c0 c1 c2 c3 c4 c5 c6 c7))
                   (Xxh64Model.round v4 (read64_le d0 d1 d2 d3 d4 d5 d6 d7)) rest
  else Some (Xxh64Model.round v1 (read64_le a0 a1 a2 a3 a4 a5 a6 a7),
             Xxh64Model.round v2 (read64_le b0 b1 b2 b3 b4 b5 b6 b7),
             Xxh64Model.round v3 (read64_le c0 c1 c2 c3 c4 c5 c6 c7),
             Xxh64Model.round v4 (read64_le d0 d1 d2 d3 d4 d5 d6 d7), rest).
Proof. reflexivity. Qed.

Lemma stripe_round_32 v1 v2 v3 v4 a0 a1 a2 a3 a4 a5 a6 a7 b0 b1 b2 b3 b4 b5 b6 b7
      c0 c1 c2 c3 c4 c5 c6 c7 d0 d1 d2 d3 d4 d5 d6 d7 :
  stripe_round [v1; v2; v3; v4]
    [a0;a1;a2;a3;a4;a5;a6;a7;b0;b1;b2;b3;b4;b5;b6;b7;c0;c1;c2;c3;c4;c5;c6;c7;d0;d1;d2;d3;d4;d5;d6;d7] =
  [Xxh64Spec.round v1 (le [a0;a1;a2;a3;a4;a5;a6;a7]); Xxh64Spec.round v2 (le [b0;b1;b2;b3;b4;b5;b6;b7]);
   Xxh64Spec.round v3 (le [c0;c1;c2;c3;c4;c5;c6;c7]); Xxh64Spec.round v4 (le [d0;d1;d2;d3;d4;d5;d6;d7])].
Proof. reflexivity. Qed.

Ltac inv_bytes :=
  unfold bytes in *;
  repeat match goal with
         | H : Forall _ (_ :: _) |- _ => inversion H; clear H; subst
         | H : Forall _ (_ ++ _) |- _ => apply Forall_app in H; destruct H
         end.

Lemma stripe_loop_spec n : forall p v1 v2 v3 v4,
  (length p <= n)%nat -> (32 <= length p)%nat -> bytes p ->
  exists w1 w2 w3 w4,
    stripe_loop v1 v2 v3 v4 p = Some (w1, w2, w3, w4, snd (groups 32 p)) /\
    fold_left stripe_round (fst (groups 32 p)) [v1; v2; v3; v4] = [w1; w2; w3; w4] /\
    fst (groups 32 p) <> [] /\ w64 w1 /\ w64 w2 /\ w64 w3 /\ w64 w4 /\ bytes (snd (groups 32 p)).
Proof.
  induction n as [|n IH]; intros p v1 v2 v3 v4 Hn H32 Hb; [lia|].
  destruct (list_32 p H32) as (a0&a1&a2&a3&a4&a5&a6&a7&b0&b1&b2&b3&b4&b5&b6&b7&c0&c1&c2&c3&c4&c5&c6&c7&
                                d0&d1&d2&d3&d4&d5&d6&d7&rest&->).
  rewrite stripe_step, groups_app by (try reflexivity; lia).
  cbn [fst snd fold_left]. rewrite stripe_round_32.
  rewrite app_length in Hn. cbn [length] in Hn.
  inv_bytes.
  rewrite <- !round_eq, <- !read64_eq by assumption.
  destruct (32 <=? length rest)%nat eqn:E.
  - apply Nat.leb_le in E.
    destruct (IH rest (Xxh64Model.round v1 (read64_le a0 a1 a2 a3 a4 a5 a6 a7))
                      (Xxh64Model.round v2 (read64_le b0 b1 b2 b3 b4 b5 b6 b7))
                      (Xxh64Model.round v3 (read64_le c0 c1 c2 c3 c4 c5 c6 c7))
                      (Xxh64Model.round v4 (read64_le d0 d1 d2 d3 d4 d5 d6 d7)))
      as (w1&w2&w3&w4&E1&E2&_&R); [lia|exact E|assumption|].
    exists w1, w2, w3, w4. split; [exact E1|]. split; [exact E2|]. split; [discriminate|exact R].
  - apply Nat.leb_gt in E. rewrite groups_short by exact E. cbn [fst snd fold_left].
    do 4 eexists. split; [reflexivity|]. split; [reflexivity|]. split; [discriminate|].
    repeat split; try apply round_w64. assumption.
Qed.

(* ------------------------------------------------------------------ the tails *)

Lemma tail8_step h a0 a1 a2 a3 a4 a5 a6 a7 rest :
  tail8 h ([a0;a1;a2;a3;a4;a5;a6;a7] ++ rest) =
  tail8 (add (mul (rotl (N.lxor h (Xxh64Model.round 0 (read64_le a0 a1 a2 a3 a4 a5 a6 a7))) 27) PRIME1) PRIME4) rest.
Proof. reflexivity. Qed.

Lemma lane8_eq h a0 a1 a2 a3 a4 a5 a6 a7 : w64 h ->
  byte a0 -> byte a1 -> byte a2 -> byte a3 -> byte a4 -> byte a5 -> byte a6 -> byte a7 ->
  add (mul (rotl (N.lxor h (Xxh64Model.round 0 (read64_le a0 a1 a2 a3 a4 a5 a6 a7))) 27) PRIME1) PRIME4 =
  lane8 h [a0;a1;a2;a3;a4;a5;a6;a7].
Proof.
  intros Hh B0 B1 B2 B3 B4 B5 B6 B7. unfold lane8.
  rewrite read64_eq, round_eq by assumption.
  rewrite rotl_eq; [reflexivity| |reflexivity|reflexivity].
  apply lxor_w64; [exact Hh|]. rewrite <- round_eq. apply round_w64.
Qed.

Lemma tail8_spec n : forall p h, (length p <= n)%nat -> w64 h -> bytes p ->
  tail8 h p = (fold_left lane8 (fst (groups 8 p)) h, snd (groups 8 p)) /\
  w64 (fst (tail8 h p)) /\ bytes (snd (tail8 h p)).
Proof.
  induction n as [|n IH]; intros p h Hn Hh Hb.
  - destruct p; [|cbn [length] in Hn; lia]. cbn. repeat split; [exact Hh|constructor].
  - destruct (le_lt_dec 8 (length p)) as [G|L].
    + do 8 (destruct p as [|? p]; [exfalso; cbn [length] in G; lia|]).
      change (n0 :: n1 :: n2 :: n3 :: n4 :: n5 :: n6 :: n7 :: p) with ([n0;n1;n2;n3;n4;n5;n6;n7] ++ p) in *.
      rewrite tail8_step, groups_app by (try reflexivity; lia). cbn [fst snd fold_left].
      rewrite app_length in Hn. cbn [length] in Hn. inv_bytes.
      rewrite lane8_eq by assumption.
      apply IH; [lia| |assumption].
      rewrite <- lane8_eq by assumption. apply add_w64.
    + rewrite groups_short by exact L. cbn [fst snd fold_left].
      assert (E : tail8 h p = (h, p)).
      { do 8 (destruct p as [|? p]; [reflexivity|]). cbn [length] in L. lia. }
      rewrite E. repeat split; assumption.
Qed.

Lemma tail4_spec h p : w64 h -> bytes p ->
  tail4 h p = (if (4 <=? length p)%nat then (lane4 h (firstn 4 p), skipn 4 p) else (h, p)) /\
  w64 (fst (tail4 h p)) /\ bytes (snd (tail4 h p)).
Proof.
  intros Hh Hb.
  destruct p as [|a0 [|a1 [|a2 [|a3 rest]]]]; try (cbn; repeat split; assumption).
  inv_bytes. cbn [tail4 length Nat.leb firstn skipn fst snd]. split; [|split; [apply add_w64|assumption]].
  f_equal. unfold lane4. rewrite read32_eq by assumption.
  rewrite rotl_eq; [reflexivity| |reflexivity|reflexivity].
  apply lxor_w64; [exact Hh|apply mul_w64].
Qed.

Lemma tail1_spec p : forall h, w64 h -> tail1 h p = fold_left lane1 p h.
Proof.
  induction p as [|b p IH]; intros h Hh; [reflexivity|].
  cbn [tail1 fold_left].
  assert (E : mul (rotl (N.lxor h (mul b PRIME5)) 11) PRIME1 = lane1 h b).
  { unfold lane1. rewrite rotl_eq; [reflexivity| |reflexivity|reflexivity].
    apply lxor_w64; [exact Hh|apply mul_w64]. }
  rewrite E. apply IH. rewrite <- E. apply mul_w64.
Qed.

Lemma final_mix_eq h : final_mix h = avalanche h.
Proof. unfold final_mix, avalanche. rewrite !N.shiftr_div_pow2. reflexivity. Qed.

(** steps 4-6 of the specification as one function of the accumulator and the unread input *)
Definition spec_finish (acc : N) (rest : list N) : N :=
  let (lanes, rest) := groups 8 rest in
  let acc := fold_left lane8 lanes acc in
  let (acc, rest) := if (4 <=? length rest)%nat
                     then (lane4 acc (firstn 4 rest), skipn 4 rest) else (acc, rest) in
  avalanche (fold_left lane1 rest acc).

Lemma finish_eq h p : w64 h -> bytes p ->
  (let (h1, p1) := tail8 h p in let (h2, p2) := tail4 h1 p1 in Some (final_mix (tail1 h2 p2))) =
  Some (spec_finish h p).
Proof.
  intros Hh Hb. unfold spec_finish.
  destruct (tail8_spec (length p) p h (Nat.le_refl _) Hh Hb) as (E8 & W8 & B8).
  rewrite E8 in *. rewrite (groups_pair 8 p). cbn [fst snd] in *.
  destruct (tail4_spec _ _ W8 B8) as (E4 & W4 & B4). rewrite E4 in *.
  destruct (4 <=? length (snd (groups 8 p)))%nat; cbn [fst snd] in *;
    rewrite tail1_spec by assumption; f_equal; apply final_mix_eq.
Qed.

(* ------------------------------------------------------------------ model = specification *)

Lemma spec_unfold bs seed :
  Xxh64Spec.xxh64 bs seed =
  spec_finish (add64 (match fst (groups 32 bs) with
                      | [] => add64 seed P5
                      | _ => converge (fold_left stripe_round (fst (groups 32 bs)) (init_accs seed))
                      end) (N.of_nat (length bs))) (snd (groups 32 bs)).
Proof. unfold Xxh64Spec.xxh64, spec_finish. rewrite (groups_pair 32 bs). reflexivity. Qed.

Lemma of_nat_length_u64 (bs : list N) : w64 (N.of_nat (length bs)) -> u64 (N.of_nat (length bs)) = N.of_nat (length bs).
Proof. intros H. unfold u64. rewrite two64_eq. apply N.mod_small, H. Qed.

Lemma add_u64_r a b : add a (u64 b) = add a b.
Proof.
  unfold add, u64. rewrite N.add_mod_idemp_r by (rewrite two64_eq; apply pow64_nz). reflexivity.
Qed.

Theorem xxh64_checked_eq_spec bs seed : bytes bs -> w64 seed ->
  xxh64_checked bs seed = Some (Xxh64Spec.xxh64 bs seed).
Proof.
  intros Hb Hs. unfold xxh64_checked. rewrite spec_unfold.
  destruct (32 <=? length bs)%nat eqn:E.
  - apply Nat.leb_le in E.
    destruct (stripe_loop_spec (length bs) bs (add (add seed PRIME1) PRIME2) (add seed PRIME2) (add seed 0)
                (sub seed PRIME1) (Nat.le_refl _) E Hb) as (w1&w2&w3&w4&E1&E2&NE&W1&W2&W3&W4&Br).
    rewrite E1.
    assert (Ei : init_accs seed = [add (add seed PRIME1) PRIME2; add seed PRIME2; add seed 0; sub seed PRIME1]).
    { unfold init_accs. rewrite sub_eq by reflexivity. unfold add at 4. rewrite N.add_0_r. reflexivity. }
    rewrite Ei, E2.
    destruct (fst (groups 32 bs)) as [|g gs] eqn:EG; [contradiction|].
    rewrite add_u64_r.
    rewrite finish_eq by (try assumption; apply add_w64).
    f_equal. f_equal. rewrite add_eq. f_equal.
    unfold converge. cbn [map2 fold_left].
    rewrite <- !merge_eq. f_equal. f_equal. f_equal. f_equal.
    rewrite <- !rotl_eq by (try assumption; reflexivity).
    assert (E0 : add64 0 (rotl w1 1) = rotl w1 1).
    { unfold add64. rewrite N.add_0_l, M64_eq. apply N.mod_small, rotl_w64, W1. }
    rewrite E0. reflexivity.
  - apply Nat.leb_gt in E. rewrite groups_short by exact E. cbn [fst snd].
    rewrite add_u64_r.
    rewrite finish_eq by (try assumption; apply add_w64). reflexivity.
Qed.

(** the function never reads outside its input, whatever the bytes and the seed are *)
Theorem xxh64_never_faults bs seed : bytes bs -> w64 seed -> xxh64_checked bs seed <> None.
Proof. intros Hb Hs. rewrite xxh64_checked_eq_spec by assumption. discriminate. Qed.

Theorem xxh64_eq_spec bs seed : bytes bs -> w64 seed -> Xxh64Model.xxh64 bs seed = Xxh64Spec.xxh64 bs seed.
Proof. intros Hb Hs. unfold Xxh64Model.xxh64. rewrite xxh64_checked_eq_spec by assumption. reflexivity. Qed.

(** the result is a 64-bit word, for any input whatsoever *)
Lemma shiftr_w64 x k : w64 x -> w64 (N.shiftr x k).
Proof.
  intros Hx. apply lt_pow2_of_bits; intros m Hm. rewrite N.shiftr_spec by apply N.le_0_l.
  apply (testbit_high_lt x 64); [exact Hx|lia].
Qed.

Lemma final_mix_w64 h : w64 (final_mix h).
Proof. unfold final_mix. apply lxor_w64; [apply mul_w64|apply shiftr_w64, mul_w64]. Qed.

Lemma xxh64_w64 bs seed : w64 (Xxh64Model.xxh64 bs seed).
Proof.
  unfold Xxh64Model.xxh64, xxh64_checked.
  destruct (if (32 <=? length bs)%nat then _ else _) as [[h p]|]; [|reflexivity].
  destruct (tail8 _ p) as [h1 p1]. destruct (tail4 h1 p1) as [h2 p2]. apply final_mix_w64.
Qed.

(* ------------------------------------------------------------------ non-vacuity *)

Example xxh64_empty : Xxh64Model.xxh64 [] 0 = 0xEF46DB3751D8E999.
Proof. vm_compute. reflexivity. Qed.

Example xxh64_hyps_satisfiable :
  let bs := map N.of_nat (seq 0 77) in
  bytes bs /\ w64 (2^64 - 1) /\ xxh64_checked bs (2^64 - 1) = Some (Xxh64Spec.xxh64 bs (2^64 - 1)).
Proof.
  split; [|split].
  - apply Forall_forall. intros x Hx. apply in_map_iff in Hx. destruct Hx as (k & <- & Hk).
    apply in_seq in Hk. unfold byte. lia.
  - reflexivity.
  - vm_compute. reflexivity.
Qed.
