(** XXH64, the specification.
    Written from the xxHash specification (doc/xxhash_spec.md, "XXH64 Algorithm Description"):
      step 1  four accumulators initialised from the seed
      step 2  the input is consumed in stripes of 32 bytes = 4 lanes of 8 bytes, lane i goes to accumulator i
      step 3  convergence of the accumulators (only when the input has at least 32 bytes)
      step 4  the total input length is added
      step 5  the remaining input (< 32 bytes): 8-byte lanes, then one 4-byte lane, then single bytes
      step 6  avalanche
    All words are unsigned 64-bit integers: every sum and product is written with an explicit
    [mod 2^64]; shifts are written as division and multiplication by powers of two; multi-byte lanes
    are little-endian numbers.  Imports no model. *)
From Coq Require Import NArith Arith List Bool.
Import ListNotations.
Local Open Scope N_scope.

Definition P1 : N := 0x9E3779B185EBCA87.
Definition P2 : N := 0xC2B2AE3D27D4EB4F.
Definition P3 : N := 0x165667B19E3779F9.
Definition P4 : N := 0x85EBCA77C2B2AE63.
Definition P5 : N := 0x27D4EB2F165667C5.

Definition M64 : N := 2^64.

Definition add64 (a b : N) : N := (a + b) mod M64.
Definition sub64 (a b : N) : N := (a + (M64 - b mod M64)) mod M64.
Definition mul64 (a b : N) : N := (a * b) mod M64.

(** rotate a 64-bit word left by r (0 < r < 64): the high r bits come back in at the bottom *)
Definition rotl64 (x r : N) : N := (x * 2^r) mod M64 + x / 2^(64 - r).

(** value of a little-endian byte string *)
Fixpoint le (bs : list N) : N :=
  match bs with [] => 0 | b :: t => b + 256 * le t end.

(** The input seen as [length bs / k] consecutive groups of k bytes, and the bytes left over. *)
Fixpoint split_n (n k : nat) (bs : list N) : list (list N) * list N :=
  match n with
  | O => ([], bs)
  | S n' => let (g, r) := split_n n' k (skipn k bs) in (firstn k bs :: g, r)
  end.

Definition groups (k : nat) (bs : list N) : list (list N) * list N :=
  split_n (length bs / k) k bs.

(** apply a binary function lane-wise *)
Fixpoint map2 {A B C} (f : A -> B -> C) (xs : list A) (ys : list B) : list C :=
  match xs, ys with x :: xs', y :: ys' => f x y :: map2 f xs' ys' | _, _ => [] end.

(** step 1 *)
Definition init_accs (seed : N) : list N :=
  [add64 (add64 seed P1) P2; add64 seed P2; seed mod M64; sub64 seed P1].

(** step 2: round(acc, lane) = ((acc + lane * P2) <<< 31) * P1 *)
Definition round (acc lane : N) : N := mul64 (rotl64 (add64 acc (mul64 lane P2)) 31) P1.

Definition stripe_round (accs : list N) (stripe : list N) : list N :=
  map2 round accs (map le (fst (groups 8 stripe))).

(** step 3 *)
Definition merge_acc (acc accn : N) : N := add64 (mul64 (N.lxor acc (round 0 accn)) P1) P4.

Definition converge (accs : list N) : N :=
  let acc := fold_left add64 (map2 rotl64 accs [1; 7; 12; 18]) 0 in
  fold_left merge_acc accs acc.

(** step 5 *)
Definition lane8 (acc : N) (lane : list N) : N :=
  add64 (mul64 (rotl64 (N.lxor acc (round 0 (le lane))) 27) P1) P4.

Definition lane4 (acc : N) (lane : list N) : N :=
  add64 (mul64 (rotl64 (N.lxor acc (mul64 (le lane) P1)) 23) P2) P3.

Definition lane1 (acc : N) (b : N) : N :=
  mul64 (rotl64 (N.lxor acc (mul64 b P5)) 11) P1.

(** step 6 *)
Definition avalanche (acc : N) : N :=
  let acc := N.lxor acc (acc / 2^33) in
  let acc := mul64 acc P2 in
  let acc := N.lxor acc (acc / 2^29) in
  let acc := mul64 acc P3 in
  N.lxor acc (acc / 2^32).

Definition xxh64 (bs : list N) (seed : N) : N :=
  let (stripes, rest) := groups 32 bs in
  let acc := match stripes with
             | [] => add64 seed P5                                   (* fewer than 32 bytes: steps 2, 3 skipped *)
             | _ => converge (fold_left stripe_round stripes (init_accs seed))
             end in
  let acc := add64 acc (N.of_nat (length bs)) in
  let (lanes, rest) := groups 8 rest in
  let acc := fold_left lane8 lanes acc in
  let (acc, rest) := if (4 <=? length rest)%nat
                     then (lane4 acc (firstn 4 rest), skipn 4 rest) else (acc, rest) in
  avalanche (fold_left lane1 rest acc).
