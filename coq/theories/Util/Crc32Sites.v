(** C14, code tie of the checksum decision: every site of src/reader/page_reader.c that verifies a page body
    (Gen/CrcSites_gen.v, regenerated from the working tree on every run by tools/gen.d/crcsites.py: the condition of
    the `if` around each call of carquet_crc32, as a function of page_header.has_crc, options.verify_checksums and
    the stored crc field) decides exactly like the model's page_crc_ok: verify iff both flags are on, whatever the
    stored value (a negative int32 - half of all checksums - or 0 included).  The translator itself checks the
    remaining shape (length = compressed_page_size, stored value taken as uint32, reject iff different). *)
From Coq Require Import ZArith NArith List Bool.
From Carquet Require Import Gen.CrcSites_gen Util.Crc32Spec Util.Crc32Model Util.Crc32Proofs.
Import ListNotations.

Definition site_ok (g : bool -> bool -> Z -> bool) : Prop :=
  forall (has_crc verify : bool) (stored : Z), g has_crc verify stored = verify && has_crc.

Lemma crc_sites_all_ok : Forall site_ok CrcSite_guards.
Proof.
  unfold CrcSite_guards.
  repeat (apply Forall_cons; [intros [|] [|] stored; reflexivity|]).
  apply Forall_nil.
Qed.

Lemma crc_sites_nonempty : CrcSite_guards <> [] /\ length CrcSite_guards = CrcSite_count.
Proof. split; [discriminate|reflexivity]. Qed.

(** the decision taken at a site, with the site's own guard: accept iff the guard is off or the CRCs agree *)
Definition site_accepts (g : bool -> bool -> Z -> bool) (has_crc verify : bool) (stored_field : Z)
                        (stored_u32 : N) (body : list N) : bool :=
  if g has_crc verify stored_field then N.eqb (crc32 body) stored_u32 else true.

Lemma crc_sites_decide_like_model g : In g CrcSite_guards ->
  forall has_crc verify stored_field stored_u32 body,
    site_accepts g has_crc verify stored_field stored_u32 body = page_crc_ok verify has_crc stored_u32 body.
Proof.
  intros Hin has_crc verify sf su body.
  pose proof (proj1 (Forall_forall site_ok CrcSite_guards) crc_sites_all_ok g Hin) as H.
  unfold site_accepts, page_crc_ok. rewrite (H has_crc verify sf). reflexivity.
Qed.

(** hence, at every site of the current source: damage inside a 32-bit window is rejected when verification is on
    and the header carries the checksum of the written body - whatever that checksum's sign as an int32 ... *)
Lemma crc_sites_reject_damage g : In g CrcSite_guards ->
  forall stored_field body body', bytes body -> bytes body' ->
    differs_in_burst 32 (bits_of_bytes body) (bits_of_bytes body') ->
    site_accepts g true true stored_field (crc32 body) body' = false.
Proof.
  intros Hin sf body body' Hb Hb' Hd.
  rewrite (crc_sites_decide_like_model g Hin). apply page_damage_rejected; assumption.
Qed.

(** ... and an undamaged page is accepted at every site, whatever the options *)
Lemma crc_sites_accept_undamaged g : In g CrcSite_guards ->
  forall has_crc verify stored_field body, site_accepts g has_crc verify stored_field (crc32 body) body = true.
Proof.
  intros Hin h v sf body. rewrite (crc_sites_decide_like_model g Hin). apply page_undamaged_ok.
Qed.

(** Writer side, two cooperating sites of src/writer/page_writer.c (Gen/CrcSites_gen.v): the page header stores a crc
    field only when the checksum of the body has been computed - whatever the size of the page (a page without value
    bytes, e.g. all nulls, still has a body).  Otherwise the field would hold the initial 0 and an undamaged file would
    report a checksum error. *)
Lemma crc_writer_stores_only_computed : forall (write_crc : bool) (size : Z),
  CrcWriter_stores write_crc size = true -> CrcWriter_computes write_crc size = true.
Proof.
  intros [|] size H; unfold CrcWriter_stores, CrcWriter_computes in *; cbn in *;
    first [exact H | reflexivity | discriminate H].
Qed.

(** non-vacuity: with checksums enabled (the default of the writer) the field is stored *)
Lemma crc_writer_stores_by_default : forall size, CrcWriter_stores true size = true.
Proof. intros size. reflexivity. Qed.
