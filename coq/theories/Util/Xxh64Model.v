(** Model of src/util/xxhash.c (carquet_xxhash64) as the C code is written: uint64_t arithmetic with
    explicit wrap, shifts and ors, the pointer walk [p .. end) as consumption of a byte list, the same
    branch structure (length >= 32 / do-while over stripes / while 8 / if 4 / while 1 / final mix).
    The five primes come from the repository's source through Gen/Consts_gen.v.
    No proofs here. *)
From Coq Require Import NArith Arith List Bool.
From Carquet Require Import Gen.Consts_gen.
Import ListNotations.
Local Open Scope N_scope.

Definition PRIME1 : N := Xxh_XXH_PRIME64_1.
Definition PRIME2 : N := Xxh_XXH_PRIME64_2.
Definition PRIME3 : N := Xxh_XXH_PRIME64_3.
Definition PRIME4 : N := Xxh_XXH_PRIME64_4.
Definition PRIME5 : N := Xxh_XXH_PRIME64_5.

Definition two64 : N := 18446744073709551616.
Definition u64 (x : N) : N := x mod two64.                 (* truncation of a result to uint64_t *)
Definition add (a b : N) : N := u64 (a + b).
Definition sub (a b : N) : N := u64 (a + two64 - b).       (* a - b on uint64_t, b < 2^64 *)
Definition mul (a b : N) : N := u64 (a * b).

(** xxh64_rotl: (x << r) | (x >> (64 - r)) *)
Definition rotl (x r : N) : N := N.lor (u64 (N.shiftl x r)) (N.shiftr x (64 - r)).

(** xxh64_round *)
Definition round (acc input : N) : N :=
  let acc := add acc (mul input PRIME2) in
  let acc := rotl acc 31 in
  mul acc PRIME1.

(** xxh64_merge_round *)
Definition merge_round (acc val : N) : N :=
  let val := round 0 val in
  let acc := N.lxor acc val in
  add (mul acc PRIME1) PRIME4.

(** read64_le / read32_le: bytes or-ed together after shifting *)
Definition read64_le (p0 p1 p2 p3 p4 p5 p6 p7 : N) : N :=
  N.lor (N.lor (N.lor (N.lor (N.lor (N.lor (N.lor p0 (N.shiftl p1 8)) (N.shiftl p2 16)) (N.shiftl p3 24))
        (N.shiftl p4 32)) (N.shiftl p5 40)) (N.shiftl p6 48)) (N.shiftl p7 56).

Definition read32_le (p0 p1 p2 p3 : N) : N :=
  N.lor (N.lor (N.lor p0 (N.shiftl p1 8)) (N.shiftl p2 16)) (N.shiftl p3 24).

(** The do { four rounds } while (p <= limit) loop.  [p] is the part of the buffer from the read
    pointer to [end]; the test p <= limit = end - 32 is "at least 32 bytes remain".  The body runs
    before the test: entering it with fewer than 32 bytes would read beyond [end], which is [None]. *)
Fixpoint stripe_loop (v1 v2 v3 v4 : N) (p : list N) : option (N * N * N * N * list N) :=
  match p with
  | a0 :: a1 :: a2 :: a3 :: a4 :: a5 :: a6 :: a7 ::
    b0 :: b1 :: b2 :: b3 :: b4 :: b5 :: b6 :: b7 ::
    c0 :: c1 :: c2 :: c3 :: c4 :: c5 :: c6 :: c7 ::
    d0 :: d1 :: d2 :: d3 :: d4 :: d5 :: d6 :: d7 :: rest =>
      let v1 := round v1 (read64_le a0 a1 a2 a3 a4 a5 a6 a7) in
      let v2 := round v2 (read64_le b0 b1 b2 b3 b4 b5 b6 b7) in
      let v3 := round v3 (read64_le c0 c1 c2 c3 c4 c5 c6 c7) in
      let v4 := round v4 (read64_le d0 d1 d2 d3 d4 d5 d6 d7) in
      if (32 <=? length rest)%nat then stripe_loop v1 v2 v3 v4 rest
      else Some (v1, v2, v3, v4, rest)
  | _ => None
  end.

(** while (p + 8 <= end) { ... p += 8; }   returns the hash and the unread rest *)
Fixpoint tail8 (h : N) (p : list N) : N * list N :=
  match p with
  | a0 :: a1 :: a2 :: a3 :: a4 :: a5 :: a6 :: a7 :: rest =>
      let k1 := round 0 (read64_le a0 a1 a2 a3 a4 a5 a6 a7) in
      let h := N.lxor h k1 in
      let h := add (mul (rotl h 27) PRIME1) PRIME4 in
      tail8 h rest
  | _ => (h, p)
  end.

(** if (p + 4 <= end) { ... p += 4; } *)
Definition tail4 (h : N) (p : list N) : N * list N :=
  match p with
  | a0 :: a1 :: a2 :: a3 :: rest =>
      let h := N.lxor h (mul (read32_le a0 a1 a2 a3) PRIME1) in
      let h := add (mul (rotl h 23) PRIME2) PRIME3 in
      (h, rest)
  | _ => (h, p)
  end.

(** while (p < end) { ... p++; } *)
Fixpoint tail1 (h : N) (p : list N) : N :=
  match p with
  | b :: rest =>
      let h := N.lxor h (mul b PRIME5) in
      let h := mul (rotl h 11) PRIME1 in
      tail1 h rest
  | [] => h
  end.

(** the final mix *)
Definition final_mix (h : N) : N :=
  let h := N.lxor h (N.shiftr h 33) in
  let h := mul h PRIME2 in
  let h := N.lxor h (N.shiftr h 29) in
  let h := mul h PRIME3 in
  N.lxor h (N.shiftr h 32).

(** carquet_xxhash64(data, length, seed); [None]: a read outside [data, data + length) *)
Definition xxh64_checked (data : list N) (seed : N) : option N :=
  let length_ := N.of_nat (length data) in
  let start :=
    if (32 <=? length data)%nat then
      let v1 := add (add seed PRIME1) PRIME2 in
      let v2 := add seed PRIME2 in
      let v3 := add seed 0 in
      let v4 := sub seed PRIME1 in
      match stripe_loop v1 v2 v3 v4 data with
      | None => None
      | Some (v1, v2, v3, v4, p) =>
          let h := add (add (add (rotl v1 1) (rotl v2 7)) (rotl v3 12)) (rotl v4 18) in
          let h := merge_round h v1 in
          let h := merge_round h v2 in
          let h := merge_round h v3 in
          let h := merge_round h v4 in
          Some (h, p)
      end
    else Some (add seed PRIME5, data) in
  match start with
  | None => None
  | Some (h, p) =>
      let h := add h (u64 length_) in
      let (h, p) := tail8 h p in
      let (h, p) := tail4 h p in
      Some (final_mix (tail1 h p))
  end.

(** the value returned to callers (the [None] branch is dead: Xxh64Proofs.xxh64_never_faults) *)
Definition xxh64 (data : list N) (seed : N) : N :=
  match xxh64_checked data seed with Some h => h | None => 0 end.
