(** IEEE 802.3 CRC-32, reflected bit-serial form: the specification.
    Written from the standard (polynomial 0x04C11DB7 reflected = 0xEDB88320, register preset to
    all ones, input bits LSB first per byte, final complement).  Imports no model. *)
From Coq Require Import NArith List Bool.
Import ListNotations.
Local Open Scope N_scope.

Definition poly : N := 0xEDB88320.
Definition ones32 : N := 0xFFFFFFFF.

(** One shift of the register with a zero message bit. *)
Definition step0 (r : N) : N :=
  if N.testbit r 0 then N.lxor (N.shiftr r 1) poly else N.shiftr r 1.

(** One message bit enters at the low end of the register. *)
Definition feed_bit (r : N) (b : bool) : N := step0 (N.lxor r (N.b2n b)).

Definition feed_bits (r : N) (bs : list bool) : N := fold_left feed_bit bs r.

(** A byte contributes its bits least-significant first. *)
Definition bits_of_byte (x : N) : list bool :=
  map (N.testbit x) [0;1;2;3;4;5;6;7].

Definition bits_of_bytes (bs : list N) : list bool := concat (map bits_of_byte bs).

Definition crc_reg (bs : list N) : N := feed_bits ones32 (bits_of_bytes bs).

Definition crc (bs : list N) : N := N.lxor (crc_reg bs) ones32.

(** Messages m and m' (as bit strings) differ exactly inside a burst: a window of at most [k] bits
    that starts and ends with a flipped bit. *)
Definition differs_in_burst (k : nat) (m m' : list bool) : Prop :=
  exists p x x' s, m = p ++ x ++ s /\ m' = p ++ x' ++ s /\
    length x = length x' /\ (length x <= k)%nat /\ x <> x'.
