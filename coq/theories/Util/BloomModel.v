(** Model of src/metadata/bloom_filter.c as the C code is written.
    The filter's bit array is the byte array [data] (as in the struct); the block functions access it
    through 32-bit little-endian loads and stores ([uint32_t* block], x86 target) that are checked
    against the array bounds ([Fault OobRead] / [Fault OobWrite]).  size_t / uint64_t / uint32_t
    arithmetic carries its wrap explicitly.  SALT and the block size come from the repository's
    source through Gen/Consts_gen.v, the status codes through Gen/Enums_gen.v.
    Not modelled: NULL filter arguments (the functions return early), allocation failure
    (malloc/calloc are assumed to succeed), create_with_ndv (libm).  No proofs here. *)
From Coq Require Import NArith ZArith Arith List Bool.
From Carquet Require Import Base.Res Gen.Consts_gen Gen.Enums_gen Util.Xxh64Model.
Import ListNotations.
Local Open Scope N_scope.

Definition BLOCK_SIZE : N := Bloom_BLOOM_FILTER_BLOCK_SIZE.
Definition SALT : list N := Bloom_SALT.
Definition SIZE_MAX : N := 18446744073709551615.
Definition usz (x : N) : N := x mod 18446744073709551616.     (* size_t / uint64_t results *)
Definition u32 (x : N) : N := x mod 4294967296.               (* uint32_t results *)

Record filter : Type := mkfilter { data : list N; num_bytes : N; num_blocks : N }.

(* ------------------------------------------------------------------ memory access *)

(** *(uint32_t* )(d + off) *)
Fixpoint rd32 (d : list N) (off : nat) : res N :=
  match off with
  | O => match d with
         | a :: b :: c :: e :: _ => Ok (a + 256 * (b + 256 * (c + 256 * e)))
         | _ => Fault OobRead
         end
  | S o => match d with [] => Fault OobRead | _ :: t => rd32 t o end
  end.

(** *(uint32_t* )(d + off) = v *)
Fixpoint wr32 (d : list N) (off : nat) (v : N) : res (list N) :=
  match off with
  | O => match d with
         | _ :: _ :: _ :: _ :: r =>
             Ok (v mod 256 :: (v / 256) mod 256 :: (v / 65536) mod 256 :: (v / 16777216) mod 256 :: r)
         | _ => Fault OobWrite
         end
  | S o => match d with [] => Fault OobWrite | x :: t => rmap (cons x) (wr32 t o v) end
  end.

(* ------------------------------------------------------------------ core operations *)

(** bloom_filter_block_index: (size_t)(((hash >> 32) * (uint64_t)num_blocks) >> 32) *)
Definition block_index (hash nblocks : N) : N := N.shiftr (usz (N.shiftr hash 32 * nblocks)) 32.

(** 1U << bit_pos *)
Definition bit32 (bit_pos : N) : res N :=
  if 32 <=? bit_pos then Fault ShiftTooWide else Ok (u32 (N.shiftl 1 bit_pos)).

(** bloom_filter_block_insert: for (i = 0; i < 8; i++) block[i] |= 1U << ((SALT[i] * key) >> 27);
    [off] is the byte offset of block[i] in data *)
Fixpoint block_insert (salts : list N) (d : list N) (off : nat) (key : N) : res (list N) :=
  match salts with
  | [] => Ok d
  | s :: ss =>
      let mask := u32 (s * key) in
      let bit_pos := N.shiftr mask 27 in
      match rd32 d off with
      | Ok w => match bit32 bit_pos with
                | Ok b => match wr32 d off (N.lor w b) with
                          | Ok d' => block_insert ss d' (off + 4) key
                          | Err c => Err c | Fault f => Fault f
                          end
                | Err c => Err c | Fault f => Fault f
                end
      | Err c => Err c | Fault f => Fault f
      end
  end.

(** bloom_filter_block_check *)
Fixpoint block_check (salts : list N) (d : list N) (off : nat) (key : N) : res bool :=
  match salts with
  | [] => Ok true
  | s :: ss =>
      let mask := u32 (s * key) in
      let bit_pos := N.shiftr mask 27 in
      match rd32 d off with
      | Ok w => match bit32 bit_pos with
                | Ok b => if N.land w b =? 0 then Ok false else block_check ss d (off + 4) key
                | Err c => Err c | Fault f => Fault f
                end
      | Err c => Err c | Fault f => Fault f
      end
  end.

(* ------------------------------------------------------------------ creation *)

(** carquet_bloom_filter_create; [None] is the NULL result *)
Definition create (n : N) : option filter :=
  if SIZE_MAX - (BLOCK_SIZE - 1) <? n then None else
  let n := if n <? BLOCK_SIZE then BLOCK_SIZE else n in
  let n := usz (usz (n + BLOCK_SIZE - 1) / BLOCK_SIZE * BLOCK_SIZE) in
  Some {| data := repeat 0 (N.to_nat n); num_bytes := n; num_blocks := n / BLOCK_SIZE |}.

(** carquet_bloom_filter_from_data (data non-NULL) *)
Definition from_data (bs : list N) : option filter :=
  let size := N.of_nat (length bs) in
  if size <? BLOCK_SIZE then None
  else if negb (size mod BLOCK_SIZE =? 0) then None
  else Some {| data := bs; num_bytes := size; num_blocks := size / BLOCK_SIZE |}.

(* ------------------------------------------------------------------ insert / check *)

Definition set_data (f : filter) (d : list N) : filter :=
  {| data := d; num_bytes := num_bytes f; num_blocks := num_blocks f |}.

(** carquet_bloom_filter_insert_hash *)
Definition insert_hash (f : filter) (hash : N) : res filter :=
  let block_idx := block_index hash (num_blocks f) in
  let off := N.to_nat (usz (block_idx * BLOCK_SIZE)) in
  match block_insert SALT (data f) off (u32 hash) with
  | Ok d => Ok (set_data f d)
  | Err c => Err c | Fault x => Fault x
  end.

(** carquet_bloom_filter_check_hash *)
Definition check_hash (f : filter) (hash : N) : res bool :=
  let block_idx := block_index hash (num_blocks f) in
  let off := N.to_nat (usz (block_idx * BLOCK_SIZE)) in
  block_check SALT (data f) off (u32 hash).

(** the object representation of the fixed-width arguments (little-endian target) *)
Fixpoint mem_bytes (k : nat) (x : N) : list N :=
  match k with O => [] | S k' => N.land x 255 :: mem_bytes k' (N.shiftr x 8) end.
Definition mem_i32 (v : Z) : list N := mem_bytes 4 (Z.to_N (v mod 4294967296)).
Definition mem_i64 (v : Z) : list N := mem_bytes 8 (Z.to_N (v mod 18446744073709551616)).
Definition mem_float (bits : N) : list N := mem_bytes 4 bits.
Definition mem_double (bits : N) : list N := mem_bytes 8 bits.

(** carquet_xxhash64(&value, sizeof(value), 0) followed by the hash operation *)
Definition with_hash {A} (bs : list N) (k : N -> res A) : res A :=
  match xxh64_checked bs 0 with Some h => k h | None => Fault OobRead end.

Definition insert_i32 (f : filter) (v : Z) : res filter := with_hash (mem_i32 v) (insert_hash f).
Definition insert_i64 (f : filter) (v : Z) : res filter := with_hash (mem_i64 v) (insert_hash f).
Definition insert_float (f : filter) (bits : N) : res filter := with_hash (mem_float bits) (insert_hash f).
Definition insert_double (f : filter) (bits : N) : res filter := with_hash (mem_double bits) (insert_hash f).
Definition insert_bytes (f : filter) (bs : list N) : res filter := with_hash bs (insert_hash f).

Definition check_i32 (f : filter) (v : Z) : res bool := with_hash (mem_i32 v) (check_hash f).
Definition check_i64 (f : filter) (v : Z) : res bool := with_hash (mem_i64 v) (check_hash f).
Definition check_float (f : filter) (bits : N) : res bool := with_hash (mem_float bits) (check_hash f).
Definition check_double (f : filter) (bits : N) : res bool := with_hash (mem_double bits) (check_hash f).
Definition check_bytes (f : filter) (bs : list N) : res bool := with_hash bs (check_hash f).

(* ------------------------------------------------------------------ serialisation *)

(** carquet_bloom_filter_write: memcpy(output, filter->data, filter->num_bytes) *)
Definition write (f : filter) (output_capacity : N) : res (list N) :=
  if output_capacity <? num_bytes f then Err E_CARQUET_ERROR_ENCODE
  else if N.of_nat (length (data f)) <? num_bytes f then Fault OobRead
  else Ok (firstn (N.to_nat (num_bytes f)) (data f)).

(** carquet_bloom_filter_read *)
Definition read (bs : list N) : res filter :=
  match from_data bs with Some f => Ok f | None => Err E_CARQUET_ERROR_OUT_OF_MEMORY end.

(* ------------------------------------------------------------------ merge *)

(** for (i = 0; i < n; i++) dest[i] |= src[i]; *)
Fixpoint or_loop (n : nat) (d s : list N) : res (list N) :=
  match n with
  | O => Ok d
  | S n' => match d, s with
            | x :: d', y :: s' => rmap (cons (N.lor x y)) (or_loop n' d' s')
            | [], _ => Fault OobWrite
            | _, [] => Fault OobRead
            end
  end.

(** carquet_bloom_filter_merge (both arguments non-NULL) *)
Definition merge (dest src : filter) : res filter :=
  if negb (num_bytes dest =? num_bytes src) then Err E_CARQUET_ERROR_INVALID_ARGUMENT
  else match or_loop (N.to_nat (num_bytes dest)) (data dest) (data src) with
       | Ok d => Ok (set_data dest d)
       | Err c => Err c | Fault x => Fault x
       end.
