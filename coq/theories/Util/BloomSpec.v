(** Parquet split-block Bloom filter (SBBF), the specification.
    Written from the Parquet format text (parquet-format, BloomFilter.md):
      - a filter is an array of blocks; a block is 8 words of 32 bits (256 bits, 32 bytes);
      - mask(x): for i in 0..7, y = x * salt[i] truncated to 32 bits, bit (y >> 27) of word i is set;
      - block_insert ors the mask into the block; block_check tests that every mask bit is set;
      - filter_insert(h) / filter_check(h), h an unsigned 64-bit hash:
            block number  i = ((h >> 32) * number_of_blocks) >> 32,  argument of mask = low 32 bits of h;
      - the hash of a value is XXH64 with seed 0 of its plain encoding (little-endian fixed-width
        numbers; the bytes of a byte array without a length prefix);
      - the bit set is stored block after block, each word in little-endian byte order;
      - the number of bytes is a multiple of 32 (at least one block).
    Shifts are written as divisions, truncation as [mod].  Imports no model. *)
From Coq Require Import NArith ZArith Arith List Bool.
From Carquet Require Import Util.Xxh64Spec.
Import ListNotations.
Local Open Scope N_scope.

Definition salt : list N :=
  [0x47b6137b; 0x44974d91; 0x8824ad5b; 0xa2b7289d; 0x705495c7; 0x2df1424b; 0x9efc4947; 0x5c6bfb31].

(** the 8 single-bit words selected by the 32-bit key x *)
Definition mask (x : N) : list N := map (fun s => 2 ^ (((x * s) mod 2^32) / 2^27)) salt.

Definition block : Type := list N.         (* 8 words, each below 2^32 *)
Definition sbbf : Type := list block.

Definition empty_block : block := repeat 0 8%nat.
Definition empty (nblocks : nat) : sbbf := repeat empty_block nblocks.

Definition block_insert (b : block) (x : N) : block := map2 N.lor b (mask x).

(** every bit of the mask word is present in the block word *)
Definition word_has (w m : N) : bool := N.land w m =? m.
Definition block_check (b : block) (x : N) : bool :=
  forallb (fun wm => word_has (fst wm) (snd wm)) (combine b (mask x)).

Definition block_index (h nblocks : N) : N := ((h / 2^32) * nblocks) / 2^32.
Definition key (h : N) : N := h mod 2^32.

Fixpoint update {A} (l : list A) (i : nat) (f : A -> A) : list A :=
  match l, i with
  | [], _ => []
  | x :: t, O => f x :: t
  | x :: t, S i' => x :: update t i' f
  end.

(** insertion / lookup in a given block (the block number is a parameter) *)
Definition insert_at (f : sbbf) (i : N) (x : N) : sbbf :=
  update f (N.to_nat i) (fun b => block_insert b x).
Definition check_at (f : sbbf) (i : N) (x : N) : bool :=
  match nth_error f (N.to_nat i) with Some b => block_check b x | None => false end.

Definition nblocks (f : sbbf) : N := N.of_nat (length f).

Definition insert_hash (f : sbbf) (h : N) : sbbf := insert_at f (block_index h (nblocks f)) (key h).
Definition check_hash (f : sbbf) (h : N) : bool := check_at f (block_index h (nblocks f)) (key h).

(** values of the physical types that have a Bloom filter, and their plain encoding *)
Inductive value : Type :=
| I32 (z : Z)            (* -2^31 <= z < 2^31 *)
| I64 (z : Z)            (* -2^63 <= z < 2^63 *)
| F32 (bits : N)         (* IEEE-754 binary32 bit pattern *)
| F64 (bits : N)         (* IEEE-754 binary64 bit pattern *)
| Bytes (bs : list N).   (* BYTE_ARRAY *)

Fixpoint le_bytes (k : nat) (x : N) : list N :=
  match k with O => [] | S k' => x mod 256 :: le_bytes k' (x / 256) end.

Definition twos (bits : N) (z : Z) : N := Z.to_N (z mod 2 ^ Z.of_N bits).

Definition plain (v : value) : list N :=
  match v with
  | I32 z => le_bytes 4 (twos 32 z)
  | I64 z => le_bytes 8 (twos 64 z)
  | F32 b => le_bytes 4 b
  | F64 b => le_bytes 8 b
  | Bytes bs => bs
  end.

Definition hash_value (v : value) : N := xxh64 (plain v) 0.

Definition insert (f : sbbf) (v : value) : sbbf := insert_hash f (hash_value v).
Definition check (f : sbbf) (v : value) : bool := check_hash f (hash_value v).

(** the union of two filters of the same size: word-wise or *)
Definition union (a b : sbbf) : sbbf := map2 (map2 N.lor) a b.

(** the stored bit set *)
Definition to_bytes (f : sbbf) : list N := flat_map (le_bytes 4) (concat f).

(** number of blocks of a filter asked to hold n bytes: whole 32-byte blocks, at least one *)
Definition blocks_for (n : N) : N := N.max 1 ((n + 31) / 32).
