(** Proofs for C14: the slicing-by-8 model computes the bit-serial IEEE CRC-32; incremental
    updates compose; every burst of at most 32 bits changes the checksum. *)
From Coq Require Import NArith Arith List Bool Lia.
From Carquet Require Import Base.Bits Util.Crc32Spec Util.Crc32Model.
Import ListNotations.
Local Open Scope N_scope.

Definition byte (x : N) : Prop := x < 256.
Definition bytes (l : list N) : Prop := Forall byte l.

(* ------------------------------------------------------------------ the register step *)

Lemma POLY_is_poly : POLY = poly.
Proof. reflexivity. Qed.

Lemma tstep_step0 r : tstep r = step0 r.
Proof. reflexivity. Qed.

Lemma step0_lxor a b : step0 (N.lxor a b) = N.lxor (step0 a) (step0 b).
Proof.
  unfold step0. rewrite N.lxor_spec.
  destruct (N.testbit a 0), (N.testbit b 0); cbn [xorb]; rewrite N.shiftr_lxor;
    apply N.bits_inj_iff; intro n; rewrite ?N.lxor_spec;
    destruct (N.testbit (N.shiftr a 1) n), (N.testbit (N.shiftr b 1) n), (N.testbit poly n); reflexivity.
Qed.

Lemma step0_0 : step0 0 = 0.
Proof. reflexivity. Qed.

Lemma step0_double v : step0 (2 * v) = v.
Proof.
  unfold step0. rewrite N.testbit_even_0. rewrite <- N.div2_spec. apply N.div2_double.
Qed.

Lemma step0_lt r : r < 2^32 -> step0 r < 2^32.
Proof.
  intros Hr. unfold step0.
  assert (H1 : N.shiftr r 1 < 2^32).
  { apply lt_pow2_of_bits; intros m Hm. rewrite N.shiftr_spec by apply N.le_0_l.
    apply (testbit_high_lt r 32); [exact Hr|lia]. }
  destruct (N.testbit r 0); [apply lxor_lt_pow2; [exact H1|reflexivity]|exact H1].
Qed.

(** the step is injective on registers: the top bit of the result tells whether the polynomial
    was applied, because the polynomial has bit 31 set and a shifted register has not *)
Lemma step0_inj a b : a < 2^32 -> b < 2^32 -> step0 a = step0 b -> a = b.
Proof.
  intros Ha Hb H.
  assert (Hs : forall r, r < 2^32 -> N.testbit (step0 r) 31 = N.testbit r 0).
  { intros r Hr. unfold step0. destruct (N.testbit r 0) eqn:E.
    - rewrite N.lxor_spec, N.shiftr_spec by apply N.le_0_l.
      rewrite (testbit_high_lt r 32 (31+1) Hr) by lia. reflexivity.
    - rewrite N.shiftr_spec by apply N.le_0_l. apply (testbit_high_lt r 32); [exact Hr|lia]. }
  assert (E0 : N.testbit a 0 = N.testbit b 0) by (rewrite <- (Hs a Ha), <- (Hs b Hb), H; reflexivity).
  assert (E1 : N.shiftr a 1 = N.shiftr b 1).
  { unfold step0 in H. rewrite E0 in H. destruct (N.testbit b 0); [apply (lxor_inj_r _ _ poly)|]; exact H. }
  apply N.bits_inj_iff; intro n. destruct (N.eq_dec n 0) as [->|Hn]; [exact E0|].
  replace n with (n - 1 + 1) by lia. rewrite <- !N.shiftr_spec by apply N.le_0_l. rewrite E1. reflexivity.
Qed.

(* ------------------------------------------------------------------ iterated steps *)

Fixpoint Zk (k : nat) (r : N) : N := match k with O => r | S k' => step0 (Zk k' r) end.
Notation Z8 := (Zk 8).

Lemma Zk_lxor k a b : Zk k (N.lxor a b) = N.lxor (Zk k a) (Zk k b).
Proof. induction k as [|k IH]; cbn [Zk]; [reflexivity|]. rewrite IH. apply step0_lxor. Qed.

Lemma Zk_0 k : Zk k 0 = 0.
Proof. induction k as [|k IH]; cbn [Zk]; [reflexivity|]. rewrite IH. reflexivity. Qed.

Lemma Zk_add j k r : Zk (j + k) r = Zk j (Zk k r).
Proof. induction j as [|j IH]; cbn [Zk Nat.add]; [reflexivity|]. rewrite IH. reflexivity. Qed.

Lemma Zk_lt k r : r < 2^32 -> Zk k r < 2^32.
Proof. intros Hr. induction k as [|k IH]; cbn [Zk]; [exact Hr|]. apply step0_lt, IH. Qed.

Lemma Zk_shift k v : Zk k (2 ^ N.of_nat k * v) = v.
Proof.
  revert v. induction k as [|k IH]; intro v.
  - cbn [Zk]. change (2 ^ N.of_nat 0) with 1. apply N.mul_1_l.
  - change (S k) with (1 + k)%nat. rewrite Nat.add_comm, Zk_add.
    replace (2 ^ N.of_nat (k + 1) * v) with (2 * (2 ^ N.of_nat k * v)).
    + change (Zk 1 (2 * (2 ^ N.of_nat k * v))) with (step0 (2 * (2 ^ N.of_nat k * v))). rewrite step0_double. apply IH.
    + rewrite Nat2N.inj_add, N.pow_add_r. change (2 ^ N.of_nat 1) with 2. lia.
Qed.

Lemma Z8_shift v : Z8 (256 * v) = v.
Proof. exact (Zk_shift 8 v). Qed.

(* ------------------------------------------------------------------ finite sweeps over byte values *)

Lemma in_idx256 i : i < 256 -> In i idx256.
Proof.
  intros Hi. unfold idx256. apply in_map_iff. exists (N.to_nat i). split; [apply N2Nat.id|].
  apply in_seq. lia.
Qed.

Definition sweep (P : N -> bool) : bool := forallb P idx256.

Lemma sweep_spec P : sweep P = true -> forall i, i < 256 -> P i = true.
Proof. intros H i Hi. unfold sweep in H. rewrite forallb_forall in H. apply H, in_idx256, Hi. Qed.

(** table k, entry i, is i pushed through 8(k+1) zero bits; every entry is a 32-bit word *)
Lemma tables_sweep :
  (let ts := tables in
   sweep (fun i => forallb (fun k => N.eqb (Tl ts k i) (Zk (8 * (k + 1)) i) && N.ltb (Tl ts k i) (2^32))
                           [0;1;2;3;4;5;6;7]%nat)) = true.
Proof. vm_compute. reflexivity. Qed.

Lemma T_spec k i : (k < 8)%nat -> i < 256 -> T k i = Zk (8 * (k + 1)) i /\ T k i < 2^32.
Proof.
  intros Hk Hi. pose proof (sweep_spec _ tables_sweep i Hi) as H. cbn beta in H. fold (T k i) in H.
  rewrite forallb_forall in H. specialize (H k).
  assert (Hin : In k [0;1;2;3;4;5;6;7]%nat).
  { do 8 (destruct k as [|k]; [cbn; tauto|]). lia. }
  specialize (H Hin). apply andb_true_iff in H. destruct H as [H1 H2].
  split; [apply N.eqb_eq, H1 | apply N.ltb_lt, H2].
Qed.

(** feeding the eight bits of a byte into a zero register = pushing the byte through 8 zero bits *)
Lemma byte_bits_sweep : sweep (fun x => N.eqb (feed_bits 0 (bits_of_byte x)) (Z8 x)) = true.
Proof. vm_compute. reflexivity. Qed.

(* ------------------------------------------------------------------ bytes *)

Lemma feed_bits_lin bs r : feed_bits r bs = N.lxor (Zk (length bs) r) (feed_bits 0 bs).
Proof.
  revert r. induction bs as [|b bs IH]; intro r.
  - cbn. symmetry. apply N.lxor_0_r.
  - unfold feed_bits. cbn [fold_left length]. fold (feed_bits (feed_bit r b) bs) (feed_bits (feed_bit 0 b) bs).
    rewrite (IH (feed_bit r b)), (IH (feed_bit 0 b)).
    change (S (length bs)) with (1 + length bs)%nat. rewrite Nat.add_comm, Zk_add.
    unfold feed_bit. rewrite N.lxor_0_l. change (Zk 1 r) with (step0 r).
    rewrite step0_lxor, !Zk_lxor, N.lxor_assoc. reflexivity.
Qed.

Lemma feed_bits_app r a b : feed_bits r (a ++ b) = feed_bits (feed_bits r a) b.
Proof. apply fold_left_app. Qed.

(** the specification, one byte at a time *)
Definition F (r x : N) : N := Z8 (N.lxor r x).

Lemma feed_byte_F r x : byte x -> feed_bits r (bits_of_byte x) = F r x.
Proof.
  intros Hx. rewrite feed_bits_lin. change (length (bits_of_byte x)) with 8%nat.
  pose proof (sweep_spec _ byte_bits_sweep x Hx) as H. cbn beta in H. apply N.eqb_eq in H.
  rewrite H. unfold F. symmetry. apply Zk_lxor.
Qed.

Lemma crc_reg_bytes bs r : bytes bs -> feed_bits r (bits_of_bytes bs) = fold_left F bs r.
Proof.
  intros Hb. revert r. induction Hb as [|x xs Hx Hxs IH]; intro r; [reflexivity|].
  change (bits_of_bytes (x :: xs)) with (bits_of_byte x ++ bits_of_bytes xs).
  rewrite feed_bits_app, feed_byte_F by exact Hx. apply IH.
Qed.

Lemma F_lt r x : r < 2^32 -> byte x -> F r x < 2^32.
Proof.
  intros Hr Hx. apply Zk_lt, lxor_lt_pow2; [exact Hr|]. unfold byte in Hx.
  apply N.lt_trans with 256; [exact Hx|reflexivity].
Qed.

(** pushing through a zero byte, the table way: Z8 v = T0[v & 0xFF] ^ (v >> 8) *)
Lemma split_low8 v : v = N.land v 0xFF + 256 * N.shiftr v 8.
Proof.
  change 0xFF with (N.ones 8). rewrite N.land_ones, N.shiftr_div_pow2. change (2^8) with 256.
  rewrite N.add_comm. apply N.div_mod. discriminate.
Qed.

Lemma land255_byte v : byte (N.land v 0xFF).
Proof. change 0xFF with (N.ones 8). rewrite N.land_ones. apply N.mod_lt. discriminate. Qed.

Lemma Z8_table v : Z8 v = N.lxor (T 0 (N.land v 0xFF)) (N.shiftr v 8).
Proof.
  rewrite (split_low8 v) at 1. change 256 with (2^8).
  rewrite add_shift_lxor by apply land255_byte. rewrite Zk_lxor.
  change (2^8) with 256. rewrite Z8_shift.
  destruct (T_spec 0 _ (Nat.lt_0_succ 7) (land255_byte v)) as [E _]. rewrite E. reflexivity.
Qed.

Lemma tail_step_F crc x : byte x -> tail_step crc x = F crc x.
Proof.
  intros Hx. unfold tail_step, F. rewrite Z8_table, N.shiftr_lxor.
  rewrite (shiftr_small x 8) by exact Hx. rewrite N.lxor_0_r. reflexivity.
Qed.

(** absorbing a little-endian word: Z8 (r ^ (x + 256 w)) = F r x ^ w *)
Lemma Z8_cons r x w : byte x -> Z8 (N.lxor r (x + 256 * w)) = N.lxor (F r x) w.
Proof.
  intros Hx. change 256 with (2^8). rewrite add_shift_lxor by exact Hx. change (2^8) with 256.
  rewrite <- N.lxor_assoc. rewrite Zk_lxor. rewrite Z8_shift. reflexivity.
Qed.

Lemma fold4 r a b c d : byte a -> byte b -> byte c -> byte d ->
  fold_left F [a;b;c;d] r = Zk 32 (N.lxor r (le32 a b c d)).
Proof.
  intros Ha Hb Hc Hd. unfold le32. change 32%nat with (8 + (8 + (8 + 8)))%nat.
  rewrite !Zk_add. rewrite (Z8_cons r a) by exact Ha.
  rewrite (Z8_cons (F r a) b) by exact Hb. rewrite (Z8_cons (F (F r a) b) c) by exact Hc.
  reflexivity.
Qed.

Lemma Zk8_table k v : Zk (k + 8) v = N.lxor (Zk k (T 0 (N.land v 0xFF))) (Zk k (N.shiftr v 8)).
Proof. rewrite Zk_add, Z8_table, Zk_lxor. reflexivity. Qed.

Lemma Zk_T0 k i : (k < 8)%nat -> byte i -> Zk (8 * k) (T 0 i) = T k i.
Proof.
  intros Hk Hi. destruct (T_spec 0 i) as [E0 _]; [lia|exact Hi|].
  destruct (T_spec k i Hk Hi) as [Ek _]. rewrite E0, Ek, <- Zk_add. f_equal. lia.
Qed.

(** pushing a 32-bit word through four zero bytes, the table way *)
Lemma Z32_tables v : v < 2^32 ->
  Zk 32 v = N.lxor (T 3 (N.land v 0xFF)) (N.lxor (T 2 (N.land (N.shiftr v 8) 0xFF))
            (N.lxor (T 1 (N.land (N.shiftr v 16) 0xFF)) (T 0 (N.shiftr v 24)))).
Proof.
  intros Hv.
  assert (B3 : byte (N.shiftr v 24)) by (apply (shiftr_lt_pow2 v 8 24); exact Hv).
  change 32%nat with (8 * 3 + 8)%nat. rewrite Zk8_table, Zk_T0 by (try lia; apply land255_byte).
  f_equal.
  change (8 * 3)%nat with (8 * 2 + 8)%nat. rewrite Zk8_table, Zk_T0 by (try lia; apply land255_byte).
  f_equal. rewrite N.shiftr_shiftr. change (8 + 8) with 16.
  change (8 * 2)%nat with (8 * 1 + 8)%nat. rewrite Zk8_table, Zk_T0 by (try lia; apply land255_byte).
  f_equal. rewrite N.shiftr_shiftr. change (16 + 8) with 24.
  change (8 * 1)%nat with (0 + 8)%nat. rewrite Zk8_table. cbn [Zk].
  rewrite N.shiftr_shiftr. change (24 + 8) with 32. rewrite (shiftr_small v 32 Hv), N.lxor_0_r.
  change 0xFF with (N.ones 8). rewrite (land_ones_small (N.shiftr v 24) 8 B3). reflexivity.
Qed.

(* ------------------------------------------------------------------ the main loop *)

Lemma le32_lt a b c d : byte a -> byte b -> byte c -> byte d -> le32 a b c d < 2^32.
Proof. unfold byte, le32. change (2^32) with 4294967296. lia. Qed.

Lemma T_lt k i : (k < 8)%nat -> byte i -> T k i < 2^32.
Proof. intros Hk Hi. apply (T_spec k i Hk Hi). Qed.

Lemma slice8_step r a b c d e f g h :
  r < 2^32 -> byte a -> byte b -> byte c -> byte d -> byte e -> byte f -> byte g -> byte h ->
  let one := N.lxor (le32 a b c d) r in
  let two := le32 e f g h in
  fold_left F [a;b;c;d;e;f;g;h] r =
    N.lxor (T 7 (N.land one 0xFF))
   (N.lxor (T 6 (N.land (N.shiftr one 8) 0xFF))
   (N.lxor (T 5 (N.land (N.shiftr one 16) 0xFF))
   (N.lxor (T 4 (N.shiftr one 24))
   (N.lxor (T 3 (N.land two 0xFF))
   (N.lxor (T 2 (N.land (N.shiftr two 8) 0xFF))
   (N.lxor (T 1 (N.land (N.shiftr two 16) 0xFF))
           (T 0 (N.shiftr two 24)))))))).
Proof.
  intros Hr Ha Hb Hc Hd He Hf Hg Hh one two.
  assert (H1 : one < 2^32) by (apply lxor_lt_pow2; [apply le32_lt; assumption|exact Hr]).
  assert (H2 : two < 2^32) by (apply le32_lt; assumption).
  assert (B1 : byte (N.shiftr one 24)) by (apply (shiftr_lt_pow2 one 8 24); exact H1).
  change [a;b;c;d;e;f;g;h] with ([a;b;c;d] ++ [e;f;g;h]). rewrite fold_left_app.
  rewrite (fold4 r a b c d) by assumption. rewrite N.lxor_comm. fold one.
  rewrite (fold4 (Zk 32 one) e f g h) by assumption. fold two.
  rewrite Zk_lxor, <- Zk_add.
  rewrite <- (Z32_tables two H2).
  rewrite <- !N.lxor_assoc. f_equal. rewrite !N.lxor_assoc.
  rewrite Zk_add, (Z32_tables one H1), !Zk_lxor.
  destruct (T_spec 3 (N.land one 0xFF)) as [E3 _]; [lia|apply land255_byte|].
  destruct (T_spec 2 (N.land (N.shiftr one 8) 0xFF)) as [E2 _]; [lia|apply land255_byte|].
  destruct (T_spec 1 (N.land (N.shiftr one 16) 0xFF)) as [E1 _]; [lia|apply land255_byte|].
  destruct (T_spec 0 (N.shiftr one 24)) as [E0 _]; [lia|exact B1|].
  destruct (T_spec 7 (N.land one 0xFF)) as [E7 _]; [lia|apply land255_byte|].
  destruct (T_spec 6 (N.land (N.shiftr one 8) 0xFF)) as [E6 _]; [lia|apply land255_byte|].
  destruct (T_spec 5 (N.land (N.shiftr one 16) 0xFF)) as [E5 _]; [lia|apply land255_byte|].
  destruct (T_spec 4 (N.shiftr one 24)) as [E4 _]; [lia|exact B1|].
  rewrite E3, E2, E1, E0, E7, E6, E5, E4, <- !Zk_add. reflexivity.
Qed.

Lemma tail_spec data : forall r, r < 2^32 -> bytes data ->
  fold_left tail_step data r = fold_left F data r /\ fold_left F data r < 2^32.
Proof.
  induction data as [|x xs IH]; intros r Hr Hb; [split; [reflexivity|exact Hr]|].
  inversion Hb as [|? ? Hx Hxs]; subst. cbn [fold_left]. rewrite tail_step_F by exact Hx.
  apply IH; [apply F_lt; assumption|exact Hxs].
Qed.

Lemma slice8_strong n : forall data, (length data <= n)%nat -> forall r, r < 2^32 -> bytes data ->
  slice8 r data = fold_left F data r /\ slice8 r data < 2^32.
Proof.
  induction n as [|n IH]; intros d Hlen r Hr Hb.
  - destruct d; [|cbn in Hlen; lia]. split; [reflexivity|exact Hr].
  - destruct d as [|a [|b [|c [|d0 [|e [|f [|g [|h rest]]]]]]]];
      try (cbn [slice8]; destruct (tail_spec _ r Hr Hb) as [E L]; rewrite E; split; [reflexivity|exact L]).
    unfold bytes in Hb. repeat match goal with H : Forall _ (_ :: _) |- _ => inversion H; clear H; subst end.
    cbn [slice8].
    change (a :: b :: c :: d0 :: e :: f :: g :: h :: rest) with ([a;b;c;d0;e;f;g;h] ++ rest).
    rewrite fold_left_app.
    rewrite (slice8_step r a b c d0 e f g h) by assumption. cbv zeta.
    apply IH.
    + cbn [length] in Hlen. lia.
    + pose proof (slice8_step r a b c d0 e f g h) as S. cbv zeta in S. rewrite <- S by assumption.
      destruct (tail_spec [a;b;c;d0;e;f;g;h] r Hr) as [_ L]; [repeat constructor; assumption|exact L].
    + assumption.
Qed.

Lemma slice8_spec data r : r < 2^32 -> bytes data ->
  slice8 r data = fold_left F data r /\ slice8 r data < 2^32.
Proof. intros Hr Hb. apply (slice8_strong (length data) data (Nat.le_refl _) r Hr Hb). Qed.

(* ------------------------------------------------------------------ model = specification *)

Lemma not32_ones : not32 0 = ones32.
Proof. reflexivity. Qed.

Lemma not32_invol x : not32 (not32 x) = x.
Proof. unfold not32. apply lxor_cancel_r. Qed.

Lemma ones32_lt : ones32 < 2^32.
Proof. reflexivity. Qed.

Lemma crc32_eq_spec bs : bytes bs -> crc32 bs = Crc32Spec.crc bs.
Proof.
  intros Hb. unfold crc32, crc32_update, Crc32Spec.crc, crc_reg. rewrite not32_ones.
  destruct (slice8_spec bs ones32 ones32_lt Hb) as [E _]. rewrite E.
  rewrite (crc_reg_bytes bs ones32 Hb). reflexivity.
Qed.

Lemma crc32_compose a b : bytes a -> bytes b -> crc32 (a ++ b) = crc32_update (crc32 a) b.
Proof.
  intros Ha Hb. unfold crc32, crc32_update. rewrite not32_invol, not32_ones.
  assert (Hab : bytes (a ++ b)) by (apply Forall_app; split; assumption).
  destruct (slice8_spec (a ++ b) ones32 ones32_lt Hab) as [E1 _].
  destruct (slice8_spec a ones32 ones32_lt Ha) as [E2 L2].
  destruct (slice8_spec b (slice8 ones32 a) L2 Hb) as [E3 _].
  rewrite E1, E3, E2, fold_left_app. reflexivity.
Qed.

(* ------------------------------------------------------------------ burst detection *)

Lemma b2n_lt2 b : N.b2n b < 2^1.
Proof. destruct b; reflexivity. Qed.

Lemma b2n_lt32 b : N.b2n b < 2^32.
Proof. destruct b; reflexivity. Qed.

Lemma feed_bit_lt r b : r < 2^32 -> feed_bit r b < 2^32.
Proof. intros Hr. apply step0_lt, lxor_lt_pow2; [exact Hr|apply b2n_lt32]. Qed.

Lemma feed_bits_lt bs : forall r, r < 2^32 -> feed_bits r bs < 2^32.
Proof.
  induction bs as [|b bs IH]; intros r Hr; [exact Hr|].
  change (feed_bits r (b :: bs)) with (feed_bits (feed_bit r b) bs). apply IH, feed_bit_lt, Hr.
Qed.

Lemma feed_bit_inj r r' b : r < 2^32 -> r' < 2^32 -> feed_bit r b = feed_bit r' b -> r = r'.
Proof.
  intros Hr Hr' H. unfold feed_bit in H.
  apply step0_inj in H; [|apply lxor_lt_pow2; [assumption|apply b2n_lt32] ..].
  apply (lxor_inj_r _ _ _ H).
Qed.

Lemma feed_bits_inj bs : forall r r', r < 2^32 -> r' < 2^32 -> feed_bits r bs = feed_bits r' bs -> r = r'.
Proof.
  induction bs as [|b bs IH]; intros r r' Hr Hr' H; [exact H|].
  change (feed_bits r (b :: bs)) with (feed_bits (feed_bit r b) bs) in H.
  change (feed_bits r' (b :: bs)) with (feed_bits (feed_bit r' b) bs) in H.
  apply IH in H; [|apply feed_bit_lt; assumption ..].
  apply (feed_bit_inj r r' b Hr Hr' H).
Qed.

Lemma step0_top r : r < 2^32 -> N.testbit (step0 r) 31 = N.testbit r 0.
Proof.
  intros Hr. unfold step0. destruct (N.testbit r 0) eqn:E.
  - rewrite N.lxor_spec, N.shiftr_spec by apply N.le_0_l.
    rewrite (testbit_high_lt r 32 (31+1) Hr) by lia. reflexivity.
  - rewrite N.shiftr_spec by apply N.le_0_l. apply (testbit_high_lt r 32); [exact Hr|lia].
Qed.

(** one step backwards: a register that is small after a step was small before it *)
Lemma feed_bit_back r b n : r < 2^32 -> n <= 31 -> feed_bit r b < 2^n -> r < 2^(n+1).
Proof.
  intros Hr Hn H. unfold feed_bit in H. set (t := N.lxor r (N.b2n b)) in *.
  assert (Ht : t < 2^32) by (apply lxor_lt_pow2; [exact Hr|apply b2n_lt32]).
  assert (Htop : N.testbit (step0 t) 31 = false) by (apply (testbit_high_lt _ n); [exact H|exact Hn]).
  rewrite (step0_top t Ht) in Htop.
  assert (Hs : step0 t = N.shiftr t 1) by (unfold step0; rewrite Htop; reflexivity).
  assert (Ht2 : t < 2^(n+1)).
  { apply lt_pow2_of_bits; intros m Hm. replace m with (m - 1 + 1) by lia.
    rewrite <- N.shiftr_spec by apply N.le_0_l. rewrite <- Hs.
    apply (testbit_high_lt _ n); [exact H|lia]. }
  replace r with (N.lxor t (N.b2n b)) by (unfold t; apply lxor_cancel_r).
  apply lxor_lt_pow2; [exact Ht2|].
  apply N.lt_le_trans with (2^1); [apply b2n_lt2|]. apply N.pow_le_mono_r; [discriminate|lia].
Qed.

Lemma feed_bits_back d : forall r, r < 2^32 -> (length d <= 31)%nat -> feed_bits r d = 0 ->
  r < 2^(N.of_nat (length d)).
Proof.
  induction d as [|b d IH]; intros r Hr Hl H.
  - cbn in H. subst r. reflexivity.
  - change (feed_bits r (b :: d)) with (feed_bits (feed_bit r b) d) in H. cbn [length] in Hl.
    apply IH in H; [|apply feed_bit_lt; exact Hr|lia].
    replace (N.of_nat (length (b :: d))) with (N.of_nat (length d) + 1) by (cbn [length]; lia).
    apply (feed_bit_back r b); [exact Hr|lia|exact H].
Qed.

Lemma poly_top : 2^31 <= step0 1.
Proof. vm_compute. discriminate. Qed.

(** a non-zero pattern of at most 32 bits never leaves the zero register at zero *)
Lemma burst_nonzero d : (length d <= 32)%nat -> existsb (fun b => b) d = true -> feed_bits 0 d <> 0.
Proof.
  induction d as [|b d IH]; intros Hl Hex; [discriminate Hex|].
  cbn [length] in Hl. destruct b.
  - change (feed_bits 0 (true :: d)) with (feed_bits (step0 1) d). intros H.
    apply feed_bits_back in H; [|apply step0_lt; reflexivity|lia].
    pose proof poly_top as P.
    assert (2^(N.of_nat (length d)) <= 2^31) by (apply N.pow_le_mono_r; [discriminate|lia]).
    lia.
  - change (feed_bits 0 (false :: d)) with (feed_bits 0 d). cbn [existsb orb] in Hex.
    apply IH; [lia|exact Hex].
Qed.

Fixpoint zipxor (a b : list bool) : list bool :=
  match a, b with x :: a', y :: b' => xorb x y :: zipxor a' b' | _, _ => [] end.

Lemma zipxor_length a : forall b, length a = length b -> length (zipxor a b) = length a.
Proof. induction a as [|x a IH]; intros [|y b] H; cbn in *; try lia. rewrite IH; lia. Qed.

Lemma zipxor_zero a : forall b, length a = length b -> existsb (fun b => b) (zipxor a b) = false -> a = b.
Proof.
  induction a as [|x a IH]; intros [|y b] H E; cbn in *; try lia; [reflexivity|].
  apply orb_false_iff in E. destruct E as [E1 E2]. f_equal; [destruct x, y; try reflexivity; discriminate|].
  apply IH; [lia|exact E2].
Qed.

Lemma feed_bits_xor a : forall b r r', length a = length b ->
  N.lxor (feed_bits r a) (feed_bits r' b) = feed_bits (N.lxor r r') (zipxor a b).
Proof.
  induction a as [|x a IH]; intros [|y b] r r' H; cbn [length] in H; try lia; [reflexivity|].
  change (feed_bits r (x :: a)) with (feed_bits (feed_bit r x) a).
  change (feed_bits r' (y :: b)) with (feed_bits (feed_bit r' y) b).
  rewrite IH by lia. cbn [zipxor].
  change (feed_bits (N.lxor r r') (xorb x y :: zipxor a b))
    with (feed_bits (feed_bit (N.lxor r r') (xorb x y)) (zipxor a b)).
  f_equal. unfold feed_bit. rewrite <- step0_lxor. f_equal.
  destruct x, y; cbn [xorb N.b2n]; apply N.bits_inj_iff; intro n; rewrite ?N.lxor_spec;
    destruct (N.testbit r n), (N.testbit r' n), (N.testbit 1 n); rewrite ?N.bits_0; reflexivity.
Qed.

Lemma burst_changes_register x x' r : length x = length x' -> (length x <= 32)%nat -> x <> x' ->
  feed_bits r x <> feed_bits r x'.
Proof.
  intros Hl H32 Hne Heq.
  assert (Z : N.lxor (feed_bits r x) (feed_bits r x') = 0) by (rewrite Heq; apply N.lxor_nilpotent).
  rewrite (feed_bits_xor x x' r r Hl), N.lxor_nilpotent in Z.
  destruct (existsb (fun b => b) (zipxor x x')) eqn:E.
  - apply (burst_nonzero (zipxor x x')); [rewrite zipxor_length; assumption|exact E|exact Z].
  - apply Hne, zipxor_zero; assumption.
Qed.

Lemma spec_detects_burst m m' : differs_in_burst 32 m m' ->
  N.lxor (feed_bits ones32 m) ones32 <> N.lxor (feed_bits ones32 m') ones32.
Proof.
  intros (p & x & x' & s & -> & -> & Hl & H32 & Hne) H.
  apply lxor_inj_r in H. rewrite !feed_bits_app in H.
  apply feed_bits_inj in H; [|apply feed_bits_lt, feed_bits_lt, ones32_lt ..].
  revert H. apply burst_changes_register; assumption.
Qed.

Lemma crc32_detects_burst m m' : bytes m -> bytes m' ->
  differs_in_burst 32 (bits_of_bytes m) (bits_of_bytes m') -> crc32 m <> crc32 m'.
Proof.
  intros Hm Hm' Hd. rewrite (crc32_eq_spec m Hm), (crc32_eq_spec m' Hm').
  apply spec_detects_burst, Hd.
Qed.

(* ------------------------------------------------------------------ page level *)

Lemma page_undamaged_ok verify has_crc body : page_crc_ok verify has_crc (crc32 body) body = true.
Proof. unfold page_crc_ok. destruct (verify && has_crc); [apply N.eqb_refl|reflexivity]. Qed.

Lemma page_damage_rejected body body' : bytes body -> bytes body' ->
  differs_in_burst 32 (bits_of_bytes body) (bits_of_bytes body') ->
  page_crc_ok true true (crc32 body) body' = false.
Proof.
  intros Hb Hb' Hd. unfold page_crc_ok. cbn [andb]. apply N.eqb_neq. intro H.
  apply (crc32_detects_burst body body' Hb Hb' Hd). symmetry. exact H.
Qed.

(* ------------------------------------------------------------------ non-vacuity *)

Example crc_check_value : crc32 [49;50;51;52;53;54;55;56;57] = 0xCBF43926.
Proof. vm_compute. reflexivity. Qed.

Example burst_example :
  differs_in_burst 32 (bits_of_bytes [1;2;3;4;5;6;7;8;9;10]) (bits_of_bytes [1;2;3;4;0x85;6;7;0x88;9;10]).
Proof.
  exists (bits_of_bytes [1;2;3;4] ++ [true;false;true;false;false;false;false]).
  exists (false :: bits_of_bytes [6;7] ++ [false;false;false;true;false;false;false;false]).
  exists (true :: bits_of_bytes [6;7] ++ [false;false;false;true;false;false;false;true]).
  exists (bits_of_bytes [9;10]).
  repeat split; try (vm_compute; lia); try reflexivity. discriminate.
Qed.
