(** Model of src/util/crc32.c: table generation and slicing-by-8 main loop, byte tail, update.
    The polynomial comes from the repository's source through Gen/Consts_gen.v. *)
From Coq Require Import NArith List Bool.
From Carquet Require Import Gen.Consts_gen.
Import ListNotations.
Local Open Scope N_scope.

Definition POLY : N := Crc_CRC32_POLY.
Definition mask32 : N := 0xFFFFFFFF.
Definition not32 (x : N) : N := N.lxor x mask32.        (* ~x on uint32_t *)

(** crc32_init_tables: base table *)
Definition tstep (crc : N) : N :=
  if N.testbit crc 0 then N.lxor (N.shiftr crc 1) POLY else N.shiftr crc 1.

Definition table0_entry (i : N) : N := N.iter 8 tstep i.

Definition idx256 : list N := map N.of_nat (seq 0 256).

Definition table0 : list N := map table0_entry idx256.

Definition lookup (t : list N) (i : N) : N := nth (N.to_nat i) t 0.

(** crc32_tables[k][i] = (crc32_tables[k-1][i] >> 8) ^ crc32_tables[0][crc32_tables[k-1][i] & 0xFF] *)
Definition next_table (t0 prev : list N) : list N :=
  map (fun e => N.lxor (N.shiftr e 8) (lookup t0 (N.land e 0xFF))) prev.

Fixpoint more_tables (n : nat) (t0 prev : list N) : list (list N) :=
  match n with O => [] | S n' => let t := next_table t0 prev in t :: more_tables n' t0 t end.

(** the static array crc32_tables[8][256], filled once *)
Definition tables : list (list N) := let t0 := table0 in t0 :: more_tables 7 t0 t0.

Definition Tl (ts : list (list N)) (k : nat) (i : N) : N := lookup (nth k ts []) i.
Definition T (k : nat) (i : N) : N := Tl tables k i.

(** memcpy(&w, data, 4) on a little-endian target *)
Definition le32 (a b c d : N) : N := a + 256 * (b + 256 * (c + 256 * d)).

(** the byte-at-a-time tail loop *)
Definition tail_step (crc x : N) : N :=
  N.lxor (T 0 (N.land (N.lxor crc x) 0xFF)) (N.shiftr crc 8).

(** the 8-bytes-per-iteration main loop followed by the tail loop *)
Fixpoint slice8 (crc : N) (data : list N) : N :=
  match data with
  | a :: b :: c :: d :: e :: f :: g :: h :: rest =>
      let one := N.lxor (le32 a b c d) crc in
      let two := le32 e f g h in
      slice8 (N.lxor (T 7 (N.land one 0xFF))
             (N.lxor (T 6 (N.land (N.shiftr one 8) 0xFF))
             (N.lxor (T 5 (N.land (N.shiftr one 16) 0xFF))
             (N.lxor (T 4 (N.shiftr one 24))
             (N.lxor (T 3 (N.land two 0xFF))
             (N.lxor (T 2 (N.land (N.shiftr two 8) 0xFF))
             (N.lxor (T 1 (N.land (N.shiftr two 16) 0xFF))
                     (T 0 (N.shiftr two 24)))))))))
             rest
  | _ => fold_left tail_step data crc
  end.

(** crc32_slicing_by_8(crc, data, length) *)
Definition crc32_update (crc : N) (data : list N) : N := not32 (slice8 (not32 crc) data).

(** carquet_crc32(data, length) *)
Definition crc32 (data : list N) : N := crc32_update 0 data.

(** Page checksum decision of the reader: a page with a stored CRC is accepted iff verification
    is off or the CRC of the stored body equals the stored one (page_reader.c, all three I/O paths). *)
Definition page_crc_ok (verify has_crc : bool) (stored : N) (body : list N) : bool :=
  if verify && has_crc then N.eqb (crc32 body) stored else true.
