(** Model of src/compression/snappy.c (carquet's own Snappy codec), as repaired by the three
    "fix:" commits recorded in findings.d/C10.json.

    Conventions (DESIGN.md section 4).  Pointers into the source buffer are modelled by the
    remaining suffix of the input ([ip < iend] is "the suffix is not empty", [ip + k > iend] is
    "k exceeds the length of the suffix"); every read pattern-matches on that suffix and yields
    [Fault OobRead] where the C code would read at or beyond [iend].  The destination is the list of
    bytes produced so far in reverse order together with the capacity [cap]; a write at or beyond
    [dst + cap] is [Fault OobWrite], a back-reference before [dst] is [Fault OobRead].  The guards
    of the C code come first, exactly where they are in the C code; the theorems in SnappyProofs.v show
    that they make the faults unreachable.  Sizes are [N]; [size_t] is taken to be 64 bits wide
    (ip + len with len <= 2^32 does not wrap).  The NULL-argument checks are not modelled.

    Bit operations on a byte are written arithmetically: tag >> 2 = tag / 4, tag & 3 = tag mod 4,
    (x << 8) | b = 256 * x + b for a byte b. *)
From Coq Require Import NArith ZArith List Bool FMapPositive.
From Carquet Require Import Base.Res Gen.Consts_gen Gen.Enums_gen Comp.CompBase Comp.CompMem.
Import ListNotations.
Local Open Scope N_scope.
Local Open Scope res_scope.

Definition K_LITERAL := Snappy_SNAPPY_LITERAL.
Definition K_COPY1 := Snappy_SNAPPY_COPY_1.
Definition K_COPY2 := Snappy_SNAPPY_COPY_2.

(* ================================================================== decompression *)

(** snappy_read_varint (with the overflow check of commit 5fba7d8): [None] is the C function
    returning 0.  One byte is consumed per iteration, so the recursion is on the input. *)
Fixpoint read_varint (shift value : N) (s : list N) : option (N * list N) :=
  match s with
  | [] => None                                             (* p < end fails: truncated *)
  | b :: r =>
      if (shift =? 28) && (15 <? b mod 128) then None      (* does not fit in 32 bits *)
      else
        let value' := (value + (b mod 128) * 2 ^ shift) mod 2 ^ 32 in   (* |= on a uint32_t, disjoint bits *)
        if b / 128 =? 0 then Some (value', r)
        else if 32 <=? shift + 7 then None
        else read_varint (shift + 7) value' r
  end.

(** the checks shared by the three copy kinds, then the copy *)
Definition do_copy (offset len : N) (r rout : list N) (ulen cap : N) : res (list N * list N) :=
  if (offset =? 0) || (nlen rout <? offset) then Err ERR_DATA
  else if ulen <? nlen rout + len then Err ERR_DATA
  else let* rout' := copy_back (N.to_nat len) (offset - 1) rout cap in Ok (r, rout').

(** One iteration of the main loop; [rest] is not empty and op < oend on entry.
    [guard1 = true] is the repaired code; [guard1 = false] is the pinned code, which read the
    copy-1 offset byte without a bounds check (DESIGN F6). *)
Definition step_gen (guard1 : bool) (rest rout : list N) (ulen cap : N) : res (list N * list N) :=
  match rest with
  | [] => Fault OobRead                                   (* tag = *ip++ *)
  | tag :: r =>
    let type := tag mod 4 in
    if type =? K_LITERAL then
      let len := tag / 4 + 1 in
      if 60 <? len then
        let extra := len - 60 in
        if nlen r <? extra then Err ERR_DATA
        else
          let* v := rd_le (N.to_nat extra) r in
          let len := 1 + v in
          let r := skipn (N.to_nat extra) r in
          if (nlen r <? len) || (ulen <? nlen rout + len) then Err ERR_DATA
          else copy_lit len r rout cap
      else
        if (nlen r <? len) || (ulen <? nlen rout + len) then Err ERR_DATA
        else copy_lit len r rout cap
    else if type =? K_COPY1 then
      let len := (tag / 4) mod 8 + 4 in
      match r with
      | [] => if guard1 then Err ERR_DATA else Fault OobRead
      | b :: r' => do_copy (256 * (tag / 32) + b) len r' rout ulen cap
      end
    else if type =? K_COPY2 then
      let len := (tag / 4) mod 64 + 1 in
      if nlen r <? 2 then Err ERR_DATA
      else
        let* offset := rd_le 2 r in
        do_copy offset len (skipn 2 r) rout ulen cap
    else
      let len := (tag / 4) mod 64 + 1 in
      if nlen r <? 4 then Err ERR_DATA
      else
        let* offset := rd_le 4 r in
        do_copy offset len (skipn 4 r) rout ulen cap
  end.

(** while (ip < iend && op < oend) { ... }.  Every iteration consumes at least the tag byte, so
    [fuel = length of the input + 1] is enough (proved: OutOfFuel is unreachable). *)
Fixpoint dloop (guard1 : bool) (fuel : nat) (rest rout : list N) (ulen cap : N) : res (list N * list N) :=
  match fuel with
  | O => Fault OutOfFuel
  | S f =>
      match rest with
      | [] => Ok (rest, rout)
      | _ =>
          if nlen rout <? ulen then
            let* st := step_gen guard1 rest rout ulen cap in
            dloop guard1 f (fst st) (snd st) ulen cap
          else Ok (rest, rout)
      end
  end.

Definition is_nil {A} (l : list A) : bool := match l with [] => true | _ => false end.

(** carquet_snappy_decompress(src, |s|, dst, cap, &dst_size): Ok x means status OK with
    dst[0..dst_size) = x *)
Definition decompress_gen (guard1 : bool) (s : list N) (cap : N) : res (list N) :=
  match read_varint 0 0 s with
  | None => Err ERR_DATA
  | Some (ulen, r) =>
      if cap <? ulen then Err ERR_DATA
      else
        let* st := dloop guard1 (S (length r)) r [] ulen cap in
        if negb (nlen (snd st) =? ulen) || negb (is_nil (fst st)) then Err ERR_DATA   (* second test: commit 0d37a62 *)
        else Ok (frev (snd st))
  end.

Definition step := step_gen true.
Definition decompress := decompress_gen true.
Definition decompress_pinned := decompress_gen false.

(** carquet_snappy_get_uncompressed_length *)
Definition get_uncompressed_length (s : list N) : res N :=
  match read_varint 0 0 s with None => Err ERR_DATA | Some (v, _) => Ok v end.

(* ================================================================== compression *)

(** snappy_write_varint on a uint32_t (at most five bytes) *)
Fixpoint write_varint (fuel : nat) (v : N) : list N :=
  match fuel with
  | O => []
  | S f => if 128 <=? v then (128 + v mod 128) :: write_varint f (v / 128) else [v]
  end.

(** snappy_emit_literal: the header bytes ((uint8_t) casts written as mod 256), then the bytes *)
Definition emit_literal (lit : list N) : list N :=
  let len := nlen lit in
  (if len <=? 60 then [(4 * (len - 1)) mod 256]
   else if len <=? 256 then [240; (len - 1) mod 256]
   else if len <=? 65536 then [244; (len - 1) mod 256; ((len - 1) / 256) mod 256]
   else if len <=? 16777216 then
     [248; (len - 1) mod 256; ((len - 1) / 256) mod 256; ((len - 1) / 65536) mod 256]
   else
     [252; (len - 1) mod 256; ((len - 1) / 256) mod 256; ((len - 1) / 65536) mod 256;
      ((len - 1) / 16777216) mod 256]) ++ lit.

Definition copy2_bytes (offset len : N) : list N :=
  [(4 * (len - 1) + K_COPY2) mod 256; offset mod 256; (offset / 256) mod 256].

(** snappy_emit_copy; [fuel] bounds the while (len >= 68) loop *)
Fixpoint emit_copy (fuel : nat) (offset len : N) : list N :=
  match fuel with
  | O => []
  | S f =>
      if 68 <=? len then copy2_bytes offset 64 ++ emit_copy f offset (len - 64)
      else
        let pre := if 64 <? len then copy2_bytes offset 60 else [] in
        let len := if 64 <? len then len - 60 else len in
        pre ++ (if (12 <=? len) || (2048 <=? offset) then copy2_bytes offset len
                else [(32 * (offset / 256) + 4 * (len - 4) + K_COPY1) mod 256; offset mod 256])
  end.

Definition emit_copy_fuel (len : N) : nat := S (N.to_nat (len / 64)).

(** common prefix length: while (ip < iend && *ip == *ref) { ip++; ref++; }  ([a] is the input from
    ip on, [b] the input from ref on; ref < ip, so [b] is the longer one) *)
Fixpoint cpl (a b : list N) : nat :=
  match a, b with
  | u :: a', v :: b' => if u =? v then S (cpl a' b') else O
  | _, _ => O
  end.

Section Compress.
  (** The match finder.  [look st ip] is "ref = src + hash_table[h]; hash_table[h] = ip" and
      [ins st p] is the extra insertion after a match.  Nothing is assumed about them: the
      theorems hold for every finder (every hash function, table size, aliasing pattern). *)
  Context {St : Type}.
  Variable look : St -> nat -> nat * St.
  Variable ins : St -> nat -> St.

  Fixpoint sloop (fuel : nat) (x : list N) (n : nat) (st : St) (ip anchor : nat) : res (list N) :=
    match fuel with
    | O => Fault OutOfFuel
    | S f =>
        if (ip + 15 <? n)%nat then                                  (* ip < ilimit = iend - 15 *)
          let (ref, st1) := look st ip in
          if (ip <=? ref)%nat || (Snappy_SNAPPY_MAX_OFFSET <? N.of_nat (ip - ref)) then
            sloop f x n st1 (S ip) anchor
          else
            match rd32 x ref, rd32 x ip with
            | Some a, Some b =>
                if negb (a =? b) then sloop f x n st1 (S ip) anchor
                else
                  let lit := if (anchor <? ip)%nat then emit_literal (slice x anchor ip) else [] in
                  let mlen := (4 + cpl (skipn (ip + 4) x) (skipn (ref + 4) x))%nat in
                  let ip' := (ip + mlen)%nat in
                  let st2 := if (ip' + 15 <? n)%nat then ins st1 (ip' - 1)%nat else st1 in
                  let* rest := sloop f x n st2 ip' ip' in
                  Ok (lit ++ emit_copy (emit_copy_fuel (N.of_nat mlen)) (N.of_nat (ip - ref)) (N.of_nat mlen) ++ rest)
            | _, _ => Fault OobRead
            end
        else Ok (if (anchor <? n)%nat then emit_literal (slice x anchor n) else [])
    end.

  (** the bytes carquet_snappy_compress writes when the destination is large enough *)
  Definition compress_with (st0 : St) (x : list N) : res (list N) :=
    let n := length x in
    let hdr := write_varint 5 (N.of_nat n mod 2 ^ 32) in          (* (uint32_t)src_size *)
    if (n =? 0)%nat then Ok hdr
    else if (n <? 15)%nat then Ok (hdr ++ emit_literal x)
    else let* body := sloop (S n) x n st0 O O in Ok (hdr ++ body).
End Compress.

(** carquet_snappy_compress_bound *)
Definition compress_bound (n : N) : N := 32 + n + n / 6.

(** carquet_snappy_compress with its destination capacity: the only check is at the entry; all the
    writes that follow are unchecked in C, i.e. an output longer than [cap] is an overflow. *)
Definition compress_c {St} (look : St -> nat -> nat * St) (ins : St -> nat -> St) (st0 : St)
           (x : list N) (cap : N) : res (list N) :=
  if cap <? compress_bound (nlen x) then Err ERR_COMP
  else
    let* out := compress_with look ins st0 x in
    if nlen out <=? cap then Ok out else Fault OobWrite.

(* ------------------------------------------------------------------ the concrete match finder *)

(** uint16_t hash_table[1 << 14], zero-initialised; snappy_hash(v) = (v * 0x1e35a7bd) >> 18 on uint32_t *)
Definition HASH_MUL : N := 506832829.   (* 0x1e35a7bd; kept in step with the source by the byte-exact tie *)
Definition snappy_hash (v : N) : N := ((v * HASH_MUL) mod 2 ^ 32) / 2 ^ (32 - Snappy_SNAPPY_HASH_LOG).

Definition compress (x : list N) : res (list N) :=
  compress_with (hash_look snappy_hash x) (hash_ins snappy_hash x) (PositiveMap.empty N) x.
