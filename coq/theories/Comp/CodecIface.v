(** GZIP and ZSTD in carquet are zlib and libzstd behind thin wrappers (src/compression/gzip.c,
    zstd.c).  Nothing is proved here about zlib or libzstd: they are Section variables, and what is
    assumed about them (round trip, the bound functions, "reports at most avail_out bytes") is stated as
    Section hypotheses and listed in the trusted base of C09.  What is proved is only what the wrappers
    add: level clamping, status mapping, size reporting.  PARTIAL by construction.
    (Not modelled: the (uInt) truncation of sizes above 4 GiB in gzip.c, the per-thread ZSTD_DCtx.) *)
From Coq Require Import NArith ZArith List Bool Lia ZifyBool ZifyN.
From Carquet Require Import Base.Res Comp.CompBase Comp.CompMem.
Import ListNotations.
Local Open Scope N_scope.

Definition clamp (lo hi l : Z) : Z := if (l <? lo)%Z then lo else if (hi <? l)%Z then hi else l.

Lemma clamp_range lo hi l : (lo <= hi)%Z -> (lo <= clamp lo hi l <= hi)%Z.
Proof. intros H. unfold clamp. destruct (l <? lo)%Z eqn:E1; [lia|]. destruct (hi <? l)%Z eqn:E2; lia. Qed.

Lemma clamp_id lo hi l : (lo <= l <= hi)%Z -> clamp lo hi l = l.
Proof. intros H. unfold clamp. destruct (l <? lo)%Z eqn:E1; [lia|]. destruct (hi <? l)%Z eqn:E2; lia. Qed.

Section ExternalCodec.
  (** an external block codec with compression levels lo..hi *)
  Variables lo hi : Z.
  Hypothesis lo_le_hi : (lo <= hi)%Z.
  Variable ext_bound : N -> N.                                      (* compressBound(+18) / ZSTD_compressBound *)
  Variable ext_compress : Z -> list N -> N -> option (list N).      (* level, input, avail_out: Some = stream end reached *)
  Variable ext_decompress : list N -> N -> option (list N).         (* input, avail_out *)
  (** assumptions about the library (trusted, not proved) *)
  Hypothesis ext_compress_fits : forall l x cap out, ext_compress l x cap = Some out -> nlen out <= cap.
  Hypothesis ext_compress_succeeds : forall l x cap,
    (lo <= l <= hi)%Z -> ext_bound (nlen x) <= cap -> exists out, ext_compress l x cap = Some out.
  Hypothesis ext_roundtrip : forall l x cap out cap',
    (lo <= l <= hi)%Z -> ext_compress l x cap = Some out -> nlen x <= cap' -> ext_decompress out cap' = Some x.
  Hypothesis ext_decompress_fits : forall s cap y, ext_decompress s cap = Some y -> nlen y <= cap.

  (** carquet_gzip_compress / carquet_zstd_compress: clamp the level, call the library, map the status,
      report total_out / the returned size *)
  Definition wrap_compress (x : list N) (cap : N) (level : Z) : res (list N) :=
    match ext_compress (clamp lo hi level) x cap with
    | Some out => Ok out
    | None => Err ERR_COMP
    end.
  (** carquet_gzip_decompress / carquet_zstd_decompress *)
  Definition wrap_decompress (s : list N) (cap : N) : res (list N) :=
    match ext_decompress s cap with
    | Some y => Ok y
    | None => Err ERR_DATA
    end.

  Lemma wrap_level_clamped x cap level :
    wrap_compress x cap level = wrap_compress x cap (clamp lo hi level).
  Proof. unfold wrap_compress. rewrite (clamp_id lo hi (clamp lo hi level)) by (apply clamp_range, lo_le_hi). reflexivity. Qed.

  (** any level, destination of the advertised bound: success, at most [cap] bytes reported, and the
      output decompresses into exactly len(x) bytes to x (GIVEN the library assumptions) *)
  Theorem wrap_roundtrip x cap level :
    ext_bound (nlen x) <= cap ->
    exists out, wrap_compress x cap level = Ok out /\ nlen out <= cap /\ wrap_decompress out (nlen x) = Ok x.
  Proof.
    intros Hc. pose proof (clamp_range lo hi level lo_le_hi) as HR.
    destruct (ext_compress_succeeds _ x cap HR Hc) as [out Ho].
    exists out. unfold wrap_compress, wrap_decompress. rewrite Ho.
    split; [reflexivity|]. split; [eapply ext_compress_fits; exact Ho|].
    rewrite (ext_roundtrip _ _ _ _ (nlen x) HR Ho) by lia. reflexivity.
  Qed.

  (** whatever the capacity: a failure is reported as an error status, a success never reports more
      than the destination holds *)
  Theorem wrap_compress_no_overflow x cap level :
    (exists out, wrap_compress x cap level = Ok out /\ nlen out <= cap) \/ wrap_compress x cap level = Err ERR_COMP.
  Proof.
    unfold wrap_compress. destruct (ext_compress (clamp lo hi level) x cap) as [out|] eqn:E.
    - left. exists out. split; [reflexivity|eapply ext_compress_fits; exact E].
    - right. reflexivity.
  Qed.

  Theorem wrap_decompress_no_overflow s cap :
    (exists y, wrap_decompress s cap = Ok y /\ nlen y <= cap) \/ wrap_decompress s cap = Err ERR_DATA.
  Proof.
    unfold wrap_decompress. destruct (ext_decompress s cap) as [y|] eqn:E.
    - left. exists y. split; [reflexivity|eapply ext_decompress_fits; exact E].
    - right. reflexivity.
  Qed.
End ExternalCodec.

(** gzip.c: levels clamped to 1..9, bound = compressBound(n) + 18 *)
Definition gzip_compress := wrap_compress 1 9.
Definition gzip_bound (zlib_compressBound : N -> N) (n : N) : N := zlib_compressBound n + 18.
(** zstd.c: levels clamped to 1..ZSTD_maxCLevel(), bound = ZSTD_compressBound(n) *)
Definition zstd_compress (max_level : Z) := wrap_compress 1 max_level.
