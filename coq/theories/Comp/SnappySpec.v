(** The raw Snappy block format, transcribed from google/snappy format_description.txt
    (independent of carquet's code: nothing here mentions the implementation).

    1. Preamble: the uncompressed length (at most 2^32-1) as a little-endian base-128 varint.
    2. Elements.  The low two bits of the tag byte give the element type:
       00 literal:   upper six bits m.  m < 60: length m+1.  m = 60,61,62,63: length-1 is stored in the
                     1,2,3,4 following bytes (little-endian); the literal bytes follow.
       01 copy-1:    length 4..11 (len-4 in bits 2..4), offset 0..2047 (upper three bits in bits 5..7 of
                     the tag, lower eight in the next byte).
       10 copy-2:    length 1..64 (len-1 in the upper six bits), 16-bit little-endian offset.
       11 copy-4:    like copy-2 with a 32-bit little-endian offset.
       "Offsets of zero can be encoded, but are not legal; similarly, it is possible to encode
        backreferences that would go past the end of the block (offset > current decompressed
        position), which is also nonsensical and thus not allowed."  The length of a copy may exceed
        its offset (run-length behaviour: bytes just produced are read again).
    The stream is the preamble followed by elements, nothing else; the elements together produce
    exactly the declared number of bytes. *)
From Coq Require Import NArith ZArith Arith List Bool Lia ZifyBool ZifyNat ZifyN.
From Carquet Require Import Comp.CompBase.
Import ListNotations.
Local Open Scope N_scope.
Ltac Zify.zify_post_hook ::= Z.div_mod_to_equations.

(* ------------------------------------------------------------------ preamble *)

Inductive Varint : list N -> N -> Prop :=
| V_last b : b < 128 -> Varint [b] b
| V_more b t v : 128 <= b < 256 -> Varint t v -> Varint (b :: t) (b - 128 + 128 * v).

Definition Preamble (pre : list N) (n : N) : Prop :=
  Varint pre n /\ (length pre <= 5)%nat /\ n < 2^32.

Fixpoint parse_varint (fuel : nat) (s : list N) : option (N * list N) :=
  match fuel, s with
  | S f, b :: r =>
      if b <? 128 then Some (b, r)
      else if b <? 256 then
        match parse_varint f r with Some (v, r') => Some (b - 128 + 128 * v, r') | None => None end
      else None
  | _, _ => None
  end.

Definition parse_preamble (s : list N) : option (N * list N) :=
  match parse_varint 5 s with
  | Some (v, r) => if v <? 2^32 then Some (v, r) else None
  | None => None
  end.

(* ------------------------------------------------------------------ elements *)

Inductive elem := Lit (bs : list N) | Copy (off len : N).

Inductive EncElem : elem -> list N -> Prop :=
| E_lit_short bs :
    1 <= nlen bs <= 60 -> EncElem (Lit bs) (4 * (nlen bs - 1) :: bs)
| E_lit_long lb bs :
    1 <= nlen lb <= 4 -> bytes lb -> nlen bs = le_val lb + 1 ->
    EncElem (Lit bs) (4 * (59 + nlen lb) :: lb ++ bs)
| E_copy1 off len :
    4 <= len <= 11 -> off < 2048 ->
    EncElem (Copy off len) [32 * (off / 256) + 4 * (len - 4) + 1; off mod 256]
| E_copy2 off len :
    1 <= len <= 64 -> off < 65536 ->
    EncElem (Copy off len) [4 * (len - 1) + 2; off mod 256; off / 256]
| E_copy4 off len :
    1 <= len <= 64 -> off < 2^32 ->
    EncElem (Copy off len)
      [4 * (len - 1) + 3; off mod 256; off / 256 mod 256; off / 65536 mod 256; off / 16777216].

Inductive EncElems : list elem -> list N -> Prop :=
| EE_nil : EncElems [] []
| EE_cons e enc es rest : EncElem e enc -> EncElems es rest -> EncElems (e :: es) (enc ++ rest).

(** meaning of one element on the output produced so far ([rout] is reversed) *)
Definition exec1 (e : elem) (rout : list N) : option (list N) :=
  match e with
  | Lit bs => Some (rev_append bs rout)
  | Copy off len => if off =? 0 then None else ocopy (N.to_nat len) (off - 1) rout
  end.

Fixpoint exec (es : list elem) (rout : list N) : option (list N) :=
  match es with
  | [] => Some rout
  | e :: t => match exec1 e rout with Some r => exec t r | None => None end
  end.

(** [DenotesSnappy s x]: the byte string [s] is a valid raw Snappy block whose content is [x]. *)
Definition DenotesSnappy (s x : list N) : Prop :=
  exists pre body es,
    s = pre ++ body /\ Preamble pre (nlen x) /\ EncElems es body /\ exec es [] = Some (rev x).

(* ------------------------------------------------------------------ executable decoder *)

Definition parse_elem (s : list N) : option (elem * list N) :=
  match s with
  | [] => None
  | tag :: r =>
    if 256 <=? tag then None else
    let kind := tag mod 4 in
    let up := tag / 4 in
    if kind =? 0 then
      if up <? 60 then
        match take (up + 1) r with Some (bs, r') => Some (Lit bs, r') | None => None end
      else
        match take (up - 59) r with
        | Some (lb, r1) =>
            if bytesb lb then
              match take (le_val lb + 1) r1 with Some (bs, r') => Some (Lit bs, r') | None => None end
            else None
        | None => None
        end
    else if kind =? 1 then
      match r with
      | b :: r' => if b <? 256 then Some (Copy (256 * (up / 8) + b) (up mod 8 + 4), r') else None
      | _ => None
      end
    else if kind =? 2 then
      match r with
      | b0 :: b1 :: r' => if bytesb [b0; b1] then Some (Copy (le_val [b0; b1]) (up + 1), r') else None
      | _ => None
      end
    else
      match r with
      | b0 :: b1 :: b2 :: b3 :: r' =>
          if bytesb [b0; b1; b2; b3] then Some (Copy (le_val [b0; b1; b2; b3]) (up + 1), r') else None
      | _ => None
      end
  end.

Fixpoint run (fuel : nat) (s rout : list N) : option (list N) :=
  match s with
  | [] => Some rout
  | _ =>
    match fuel with
    | O => None
    | S f =>
      match parse_elem s with
      | Some (e, r) => match exec1 e rout with Some rout' => run f r rout' | None => None end
      | None => None
      end
    end
  end.

Definition spec_decode (s : list N) : option (list N) :=
  match parse_preamble s with
  | Some (v, r) =>
      match run (length r) r [] with
      | Some rout => if nlen rout =? v then Some (frev rout) else None
      | None => None
      end
  | None => None
  end.

(* ------------------------------------------------------------------ spec_decode <-> Denotes *)

Lemma parse_varint_sound fuel s v r :
  parse_varint fuel s = Some (v, r) ->
  exists pre, s = pre ++ r /\ Varint pre v /\ (length pre <= fuel)%nat.
Proof.
  revert s v r. induction fuel as [|f IH]; intros s v r H; [discriminate|].
  destruct s as [|b t]; [discriminate|]. cbn [parse_varint] in H.
  destruct (b <? 128) eqn:E1.
  - injection H as <- <-. exists [b]. repeat split; [constructor; lia | simpl; lia].
  - destruct (b <? 256) eqn:E2; [|discriminate].
    destruct (parse_varint f t) as [[v' r']|] eqn:E3; [|discriminate].
    injection H as <- <-. destruct (IH _ _ _ E3) as (pre & -> & Hv & Hl).
    exists (b :: pre). repeat split; [constructor; [lia|exact Hv] | simpl; lia].
Qed.

Lemma parse_varint_complete pre v r fuel :
  Varint pre v -> (length pre <= fuel)%nat -> parse_varint fuel (pre ++ r) = Some (v, r).
Proof.
  intros Hv. revert fuel. induction Hv as [b Hb | b t v Hb Hv IH]; intros fuel Hl.
  - destruct fuel; [simpl in Hl; lia|]. cbn [parse_varint app].
    destruct (b <? 128) eqn:E; [reflexivity|lia].
  - destruct fuel; [simpl in Hl; lia|]. cbn [parse_varint app].
    destruct (b <? 128) eqn:E1; [lia|]. destruct (b <? 256) eqn:E2; [|lia].
    rewrite IH by (simpl in Hl; lia). reflexivity.
Qed.

Lemma parse_preamble_sound s v r :
  parse_preamble s = Some (v, r) -> exists pre, s = pre ++ r /\ Preamble pre v.
Proof.
  unfold parse_preamble. destruct (parse_varint 5 s) as [[v' r']|] eqn:E; [|discriminate].
  destruct (v' <? 2^32) eqn:E2; [|discriminate]. intros H; injection H as <- <-.
  destruct (parse_varint_sound _ _ _ _ E) as (pre & -> & Hv & Hl).
  exists pre. split; [reflexivity|]. repeat split; [exact Hv|exact Hl|lia].
Qed.

Lemma parse_preamble_complete pre v r :
  Preamble pre v -> parse_preamble (pre ++ r) = Some (v, r).
Proof.
  intros (Hv & Hl & Hb). unfold parse_preamble.
  rewrite (parse_varint_complete pre v r 5 Hv Hl).
  destruct (v <? 2^32) eqn:E; [reflexivity|lia].
Qed.

Lemma EncElem_nonempty e enc : EncElem e enc -> (1 <= length enc)%nat.
Proof. intros H; inversion H; simpl; lia. Qed.

Lemma parse_elem_complete e enc r : EncElem e enc -> parse_elem (enc ++ r) = Some (e, r).
Proof.
  intros H. inversion H as [bs Hl | lb bs Hl Hb Hv | off len Hl Ho | off len Hl Ho | off len Hl Ho]; subst.
  - cbn [parse_elem app].
    set (m := nlen bs) in *.
    destruct (256 <=? 4 * (m - 1)) eqn:E0; [lia|].
    replace (4 * (m - 1) mod 4) with 0 by lia. replace (4 * (m - 1) / 4) with (m - 1) by lia.
    cbn [N.eqb]. destruct (m - 1 <? 60) eqn:E1; [|lia].
    replace (m - 1 + 1) with (nlen bs) by (unfold m; lia). rewrite take_app. reflexivity.
  - cbn [parse_elem app].
    set (k := nlen lb) in *.
    destruct (256 <=? 4 * (59 + k)) eqn:E0; [lia|].
    replace (4 * (59 + k) mod 4) with 0 by lia. replace (4 * (59 + k) / 4) with (59 + k) by lia.
    cbn [N.eqb]. destruct (59 + k <? 60) eqn:E1; [lia|].
    replace (59 + k - 59) with (nlen lb) by (unfold k; lia). rewrite <- app_assoc, take_app.
    apply bytesb_spec in Hb. rewrite Hb. rewrite <- Hv, take_app. reflexivity.
  - cbn [parse_elem app].
    set (tag := 32 * (off / 256) + 4 * (len - 4) + 1).
    destruct (256 <=? tag) eqn:E0; [unfold tag in *; lia|].
    replace (tag mod 4) with 1 by (unfold tag; lia).
    replace (tag / 4) with (8 * (off / 256) + (len - 4)) by (unfold tag; lia).
    cbn [N.eqb Pos.eqb]. destruct (off mod 256 <? 256) eqn:E1; [|lia].
    do 3 f_equal; lia.
  - cbn [parse_elem app].
    set (tag := 4 * (len - 1) + 2).
    destruct (256 <=? tag) eqn:E0; [unfold tag in *; lia|].
    replace (tag mod 4) with 2 by (unfold tag; lia).
    replace (tag / 4) with (len - 1) by (unfold tag; lia).
    cbn [N.eqb Pos.eqb bytesb forallb].
    destruct (off mod 256 <? 256) eqn:E1; [|lia]. destruct (off / 256 <? 256) eqn:E2; [|lia].
    cbn [andb le_val]. do 3 f_equal; lia.
  - cbn [parse_elem app].
    set (tag := 4 * (len - 1) + 3).
    destruct (256 <=? tag) eqn:E0; [unfold tag in *; lia|].
    replace (tag mod 4) with 3 by (unfold tag; lia).
    replace (tag / 4) with (len - 1) by (unfold tag; lia).
    cbn [N.eqb Pos.eqb bytesb forallb].
    assert (P : 2^32 = 4294967296) by reflexivity. rewrite P in Ho.
    destruct (off mod 256 <? 256) eqn:E1; [|lia]. destruct (off / 256 mod 256 <? 256) eqn:E2; [|lia].
    destruct (off / 65536 mod 256 <? 256) eqn:E3; [|lia]. destruct (off / 16777216 <? 256) eqn:E4; [|lia].
    cbn [andb le_val]. do 3 f_equal; lia.
Qed.

Lemma parse_elem_sound s e r :
  parse_elem s = Some (e, r) -> exists enc, EncElem e enc /\ s = enc ++ r.
Proof.
  destruct s as [|tag t]; [discriminate|]. cbn [parse_elem].
  destruct (256 <=? tag) eqn:E0; [discriminate|].
  destruct (tag mod 4 =? 0) eqn:K0.
  { destruct (tag / 4 <? 60) eqn:E1.
    - destruct (take (tag / 4 + 1) t) as [[bs r']|] eqn:ET; [|discriminate].
      intros H; injection H as <- <-. apply take_spec in ET. destruct ET as [-> Hl].
      exists (tag :: bs). split; [|reflexivity].
      replace tag with (4 * (nlen bs - 1)) by lia. constructor. lia.
    - destruct (take (tag / 4 - 59) t) as [[lb r1]|] eqn:ET; [|discriminate].
      destruct (bytesb lb) eqn:EB; [|discriminate].
      destruct (take (le_val lb + 1) r1) as [[bs r']|] eqn:ET2; [|discriminate].
      intros H; injection H as <- <-.
      apply take_spec in ET. destruct ET as [-> Hl].
      apply take_spec in ET2. destruct ET2 as [-> Hl2].
      exists (tag :: lb ++ bs). split; [|cbn [app]; rewrite <- app_assoc; reflexivity].
      replace tag with (4 * (59 + nlen lb)) by lia.
      constructor; [lia | apply bytesb_spec; exact EB | exact Hl2]. }
  destruct (tag mod 4 =? 1) eqn:K1.
  { destruct t as [|b r']; [discriminate|]. destruct (b <? 256) eqn:EB; [|discriminate].
    set (off := 256 * (tag / 4 / 8) + b). set (len := tag / 4 mod 8 + 4).
    intros H; injection H as <- <-.
    exists [tag; b]. split; [|reflexivity].
    replace tag with (32 * (off / 256) + 4 * (len - 4) + 1) by (unfold off, len; lia).
    replace b with (off mod 256) by (unfold off; lia).
    constructor; unfold off, len; lia. }
  destruct (tag mod 4 =? 2) eqn:K2.
  { destruct t as [|b0 [|b1 r']]; try discriminate.
    destruct (bytesb [b0; b1]) eqn:EB; [|discriminate].
    set (off := le_val [b0; b1]). set (len := tag / 4 + 1).
    intros H; injection H as <- <-.
    cbn [bytesb forallb] in EB.
    exists [tag; b0; b1]. split; [|reflexivity].
    assert (O : off = b0 + 256 * b1) by (unfold off; cbn [le_val]; lia).
    replace tag with (4 * (len - 1) + 2) by (unfold len; lia).
    replace b0 with (off mod 256) by lia.
    replace b1 with (off / 256) by lia.
    constructor; unfold len; lia. }
  { destruct t as [|b0 [|b1 [|b2 [|b3 r']]]]; try discriminate.
    destruct (bytesb [b0; b1; b2; b3]) eqn:EB; [|discriminate].
    set (off := le_val [b0; b1; b2; b3]). set (len := tag / 4 + 1).
    intros H; injection H as <- <-.
    cbn [bytesb forallb] in EB.
    exists [tag; b0; b1; b2; b3]. split; [|reflexivity].
    assert (O : off = b0 + 256 * b1 + 65536 * b2 + 16777216 * b3) by (unfold off; cbn [le_val]; lia).
    replace tag with (4 * (len - 1) + 3) by (unfold len; lia).
    replace b0 with (off mod 256) by lia.
    replace b1 with (off / 256 mod 256) by lia.
    replace b2 with (off / 65536 mod 256) by lia.
    replace b3 with (off / 16777216) by lia.
    assert (P : 2^32 = 4294967296) by reflexivity.
    constructor; [unfold len; lia | rewrite P; lia]. }
Qed.

Lemma run_complete es body : EncElems es body -> forall fuel rout fin,
  exec es rout = Some fin -> (length body <= fuel)%nat -> run fuel body rout = Some fin.
Proof.
  induction 1 as [|e enc es rest He Hes IH]; intros fuel rout fin Hx Hf.
  - destruct fuel; simpl in *; congruence.
  - pose proof (EncElem_nonempty _ _ He) as Hn.
    rewrite app_length in Hf. destruct fuel; [lia|].
    cbn [exec] in Hx. destruct (exec1 e rout) as [rout'|] eqn:E1; [|discriminate].
    destruct enc as [|a enc']; [simpl in Hn; lia|].
    change (run (S fuel) ((a :: enc') ++ rest) rout)
      with (match parse_elem ((a :: enc') ++ rest) with
            | Some (e, r) => match exec1 e rout with Some rout' => run fuel r rout' | None => None end
            | None => None end).
    rewrite (parse_elem_complete _ _ rest He), E1. apply IH; [exact Hx|simpl in Hf; lia].
Qed.

Lemma run_sound fuel : forall s rout fin,
  run fuel s rout = Some fin -> exists es, EncElems es s /\ exec es rout = Some fin.
Proof.
  induction fuel as [|f IH]; intros s rout fin H.
  - destruct s; [|discriminate]. injection H as <-. exists []. split; [constructor|reflexivity].
  - destruct s as [|a t].
    + injection H as <-. exists []. split; [constructor|reflexivity].
    + cbn [run] in H. destruct (parse_elem (a :: t)) as [[e r]|] eqn:EP; [|discriminate].
      destruct (exec1 e rout) as [rout'|] eqn:E1; [|discriminate].
      destruct (IH _ _ _ H) as (es & Hes & Hx).
      destruct (parse_elem_sound _ _ _ EP) as (enc & He & ->).
      exists (e :: es). split; [constructor; assumption|]. cbn [exec]. rewrite E1. exact Hx.
Qed.

Theorem spec_decode_sound s x : spec_decode s = Some x -> DenotesSnappy s x.
Proof.
  unfold spec_decode. destruct (parse_preamble s) as [[v r]|] eqn:EP; [|discriminate].
  destruct (run (length r) r []) as [rout|] eqn:ER; [|discriminate].
  destruct (nlen rout =? v) eqn:EL; [|discriminate]. rewrite frev_rev. intros H; injection H as <-.
  destruct (parse_preamble_sound _ _ _ EP) as (pre & -> & HP).
  destruct (run_sound _ _ _ _ ER) as (es & Hes & Hx).
  exists pre, r, es. repeat split; try assumption.
  - rewrite nlen_rev. replace (nlen rout) with v by lia. apply HP.
  - apply HP.
  - rewrite nlen_rev. replace (nlen rout) with v by lia. apply HP.
  - rewrite rev_involutive. exact Hx.
Qed.

Theorem spec_decode_complete s x : DenotesSnappy s x -> spec_decode s = Some x.
Proof.
  intros (pre & body & es & -> & HP & Hes & Hx). unfold spec_decode.
  rewrite (parse_preamble_complete _ _ body HP).
  rewrite (run_complete _ _ Hes _ _ _ Hx) by lia.
  rewrite nlen_rev. rewrite N.eqb_refl, frev_rev, rev_involutive. reflexivity.
Qed.

(** The denoted content is unique (the grammar is unambiguous). *)
Corollary denotes_functional s x y : DenotesSnappy s x -> DenotesSnappy s y -> x = y.
Proof.
  intros Hx Hy. apply spec_decode_complete in Hx, Hy. congruence.
Qed.
