(** Small shared vocabulary of the compression specifications and models: byte strings, little-endian
    values, N-indexed access, bounded prefix split.  No model code here (the *Spec.v files import it). *)
From Coq Require Import NArith Arith List Bool Lia ZifyBool ZifyNat ZifyN.
Import ListNotations.
Local Open Scope N_scope.

Definition bytes (s : list N) : Prop := Forall (fun b => b < 256) s.
Definition bytesb (s : list N) : bool := forallb (fun b => b <? 256) s.

Definition nlen {A} (l : list A) : N := N.of_nat (length l).

(** little-endian value of a byte list *)
Fixpoint le_val (bs : list N) : N :=
  match bs with [] => 0 | b :: t => b + 256 * le_val t end.

(** element at index [i] counted in N (no conversion of a stream-controlled number to nat) *)
Fixpoint nthN {A} (l : list A) (i : N) : option A :=
  match l with
  | [] => None
  | a :: t => if i =? 0 then Some a else nthN t (N.pred i)
  end.

(** list reversal in linear time (Coq's [rev] is quadratic, which matters for the extracted decoders) *)
Definition frev {A} (l : list A) : list A := rev_append l [].
Lemma frev_rev {A} (l : list A) : frev l = rev l.
Proof. unfold frev. rewrite rev_append_rev, app_nil_r. reflexivity. Qed.

(** split off exactly [n] elements, if there are that many *)
Definition take {A} (n : N) (s : list A) : option (list A * list A) :=
  if n <=? nlen s then Some (firstn (N.to_nat n) s, skipn (N.to_nat n) s) else None.

(** [ocopy len d rout]: append [len] bytes, each equal to the byte [d+1] positions back from the
    current end; [rout] is the output so far in REVERSE order (most recent byte first).  This is the
    LZ77 overlapping-copy semantics shared by Snappy and LZ4 (length may exceed the offset). *)
Fixpoint ocopy (len : nat) (d : N) (rout : list N) : option (list N) :=
  match len with
  | O => Some rout
  | S l => match nthN rout d with Some b => ocopy l d (b :: rout) | None => None end
  end.

(* ---------------------------------------------------------------- basic facts *)

Lemma nlen_app {A} (a b : list A) : nlen (a ++ b) = nlen a + nlen b.
Proof. unfold nlen. rewrite app_length. lia. Qed.

Lemma nlen_cons {A} (a : A) l : nlen (a :: l) = nlen l + 1.
Proof. unfold nlen. simpl. lia. Qed.

Lemma nlen_nil {A} : nlen (@nil A) = 0.
Proof. reflexivity. Qed.

Lemma nlen_rev {A} (l : list A) : nlen (rev l) = nlen l.
Proof. unfold nlen. rewrite rev_length. reflexivity. Qed.

Lemma nlen_rev_append {A} (a b : list A) : nlen (rev_append a b) = nlen a + nlen b.
Proof. rewrite rev_append_rev, nlen_app, nlen_rev. reflexivity. Qed.

Lemma bytes_app a b : bytes (a ++ b) <-> bytes a /\ bytes b.
Proof. unfold bytes. apply Forall_app. Qed.

Lemma bytes_cons a l : bytes (a :: l) <-> a < 256 /\ bytes l.
Proof. unfold bytes. split; intros H. inversion H; auto. destruct H; constructor; auto. Qed.

Lemma bytesb_spec s : bytesb s = true <-> bytes s.
Proof.
  unfold bytesb, bytes. rewrite forallb_forall, Forall_forall.
  split; intros H x Hx; specialize (H x Hx); lia.
Qed.

Lemma bytes_firstn n s : bytes s -> bytes (firstn n s).
Proof. intros H. rewrite <- (firstn_skipn n s) in H. apply bytes_app in H. apply H. Qed.

Lemma bytes_skipn n s : bytes s -> bytes (skipn n s).
Proof. intros H. rewrite <- (firstn_skipn n s) in H. apply bytes_app in H. apply H. Qed.

Lemma bytes_rev s : bytes s -> bytes (rev s).
Proof. unfold bytes. apply Forall_rev. Qed.

Lemma le_val_bound bs : bytes bs -> le_val bs < 256 ^ nlen bs.
Proof.
  induction bs as [|b t IH]; intros H.
  - simpl. lia.
  - apply bytes_cons in H. destruct H as [Hb Ht]. specialize (IH Ht).
    rewrite nlen_cons, N.pow_add_r, N.pow_1_r. cbn [le_val]. lia.
Qed.

Lemma take_spec {A} n (s a b : list A) :
  take n s = Some (a, b) <-> s = a ++ b /\ nlen a = n.
Proof.
  unfold take, nlen. split.
  - destruct (n <=? N.of_nat (length s)) eqn:E; [|discriminate].
    intros H. injection H as <- <-. rewrite firstn_skipn. split; [reflexivity|].
    rewrite firstn_length. lia.
  - intros [-> <-]. rewrite app_length.
    destruct (N.of_nat (length a) <=? N.of_nat (length a + length b)) eqn:E; [|lia].
    rewrite Nat2N.id, firstn_app, skipn_app, Nat.sub_diag, firstn_all, skipn_all. simpl.
    rewrite app_nil_r. reflexivity.
Qed.

Lemma take_app {A} (a b : list A) : take (nlen a) (a ++ b) = Some (a, b).
Proof. apply take_spec. auto. Qed.

Lemma nthN_nth_error {A} (l : list A) (i : nat) : nthN l (N.of_nat i) = nth_error l i.
Proof.
  revert i. induction l as [|a t IH]; intros i.
  - destruct i; reflexivity.
  - destruct i as [|i].
    + reflexivity.
    + cbn [nthN nth_error]. destruct (N.of_nat (S i) =? 0) eqn:E; [lia|].
      replace (N.pred (N.of_nat (S i))) with (N.of_nat i) by lia. apply IH.
Qed.

Lemma nthN_some_lt {A} (l : list A) i a : nthN l i = Some a -> i < nlen l.
Proof.
  rewrite <- (N2Nat.id i), nthN_nth_error. intros H.
  assert (N.to_nat i < length l)%nat by (apply nth_error_Some; congruence).
  unfold nlen. lia.
Qed.

Lemma nthN_lt_some {A} (l : list A) i : i < nlen l -> exists a, nthN l i = Some a.
Proof.
  unfold nlen. intros H. rewrite <- (N2Nat.id i), nthN_nth_error.
  destruct (nth_error l (N.to_nat i)) eqn:E; [eauto|].
  apply nth_error_None in E. lia.
Qed.

Lemma nthN_none_ge {A} (l : list A) i : nthN l i = None <-> nlen l <= i.
Proof.
  unfold nlen. rewrite <- (N2Nat.id i) at 1. rewrite nthN_nth_error, nth_error_None. lia.
Qed.

Lemma ocopy_len len d rout r : ocopy len d rout = Some r -> nlen r = nlen rout + N.of_nat len.
Proof.
  revert rout. induction len as [|l IH]; intros rout H.
  - injection H as <-. lia.
  - cbn [ocopy] in H. destruct (nthN rout d); [|discriminate].
    apply IH in H. rewrite nlen_cons in H. lia.
Qed.

Lemma ocopy_some len d rout : d < nlen rout -> exists r, ocopy len d rout = Some r.
Proof.
  revert rout. induction len as [|l IH]; intros rout H.
  - eexists; reflexivity.
  - cbn [ocopy]. destruct (nthN_lt_some rout d H) as [b ->].
    apply IH. rewrite nlen_cons. lia.
Qed.

Lemma ocopy_none len d rout : nlen rout <= d -> (0 < len)%nat -> ocopy len d rout = None.
Proof.
  intros H L. destruct len; [lia|]. cbn [ocopy].
  apply nthN_none_ge in H. rewrite H. reflexivity.
Qed.

Lemma ocopy_add a b d rout :
  ocopy (a + b) d rout = match ocopy a d rout with Some r => ocopy b d r | None => None end.
Proof.
  revert rout. induction a as [|a IH]; intros rout.
  - reflexivity.
  - cbn [ocopy Nat.add]. destruct (nthN rout d); [apply IH|reflexivity].
Qed.

Lemma ocopy_bytes len d rout r : bytes rout -> ocopy len d rout = Some r -> bytes r.
Proof.
  revert rout. induction len as [|l IH]; intros rout B H.
  - injection H as <-. exact B.
  - cbn [ocopy] in H. destruct (nthN rout d) eqn:E; [|discriminate].
    eapply IH; [|exact H]. apply bytes_cons. split; [|exact B].
    rewrite <- (N2Nat.id d), nthN_nth_error in E. apply nth_error_In in E.
    unfold bytes in B. rewrite Forall_forall in B. apply B. exact E.
Qed.
