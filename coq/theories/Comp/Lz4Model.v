(** Model of src/compression/lz4.c (carquet's own LZ4 block codec).  Conventions as in SnappyModel.v:
    the source pointer is the remaining suffix, the destination is the reversed output plus the
    capacity, every access is checked ([Fault OobRead] / [Fault OobWrite]), the C guards come first.
    token >> 4 = token / 16, token & 0x0F = token mod 16, ip[0] | (ip[1] << 8) = b0 + 256 * b1. *)
From Coq Require Import NArith ZArith List Bool FMapPositive.
From Carquet Require Import Base.Res Gen.Consts_gen Gen.Enums_gen Comp.CompBase Comp.CompMem.
Import ListNotations.
Local Open Scope N_scope.
Local Open Scope res_scope.

Definition MIN_MATCH := Lz4_LZ4_MIN_MATCH.
Definition LAST_LITERALS := Lz4_LZ4_LAST_LITERALS.
Definition MIN_LENGTH := Lz4_LZ4_MIN_LENGTH.
Definition MINM : nat := N.to_nat Lz4_LZ4_MIN_MATCH.          (* 4 *)
Definition LASTL : nat := N.to_nat Lz4_LZ4_LAST_LITERALS.     (* 12 *)

(* ================================================================== decompression *)

(** do { if (ip >= iend) return ERR; s = *ip++; len += s; } while (s == 255); *)
Fixpoint read_len_ext (s : list N) (acc : N) : res (N * list N) :=
  match s with
  | [] => Err ERR_DATA
  | b :: r => if b =? 255 then read_len_ext r (acc + b) else Ok (acc + b, r)
  end.

(** One iteration of while (ip < iend): [None] in the first component means "break / loop ends",
    otherwise the remaining input. *)
Definition lz_step (rest rout : list N) (cap : N) : res (option (list N) * list N) :=
  match rest with
  | [] => Fault OobRead                                    (* token = *ip++ *)
  | token :: r =>
      let lit_len0 := token / 16 in
      let* ll := (if lit_len0 =? 15 then read_len_ext r lit_len0 else Ok (lit_len0, r)) in
      let lit_len := fst ll in
      let r1 := snd ll in
      let* lc := (if 0 <? lit_len then
                    if (nlen r1 <? lit_len) || (cap <? nlen rout + lit_len) then Err ERR_DATA
                    else copy_lit lit_len r1 rout cap
                  else Ok (r1, rout)) in
      let r2 := fst lc in
      let rout1 := snd lc in
      match r2 with
      | [] => Ok (None, rout1)                             (* if (ip >= iend) break; *)
      | _ =>
          if nlen r2 <? 2 then Err ERR_DATA
          else
            let* offset := rd_le 2 r2 in
            let r3 := skipn 2 r2 in
            if (offset =? 0) || (nlen rout1 <? offset) then Err ERR_DATA
            else
              let ml0 := token mod 16 in
              let* ml := (if ml0 =? 15 then read_len_ext r3 (ml0 + MIN_MATCH) else Ok (ml0 + MIN_MATCH, r3)) in
              let match_len := fst ml in
              let r4 := snd ml in
              if cap <? nlen rout1 + match_len then Err ERR_DATA
              else
                (* both copy paths (8 bytes at a time when offset >= 8, byte by byte otherwise)
                   produce the bytes of the byte-by-byte loop *)
                let* rout2 := copy_back (N.to_nat match_len) (offset - 1) rout1 cap in
                Ok (Some r4, rout2)
      end
  end.

Fixpoint lz_loop (fuel : nat) (rest rout : list N) (cap : N) : res (list N) :=
  match fuel with
  | O => Fault OutOfFuel
  | S f =>
      match rest with
      | [] => Ok rout                                       (* while (ip < iend) *)
      | _ =>
          let* st := lz_step rest rout cap in
          match fst st with
          | None => Ok (snd st)
          | Some r4 => lz_loop f r4 (snd st) cap
          end
      end
  end.

(** carquet_lz4_decompress(src, |s|, dst, cap, &dst_size) *)
Definition decompress (s : list N) (cap : N) : res (list N) :=
  let* rout := lz_loop (S (length s)) s [] cap in Ok (frev rout).

(* ================================================================== compression *)

(** while (rem >= 255) { *op++ = 255; rem -= 255; } *op++ = (uint8_t)rem; *)
Fixpoint ext_bytes (fuel : nat) (rem : N) : list N :=
  match fuel with
  | O => []
  | S f => if 255 <=? rem then 255 :: ext_bytes f (rem - 255) else [rem mod 256]
  end.
Definition ext_of (rem : N) : list N := ext_bytes (S (N.to_nat (rem / 255))) rem.

(** the bytes of one sequence: token, literal length extension, literals, offset, match length extension *)
Definition write_seq (lits : list N) (offset match_len : N) : list N :=
  let lit_len := nlen lits in
  let ml := match_len - MIN_MATCH in
  let hi := if 15 <=? lit_len then 240 else (16 * lit_len) mod 256 in
  let lo := if 15 <=? ml then 15 else ml mod 256 in
  [hi + lo]                                             (* *token = hi; ... *token |= lo; disjoint nibbles *)
    ++ (if 15 <=? lit_len then ext_of (lit_len - 15) else [])
    ++ lits
    ++ [offset mod 256; (offset / 256) mod 256]
    ++ (if 15 <=? ml then ext_of (ml - 15) else []).

(** the last literals *)
Definition write_last (lits : list N) : list N :=
  let last_run := nlen lits in
  (if 15 <=? last_run then 240 :: ext_of (last_run - 15) else [(16 * last_run) mod 256]) ++ lits.

(** lz4_count(p, match, limit): the number of equal bytes, p not reaching limit ([room] = limit - p,
    0 when p >= limit).  The C function compares 8 bytes at a time first; the result is that of the
    byte loop. *)
Fixpoint count (a b : list N) (room : nat) : nat :=
  match room with
  | O => O
  | S room' =>
      match a, b with
      | u :: a', v :: b' => if u =? v then S (count a' b' room') else O
      | _, _ => O
      end
  end.

(** carquet_lz4_compress_bound *)
Definition compress_bound (n : N) : N := n + n / 255 + 16.

Section Compress.
  Context {St : Type}.
  Variable look : St -> nat -> nat * St.
  Variable ins : St -> nat -> St.

  (** [olen] = op - dst.  The in-loop space checks of the C code are modelled ([Err ERR_COMP]); the
      writes are then checked against [cap] ([Fault OobWrite]) with the exact number of bytes. *)
  Fixpoint lloop (fuel : nat) (x : list N) (n : nat) (st : St) (ip anchor : nat) (olen cap : N)
    : res (list N) :=
    match fuel with
    | O => Fault OutOfFuel
    | S f =>
        if (ip + MINM <? n)%nat then                                    (* ip < mflimit = iend - MIN_MATCH *)
          let (ref, st1) := look st ip in
          if (ip <=? ref)%nat || (65535 <? N.of_nat (ip - ref)) then
            lloop f x n st1 (S ip) anchor olen cap
          else
            match rd32 x ref, rd32 x ip with
            | Some a, Some b =>
                if negb (a =? b) then lloop f x n st1 (S ip) anchor olen cap
                else
                  let lit_len := N.of_nat (ip - anchor) in
                  let mlen := (MINM + count (skipn (ip + MINM) x) (skipn (ref + MINM) x) (n - LASTL - (ip + MINM)))%nat in
                  if (n - LASTL <? ip + mlen)%nat then                  (* ip + match_len > iend - LAST_LITERALS *)
                    lloop f x n st1 (S ip) anchor olen cap
                  else
                    let match_len := N.of_nat mlen in
                    let max_out := 1 + lit_len / 255 + lit_len + 2 + match_len / 255 in
                    if cap <? olen + max_out then Err ERR_COMP
                    else
                      let sq := write_seq (slice x anchor ip) (N.of_nat (ip - ref)) match_len in
                      let olen' := olen + nlen sq in
                      if cap <? olen' then Fault OobWrite
                      else
                        let ip' := (ip + mlen)%nat in
                        let st2 := if (ip' + MINM <? n)%nat then ins st1 (ip' - 2)%nat else st1 in
                        let* rest := lloop f x n st2 ip' ip' olen' cap in
                        Ok (sq ++ rest)
            | _, _ => Fault OobRead
            end
        else
          let last_run := N.of_nat (n - anchor) in
          if cap <? olen + 1 + last_run / 255 + last_run then Err ERR_COMP
          else
            let out := write_last (slice x anchor n) in
            if cap <? olen + nlen out then Fault OobWrite else Ok out
    end.

  (** carquet_lz4_compress(src, |x|, dst, cap, &dst_size) *)
  Definition compress_with (st0 : St) (x : list N) (cap : N) : res (list N) :=
    let n := length x in
    if cap <? compress_bound (N.of_nat n) then Err ERR_COMP
    else if (n =? 0)%nat then (if cap <? 1 then Err ERR_COMP else Ok [0])
    else if N.of_nat n <? MIN_LENGTH then
      (* the branch for src_size >= 15 inside this block is dead (src_size < 13 here) *)
      if cap <? N.of_nat n + 1 then Err ERR_COMP else Ok ((16 * N.of_nat n) mod 256 :: x)
    else lloop (S n) x n st0 O O 0 cap.
End Compress.

(* ------------------------------------------------------------------ the concrete match finder *)

Definition HASH_MUL : N := 2654435761.
Definition lz4_hash (v : N) : N := ((v * HASH_MUL) mod 2 ^ 32) / 2 ^ (32 - Lz4_LZ4_HASH_LOG).

Definition compress (x : list N) (cap : N) : res (list N) :=
  compress_with (hash_look lz4_hash x) (hash_ins lz4_hash x) (PositiveMap.empty N) x cap.
