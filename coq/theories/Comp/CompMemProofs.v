(** Facts about the checked memory primitives of CompMem.v: under the guards that the C code places
    in front of them they do not fault, and they compute the specification-level operations. *)
From Coq Require Import NArith ZArith Arith List Bool Lia ZifyBool ZifyNat ZifyN.
From Carquet Require Import Base.Res Comp.CompBase Comp.CompMem.
Import ListNotations.
Local Open Scope N_scope.

Lemma rd_le_ok k : forall s, (k <= length s)%nat -> rd_le k s = Ok (le_val (firstn k s)).
Proof.
  induction k as [|k IH]; intros s H.
  - reflexivity.
  - destruct s as [|b t]; [simpl in H; lia|]. cbn [rd_le firstn le_val].
    rewrite IH by (simpl in H; lia). reflexivity.
Qed.

Lemma copy_lit_ok len r rout cap :
  len <= nlen r -> nlen rout + len <= cap ->
  copy_lit len r rout cap = Ok (skipn (N.to_nat len) r, rev_append (firstn (N.to_nat len) r) rout).
Proof.
  intros H1 H2. unfold copy_lit.
  destruct (nlen r <? len) eqn:E1; [lia|]. destruct (cap <? nlen rout + len) eqn:E2; [lia|]. reflexivity.
Qed.

Lemma copy_back_ocopy len d : forall rout cap,
  d < nlen rout -> nlen rout + N.of_nat len <= cap ->
  exists r, ocopy len d rout = Some r /\ copy_back len d rout cap = Ok r.
Proof.
  induction len as [|l IH]; intros rout cap Hd Hc.
  - exists rout. split; reflexivity.
  - cbn [ocopy copy_back]. destruct (nthN_lt_some rout d Hd) as [b ->].
    destruct (nlen rout <? cap) eqn:E; [|lia].
    apply IH; rewrite nlen_cons; lia.
Qed.

Lemma take_firstn_skipn {A} n (s : list A) :
  n <= nlen s -> take n s = Some (firstn (N.to_nat n) s, skipn (N.to_nat n) s).
Proof. intros H. unfold take. destruct (n <=? nlen s) eqn:E; [reflexivity|lia]. Qed.

Lemma take_none {A} n (s : list A) : nlen s < n -> take n s = None.
Proof. intros H. unfold take. destruct (n <=? nlen s) eqn:E; [lia|reflexivity]. Qed.

Lemma nlen_firstn {A} n (s : list A) : n <= nlen s -> nlen (firstn (N.to_nat n) s) = n.
Proof. unfold nlen. intros H. rewrite firstn_length. lia. Qed.

Lemma nlen_skipn {A} n (s : list A) : nlen (skipn n s) = nlen s - N.of_nat n.
Proof. unfold nlen. rewrite skipn_length. lia. Qed.

Lemma length_skipn_lt {A} n (s : list A) : (0 < n)%nat -> s <> [] -> (length (skipn n s) < length s)%nat.
Proof. intros Hn Hs. rewrite skipn_length. destruct s; [congruence|cbn [length]; lia]. Qed.
