(** Facts about the checked memory primitives of CompMem.v: under the guards that the C code places
    in front of them they do not fault, and they compute the specification-level operations. *)
From Coq Require Import NArith ZArith Arith List Bool Lia ZifyBool ZifyNat ZifyN.
From Carquet Require Import Base.Res Comp.CompBase Comp.CompMem.
Import ListNotations.
Local Open Scope N_scope.

Lemma rd_le_ok k : forall s, (k <= length s)%nat -> rd_le k s = Ok (le_val (firstn k s)).
Proof.
  induction k as [|k IH]; intros s H.
  - reflexivity.
  - destruct s as [|b t]; [simpl in H; lia|]. cbn [rd_le firstn le_val].
    rewrite IH by (simpl in H; lia). reflexivity.
Qed.

Lemma copy_lit_ok len r rout cap :
  len <= nlen r -> nlen rout + len <= cap ->
  copy_lit len r rout cap = Ok (skipn (N.to_nat len) r, rev_append (firstn (N.to_nat len) r) rout).
Proof.
  intros H1 H2. unfold copy_lit.
  destruct (nlen r <? len) eqn:E1; [lia|]. destruct (cap <? nlen rout + len) eqn:E2; [lia|]. reflexivity.
Qed.

Lemma copy_back_ocopy len d : forall rout cap,
  d < nlen rout -> nlen rout + N.of_nat len <= cap ->
  exists r, ocopy len d rout = Some r /\ copy_back len d rout cap = Ok r.
Proof.
  induction len as [|l IH]; intros rout cap Hd Hc.
  - exists rout. split; reflexivity.
  - cbn [ocopy copy_back]. destruct (nthN_lt_some rout d Hd) as [b ->].
    destruct (nlen rout <? cap) eqn:E; [|lia].
    apply IH; rewrite nlen_cons; lia.
Qed.

Lemma take_firstn_skipn {A} n (s : list A) :
  n <= nlen s -> take n s = Some (firstn (N.to_nat n) s, skipn (N.to_nat n) s).
Proof. intros H. unfold take. destruct (n <=? nlen s) eqn:E; [reflexivity|lia]. Qed.

Lemma take_none {A} n (s : list A) : nlen s < n -> take n s = None.
Proof. intros H. unfold take. destruct (n <=? nlen s) eqn:E; [lia|reflexivity]. Qed.

Lemma nlen_firstn {A} n (s : list A) : n <= nlen s -> nlen (firstn (N.to_nat n) s) = n.
Proof. unfold nlen. intros H. rewrite firstn_length. lia. Qed.

Lemma nlen_skipn {A} n (s : list A) : nlen (skipn n s) = nlen s - N.of_nat n.
Proof. unfold nlen. rewrite skipn_length. lia. Qed.

Lemma length_skipn_lt {A} n (s : list A) : (0 < n)%nat -> s <> [] -> (length (skipn n s) < length s)%nat.
Proof. intros Hn Hs. rewrite skipn_length. destruct s; [congruence|cbn [length]; lia]. Qed.

(* ================================================================== facts used by the compressor proofs *)

Lemma firstn_succ_nth {A} (x : list A) i b :
  nth_error x i = Some b -> firstn (S i) x = firstn i x ++ [b].
Proof.
  revert i. induction x as [|a t IH]; intros i H.
  - destruct i; discriminate.
  - destruct i as [|i].
    + injection H as <-. reflexivity.
    + cbn [firstn app]. f_equal. apply IH. exact H.
Qed.

Lemma nth_error_firstn_lt {A} (x : list A) i j : (j < i)%nat -> nth_error (firstn i x) j = nth_error x j.
Proof.
  revert i j. induction x as [|a t IH]; intros i j H.
  - rewrite firstn_nil. reflexivity.
  - destruct i; [lia|]. destruct j; [reflexivity|]. cbn [firstn nth_error]. apply IH. lia.
Qed.

(** the byte [d+1] positions back from the end of the first [ip] input bytes *)
Lemma nthN_rev_firstn (x : list N) ip d :
  (ip <= length x)%nat -> (d < ip)%nat ->
  nthN (rev (firstn ip x)) (N.of_nat d) = nth_error x (ip - 1 - d).
Proof.
  intros Hi Hd. rewrite nthN_nth_error.
  assert (HL : length (firstn ip x) = ip) by (rewrite firstn_length; lia).
  rewrite (nth_error_nth' (rev (firstn ip x)) 0) by (rewrite rev_length; lia).
  rewrite rev_nth by lia. rewrite HL.
  rewrite <- (nth_error_nth' (firstn ip x) 0) by lia.
  rewrite nth_error_firstn_lt by lia. f_equal. lia.
Qed.

(** LZ77 match: if the [len] bytes at [ip] equal the [len] bytes [off] positions earlier, the overlapping
    copy (offset [off], length [len]) appended to the first [ip] bytes gives the first [ip+len] bytes *)
Lemma ocopy_match (x : list N) off : forall len ip,
  (1 <= off)%nat -> (off <= ip)%nat -> (ip + len <= length x)%nat ->
  (forall k, (k < len)%nat -> nth_error x (ip - off + k) = nth_error x (ip + k)) ->
  ocopy len (N.of_nat (off - 1)) (rev (firstn ip x)) = Some (rev (firstn (ip + len) x)).
Proof.
  induction len as [|len IH]; intros ip H1 H2 H3 HM.
  - rewrite Nat.add_0_r. reflexivity.
  - cbn [ocopy]. rewrite nthN_rev_firstn by lia.
    replace (ip - 1 - (off - 1))%nat with (ip - off + 0)%nat by lia.
    rewrite HM by lia. rewrite Nat.add_0_r.
    destruct (nth_error x ip) as [b|] eqn:E; [|apply nth_error_None in E; lia].
    replace (b :: rev (firstn ip x)) with (rev (firstn (S ip) x))
      by (rewrite (firstn_succ_nth _ _ _ E), rev_app_distr; reflexivity).
    replace (ip + S len)%nat with (S ip + len)%nat by lia.
    apply IH; try lia.
    intros k Hk. replace (S ip - off + k)%nat with (ip - off + S k)%nat by lia.
    replace (S ip + k)%nat with (ip + S k)%nat by lia. apply HM. lia.
Qed.

Lemma skipn_nth_error {A} (x : list A) p k : nth_error (skipn p x) k = nth_error x (p + k).
Proof.
  revert x. induction p as [|p IH]; intros x; [reflexivity|].
  destruct x as [|a t]; [destruct k; reflexivity|]. cbn [skipn Nat.add nth_error]. apply IH.
Qed.

Lemma rd32_some x p : (p + 4 <= length x)%nat -> exists v, rd32 x p = Some v.
Proof.
  intros H. unfold rd32.
  assert (L : length (skipn p x) = (length x - p)%nat) by apply skipn_length.
  destruct (skipn p x) as [|a [|b [|c [|d r]]]]; simpl in L; try lia. eauto.
Qed.

(** equal 32-bit words mean the four bytes are equal *)
Lemma rd32_eq x p q v : bytes x -> rd32 x p = Some v -> rd32 x q = Some v ->
  forall k, (k < 4)%nat -> nth_error x (p + k) = nth_error x (q + k).
Proof.
  intros B Hp Hq k Hk. unfold rd32 in *. rewrite <- !skipn_nth_error.
  pose proof (bytes_skipn p x B) as Bp. pose proof (bytes_skipn q x B) as Bq.
  destruct (skipn p x) as [|a0 [|a1 [|a2 [|a3 ra]]]]; try discriminate.
  destruct (skipn q x) as [|b0 [|b1 [|b2 [|b3 rb]]]]; try discriminate.
  assert (Hq' : le_val [a0; a1; a2; a3] = le_val [b0; b1; b2; b3]) by congruence.
  clear Hp Hq. cbn [le_val] in Hq'.
  repeat (apply bytes_cons in Bp; destruct Bp as [? Bp]).
  repeat (apply bytes_cons in Bq; destruct Bq as [? Bq]).
  assert (a0 = b0 /\ a1 = b1 /\ a2 = b2 /\ a3 = b3) as (-> & -> & -> & ->) by lia.
  destruct k as [|[|[|[|k]]]]; try reflexivity. lia.
Qed.

Lemma slice_app_firstn (x : list N) a i :
  (a <= i)%nat -> firstn a x ++ slice x a i = firstn i x.
Proof.
  intros H. unfold slice. replace i with (a + (i - a))%nat at 2 by lia.
  rewrite <- (firstn_skipn a x) at 3. rewrite firstn_app.
  rewrite firstn_length.
  destruct (Nat.le_gt_cases a (length x)) as [L|G].
  - rewrite Nat.min_l by lia. rewrite firstn_firstn, Nat.min_r by lia.
    replace (a + (i - a) - a)%nat with (i - a)%nat by lia. reflexivity.
  - rewrite (skipn_all2 x) by lia. rewrite !firstn_nil, !app_nil_r.
    rewrite firstn_firstn. f_equal. lia.
Qed.

Lemma slice_length (x : list N) a i : (a <= i)%nat -> (i <= length x)%nat -> length (slice x a i) = (i - a)%nat.
Proof. intros H1 H2. unfold slice. rewrite firstn_length, skipn_length. lia. Qed.

Lemma bytes_slice x a i : bytes x -> bytes (slice x a i).
Proof. intros B. unfold slice. apply bytes_firstn, bytes_skipn, B. Qed.

