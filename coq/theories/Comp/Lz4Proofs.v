(** Proofs about the model of src/compression/lz4.c (Lz4Model.v) against the LZ4 block format
    (Lz4Spec.v). *)
From Coq Require Import NArith ZArith Arith List Bool Lia ZifyBool ZifyNat ZifyN.
From Carquet Require Import Base.Res Gen.Consts_gen Comp.CompBase Comp.CompMem Comp.CompMemProofs
  Comp.Lz4Spec Comp.Lz4Model.
Import ListNotations.
Local Open Scope N_scope.
Ltac Zify.zify_post_hook ::= Z.div_mod_to_equations.

(* ================================================================== one sequence *)

Lemma read_len_ext_spec s : forall acc, bytes s ->
  read_len_ext s acc = match parse_ext s acc with Some (v, r) => Ok (v, r) | None => Err ERR_DATA end.
Proof.
  induction s as [|b t IH]; intros acc B; [reflexivity|].
  apply bytes_cons in B. destruct B as [Hb Bt]. cbn [read_len_ext parse_ext].
  destruct (256 <=? b) eqn:E; [lia|]. destruct (b =? 255) eqn:E2.
  - replace (acc + b) with (acc + 255) by lia. apply IH. exact Bt.
  - reflexivity.
Qed.

Lemma parse_ext_suffix s : forall acc v r, parse_ext s acc = Some (v, r) ->
  exists p, s = p ++ r /\ (0 < length p)%nat.
Proof.
  induction s as [|b t IH]; intros acc v r H; [discriminate|]. cbn [parse_ext] in H.
  destruct (256 <=? b); [discriminate|]. destruct (b =? 255).
  - destruct (IH _ _ _ H) as (p & -> & Hp). exists (b :: p). split; [reflexivity|simpl; lia].
  - injection H as <- <-. exists [b]. split; [reflexivity|simpl; lia].
Qed.

Definition lz_step_ref (rest rout : list N) (cap : N) : res (option (list N) * list N) :=
  match parse_lits rest with
  | None => Err ERR_DATA
  | Some (tok, lits, r2) =>
      let rout1 := rev_append lits rout in
      if cap <? nlen rout1 then Err ERR_DATA
      else
        match r2 with
        | [] => Ok (None, rout1)
        | _ =>
            match parse_match tok r2 with
            | None => Err ERR_DATA
            | Some (off, mlen, r4) =>
                match exec_seq (Seq [] off mlen) rout1 with
                | None => Err ERR_DATA
                | Some rout2 => if nlen rout2 <=? cap then Ok (Some r4, rout2) else Err ERR_DATA
                end
            end
        end
  end.

Lemma MIN_MATCH_eq : MIN_MATCH = 4.
Proof. reflexivity. Qed.

Lemma lz_step_spec rest rout cap :
  bytes rest -> rest <> [] -> nlen rout <= cap -> lz_step rest rout cap = lz_step_ref rest rout cap.
Proof.
  intros B Hne Hc. destruct rest as [|tok r]; [congruence|].
  apply bytes_cons in B. destruct B as [Ht Br].
  unfold lz_step, lz_step_ref, parse_lits, parse_len. rewrite MIN_MATCH_eq.
  destruct (256 <=? tok) eqn:E256; [lia|].
  (* literal length *)
  assert (HLL : (if tok / 16 =? 15 then read_len_ext r (tok / 16) else Ok (tok / 16, r)) =
                match (if tok / 16 =? 15 then parse_ext r 15 else Some (tok / 16, r)) with
                | Some (v, r1) => Ok (v, r1) | None => Err ERR_DATA end).
  { destruct (tok / 16 =? 15) eqn:E; [|reflexivity].
    replace (tok / 16) with 15 by lia. apply read_len_ext_spec. exact Br. }
  rewrite HLL. clear HLL.
  destruct (if tok / 16 =? 15 then parse_ext r 15 else Some (tok / 16, r)) as [[ll r1]|] eqn:EL;
    [|reflexivity].
  cbn [bind fst snd].
  assert (Br1 : bytes r1).
  { destruct (tok / 16 =? 15).
    - destruct (parse_ext_suffix _ _ _ _ EL) as (p & -> & _). apply bytes_app in Br. apply Br.
    - injection EL as <- <-. exact Br. }
  (* literals *)
  assert (HLC : (if 0 <? ll
                 then if (nlen r1 <? ll) || (cap <? nlen rout + ll) then Err ERR_DATA
                      else copy_lit ll r1 rout cap
                 else Ok (r1, rout)) =
                match take ll r1 with
                | Some (lits, r2) =>
                    if cap <? nlen (rev_append lits rout) then Err ERR_DATA
                    else Ok (r2, rev_append lits rout)
                | None => Err ERR_DATA
                end).
  { destruct (0 <? ll) eqn:E0.
    - destruct (nlen r1 <? ll) eqn:E1; cbn [orb].
      + rewrite take_none by lia. reflexivity.
      + rewrite take_firstn_skipn by lia. rewrite nlen_rev_append, nlen_firstn by lia.
        destruct (cap <? nlen rout + ll) eqn:E2.
        * destruct (cap <? ll + nlen rout) eqn:E3; [reflexivity|lia].
        * destruct (cap <? ll + nlen rout) eqn:E3; [lia|]. apply copy_lit_ok; lia.
    - replace ll with 0 by lia. rewrite take_firstn_skipn by lia.
      cbn [N.to_nat firstn skipn rev_append]. destruct (cap <? nlen rout) eqn:E3; [lia|reflexivity]. }
  rewrite HLC. clear HLC.
  destruct (take ll r1) as [[lits r2]|] eqn:ET; [|reflexivity].
  destruct (cap <? nlen (rev_append lits rout)) eqn:EC; [reflexivity|].
  cbn [bind fst snd].
  apply take_spec in ET. destruct ET as [-> Hll].
  apply bytes_app in Br1. destruct Br1 as [Bl Br2].
  destruct r2 as [|b0 r2']; [reflexivity|].
  (* offset and match length *)
  destruct r2' as [|b1 r3].
  { cbn [parse_match]. replace (nlen [b0] <? 2) with true by (rewrite nlen_cons, nlen_nil; lia). reflexivity. }
  apply bytes_cons in Br2. destruct Br2 as [Hb0 Br2]. apply bytes_cons in Br2. destruct Br2 as [Hb1 Br3].
  replace (nlen (b0 :: b1 :: r3) <? 2) with false by (rewrite !nlen_cons; lia).
  cbn [rd_le bind skipn parse_match bytesb forallb].
  destruct (b0 <? 256) eqn:E0; [|lia]. destruct (b1 <? 256) eqn:E1; [|lia]. cbn [andb].
  replace (b0 + 256 * (b1 + 256 * 0)) with (b0 + 256 * b1) by lia.
  set (off := b0 + 256 * b1). set (rout1 := rev_append lits rout) in *.
  unfold parse_len.
  assert (HML : (if tok mod 16 =? 15 then read_len_ext r3 (tok mod 16 + 4) else Ok (tok mod 16 + 4, r3)) =
                match (if tok mod 16 =? 15 then parse_ext r3 15 else Some (tok mod 16, r3)) with
                | Some (ml, r4) => Ok (ml + 4, r4) | None => Err ERR_DATA end).
  { destruct (tok mod 16 =? 15) eqn:E; [|reflexivity].
    replace (tok mod 16 + 4) with 19 by lia. rewrite read_len_ext_spec by exact Br3.
    clear. revert r3. assert (G : forall s a, match parse_ext s (a + 4) with Some (v, r) => Ok (v, r) | None => Err ERR_DATA end
             = match parse_ext s a with Some (ml, r4) => @Ok (N * list N) (ml + 4, r4) | None => Err ERR_DATA end).
    { induction s as [|b t IH]; intros a; [reflexivity|]. cbn [parse_ext].
      destruct (256 <=? b); [reflexivity|]. destruct (b =? 255).
      - replace (a + 4 + 255) with (a + 255 + 4) by lia. apply IH.
      - do 2 f_equal. lia. }
    intros r3. apply (G r3 15). }
  destruct (off =? 0) eqn:EO.
  { cbn [orb]. destruct (if tok mod 16 =? 15 then parse_ext r3 15 else Some (tok mod 16, r3)) as [[ml r4]|];
      [|reflexivity]. cbn [exec_seq rev_append]. rewrite EO. reflexivity. }
  cbn [orb]. destruct (nlen rout1 <? off) eqn:EF.
  { destruct (if tok mod 16 =? 15 then parse_ext r3 15 else Some (tok mod 16, r3)) as [[ml r4]|];
      [|reflexivity]. cbn [exec_seq rev_append]. rewrite EO.
    rewrite ocopy_none; [reflexivity|lia|lia]. }
  rewrite HML. clear HML.
  destruct (if tok mod 16 =? 15 then parse_ext r3 15 else Some (tok mod 16, r3)) as [[ml r4]|];
    [|reflexivity].
  cbn [bind fst snd exec_seq rev_append]. rewrite EO.
  destruct (ocopy_some (N.to_nat (ml + 4)) (off - 1) rout1) as [r0 Hr0]; [lia|].
  pose proof (ocopy_len _ _ _ _ Hr0) as Hlen. rewrite Hr0.
  destruct (cap <? nlen rout1 + (ml + 4)) eqn:E2.
  - destruct (nlen r0 <=? cap) eqn:E3; [lia|reflexivity].
  - destruct (copy_back_ocopy (N.to_nat (ml + 4)) (off - 1) rout1 cap) as [r1' [Hr1 Hcb]]; [lia|lia|].
    rewrite Hcb. cbn [bind]. assert (r1' = r0) by congruence. subst r1'.
    destruct (nlen r0 <=? cap) eqn:E3; [reflexivity|lia].
Qed.

(* ================================================================== the decompression loop *)

Lemma exec_seq_mono q rout r : exec_seq q rout = Some r -> nlen rout <= nlen r.
Proof.
  destruct q as [lits off mlen]. cbn [exec_seq]. destruct (off =? 0); [discriminate|].
  intros H. apply ocopy_len in H. rewrite nlen_rev_append in H. lia.
Qed.

Lemma lrun_mono lax fuel : forall s rout fin, lrun lax fuel s rout = Some fin -> nlen rout <= nlen fin.
Proof.
  induction fuel as [|f IH]; intros s rout fin H; [discriminate|].
  cbn [lrun] in H. destruct s as [|a t].
  - destruct lax; [|discriminate]. injection H as <-. lia.
  - destruct (parse_lits (a :: t)) as [[[tok lits] r2]|]; [|discriminate].
    destruct r2 as [|c r2'].
    + injection H as <-. rewrite nlen_rev_append. lia.
    + destruct (parse_match tok (c :: r2')) as [[[off mlen] r4]|]; [|discriminate].
      destruct (exec_seq (Seq [] off mlen) (rev_append lits rout)) as [rout2|] eqn:EX; [|discriminate].
      apply IH in H. apply exec_seq_mono in EX. cbn [rev_append] in EX. rewrite nlen_rev_append in EX. lia.
Qed.

Definition lz_result (cap : N) (o : option (list N)) : res (list N) :=
  match o with
  | Some fin => if nlen fin <=? cap then Ok fin else Err ERR_DATA
  | None => Err ERR_DATA
  end.

Lemma lz_result_over lax fuel s rout cap :
  cap < nlen rout -> lz_result cap (lrun lax fuel s rout) = Err ERR_DATA.
Proof.
  intros H. unfold lz_result. destruct (lrun lax fuel s rout) as [fin|] eqn:E; [|reflexivity].
  apply lrun_mono in E. destruct (nlen fin <=? cap) eqn:E2; [lia|reflexivity].
Qed.

Lemma parse_lits_suffix s tok lits r2 :
  parse_lits s = Some (tok, lits, r2) -> exists p, s = p ++ r2 /\ (0 < length p)%nat.
Proof.
  intros H. destruct (parse_lits_sound _ _ _ _ H) as (lext & _ & _ & ->).
  exists (tok :: lext ++ lits). split; [cbn [app]; rewrite <- app_assoc; reflexivity|simpl; lia].
Qed.

Lemma parse_match_suffix tok s off mlen r4 :
  parse_match tok s = Some (off, mlen, r4) -> exists p, s = p ++ r4 /\ (0 < length p)%nat.
Proof.
  intros H. destruct (parse_match_sound _ _ _ _ _ H) as (mext & _ & _ & _ & ->).
  exists ([off mod 256; off / 256] ++ mext). split; [rewrite <- app_assoc; reflexivity|simpl; lia].
Qed.

Lemma lz_loop_spec fuel : forall rest rout cap,
  bytes rest -> (length rest < fuel)%nat -> nlen rout <= cap ->
  lz_loop fuel rest rout cap = lz_result cap (lrun true fuel rest rout).
Proof.
  induction fuel as [|f IH]; intros rest rout cap B Hf Hc; [lia|].
  cbn [lz_loop lrun]. destruct rest as [|a t].
  - unfold lz_result. destruct (nlen rout <=? cap) eqn:E; [reflexivity|lia].
  - rewrite lz_step_spec by (assumption || discriminate). unfold lz_step_ref.
    destruct (parse_lits (a :: t)) as [[[tok lits] r2]|] eqn:EP; [|reflexivity].
    destruct (parse_lits_suffix _ _ _ _ EP) as (p1 & Es1 & Hp1).
    assert (Br2 : bytes r2) by (rewrite Es1 in B; apply bytes_app in B; apply B).
    assert (Hl2 : (length r2 < length (a :: t))%nat) by (rewrite Es1, app_length; lia).
    cbv zeta. destruct (cap <? nlen (rev_append lits rout)) eqn:EC.
    { cbn [bind]. symmetry. destruct r2 as [|c r2'].
      - unfold lz_result. destruct (nlen (rev_append lits rout) <=? cap) eqn:E; [lia|reflexivity].
      - destruct (parse_match tok (c :: r2')) as [[[off mlen] r4]|]; [|reflexivity].
        destruct (exec_seq (Seq [] off mlen) (rev_append lits rout)) as [rout2|] eqn:EX; [|reflexivity].
        apply lz_result_over. apply exec_seq_mono in EX. cbn [rev_append] in EX. lia. }
    destruct r2 as [|c r2'].
    { cbn [bind fst snd]. unfold lz_result.
      destruct (nlen (rev_append lits rout) <=? cap) eqn:E; [reflexivity|lia]. }
    destruct (parse_match tok (c :: r2')) as [[[off mlen] r4]|] eqn:EM; [|reflexivity].
    destruct (parse_match_suffix _ _ _ _ _ EM) as (p2 & Es2 & Hp2).
    destruct (exec_seq (Seq [] off mlen) (rev_append lits rout)) as [rout2|] eqn:EX; [|reflexivity].
    destruct (nlen rout2 <=? cap) eqn:E2.
    + cbn [bind fst snd]. apply IH.
      * rewrite Es2 in Br2. apply bytes_app in Br2. apply Br2.
      * rewrite Es2, app_length in Hl2. cbn [length] in *. lia.
      * lia.
    + cbn [bind]. symmetry. apply lz_result_over. lia.
Qed.

(** The decompressor model is the (lax) specification decoder followed by the capacity test. *)
Theorem lz4_decompress_eq_spec s cap : bytes s ->
  decompress s cap =
  match spec_decode_lax s with
  | Some x => if nlen x <=? cap then Ok x else Err ERR_DATA
  | None => Err ERR_DATA
  end.
Proof.
  intros B. unfold decompress, spec_decode_lax.
  rewrite lz_loop_spec; [|exact B|lia|rewrite nlen_nil; lia].
  unfold lz_result. destruct (lrun true (S (length s)) s []) as [fin|]; [|reflexivity].
  rewrite !frev_rev, nlen_rev. destruct (nlen fin <=? cap); cbn [bind]; rewrite ?frev_rev; reflexivity.
Qed.

(** Every valid LZ4 block (any literal/match length extension, any offset 1..65535, overlapping
    matches, matches that end at the buffer end) is decoded to the bytes it denotes. *)
Theorem lz4_decompress_complete_thm : forall s x cap,
  bytes s -> DenotesLz4 s x -> nlen x <= cap -> decompress s cap = Ok x.
Proof.
  intros s x cap B HD Hc. rewrite lz4_decompress_eq_spec by exact B.
  apply spec_decode_complete in HD. unfold spec_decode in HD. unfold spec_decode_lax.
  destruct (lrun false (S (length s)) s []) as [rout|] eqn:E; [|discriminate]. injection HD as <-.
  rewrite (lrun_lax_mono _ _ _ _ E). destruct (nlen (frev rout) <=? cap) eqn:E2; [reflexivity|lia].
Qed.

(** What the decompressor accepts is a valid block, or a series of complete sequences that stops
    right after a match (which the format allows a decoder to accept or reject); the bytes returned
    are the denoted ones and fit the destination. *)
Theorem lz4_decompress_sound_thm : forall s x cap,
  bytes s -> decompress s cap = Ok x -> (DenotesLz4 s x \/ DenotesLz4Open s x) /\ nlen x <= cap.
Proof.
  intros s x cap B. rewrite lz4_decompress_eq_spec by exact B.
  destruct (spec_decode_lax s) as [y|] eqn:E; [|discriminate].
  destruct (nlen y <=? cap) eqn:E2; [|discriminate]. intros H; injection H as <-.
  split; [apply spec_decode_lax_sound; exact E|lia].
Qed.

(** Never a read outside [src, src+len) nor a write outside [dst, dst+cap); the loop terminates
    within |s|+1 iterations.  (Shared with C08.) *)
Theorem lz4_decompress_never_faults_thm : forall s cap f, bytes s -> decompress s cap <> Fault f.
Proof.
  intros s cap f B. rewrite lz4_decompress_eq_spec by exact B.
  destruct (spec_decode_lax s) as [y|]; [|discriminate]. destruct (nlen y <=? cap); discriminate.
Qed.

(** Streams outside the grammar (offset 0, offset beyond the bytes produced, truncated token /
    length / offset / literals) and outputs larger than the destination are refused. *)
Theorem lz4_decompress_rejects_invalid_thm : forall s cap,
  bytes s -> (forall x, ~ DenotesLz4 s x /\ ~ DenotesLz4Open s x) -> exists c, decompress s cap = Err c.
Proof.
  intros s cap B Hn. destruct (decompress s cap) as [x|c|f] eqn:E.
  - exfalso. destruct (lz4_decompress_sound_thm _ _ _ B E) as [[H|H] _]; [apply (proj1 (Hn x))|apply (proj2 (Hn x))]; exact H.
  - eauto.
  - exfalso. eapply lz4_decompress_never_faults_thm; eassumption.
Qed.

Theorem lz4_decompress_small_dst_refused_thm : forall s x cap,
  bytes s -> DenotesLz4 s x -> cap < nlen x -> decompress s cap = Err ERR_DATA.
Proof.
  intros s x cap B HD Hc. rewrite lz4_decompress_eq_spec by exact B.
  apply spec_decode_complete in HD. unfold spec_decode in HD. unfold spec_decode_lax.
  destruct (lrun false (S (length s)) s []) as [rout|] eqn:E; [|discriminate]. injection HD as <-.
  rewrite (lrun_lax_mono _ _ _ _ E). destruct (nlen (frev rout) <=? cap) eqn:E2; [lia|reflexivity].
Qed.

(** non-trivial instance: 255-run literal length, offset-1 overlap, match length extension *)
Example lz4_denotes_example :
  DenotesLz4 ([16 * 1 + 15; 7; 1; 0; 3; 16 * 2 + 0; 8; 9] ) (repeat 7 23 ++ [8; 9]).
Proof. apply spec_decode_sound. vm_compute. reflexivity. Qed.

(* ================================================================== compression: the writers *)

Lemma ext_bytes_spec fuel : forall rem, (N.to_nat (rem / 255) < fuel)%nat ->
  ext_bytes fuel rem = repeat 255 (N.to_nat (rem / 255)) ++ [rem mod 255].
Proof.
  induction fuel as [|f IH]; intros rem H; [lia|].
  cbn [ext_bytes]. destruct (255 <=? rem) eqn:E.
  - rewrite IH by lia.
    replace (N.to_nat (rem / 255)) with (S (N.to_nat ((rem - 255) / 255))) by lia.
    cbn [repeat app]. do 3 f_equal. lia.
  - replace (N.to_nat (rem / 255)) with O by lia. cbn [repeat app]. f_equal. lia.
Qed.

Lemma ext_of_spec rem : ext_of rem = repeat 255 (N.to_nat (rem / 255)) ++ [rem mod 255].
Proof. unfold ext_of. apply ext_bytes_spec. lia. Qed.

Lemma nlen_repeat {A} (a : A) k : nlen (repeat a k) = N.of_nat k.
Proof. unfold nlen. rewrite repeat_length. reflexivity. Qed.

Lemma ext_of_len rem : nlen (ext_of rem) = rem / 255 + 1.
Proof. rewrite ext_of_spec, nlen_app, nlen_repeat, nlen_cons, nlen_nil. lia. Qed.

(** the (nibble, extension) pair written for a length [v] *)
Lemma enc_len_written v :
  EncLen (if 15 <=? v then 15 else v) (if 15 <=? v then ext_of (v - 15) else []) v.
Proof.
  destruct (15 <=? v) eqn:E.
  - rewrite ext_of_spec.
    replace v with (15 + 255 * N.of_nat (N.to_nat ((v - 15) / 255)) + (v - 15) mod 255) at 3 by lia.
    constructor. lia.
  - constructor. lia.
Qed.

Lemma write_seq_enc lits off mlen :
  4 <= mlen -> off < 65536 -> EncSeq (Seq lits off mlen) (write_seq lits off mlen).
Proof.
  intros Hm Ho. unfold write_seq. rewrite MIN_MATCH_eq.
  pose proof (enc_len_written (nlen lits)) as HL. pose proof (enc_len_written (mlen - 4)) as HM.
  replace ((if 15 <=? nlen lits then 240 else (16 * nlen lits) mod 256) + (if 15 <=? mlen - 4 then 15 else (mlen - 4) mod 256))
    with (16 * (if 15 <=? nlen lits then 15 else nlen lits) + (if 15 <=? mlen - 4 then 15 else mlen - 4))
    by (destruct (15 <=? nlen lits) eqn:E1; destruct (15 <=? mlen - 4) eqn:E2; lia).
  replace ((off / 256) mod 256) with (off / 256) by lia.
  cbn [app]. constructor; assumption.
Qed.

Lemma write_last_enc lits : EncLast lits (write_last lits).
Proof.
  unfold write_last. pose proof (enc_len_written (nlen lits)) as HL.
  destruct (15 <=? nlen lits) eqn:E.
  - cbn [app]. change 240 with (16 * 15 + 0). constructor; [exact HL|lia].
  - cbn [app]. replace ((16 * nlen lits) mod 256) with (16 * nlen lits + 0) by lia.
    assert (H0 : 0 < 16) by lia. exact (ELast lits (nlen lits) [] 0 HL H0).
Qed.

Lemma write_seq_len lits off mlen :
  nlen (write_seq lits off mlen) =
  3 + nlen lits + (if 15 <=? nlen lits then (nlen lits - 15) / 255 + 1 else 0)
    + (if 15 <=? mlen - 4 then (mlen - 4 - 15) / 255 + 1 else 0).
Proof.
  unfold write_seq. rewrite MIN_MATCH_eq. rewrite !nlen_app, !nlen_cons, !nlen_nil.
  destruct (15 <=? nlen lits); destruct (15 <=? mlen - 4); rewrite ?ext_of_len; try change (nlen (@nil N)) with 0; lia.
Qed.

Lemma write_last_len lits :
  nlen (write_last lits) = 1 + nlen lits + (if 15 <=? nlen lits then (nlen lits - 15) / 255 + 1 else 0).
Proof.
  unfold write_last. rewrite nlen_app. destruct (15 <=? nlen lits).
  - rewrite nlen_cons, ext_of_len. lia.
  - rewrite nlen_cons, nlen_nil. lia.
Qed.

Lemma EncLen_bytes nib ext v : EncLen nib ext v -> bytes ext.
Proof.
  intros H. inversion H; subst; [constructor|].
  apply bytes_app. split; [|apply bytes_cons; split; [lia|constructor]].
  unfold bytes. apply Forall_forall. intros y Hy. apply repeat_spec in Hy. subst. lia.
Qed.

Lemma EncSeq_bytes lits off mlen enc : EncSeq (Seq lits off mlen) enc -> bytes lits -> bytes enc.
Proof.
  intros H B. inversion H as [l o m ln lext mn mext HL Hm HM Ho]; subst.
  pose proof (EncLen_nib _ _ _ HL). pose proof (EncLen_nib _ _ _ HM).
  apply bytes_cons. split; [lia|]. apply bytes_app. split; [eapply EncLen_bytes; exact HL|].
  apply bytes_app. split; [exact B|]. apply bytes_cons. split; [lia|]. apply bytes_cons. split; [lia|].
  eapply EncLen_bytes; exact HM.
Qed.

Lemma EncLast_bytes lits last : EncLast lits last -> bytes lits -> bytes last.
Proof.
  intros H B. inversion H as [l ln lext mn HL Hm]; subst. pose proof (EncLen_nib _ _ _ HL).
  apply bytes_cons. split; [lia|]. apply bytes_app. split; [eapply EncLen_bytes; exact HL|exact B].
Qed.

(** lz4_count: the bytes agree, within the input and within the room left before matchlimit *)
Lemma count_spec a : forall b room k, (k < count a b room)%nat -> nth_error a k = nth_error b k.
Proof.
  induction a as [|u a' IH]; intros b room k H.
  - destruct room; simpl in H; lia.
  - destruct room as [|room]; [simpl in H; lia|]. destruct b as [|v b']; [simpl in H; lia|].
    cbn [count] in H. destruct (u =? v) eqn:E; [|lia].
    destruct k as [|k]; cbn [nth_error]; [f_equal; lia|]. apply (IH b' room). lia.
Qed.

Lemma count_le a : forall b room, (count a b room <= room)%nat.
Proof.
  induction a as [|u a' IH]; intros b room; destruct room as [|room]; try (simpl; lia).
  destruct b as [|v b']; [simpl; lia|]. cbn [count]. destruct (u =? v); [specialize (IH b' room); lia|lia].
Qed.

Lemma MINM_eq : MINM = 4%nat. Proof. reflexivity. Qed.
Lemma LASTL_eq : LASTL = 12%nat. Proof. reflexivity. Qed.
Lemma MIN_LENGTH_eq : MIN_LENGTH = 13. Proof. reflexivity. Qed.

(* ================================================================== compression: the main loop *)

Section CompressProofs.
  Context {St : Type}.
  Variable look : St -> nat -> nat * St.
  Variable ins : St -> nat -> St.

  (** Invariant of the main loop for EVERY match finder.  [255 * olen <= 256 * anchor] is the cost
      argument behind carquet_lz4_compress_bound; [anchor = 0 \/ anchor + 12 <= n] is the last-literals
      margin that gives the end-of-block rules. *)
  Lemma lloop_valid (x : list N) (n : nat) : n = length x -> bytes x -> (13 <= n)%nat ->
    forall cap, compress_bound (N.of_nat n) <= cap ->
    forall fuel st ip anchor olen, (anchor <= ip)%nat -> (ip <= n)%nat -> (n - ip < fuel)%nat ->
      255 * olen <= 256 * N.of_nat anchor -> (anchor = 0 \/ anchor + 12 <= n)%nat ->
      exists out qs lits body last,
        lloop look ins fuel x n st ip anchor olen cap = Ok out /\ out = body ++ last /\
        EncSeqs qs body /\ EncLast lits last /\
        (exists r, exec_seqs qs (rev (firstn anchor x)) = Some r /\ rev_append lits r = rev x) /\
        ((anchor <> 0%nat \/ qs <> []) -> 12 <= nlen lits) /\
        255 * (olen + nlen out) <= 256 * N.of_nat n + 495 /\ bytes out.
  Proof.
    intros Hn B H13 cap Hcap. unfold compress_bound in Hcap.
    induction fuel as [|f IH]; intros st ip anchor olen Ha Hi Hf Hinv Hend; [lia|].
    cbn [lloop]. rewrite ?MINM_eq, ?LASTL_eq. destruct (ip + 4 <? n)%nat eqn:E4.
    - destruct (look st ip) as [ref st1].
      destruct ((ip <=? ref)%nat || (65535 <? N.of_nat (ip - ref))) eqn:Eskip.
      { apply IH; try assumption; lia. }
      destruct (rd32_some x ref) as [a Ea]; [lia|]. destruct (rd32_some x ip) as [b Eb]; [lia|].
      rewrite Ea, Eb. destruct (negb (a =? b)) eqn:Eab.
      { apply IH; try assumption; lia. }
      assert (a = b) by lia. subst b. clear Eab.
      set (ext := count (skipn (ip + 4) x) (skipn (ref + 4) x) (n - 12 - (ip + 4))).
      set (mlen := (4 + ext)%nat).
      destruct (n - 12 <? ip + mlen)%nat eqn:Emargin.
      { apply IH; try assumption; lia. }
      assert (HM : forall k, (k < mlen)%nat -> nth_error x (ip - (ip - ref) + k) = nth_error x (ip + k)).
      { intros k Hk. replace (ip - (ip - ref))%nat with ref by lia.
        destruct (Nat.lt_ge_cases k 4) as [L|G].
        - apply (rd32_eq x ref ip a B Ea Eb k L).
        - pose proof (count_spec (skipn (ip + 4) x) (skipn (ref + 4) x) (n - 12 - (ip + 4)) (k - 4)) as P.
          rewrite !skipn_nth_error in P.
          replace (ip + 4 + (k - 4))%nat with (ip + k)%nat in P by lia.
          replace (ref + 4 + (k - 4))%nat with (ref + k)%nat in P by lia.
          symmetry. apply P. fold ext. lia. }
      assert (HO : ocopy mlen (N.of_nat (ip - ref - 1)) (rev (firstn ip x)) = Some (rev (firstn (ip + mlen) x))).
      { apply ocopy_match; try lia. exact HM. }
      set (lits := slice x anchor ip).
      assert (HSL : nlen lits = N.of_nat (ip - anchor)) by (unfold nlen, lits; rewrite slice_length; lia).
      pose proof (write_seq_len lits (N.of_nat (ip - ref)) (N.of_nat mlen)) as HWL. rewrite HSL in HWL.
      set (sq := write_seq lits (N.of_nat (ip - ref)) (N.of_nat mlen)) in *.
      (* cost of this sequence: at most 256/255 of the input it covers *)
      assert (Hcost : 255 * nlen sq <= 256 * (N.of_nat (ip - anchor) + N.of_nat mlen)).
      { rewrite HWL. destruct (15 <=? N.of_nat (ip - anchor)) eqn:C1; destruct (15 <=? N.of_nat mlen - 4) eqn:C2; lia. }
      assert (Hmax : 1 + N.of_nat (ip - anchor) / 255 + N.of_nat (ip - anchor) + 2 + N.of_nat mlen / 255 <= nlen sq).
      { rewrite HWL. destruct (15 <=? N.of_nat (ip - anchor)) eqn:C1; destruct (15 <=? N.of_nat mlen - 4) eqn:C2; lia. }
      destruct (cap <? olen + (1 + N.of_nat (ip - anchor) / 255 + N.of_nat (ip - anchor) + 2 + N.of_nat mlen / 255)) eqn:Echeck; [lia|].
      destruct (cap <? olen + nlen sq) eqn:Ewrite; [lia|].
      destruct (IH (if (ip + mlen + 4 <? n)%nat then ins st1 (ip + mlen - 2)%nat else st1)
                   (ip + mlen)%nat (ip + mlen)%nat (olen + nlen sq))
        as (out' & qs & ll & body & last & Hrun & Hout & Hqs & Hlast & (r & Hx & Hr) & Hend' & Hb' & Bo');
        [lia|lia|lia|lia|lia|].
      rewrite Hrun. cbn [bind].
      assert (HQ : EncSeq (Seq lits (N.of_nat (ip - ref)) (N.of_nat mlen)) sq) by (apply write_seq_enc; lia).
      exists (sq ++ out'), (Seq lits (N.of_nat (ip - ref)) (N.of_nat mlen) :: qs), ll, (sq ++ body), last.
      split; [reflexivity|]. split; [rewrite Hout, app_assoc; reflexivity|].
      split; [constructor; assumption|]. split; [exact Hlast|]. split; [|split; [|split]].
      + exists r. split; [|exact Hr]. cbn [exec_seqs exec_seq].
        destruct (N.of_nat (ip - ref) =? 0) eqn:E0; [lia|].
        rewrite rev_append_rev, <- rev_app_distr. unfold lits. rewrite slice_app_firstn by lia.
        rewrite Nat2N.id. replace (N.of_nat (ip - ref) - 1) with (N.of_nat (ip - ref - 1)) by lia.
        rewrite HO. exact Hx.
      + intros _. apply Hend'. left. lia.
      + rewrite nlen_app. lia.
      + apply bytes_app. split; [|exact Bo']. eapply EncSeq_bytes; [exact HQ|apply bytes_slice; exact B].
    - (* last literals *)
      set (lits := slice x anchor n).
      assert (HSL : nlen lits = N.of_nat (n - anchor)) by (unfold nlen, lits; rewrite slice_length; lia).
      pose proof (write_last_len lits) as HWL. rewrite HSL in HWL.
      destruct (cap <? olen + 1 + N.of_nat (n - anchor) / 255 + N.of_nat (n - anchor)) eqn:Echeck; [lia|].
      destruct (cap <? olen + nlen (write_last lits)) eqn:Ewrite.
      { rewrite HWL in Ewrite. destruct (15 <=? N.of_nat (n - anchor)) eqn:C1; lia. }
      exists (write_last lits), [], lits, [], (write_last lits).
      split; [reflexivity|]. split; [reflexivity|]. split; [constructor|]. split; [apply write_last_enc|].
      split; [|split; [|split]].
      + exists (rev (firstn anchor x)). split; [reflexivity|].
        rewrite rev_append_rev, <- rev_app_distr. unfold lits. rewrite slice_app_firstn by lia.
        rewrite Hn, firstn_all. reflexivity.
      + intros [H|H]; [|congruence]. rewrite HSL. lia.
      + rewrite HWL. destruct (15 <=? N.of_nat (n - anchor)) eqn:C1; lia.
      + eapply EncLast_bytes; [apply write_last_enc|apply bytes_slice; exact B].
  Qed.
End CompressProofs.

(* ================================================================== theorems about compress *)

(** For every match finder and every input, with a destination of at least carquet_lz4_compress_bound
    bytes: the call succeeds (the in-loop space checks never fire and no write passes the
    destination), the output is a valid LZ4 block denoting the input and respecting the end-of-block
    rules, consists of bytes, and is no longer than the bound. *)
Theorem lz4_compress_valid_thm : forall (St : Type) (look : St -> nat -> nat * St) (ins : St -> nat -> St)
    (st0 : St) (x : list N) (cap : N),
  bytes x -> compress_bound (nlen x) <= cap ->
  exists out, compress_with look ins st0 x cap = Ok out /\ ValidLz4Output out x /\ bytes out /\
              nlen out <= compress_bound (nlen x).
Proof.
  intros St look ins st0 x cap B Hcap. unfold compress_with. fold (nlen x).
  destruct (cap <? compress_bound (nlen x)) eqn:E; [lia|]. unfold compress_bound in *.
  destruct (length x =? 0)%nat eqn:E0.
  { destruct x; [|simpl in E0; lia]. change (nlen (@nil N)) with 0 in *.
    destruct (cap <? 1) eqn:E1; [lia|]. exists [0]. split; [reflexivity|]. split; [|split].
    - exists [], []. split; [|split; [reflexivity|exact I]].
      exists [], [0]. split; [reflexivity|]. split; [constructor|].
      assert (H0 : 0 < 15) by lia. assert (H1 : 0 < 16) by lia.
      exact (ELast [] 0 [] 0 (EL_short 0 H0) H1).
    - apply bytes_cons. split; [lia|constructor].
    - rewrite nlen_cons. change (nlen (@nil N)) with 0. lia. }
  rewrite MIN_LENGTH_eq. destruct (nlen x <? 13) eqn:E13.
  { destruct (cap <? nlen x + 1) eqn:E1; [lia|].
    exists ((16 * nlen x) mod 256 :: x). split; [reflexivity|].
    assert (HL : EncLast x ((16 * nlen x) mod 256 :: x)).
    { replace ((16 * nlen x) mod 256) with (16 * nlen x + 0) by lia.
      assert (H0 : nlen x < 15) by lia. assert (H1 : 0 < 16) by lia.
      exact (ELast x (nlen x) [] 0 (EL_short (nlen x) H0) H1). }
    split; [|split].
    - exists [], x. split; [exists [], ((16 * nlen x) mod 256 :: x); split; [reflexivity|split; [constructor|exact HL]]|].
      split; [|exact I]. unfold exec_block. cbn [exec_seqs]. rewrite rev_append_rev, app_nil_r, rev_involutive. reflexivity.
    - eapply EncLast_bytes; eassumption.
    - rewrite nlen_cons. lia. }
  destruct (lloop_valid look ins x (length x) eq_refl B ltac:(unfold nlen in *; lia) cap Hcap
              (S (length x)) st0 O O 0)
    as (out & qs & lits & body & last & Hrun & Hout & Hqs & Hlast & (r & Hx & Hr) & Hend & Hb & Bo);
    [lia|lia|lia|lia|lia|].
  exists out. split; [exact Hrun|]. split; [|split; [exact Bo|unfold nlen in *; lia]].
  exists qs, lits. split; [exists body, last; auto|]. split.
  - unfold exec_block. cbn [firstn rev] in Hx. rewrite Hx, Hr, rev_involutive. reflexivity.
  - unfold end_rules. destruct (rev qs) as [|q t] eqn:ER; [exact I|].
    assert (qs <> []) by (intros ->; discriminate).
    assert (12 <= nlen lits) by (apply Hend; right; assumption). lia.
Qed.

Lemma valid_output_denotes s x : ValidLz4Output s x -> DenotesLz4 s x.
Proof. intros (qs & lits & HB & Hx & _). exists qs, lits. auto. Qed.

(** C09: compress into a buffer of the advertised bound, decompress into exactly len(x) bytes *)
Theorem lz4_roundtrip_thm : forall (St : Type) (look : St -> nat -> nat * St) (ins : St -> nat -> St)
    (st0 : St) (x : list N) (cap : N),
  bytes x -> compress_bound (nlen x) <= cap ->
  exists out, compress_with look ins st0 x cap = Ok out /\ nlen out <= compress_bound (nlen x) /\
              decompress out (nlen x) = Ok x.
Proof.
  intros St look ins st0 x cap B Hcap.
  destruct (lz4_compress_valid_thm St look ins st0 x cap B Hcap) as (out & Hc & HV & Bo & Hb).
  exists out. split; [exact Hc|]. split; [exact Hb|].
  apply lz4_decompress_complete_thm; [exact Bo|apply valid_output_denotes; exact HV|lia].
Qed.

(** C09: a destination smaller than the bound is refused before anything is written *)
Theorem lz4_compress_small_dst_refused_thm : forall (St : Type) (look : St -> nat -> nat * St)
    (ins : St -> nat -> St) (st0 : St) (x : list N) (cap : N),
  cap < compress_bound (nlen x) -> compress_with look ins st0 x cap = Err ERR_COMP.
Proof.
  intros St look ins st0 x cap H. unfold compress_with. fold (nlen x).
  destruct (cap <? compress_bound (nlen x)) eqn:E; [reflexivity|lia].
Qed.

Example lz4_compress_example :
  let x := repeat 7 40 ++ [1; 2; 3] ++ repeat 7 40 in
  exists out, compress x 200 = Ok out /\ (length out < length x)%nat /\ spec_decode out = Some x
              /\ check_end_rules out = true.
Proof.
  eexists. split; [vm_compute; reflexivity|]. split; [vm_compute; lia|]. split; vm_compute; reflexivity.
Qed.

Theorem lz4_compress_spec_decode_thm : forall (St : Type) (look : St -> nat -> nat * St) (ins : St -> nat -> St)
    (st0 : St) (x : list N) (cap : N),
  bytes x -> compress_bound (nlen x) <= cap ->
  exists out, compress_with look ins st0 x cap = Ok out /\ ValidLz4Output out x /\ spec_decode out = Some x.
Proof.
  intros St look ins st0 x cap B H.
  destruct (lz4_compress_valid_thm St look ins st0 x cap B H) as (out & Hc & HV & _).
  exists out. split; [exact Hc|]. split; [exact HV|].
  apply spec_decode_complete, valid_output_denotes, HV.
Qed.
