(** Proofs about the model of src/compression/lz4.c (Lz4Model.v) against the LZ4 block format
    (Lz4Spec.v). *)
From Coq Require Import NArith ZArith Arith List Bool Lia ZifyBool ZifyNat ZifyN.
From Carquet Require Import Base.Res Gen.Consts_gen Comp.CompBase Comp.CompMem Comp.CompMemProofs
  Comp.Lz4Spec Comp.Lz4Model.
Import ListNotations.
Local Open Scope N_scope.
Ltac Zify.zify_post_hook ::= Z.div_mod_to_equations.

(* ================================================================== one sequence *)

Lemma read_len_ext_spec s : forall acc, bytes s ->
  read_len_ext s acc = match parse_ext s acc with Some (v, r) => Ok (v, r) | None => Err ERR_DATA end.
Proof.
  induction s as [|b t IH]; intros acc B; [reflexivity|].
  apply bytes_cons in B. destruct B as [Hb Bt]. cbn [read_len_ext parse_ext].
  destruct (256 <=? b) eqn:E; [lia|]. destruct (b =? 255) eqn:E2.
  - replace (acc + b) with (acc + 255) by lia. apply IH. exact Bt.
  - reflexivity.
Qed.

Lemma parse_ext_suffix s : forall acc v r, parse_ext s acc = Some (v, r) ->
  exists p, s = p ++ r /\ (0 < length p)%nat.
Proof.
  induction s as [|b t IH]; intros acc v r H; [discriminate|]. cbn [parse_ext] in H.
  destruct (256 <=? b); [discriminate|]. destruct (b =? 255).
  - destruct (IH _ _ _ H) as (p & -> & Hp). exists (b :: p). split; [reflexivity|simpl; lia].
  - injection H as <- <-. exists [b]. split; [reflexivity|simpl; lia].
Qed.

Definition lz_step_ref (rest rout : list N) (cap : N) : res (option (list N) * list N) :=
  match parse_lits rest with
  | None => Err ERR_DATA
  | Some (tok, lits, r2) =>
      let rout1 := rev_append lits rout in
      if cap <? nlen rout1 then Err ERR_DATA
      else
        match r2 with
        | [] => Ok (None, rout1)
        | _ =>
            match parse_match tok r2 with
            | None => Err ERR_DATA
            | Some (off, mlen, r4) =>
                match exec_seq (Seq [] off mlen) rout1 with
                | None => Err ERR_DATA
                | Some rout2 => if nlen rout2 <=? cap then Ok (Some r4, rout2) else Err ERR_DATA
                end
            end
        end
  end.

Lemma MIN_MATCH_eq : MIN_MATCH = 4.
Proof. reflexivity. Qed.

Lemma lz_step_spec rest rout cap :
  bytes rest -> rest <> [] -> nlen rout <= cap -> lz_step rest rout cap = lz_step_ref rest rout cap.
Proof.
  intros B Hne Hc. destruct rest as [|tok r]; [congruence|].
  apply bytes_cons in B. destruct B as [Ht Br].
  unfold lz_step, lz_step_ref, parse_lits, parse_len. rewrite MIN_MATCH_eq.
  destruct (256 <=? tok) eqn:E256; [lia|].
  (* literal length *)
  assert (HLL : (if tok / 16 =? 15 then read_len_ext r (tok / 16) else Ok (tok / 16, r)) =
                match (if tok / 16 =? 15 then parse_ext r 15 else Some (tok / 16, r)) with
                | Some (v, r1) => Ok (v, r1) | None => Err ERR_DATA end).
  { destruct (tok / 16 =? 15) eqn:E; [|reflexivity].
    replace (tok / 16) with 15 by lia. apply read_len_ext_spec. exact Br. }
  rewrite HLL. clear HLL.
  destruct (if tok / 16 =? 15 then parse_ext r 15 else Some (tok / 16, r)) as [[ll r1]|] eqn:EL;
    [|reflexivity].
  cbn [bind fst snd].
  assert (Br1 : bytes r1).
  { destruct (tok / 16 =? 15).
    - destruct (parse_ext_suffix _ _ _ _ EL) as (p & -> & _). apply bytes_app in Br. apply Br.
    - injection EL as <- <-. exact Br. }
  (* literals *)
  assert (HLC : (if 0 <? ll
                 then if (nlen r1 <? ll) || (cap <? nlen rout + ll) then Err ERR_DATA
                      else copy_lit ll r1 rout cap
                 else Ok (r1, rout)) =
                match take ll r1 with
                | Some (lits, r2) =>
                    if cap <? nlen (rev_append lits rout) then Err ERR_DATA
                    else Ok (r2, rev_append lits rout)
                | None => Err ERR_DATA
                end).
  { destruct (0 <? ll) eqn:E0.
    - destruct (nlen r1 <? ll) eqn:E1; cbn [orb].
      + rewrite take_none by lia. reflexivity.
      + rewrite take_firstn_skipn by lia. rewrite nlen_rev_append, nlen_firstn by lia.
        destruct (cap <? nlen rout + ll) eqn:E2.
        * destruct (cap <? ll + nlen rout) eqn:E3; [reflexivity|lia].
        * destruct (cap <? ll + nlen rout) eqn:E3; [lia|]. apply copy_lit_ok; lia.
    - replace ll with 0 by lia. rewrite take_firstn_skipn by lia.
      cbn [N.to_nat firstn skipn rev_append]. destruct (cap <? nlen rout) eqn:E3; [lia|reflexivity]. }
  rewrite HLC. clear HLC.
  destruct (take ll r1) as [[lits r2]|] eqn:ET; [|reflexivity].
  destruct (cap <? nlen (rev_append lits rout)) eqn:EC; [reflexivity|].
  cbn [bind fst snd].
  apply take_spec in ET. destruct ET as [-> Hll].
  apply bytes_app in Br1. destruct Br1 as [Bl Br2].
  destruct r2 as [|b0 r2']; [reflexivity|].
  (* offset and match length *)
  destruct r2' as [|b1 r3].
  { cbn [parse_match]. replace (nlen [b0] <? 2) with true by (rewrite nlen_cons, nlen_nil; lia). reflexivity. }
  apply bytes_cons in Br2. destruct Br2 as [Hb0 Br2]. apply bytes_cons in Br2. destruct Br2 as [Hb1 Br3].
  replace (nlen (b0 :: b1 :: r3) <? 2) with false by (rewrite !nlen_cons; lia).
  cbn [rd_le bind skipn parse_match bytesb forallb].
  destruct (b0 <? 256) eqn:E0; [|lia]. destruct (b1 <? 256) eqn:E1; [|lia]. cbn [andb].
  replace (b0 + 256 * (b1 + 256 * 0)) with (b0 + 256 * b1) by lia.
  set (off := b0 + 256 * b1). set (rout1 := rev_append lits rout) in *.
  unfold parse_len.
  assert (HML : (if tok mod 16 =? 15 then read_len_ext r3 (tok mod 16 + 4) else Ok (tok mod 16 + 4, r3)) =
                match (if tok mod 16 =? 15 then parse_ext r3 15 else Some (tok mod 16, r3)) with
                | Some (ml, r4) => Ok (ml + 4, r4) | None => Err ERR_DATA end).
  { destruct (tok mod 16 =? 15) eqn:E; [|reflexivity].
    replace (tok mod 16 + 4) with 19 by lia. rewrite read_len_ext_spec by exact Br3.
    clear. revert r3. assert (G : forall s a, match parse_ext s (a + 4) with Some (v, r) => Ok (v, r) | None => Err ERR_DATA end
             = match parse_ext s a with Some (ml, r4) => @Ok (N * list N) (ml + 4, r4) | None => Err ERR_DATA end).
    { induction s as [|b t IH]; intros a; [reflexivity|]. cbn [parse_ext].
      destruct (256 <=? b); [reflexivity|]. destruct (b =? 255).
      - replace (a + 4 + 255) with (a + 255 + 4) by lia. apply IH.
      - do 2 f_equal. lia. }
    intros r3. apply (G r3 15). }
  destruct (off =? 0) eqn:EO.
  { cbn [orb]. destruct (if tok mod 16 =? 15 then parse_ext r3 15 else Some (tok mod 16, r3)) as [[ml r4]|];
      [|reflexivity]. cbn [exec_seq rev_append]. rewrite EO. reflexivity. }
  cbn [orb]. destruct (nlen rout1 <? off) eqn:EF.
  { destruct (if tok mod 16 =? 15 then parse_ext r3 15 else Some (tok mod 16, r3)) as [[ml r4]|];
      [|reflexivity]. cbn [exec_seq rev_append]. rewrite EO.
    rewrite ocopy_none; [reflexivity|lia|lia]. }
  rewrite HML. clear HML.
  destruct (if tok mod 16 =? 15 then parse_ext r3 15 else Some (tok mod 16, r3)) as [[ml r4]|];
    [|reflexivity].
  cbn [bind fst snd exec_seq rev_append]. rewrite EO.
  destruct (ocopy_some (N.to_nat (ml + 4)) (off - 1) rout1) as [r0 Hr0]; [lia|].
  pose proof (ocopy_len _ _ _ _ Hr0) as Hlen. rewrite Hr0.
  destruct (cap <? nlen rout1 + (ml + 4)) eqn:E2.
  - destruct (nlen r0 <=? cap) eqn:E3; [lia|reflexivity].
  - destruct (copy_back_ocopy (N.to_nat (ml + 4)) (off - 1) rout1 cap) as [r1' [Hr1 Hcb]]; [lia|lia|].
    rewrite Hcb. cbn [bind]. assert (r1' = r0) by congruence. subst r1'.
    destruct (nlen r0 <=? cap) eqn:E3; [reflexivity|lia].
Qed.

(* ================================================================== the decompression loop *)

Lemma exec_seq_mono q rout r : exec_seq q rout = Some r -> nlen rout <= nlen r.
Proof.
  destruct q as [lits off mlen]. cbn [exec_seq]. destruct (off =? 0); [discriminate|].
  intros H. apply ocopy_len in H. rewrite nlen_rev_append in H. lia.
Qed.

Lemma lrun_mono lax fuel : forall s rout fin, lrun lax fuel s rout = Some fin -> nlen rout <= nlen fin.
Proof.
  induction fuel as [|f IH]; intros s rout fin H; [discriminate|].
  cbn [lrun] in H. destruct s as [|a t].
  - destruct lax; [|discriminate]. injection H as <-. lia.
  - destruct (parse_lits (a :: t)) as [[[tok lits] r2]|]; [|discriminate].
    destruct r2 as [|c r2'].
    + injection H as <-. rewrite nlen_rev_append. lia.
    + destruct (parse_match tok (c :: r2')) as [[[off mlen] r4]|]; [|discriminate].
      destruct (exec_seq (Seq [] off mlen) (rev_append lits rout)) as [rout2|] eqn:EX; [|discriminate].
      apply IH in H. apply exec_seq_mono in EX. cbn [rev_append] in EX. rewrite nlen_rev_append in EX. lia.
Qed.

Definition lz_result (cap : N) (o : option (list N)) : res (list N) :=
  match o with
  | Some fin => if nlen fin <=? cap then Ok fin else Err ERR_DATA
  | None => Err ERR_DATA
  end.

Lemma lz_result_over lax fuel s rout cap :
  cap < nlen rout -> lz_result cap (lrun lax fuel s rout) = Err ERR_DATA.
Proof.
  intros H. unfold lz_result. destruct (lrun lax fuel s rout) as [fin|] eqn:E; [|reflexivity].
  apply lrun_mono in E. destruct (nlen fin <=? cap) eqn:E2; [lia|reflexivity].
Qed.

Lemma parse_lits_suffix s tok lits r2 :
  parse_lits s = Some (tok, lits, r2) -> exists p, s = p ++ r2 /\ (0 < length p)%nat.
Proof.
  intros H. destruct (parse_lits_sound _ _ _ _ H) as (lext & _ & _ & ->).
  exists (tok :: lext ++ lits). split; [cbn [app]; rewrite <- app_assoc; reflexivity|simpl; lia].
Qed.

Lemma parse_match_suffix tok s off mlen r4 :
  parse_match tok s = Some (off, mlen, r4) -> exists p, s = p ++ r4 /\ (0 < length p)%nat.
Proof.
  intros H. destruct (parse_match_sound _ _ _ _ _ H) as (mext & _ & _ & _ & ->).
  exists ([off mod 256; off / 256] ++ mext). split; [rewrite <- app_assoc; reflexivity|simpl; lia].
Qed.

Lemma lz_loop_spec fuel : forall rest rout cap,
  bytes rest -> (length rest < fuel)%nat -> nlen rout <= cap ->
  lz_loop fuel rest rout cap = lz_result cap (lrun true fuel rest rout).
Proof.
  induction fuel as [|f IH]; intros rest rout cap B Hf Hc; [lia|].
  cbn [lz_loop lrun]. destruct rest as [|a t].
  - unfold lz_result. destruct (nlen rout <=? cap) eqn:E; [reflexivity|lia].
  - rewrite lz_step_spec by (assumption || discriminate). unfold lz_step_ref.
    destruct (parse_lits (a :: t)) as [[[tok lits] r2]|] eqn:EP; [|reflexivity].
    destruct (parse_lits_suffix _ _ _ _ EP) as (p1 & Es1 & Hp1).
    assert (Br2 : bytes r2) by (rewrite Es1 in B; apply bytes_app in B; apply B).
    assert (Hl2 : (length r2 < length (a :: t))%nat) by (rewrite Es1, app_length; lia).
    cbv zeta. destruct (cap <? nlen (rev_append lits rout)) eqn:EC.
    { cbn [bind]. symmetry. destruct r2 as [|c r2'].
      - unfold lz_result. destruct (nlen (rev_append lits rout) <=? cap) eqn:E; [lia|reflexivity].
      - destruct (parse_match tok (c :: r2')) as [[[off mlen] r4]|]; [|reflexivity].
        destruct (exec_seq (Seq [] off mlen) (rev_append lits rout)) as [rout2|] eqn:EX; [|reflexivity].
        apply lz_result_over. apply exec_seq_mono in EX. cbn [rev_append] in EX. lia. }
    destruct r2 as [|c r2'].
    { cbn [bind fst snd]. unfold lz_result.
      destruct (nlen (rev_append lits rout) <=? cap) eqn:E; [reflexivity|lia]. }
    destruct (parse_match tok (c :: r2')) as [[[off mlen] r4]|] eqn:EM; [|reflexivity].
    destruct (parse_match_suffix _ _ _ _ _ EM) as (p2 & Es2 & Hp2).
    destruct (exec_seq (Seq [] off mlen) (rev_append lits rout)) as [rout2|] eqn:EX; [|reflexivity].
    destruct (nlen rout2 <=? cap) eqn:E2.
    + cbn [bind fst snd]. apply IH.
      * rewrite Es2 in Br2. apply bytes_app in Br2. apply Br2.
      * rewrite Es2, app_length in Hl2. cbn [length] in *. lia.
      * lia.
    + cbn [bind]. symmetry. apply lz_result_over. lia.
Qed.

(** The decompressor model is the (lax) specification decoder followed by the capacity test. *)
Theorem lz4_decompress_eq_spec s cap : bytes s ->
  decompress s cap =
  match spec_decode_lax s with
  | Some x => if nlen x <=? cap then Ok x else Err ERR_DATA
  | None => Err ERR_DATA
  end.
Proof.
  intros B. unfold decompress, spec_decode_lax.
  rewrite lz_loop_spec; [|exact B|lia|rewrite nlen_nil; lia].
  unfold lz_result. destruct (lrun true (S (length s)) s []) as [fin|]; [|reflexivity].
  rewrite !frev_rev, nlen_rev. destruct (nlen fin <=? cap); cbn [bind]; rewrite ?frev_rev; reflexivity.
Qed.

(** Every valid LZ4 block (any literal/match length extension, any offset 1..65535, overlapping
    matches, matches that end at the buffer end) is decoded to the bytes it denotes. *)
Theorem lz4_decompress_complete_thm : forall s x cap,
  bytes s -> DenotesLz4 s x -> nlen x <= cap -> decompress s cap = Ok x.
Proof.
  intros s x cap B HD Hc. rewrite lz4_decompress_eq_spec by exact B.
  apply spec_decode_complete in HD. unfold spec_decode in HD. unfold spec_decode_lax.
  destruct (lrun false (S (length s)) s []) as [rout|] eqn:E; [|discriminate]. injection HD as <-.
  rewrite (lrun_lax_mono _ _ _ _ E). destruct (nlen (frev rout) <=? cap) eqn:E2; [reflexivity|lia].
Qed.

(** What the decompressor accepts is a valid block, or a series of complete sequences that stops
    right after a match (which the format allows a decoder to accept or reject); the bytes returned
    are the denoted ones and fit the destination. *)
Theorem lz4_decompress_sound_thm : forall s x cap,
  bytes s -> decompress s cap = Ok x -> (DenotesLz4 s x \/ DenotesLz4Open s x) /\ nlen x <= cap.
Proof.
  intros s x cap B. rewrite lz4_decompress_eq_spec by exact B.
  destruct (spec_decode_lax s) as [y|] eqn:E; [|discriminate].
  destruct (nlen y <=? cap) eqn:E2; [|discriminate]. intros H; injection H as <-.
  split; [apply spec_decode_lax_sound; exact E|lia].
Qed.

(** Never a read outside [src, src+len) nor a write outside [dst, dst+cap); the loop terminates
    within |s|+1 iterations.  (Shared with C08.) *)
Theorem lz4_decompress_never_faults_thm : forall s cap f, bytes s -> decompress s cap <> Fault f.
Proof.
  intros s cap f B. rewrite lz4_decompress_eq_spec by exact B.
  destruct (spec_decode_lax s) as [y|]; [|discriminate]. destruct (nlen y <=? cap); discriminate.
Qed.

(** Streams outside the grammar (offset 0, offset beyond the bytes produced, truncated token /
    length / offset / literals) and outputs larger than the destination are refused. *)
Theorem lz4_decompress_rejects_invalid_thm : forall s cap,
  bytes s -> (forall x, ~ DenotesLz4 s x /\ ~ DenotesLz4Open s x) -> exists c, decompress s cap = Err c.
Proof.
  intros s cap B Hn. destruct (decompress s cap) as [x|c|f] eqn:E.
  - exfalso. destruct (lz4_decompress_sound_thm _ _ _ B E) as [[H|H] _]; [apply (proj1 (Hn x))|apply (proj2 (Hn x))]; exact H.
  - eauto.
  - exfalso. eapply lz4_decompress_never_faults_thm; eassumption.
Qed.

Theorem lz4_decompress_small_dst_refused_thm : forall s x cap,
  bytes s -> DenotesLz4 s x -> cap < nlen x -> decompress s cap = Err ERR_DATA.
Proof.
  intros s x cap B HD Hc. rewrite lz4_decompress_eq_spec by exact B.
  apply spec_decode_complete in HD. unfold spec_decode in HD. unfold spec_decode_lax.
  destruct (lrun false (S (length s)) s []) as [rout|] eqn:E; [|discriminate]. injection HD as <-.
  rewrite (lrun_lax_mono _ _ _ _ E). destruct (nlen (frev rout) <=? cap) eqn:E2; [lia|reflexivity].
Qed.

(** non-trivial instance: 255-run literal length, offset-1 overlap, match length extension *)
Example lz4_denotes_example :
  DenotesLz4 ([16 * 1 + 15; 7; 1; 0; 3; 16 * 2 + 0; 8; 9] ) (repeat 7 23 ++ [8; 9]).
Proof. apply spec_decode_sound. vm_compute. reflexivity. Qed.
