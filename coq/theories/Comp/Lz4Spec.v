(** The LZ4 block format, transcribed from lz4/doc/lz4_Block_format.md (independent of carquet's code).

    A block is a series of sequences.  A sequence is: a token (high nibble: literal length, low
    nibble: match length - 4); if a nibble is 15, additional length bytes follow, each added to the
    length, the series ending with the first byte that is not 255 (for the literal length right after
    the token, for the match length right after the offset); the literal bytes; a 16-bit little-endian
    offset (1..65535, "0 is an invalid offset value"; it cannot point before the start of the block); the match copies
    [match length] bytes starting [offset] bytes back from the current end of the output and may
    overlap it ("overlap copy": offset 1 repeats the last byte).
    End of block: (1) the last sequence contains only literals and the block ends right after them;
    (2) the last 5 bytes of input are always literals; (3) the last match must start at least 12 bytes
    before the end of the block.  "When a block does not respect these end conditions, a conformant
    decoder is allowed to reject the block as incorrect": (2) and (3) are therefore obligations of a
    COMPRESSOR ([end_rules]); a decoder must accept every block of the grammar with rule (1)
    ([DenotesLz4]) and may or may not accept a block that stops right after a match ([DenotesLz4Open]).
    The low nibble of the last token has no meaning (no match follows); any value is accepted, which
    is also what the reference decoder does. *)
From Coq Require Import NArith ZArith Arith List Bool Lia ZifyBool ZifyNat ZifyN.
From Carquet Require Import Comp.CompBase.
Import ListNotations.
Local Open Scope N_scope.
Ltac Zify.zify_post_hook ::= Z.div_mod_to_equations.

Inductive seq := Seq (lits : list N) (off mlen : N).

(** [EncLen nib ext v]: nibble [nib] plus extension bytes [ext] encode the length [v] *)
Inductive EncLen : N -> list N -> N -> Prop :=
| EL_short v : v < 15 -> EncLen v [] v
| EL_long k r : r < 255 -> EncLen 15 (repeat 255 k ++ [r]) (15 + 255 * N.of_nat k + r).

Inductive EncSeq : seq -> list N -> Prop :=
| ES lits off mlen ln lext mn mext :
    EncLen ln lext (nlen lits) -> 4 <= mlen -> EncLen mn mext (mlen - 4) -> off < 65536 ->
    EncSeq (Seq lits off mlen) (16 * ln + mn :: lext ++ lits ++ [off mod 256; off / 256] ++ mext).

Inductive EncSeqs : list seq -> list N -> Prop :=
| ESS_nil : EncSeqs [] []
| ESS_cons q enc qs rest : EncSeq q enc -> EncSeqs qs rest -> EncSeqs (q :: qs) (enc ++ rest).

Inductive EncLast : list N -> list N -> Prop :=
| ELast lits ln lext mn : EncLen ln lext (nlen lits) -> mn < 16 -> EncLast lits (16 * ln + mn :: lext ++ lits).

Definition exec_seq (q : seq) (rout : list N) : option (list N) :=
  match q with
  | Seq lits off mlen =>
      if off =? 0 then None else ocopy (N.to_nat mlen) (off - 1) (rev_append lits rout)
  end.

Fixpoint exec_seqs (qs : list seq) (rout : list N) : option (list N) :=
  match qs with
  | [] => Some rout
  | q :: t => match exec_seq q rout with Some r => exec_seqs t r | None => None end
  end.

(** the block [s] consists of the sequences [qs] followed by the final literals [lits] *)
Definition Lz4Block (qs : list seq) (lits : list N) (s : list N) : Prop :=
  exists body last, s = body ++ last /\ EncSeqs qs body /\ EncLast lits last.

Definition exec_block (qs : list seq) (lits : list N) : option (list N) :=
  match exec_seqs qs [] with Some rout => Some (rev (rev_append lits rout)) | None => None end.

(** [DenotesLz4 s x]: [s] is a valid LZ4 block (grammar and end rule 1) with content [x] *)
Definition DenotesLz4 (s x : list N) : Prop :=
  exists qs lits, Lz4Block qs lits s /\ exec_block qs lits = Some x.

(** a series of complete sequences that stops right after a match (or is empty): not a valid block
    (rule 1), but one that "a conformant decoder is allowed" to accept or reject *)
Definition DenotesLz4Open (s x : list N) : Prop :=
  exists qs, EncSeqs qs s /\ exec_seqs qs [] = Some (rev x).

Definition seq_mlen (q : seq) : N := match q with Seq _ _ m => m end.

(** end rules (2) and (3), obligations of a compressor *)
Definition end_rules (qs : list seq) (lits : list N) : Prop :=
  match rev qs with
  | [] => True
  | q :: _ => 5 <= nlen lits /\ 12 <= seq_mlen q + nlen lits
  end.
Definition end_rulesb (qs : list seq) (lits : list N) : bool :=
  match rev qs with
  | [] => true
  | q :: _ => (5 <=? nlen lits) && (12 <=? seq_mlen q + nlen lits)
  end.

(** what a compressor must produce *)
Definition ValidLz4Output (s x : list N) : Prop :=
  exists qs lits, Lz4Block qs lits s /\ exec_block qs lits = Some x /\ end_rules qs lits.

(* ------------------------------------------------------------------ executable decoder *)

Fixpoint parse_ext (s : list N) (acc : N) : option (N * list N) :=
  match s with
  | [] => None
  | b :: r => if 256 <=? b then None
              else if b =? 255 then parse_ext r (acc + 255) else Some (acc + b, r)
  end.

Definition parse_len (nib : N) (s : list N) : option (N * list N) :=
  if nib =? 15 then parse_ext s 15 else Some (nib, s).

(** token, literal length, literals *)
Definition parse_lits (s : list N) : option (N * list N * list N) :=
  match s with
  | [] => None
  | tok :: r =>
      if 256 <=? tok then None else
      match parse_len (tok / 16) r with
      | Some (ll, r1) => match take ll r1 with Some (lits, r2) => Some (tok, lits, r2) | None => None end
      | None => None
      end
  end.

(** offset and match length (after the literals of a sequence that is not the last) *)
Definition parse_match (tok : N) (s : list N) : option (N * N * list N) :=
  match s with
  | b0 :: b1 :: r3 =>
      if bytesb [b0; b1] then
        match parse_len (tok mod 16) r3 with
        | Some (ml, r4) => Some (b0 + 256 * b1, ml + 4, r4)
        | None => None
        end
      else None
  | _ => None
  end.

(** [lax = false]: the block grammar (must end with a literal-only sequence).
    [lax = true]: additionally accepts a series that stops right after a match, and the empty input. *)
Fixpoint lrun (lax : bool) (fuel : nat) (s rout : list N) : option (list N) :=
  match fuel with
  | O => None
  | S f =>
      match s with
      | [] => if lax then Some rout else None
      | _ =>
          match parse_lits s with
          | Some (tok, lits, r2) =>
              let rout1 := rev_append lits rout in
              match r2 with
              | [] => Some rout1
              | _ =>
                  match parse_match tok r2 with
                  | Some (off, mlen, r4) =>
                      match exec_seq (Seq [] off mlen) rout1 with
                      | Some rout2 => lrun lax f r4 rout2
                      | None => None
                      end
                  | None => None
                  end
              end
          | None => None
          end
      end
  end.

Definition spec_decode (s : list N) : option (list N) :=
  match lrun false (S (length s)) s [] with Some rout => Some (frev rout) | None => None end.
Definition spec_decode_lax (s : list N) : option (list N) :=
  match lrun true (S (length s)) s [] with Some rout => Some (frev rout) | None => None end.

(** structure-returning parser (used to evaluate [end_rules] on a compressor's output) *)
Fixpoint lparse (fuel : nat) (s : list N) (acc : list seq) : option (list seq * list N) :=
  match fuel with
  | O => None
  | S f =>
      match parse_lits s with
      | Some (tok, lits, r2) =>
          match r2 with
          | [] => Some (rev acc, lits)
          | _ => match parse_match tok r2 with
                 | Some (off, mlen, r4) => lparse f r4 (Seq lits off mlen :: acc)
                 | None => None
                 end
          end
      | None => None
      end
  end.

Definition check_end_rules (s : list N) : bool :=
  match lparse (S (length s)) s [] with Some (qs, lits) => end_rulesb qs lits | None => false end.

(* ------------------------------------------------------------------ parser lemmas *)

Lemma parse_ext_complete k r rest acc :
  r < 255 -> parse_ext ((repeat 255 k ++ [r]) ++ rest) acc = Some (acc + 255 * N.of_nat k + r, rest).
Proof.
  intros Hr. revert acc. induction k as [|k IH]; intros acc.
  - cbn [repeat app parse_ext]. destruct (256 <=? r) eqn:E1; [lia|].
    destruct (r =? 255) eqn:E2; [lia|]. do 2 f_equal. lia.
  - cbn [repeat app parse_ext]. change (256 <=? 255) with false. change (255 =? 255) with true.
    cbn iota. cbn [app] in IH. rewrite IH. do 2 f_equal. lia.
Qed.

Lemma parse_ext_sound s acc v rest :
  parse_ext s acc = Some (v, rest) ->
  exists k r, r < 255 /\ s = (repeat 255 k ++ [r]) ++ rest /\ v = acc + 255 * N.of_nat k + r.
Proof.
  revert acc. induction s as [|b t IH]; intros acc H; [discriminate|].
  cbn [parse_ext] in H. destruct (256 <=? b) eqn:E1; [discriminate|].
  destruct (b =? 255) eqn:E2.
  - destruct (IH _ H) as (k & r & Hr & -> & ->). exists (S k), r.
    split; [exact Hr|]. split; [|lia].
    cbn [repeat app]. f_equal. lia.
  - injection H as <- <-. exists O, b. split; [lia|]. split; [reflexivity|lia].
Qed.

Lemma parse_len_complete nib ext v rest :
  EncLen nib ext v -> parse_len nib (ext ++ rest) = Some (v, rest).
Proof.
  intros H. inversion H as [v' Hv | k r Hr]; subst; unfold parse_len.
  - destruct (v =? 15) eqn:E; [lia|]. reflexivity.
  - change (15 =? 15) with true. cbn iota. rewrite parse_ext_complete by exact Hr. reflexivity.
Qed.

Lemma parse_len_sound nib s v rest :
  nib < 16 -> parse_len nib s = Some (v, rest) -> exists ext, EncLen nib ext v /\ s = ext ++ rest.
Proof.
  intros Hn. unfold parse_len. destruct (nib =? 15) eqn:E.
  - intros H. destruct (parse_ext_sound _ _ _ _ H) as (k & r & Hr & -> & ->).
    exists (repeat 255 k ++ [r]). split; [|reflexivity].
    replace nib with 15 by lia. constructor. exact Hr.
  - intros H; injection H as <- <-. exists []. split; [constructor; lia|reflexivity].
Qed.

Lemma EncLen_nib nib ext v : EncLen nib ext v -> nib < 16.
Proof. intros H; inversion H; lia. Qed.

Lemma parse_lits_complete ln lext lits mn rest :
  EncLen ln lext (nlen lits) -> mn < 16 ->
  parse_lits (16 * ln + mn :: lext ++ lits ++ rest) = Some (16 * ln + mn, lits, rest).
Proof.
  intros HL Hm. pose proof (EncLen_nib _ _ _ HL) as Hn. unfold parse_lits.
  destruct (256 <=? 16 * ln + mn) eqn:E; [lia|].
  replace ((16 * ln + mn) / 16) with ln by lia.
  rewrite (parse_len_complete _ _ _ (lits ++ rest) HL), take_app. reflexivity.
Qed.

Lemma parse_lits_sound s tok lits r2 :
  parse_lits s = Some (tok, lits, r2) ->
  exists lext, tok < 256 /\ EncLen (tok / 16) lext (nlen lits) /\ s = tok :: lext ++ lits ++ r2.
Proof.
  destruct s as [|t r]; [discriminate|]. unfold parse_lits.
  destruct (256 <=? t) eqn:E; [discriminate|].
  destruct (parse_len (t / 16) r) as [[ll r1]|] eqn:EL; [|discriminate].
  destruct (take ll r1) as [[l r2']|] eqn:ET; [|discriminate].
  intros H; injection H as <- <- <-.
  apply take_spec in ET. destruct ET as [-> <-].
  apply parse_len_sound in EL; [|lia]. destruct EL as (lext & HE & ->).
  exists lext. split; [lia|]. split; [exact HE|reflexivity].
Qed.

Lemma parse_match_complete tok off mn mext mlen rest :
  tok mod 16 = mn -> 4 <= mlen -> EncLen mn mext (mlen - 4) -> off < 65536 ->
  parse_match tok ([off mod 256; off / 256] ++ mext ++ rest) = Some (off, mlen, rest).
Proof.
  intros Ht Hm HE Ho. cbn [app parse_match bytesb forallb].
  destruct (off mod 256 <? 256) eqn:E1; [|lia]. destruct (off / 256 <? 256) eqn:E2; [|lia].
  cbn [andb]. rewrite Ht, (parse_len_complete _ _ _ rest HE). do 3 f_equal; lia.
Qed.

Lemma parse_match_sound tok s off mlen r4 :
  parse_match tok s = Some (off, mlen, r4) ->
  exists mext, 4 <= mlen /\ EncLen (tok mod 16) mext (mlen - 4) /\ off < 65536 /\
               s = [off mod 256; off / 256] ++ mext ++ r4.
Proof.
  destruct s as [|b0 [|b1 r3]]; try discriminate. cbn [parse_match].
  destruct (bytesb [b0; b1]) eqn:EB; [|discriminate]. cbn [bytesb forallb] in EB.
  destruct (parse_len (tok mod 16) r3) as [[ml r4']|] eqn:EL; [|discriminate].
  set (o := b0 + 256 * b1). assert (Ho : o = b0 + 256 * b1) by reflexivity. clearbody o.
  intros H; injection H as <- <- <-.
  apply parse_len_sound in EL; [|lia]. destruct EL as (mext & HE & ->).
  exists mext. split; [lia|]. split; [replace (ml + 4 - 4) with ml by lia; exact HE|].
  split; [lia|]. cbn [app]. do 2 f_equal; lia.
Qed.

Lemma EncSeq_shape q enc : EncSeq q enc ->
  exists tok lext lits off mlen mext,
    q = Seq lits off mlen /\ enc = tok :: lext ++ lits ++ [off mod 256; off / 256] ++ mext /\
    tok < 256 /\ EncLen (tok / 16) lext (nlen lits) /\ 4 <= mlen /\ EncLen (tok mod 16) mext (mlen - 4) /\
    off < 65536.
Proof.
  intros H. inversion H as [lits off mlen ln lext mn mext HL Hm HM Ho]; subst.
  pose proof (EncLen_nib _ _ _ HL). pose proof (EncLen_nib _ _ _ HM).
  exists (16 * ln + mn), lext, lits, off, mlen, mext.
  replace ((16 * ln + mn) / 16) with ln by lia. replace ((16 * ln + mn) mod 16) with mn by lia.
  repeat split; try assumption; lia.
Qed.

Lemma exec_seq_split lits off mlen rout :
  exec_seq (Seq lits off mlen) rout = exec_seq (Seq [] off mlen) (rev_append lits rout).
Proof. reflexivity. Qed.

(* ------------------------------------------------------------------ lrun <-> relations *)

Lemma lrun_seqs_complete lax qs body : EncSeqs qs body -> forall rest fuel rout rout',
  exec_seqs qs rout = Some rout' -> (length body + length rest < fuel)%nat -> rest <> [] ->
  exists fuel', (length rest < fuel')%nat /\
    lrun lax fuel (body ++ rest) rout = lrun lax fuel' rest rout'.
Proof.
  induction 1 as [|q enc qs rest0 Hq Hqs IH]; intros rest fuel rout rout' Hx Hf Hne.
  - injection Hx as <-. exists fuel. split; [simpl in Hf; lia|reflexivity].
  - destruct (EncSeq_shape _ _ Hq) as (tok & lext & lits & off & mlen & mext & -> & -> & Ht & HL & Hm & HM & Ho).
    cbn [exec_seqs] in Hx. destruct (exec_seq (Seq lits off mlen) rout) as [r1|] eqn:E1; [|discriminate].
    destruct fuel as [|f]; [lia|].
    assert (EL : forall (z : list N), length (tok :: lext ++ lits ++ off mod 256 :: off / 256 :: mext ++ z)
                 = (3 + length lext + length lits + length mext + length z)%nat).
    { intros z. cbn [length]. rewrite !app_length. cbn [length]. rewrite !app_length. lia. }
    cbn [app] in Hf. rewrite <- !app_assoc in Hf. cbn [app] in Hf.
    rewrite <- ?app_assoc in Hf. rewrite EL in Hf.
    destruct (IH rest f r1 rout' Hx) as (fuel' & Hf' & IH'); [lia|exact Hne|].
    exists fuel'. split; [exact Hf'|]. rewrite <- IH'.
    rewrite <- app_assoc. cbn [app]. rewrite <- !app_assoc.
    cbn [lrun].
    replace tok with (16 * (tok / 16) + tok mod 16) at 1 by lia.
    rewrite (parse_lits_complete _ _ _ _ _ HL) by lia.
    replace (16 * (tok / 16) + tok mod 16) with tok by lia.
    cbn [app].
    change (off mod 256 :: off / 256 :: mext ++ rest0 ++ rest)
      with ([off mod 256; off / 256] ++ mext ++ (rest0 ++ rest)).
    rewrite (parse_match_complete tok off (tok mod 16) mext mlen _ eq_refl Hm HM Ho).
    rewrite <- exec_seq_split, E1. reflexivity.
Qed.

Lemma lrun_last_complete lax lits last rout fuel :
  EncLast lits last -> (0 < fuel)%nat -> lrun lax fuel last rout = Some (rev_append lits rout).
Proof.
  intros H Hf. inversion H as [l ln lext mn HL Hm]; subst. destruct fuel; [lia|].
  cbn [lrun]. rewrite <- (app_nil_r lits) at 1.
  rewrite (parse_lits_complete _ _ _ _ [] HL Hm). reflexivity.
Qed.

Lemma EncLast_nonempty lits last : EncLast lits last -> last <> [].
Proof. intros H; inversion H; discriminate. Qed.

Theorem spec_decode_complete s x : DenotesLz4 s x -> spec_decode s = Some x.
Proof.
  intros (qs & lits & (body & last & -> & Hqs & Hl) & Hx). unfold spec_decode, exec_block in *. rewrite ?frev_rev.
  destruct (exec_seqs qs []) as [rout|] eqn:E; [|discriminate]. injection Hx as <-.
  destruct (lrun_seqs_complete false _ _ Hqs last (S (length (body ++ last))) [] rout E) as (fuel' & Hf' & ->);
    [rewrite app_length; lia|eapply EncLast_nonempty; exact Hl|].
  rewrite (lrun_last_complete false _ _ _ _ Hl); [rewrite frev_rev; reflexivity|lia].
Qed.

(** invariant form of soundness: what [lrun] accepts from an intermediate state *)
Lemma lrun_sound lax fuel : forall s rout fin,
  lrun lax fuel s rout = Some fin ->
  (exists qs lits body last, s = body ++ last /\ EncSeqs qs body /\ EncLast lits last /\
      exists r, exec_seqs qs rout = Some r /\ fin = rev_append lits r)
  \/ (lax = true /\ exists qs, EncSeqs qs s /\ exec_seqs qs rout = Some fin).
Proof.
  induction fuel as [|f IH]; intros s rout fin H; [discriminate|].
  cbn [lrun] in H. destruct s as [|a t].
  - destruct lax; [|discriminate]. injection H as <-. right. split; [reflexivity|].
    exists []. split; [constructor|reflexivity].
  - destruct (parse_lits (a :: t)) as [[[tok lits] r2]|] eqn:EP; [|discriminate].
    destruct (parse_lits_sound _ _ _ _ EP) as (lext & Ht & HL & Es).
    destruct r2 as [|c r2'].
    + injection H as <-. left. exists [], lits, [], (a :: t).
      split; [reflexivity|]. split; [constructor|]. split.
      * rewrite Es, app_nil_r. replace tok with (16 * (tok / 16) + tok mod 16) by lia.
        constructor; [exact HL|lia].
      * exists rout. split; reflexivity.
    + destruct (parse_match tok (c :: r2')) as [[[off mlen] r4]|] eqn:EM; [|discriminate].
      destruct (parse_match_sound _ _ _ _ _ EM) as (mext & Hm & HM & Ho & Es2).
      destruct (exec_seq (Seq [] off mlen) (rev_append lits rout)) as [rout2|] eqn:EX; [|discriminate].
      assert (HQ : EncSeq (Seq lits off mlen) (tok :: lext ++ lits ++ [off mod 256; off / 256] ++ mext)).
      { replace tok with (16 * (tok / 16) + tok mod 16) at 1 by lia. constructor; assumption. }
      assert (Esplit : a :: t = (tok :: lext ++ lits ++ [off mod 256; off / 256] ++ mext) ++ r4).
      { rewrite Es, Es2. cbn [app]. rewrite <- ?app_assoc. cbn [app]. rewrite <- ?app_assoc. reflexivity. }
      destruct (IH _ _ _ H) as [(qs & l2 & body & last & -> & Hqs & Hl & r & Hx & ->) | (-> & qs & Hqs & Hx)].
      * left. exists (Seq lits off mlen :: qs), l2, ((tok :: lext ++ lits ++ [off mod 256; off / 256] ++ mext) ++ body), last.
        split; [rewrite Esplit, <- app_assoc; reflexivity|].
        split; [constructor; assumption|]. split; [exact Hl|].
        exists r. split; [|reflexivity]. cbn [exec_seqs]. rewrite exec_seq_split, EX. exact Hx.
      * right. split; [reflexivity|]. exists (Seq lits off mlen :: qs).
        split; [rewrite Esplit; constructor; assumption|].
        cbn [exec_seqs]. rewrite exec_seq_split, EX. exact Hx.
Qed.

Theorem spec_decode_sound s x : spec_decode s = Some x -> DenotesLz4 s x.
Proof.
  unfold spec_decode. destruct (lrun false (S (length s)) s []) as [rout|] eqn:E; [|discriminate].
  rewrite frev_rev. intros H; injection H as <-.
  destruct (lrun_sound _ _ _ _ _ E) as [(qs & lits & body & last & -> & Hqs & Hl & r & Hx & ->) | (C & _)];
    [|discriminate].
  exists qs, lits. split; [exists body, last; auto|]. unfold exec_block. rewrite Hx. reflexivity.
Qed.

Theorem spec_decode_lax_sound s x :
  spec_decode_lax s = Some x -> DenotesLz4 s x \/ DenotesLz4Open s x.
Proof.
  unfold spec_decode_lax. destruct (lrun true (S (length s)) s []) as [rout|] eqn:E; [|discriminate].
  rewrite frev_rev. intros H; injection H as <-.
  destruct (lrun_sound _ _ _ _ _ E) as [(qs & lits & body & last & -> & Hqs & Hl & r & Hx & ->) | (_ & qs & Hqs & Hx)].
  - left. exists qs, lits. split; [exists body, last; auto|]. unfold exec_block. rewrite Hx. reflexivity.
  - right. exists qs. split; [exact Hqs|]. rewrite rev_involutive. exact Hx.
Qed.

(** strict acceptance implies lax acceptance with the same result *)
Lemma lrun_lax_mono fuel : forall s rout fin,
  lrun false fuel s rout = Some fin -> lrun true fuel s rout = Some fin.
Proof.
  induction fuel as [|f IH]; intros s rout fin H; [discriminate|].
  cbn [lrun] in *. destruct s as [|a t]; [discriminate|].
  destruct (parse_lits (a :: t)) as [[[tok lits] r2]|]; [|discriminate].
  destruct r2 as [|c r2']; [exact H|].
  destruct (parse_match tok (c :: r2')) as [[[off mlen] r4]|]; [|discriminate].
  destruct (exec_seq (Seq [] off mlen) (rev_append lits rout)); [|discriminate].
  apply IH. exact H.
Qed.

Corollary denotes_functional s x y : DenotesLz4 s x -> DenotesLz4 s y -> x = y.
Proof. intros Hx Hy. apply spec_decode_complete in Hx, Hy. congruence. Qed.
