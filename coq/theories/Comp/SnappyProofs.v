(** Proofs about the model of src/compression/snappy.c (SnappyModel.v) against the format
    specification (SnappySpec.v): the decompressor accepts exactly the valid streams and never
    faults; the compressor emits a valid stream for every match finder; round trip; size bound. *)
From Coq Require Import NArith ZArith Arith List Bool Lia ZifyBool ZifyNat ZifyN.
From Carquet Require Import Base.Res Gen.Consts_gen Comp.CompBase Comp.CompMem Comp.CompMemProofs
  Comp.SnappySpec Comp.SnappyModel.
Import ListNotations.
Local Open Scope N_scope.
Ltac Zify.zify_post_hook ::= Z.div_mod_to_equations.

(* ================================================================== preamble *)

(** one unfolding of the varint reader at a concrete shift, against the specification parser *)
Ltac varint_step IHnext :=
  intros s value B Hv; destruct s as [|b r]; [reflexivity|];
  apply bytes_cons in B; destruct B as [Hb Br];
  cbn [read_varint parse_varint];
  cbn [N.eqb Pos.eqb andb];
  destruct (b <? 128) eqn:E1;
  [ destruct (b / 128 =? 0) eqn:E2; [|lia];
    replace (b mod 128) with b by lia
  | destruct (b <? 256) eqn:E3; [|lia];
    destruct (b / 128 =? 0) eqn:E2; [lia|] ].

Lemma rv4 : forall s value, bytes s -> value < 268435456 ->
  read_varint 28 value s =
  match parse_varint 1 s with
  | Some (v, r) => if value + 268435456 * v <? 4294967296 then Some (value + 268435456 * v, r) else None
  | None => None
  end.
Proof.
  intros s value B Hv. destruct s as [|b r]; [reflexivity|].
  apply bytes_cons in B. destruct B as [Hb Br].
  cbn [read_varint parse_varint]. change (28 =? 28) with true. cbn [andb].
  change (2 ^ 28) with 268435456. change (2 ^ 32) with 4294967296.
  destruct (b <? 128) eqn:E1.
  - replace (b mod 128) with b by lia. destruct (15 <? b) eqn:E4.
    + destruct (value + 268435456 * b <? 4294967296) eqn:E5; [lia|reflexivity].
    + destruct (b / 128 =? 0) eqn:E2; [|lia].
      destruct (value + 268435456 * b <? 4294967296) eqn:E5; [|lia].
      do 2 f_equal. lia.
  - destruct (b <? 256) eqn:E3; [|lia].
    destruct r as [|b' r']; cbn [parse_varint].
    + destruct (15 <? b mod 128); [reflexivity|]. destruct (b / 128 =? 0) eqn:E2; [lia|].
      change (32 <=? 28 + 7) with true. reflexivity.
    + destruct (15 <? b mod 128); [reflexivity|]. destruct (b / 128 =? 0) eqn:E2; [lia|].
      change (32 <=? 28 + 7) with true. reflexivity.
Qed.

Lemma rv3 : forall s value, bytes s -> value < 2097152 ->
  read_varint 21 value s =
  match parse_varint 2 s with
  | Some (v, r) => if value + 2097152 * v <? 4294967296 then Some (value + 2097152 * v, r) else None
  | None => None
  end.
Proof.
  intros s value B Hv. destruct s as [|b r]; [reflexivity|].
  apply bytes_cons in B. destruct B as [Hb Br].
  cbn [read_varint]. change (21 =? 28) with false. cbn [andb].
  change (2 ^ 21) with 2097152. change (2 ^ 32) with 4294967296. change (21 + 7) with 28.
  change (32 <=? 28) with false.
  change (parse_varint 2 (b :: r)) with
    (if b <? 128 then Some (b, r)
     else if b <? 256 then
       match parse_varint 1 r with Some (v, r') => Some (b - 128 + 128 * v, r') | None => None end
     else None).
  destruct (b <? 128) eqn:E1.
  - replace (b mod 128) with b by lia. destruct (b / 128 =? 0) eqn:E2; [|lia].
    destruct (value + 2097152 * b <? 4294967296) eqn:E5; [|lia].
    do 2 f_equal. lia.
  - destruct (b <? 256) eqn:E3; [|lia]. destruct (b / 128 =? 0) eqn:E2; [lia|].
    rewrite rv4; [|exact Br|lia].
    destruct (parse_varint 1 r) as [[v r']|]; [|reflexivity].
    replace ((value + b mod 128 * 2097152) mod 4294967296 + 268435456 * v) with (value + 2097152 * (b - 128 + 128 * v)) by lia.
    reflexivity.
Qed.

Lemma rv2 : forall s value, bytes s -> value < 16384 ->
  read_varint 14 value s =
  match parse_varint 3 s with
  | Some (v, r) => if value + 16384 * v <? 4294967296 then Some (value + 16384 * v, r) else None
  | None => None
  end.
Proof.
  intros s value B Hv. destruct s as [|b r]; [reflexivity|].
  apply bytes_cons in B. destruct B as [Hb Br].
  cbn [read_varint]. change (14 =? 28) with false. cbn [andb].
  change (2 ^ 14) with 16384. change (2 ^ 32) with 4294967296. change (14 + 7) with 21.
  change (32 <=? 21) with false.
  change (parse_varint 3 (b :: r)) with
    (if b <? 128 then Some (b, r)
     else if b <? 256 then
       match parse_varint 2 r with Some (v, r') => Some (b - 128 + 128 * v, r') | None => None end
     else None).
  destruct (b <? 128) eqn:E1.
  - replace (b mod 128) with b by lia. destruct (b / 128 =? 0) eqn:E2; [|lia].
    destruct (value + 16384 * b <? 4294967296) eqn:E5; [|lia].
    do 2 f_equal. lia.
  - destruct (b <? 256) eqn:E3; [|lia]. destruct (b / 128 =? 0) eqn:E2; [lia|].
    rewrite rv3; [|exact Br|lia].
    destruct (parse_varint 2 r) as [[v r']|]; [|reflexivity].
    replace ((value + b mod 128 * 16384) mod 4294967296 + 2097152 * v) with (value + 16384 * (b - 128 + 128 * v)) by lia.
    reflexivity.
Qed.

Lemma rv1 : forall s value, bytes s -> value < 128 ->
  read_varint 7 value s =
  match parse_varint 4 s with
  | Some (v, r) => if value + 128 * v <? 4294967296 then Some (value + 128 * v, r) else None
  | None => None
  end.
Proof.
  intros s value B Hv. destruct s as [|b r]; [reflexivity|].
  apply bytes_cons in B. destruct B as [Hb Br].
  cbn [read_varint]. change (7 =? 28) with false. cbn [andb].
  change (2 ^ 7) with 128. change (2 ^ 32) with 4294967296. change (7 + 7) with 14.
  change (32 <=? 14) with false.
  change (parse_varint 4 (b :: r)) with
    (if b <? 128 then Some (b, r)
     else if b <? 256 then
       match parse_varint 3 r with Some (v, r') => Some (b - 128 + 128 * v, r') | None => None end
     else None).
  destruct (b <? 128) eqn:E1.
  - replace (b mod 128) with b by lia. destruct (b / 128 =? 0) eqn:E2; [|lia].
    destruct (value + 128 * b <? 4294967296) eqn:E5; [|lia].
    do 2 f_equal. lia.
  - destruct (b <? 256) eqn:E3; [|lia]. destruct (b / 128 =? 0) eqn:E2; [lia|].
    rewrite rv2; [|exact Br|lia].
    destruct (parse_varint 3 r) as [[v r']|]; [|reflexivity].
    replace ((value + b mod 128 * 128) mod 4294967296 + 16384 * v) with (value + 128 * (b - 128 + 128 * v)) by lia.
    reflexivity.
Qed.

Lemma rv0 : forall s value, bytes s -> value < 1 ->
  read_varint 0 value s =
  match parse_varint 5 s with
  | Some (v, r) => if value + 1 * v <? 4294967296 then Some (value + 1 * v, r) else None
  | None => None
  end.
Proof.
  intros s value B Hv. destruct s as [|b r]; [reflexivity|].
  apply bytes_cons in B. destruct B as [Hb Br].
  cbn [read_varint]. change (0 =? 28) with false. cbn [andb].
  change (2 ^ 0) with 1. change (2 ^ 32) with 4294967296. change (0 + 7) with 7.
  change (32 <=? 7) with false.
  change (parse_varint 5 (b :: r)) with
    (if b <? 128 then Some (b, r)
     else if b <? 256 then
       match parse_varint 4 r with Some (v, r') => Some (b - 128 + 128 * v, r') | None => None end
     else None).
  destruct (b <? 128) eqn:E1.
  - replace (b mod 128) with b by lia. destruct (b / 128 =? 0) eqn:E2; [|lia].
    destruct (value + 1 * b <? 4294967296) eqn:E5; [|lia].
    do 2 f_equal. lia.
  - destruct (b <? 256) eqn:E3; [|lia]. destruct (b / 128 =? 0) eqn:E2; [lia|].
    rewrite rv1; [|exact Br|lia].
    destruct (parse_varint 4 r) as [[v r']|]; [|reflexivity].
    replace ((value + b mod 128 * 1) mod 4294967296 + 128 * v) with (value + 1 * (b - 128 + 128 * v)) by lia.
    reflexivity.
Qed.

Lemma read_varint_spec s : bytes s -> read_varint 0 0 s = parse_preamble s.
Proof.
  intros B. rewrite rv0 by (exact B || lia). unfold parse_preamble.
  destruct (parse_varint 5 s) as [[v r]|]; [|reflexivity].
  change (2 ^ 32) with 4294967296. replace (0 + 1 * v) with v by lia. reflexivity.
Qed.

(* ================================================================== one element *)

(** what one loop iteration does, in terms of the specification's parser and semantics *)
Definition step_ref (rest rout : list N) (ulen : N) : res (list N * list N) :=
  match parse_elem rest with
  | None => Err ERR_DATA
  | Some (e, r) =>
      match exec1 e rout with
      | None => Err ERR_DATA
      | Some rout' => if nlen rout' <=? ulen then Ok (r, rout') else Err ERR_DATA
      end
  end.

Lemma do_copy_spec off len r rout ulen cap :
  1 <= len -> nlen rout <= ulen -> ulen <= cap ->
  do_copy off len r rout ulen cap =
  match exec1 (Copy off len) rout with
  | None => Err ERR_DATA
  | Some rout' => if nlen rout' <=? ulen then Ok (r, rout') else Err ERR_DATA
  end.
Proof.
  intros Hl H1 H2. unfold do_copy, exec1.
  destruct (off =? 0) eqn:E0; [reflexivity|]. cbn [orb].
  destruct (nlen rout <? off) eqn:E1.
  - rewrite ocopy_none; [reflexivity|lia|lia].
  - destruct (ocopy_some (N.to_nat len) (off - 1) rout) as [r0 Hr0]; [lia|].
    pose proof (ocopy_len _ _ _ _ Hr0) as Hlen. rewrite Hr0.
    destruct (ulen <? nlen rout + len) eqn:E2.
    + destruct (nlen r0 <=? ulen) eqn:E3; [lia|reflexivity].
    + destruct (copy_back_ocopy (N.to_nat len) (off - 1) rout cap) as [r1 [Hr1 Hc]]; [lia|lia|].
      rewrite Hc. cbn [bind]. assert (r1 = r0) by congruence. subst r1.
      destruct (nlen r0 <=? ulen) eqn:E3; [reflexivity|lia].
Qed.

Lemma lit_spec len r rout ulen cap :
  nlen rout <= ulen -> ulen <= cap ->
  (if (nlen r <? len) || (ulen <? nlen rout + len) then Err ERR_DATA else copy_lit len r rout cap) =
  match match take len r with Some (bs, r') => Some (Lit bs, r') | None => None end with
  | Some (e, r') =>
      match exec1 e rout with
      | None => Err ERR_DATA
      | Some rout' => if nlen rout' <=? ulen then Ok (r', rout') else Err ERR_DATA
      end
  | None => Err ERR_DATA
  end.
Proof.
  intros H1 H2. destruct (nlen r <? len) eqn:E1; cbn [orb].
  - rewrite take_none by lia. reflexivity.
  - rewrite take_firstn_skipn by lia. cbn [exec1].
    rewrite nlen_rev_append, nlen_firstn by lia.
    destruct (ulen <? nlen rout + len) eqn:E2.
    + destruct (len + nlen rout <=? ulen) eqn:E3; [lia|reflexivity].
    + destruct (len + nlen rout <=? ulen) eqn:E3; [|lia]. apply copy_lit_ok; lia.
Qed.

Lemma step_spec rest rout ulen cap :
  bytes rest -> rest <> [] -> nlen rout <= ulen -> ulen <= cap ->
  step rest rout ulen cap = step_ref rest rout ulen.
Proof.
  intros B Hne H1 H2. destruct rest as [|tag r]; [congruence|].
  apply bytes_cons in B. destruct B as [Ht Br].
  unfold step, step_gen, step_ref, parse_elem, K_LITERAL, K_COPY1, K_COPY2,
    Snappy_SNAPPY_LITERAL, Snappy_SNAPPY_COPY_1, Snappy_SNAPPY_COPY_2.
  destruct (256 <=? tag) eqn:E256; [lia|]. cbv zeta.
  destruct (tag mod 4 =? 0) eqn:K0.
  { destruct (60 <? tag / 4 + 1) eqn:EL.
    - destruct (tag / 4 <? 60) eqn:EL'; [lia|].
      replace (tag / 4 + 1 - 60) with (tag / 4 - 59) by lia.
      destruct (nlen r <? tag / 4 - 59) eqn:E1.
      + rewrite take_none by lia. reflexivity.
      + rewrite take_firstn_skipn by lia.
        rewrite rd_le_ok by (unfold nlen in *; lia). cbn [bind].
        assert (HB : bytesb (firstn (N.to_nat (tag / 4 - 59)) r) = true)
          by (apply bytesb_spec, bytes_firstn; exact Br).
        rewrite HB.
        replace (1 + le_val (firstn (N.to_nat (tag / 4 - 59)) r))
          with (le_val (firstn (N.to_nat (tag / 4 - 59)) r) + 1) by lia.
        apply lit_spec; assumption.
    - destruct (tag / 4 <? 60) eqn:EL'; [|lia]. apply lit_spec; assumption. }
  destruct (tag mod 4 =? 1) eqn:K1.
  { destruct r as [|b r']; [reflexivity|].
    apply bytes_cons in Br. destruct Br as [Hb Br'].
    destruct (b <? 256) eqn:EB; [|lia].
    replace (tag / 32) with (tag / 4 / 8) by lia.
    apply do_copy_spec; [lia|assumption|assumption]. }
  destruct (tag mod 4 =? 2) eqn:K2.
  { destruct r as [|b0 [|b1 r']]; [reflexivity|reflexivity|].
    apply bytes_cons in Br. destruct Br as [Hb0 Br]. apply bytes_cons in Br. destruct Br as [Hb1 Br].
    replace (nlen (b0 :: b1 :: r') <? 2) with false by (rewrite !nlen_cons; lia).
    cbn [rd_le bind skipn bytesb forallb].
    destruct (b0 <? 256) eqn:E0; [|lia]. destruct (b1 <? 256) eqn:E1; [|lia]. cbn [andb le_val].
    replace ((tag / 4) mod 64) with (tag / 4) by lia.
    apply do_copy_spec; [lia|assumption|assumption]. }
  { destruct r as [|b0 [|b1 [|b2 [|b3 r']]]]; try reflexivity.
    apply bytes_cons in Br. destruct Br as [Hb0 Br]. apply bytes_cons in Br. destruct Br as [Hb1 Br].
    apply bytes_cons in Br. destruct Br as [Hb2 Br]. apply bytes_cons in Br. destruct Br as [Hb3 Br].
    replace (nlen (b0 :: b1 :: b2 :: b3 :: r') <? 4) with false by (rewrite !nlen_cons; lia).
    cbn [rd_le bind skipn bytesb forallb].
    destruct (b0 <? 256) eqn:E0; [|lia]. destruct (b1 <? 256) eqn:E1; [|lia].
    destruct (b2 <? 256) eqn:E2; [|lia]. destruct (b3 <? 256) eqn:E3; [|lia]. cbn [andb le_val].
    replace ((tag / 4) mod 64) with (tag / 4) by lia.
    apply do_copy_spec; [lia|assumption|assumption]. }
Qed.

(* ================================================================== the decompression loop *)

Lemma exec1_mono e rout r : exec1 e rout = Some r -> nlen rout <= nlen r.
Proof.
  destruct e as [bs|off len]; cbn [exec1].
  - intros H; injection H as <-. rewrite nlen_rev_append. lia.
  - destruct (off =? 0); [discriminate|]. intros H. apply ocopy_len in H. lia.
Qed.

Lemma exec_mono es : forall rout r, exec es rout = Some r -> nlen rout <= nlen r.
Proof.
  induction es as [|e t IH]; intros rout r H.
  - injection H as <-. lia.
  - cbn [exec] in H. destruct (exec1 e rout) as [r1|] eqn:E; [|discriminate].
    apply exec1_mono in E. apply IH in H. lia.
Qed.

(** every encodable element produces at least one byte *)
Lemma exec1_grows e enc rout r : EncElem e enc -> exec1 e rout = Some r -> nlen rout < nlen r.
Proof.
  intros He. inversion He; subst; cbn [exec1].
  - intros HH; injection HH as <-. rewrite nlen_rev_append. lia.
  - intros HH; injection HH as <-. rewrite nlen_rev_append. lia.
  - destruct (off =? 0); [discriminate|]. intros HH. apply ocopy_len in HH. lia.
  - destruct (off =? 0); [discriminate|]. intros HH. apply ocopy_len in HH. lia.
  - destruct (off =? 0); [discriminate|]. intros HH. apply ocopy_len in HH. lia.
Qed.

Lemma step_ref_ok rest rout ulen r rout' :
  step_ref rest rout ulen = Ok (r, rout') ->
  exists e enc, EncElem e enc /\ rest = enc ++ r /\ exec1 e rout = Some rout' /\ nlen rout' <= ulen.
Proof.
  unfold step_ref. destruct (parse_elem rest) as [[e r0]|] eqn:EP; [|discriminate].
  destruct (exec1 e rout) as [ro|] eqn:EX; [|discriminate].
  destruct (nlen ro <=? ulen) eqn:EL; [|discriminate].
  intros H; injection H as <- <-.
  destruct (parse_elem_sound _ _ _ EP) as (enc & He & ->).
  exists e, enc. repeat split; try assumption. lia.
Qed.

Lemma step_ref_no_fault rest rout ulen f : step_ref rest rout ulen <> Fault f.
Proof.
  unfold step_ref. destruct (parse_elem rest) as [[e r0]|]; [|discriminate].
  destruct (exec1 e rout); [|discriminate]. destruct (nlen l <=? ulen); discriminate.
Qed.

Lemma dloop_never_faults fuel : forall rest rout ulen cap f,
  bytes rest -> (length rest < fuel)%nat -> nlen rout <= ulen -> ulen <= cap ->
  dloop true fuel rest rout ulen cap <> Fault f.
Proof.
  induction fuel as [|fu IH]; intros rest rout ulen cap f B Hf H1 H2; [lia|].
  cbn [dloop]. destruct rest as [|a t]; [discriminate|].
  destruct (nlen rout <? ulen) eqn:E; [|discriminate].
  change (step_gen true) with step. rewrite step_spec by (assumption || discriminate).
  destruct (step_ref (a :: t) rout ulen) as [[r ro]|c|f0] eqn:ES.
  - cbn [bind fst snd]. destruct (step_ref_ok _ _ _ _ _ ES) as (e & enc & He & Hs & Hx & Hl).
    pose proof (EncElem_nonempty _ _ He) as Hn.
    assert (Hlen : length (a :: t) = (length enc + length r)%nat) by (rewrite Hs, app_length; reflexivity).
    apply IH; [|lia|assumption|assumption].
    rewrite Hs in B. apply bytes_app in B. apply B.
  - discriminate.
  - exfalso. eapply step_ref_no_fault. exact ES.
Qed.

Lemma dloop_complete es body : EncElems es body -> forall fuel rout fin ulen cap,
  bytes body -> exec es rout = Some fin -> nlen fin = ulen -> ulen <= cap -> (length body < fuel)%nat ->
  dloop true fuel body rout ulen cap = Ok ([], fin).
Proof.
  induction 1 as [|e enc es rest He Hes IH]; intros fuel rout fin ulen cap B Hx Hl Hc Hf.
  - destruct fuel; [lia|]. injection Hx as <-. reflexivity.
  - destruct fuel as [|fu]; [lia|].
    pose proof (EncElem_nonempty _ _ He) as Hn.
    cbn [exec] in Hx. destruct (exec1 e rout) as [r1|] eqn:E1; [|discriminate].
    pose proof (exec1_grows _ _ _ _ He E1) as Hg. pose proof (exec_mono _ _ _ Hx) as Hm.
    cbn [dloop]. destruct (enc ++ rest) as [|a t] eqn:EA.
    { destruct enc; [simpl in Hn; lia|discriminate]. }
    destruct (nlen rout <? ulen) eqn:E; [|lia].
    change (step_gen true) with step. rewrite step_spec; [|assumption|discriminate|lia|assumption].
    unfold step_ref. rewrite <- EA. rewrite (parse_elem_complete _ _ rest He), E1.
    destruct (nlen r1 <=? ulen) eqn:E2; [|lia]. cbn [bind fst snd].
    apply IH; try assumption.
    + rewrite <- EA in B. apply bytes_app in B. apply B.
    + assert (length (a :: t) = (length enc + length rest)%nat) by (rewrite <- EA, app_length; reflexivity). lia.
Qed.

Lemma dloop_sound fuel : forall rest rout ulen cap rest' rout',
  bytes rest -> nlen rout <= ulen -> ulen <= cap ->
  dloop true fuel rest rout ulen cap = Ok (rest', rout') ->
  exists es pre, rest = pre ++ rest' /\ EncElems es pre /\ exec es rout = Some rout'.
Proof.
  induction fuel as [|fu IH]; intros rest rout ulen cap rest' rout' B H1 H2 H; [discriminate|].
  cbn [dloop] in H. destruct rest as [|a t].
  - injection H as <- <-. exists [], []. repeat split. constructor.
  - destruct (nlen rout <? ulen) eqn:E.
    + change (step_gen true) with step in H. rewrite step_spec in H by (assumption || discriminate).
      destruct (step_ref (a :: t) rout ulen) as [[r ro]|c|f0] eqn:ES; try discriminate.
      cbn [bind fst snd] in H.
      destruct (step_ref_ok _ _ _ _ _ ES) as (e & enc & He & Hs & Hx & Hl).
      assert (Br : bytes r) by (rewrite Hs in B; apply bytes_app in B; apply B).
      destruct (IH _ _ _ _ _ _ Br Hl H2 H) as (es & pre & -> & Hes & Hxs).
      exists (e :: es), (enc ++ pre). split; [rewrite Hs, app_assoc; reflexivity|].
      split; [constructor; assumption|]. cbn [exec]. rewrite Hx. exact Hxs.
    + injection H as <- <-. exists [], []. repeat split. constructor.
Qed.

(* ================================================================== theorems about decompress *)

(** Every valid Snappy block (all tag kinds, all literal length forms, copy-4, overlapping copies) is
    decoded to the bytes it denotes, whenever the destination has room for them. *)
Theorem snappy_decompress_complete_thm : forall s x cap,
  bytes s -> DenotesSnappy s x -> nlen x <= cap -> decompress s cap = Ok x.
Proof.
  intros s x cap B (pre & body & es & -> & HP & Hes & Hx) Hc.
  unfold decompress, decompress_gen. rewrite read_varint_spec by exact B.
  rewrite (parse_preamble_complete _ _ body HP).
  destruct (cap <? nlen x) eqn:E; [lia|].
  apply bytes_app in B. destruct B as [_ Bb].
  rewrite (dloop_complete _ _ Hes (S (length body)) [] (rev x) (nlen x) cap Bb Hx);
    [|apply nlen_rev|assumption|lia].
  cbn [bind fst snd is_nil]. rewrite nlen_rev, N.eqb_refl. cbn [negb orb].
  rewrite frev_rev, rev_involutive. reflexivity.
Qed.

(** Whatever the decompressor accepts is a valid block, and the bytes returned are the denoted ones. *)
Theorem snappy_decompress_sound_thm : forall s x cap,
  bytes s -> decompress s cap = Ok x -> DenotesSnappy s x /\ nlen x <= cap.
Proof.
  intros s x cap B. unfold decompress, decompress_gen. rewrite read_varint_spec by exact B.
  destruct (parse_preamble s) as [[ulen r]|] eqn:EP; [|discriminate].
  destruct (cap <? ulen) eqn:E; [discriminate|].
  destruct (parse_preamble_sound _ _ _ EP) as (pre & -> & HP).
  apply bytes_app in B. destruct B as [_ Br].
  destruct (dloop true (S (length r)) r [] ulen cap) as [[rest' rout']|c|f] eqn:ED; try discriminate.
  cbn [bind fst snd]. destruct (nlen rout' =? ulen) eqn:EL; cbn [negb orb]; [|discriminate].
  destruct rest' as [|a t]; cbn [is_nil negb]; [|discriminate].
  rewrite frev_rev. intros H; injection H as <-.
  assert (H0 : nlen (@nil N) <= ulen) by (rewrite nlen_nil; lia).
  assert (H2 : ulen <= cap) by lia.
  destruct (dloop_sound _ _ _ _ _ _ _ Br H0 H2 ED) as (es & pre' & -> & Hes & Hx).
  rewrite app_nil_r. split.
  - exists pre, pre', es. repeat split; try assumption.
    + rewrite nlen_rev. replace (nlen rout') with ulen by lia. apply HP.
    + apply HP.
    + rewrite nlen_rev. replace (nlen rout') with ulen by lia. apply HP.
    + rewrite rev_involutive. exact Hx.
  - rewrite nlen_rev. lia.
Qed.

(** The repaired decompressor never reads outside [src, src+len) nor writes outside [dst, dst+cap),
    and its loop terminates within |s|+1 iterations.  (Shared with C08.) *)
Theorem snappy_decompress_never_faults_thm : forall s cap f,
  bytes s -> decompress s cap <> Fault f.
Proof.
  intros s cap f B. unfold decompress, decompress_gen. rewrite read_varint_spec by exact B.
  destruct (parse_preamble s) as [[ulen r]|] eqn:EP; [|discriminate].
  destruct (cap <? ulen) eqn:E; [discriminate|].
  destruct (parse_preamble_sound _ _ _ EP) as (pre & -> & HP).
  apply bytes_app in B. destruct B as [_ Br].
  destruct (dloop true (S (length r)) r [] ulen cap) as [[rest' rout']|c|f0] eqn:ED.
  - cbn [bind]. destruct (negb (nlen (snd (rest', rout')) =? ulen) || negb (is_nil (fst (rest', rout')))); discriminate.
  - discriminate.
  - exfalso. eapply (dloop_never_faults (S (length r)) r [] ulen cap f0); try eassumption; try lia.
    rewrite nlen_nil. lia.
Qed.

(** Invalid streams (truncated elements, offset zero, offset beyond the bytes produced, declared
    length different from the decoded length, bytes after the last element, malformed preamble, ...)
    are refused with an error status. *)
Theorem snappy_decompress_rejects_invalid_thm : forall s cap,
  bytes s -> (forall x, ~ DenotesSnappy s x) -> exists c, decompress s cap = Err c.
Proof.
  intros s cap B Hn. destruct (decompress s cap) as [x|c|f] eqn:E.
  - exfalso. apply (Hn x). eapply snappy_decompress_sound_thm; eassumption.
  - eauto.
  - exfalso. eapply snappy_decompress_never_faults_thm; eassumption.
Qed.

(** The pinned code (before commit ed2a30f) read one byte past the input: DESIGN F6. *)
Example snappy_pinned_copy1_overread : decompress_pinned [5; 0; 97; 1] 5 = Fault OobRead.
Proof. vm_compute. reflexivity. Qed.
Example snappy_repaired_copy1_rejected : decompress [5; 0; 97; 1] 5 = Err ERR_DATA.
Proof. vm_compute. reflexivity. Qed.

(** the hypotheses of the theorems above are satisfiable by non-trivial values: a stream using a
    2-byte literal length, copy-1 with overlap, copy-2 and copy-4 *)
Example snappy_denotes_example :
  DenotesSnappy [14; 244; 1; 0; 97; 98; 1 + 4 * 3; 1; 2 + 4 * 1; 2; 0; 3 + 4 * 2; 9; 0; 0; 0]
                [97; 98; 98; 98; 98; 98; 98; 98; 98; 98; 98; 98; 98; 98].
Proof. apply spec_decode_sound. vm_compute. reflexivity. Qed.
