(** Proofs about the model of src/compression/snappy.c (SnappyModel.v) against the format
    specification (SnappySpec.v): the decompressor accepts exactly the valid streams and never
    faults; the compressor emits a valid stream for every match finder; round trip; size bound. *)
From Coq Require Import NArith ZArith Arith List Bool Lia ZifyBool ZifyNat ZifyN.
From Carquet Require Import Base.Res Gen.Consts_gen Comp.CompBase Comp.CompMem Comp.CompMemProofs
  Comp.SnappySpec Comp.SnappyModel.
Import ListNotations.
Local Open Scope N_scope.
Ltac Zify.zify_post_hook ::= Z.div_mod_to_equations.

(* ================================================================== preamble *)

(** one unfolding of the varint reader at a concrete shift, against the specification parser *)
Ltac varint_step IHnext :=
  intros s value B Hv; destruct s as [|b r]; [reflexivity|];
  apply bytes_cons in B; destruct B as [Hb Br];
  cbn [read_varint parse_varint];
  cbn [N.eqb Pos.eqb andb];
  destruct (b <? 128) eqn:E1;
  [ destruct (b / 128 =? 0) eqn:E2; [|lia];
    replace (b mod 128) with b by lia
  | destruct (b <? 256) eqn:E3; [|lia];
    destruct (b / 128 =? 0) eqn:E2; [lia|] ].

Lemma rv4 : forall s value, bytes s -> value < 268435456 ->
  read_varint 28 value s =
  match parse_varint 1 s with
  | Some (v, r) => if value + 268435456 * v <? 4294967296 then Some (value + 268435456 * v, r) else None
  | None => None
  end.
Proof.
  intros s value B Hv. destruct s as [|b r]; [reflexivity|].
  apply bytes_cons in B. destruct B as [Hb Br].
  cbn [read_varint parse_varint]. change (28 =? 28) with true. cbn [andb].
  change (2 ^ 28) with 268435456. change (2 ^ 32) with 4294967296.
  destruct (b <? 128) eqn:E1.
  - replace (b mod 128) with b by lia. destruct (15 <? b) eqn:E4.
    + destruct (value + 268435456 * b <? 4294967296) eqn:E5; [lia|reflexivity].
    + destruct (b / 128 =? 0) eqn:E2; [|lia].
      destruct (value + 268435456 * b <? 4294967296) eqn:E5; [|lia].
      do 2 f_equal. lia.
  - destruct (b <? 256) eqn:E3; [|lia].
    destruct r as [|b' r']; cbn [parse_varint].
    + destruct (15 <? b mod 128); [reflexivity|]. destruct (b / 128 =? 0) eqn:E2; [lia|].
      change (32 <=? 28 + 7) with true. reflexivity.
    + destruct (15 <? b mod 128); [reflexivity|]. destruct (b / 128 =? 0) eqn:E2; [lia|].
      change (32 <=? 28 + 7) with true. reflexivity.
Qed.

Lemma rv3 : forall s value, bytes s -> value < 2097152 ->
  read_varint 21 value s =
  match parse_varint 2 s with
  | Some (v, r) => if value + 2097152 * v <? 4294967296 then Some (value + 2097152 * v, r) else None
  | None => None
  end.
Proof.
  intros s value B Hv. destruct s as [|b r]; [reflexivity|].
  apply bytes_cons in B. destruct B as [Hb Br].
  cbn [read_varint]. change (21 =? 28) with false. cbn [andb].
  change (2 ^ 21) with 2097152. change (2 ^ 32) with 4294967296. change (21 + 7) with 28.
  change (32 <=? 28) with false.
  change (parse_varint 2 (b :: r)) with
    (if b <? 128 then Some (b, r)
     else if b <? 256 then
       match parse_varint 1 r with Some (v, r') => Some (b - 128 + 128 * v, r') | None => None end
     else None).
  destruct (b <? 128) eqn:E1.
  - replace (b mod 128) with b by lia. destruct (b / 128 =? 0) eqn:E2; [|lia].
    destruct (value + 2097152 * b <? 4294967296) eqn:E5; [|lia].
    do 2 f_equal. lia.
  - destruct (b <? 256) eqn:E3; [|lia]. destruct (b / 128 =? 0) eqn:E2; [lia|].
    rewrite rv4; [|exact Br|lia].
    destruct (parse_varint 1 r) as [[v r']|]; [|reflexivity].
    replace ((value + b mod 128 * 2097152) mod 4294967296 + 268435456 * v) with (value + 2097152 * (b - 128 + 128 * v)) by lia.
    reflexivity.
Qed.

Lemma rv2 : forall s value, bytes s -> value < 16384 ->
  read_varint 14 value s =
  match parse_varint 3 s with
  | Some (v, r) => if value + 16384 * v <? 4294967296 then Some (value + 16384 * v, r) else None
  | None => None
  end.
Proof.
  intros s value B Hv. destruct s as [|b r]; [reflexivity|].
  apply bytes_cons in B. destruct B as [Hb Br].
  cbn [read_varint]. change (14 =? 28) with false. cbn [andb].
  change (2 ^ 14) with 16384. change (2 ^ 32) with 4294967296. change (14 + 7) with 21.
  change (32 <=? 21) with false.
  change (parse_varint 3 (b :: r)) with
    (if b <? 128 then Some (b, r)
     else if b <? 256 then
       match parse_varint 2 r with Some (v, r') => Some (b - 128 + 128 * v, r') | None => None end
     else None).
  destruct (b <? 128) eqn:E1.
  - replace (b mod 128) with b by lia. destruct (b / 128 =? 0) eqn:E2; [|lia].
    destruct (value + 16384 * b <? 4294967296) eqn:E5; [|lia].
    do 2 f_equal. lia.
  - destruct (b <? 256) eqn:E3; [|lia]. destruct (b / 128 =? 0) eqn:E2; [lia|].
    rewrite rv3; [|exact Br|lia].
    destruct (parse_varint 2 r) as [[v r']|]; [|reflexivity].
    replace ((value + b mod 128 * 16384) mod 4294967296 + 2097152 * v) with (value + 16384 * (b - 128 + 128 * v)) by lia.
    reflexivity.
Qed.

Lemma rv1 : forall s value, bytes s -> value < 128 ->
  read_varint 7 value s =
  match parse_varint 4 s with
  | Some (v, r) => if value + 128 * v <? 4294967296 then Some (value + 128 * v, r) else None
  | None => None
  end.
Proof.
  intros s value B Hv. destruct s as [|b r]; [reflexivity|].
  apply bytes_cons in B. destruct B as [Hb Br].
  cbn [read_varint]. change (7 =? 28) with false. cbn [andb].
  change (2 ^ 7) with 128. change (2 ^ 32) with 4294967296. change (7 + 7) with 14.
  change (32 <=? 14) with false.
  change (parse_varint 4 (b :: r)) with
    (if b <? 128 then Some (b, r)
     else if b <? 256 then
       match parse_varint 3 r with Some (v, r') => Some (b - 128 + 128 * v, r') | None => None end
     else None).
  destruct (b <? 128) eqn:E1.
  - replace (b mod 128) with b by lia. destruct (b / 128 =? 0) eqn:E2; [|lia].
    destruct (value + 128 * b <? 4294967296) eqn:E5; [|lia].
    do 2 f_equal. lia.
  - destruct (b <? 256) eqn:E3; [|lia]. destruct (b / 128 =? 0) eqn:E2; [lia|].
    rewrite rv2; [|exact Br|lia].
    destruct (parse_varint 3 r) as [[v r']|]; [|reflexivity].
    replace ((value + b mod 128 * 128) mod 4294967296 + 16384 * v) with (value + 128 * (b - 128 + 128 * v)) by lia.
    reflexivity.
Qed.

Lemma rv0 : forall s value, bytes s -> value < 1 ->
  read_varint 0 value s =
  match parse_varint 5 s with
  | Some (v, r) => if value + 1 * v <? 4294967296 then Some (value + 1 * v, r) else None
  | None => None
  end.
Proof.
  intros s value B Hv. destruct s as [|b r]; [reflexivity|].
  apply bytes_cons in B. destruct B as [Hb Br].
  cbn [read_varint]. change (0 =? 28) with false. cbn [andb].
  change (2 ^ 0) with 1. change (2 ^ 32) with 4294967296. change (0 + 7) with 7.
  change (32 <=? 7) with false.
  change (parse_varint 5 (b :: r)) with
    (if b <? 128 then Some (b, r)
     else if b <? 256 then
       match parse_varint 4 r with Some (v, r') => Some (b - 128 + 128 * v, r') | None => None end
     else None).
  destruct (b <? 128) eqn:E1.
  - replace (b mod 128) with b by lia. destruct (b / 128 =? 0) eqn:E2; [|lia].
    destruct (value + 1 * b <? 4294967296) eqn:E5; [|lia].
    do 2 f_equal. lia.
  - destruct (b <? 256) eqn:E3; [|lia]. destruct (b / 128 =? 0) eqn:E2; [lia|].
    rewrite rv1; [|exact Br|lia].
    destruct (parse_varint 4 r) as [[v r']|]; [|reflexivity].
    replace ((value + b mod 128 * 1) mod 4294967296 + 128 * v) with (value + 1 * (b - 128 + 128 * v)) by lia.
    reflexivity.
Qed.

Lemma read_varint_spec s : bytes s -> read_varint 0 0 s = parse_preamble s.
Proof.
  intros B. rewrite rv0 by (exact B || lia). unfold parse_preamble.
  destruct (parse_varint 5 s) as [[v r]|]; [|reflexivity].
  change (2 ^ 32) with 4294967296. replace (0 + 1 * v) with v by lia. reflexivity.
Qed.

(* ================================================================== one element *)

(** what one loop iteration does, in terms of the specification's parser and semantics *)
Definition step_ref (rest rout : list N) (ulen : N) : res (list N * list N) :=
  match parse_elem rest with
  | None => Err ERR_DATA
  | Some (e, r) =>
      match exec1 e rout with
      | None => Err ERR_DATA
      | Some rout' => if nlen rout' <=? ulen then Ok (r, rout') else Err ERR_DATA
      end
  end.

Lemma do_copy_spec off len r rout ulen cap :
  1 <= len -> nlen rout <= ulen -> ulen <= cap ->
  do_copy off len r rout ulen cap =
  match exec1 (Copy off len) rout with
  | None => Err ERR_DATA
  | Some rout' => if nlen rout' <=? ulen then Ok (r, rout') else Err ERR_DATA
  end.
Proof.
  intros Hl H1 H2. unfold do_copy, exec1.
  destruct (off =? 0) eqn:E0; [reflexivity|]. cbn [orb].
  destruct (nlen rout <? off) eqn:E1.
  - rewrite ocopy_none; [reflexivity|lia|lia].
  - destruct (ocopy_some (N.to_nat len) (off - 1) rout) as [r0 Hr0]; [lia|].
    pose proof (ocopy_len _ _ _ _ Hr0) as Hlen. rewrite Hr0.
    destruct (ulen <? nlen rout + len) eqn:E2.
    + destruct (nlen r0 <=? ulen) eqn:E3; [lia|reflexivity].
    + destruct (copy_back_ocopy (N.to_nat len) (off - 1) rout cap) as [r1 [Hr1 Hc]]; [lia|lia|].
      rewrite Hc. cbn [bind]. assert (r1 = r0) by congruence. subst r1.
      destruct (nlen r0 <=? ulen) eqn:E3; [reflexivity|lia].
Qed.

Lemma lit_spec len r rout ulen cap :
  nlen rout <= ulen -> ulen <= cap ->
  (if (nlen r <? len) || (ulen <? nlen rout + len) then Err ERR_DATA else copy_lit len r rout cap) =
  match match take len r with Some (bs, r') => Some (Lit bs, r') | None => None end with
  | Some (e, r') =>
      match exec1 e rout with
      | None => Err ERR_DATA
      | Some rout' => if nlen rout' <=? ulen then Ok (r', rout') else Err ERR_DATA
      end
  | None => Err ERR_DATA
  end.
Proof.
  intros H1 H2. destruct (nlen r <? len) eqn:E1; cbn [orb].
  - rewrite take_none by lia. reflexivity.
  - rewrite take_firstn_skipn by lia. cbn [exec1].
    rewrite nlen_rev_append, nlen_firstn by lia.
    destruct (ulen <? nlen rout + len) eqn:E2.
    + destruct (len + nlen rout <=? ulen) eqn:E3; [lia|reflexivity].
    + destruct (len + nlen rout <=? ulen) eqn:E3; [|lia]. apply copy_lit_ok; lia.
Qed.

Lemma step_spec rest rout ulen cap :
  bytes rest -> rest <> [] -> nlen rout <= ulen -> ulen <= cap ->
  step rest rout ulen cap = step_ref rest rout ulen.
Proof.
  intros B Hne H1 H2. destruct rest as [|tag r]; [congruence|].
  apply bytes_cons in B. destruct B as [Ht Br].
  unfold step, step_gen, step_ref, parse_elem, K_LITERAL, K_COPY1, K_COPY2,
    Snappy_SNAPPY_LITERAL, Snappy_SNAPPY_COPY_1, Snappy_SNAPPY_COPY_2.
  destruct (256 <=? tag) eqn:E256; [lia|]. cbv zeta.
  destruct (tag mod 4 =? 0) eqn:K0.
  { destruct (60 <? tag / 4 + 1) eqn:EL.
    - destruct (tag / 4 <? 60) eqn:EL'; [lia|].
      replace (tag / 4 + 1 - 60) with (tag / 4 - 59) by lia.
      destruct (nlen r <? tag / 4 - 59) eqn:E1.
      + rewrite take_none by lia. reflexivity.
      + rewrite take_firstn_skipn by lia.
        rewrite rd_le_ok by (unfold nlen in *; lia). cbn [bind].
        assert (HB : bytesb (firstn (N.to_nat (tag / 4 - 59)) r) = true)
          by (apply bytesb_spec, bytes_firstn; exact Br).
        rewrite HB.
        replace (1 + le_val (firstn (N.to_nat (tag / 4 - 59)) r))
          with (le_val (firstn (N.to_nat (tag / 4 - 59)) r) + 1) by lia.
        apply lit_spec; assumption.
    - destruct (tag / 4 <? 60) eqn:EL'; [|lia]. apply lit_spec; assumption. }
  destruct (tag mod 4 =? 1) eqn:K1.
  { destruct r as [|b r']; [reflexivity|].
    apply bytes_cons in Br. destruct Br as [Hb Br'].
    destruct (b <? 256) eqn:EB; [|lia].
    replace (tag / 32) with (tag / 4 / 8) by lia.
    apply do_copy_spec; [lia|assumption|assumption]. }
  destruct (tag mod 4 =? 2) eqn:K2.
  { destruct r as [|b0 [|b1 r']]; [reflexivity|reflexivity|].
    apply bytes_cons in Br. destruct Br as [Hb0 Br]. apply bytes_cons in Br. destruct Br as [Hb1 Br].
    replace (nlen (b0 :: b1 :: r') <? 2) with false by (rewrite !nlen_cons; lia).
    cbn [rd_le bind skipn bytesb forallb].
    destruct (b0 <? 256) eqn:E0; [|lia]. destruct (b1 <? 256) eqn:E1; [|lia]. cbn [andb le_val].
    replace ((tag / 4) mod 64) with (tag / 4) by lia.
    apply do_copy_spec; [lia|assumption|assumption]. }
  { destruct r as [|b0 [|b1 [|b2 [|b3 r']]]]; try reflexivity.
    apply bytes_cons in Br. destruct Br as [Hb0 Br]. apply bytes_cons in Br. destruct Br as [Hb1 Br].
    apply bytes_cons in Br. destruct Br as [Hb2 Br]. apply bytes_cons in Br. destruct Br as [Hb3 Br].
    replace (nlen (b0 :: b1 :: b2 :: b3 :: r') <? 4) with false by (rewrite !nlen_cons; lia).
    cbn [rd_le bind skipn bytesb forallb].
    destruct (b0 <? 256) eqn:E0; [|lia]. destruct (b1 <? 256) eqn:E1; [|lia].
    destruct (b2 <? 256) eqn:E2; [|lia]. destruct (b3 <? 256) eqn:E3; [|lia]. cbn [andb le_val].
    replace ((tag / 4) mod 64) with (tag / 4) by lia.
    apply do_copy_spec; [lia|assumption|assumption]. }
Qed.

(* ================================================================== the decompression loop *)

Lemma exec1_mono e rout r : exec1 e rout = Some r -> nlen rout <= nlen r.
Proof.
  destruct e as [bs|off len]; cbn [exec1].
  - intros H; injection H as <-. rewrite nlen_rev_append. lia.
  - destruct (off =? 0); [discriminate|]. intros H. apply ocopy_len in H. lia.
Qed.

Lemma exec_mono es : forall rout r, exec es rout = Some r -> nlen rout <= nlen r.
Proof.
  induction es as [|e t IH]; intros rout r H.
  - injection H as <-. lia.
  - cbn [exec] in H. destruct (exec1 e rout) as [r1|] eqn:E; [|discriminate].
    apply exec1_mono in E. apply IH in H. lia.
Qed.

(** every encodable element produces at least one byte *)
Lemma exec1_grows e enc rout r : EncElem e enc -> exec1 e rout = Some r -> nlen rout < nlen r.
Proof.
  intros He. inversion He; subst; cbn [exec1].
  - intros HH; injection HH as <-. rewrite nlen_rev_append. lia.
  - intros HH; injection HH as <-. rewrite nlen_rev_append. lia.
  - destruct (off =? 0); [discriminate|]. intros HH. apply ocopy_len in HH. lia.
  - destruct (off =? 0); [discriminate|]. intros HH. apply ocopy_len in HH. lia.
  - destruct (off =? 0); [discriminate|]. intros HH. apply ocopy_len in HH. lia.
Qed.

Lemma step_ref_ok rest rout ulen r rout' :
  step_ref rest rout ulen = Ok (r, rout') ->
  exists e enc, EncElem e enc /\ rest = enc ++ r /\ exec1 e rout = Some rout' /\ nlen rout' <= ulen.
Proof.
  unfold step_ref. destruct (parse_elem rest) as [[e r0]|] eqn:EP; [|discriminate].
  destruct (exec1 e rout) as [ro|] eqn:EX; [|discriminate].
  destruct (nlen ro <=? ulen) eqn:EL; [|discriminate].
  intros H; injection H as <- <-.
  destruct (parse_elem_sound _ _ _ EP) as (enc & He & ->).
  exists e, enc. repeat split; try assumption. lia.
Qed.

Lemma step_ref_no_fault rest rout ulen f : step_ref rest rout ulen <> Fault f.
Proof.
  unfold step_ref. destruct (parse_elem rest) as [[e r0]|]; [|discriminate].
  destruct (exec1 e rout); [|discriminate]. destruct (nlen l <=? ulen); discriminate.
Qed.

Lemma dloop_never_faults fuel : forall rest rout ulen cap f,
  bytes rest -> (length rest < fuel)%nat -> nlen rout <= ulen -> ulen <= cap ->
  dloop true fuel rest rout ulen cap <> Fault f.
Proof.
  induction fuel as [|fu IH]; intros rest rout ulen cap f B Hf H1 H2; [lia|].
  cbn [dloop]. destruct rest as [|a t]; [discriminate|].
  destruct (nlen rout <? ulen) eqn:E; [|discriminate].
  change (step_gen true) with step. rewrite step_spec by (assumption || discriminate).
  destruct (step_ref (a :: t) rout ulen) as [[r ro]|c|f0] eqn:ES.
  - cbn [bind fst snd]. destruct (step_ref_ok _ _ _ _ _ ES) as (e & enc & He & Hs & Hx & Hl).
    pose proof (EncElem_nonempty _ _ He) as Hn.
    assert (Hlen : length (a :: t) = (length enc + length r)%nat) by (rewrite Hs, app_length; reflexivity).
    apply IH; [|lia|assumption|assumption].
    rewrite Hs in B. apply bytes_app in B. apply B.
  - discriminate.
  - exfalso. eapply step_ref_no_fault. exact ES.
Qed.

Lemma dloop_complete es body : EncElems es body -> forall fuel rout fin ulen cap,
  bytes body -> exec es rout = Some fin -> nlen fin = ulen -> ulen <= cap -> (length body < fuel)%nat ->
  dloop true fuel body rout ulen cap = Ok ([], fin).
Proof.
  induction 1 as [|e enc es rest He Hes IH]; intros fuel rout fin ulen cap B Hx Hl Hc Hf.
  - destruct fuel; [lia|]. injection Hx as <-. reflexivity.
  - destruct fuel as [|fu]; [lia|].
    pose proof (EncElem_nonempty _ _ He) as Hn.
    cbn [exec] in Hx. destruct (exec1 e rout) as [r1|] eqn:E1; [|discriminate].
    pose proof (exec1_grows _ _ _ _ He E1) as Hg. pose proof (exec_mono _ _ _ Hx) as Hm.
    cbn [dloop]. destruct (enc ++ rest) as [|a t] eqn:EA.
    { destruct enc; [simpl in Hn; lia|discriminate]. }
    destruct (nlen rout <? ulen) eqn:E; [|lia].
    change (step_gen true) with step. rewrite step_spec; [|assumption|discriminate|lia|assumption].
    unfold step_ref. rewrite <- EA. rewrite (parse_elem_complete _ _ rest He), E1.
    destruct (nlen r1 <=? ulen) eqn:E2; [|lia]. cbn [bind fst snd].
    apply IH; try assumption.
    + rewrite <- EA in B. apply bytes_app in B. apply B.
    + assert (length (a :: t) = (length enc + length rest)%nat) by (rewrite <- EA, app_length; reflexivity). lia.
Qed.

Lemma dloop_sound fuel : forall rest rout ulen cap rest' rout',
  bytes rest -> nlen rout <= ulen -> ulen <= cap ->
  dloop true fuel rest rout ulen cap = Ok (rest', rout') ->
  exists es pre, rest = pre ++ rest' /\ EncElems es pre /\ exec es rout = Some rout'.
Proof.
  induction fuel as [|fu IH]; intros rest rout ulen cap rest' rout' B H1 H2 H; [discriminate|].
  cbn [dloop] in H. destruct rest as [|a t].
  - injection H as <- <-. exists [], []. repeat split. constructor.
  - destruct (nlen rout <? ulen) eqn:E.
    + change (step_gen true) with step in H. rewrite step_spec in H by (assumption || discriminate).
      destruct (step_ref (a :: t) rout ulen) as [[r ro]|c|f0] eqn:ES; try discriminate.
      cbn [bind fst snd] in H.
      destruct (step_ref_ok _ _ _ _ _ ES) as (e & enc & He & Hs & Hx & Hl).
      assert (Br : bytes r) by (rewrite Hs in B; apply bytes_app in B; apply B).
      destruct (IH _ _ _ _ _ _ Br Hl H2 H) as (es & pre & -> & Hes & Hxs).
      exists (e :: es), (enc ++ pre). split; [rewrite Hs, app_assoc; reflexivity|].
      split; [constructor; assumption|]. cbn [exec]. rewrite Hx. exact Hxs.
    + injection H as <- <-. exists [], []. repeat split. constructor.
Qed.

(* ================================================================== theorems about decompress *)

(** Every valid Snappy block (all tag kinds, all literal length forms, copy-4, overlapping copies) is
    decoded to the bytes it denotes, whenever the destination has room for them. *)
Theorem snappy_decompress_complete_thm : forall s x cap,
  bytes s -> DenotesSnappy s x -> nlen x <= cap -> decompress s cap = Ok x.
Proof.
  intros s x cap B (pre & body & es & -> & HP & Hes & Hx) Hc.
  unfold decompress, decompress_gen. rewrite read_varint_spec by exact B.
  rewrite (parse_preamble_complete _ _ body HP).
  destruct (cap <? nlen x) eqn:E; [lia|].
  apply bytes_app in B. destruct B as [_ Bb].
  rewrite (dloop_complete _ _ Hes (S (length body)) [] (rev x) (nlen x) cap Bb Hx);
    [|apply nlen_rev|assumption|lia].
  cbn [bind fst snd is_nil]. rewrite nlen_rev, N.eqb_refl. cbn [negb orb].
  rewrite frev_rev, rev_involutive. reflexivity.
Qed.

(** Whatever the decompressor accepts is a valid block, and the bytes returned are the denoted ones. *)
Theorem snappy_decompress_sound_thm : forall s x cap,
  bytes s -> decompress s cap = Ok x -> DenotesSnappy s x /\ nlen x <= cap.
Proof.
  intros s x cap B. unfold decompress, decompress_gen. rewrite read_varint_spec by exact B.
  destruct (parse_preamble s) as [[ulen r]|] eqn:EP; [|discriminate].
  destruct (cap <? ulen) eqn:E; [discriminate|].
  destruct (parse_preamble_sound _ _ _ EP) as (pre & -> & HP).
  apply bytes_app in B. destruct B as [_ Br].
  destruct (dloop true (S (length r)) r [] ulen cap) as [[rest' rout']|c|f] eqn:ED; try discriminate.
  cbn [bind fst snd]. destruct (nlen rout' =? ulen) eqn:EL; cbn [negb orb]; [|discriminate].
  destruct rest' as [|a t]; cbn [is_nil negb]; [|discriminate].
  rewrite frev_rev. intros H; injection H as <-.
  assert (H0 : nlen (@nil N) <= ulen) by (rewrite nlen_nil; lia).
  assert (H2 : ulen <= cap) by lia.
  destruct (dloop_sound _ _ _ _ _ _ _ Br H0 H2 ED) as (es & pre' & -> & Hes & Hx).
  rewrite app_nil_r. split.
  - exists pre, pre', es. repeat split; try assumption.
    + rewrite nlen_rev. replace (nlen rout') with ulen by lia. apply HP.
    + apply HP.
    + rewrite nlen_rev. replace (nlen rout') with ulen by lia. apply HP.
    + rewrite rev_involutive. exact Hx.
  - rewrite nlen_rev. lia.
Qed.

(** The repaired decompressor never reads outside [src, src+len) nor writes outside [dst, dst+cap),
    and its loop terminates within |s|+1 iterations.  (Shared with C08.) *)
Theorem snappy_decompress_never_faults_thm : forall s cap f,
  bytes s -> decompress s cap <> Fault f.
Proof.
  intros s cap f B. unfold decompress, decompress_gen. rewrite read_varint_spec by exact B.
  destruct (parse_preamble s) as [[ulen r]|] eqn:EP; [|discriminate].
  destruct (cap <? ulen) eqn:E; [discriminate|].
  destruct (parse_preamble_sound _ _ _ EP) as (pre & -> & HP).
  apply bytes_app in B. destruct B as [_ Br].
  destruct (dloop true (S (length r)) r [] ulen cap) as [[rest' rout']|c|f0] eqn:ED.
  - cbn [bind]. destruct (negb (nlen (snd (rest', rout')) =? ulen) || negb (is_nil (fst (rest', rout')))); discriminate.
  - discriminate.
  - exfalso. eapply (dloop_never_faults (S (length r)) r [] ulen cap f0); try eassumption; try lia.
    rewrite nlen_nil. lia.
Qed.

(** Invalid streams (truncated elements, offset zero, offset beyond the bytes produced, declared
    length different from the decoded length, bytes after the last element, malformed preamble, ...)
    are refused with an error status. *)
Theorem snappy_decompress_rejects_invalid_thm : forall s cap,
  bytes s -> (forall x, ~ DenotesSnappy s x) -> exists c, decompress s cap = Err c.
Proof.
  intros s cap B Hn. destruct (decompress s cap) as [x|c|f] eqn:E.
  - exfalso. apply (Hn x). eapply snappy_decompress_sound_thm; eassumption.
  - eauto.
  - exfalso. eapply snappy_decompress_never_faults_thm; eassumption.
Qed.

(** The pinned code (before commit ed2a30f) read one byte past the input: DESIGN F6. *)
Example snappy_pinned_copy1_overread : decompress_pinned [5; 0; 97; 1] 5 = Fault OobRead.
Proof. vm_compute. reflexivity. Qed.
Example snappy_repaired_copy1_rejected : decompress [5; 0; 97; 1] 5 = Err ERR_DATA.
Proof. vm_compute. reflexivity. Qed.

(** the hypotheses of the theorems above are satisfiable by non-trivial values: a stream using a
    2-byte literal length, copy-1 with overlap, copy-2 and copy-4 *)
Example snappy_denotes_example :
  DenotesSnappy [14; 244; 1; 0; 97; 98; 1 + 4 * 3; 1; 2 + 4 * 1; 2; 0; 3 + 4 * 2; 9; 0; 0; 0]
                [97; 98; 98; 98; 98; 98; 98; 98; 98; 98; 98; 98; 98; 98].
Proof. apply spec_decode_sound. vm_compute. reflexivity. Qed.

(* ================================================================== compression: common prefix *)

(** common prefix length: the bytes agree, and the first list is not exhausted beyond its length *)
Lemma cpl_spec a : forall b k, (k < cpl a b)%nat -> nth_error a k = nth_error b k /\ (k < length a)%nat.
Proof.
  induction a as [|u a' IH]; intros b k H; [simpl in H; lia|].
  destruct b as [|v b']; [simpl in H; lia|]. cbn [cpl] in H.
  destruct (u =? v) eqn:E; [|lia].
  destruct k as [|k].
  - cbn [nth_error length]. split; [f_equal; lia|lia].
  - cbn [nth_error length]. destruct (IH b' k) as [P Q]; [lia|]. split; [exact P|lia].
Qed.

Lemma cpl_le a b : (cpl a b <= length a)%nat.
Proof.
  revert b. induction a as [|u a' IH]; intros b; [simpl; lia|].
  destruct b as [|v b']; [simpl; lia|]. cbn [cpl length]. destruct (u =? v); [specialize (IH b'); lia|lia].
Qed.

(* ================================================================== compression: the emitters *)

Lemma EncElems_app a sa : EncElems a sa -> forall b sb, EncElems b sb -> EncElems (a ++ b) (sa ++ sb).
Proof.
  induction 1 as [|e enc es rest He Hes IH]; intros b sb Hb; [exact Hb|].
  cbn [app]. rewrite <- app_assoc. constructor; [exact He|apply IH; exact Hb].
Qed.

Lemma EncElems_one e enc : EncElem e enc -> EncElems [e] enc.
Proof. intros H. rewrite <- (app_nil_r enc). constructor; [exact H|constructor]. Qed.

Lemma exec_app a b rout :
  exec (a ++ b) rout = match exec a rout with Some r => exec b r | None => None end.
Proof.
  revert rout. induction a as [|e t IH]; intros rout; [reflexivity|].
  cbn [app exec]. destruct (exec1 e rout); [apply IH|reflexivity].
Qed.

Definition lits_bytes (es : list elem) : Prop :=
  Forall (fun e => match e with Lit bs => bytes bs | Copy _ _ => True end) es.

Lemma EncElem_bytes e enc : EncElem e enc -> match e with Lit bs => bytes bs | Copy _ _ => True end -> bytes enc.
Proof.
  intros H HB. inversion H; subst.
  - apply bytes_cons. split; [lia|exact HB].
  - apply bytes_cons. split; [lia|]. apply bytes_app. split; assumption.
  - repeat (apply bytes_cons; split; [lia|]). constructor.
  - repeat (apply bytes_cons; split; [lia|]). constructor.
  - assert (P : 2 ^ 32 = 4294967296) by reflexivity. rewrite P in *.
    repeat (apply bytes_cons; split; [lia|]). constructor.
Qed.

Lemma EncElems_bytes es body : EncElems es body -> lits_bytes es -> bytes body.
Proof.
  induction 1 as [|e enc es rest He Hes IH]; intros HB; [constructor|].
  inversion HB; subst. apply bytes_app. split; [eapply EncElem_bytes; eassumption|apply IH; assumption].
Qed.

Lemma Varint_bytes pre v : Varint pre v -> bytes pre.
Proof.
  induction 1; [apply bytes_cons; split; [lia|constructor] | apply bytes_cons; split; [lia|assumption]].
Qed.

(** snappy_write_varint writes a valid preamble *)
Lemma write_varint_ok fuel : forall v, (1 <= fuel)%nat -> v < 128 ^ N.of_nat fuel ->
  Varint (write_varint fuel v) v /\ (length (write_varint fuel v) <= fuel)%nat.
Proof.
  induction fuel as [|f IH]; intros v Hf Hv; [lia|].
  cbn [write_varint]. destruct (128 <=? v) eqn:E.
  - assert (Hf' : (1 <= f)%nat).
    { destruct f; [|lia]. change (128 ^ N.of_nat 1) with 128 in Hv. lia. }
    assert (Hv' : v / 128 < 128 ^ N.of_nat f).
    { replace (N.of_nat (S f)) with (N.succ (N.of_nat f)) in Hv by lia. rewrite N.pow_succ_r' in Hv. lia. }
    destruct (IH (v / 128) Hf' Hv') as [HV HL]. split; [|simpl; lia].
    assert (Hb : 128 <= 128 + v mod 128 < 256) by lia.
    pose proof (V_more (128 + v mod 128) _ _ Hb HV) as HH.
    replace (128 + v mod 128 - 128 + 128 * (v / 128)) with v in HH by lia. exact HH.
  - split; [constructor; lia|simpl; lia].
Qed.

Lemma write_varint_preamble v : v < 2 ^ 32 -> Preamble (write_varint 5 v) v.
Proof.
  intros H. destruct (write_varint_ok 5 v) as [HV HL]; [lia| |].
  - change (128 ^ N.of_nat 5) with 34359738368. change (2 ^ 32) with 4294967296 in H. lia.
  - split; [exact HV|]. split; [exact HL|exact H].
Qed.

(** snappy_emit_literal writes one valid literal element *)
Lemma emit_literal_enc lit : 1 <= nlen lit -> nlen lit <= 2 ^ 32 -> EncElem (Lit lit) (emit_literal lit).
Proof.
  intros H1 H2. change (2 ^ 32) with 4294967296 in H2. unfold emit_literal. set (len := nlen lit) in *.
  destruct (len <=? 60) eqn:E1.
  { cbn [app]. replace ((4 * (len - 1)) mod 256) with (4 * (nlen lit - 1)) by (fold len; lia).
    constructor. fold len. lia. }
  destruct (len <=? 256) eqn:E2.
  { change 240 with (4 * (59 + nlen [(len - 1) mod 256])).
    change ([4 * (59 + nlen [(len - 1) mod 256]); (len - 1) mod 256] ++ lit)
      with (4 * (59 + nlen [(len - 1) mod 256]) :: [(len - 1) mod 256] ++ lit).
    constructor.
    - rewrite nlen_cons, nlen_nil. lia.
    - apply bytes_cons. split; [lia|constructor].
    - fold len. cbn [le_val]. lia. }
  destruct (len <=? 65536) eqn:E3.
  { set (lb := [(len - 1) mod 256; ((len - 1) / 256) mod 256]).
    change 244 with (4 * (59 + nlen lb)).
    change ([4 * (59 + nlen lb); (len - 1) mod 256; ((len - 1) / 256) mod 256] ++ lit)
      with (4 * (59 + nlen lb) :: lb ++ lit).
    constructor.
    - unfold lb. rewrite !nlen_cons, nlen_nil. lia.
    - unfold lb. repeat (apply bytes_cons; split; [lia|]). constructor.
    - fold len. unfold lb. cbn [le_val]. lia. }
  destruct (len <=? 16777216) eqn:E4.
  { set (lb := [(len - 1) mod 256; ((len - 1) / 256) mod 256; ((len - 1) / 65536) mod 256]).
    change 248 with (4 * (59 + nlen lb)).
    change ([4 * (59 + nlen lb); (len - 1) mod 256; ((len - 1) / 256) mod 256; ((len - 1) / 65536) mod 256] ++ lit)
      with (4 * (59 + nlen lb) :: lb ++ lit).
    constructor.
    - unfold lb. rewrite !nlen_cons, nlen_nil. lia.
    - unfold lb. repeat (apply bytes_cons; split; [lia|]). constructor.
    - fold len. unfold lb. cbn [le_val]. lia. }
  { set (lb := [(len - 1) mod 256; ((len - 1) / 256) mod 256; ((len - 1) / 65536) mod 256;
                ((len - 1) / 16777216) mod 256]).
    change 252 with (4 * (59 + nlen lb)).
    change ([4 * (59 + nlen lb); (len - 1) mod 256; ((len - 1) / 256) mod 256; ((len - 1) / 65536) mod 256;
             ((len - 1) / 16777216) mod 256] ++ lit)
      with (4 * (59 + nlen lb) :: lb ++ lit).
    constructor.
    - unfold lb. rewrite !nlen_cons, nlen_nil. lia.
    - unfold lb. repeat (apply bytes_cons; split; [lia|]). constructor.
    - fold len. unfold lb. cbn [le_val]. lia. }
Qed.

Lemma emit_literal_len lit :
  nlen (emit_literal lit) =
  nlen lit + 1 + (if nlen lit <=? 60 then 0 else if nlen lit <=? 256 then 1 else if nlen lit <=? 65536 then 2
                  else if nlen lit <=? 16777216 then 3 else 4).
Proof.
  unfold emit_literal. rewrite nlen_app.
  destruct (nlen lit <=? 60); [rewrite !nlen_cons, nlen_nil; lia|].
  destruct (nlen lit <=? 256); [rewrite !nlen_cons, nlen_nil; lia|].
  destruct (nlen lit <=? 65536); [rewrite !nlen_cons, nlen_nil; lia|].
  destruct (nlen lit <=? 16777216); rewrite !nlen_cons, nlen_nil; lia.
Qed.

Lemma copy2_enc off len : 1 <= len <= 64 -> off < 65536 -> EncElem (Copy off len) (copy2_bytes off len).
Proof.
  intros Hl Ho. unfold copy2_bytes, K_COPY2, Snappy_SNAPPY_COPY_2.
  replace ((4 * (len - 1) + 2) mod 256) with (4 * (len - 1) + 2) by lia.
  replace ((off / 256) mod 256) with (off / 256) by lia.
  constructor; assumption.
Qed.

Lemma exec1_copy off len rout : off <> 0 -> exec1 (Copy off len) rout = ocopy (N.to_nat len) (off - 1) rout.
Proof. intros H. cbn [exec1]. destruct (off =? 0) eqn:E; [lia|reflexivity]. Qed.

(** the last piece of snappy_emit_copy: one copy-1 or copy-2 element *)
Lemma emit_copy_tail_enc off len :
  4 <= len <= 64 -> 1 <= off < 65536 ->
  EncElem (Copy off len)
    (if (12 <=? len) || (2048 <=? off) then copy2_bytes off len
     else [(32 * (off / 256) + 4 * (len - 4) + K_COPY1) mod 256; off mod 256]).
Proof.
  intros Hl Ho. destruct ((12 <=? len) || (2048 <=? off)) eqn:E.
  - apply copy2_enc; lia.
  - unfold K_COPY1, Snappy_SNAPPY_COPY_1.
    replace ((32 * (off / 256) + 4 * (len - 4) + 1) mod 256) with (32 * (off / 256) + 4 * (len - 4) + 1) by lia.
    constructor; lia.
Qed.

(** snappy_emit_copy writes valid copy elements that together copy [len] bytes from [off] back *)
Lemma emit_copy_enc fuel : forall off len,
  4 <= len -> (N.to_nat (len / 64) < fuel)%nat -> 1 <= off < 65536 ->
  exists cs, EncElems cs (emit_copy fuel off len) /\ lits_bytes cs /\
             forall rout, exec cs rout = ocopy (N.to_nat len) (off - 1) rout.
Proof.
  induction fuel as [|f IH]; intros off len Hl Hf Ho; [lia|].
  cbn [emit_copy]. destruct (68 <=? len) eqn:E68.
  - destruct (IH off (len - 64)) as (cs & Hcs & HB & Hx); [lia|lia|lia|].
    exists (Copy off 64 :: cs). split; [constructor; [apply copy2_enc; lia|exact Hcs]|].
    split; [constructor; [exact I|exact HB]|].
    intros rout. cbn [exec]. rewrite exec1_copy by lia.
    replace (N.to_nat len) with (N.to_nat 64 + N.to_nat (len - 64))%nat by lia.
    rewrite ocopy_add. destruct (ocopy (N.to_nat 64) (off - 1) rout); [apply Hx|reflexivity].
  - destruct (64 <? len) eqn:E64.
    + exists [Copy off 60; Copy off (len - 60)]. split; [|split].
      * change [Copy off 60; Copy off (len - 60)] with ([Copy off 60] ++ [Copy off (len - 60)]).
        apply EncElems_app; apply EncElems_one; [apply copy2_enc; lia|apply emit_copy_tail_enc; lia].
      * repeat constructor.
      * intros rout. cbn [exec]. rewrite !exec1_copy by lia.
        replace (N.to_nat len) with (N.to_nat 60 + N.to_nat (len - 60))%nat by lia.
        rewrite ocopy_add. destruct (ocopy (N.to_nat 60) (off - 1) rout) as [r|]; [|reflexivity].
        rewrite exec1_copy by lia. destruct (ocopy (N.to_nat (len - 60)) (off - 1) r); reflexivity.
    + exists [Copy off len]. split; [|split].
      * cbn [app]. apply EncElems_one. apply emit_copy_tail_enc; lia.
      * repeat constructor.
      * intros rout. cbn [exec]. rewrite exec1_copy by lia. destruct (ocopy (N.to_nat len) (off - 1) rout); reflexivity.
Qed.

Lemma emit_copy_len fuel : forall off len,
  4 <= len -> (N.to_nat (len / 64) < fuel)%nat -> nlen (emit_copy fuel off len) + 1 <= len.
Proof.
  induction fuel as [|f IH]; intros off len Hl Hf; [lia|].
  cbn [emit_copy]. destruct (68 <=? len) eqn:E68.
  - rewrite nlen_app. specialize (IH off (len - 64)). unfold copy2_bytes at 1. rewrite !nlen_cons, nlen_nil.
    assert (nlen (emit_copy f off (len - 64)) + 1 <= len - 64) by (apply IH; lia). lia.
  - rewrite nlen_app. destruct (64 <? len) eqn:E64.
    + destruct ((12 <=? len - 60) || (2048 <=? off)); unfold copy2_bytes; rewrite !nlen_cons, nlen_nil; lia.
    + destruct ((12 <=? len) || (2048 <=? off)); unfold copy2_bytes; rewrite !nlen_cons, nlen_nil; lia.
Qed.

(* ================================================================== compression: the main loop *)

Lemma MAX_OFFSET_eq : Snappy_SNAPPY_MAX_OFFSET = 32768.
Proof. reflexivity. Qed.

Lemma lits_bytes_app a b : lits_bytes a -> lits_bytes b -> lits_bytes (a ++ b).
Proof. unfold lits_bytes. intros. apply Forall_app. split; assumption. Qed.

Section CompressProofs.
  Context {St : Type}.
  Variable look : St -> nat -> nat * St.
  Variable ins : St -> nat -> St.

  (** Invariant of the main loop, for EVERY match finder: from a state (ip, anchor) the loop emits
      valid elements that extend the first [anchor] input bytes to the whole input, never reads
      outside the input, and expands by at most one sixth (plus one byte). *)
  Lemma sloop_valid (x : list N) (n : nat) : n = length x -> bytes x -> N.of_nat n < 2 ^ 32 ->
    forall fuel st ip anchor, (anchor <= ip)%nat -> (ip <= n)%nat -> (n - ip < fuel)%nat ->
    exists body es,
      sloop look ins fuel x n st ip anchor = Ok body /\ EncElems es body /\ lits_bytes es /\
      exec es (rev (firstn anchor x)) = Some (rev x) /\
      6 * nlen body <= 7 * N.of_nat (n - anchor) + 6.
  Proof.
    intros Hn B H32. change (2 ^ 32) with 4294967296 in H32.
    induction fuel as [|f IH]; intros st ip anchor Ha Hi Hf; [lia|].
    cbn [sloop]. destruct (ip + 15 <? n)%nat eqn:E15.
    - (* inside the main loop *)
      destruct (look st ip) as [ref st1].
      destruct ((ip <=? ref)%nat || (Snappy_SNAPPY_MAX_OFFSET <? N.of_nat (ip - ref))) eqn:Eskip.
      { apply IH; lia. }
      rewrite MAX_OFFSET_eq in Eskip.
      destruct (rd32_some x ref) as [a Ea]; [lia|]. destruct (rd32_some x ip) as [b Eb]; [lia|].
      rewrite Ea, Eb. destruct (negb (a =? b)) eqn:Eab.
      { apply IH; lia. }
      assert (a = b) by lia. subst b. clear Eab.
      set (ext := cpl (skipn (ip + 4) x) (skipn (ref + 4) x)).
      set (mlen := (4 + ext)%nat).
      assert (Hext : (ext <= n - (ip + 4))%nat).
      { unfold ext. pose proof (cpl_le (skipn (ip + 4) x) (skipn (ref + 4) x)) as P.
        rewrite skipn_length in P. lia. }
      assert (HM : forall k, (k < mlen)%nat -> nth_error x (ip - (ip - ref) + k) = nth_error x (ip + k)).
      { intros k Hk. replace (ip - (ip - ref))%nat with ref by lia.
        destruct (Nat.lt_ge_cases k 4) as [L|G].
        - apply (rd32_eq x ref ip a B Ea Eb k L).
        - destruct (cpl_spec (skipn (ip + 4) x) (skipn (ref + 4) x) (k - 4)) as [P _]; [fold ext; lia|].
          rewrite !skipn_nth_error in P.
          replace (ip + 4 + (k - 4))%nat with (ip + k)%nat in P by lia.
          replace (ref + 4 + (k - 4))%nat with (ref + k)%nat in P by lia. congruence. }
      assert (HO : ocopy mlen (N.of_nat (ip - ref - 1)) (rev (firstn ip x)) = Some (rev (firstn (ip + mlen) x))).
      { apply ocopy_match; try lia. exact HM. }
      destruct (emit_copy_enc (emit_copy_fuel (N.of_nat mlen)) (N.of_nat (ip - ref)) (N.of_nat mlen))
        as (cs & Hcs & HBcs & Hxcs); [lia|unfold emit_copy_fuel; lia|lia|].
      pose proof (emit_copy_len (emit_copy_fuel (N.of_nat mlen)) (N.of_nat (ip - ref)) (N.of_nat mlen)) as HCL.
      assert (HCL' : nlen (emit_copy (emit_copy_fuel (N.of_nat mlen)) (N.of_nat (ip - ref)) (N.of_nat mlen)) + 1 <= N.of_nat mlen)
        by (apply HCL; [lia|unfold emit_copy_fuel; lia]). clear HCL.
      destruct (IH (if (ip + mlen + 15 <? n)%nat then ins st1 (ip + mlen - 1)%nat else st1) (ip + mlen)%nat (ip + mlen)%nat)
        as (rest & es' & Hrest & Hes' & HB' & Hx' & Hb'); [lia|lia|lia|].
      rewrite Hrest. cbn [bind].
      (* the pending literal *)
      assert (HLIT : exists el, EncElems el (if (anchor <? ip)%nat then emit_literal (slice x anchor ip) else []) /\
                lits_bytes el /\ exec el (rev (firstn anchor x)) = Some (rev (firstn ip x)) /\
                6 * nlen (if (anchor <? ip)%nat then emit_literal (slice x anchor ip) else []) <= 7 * N.of_nat (ip - anchor) + 6 * (if (anchor <? ip)%nat then 1 else 0)).
      { destruct (anchor <? ip)%nat eqn:EA.
        - exists [Lit (slice x anchor ip)].
          assert (HSL : nlen (slice x anchor ip) = N.of_nat (ip - anchor)) by (unfold nlen; rewrite slice_length; lia).
          split; [apply EncElems_one, emit_literal_enc; rewrite HSL; change (2 ^ 32) with 4294967296; lia|].
          split; [constructor; [apply bytes_slice; exact B|constructor]|].
          split.
          + cbn [exec exec1]. rewrite rev_append_rev, <- rev_app_distr, slice_app_firstn by lia. reflexivity.
          + rewrite emit_literal_len, HSL.
            destruct (N.of_nat (ip - anchor) <=? 60) eqn:L1; [lia|].
            destruct (N.of_nat (ip - anchor) <=? 256) eqn:L2; [lia|].
            destruct (N.of_nat (ip - anchor) <=? 65536) eqn:L3; [lia|].
            destruct (N.of_nat (ip - anchor) <=? 16777216) eqn:L4; lia.
        - exists []. split; [constructor|]. split; [constructor|].
          replace anchor with ip by lia. split; [reflexivity|]. change (nlen (@nil N)) with 0. lia. }
      destruct HLIT as (el & Hel & HBel & Hxel & Hbel).
      eexists. exists (el ++ cs ++ es'). split; [reflexivity|].
      split; [apply EncElems_app; [exact Hel|apply EncElems_app; assumption]|].
      split; [apply lits_bytes_app; [exact HBel|apply lits_bytes_app; assumption]|].
      split.
      + rewrite exec_app, Hxel, exec_app, Hxcs.
        rewrite Nat2N.id. replace (N.of_nat (ip - ref) - 1) with (N.of_nat (ip - ref - 1)) by lia.
        rewrite HO. exact Hx'.
      + rewrite !nlen_app. destruct (anchor <? ip)%nat eqn:EA; lia.
    - (* the final literal *)
      destruct (anchor <? n)%nat eqn:EA.
      + assert (HSL : nlen (slice x anchor n) = N.of_nat (n - anchor)) by (unfold nlen; rewrite slice_length; lia).
        eexists. exists [Lit (slice x anchor n)]. split; [reflexivity|].
        split; [apply EncElems_one, emit_literal_enc; rewrite HSL; change (2 ^ 32) with 4294967296; lia|].
        split; [constructor; [apply bytes_slice; exact B|constructor]|].
        split.
        * cbn [exec exec1]. rewrite rev_append_rev, <- rev_app_distr, slice_app_firstn by lia.
          rewrite Hn, firstn_all. reflexivity.
        * rewrite emit_literal_len, HSL.
          destruct (N.of_nat (n - anchor) <=? 60) eqn:L1; [lia|].
          destruct (N.of_nat (n - anchor) <=? 256) eqn:L2; [lia|].
          destruct (N.of_nat (n - anchor) <=? 65536) eqn:L3; [lia|].
          destruct (N.of_nat (n - anchor) <=? 16777216) eqn:L4; lia.
      + eexists. exists []. split; [reflexivity|]. split; [constructor|]. split; [constructor|].
        split; [|change (nlen (@nil N)) with 0; lia].
        cbn [exec]. replace anchor with n by lia. rewrite Hn, firstn_all. reflexivity.
  Qed.
End CompressProofs.

(* ================================================================== theorems about compress *)

(** For every match finder (every hash function, table size, aliasing pattern beyond 64 KiB) and
    every input shorter than 2^32 bytes, the compressor's output is a valid raw Snappy block denoting
    the input, consists of bytes, and is no longer than carquet_snappy_compress_bound. *)
Theorem snappy_compress_valid_thm : forall (St : Type) (look : St -> nat -> nat * St) (ins : St -> nat -> St)
    (st0 : St) (x : list N),
  bytes x -> nlen x < 2 ^ 32 ->
  exists out, compress_with look ins st0 x = Ok out /\ DenotesSnappy out x /\ bytes out /\
              nlen out <= compress_bound (nlen x).
Proof.
  intros St look ins st0 x B H32. unfold compress_with.
  assert (HP : Preamble (write_varint 5 (N.of_nat (length x) mod 2 ^ 32)) (nlen x)).
  { rewrite N.mod_small by exact H32. apply write_varint_preamble. exact H32. }
  set (hdr := write_varint 5 (N.of_nat (length x) mod 2 ^ 32)) in *.
  assert (Bh : bytes hdr) by (eapply Varint_bytes; apply HP).
  assert (Lh : nlen hdr <= 5) by (destruct HP as (_ & L & _); unfold nlen; lia).
  unfold compress_bound.
  destruct (length x =? 0)%nat eqn:E0.
  { exists hdr. split; [reflexivity|]. split; [|split; [exact Bh|lia]].
    exists hdr, [], []. rewrite app_nil_r. repeat split; try apply HP; try constructor.
    destruct x; [reflexivity|simpl in E0; lia]. }
  destruct (length x <? 15)%nat eqn:E15.
  { exists (hdr ++ emit_literal x). split; [reflexivity|].
    assert (HL : EncElem (Lit x) (emit_literal x)).
    { apply emit_literal_enc; unfold nlen in *; lia. }
    split; [|split].
    - exists hdr, (emit_literal x), [Lit x]. split; [reflexivity|]. split; [exact HP|].
      split; [apply EncElems_one; exact HL|]. cbn [exec exec1]. rewrite rev_append_rev, app_nil_r. reflexivity.
    - apply bytes_app. split; [exact Bh|]. eapply EncElem_bytes; [exact HL|exact B].
    - rewrite nlen_app, emit_literal_len. destruct (nlen x <=? 60) eqn:L; [lia|unfold nlen in *; lia]. }
  destruct (sloop_valid look ins x (length x) eq_refl B H32 (S (length x)) st0 O O)
    as (body & es & Hs & Hes & HB & Hx & Hb); [lia|lia|lia|].
  rewrite Hs. cbn [bind]. exists (hdr ++ body). split; [reflexivity|]. split; [|split].
  - exists hdr, body, es. split; [reflexivity|]. split; [exact HP|]. split; [exact Hes|exact Hx].
  - apply bytes_app. split; [exact Bh|]. eapply EncElems_bytes; eassumption.
  - rewrite nlen_app. unfold nlen in *. rewrite Nat.sub_0_r in Hb. lia.
Qed.

(** C09: compress, then decompress into a buffer of exactly len(x) bytes, returns x *)
Theorem snappy_roundtrip_thm : forall (St : Type) (look : St -> nat -> nat * St) (ins : St -> nat -> St)
    (st0 : St) (x : list N),
  bytes x -> nlen x < 2 ^ 32 ->
  exists out, compress_with look ins st0 x = Ok out /\ decompress out (nlen x) = Ok x.
Proof.
  intros St look ins st0 x B H32.
  destruct (snappy_compress_valid_thm St look ins st0 x B H32) as (out & Hc & HD & Bo & _).
  exists out. split; [exact Hc|]. apply snappy_decompress_complete_thm; [exact Bo|exact HD|lia].
Qed.

(** C09: with a destination of at least the advertised bound the call succeeds, writes at most
    [bound] bytes (no write beyond the destination) and reports the true length ... *)
Theorem snappy_compress_c_ok_thm : forall (St : Type) (look : St -> nat -> nat * St) (ins : St -> nat -> St)
    (st0 : St) (x : list N) (cap : N),
  bytes x -> nlen x < 2 ^ 32 -> compress_bound (nlen x) <= cap ->
  exists out, compress_c look ins st0 x cap = Ok out /\ nlen out <= compress_bound (nlen x) /\
              decompress out (nlen x) = Ok x.
Proof.
  intros St look ins st0 x cap B H32 Hc.
  destruct (snappy_compress_valid_thm St look ins st0 x B H32) as (out & Hco & HD & Bo & Hb).
  exists out. unfold compress_c. destruct (cap <? compress_bound (nlen x)) eqn:E; [lia|].
  rewrite Hco. cbn [bind]. destruct (nlen out <=? cap) eqn:E2; [|lia].
  split; [reflexivity|]. split; [exact Hb|]. apply snappy_decompress_complete_thm; [exact Bo|exact HD|lia].
Qed.

(** ... and a smaller destination is refused before anything is written. *)
Theorem snappy_compress_small_dst_refused_thm : forall (St : Type) (look : St -> nat -> nat * St)
    (ins : St -> nat -> St) (st0 : St) (x : list N) (cap : N),
  cap < compress_bound (nlen x) -> compress_c look ins st0 x cap = Err ERR_COMP.
Proof.
  intros St look ins st0 x cap H. unfold compress_c.
  destruct (cap <? compress_bound (nlen x)) eqn:E; [reflexivity|lia].
Qed.

(** the concrete-hash instance: a repetitive input is actually compressed, and comes back *)
Example snappy_compress_example :
  let x := repeat 7 40 ++ [1; 2; 3] ++ repeat 7 40 in
  exists out, compress x = Ok out /\ (length out < length x)%nat /\ spec_decode out = Some x.
Proof. eexists. split; [vm_compute; reflexivity|]. split; [vm_compute; lia|vm_compute; reflexivity]. Qed.

Theorem snappy_compress_spec_decode_thm : forall (St : Type) (look : St -> nat -> nat * St) (ins : St -> nat -> St)
    (st0 : St) (x : list N),
  bytes x -> nlen x < 2 ^ 32 ->
  exists out, compress_with look ins st0 x = Ok out /\ spec_decode out = Some x.
Proof.
  intros St look ins st0 x B H.
  destruct (snappy_compress_valid_thm St look ins st0 x B H) as (out & Hc & HD & _).
  exists out. split; [exact Hc|apply spec_decode_complete; exact HD].
Qed.

(** C09: a destination smaller than the declared length is refused, nothing is written beyond it *)
Theorem snappy_decompress_small_dst_refused_thm : forall s x cap,
  bytes s -> DenotesSnappy s x -> cap < nlen x -> exists c, decompress s cap = Err c.
Proof.
  intros s x cap B HD Hc. destruct (decompress s cap) as [y|c|f] eqn:E.
  - exfalso. destruct (snappy_decompress_sound_thm _ _ _ B E) as [HD' Hl].
    assert (x = y) by (eapply denotes_functional; eassumption). subst y. lia.
  - eauto.
  - exfalso. eapply snappy_decompress_never_faults_thm; eassumption.
Qed.
