(** Checked memory primitives shared by the Snappy and LZ4 models (definitions only; the lemmas are in
    CompMemProofs.v).  The source is a suffix list, the destination a reversed list plus a capacity;
    see the header of SnappyModel.v. *)
From Coq Require Import NArith ZArith List Bool.
From Carquet Require Import Base.Res Gen.Enums_gen Comp.CompBase.
Import ListNotations.
Local Open Scope N_scope.
Local Open Scope res_scope.

Definition ERR_DATA : Z := E_CARQUET_ERROR_INVALID_COMPRESSED_DATA.
Definition ERR_COMP : Z := E_CARQUET_ERROR_COMPRESSION.

(** [k] bytes at [ip], little-endian: the loop [len += (size_t)ip[i] << (8*i)] *)
Fixpoint rd_le (k : nat) (s : list N) : res N :=
  match k with
  | O => Ok 0
  | S k' => match s with
            | [] => Fault OobRead
            | b :: t => let* v := rd_le k' t in Ok (b + 256 * v)
            end
  end.

(** memcpy(op, ip, len) followed by ip += len; op += len *)
Definition copy_lit (len : N) (r rout : list N) (cap : N) : res (list N * list N) :=
  if nlen r <? len then Fault OobRead
  else if cap <? nlen rout + len then Fault OobWrite
  else Ok (skipn (N.to_nat len) r, rev_append (firstn (N.to_nat len) r) rout).

(** while (len-- > 0) *op++ = *ref++;   with ref = op - (d+1).  The memcpy branch of copy-2/copy-4
    (taken only when offset >= len, i.e. when the regions do not overlap) computes the same bytes. *)
Fixpoint copy_back (len : nat) (d : N) (rout : list N) (cap : N) : res (list N) :=
  match len with
  | O => Ok rout
  | S l =>
      match nthN rout d with
      | None => Fault OobRead
      | Some b => if nlen rout <? cap then copy_back l d (b :: rout) cap else Fault OobWrite
      end
  end.

