(** Checked memory primitives shared by the Snappy and LZ4 models (definitions only; the lemmas are in
    CompMemProofs.v).  The source is a suffix list, the destination a reversed list plus a capacity;
    see the header of SnappyModel.v. *)
From Coq Require Import NArith ZArith List Bool FMapPositive.
From Carquet Require Import Base.Res Gen.Enums_gen Comp.CompBase.
Import ListNotations.
Local Open Scope N_scope.
Local Open Scope res_scope.

Definition ERR_DATA : Z := E_CARQUET_ERROR_INVALID_COMPRESSED_DATA.
Definition ERR_COMP : Z := E_CARQUET_ERROR_COMPRESSION.

(** [k] bytes at [ip], little-endian: the loop [len += (size_t)ip[i] << (8*i)] *)
Fixpoint rd_le (k : nat) (s : list N) : res N :=
  match k with
  | O => Ok 0
  | S k' => match s with
            | [] => Fault OobRead
            | b :: t => let* v := rd_le k' t in Ok (b + 256 * v)
            end
  end.

(** memcpy(op, ip, len) followed by ip += len; op += len *)
Definition copy_lit (len : N) (r rout : list N) (cap : N) : res (list N * list N) :=
  if nlen r <? len then Fault OobRead
  else if cap <? nlen rout + len then Fault OobWrite
  else Ok (skipn (N.to_nat len) r, rev_append (firstn (N.to_nat len) r) rout).

(** while (len-- > 0) *op++ = *ref++;   with ref = op - (d+1).  The memcpy branch of copy-2/copy-4
    (taken only when offset >= len, i.e. when the regions do not overlap) computes the same bytes. *)
Fixpoint copy_back (len : nat) (d : N) (rout : list N) (cap : N) : res (list N) :=
  match len with
  | O => Ok rout
  | S l =>
      match nthN rout d with
      | None => Fault OobRead
      | Some b => if nlen rout <? cap then copy_back l d (b :: rout) cap else Fault OobWrite
      end
  end.


(** read32 at position p of the input (checked) *)
Definition rd32 (x : list N) (p : nat) : option N :=
  match skipn p x with
  | a :: b :: c :: d :: _ => Some (le_val [a; b; c; d])
  | _ => None
  end.


Definition slice (x : list N) (from to : nat) : list N := firstn (to - from) (skipn from x).


(** uint16_t hash_table[], zero-initialised: positions are stored truncated to 16 bits *)
Definition table := PositiveMap.t N.
Definition tget (t : table) (h : N) : N :=
  match PositiveMap.find (N.succ_pos h) t with Some v => v | None => 0 end.
Definition tset (t : table) (h v : N) : table := PositiveMap.add (N.succ_pos h) v t.

Definition hash_look (hashf : N -> N) (x : list N) (t : table) (ip : nat) : nat * table :=
  match rd32 x ip with
  | Some v => let h := hashf v in (N.to_nat (tget t h), tset t h (N.of_nat ip mod 65536))
  | None => (ip, t)
  end.
Definition hash_ins (hashf : N -> N) (x : list N) (t : table) (p : nat) : table :=
  match rd32 x p with
  | Some v => tset t (hashf v) (N.of_nat p mod 65536)
  | None => t
  end.

