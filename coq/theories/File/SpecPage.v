(** What a column chunk of data pages v1 *denotes*, transcribed from the Parquet format documents
    (parquet.thrift: PageHeader / DataPageHeader / DictionaryPageHeader / ColumnMetaData; Encodings.md: PLAIN,
    dictionary encoding, RLE / bit-packing hybrid; Compression.md).  Independent of every model: it imports only
    other specifications (the run grammar of Enc/RleSpec.v, the PLAIN reference decoders of Enc/PlainSpec.v, the
    block formats of Comp/SnappySpec.v and Comp/Lz4Spec.v) and the regenerated enum values.

      data page v1 body  =  [repetition levels]  [definition levels]  values
        a level block is present iff the column's maximum level is > 0:
            4-byte little-endian length L, then L bytes of RLE/bit-packed hybrid at width bit_width(max level),
            carrying at least num_values levels (a last bit-packed group may be padded)
        number of values stored = number of definition levels equal to the maximum (all, when there are no levels)
        values PLAIN              : the type's PLAIN encoding
        values PLAIN_DICTIONARY / RLE_DICTIONARY : 1 byte bit width, then hybrid-encoded indices into the chunk's dictionary
      dictionary page body = the dictionary entries, PLAIN
      a chunk = [dictionary page] data page*, its levels and values are the concatenation over the data pages;
      whether ColumnMetaData.dictionary_page_offset is set does not change what the chunk denotes.

    Values are raw byte strings (BOOLEAN: one byte 0/1), levels are numbers. *)
From Coq Require Import NArith ZArith List Bool Arith.
From Carquet Require Import Gen.Enums_gen Enc.DeltaBits Enc.RleSpec Enc.PlainSpec Comp.CompBase Comp.SnappySpec Comp.Lz4Spec.
Import ListNotations.
Local Open Scope N_scope.

(** bits needed for the values 0 .. m  (Encodings.md: "bit width = ceil(log2(max level + 1))") *)
Definition bit_width (m : N) : nat := N.to_nat (N.size m).

(** ** column context and page headers (the fields the format defines; integers as decoded from Thrift) *)
Record column : Type := mkcol {
  c_type : Z;          (* parquet Type *)
  c_tlen : nat;        (* SchemaElement.type_length (FIXED_LEN_BYTE_ARRAY) *)
  c_maxdef : N;        (* maximum definition level of the leaf *)
  c_maxrep : N;        (* maximum repetition level of the leaf *)
  c_codec : Z          (* ColumnMetaData.codec *)
}.

Record page_header : Type := mkhdr {
  h_type : Z;          (* PageHeader.type *)
  h_usize : Z;         (* uncompressed_page_size *)
  h_num_values : Z;    (* DataPageHeader.num_values / DictionaryPageHeader.num_values / DataPageHeaderV2.num_values *)
  h_encoding : Z;      (* DataPageHeader.encoding / DictionaryPageHeader.encoding / DataPageHeaderV2.encoding *)
  h_def_enc : Z;       (* DataPageHeader.definition_level_encoding *)
  h_rep_enc : Z        (* DataPageHeader.repetition_level_encoding *)
}.

(** ** PLAIN values of a physical type: [n] values at the front of [bytes] *)
Definition fixed_width (t : Z) (tlen : nat) : option nat :=
  if (t =? E_CARQUET_PHYSICAL_INT32)%Z then Some 4%nat
  else if (t =? E_CARQUET_PHYSICAL_FLOAT)%Z then Some 4%nat
  else if (t =? E_CARQUET_PHYSICAL_INT64)%Z then Some 8%nat
  else if (t =? E_CARQUET_PHYSICAL_DOUBLE)%Z then Some 8%nat
  else if (t =? E_CARQUET_PHYSICAL_INT96)%Z then Some 12%nat
  else if (t =? E_CARQUET_PHYSICAL_FIXED_LEN_BYTE_ARRAY)%Z then Some tlen
  else None.

Definition plain_values (t : Z) (tlen : nat) (n : nat) (bytes : list N) : option (list (list N)) :=
  if (t =? E_CARQUET_PHYSICAL_BOOLEAN)%Z then
    match spec_bool_dec n bytes with Some (bits, _) => Some (map (fun b => [b]) bits) | None => None end
  else if (t =? E_CARQUET_PHYSICAL_BYTE_ARRAY)%Z then
    match spec_ba_dec n bytes with Some (vs, _) => Some vs | None => None end
  else match fixed_width t tlen with
       | Some k => if Nat.eqb k 0 then None
                   else match spec_flba_dec k n bytes with Some (vs, _) => Some vs | None => None end
       | None => None
       end.

(** ** level block *)
Definition LevelBlock (maxlvl : N) (n : nat) (bytes : list N) (levels rest : list N) : Prop :=
  if maxlvl =? 0 then levels = repeat 0 n /\ rest = bytes
  else exists stream vals,
      bytes = le_bytes 4 (len stream) ++ stream ++ rest /\ len stream < 2 ^ 32 /\
      Denotes (bit_width maxlvl) stream vals /\ (n <= length vals)%nat /\ levels = firstn n vals.

Definition count_eq (m : N) (l : list N) : nat := length (filter (N.eqb m) l).

(** ** dictionary-encoded values *)
Definition DictValues (dict : list (list N)) (n : nat) (bytes : list N) (vals : list (list N)) : Prop :=
  exists w stream ivals,
    bytes = w :: stream /\ w <= 32 /\ Denotes (N.to_nat w) stream ivals /\ (n <= length ivals)%nat /\
    Forall2 (fun i v => nth_error dict (N.to_nat i) = Some v) (firstn n ivals) vals.

Definition is_dict_encoding (e : Z) : bool :=
  (e =? E_CARQUET_ENCODING_PLAIN_DICTIONARY)%Z || (e =? E_CARQUET_ENCODING_RLE_DICTIONARY)%Z.

(** ** one data page v1: [body] is the uncompressed page body *)
Definition PageDenotes (col : column) (dict : option (list (list N))) (hdr : page_header) (body : list N)
           (out : list N * list N * list (list N)) : Prop :=
  let '(reps, defs, vals) := out in
  h_type hdr = E_CARQUET_PAGE_DATA /\ (0 <= h_num_values hdr)%Z /\
  (c_maxrep col = 0 \/ h_rep_enc hdr = E_CARQUET_ENCODING_RLE) /\
  (c_maxdef col = 0 \/ h_def_enc hdr = E_CARQUET_ENCODING_RLE) /\
  let n := Z.to_nat (h_num_values hdr) in
  exists r1 r2,
    LevelBlock (c_maxrep col) n body reps r1 /\
    LevelBlock (c_maxdef col) n r1 defs r2 /\
    let nn := if c_maxdef col =? 0 then n else count_eq (c_maxdef col) defs in
    ((h_encoding hdr = E_CARQUET_ENCODING_PLAIN /\ plain_values (c_type col) (c_tlen col) nn r2 = Some vals) \/
     (is_dict_encoding (h_encoding hdr) = true /\ exists d, dict = Some d /\ DictValues d nn r2 vals)).

(** ** dictionary page: the entries, PLAIN *)
Definition DictPageDenotes (col : column) (hdr : page_header) (body : list N) (entries : list (list N)) : Prop :=
  h_type hdr = E_CARQUET_PAGE_DICTIONARY /\ (0 <= h_num_values hdr)%Z /\
  plain_values (c_type col) (c_tlen col) (Z.to_nat (h_num_values hdr)) body = Some entries.

(** ** stored (possibly compressed) page bytes.  GZIP and ZSTD are defined by RFC 1952 / RFC 8878, which are not
    transcribed here: their "denotes" relations are parameters of this section. *)
Section Stored.
  Variable GzipDenotes ZstdDenotes : list N -> list N -> Prop.

  Definition StoredDenotes (codec : Z) (stored body : list N) : Prop :=
    (codec = E_CARQUET_COMPRESSION_UNCOMPRESSED /\ stored = body) \/
    (codec = E_CARQUET_COMPRESSION_SNAPPY /\ DenotesSnappy stored body) \/
    (codec = E_CARQUET_COMPRESSION_LZ4_RAW /\ DenotesLz4 stored body) \/
    (codec = E_CARQUET_COMPRESSION_GZIP /\ GzipDenotes stored body) \/
    (codec = E_CARQUET_COMPRESSION_ZSTD /\ ZstdDenotes stored body).

  (** a page as stored in the file: header + stored bytes; the header announces the uncompressed size *)
  Definition stored_page : Type := (page_header * list N)%type.

  Definition StoredPage (col : column) (p : stored_page) (body : list N) : Prop :=
    StoredDenotes (c_codec col) (snd p) body /\ h_usize (fst p) = Z.of_nat (length body) /\
    bytes (snd p) /\ bytes body /\ len body < 2 ^ 60.     (* byte strings, of a size a process can hold *)

  (** data pages of a chunk, given its dictionary *)
  Inductive DataPagesDenote (col : column) (dict : option (list (list N))) :
      list stored_page -> list N * list N * list (list N) -> Prop :=
  | DP_nil : DataPagesDenote col dict [] ([], [], [])
  | DP_cons p ps body reps defs vals reps' defs' vals' :
      StoredPage col p body -> PageDenotes col dict (fst p) body (reps, defs, vals) ->
      DataPagesDenote col dict ps (reps', defs', vals') ->
      DataPagesDenote col dict (p :: ps) (reps ++ reps', defs ++ defs', vals ++ vals').

  (** a column chunk: an optional dictionary page first, then data pages *)
  Definition ChunkDenotes (col : column) (pages : list stored_page) (out : list N * list N * list (list N)) : Prop :=
    DataPagesDenote col None pages out \/
    exists dp rest dbody entries,
      pages = dp :: rest /\ StoredPage col dp dbody /\ DictPageDenotes col (fst dp) dbody entries /\
      DataPagesDenote col (Some entries) rest out.
End Stored.

(** ** what carquet claims to read (the first sentence of the property) ... *)
Definition supported_codec (c : Z) : Prop :=
  c = E_CARQUET_COMPRESSION_UNCOMPRESSED \/ c = E_CARQUET_COMPRESSION_SNAPPY \/ c = E_CARQUET_COMPRESSION_GZIP \/
  c = E_CARQUET_COMPRESSION_ZSTD \/ c = E_CARQUET_COMPRESSION_LZ4_RAW.

Definition supported_encoding (e : Z) : Prop :=
  e = E_CARQUET_ENCODING_PLAIN \/ e = E_CARQUET_ENCODING_PLAIN_DICTIONARY \/ e = E_CARQUET_ENCODING_RLE_DICTIONARY.

Definition supported_level_encodings (col : column) (h : page_header) : Prop :=
  (c_maxrep col = 0 \/ h_rep_enc h = E_CARQUET_ENCODING_RLE) /\ (c_maxdef col = 0 \/ h_def_enc h = E_CARQUET_ENCODING_RLE).

(** a data page carquet claims: type DATA_PAGE, a claimed value encoding, RLE levels where the column has levels *)
Definition supported_page (col : column) (h : page_header) : Prop :=
  h_type h = E_CARQUET_PAGE_DATA /\ supported_encoding (h_encoding h) /\ supported_level_encodings col h.

(** types for which carquet implements dictionary pages (all but BOOLEAN; no known writer dictionary-encodes BOOLEAN) *)
Definition dictionary_capable (t : Z) : Prop :=
  t = E_CARQUET_PHYSICAL_INT32 \/ t = E_CARQUET_PHYSICAL_INT64 \/ t = E_CARQUET_PHYSICAL_INT96 \/
  t = E_CARQUET_PHYSICAL_FLOAT \/ t = E_CARQUET_PHYSICAL_DOUBLE \/ t = E_CARQUET_PHYSICAL_BYTE_ARRAY \/
  t = E_CARQUET_PHYSICAL_FIXED_LEN_BYTE_ARRAY.

(** ... and the one deviation this development records: codec id 5 (LZ4, deprecated; the format defines it as the
    Hadoop-framed layout) is also accepted by carquet and read as a bare LZ4 block, like LZ4_RAW. *)
Definition accepted_codec (c : Z) : Prop := supported_codec c \/ c = E_CARQUET_COMPRESSION_LZ4.
