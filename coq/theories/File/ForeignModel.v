(** Model of the page decode path of src/reader/page_reader.c as the code is (after commits d3ede7d, f9ba0e6, b5e5dba,
    9daed3f), plus carquet_rle_decode_levels of src/encoding/rle.c:

      decompress_page                 codec dispatch           (table regenerated: Gen/Foreign_gen.v)
      bit_width_for_max               level bit width          (shape checked by the translator)
      decode_levels_rle               level block -> levels    (carquet_rle_decode_levels, modelled here)
      carquet_read_dictionary_page    dictionary page -> entries
      carquet_read_data_page_v1       level blocks, non-null count, encoding dispatch, PLAIN / dictionary values
      load_next_page_{mmap,fread}     page-type decisions, dictionary page announced by dictionary_page_offset or found
                                      at data_page_offset, decompression, one page after the other

    Imported, not duplicated: Enc/RleModel.v ([decode_all] = carquet_rle_decode_all), Enc/PlainModel.v (the eight PLAIN
    decoders), Enc/BitpackModel.v ([unpack8]), Comp/SnappyModel.v and Comp/Lz4Model.v (carquet's own decompressors).
    zlib and libzstd are external: [gz_d] / [zs_d] are Section variables.

    Values are raw byte strings, as the value buffer of carquet_column_read_batch holds them (BOOLEAN one byte each,
    BYTE_ARRAY the bytes the (pointer, length) pair designates).  What is NOT modelled: file offsets, fseek/fread/mmap,
    Thrift parsing of the page header (the model starts from the parsed header fields), CRC verification (C14), the
    zero-copy shortcut of the mmap path (it returns the PLAIN bytes of a page without levels unchanged: the same
    function as the PLAIN branch below; C03 is about that equivalence), buffer reuse, allocation failure (C19).
    No proofs in this file. *)
From Coq Require Import NArith ZArith List Bool Arith.
From Carquet Require Import Base.Res Gen.Enums_gen Gen.Foreign_gen Enc.DeltaBits Enc.BitpackModel Enc.RleModel Enc.PlainModel
     Comp.SnappyModel Comp.Lz4Model File.SpecPage.
Import ListNotations.
Local Open Scope N_scope.
Local Open Scope res_scope.

(** statuses the code uses on this path *)
Definition E_DECODE : Z := E_CARQUET_ERROR_DECODE.
Definition E_OOM : Z := E_CARQUET_ERROR_OUT_OF_MEMORY.
Definition E_INVALID_PAGE : Z := E_CARQUET_ERROR_INVALID_PAGE.
Definition E_DECOMPRESSION : Z := E_CARQUET_ERROR_DECOMPRESSION.
Definition E_DICT_NOT_FOUND : Z := E_CARQUET_ERROR_DICTIONARY_NOT_FOUND.

(** contents of heap memory the library allocated and never wrote (a level or value slot that a short stream leaves
    untouched).  The sanitizer build fills fresh allocations with 0xBE; the number stands for "unspecified". *)
Definition UNINIT16 : N := 0xBEBE.

(* ------------------------------------------------------------------ bit_width_for_max *)

(** while (max_val > 0) { width++; max_val >>= 1; } *)
Fixpoint bw_loop (fuel : nat) (m : N) (width : nat) : nat :=
  match fuel with
  | O => width
  | S f => if 0 <? m then bw_loop f (N.shiftr m 1) (S width) else width
  end.
(** max_val is an int holding an int16_t: 16 rounds suffice *)
Definition bit_width_for_max (m : N) : nat := if m =? 0 then O else bw_loop 32 m O.

(* ------------------------------------------------------------------ carquet_rle_decode_levels *)

(** the inline varint of the fast path: up to 5 bytes; a truncated header is used as far as it was read *)
Fixpoint varint_inline (fuel : nat) (shift acc : N) (bs : list N) : N * list N :=
  match fuel with
  | O => (acc, bs)
  | S f => match bs with
           | [] => (acc, bs)
           | b :: tl =>
             let acc' := N.lor acc (u32 (N.shiftl (N.land b 0x7F) shift)) in
             if N.land b 0x80 =? 0 then (acc', tl) else varint_inline f (shift + 7) acc' tl
           end
  end.

(** for (g = 0; g < num_groups && count < max_values; g++) { if (pos + w > size) break; unpack 8; store min(8, left) } *)
Fixpoint lv_groups (fuel : nat) (w : nat) (groups : N) (rest : list N) (want : nat) : list N * list N :=
  match fuel with
  | O => ([], rest)
  | S f =>
    if (groups =? 0) || Nat.eqb want 0 then ([], rest)
    else match unpack8 w rest with
         | Ok g =>
           let out := firstn (Nat.min 8 want) g in
           let '(o2, r2) := lv_groups f w (groups - 1) (skipn w rest) (want - length out) in
           (out ++ o2, r2)
         | _ => ([], rest)                      (* pos + bytes_per_group > input_size: break *)
         end
  end.

(** while (count < max_values && pos < input_size) *)
Fixpoint lv_loop (fuel : nat) (w : nat) (rest : list N) (want : nat) : list N :=
  match fuel with
  | O => []
  | S f =>
    if Nat.eqb want 0 then [] else
    match rest with
    | [] => []
    | _ =>
      let '(header, tl) := varint_inline 5 0 0 rest in
      if N.land header 1 =? 0 then
        let n := N.shiftr header 1 in
        if Nat.ltb (length tl) (vbytes w) then []                    (* break *)
        else
          let v := N.land (BitpackModel.le_val (firstn (vbytes w) tl)) (value_mask w) in
          let tl' := skipn (vbytes w) tl in
          if n =? 0 then lv_loop f w tl' want                         (* empty run: continue *)
          else let k := nmin want n in repeat v k ++ lv_loop f w tl' (want - k)
      else
        let groups := N.shiftr header 1 in
        if groups * 8 =? 0 then lv_loop f w tl want
        else let '(out, r2) := lv_groups (S (length tl)) w groups tl want in
             out ++ lv_loop f w r2 (want - length out)
    end
  end.

(** carquet_rle_decode_levels(input, size, w, output, max_values): the levels written (its return value is their
    number; it is never negative) *)
Definition rle_decode_levels (w : nat) (data : list N) (max_values : nat) : list N :=
  match data with
  | [] => []
  | _ => lv_loop (S (length data)) w data max_values
  end.

(** decode_levels_rle of page_reader.c: the [num_values] slots of the level buffer afterwards.  The caller only tests
    "decoded < 0", which never holds: slots a short stream does not reach keep their previous contents. *)
Definition decode_levels_rle (w : nat) (data : list N) (num_values : nat) : list N :=
  if Nat.eqb w 0 then repeat 0 num_values
  else let got := rle_decode_levels w data num_values in
       got ++ repeat UNINIT16 (num_values - length got).

(** one level block of carquet_read_data_page_v1: (levels, remaining page bytes) *)
Definition read_level_block (maxlvl : N) (enc : Z) (body : list N) (num_values : nat) : res (list N * list N) :=
  if maxlvl =? 0 then Ok (repeat 0 num_values, body)     (* memset 0 / "def_levels[i] = max_def_level" with max 0 *)
  else if negb (enc =? Foreign_level_encoding)%Z then Err Foreign_level_encoding_error
  else if Nat.ltb (length body) 4 then Err E_DECODE
  else
    let size := BitpackModel.le_val (firstn 4 body) in
    let rest := skipn 4 body in
    if len rest <? size then Err E_DECODE
    else Ok (decode_levels_rle (bit_width_for_max maxlvl) (firstn (N.to_nat size) rest) num_values,
             skipn (N.to_nat size) rest).

(* ------------------------------------------------------------------ carquet_decode_plain, values as bytes *)

Definition bytes_of_triple (v : N * N * N) : list N :=
  let '(a, b, c) := v in le_bytes_f 4 a ++ le_bytes_f 4 b ++ le_bytes_f 4 c.

Fixpoint chunks (k : nat) (n : nat) (bs : list N) : list (list N) :=
  match n with O => [] | S n' => firstn k bs :: chunks k n' (skipn k bs) end.

Definition strip {A B} (r : res (A * B)) : res A :=
  match r with Ok (a, _) => Ok a | Err c => Err c | Fault f => Fault f end.

(** carquet_decode_plain(ptr, remaining, type, type_length, values, count): Err = it returned -1 *)
Definition decode_plain (t : Z) (tlen : N) (input : list N) (count : N) : res (list (list N)) :=
  if (t =? E_CARQUET_PHYSICAL_BOOLEAN)%Z then rmap (map (fun b => [b])) (strip (plain_decode_boolean input count))
  else if (t =? E_CARQUET_PHYSICAL_INT32)%Z then rmap (map (le_bytes_f 4)) (strip (plain_decode_int32 input count))
  else if (t =? E_CARQUET_PHYSICAL_INT64)%Z then rmap (map (le_bytes_f 8)) (strip (plain_decode_int64 input count))
  else if (t =? E_CARQUET_PHYSICAL_INT96)%Z then rmap (map bytes_of_triple) (strip (plain_decode_int96 input count))
  else if (t =? E_CARQUET_PHYSICAL_FLOAT)%Z then rmap (map (le_bytes_f 4)) (strip (plain_decode_float input count))
  else if (t =? E_CARQUET_PHYSICAL_DOUBLE)%Z then rmap (map (le_bytes_f 8)) (strip (plain_decode_double input count))
  else if (t =? E_CARQUET_PHYSICAL_BYTE_ARRAY)%Z then strip (plain_decode_byte_array input count)
  else if (t =? E_CARQUET_PHYSICAL_FIXED_LEN_BYTE_ARRAY)%Z then
    rmap (fun raw => chunks (N.to_nat tlen) (N.to_nat count) raw) (strip (plain_decode_flba input count tlen))
  else Err (-1)%Z.

(* ------------------------------------------------------------------ carquet_read_dictionary_page *)

(** reader->dictionary_count and the entries (fixed width: dictionary_data cut into value_size pieces; BYTE_ARRAY:
    the strings the offset table designates) *)
Record dictionary : Type := mkdict { dict_count : N; dict_entries : list (list N) }.

(** the scan that builds the BYTE_ARRAY offset table *)
Fixpoint ba_entries (n : nat) (rest : list N) : res (list (list N)) :=
  match n with
  | O => Ok []
  | S n' =>
    if Nat.ltb (length rest) 4 then Err E_DECODE                       (* "Truncated dictionary" *)
    else let l := BitpackModel.le_val (firstn 4 rest) in
         if len rest <? 4 + l then Err E_DECODE                         (* "Invalid dictionary entry" *)
         else match ba_entries n' (skipn (4 + N.to_nat l) rest) with
              | Ok es => Ok (firstn (N.to_nat l) (skipn 4 rest) :: es)
              | Err c => Err c
              | Fault f => Fault f
              end
  end.

Definition read_dictionary_page (t : Z) (tlen : N) (body : list N) (num_values : Z) : res dictionary :=
  let page_size := len body in
  if (num_values <? 0)%Z then Err E_DECODE else
  let nv := Z.to_N num_values in
  if (t =? E_CARQUET_PHYSICAL_BYTE_ARRAY)%Z then
    if page_size / 4 <? nv then Err E_DECODE
    else match ba_entries (N.to_nat nv) body with
         | Ok es => Ok (mkdict nv es)
         | Err c => Err c
         | Fault f => Fault f
         end
  else
    let vs := match Foreign_dict_entry_size t tlen with Some k => k | None => 0 end in
    if negb (vs =? 0) && (page_size / vs <? nv) then Err E_DECODE
    else Ok (mkdict nv (chunks (N.to_nat vs) (N.to_nat nv) (firstn (N.to_nat (vs * nv)) body))).

(* ------------------------------------------------------------------ carquet_read_data_page_v1 *)

(** look-up of the decoded indices (both the BYTE_ARRAY loop and the "validate, then gather" path refuse an index
    >= dictionary_count with DECODE; the entry list has dictionary_count elements by construction) *)
Fixpoint gather (d : dictionary) (ix : list N) : res (list (list N)) :=
  match ix with
  | [] => Ok []
  | i :: tl =>
    if dict_count d <=? i then Err E_DECODE
    else match nth_error (dict_entries d) (N.to_nat i) with
         | None => Fault OobRead
         | Some v => match gather d tl with
                     | Ok vs => Ok (v :: vs)
                     | Err c => Err c
                     | Fault f => Fault f
                     end
         end
  end.

Definition count_non_null (maxdef : N) (defs : list N) (num_values : nat) : nat :=
  if maxdef =? 0 then num_values else length (filter (N.eqb maxdef) defs).

Definition in_list (x : Z) (l : list Z) : bool := existsb (Z.eqb x) l.

Definition read_data_page_v1 (col : column) (dict : option dictionary) (hdr : page_header) (body : list N)
  : res (list N * list N * list (list N)) :=
  let n := Z.to_nat (h_num_values hdr) in
  let* rb := read_level_block (c_maxrep col) (h_rep_enc hdr) body n in
  let* db := read_level_block (c_maxdef col) (h_def_enc hdr) (snd rb) n in
  let reps := fst rb in
  let defs := fst db in
  let rest := snd db in
  let nn := count_non_null (c_maxdef col) defs n in
  match Foreign_value_encoding (h_encoding hdr) with
  | Some O =>
    match decode_plain (c_type col) (N.of_nat (c_tlen col)) rest (N.of_nat nn) with
    | Ok vs => Ok (reps, defs, vs)
    | Err _ => Err E_DECODE
    | Fault f => Fault f
    end
  | Some _ =>
    match dict with
    | None => Err E_DICT_NOT_FOUND
    | Some d =>
      match rest with
      | [] => Err E_DECODE                                                (* "Missing bit width" *)
      | w :: stream =>
        let ix := decode_all (N.to_nat w) stream nn in
        (* "decoded < 0" never holds; index slots a short stream does not reach keep their previous contents *)
        let ix := ix ++ repeat (UNINIT16 * 65536 + UNINIT16) (nn - length ix) in
        if (c_type col =? E_CARQUET_PHYSICAL_BYTE_ARRAY)%Z then
          match gather d ix with Ok vs => Ok (reps, defs, vs) | Err c => Err c | Fault f => Fault f end
        else
          match gather d ix with
          | Ok vs => if in_list (c_type col) Foreign_dict_types then Ok (reps, defs, vs) else Err Foreign_dict_type_error
          | Err c => Err c
          | Fault f => Fault f
          end
      end
    end
  | None => Err Foreign_encoding_default_error
  end.

(* ------------------------------------------------------------------ decompress_page and the page loop *)

Section Chunk.
  (** carquet_gzip_decompress / carquet_zstd_decompress (zlib, libzstd): stored bytes, capacity -> result *)
  Variable gz_d zs_d : list N -> N -> res (list N).

  Definition decompress_page (codec : Z) (stored : list N) (cap : N) : res (list N) :=
    match Foreign_codec_dispatch codec with
    | Some 0%nat => if cap <? len stored then Err E_DECOMPRESSION else Ok stored
    | Some 1%nat => SnappyModel.decompress stored cap
    | Some 2%nat => Lz4Model.decompress stored cap
    | Some 3%nat => gz_d stored cap
    | Some 4%nat => zs_d stored cap
    | _ => Err Foreign_codec_default_error
    end.

  (** the "must decompress" step of the loaders: an uncompressed chunk uses the stored bytes as they are *)
  Definition page_body (col : column) (p : stored_page) : res (list N) :=
    if (c_codec col =? E_CARQUET_COMPRESSION_UNCOMPRESSED)%Z then Ok (snd p)
    else if (h_usize (fst p) <? 0)%Z then Err E_OOM                       (* malloc((size_t)negative) *)
    else decompress_page (c_codec col) (snd p) (Z.to_N (h_usize (fst p))).

  (** load_dictionary_page_*: the page at the offset must be a dictionary page *)
  Definition load_dictionary (col : column) (p : stored_page) : res dictionary :=
    if negb (h_type (fst p) =? E_CARQUET_PAGE_DICTIONARY)%Z then Err E_INVALID_PAGE
    else let* body := page_body col p in
         read_dictionary_page (c_type col) (N.of_nat (c_tlen col)) body (h_num_values (fst p)).

  (** the type decisions of load_next_page_* on a page met where a data page is expected *)
  Definition load_data_page (col : column) (dict : option dictionary) (p : stored_page)
    : res (list N * list N * list (list N)) :=
    if (h_type (fst p) =? Foreign_page_rejected)%Z then Err Foreign_page_rejected_error
    else if negb (h_type (fst p) =? Foreign_page_data)%Z then Err Foreign_page_other_error
    else if (h_num_values (fst p) <? 0)%Z then Err E_INVALID_PAGE
    else let* body := page_body col p in
         read_data_page_v1 col dict (fst p) body.

  (** carquet_column_read_batch to the end of the chunk: pages are loaded while values_remaining (initially
      ColumnMetaData.num_values) is positive; each page takes its num_values off.  When the pages of the chunk are
      used up with values still remaining, the reader goes on at whatever follows the chunk in the file: that is not
      part of this model's input and is reported as INVALID_PAGE. *)
  Fixpoint decode_data_pages (col : column) (dict : option dictionary) (remaining : Z) (ps : list stored_page)
    : res (list N * list N * list (list N)) :=
    if (remaining <=? 0)%Z then Ok ([], [], []) else
    match ps with
    | [] => Err E_INVALID_PAGE
    | p :: tl =>
      let* a := load_data_page col dict p in
      let* b := decode_data_pages col dict (remaining - Z.of_nat (length (snd (fst a)))) tl in
      Ok (fst (fst a) ++ fst (fst b), snd (fst a) ++ snd (fst b), snd a ++ snd b)
    end.

  (** A column chunk read to its end: [pages] are the pages stored from the chunk's first page on, [num_values] is
      ColumnMetaData.num_values.
      [has_dict_offset]: ColumnMetaData.dictionary_page_offset is set (then the first stored page is loaded as the
      dictionary before anything else); otherwise the first page is loaded as the dictionary when its header says
      DICTIONARY_PAGE. *)
  Definition decode_chunk (col : column) (has_dict_offset : bool) (num_values : Z) (pages : list stored_page)
    : res (list N * list N * list (list N)) :=
    if (num_values <=? 0)%Z then Ok ([], [], []) else
    match pages with
    | [] => Err E_INVALID_PAGE
    | p :: tl =>
      if has_dict_offset then
        let* d := load_dictionary col p in decode_data_pages col (Some d) num_values tl
      else if (h_type (fst p) =? Foreign_page_dictionary)%Z then
        let* d := load_dictionary col p in decode_data_pages col (Some d) num_values tl
      else decode_data_pages col None num_values pages
    end.
End Chunk.

(** one data page whose uncompressed body is at hand (what the theorems about a single page speak of) *)
Definition decode_page (col : column) (dict : option dictionary) (hdr : page_header) (body : list N)
  : res (list N * list N * list (list N)) :=
  if (h_type hdr =? Foreign_page_rejected)%Z then Err Foreign_page_rejected_error
  else if negb (h_type hdr =? Foreign_page_data)%Z then Err Foreign_page_other_error
  else if (h_num_values hdr <? 0)%Z then Err E_INVALID_PAGE
  else read_data_page_v1 col dict hdr body.
