(** Theorems about File/ForeignModel.v (the page decode path of src/reader/page_reader.c) against File/SpecPage.v. *)
From Coq Require Import NArith ZArith List Bool Arith Lia.
From Carquet Require Import Base.Res Base.Bits Gen.Enums_gen Gen.Foreign_gen Enc.DeltaBits Enc.BitpackSpec Enc.BitpackModel
     Enc.BitpackProofs Enc.RleSpec Enc.RleModel Enc.RleVarint Enc.RleDecProofs Enc.PlainSpec Enc.PlainModel Enc.PlainProofs
     Comp.CompBase Comp.SnappySpec Comp.SnappyModel Comp.SnappyProofs Comp.Lz4Spec Comp.Lz4Model Comp.Lz4Proofs
     File.SpecPage File.ForeignModel.
Import ListNotations.
Local Open Scope N_scope.

(* ================================================================== rejection of what is not claimed *)

Ltac ee := (eexists; reflexivity).

Lemma bind_err {A B} (c : Z) (k : A -> res B) : bind (Err c) k = Err c.
Proof. reflexivity. Qed.

(** a level block never faults, and refuses every level encoding but RLE when the column has levels *)
Lemma read_level_block_cases maxlvl enc body n :
  (exists r, read_level_block maxlvl enc body n = Ok r) \/ (exists e, read_level_block maxlvl enc body n = Err e).
Proof.
  unfold read_level_block. destruct (maxlvl =? 0); [left; eexists; reflexivity|].
  destruct (enc =? Foreign_level_encoding)%Z; cbn [negb]; [|right; eexists; reflexivity].
  destruct (Nat.ltb (length body) 4); [right; eexists; reflexivity|].
  destruct (len (skipn 4 body) <? BitpackModel.le_val (firstn 4 body)); [right|left]; eexists; reflexivity.
Qed.

Lemma read_level_block_bad_encoding maxlvl enc body n :
  maxlvl <> 0 -> enc <> E_CARQUET_ENCODING_RLE -> exists e, read_level_block maxlvl enc body n = Err e.
Proof.
  intros Hm He. unfold read_level_block. destruct (N.eqb_spec maxlvl 0) as [E|_]; [contradiction|].
  unfold Foreign_level_encoding. destruct (Z.eqb_spec enc E_CARQUET_ENCODING_RLE) as [E|_]; [contradiction|].
  cbn [negb]. ee.
Qed.

Lemma value_encoding_unsupported e : ~ supported_encoding e -> Foreign_value_encoding e = None.
Proof.
  intros H. unfold Foreign_value_encoding, supported_encoding in *.
  destruct (Z.eqb_spec e E_CARQUET_ENCODING_PLAIN) as [E|_]; [tauto|].
  destruct (Z.eqb_spec e E_CARQUET_ENCODING_RLE_DICTIONARY) as [E|_]; [tauto|].
  destruct (Z.eqb_spec e E_CARQUET_ENCODING_PLAIN_DICTIONARY) as [E|_]; [tauto|]. reflexivity.
Qed.

Lemma supported_page_dec col h : supported_page col h \/ ~ supported_page col h.
Proof.
  unfold supported_page, supported_encoding, supported_level_encodings.
  destruct (Z.eq_dec (h_type h) E_CARQUET_PAGE_DATA); [|right; tauto].
  destruct (Z.eq_dec (h_encoding h) E_CARQUET_ENCODING_PLAIN);
  destruct (Z.eq_dec (h_encoding h) E_CARQUET_ENCODING_PLAIN_DICTIONARY);
  destruct (Z.eq_dec (h_encoding h) E_CARQUET_ENCODING_RLE_DICTIONARY);
  destruct (N.eq_dec (c_maxrep col) 0); destruct (N.eq_dec (c_maxdef col) 0);
  destruct (Z.eq_dec (h_rep_enc h) E_CARQUET_ENCODING_RLE); destruct (Z.eq_dec (h_def_enc h) E_CARQUET_ENCODING_RLE);
  tauto.
Qed.

(** Every page carquet does not claim - any other page type (DATA_PAGE_V2, INDEX_PAGE, every other integer), any other
    value encoding (every integer but PLAIN / PLAIN_DICTIONARY / RLE_DICTIONARY), a level encoding other than RLE on a
    column that has levels - is answered with an error status, whatever the page body holds. *)
Lemma read_level_block_ok_enc maxlvl enc body n r :
  read_level_block maxlvl enc body n = Ok r -> maxlvl = 0 \/ enc = E_CARQUET_ENCODING_RLE.
Proof.
  intros H. destruct (N.eq_dec maxlvl 0) as [E|E]; [left; exact E|right].
  destruct (Z.eq_dec enc E_CARQUET_ENCODING_RLE) as [E'|E']; [exact E'|].
  destruct (read_level_block_bad_encoding maxlvl enc body n E E') as (e & He). rewrite He in H. discriminate.
Qed.

Lemma read_level_block_no_fault maxlvl enc body n f : read_level_block maxlvl enc body n <> Fault f.
Proof. destruct (read_level_block_cases maxlvl enc body n) as [(r & ->)|(e & ->)]; discriminate. Qed.

Lemma read_data_page_v1_unsupported col dict hdr body :
  ~ (supported_encoding (h_encoding hdr) /\ supported_level_encodings col hdr) ->
  exists e, read_data_page_v1 col dict hdr body = Err e.
Proof.
  intros H. unfold read_data_page_v1.
  destruct (read_level_block (c_maxrep col) (h_rep_enc hdr) body (Z.to_nat (h_num_values hdr))) as [rb|e|f] eqn:R;
    [cbn [bind]|eexists; reflexivity|exfalso; exact (read_level_block_no_fault _ _ _ _ _ R)].
  destruct (read_level_block (c_maxdef col) (h_def_enc hdr) (snd rb) (Z.to_nat (h_num_values hdr))) as [db|e|f] eqn:D;
    [cbn [bind]|eexists; reflexivity|exfalso; exact (read_level_block_no_fault _ _ _ _ _ D)].
  rewrite value_encoding_unsupported; [eexists; reflexivity|].
  intro Hs. apply H. split; [exact Hs|]. split.
  - exact (read_level_block_ok_enc _ _ _ _ _ R).
  - exact (read_level_block_ok_enc _ _ _ _ _ D).
Qed.

(** Every page carquet does not claim - any other page type (DATA_PAGE_V2, INDEX_PAGE, every other integer), any other
    value encoding (every integer but PLAIN / PLAIN_DICTIONARY / RLE_DICTIONARY), a level encoding other than RLE on a
    column that has levels - is answered with an error status, whatever the page body holds. *)
Theorem unsupported_page_rejected_thm : forall col dict hdr body,
  ~ supported_page col hdr -> exists e, decode_page col dict hdr body = Err e.
Proof.
  intros col dict hdr body H. unfold decode_page.
  destruct (h_type hdr =? Foreign_page_rejected)%Z; [eexists; reflexivity|].
  unfold Foreign_page_data. destruct (Z.eqb_spec (h_type hdr) E_CARQUET_PAGE_DATA) as [Et|Et]; cbn [negb];
    [|eexists; reflexivity].
  destruct (h_num_values hdr <? 0)%Z; [eexists; reflexivity|].
  apply read_data_page_v1_unsupported. intros [H1 H2]. apply H. unfold supported_page. tauto.
Qed.

Lemma codec_dispatch_unknown c : ~ accepted_codec c -> Foreign_codec_dispatch c = None.
Proof.
  intros H. unfold Foreign_codec_dispatch, accepted_codec, supported_codec in *.
  destruct (Z.eqb_spec c E_CARQUET_COMPRESSION_UNCOMPRESSED); [tauto|].
  destruct (Z.eqb_spec c E_CARQUET_COMPRESSION_SNAPPY); [tauto|].
  destruct (Z.eqb_spec c E_CARQUET_COMPRESSION_LZ4); [tauto|].
  destruct (Z.eqb_spec c E_CARQUET_COMPRESSION_LZ4_RAW); [tauto|].
  destruct (Z.eqb_spec c E_CARQUET_COMPRESSION_GZIP); [tauto|].
  destruct (Z.eqb_spec c E_CARQUET_COMPRESSION_ZSTD); [tauto|]. reflexivity.
Qed.

Section Codecs.
  Variable gz_d zs_d : list N -> N -> res (list N).

  Lemma page_body_unknown_codec col p : ~ accepted_codec (c_codec col) -> exists e, page_body gz_d zs_d col p = Err e.
  Proof.
    intros H. unfold page_body.
    destruct (Z.eqb_spec (c_codec col) E_CARQUET_COMPRESSION_UNCOMPRESSED) as [E|_].
    { exfalso. apply H. left. left. exact E. }
    destruct (h_usize (fst p) <? 0)%Z; [ee|].
    unfold decompress_page. rewrite (codec_dispatch_unknown _ H). ee.
  Qed.

  Lemma load_data_page_unknown_codec col dict p :
    ~ accepted_codec (c_codec col) -> exists e, load_data_page gz_d zs_d col dict p = Err e.
  Proof.
    intros H. unfold load_data_page.
    destruct (h_type (fst p) =? Foreign_page_rejected)%Z; [ee|].
    destruct (negb (h_type (fst p) =? Foreign_page_data)%Z); [ee|].
    destruct (h_num_values (fst p) <? 0)%Z; [ee|].
    destruct (page_body_unknown_codec col p H) as (e & ->). ee.
  Qed.

  Lemma decode_data_pages_unknown_codec col dict nv ps :
    ~ accepted_codec (c_codec col) -> (0 < nv)%Z -> exists e, decode_data_pages gz_d zs_d col dict nv ps = Err e.
  Proof.
    intros H Hn. destruct ps as [|p tl]; cbn [decode_data_pages];
      destruct (Z.leb_spec nv 0) as [L|_]; try lia; [ee|].
    destruct (load_data_page_unknown_codec col dict p H) as (e & ->). ee.
  Qed.

  (** A chunk whose codec id is not one of those carquet accepts - LZO, BROTLI, every other integer - cannot be read:
      the first page load ends in an error status (the decompressors are not even called). *)
  Theorem unknown_codec_rejected_thm : forall col has_off nv pages,
    ~ accepted_codec (c_codec col) -> (0 < nv)%Z -> exists e, decode_chunk gz_d zs_d col has_off nv pages = Err e.
  Proof.
    intros col has_off nv pages H Hn. unfold decode_chunk.
    destruct (Z.leb_spec nv 0) as [L|_]; [lia|]. destruct pages as [|p tl]; [ee|].
    assert (HD : exists e, load_dictionary gz_d zs_d col p = Err e).
    { unfold load_dictionary. destruct (negb (h_type (fst p) =? E_CARQUET_PAGE_DICTIONARY)%Z); [ee|].
      destruct (page_body_unknown_codec col p H) as (e & ->). ee. }
    destruct has_off.
    - destruct HD as (e & ->). ee.
    - destruct (h_type (fst p) =? Foreign_page_dictionary)%Z.
      + destruct HD as (e & ->). ee.
      + apply decode_data_pages_unknown_codec; assumption.
  Qed.

  (** a page carquet does not claim, met where a data page is expected, ends the read with an error status *)
  Theorem unsupported_data_page_rejected_thm : forall col dict p,
    ~ supported_page col (fst p) -> (forall f, page_body gz_d zs_d col p <> Fault f) ->
    exists e, load_data_page gz_d zs_d col dict p = Err e.
  Proof.
    intros col dict p H NF. unfold load_data_page.
    destruct (h_type (fst p) =? Foreign_page_rejected)%Z eqn:E1; [ee|].
    destruct (negb (h_type (fst p) =? Foreign_page_data)%Z) eqn:E2; [ee|].
    destruct (h_num_values (fst p) <? 0)%Z eqn:E3; [ee|].
    destruct (page_body gz_d zs_d col p) as [body|e|f] eqn:EB; [|ee|exfalso; exact (NF f eq_refl)].
    cbn [bind]. destruct (unsupported_page_rejected_thm col dict (fst p) body H) as (e & He).
    unfold decode_page in He. rewrite E1, E2, E3 in He. exists e. exact He.
  Qed.

  (** the recorded deviation: codec id 5 (LZ4) goes to the same bare-block decoder as LZ4_RAW *)
  Theorem lz4_id5_read_as_bare_block_thm : forall stored cap,
    decompress_page gz_d zs_d E_CARQUET_COMPRESSION_LZ4 stored cap = Lz4Model.decompress stored cap /\
    decompress_page gz_d zs_d E_CARQUET_COMPRESSION_LZ4_RAW stored cap = Lz4Model.decompress stored cap.
  Proof. intros. split; reflexivity. Qed.
End Codecs.

(** the statement has content: DATA_PAGE_V2, INDEX_PAGE, type 77; DELTA_BINARY_PACKED, id 1, id -5; BIT_PACKED levels *)
Example unsupported_examples :
  let col := mkcol E_CARQUET_PHYSICAL_INT32 0 1 0 0%Z in
  ~ supported_page col (mkhdr E_CARQUET_PAGE_DATA_V2 8 2 0 3 3) /\
  ~ supported_page col (mkhdr E_CARQUET_PAGE_INDEX 8 2 0 3 3) /\
  ~ supported_page col (mkhdr 77 8 2 0 3 3) /\
  ~ supported_page col (mkhdr E_CARQUET_PAGE_DATA 8 2 E_CARQUET_ENCODING_DELTA_BINARY_PACKED 3 3) /\
  ~ supported_page col (mkhdr E_CARQUET_PAGE_DATA 8 2 1 3 3) /\
  ~ supported_page col (mkhdr E_CARQUET_PAGE_DATA 8 2 (-5) 3 3) /\
  ~ supported_page col (mkhdr E_CARQUET_PAGE_DATA 8 2 0 E_CARQUET_ENCODING_BIT_PACKED 3) /\
  supported_page col (mkhdr E_CARQUET_PAGE_DATA 8 2 0 E_CARQUET_ENCODING_RLE E_CARQUET_ENCODING_BIT_PACKED) /\
  ~ accepted_codec E_CARQUET_COMPRESSION_LZO /\ ~ accepted_codec E_CARQUET_COMPRESSION_BROTLI /\ ~ accepted_codec 8%Z /\
  ~ accepted_codec (-1)%Z.
Proof.
  cbv [supported_page supported_encoding supported_level_encodings accepted_codec supported_codec
       h_type h_encoding h_def_enc h_rep_enc c_maxdef c_maxrep].
  repeat split; try (intro H; decompose [and or] H; discriminate); auto.
Qed.
