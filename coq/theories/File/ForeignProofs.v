(** Theorems about File/ForeignModel.v (the page decode path of src/reader/page_reader.c) against File/SpecPage.v. *)
From Coq Require Import NArith ZArith List Bool Arith Lia.
From Carquet Require Import Base.Res Base.Bits Gen.Enums_gen Gen.Foreign_gen Enc.DeltaBits Enc.BitpackSpec Enc.BitpackModel
     Enc.BitpackProofs Enc.RleSpec Enc.RleModel Enc.RleVarint Enc.RleDecProofs Enc.PlainSpec Enc.PlainModel Enc.PlainProofs
     Comp.CompBase Comp.CompMem Comp.SnappySpec Comp.SnappyModel Comp.SnappyProofs Comp.Lz4Spec Comp.Lz4Model Comp.Lz4Proofs
     File.SpecPage File.ForeignModel.
Import ListNotations.
Local Open Scope N_scope.

(* ================================================================== rejection of what is not claimed *)

Ltac ee := (eexists; reflexivity).

Lemma bind_err {A B} (c : Z) (k : A -> res B) : bind (Err c) k = Err c.
Proof. reflexivity. Qed.

(** a level block never faults, and refuses every level encoding but RLE when the column has levels *)
Lemma read_level_block_cases maxlvl enc body n :
  (exists r, read_level_block maxlvl enc body n = Ok r) \/ (exists e, read_level_block maxlvl enc body n = Err e).
Proof.
  unfold read_level_block. destruct (maxlvl =? 0); [left; eexists; reflexivity|].
  destruct (enc =? Foreign_level_encoding)%Z; cbn [negb]; [|right; eexists; reflexivity].
  destruct (Nat.ltb (length body) 4); [right; eexists; reflexivity|].
  destruct (len (skipn 4 body) <? BitpackModel.le_val (firstn 4 body)); [right|left]; eexists; reflexivity.
Qed.

Lemma read_level_block_bad_encoding maxlvl enc body n :
  maxlvl <> 0 -> enc <> E_CARQUET_ENCODING_RLE -> exists e, read_level_block maxlvl enc body n = Err e.
Proof.
  intros Hm He. unfold read_level_block. destruct (N.eqb_spec maxlvl 0) as [E|_]; [contradiction|].
  unfold Foreign_level_encoding. destruct (Z.eqb_spec enc E_CARQUET_ENCODING_RLE) as [E|_]; [contradiction|].
  cbn [negb]. ee.
Qed.

Lemma value_encoding_unsupported e : ~ supported_encoding e -> Foreign_value_encoding e = None.
Proof.
  intros H. unfold Foreign_value_encoding, supported_encoding in *.
  destruct (Z.eqb_spec e E_CARQUET_ENCODING_PLAIN) as [E|_]; [tauto|].
  destruct (Z.eqb_spec e E_CARQUET_ENCODING_RLE_DICTIONARY) as [E|_]; [tauto|].
  destruct (Z.eqb_spec e E_CARQUET_ENCODING_PLAIN_DICTIONARY) as [E|_]; [tauto|]. reflexivity.
Qed.

Lemma supported_page_dec col h : supported_page col h \/ ~ supported_page col h.
Proof.
  unfold supported_page, supported_encoding, supported_level_encodings.
  destruct (Z.eq_dec (h_type h) E_CARQUET_PAGE_DATA); [|right; tauto].
  destruct (Z.eq_dec (h_encoding h) E_CARQUET_ENCODING_PLAIN);
  destruct (Z.eq_dec (h_encoding h) E_CARQUET_ENCODING_PLAIN_DICTIONARY);
  destruct (Z.eq_dec (h_encoding h) E_CARQUET_ENCODING_RLE_DICTIONARY);
  destruct (N.eq_dec (c_maxrep col) 0); destruct (N.eq_dec (c_maxdef col) 0);
  destruct (Z.eq_dec (h_rep_enc h) E_CARQUET_ENCODING_RLE); destruct (Z.eq_dec (h_def_enc h) E_CARQUET_ENCODING_RLE);
  tauto.
Qed.

(** Every page carquet does not claim - any other page type (DATA_PAGE_V2, INDEX_PAGE, every other integer), any other
    value encoding (every integer but PLAIN / PLAIN_DICTIONARY / RLE_DICTIONARY), a level encoding other than RLE on a
    column that has levels - is answered with an error status, whatever the page body holds. *)
Lemma read_level_block_ok_enc maxlvl enc body n r :
  read_level_block maxlvl enc body n = Ok r -> maxlvl = 0 \/ enc = E_CARQUET_ENCODING_RLE.
Proof.
  intros H. destruct (N.eq_dec maxlvl 0) as [E|E]; [left; exact E|right].
  destruct (Z.eq_dec enc E_CARQUET_ENCODING_RLE) as [E'|E']; [exact E'|].
  destruct (read_level_block_bad_encoding maxlvl enc body n E E') as (e & He). rewrite He in H. discriminate.
Qed.

Lemma read_level_block_no_fault maxlvl enc body n f : read_level_block maxlvl enc body n <> Fault f.
Proof. destruct (read_level_block_cases maxlvl enc body n) as [(r & ->)|(e & ->)]; discriminate. Qed.

Lemma read_data_page_v1_unsupported col dict hdr body :
  ~ (supported_encoding (h_encoding hdr) /\ supported_level_encodings col hdr) ->
  exists e, read_data_page_v1 col dict hdr body = Err e.
Proof.
  intros H. unfold read_data_page_v1.
  destruct (read_level_block (c_maxrep col) (h_rep_enc hdr) body (Z.to_nat (h_num_values hdr))) as [rb|e|f] eqn:R;
    [cbn [bind]|eexists; reflexivity|exfalso; exact (read_level_block_no_fault _ _ _ _ _ R)].
  destruct (read_level_block (c_maxdef col) (h_def_enc hdr) (snd rb) (Z.to_nat (h_num_values hdr))) as [db|e|f] eqn:D;
    [cbn [bind]|eexists; reflexivity|exfalso; exact (read_level_block_no_fault _ _ _ _ _ D)].
  rewrite value_encoding_unsupported; [eexists; reflexivity|].
  intro Hs. apply H. split; [exact Hs|]. split.
  - exact (read_level_block_ok_enc _ _ _ _ _ R).
  - exact (read_level_block_ok_enc _ _ _ _ _ D).
Qed.

(** Every page carquet does not claim - any other page type (DATA_PAGE_V2, INDEX_PAGE, every other integer), any other
    value encoding (every integer but PLAIN / PLAIN_DICTIONARY / RLE_DICTIONARY), a level encoding other than RLE on a
    column that has levels - is answered with an error status, whatever the page body holds. *)
Theorem unsupported_page_rejected_thm : forall col dict hdr body,
  ~ supported_page col hdr -> exists e, decode_page col dict hdr body = Err e.
Proof.
  intros col dict hdr body H. unfold decode_page.
  destruct (h_type hdr =? Foreign_page_rejected)%Z; [eexists; reflexivity|].
  unfold Foreign_page_data. destruct (Z.eqb_spec (h_type hdr) E_CARQUET_PAGE_DATA) as [Et|Et]; cbn [negb];
    [|eexists; reflexivity].
  destruct (h_num_values hdr <? 0)%Z; [eexists; reflexivity|].
  apply read_data_page_v1_unsupported. intros [H1 H2]. apply H. unfold supported_page. tauto.
Qed.

Lemma codec_dispatch_unknown c : ~ accepted_codec c -> Foreign_codec_dispatch c = None.
Proof.
  intros H. unfold Foreign_codec_dispatch, accepted_codec, supported_codec in *.
  destruct (Z.eqb_spec c E_CARQUET_COMPRESSION_UNCOMPRESSED); [tauto|].
  destruct (Z.eqb_spec c E_CARQUET_COMPRESSION_SNAPPY); [tauto|].
  destruct (Z.eqb_spec c E_CARQUET_COMPRESSION_LZ4); [tauto|].
  destruct (Z.eqb_spec c E_CARQUET_COMPRESSION_LZ4_RAW); [tauto|].
  destruct (Z.eqb_spec c E_CARQUET_COMPRESSION_GZIP); [tauto|].
  destruct (Z.eqb_spec c E_CARQUET_COMPRESSION_ZSTD); [tauto|]. reflexivity.
Qed.

Section Codecs.
  Variable gz_d zs_d : list N -> N -> res (list N).

  Lemma page_body_unknown_codec col p : ~ accepted_codec (c_codec col) -> exists e, page_body gz_d zs_d col p = Err e.
  Proof.
    intros H. unfold page_body.
    destruct (Z.eqb_spec (c_codec col) E_CARQUET_COMPRESSION_UNCOMPRESSED) as [E|_].
    { exfalso. apply H. left. left. exact E. }
    destruct (h_usize (fst p) <? 0)%Z; [ee|].
    unfold decompress_page. rewrite (codec_dispatch_unknown _ H). ee.
  Qed.

  Lemma load_data_page_unknown_codec col dict p :
    ~ accepted_codec (c_codec col) -> exists e, load_data_page gz_d zs_d col dict p = Err e.
  Proof.
    intros H. unfold load_data_page.
    destruct (h_type (fst p) =? Foreign_page_rejected)%Z; [ee|].
    destruct (negb (h_type (fst p) =? Foreign_page_data)%Z); [ee|].
    destruct (h_num_values (fst p) <? 0)%Z; [ee|].
    destruct (page_body_unknown_codec col p H) as (e & ->). ee.
  Qed.

  Lemma decode_data_pages_unknown_codec col dict nv ps :
    ~ accepted_codec (c_codec col) -> (0 < nv)%Z -> exists e, decode_data_pages gz_d zs_d col dict nv ps = Err e.
  Proof.
    intros H Hn. destruct ps as [|p tl]; cbn [decode_data_pages];
      destruct (Z.leb_spec nv 0) as [L|_]; try lia; [ee|].
    destruct (load_data_page_unknown_codec col dict p H) as (e & ->). ee.
  Qed.

  (** A chunk whose codec id is not one of those carquet accepts - LZO, BROTLI, every other integer - cannot be read:
      the first page load ends in an error status (the decompressors are not even called). *)
  Theorem unknown_codec_rejected_thm : forall col has_off nv pages,
    ~ accepted_codec (c_codec col) -> (0 < nv)%Z -> exists e, decode_chunk gz_d zs_d col has_off nv pages = Err e.
  Proof.
    intros col has_off nv pages H Hn. unfold decode_chunk.
    destruct (Z.leb_spec nv 0) as [L|_]; [lia|]. destruct pages as [|p tl]; [ee|].
    assert (HD : exists e, load_dictionary gz_d zs_d col p = Err e).
    { unfold load_dictionary. destruct (negb (h_type (fst p) =? E_CARQUET_PAGE_DICTIONARY)%Z); [ee|].
      destruct (page_body_unknown_codec col p H) as (e & ->). ee. }
    destruct has_off.
    - destruct HD as (e & ->). ee.
    - destruct (h_type (fst p) =? Foreign_page_dictionary)%Z.
      + destruct HD as (e & ->). ee.
      + apply decode_data_pages_unknown_codec; assumption.
  Qed.

  (** a page carquet does not claim, met where a data page is expected, ends the read with an error status *)
  Theorem unsupported_data_page_rejected_thm : forall col dict p,
    ~ supported_page col (fst p) -> (forall f, page_body gz_d zs_d col p <> Fault f) ->
    exists e, load_data_page gz_d zs_d col dict p = Err e.
  Proof.
    intros col dict p H NF. unfold load_data_page.
    destruct (h_type (fst p) =? Foreign_page_rejected)%Z eqn:E1; [ee|].
    destruct (negb (h_type (fst p) =? Foreign_page_data)%Z) eqn:E2; [ee|].
    destruct (h_num_values (fst p) <? 0)%Z eqn:E3; [ee|].
    destruct (page_body gz_d zs_d col p) as [body|e|f] eqn:EB; [|ee|exfalso; exact (NF f eq_refl)].
    cbn [bind]. destruct (unsupported_page_rejected_thm col dict (fst p) body H) as (e & He).
    unfold decode_page in He. rewrite E1, E2, E3 in He. exists e. exact He.
  Qed.

  (** the recorded deviation: codec id 5 (LZ4) goes to the same bare-block decoder as LZ4_RAW *)
  Theorem lz4_id5_read_as_bare_block_thm : forall stored cap,
    decompress_page gz_d zs_d E_CARQUET_COMPRESSION_LZ4 stored cap = Lz4Model.decompress stored cap /\
    decompress_page gz_d zs_d E_CARQUET_COMPRESSION_LZ4_RAW stored cap = Lz4Model.decompress stored cap.
  Proof. intros. split; reflexivity. Qed.
End Codecs.

(** the statement has content: DATA_PAGE_V2, INDEX_PAGE, type 77; DELTA_BINARY_PACKED, id 1, id -5; BIT_PACKED levels *)
Example unsupported_examples :
  let col := mkcol E_CARQUET_PHYSICAL_INT32 0 1 0 0%Z in
  ~ supported_page col (mkhdr E_CARQUET_PAGE_DATA_V2 8 2 0 3 3) /\
  ~ supported_page col (mkhdr E_CARQUET_PAGE_INDEX 8 2 0 3 3) /\
  ~ supported_page col (mkhdr 77 8 2 0 3 3) /\
  ~ supported_page col (mkhdr E_CARQUET_PAGE_DATA 8 2 E_CARQUET_ENCODING_DELTA_BINARY_PACKED 3 3) /\
  ~ supported_page col (mkhdr E_CARQUET_PAGE_DATA 8 2 1 3 3) /\
  ~ supported_page col (mkhdr E_CARQUET_PAGE_DATA 8 2 (-5) 3 3) /\
  ~ supported_page col (mkhdr E_CARQUET_PAGE_DATA 8 2 0 E_CARQUET_ENCODING_BIT_PACKED 3) /\
  supported_page col (mkhdr E_CARQUET_PAGE_DATA 8 2 0 E_CARQUET_ENCODING_RLE E_CARQUET_ENCODING_BIT_PACKED) /\
  ~ accepted_codec E_CARQUET_COMPRESSION_LZO /\ ~ accepted_codec E_CARQUET_COMPRESSION_BROTLI /\ ~ accepted_codec 8%Z /\
  ~ accepted_codec (-1)%Z.
Proof.
  cbv [supported_page supported_encoding supported_level_encodings accepted_codec supported_codec
       h_type h_encoding h_def_enc h_rep_enc c_maxdef c_maxrep].
  repeat split; try (intro H; decompose [and or] H; discriminate); auto.
Qed.

(* ================================================================== level width *)

Lemma size_shiftr1 m : 0 < m -> N.size m = N.succ (N.size (N.shiftr m 1)).
Proof.
  intros H. destruct m as [|p]; [lia|]. destruct p as [q|q|]; cbn; try reflexivity.
Qed.

Lemma bw_loop_spec : forall fuel m width, N.size m <= N.of_nat fuel -> bw_loop fuel m width = (width + N.to_nat (N.size m))%nat.
Proof.
  induction fuel as [|f IH]; intros m width H.
  - cbn [bw_loop]. assert (E : N.size m = 0) by lia. rewrite E. cbn. lia.
  - cbn [bw_loop]. destruct (N.ltb_spec 0 m) as [P|Z0].
    + rewrite (size_shiftr1 m P) in *. rewrite IH by lia. lia.
    + assert (m = 0) by lia. subst m. cbn. lia.
Qed.

(** bit_width_for_max computes the bit width the format prescribes (levels are int16_t: far below 2^32) *)
Lemma bit_width_for_max_spec m : m < 2 ^ 32 -> bit_width_for_max m = bit_width m.
Proof.
  intros H. unfold bit_width_for_max, bit_width. destruct (N.eqb_spec m 0) as [->|Hm]; [reflexivity|].
  rewrite bw_loop_spec; [reflexivity|].
  change (N.of_nat 32) with 32. pose proof (N.size_le m) as L. rewrite N.succ_double_spec in L.
  apply N.lt_succ_r. apply (N.pow_lt_mono_r_iff 2); [lia|]. change (N.succ 32) with 33.
  change (2 ^ 33) with 8589934592. change (2 ^ 32) with 4294967296 in H. lia.
Qed.

(* ================================================================== carquet_rle_decode_levels *)

Lemma varint_inline_read : forall fuel shift acc bs r,
  RleModel.read_varint fuel shift acc bs = Some r -> varint_inline fuel shift acc bs = r.
Proof.
  induction fuel as [|f IH]; intros shift acc bs r H; [discriminate|].
  cbn [RleModel.read_varint] in H. cbn [varint_inline]. destruct bs as [|b tl]; [discriminate|].
  destruct (N.land b 128 =? 0); [injection H as <-; reflexivity|]. apply IH. exact H.
Qed.

Lemma varint_inline_header h tl : h < 2 ^ 32 -> varint_inline 5 0 0 (uleb128 h ++ tl) = (h, tl).
Proof. intros H. apply varint_inline_read. apply read_header. exact H. Qed.

Lemma firstn_min_len {A} (l : list A) n : firstn n l = firstn (Nat.min n (length l)) l.
Proof.
  destruct (Nat.le_ge_cases n (length l)) as [L|G].
  - rewrite Nat.min_l by exact L. reflexivity.
  - rewrite Nat.min_r by exact G. rewrite firstn_all, firstn_all2 by exact G. reflexivity.
Qed.

Lemma firstn_app_split {A} (a b : list A) n :
  firstn n (a ++ b) = firstn (Nat.min n (length a)) a ++ firstn (n - length a) b.
Proof. rewrite firstn_app. f_equal. apply firstn_min_len. Qed.

(** the group loop on the bytes of a bit-packed run of [k] groups: it delivers the first [want] values; when it has
    delivered the whole run, the input position is right behind the run *)
Lemma lv_groups_spec w : forall k more fuel rest want,
  length more = (8 * k)%nat -> small w more -> (k < fuel)%nat ->
  fst (lv_groups fuel w (N.of_nat k) (lit_bytes w more ++ rest) want) = firstn want more /\
  ((length more <= want)%nat -> snd (lv_groups fuel w (N.of_nat k) (lit_bytes w more ++ rest) want) = rest).
Proof.
  induction k as [|k IH]; intros more fuel rest want Hl Hs Hf; (destruct fuel as [|f]; [lia|]); cbn [lv_groups].
  - destruct more; [|discriminate]. cbn [N.of_nat N.eqb orb fst snd]. rewrite firstn_nil, lit_bytes_nil.
    split; [reflexivity|intros _; reflexivity].
  - assert (E0 : (N.of_nat (S k) =? 0) = false) by (apply N.eqb_neq; lia). rewrite E0. cbn [orb].
    destruct (Nat.eqb_spec want 0) as [->|Hw].
    { cbn [fst snd firstn]. split; [reflexivity|intros L; lia]. }
    set (g := firstn 8 more). set (more' := skipn 8 more).
    assert (Em : more = g ++ more') by (symmetry; apply firstn_skipn).
    assert (Hg : length g = 8%nat) by (apply firstn_length_le; lia).
    assert (Hm' : length more' = (8 * k)%nat) by (unfold more'; rewrite skipn_length; lia).
    rewrite Em in Hs. apply small_app in Hs. destruct Hs as [Hsg Hsm].
    assert (Hb : lit_bytes w more ++ rest = pack_spec w g ++ lit_bytes w more' ++ rest).
    { rewrite Em at 1. rewrite (lit_bytes_group w g more' Hg), <- app_assoc. reflexivity. }
    rewrite Hb.
    destruct (unpack_group w g (lit_bytes w more' ++ rest) Hg Hsg) as [U Sk]. rewrite U, Sk.
    replace (N.of_nat (S k) - 1) with (N.of_nat k) by lia.
    assert (Hout : length (firstn (Nat.min 8 want) g) = Nat.min 8 want) by (apply firstn_length_le; lia).
    destruct (IH more' f rest (want - length (firstn (Nat.min 8 want) g))%nat Hm' Hsm ltac:(lia)) as [I1 I2].
    destruct (lv_groups f w (N.of_nat k) (lit_bytes w more' ++ rest) (want - length (firstn (Nat.min 8 want) g))) as [o2 r2].
    cbn [fst snd] in *. split.
    + rewrite I1, Em, firstn_app_split, Hg, Hout. rewrite (Nat.min_comm want 8). f_equal. f_equal. lia.
    + intros L. apply I2. rewrite Hout, Hm'. rewrite Em, app_length, Hg, Hm' in L. lia.
Qed.

Lemma runs_div8 (vs : list N) : Nat.modulo (length vs) 8 = 0%nat -> length vs = (8 * Nat.div (length vs) 8)%nat.
Proof. intros H. pose proof (Nat.div_mod (length vs) 8 ltac:(lia)) as E. lia. Qed.

Lemma min_firstn_repeat {A} (a : A) want n : firstn (Nat.min want n) (repeat a n) = repeat a (Nat.min want n).
Proof. apply firstn_repeat. lia. Qed.

Lemma lit_bytes_length w : forall k more, length more = (8 * k)%nat -> length (lit_bytes w more) = (w * k)%nat.
Proof.
  induction k as [|k IH]; intros more Hl.
  - destruct more; [|discriminate]. rewrite lit_bytes_nil, Nat.mul_0_r. reflexivity.
  - assert (Em : more = firstn 8 more ++ skipn 8 more) by (symmetry; apply firstn_skipn).
    assert (Hg : length (firstn 8 more) = 8%nat) by (apply firstn_length_le; lia).
    rewrite Em, (lit_bytes_group w _ _ Hg), app_length, pack_spec_length, IH by (rewrite skipn_length; lia).
    rewrite Nat.mul_succ_r. lia.
Qed.

Lemma lv_loop_zero fuel w rest : lv_loop fuel w rest 0 = [].
Proof. destruct fuel; reflexivity. Qed.

(** carquet_rle_decode_levels returns the values of every well-formed run stream: RLE runs of any length (zero
    included), bit-packed runs of any number of groups (zero included), in any mix *)
Lemma lv_loop_runs w : (1 <= w <= 32)%nat -> forall rs fuel want,
  Forall (wf_run w) rs -> (length (bytes_of_runs w rs) < fuel)%nat -> (want <= length (runs_vals rs))%nat ->
  lv_loop fuel w (bytes_of_runs w rs) want = firstn want (runs_vals rs).
Proof.
  intros [Hw1 Hw] rs. induction rs as [|r rs IH]; intros fuel want Hwf Hf Hwant.
  - destruct fuel as [|f]; [cbn in Hf; lia|]. cbn [lv_loop bytes_of_runs map concat runs_vals].
    destruct (Nat.eqb want 0); rewrite ?firstn_nil; reflexivity.
  - inversion Hwf as [|? ? Hr Hrs]; subst. destruct fuel as [|f]; [lia|]. cbn [lv_loop].
    destruct (Nat.eqb_spec want 0) as [->|Hw0]; [reflexivity|].
    rewrite bytes_of_runs_cons, runs_vals_cons in *.
    remember (bytes_of_run w r ++ bytes_of_runs w rs) as bs eqn:Ebs.
    destruct bs as [|b0 tl0].
    { exfalso. symmetry in Ebs. apply app_eq_nil in Ebs. destruct Ebs as [Eb _]. exact (bytes_of_run_nonempty w r Eb). }
    rewrite Ebs in *. clear b0 tl0 Ebs.
    destruct r as [n v | vs]; cbn [bytes_of_run run_vals] in *.
    + (* RLE run *)
      destruct Hr as [Hv Hn]. rewrite <- app_assoc, (varint_inline_header _ _ Hn).
      rewrite land_even_1. cbn [N.eqb]. rewrite shiftr1_even.
      assert (Hlen : Nat.ltb (length (to_base 256 (value_bytes w) v ++ bytes_of_runs w rs)) (vbytes w) = false).
      { apply Nat.ltb_ge. rewrite app_length, to_base_length, vbytes_value_bytes. lia. }
      rewrite Hlen, (read_value w v _ Hw Hv).
      assert (Hsk : skipn (vbytes w) (to_base 256 (value_bytes w) v ++ bytes_of_runs w rs) = bytes_of_runs w rs).
      { rewrite vbytes_value_bytes, skipn_app, to_base_length, Nat.sub_diag, skipn_O, skipn_all2 by (rewrite to_base_length; lia).
        reflexivity. }
      rewrite Hsk.
      assert (Hf' : (length (bytes_of_runs w rs) < f)%nat).
      { rewrite !app_length in Hf. pose proof (uleb_nonempty 9 (2 * N.of_nat n)) as U. unfold uleb128 in Hf.
        destruct (uleb 9 (2 * N.of_nat n)); [contradiction|]. cbn [length] in Hf. lia. }
      rewrite app_length, repeat_length in Hwant.
      destruct (N.eqb_spec (N.of_nat n) 0) as [E0|E0].
      * assert (n = 0%nat) by lia. subst n. cbn [repeat app]. apply IH; [exact Hrs|exact Hf'|cbn in Hwant; exact Hwant].
      * rewrite nmin_min. rewrite IH by (try assumption; lia).
        rewrite firstn_app_split, repeat_length, min_firstn_repeat. f_equal. f_equal. lia.
    + (* bit-packed run *)
      destruct Hr as (Hm & Hs & Hh). rewrite <- app_assoc, (varint_inline_header _ _ Hh).
      rewrite land_odd_1. cbn [N.eqb]. rewrite shiftr1_odd. fold (lit_bytes w vs) in *.
      pose proof (lit_bytes_length w _ vs (runs_div8 vs Hm)) as Hlb.
      assert (Hf' : (length (lit_bytes w vs ++ bytes_of_runs w rs) < f)%nat).
      { rewrite !app_length in Hf. pose proof (uleb_nonempty 9 (2 * N.of_nat (Nat.div (length vs) 8) + 1)) as U.
        unfold uleb128 in Hf. destruct (uleb 9 (2 * N.of_nat (Nat.div (length vs) 8) + 1)); [contradiction|].
        cbn [length] in Hf. rewrite app_length. lia. }
      rewrite app_length in Hwant.
      destruct (N.eqb_spec (N.of_nat (Nat.div (length vs) 8) * 8) 0) as [E0|E0].
      * assert (Hz : length vs = 0%nat) by (rewrite (runs_div8 vs Hm); lia).
        destruct vs; [|discriminate]. rewrite lit_bytes_nil in *. cbn [app].
        apply IH; [exact Hrs|exact Hf'|cbn in Hwant; exact Hwant].
      * destruct (lv_groups_spec w (Nat.div (length vs) 8) vs (S (length (lit_bytes w vs ++ bytes_of_runs w rs)))
                    (bytes_of_runs w rs) want (runs_div8 vs Hm) Hs) as [G1 G2].
        { rewrite app_length, Hlb. apply Nat.lt_succ_r. apply Nat.le_trans with (w * Nat.div (length vs) 8)%nat; [|lia].
          rewrite <- (Nat.mul_1_l (Nat.div (length vs) 8)) at 1. apply Nat.mul_le_mono_r. exact Hw1. }
        destruct (lv_groups (S (length (lit_bytes w vs ++ bytes_of_runs w rs))) w (N.of_nat (Nat.div (length vs) 8))
                            (lit_bytes w vs ++ bytes_of_runs w rs) want) as [out r2].
        cbn [fst snd] in G1, G2. subst out.
        destruct (Nat.le_gt_cases want (length vs)) as [L|G].
        -- rewrite firstn_length_le by exact L. rewrite Nat.sub_diag, lv_loop_zero, app_nil_r.
           symmetry. apply firstn_app_le. exact L.
        -- rewrite (G2 ltac:(lia)). rewrite firstn_all2 by lia.
           rewrite IH by (try assumption; rewrite app_length in Hf'; lia).
           rewrite firstn_app_split. rewrite Nat.min_r by lia. rewrite firstn_all. reflexivity.
Qed.

Theorem rle_decode_levels_accepts_thm : forall w bytes vals n,
  (1 <= w <= 32)%nat -> Denotes w bytes vals -> (n <= length vals)%nat ->
  rle_decode_levels w bytes n = firstn n vals.
Proof.
  intros w bytes vals n Hw (rs & Hwf & -> & ->) Hn. unfold rle_decode_levels.
  destruct (bytes_of_runs w rs) as [|b tl] eqn:E.
  - apply bytes_of_runs_nil in E. subst rs. cbn [runs_vals map concat]. rewrite firstn_nil. reflexivity.
  - rewrite <- E. apply lv_loop_runs; [exact Hw|exact Hwf|lia|exact Hn].
Qed.

(** the stream forms the property names: a bit-packed run of three groups, a zero-length RLE run, an RLE run *)
Example rle_decode_levels_example :
  let rs := [RLit [0;1;2;3;0;1;2;3; 3;3;3;3;3;3;3;3; 1;0;0;0;0;0;0;0]; RRun 0 2; RRun 5 3] in
  Forall (wf_run 2) rs /\
  rle_decode_levels 2 (bytes_of_runs 2 rs) 22 = [0;1;2;3;0;1;2;3; 3;3;3;3;3;3;3;3; 1;0;0;0;0;0] /\
  rle_decode_levels 2 (bytes_of_runs 2 rs) 29 = [0;1;2;3;0;1;2;3; 3;3;3;3;3;3;3;3; 1;0;0;0;0;0;0;0; 3;3;3;3;3].
Proof.
  split; [|split; vm_compute; reflexivity].
  repeat constructor; cbn; try lia; try (vm_compute; reflexivity).
Qed.

(* ================================================================== level blocks *)

Lemma bit_width_bounds m : m <> 0 -> m < 2 ^ 32 -> (1 <= bit_width m <= 32)%nat.
Proof.
  intros H0 H. unfold bit_width. split.
  - destruct m as [|p]; [contradiction|]. destruct p; cbn; lia.
  - pose proof (N.size_le m) as L. rewrite N.succ_double_spec in L.
    assert (N.size m <= 32); [|lia].
    apply N.lt_succ_r. apply (N.pow_lt_mono_r_iff 2); [lia|]. change (N.succ 32) with 33.
    change (2 ^ 33) with 8589934592. change (2 ^ 32) with 4294967296 in H. lia.
Qed.

Lemma le_val_le_bytes4 x : x < 2 ^ 32 -> BitpackModel.le_val (DeltaBits.le_bytes 4 x) = x.
Proof.
  intros H. unfold DeltaBits.le_bytes. rewrite le_val_from_base. apply from_to_base; [discriminate|].
  change (256 ^ N.of_nat 4) with (2 ^ 32). exact H.
Qed.

(** a level block in the format's layout is read back exactly: any mix of run kinds at the prescribed width *)
Lemma read_level_block_accepts maxlvl n bytes levels rest enc :
  maxlvl < 2 ^ 32 -> LevelBlock maxlvl n bytes levels rest -> (maxlvl = 0 \/ enc = E_CARQUET_ENCODING_RLE) ->
  read_level_block maxlvl enc bytes n = Ok (levels, rest).
Proof.
  intros Hm HB He. unfold LevelBlock in HB. unfold read_level_block.
  destruct (N.eqb_spec maxlvl 0) as [E0|E0].
  - destruct HB as [-> ->]. reflexivity.
  - destruct He as [He|He]; [contradiction|]. subst enc.
    destruct HB as (stream & vals & -> & Hl & HD & Hn & ->).
    change (E_CARQUET_ENCODING_RLE =? Foreign_level_encoding)%Z with true. cbn [negb].
    assert (L4 : length (DeltaBits.le_bytes 4 (len stream)) = 4%nat) by apply le_bytes_length.
    assert (E1 : Nat.ltb (length (DeltaBits.le_bytes 4 (len stream) ++ stream ++ rest)) 4 = false).
    { apply Nat.ltb_ge. rewrite app_length, L4. lia. }
    rewrite E1.
    assert (F4 : firstn 4 (DeltaBits.le_bytes 4 (len stream) ++ stream ++ rest) = DeltaBits.le_bytes 4 (len stream)).
    { rewrite firstn_app, L4, Nat.sub_diag, firstn_O, app_nil_r. apply firstn_all2. lia. }
    assert (S4 : skipn 4 (DeltaBits.le_bytes 4 (len stream) ++ stream ++ rest) = stream ++ rest).
    { rewrite skipn_app, L4, Nat.sub_diag, skipn_O, skipn_all2 by lia. reflexivity. }
    rewrite F4, S4, (le_val_le_bytes4 _ Hl).
    assert (E2 : (len (stream ++ rest) <? len stream) = false).
    { apply N.ltb_ge. unfold len. rewrite app_length. lia. }
    rewrite E2. unfold len. rewrite Nat2N.id.
    rewrite firstn_app, Nat.sub_diag, firstn_O, app_nil_r, firstn_all.
    rewrite skipn_app, Nat.sub_diag, skipn_O, skipn_all. cbn [app].
    rewrite (bit_width_for_max_spec _ Hm). unfold decode_levels_rle.
    pose proof (bit_width_bounds maxlvl E0 Hm) as Hw.
    destruct (Nat.eqb_spec (bit_width maxlvl) 0) as [Z0|_]; [lia|].
    rewrite (rle_decode_levels_accepts_thm _ _ _ _ Hw HD Hn).
    rewrite firstn_length_le by exact Hn. rewrite Nat.sub_diag. cbn [repeat]. rewrite app_nil_r. reflexivity.
Qed.

(* ================================================================== dictionary-encoded values *)

Definition model_dict (entries : list (list N)) : dictionary := mkdict (len entries) entries.

Lemma gather_accepts entries : forall idx vals,
  Forall2 (fun i v => nth_error entries (N.to_nat i) = Some v) idx vals -> gather (model_dict entries) idx = Ok vals.
Proof.
  intros idx vals H. induction H as [|i v idx vals Hi _ IH]; [reflexivity|].
  cbn [gather model_dict dict_count dict_entries] in *.
  assert (Hlt : (N.to_nat i < length entries)%nat) by (apply nth_error_Some; rewrite Hi; discriminate).
  assert (E : (len entries <=? i) = false) by (apply N.leb_gt; unfold len; lia).
  rewrite E, Hi, IH. reflexivity.
Qed.

Lemma dictionary_capable_in_list t : dictionary_capable t -> in_list t Foreign_dict_types = true.
Proof. intros H. unfold dictionary_capable in H. decompose [or] H; subst t; reflexivity. Qed.

Lemma value_encoding_dict e : is_dict_encoding e = true -> Foreign_value_encoding e = Some 1%nat.
Proof.
  unfold is_dict_encoding, Foreign_value_encoding. intros H. apply orb_true_iff in H.
  destruct H as [H|H]; apply Z.eqb_eq in H; subst e; reflexivity.
Qed.

(* ================================================================== one data page *)

Section Page.
  (** PLAIN facts of the column's physical type (Enc/PlainProofs.v proves them for the fixed-width numeric types and
      BYTE_ARRAY: see [plain_accepts_fixed] and [plain_accepts_byte_array] below) *)
  Variable col : column.
  Hypothesis plain_decode_accepts : forall n bs vals,
    DeltaBits.bytes bs -> len bs < 2 ^ 60 -> plain_values (c_type col) (c_tlen col) n bs = Some vals ->
    decode_plain (c_type col) (N.of_nat (c_tlen col)) bs (N.of_nat n) = Ok vals.

  Lemma level_block_rest_bytes maxlvl n bytes levels rest :
    LevelBlock maxlvl n bytes levels rest -> DeltaBits.bytes bytes -> DeltaBits.bytes rest /\ (length rest <= length bytes)%nat.
  Proof.
    unfold LevelBlock. destruct (maxlvl =? 0).
    - intros [_ ->] B. split; [exact B|lia].
    - intros (stream & vals & -> & _) B. unfold DeltaBits.bytes in *. rewrite !Forall_app in B.
      split; [tauto|rewrite !app_length; lia].
  Qed.

  Theorem page_decode_accepts_thm : forall dict hdr body reps defs vals,
    c_maxrep col < 2 ^ 32 -> c_maxdef col < 2 ^ 32 -> DeltaBits.bytes body -> len body < 2 ^ 60 ->
    (is_dict_encoding (h_encoding hdr) = true -> dictionary_capable (c_type col)) ->
    PageDenotes col dict hdr body (reps, defs, vals) ->
    decode_page col (option_map model_dict dict) hdr body = Ok (reps, defs, vals).
  Proof.
    intros dict hdr body reps defs vals Hr Hd Bb Lb Hcap (Ht & Hn & Her & Hed & r1 & r2 & HR & HD & HV).
    unfold decode_page. rewrite Ht.
    change (E_CARQUET_PAGE_DATA =? Foreign_page_rejected)%Z with false.
    change (E_CARQUET_PAGE_DATA =? Foreign_page_data)%Z with true. cbn [negb].
    destruct (Z.ltb_spec (h_num_values hdr) 0) as [L|_]; [lia|].
    unfold read_data_page_v1.
    rewrite (read_level_block_accepts _ _ _ _ _ _ Hr HR Her). cbn [bind fst snd].
    rewrite (read_level_block_accepts _ _ _ _ _ _ Hd HD Hed). cbn [bind fst snd].
    destruct (level_block_rest_bytes _ _ _ _ _ HR Bb) as [B1 L1].
    destruct (level_block_rest_bytes _ _ _ _ _ HD B1) as [B2 L2].
    assert (Lr2 : len r2 < 2 ^ 60) by (unfold len in *; lia).
    assert (Enn : count_non_null (c_maxdef col) defs (Z.to_nat (h_num_values hdr)) =
                  (if c_maxdef col =? 0 then Z.to_nat (h_num_values hdr) else count_eq (c_maxdef col) defs)) by reflexivity.
    rewrite Enn. set (nn := if c_maxdef col =? 0 then Z.to_nat (h_num_values hdr) else count_eq (c_maxdef col) defs) in *.
    destruct HV as [[He HP]|[He (d & -> & w & stream & ivals & -> & Hw & HDen & Hlen & HF)]].
    - rewrite He. change (Foreign_value_encoding E_CARQUET_ENCODING_PLAIN) with (Some 0%nat).
      rewrite (plain_decode_accepts nn r2 vals B2 Lr2 HP). reflexivity.
    - rewrite (value_encoding_dict _ He). cbn [option_map].
      destruct HDen as (rs & Hwf & -> & ->).
      rewrite (decode_all_runs (N.to_nat w) rs nn ltac:(lia) Hwf).
      rewrite firstn_length_le by exact Hlen. rewrite Nat.sub_diag. cbn [repeat]. rewrite app_nil_r.
      rewrite (gather_accepts d _ _ HF).
      rewrite (dictionary_capable_in_list _ (Hcap He)).
      destruct (c_type col =? E_CARQUET_PHYSICAL_BYTE_ARRAY)%Z; reflexivity.
  Qed.
End Page.

(* ================================================================== PLAIN values, type by type *)

Lemma flba_as_fixed k : forall n bs vs r,
  spec_flba_dec k n bs = Some (vs, r) -> spec_fixed_dec k n bs = Some (map le_num vs, r).
Proof.
  induction n as [|n IH]; intros bs vs r H; cbn [spec_flba_dec spec_fixed_dec] in *.
  - injection H as <- <-. reflexivity.
  - destruct (DeltaBits.take k bs) as [[v rest]|]; [|discriminate].
    destruct (spec_flba_dec k n rest) as [[vs' r']|] eqn:E; [|discriminate].
    injection H as <- <-. rewrite (IH _ _ _ E). reflexivity.
Qed.

Lemma flba_shape k : forall n bs vs r,
  spec_flba_dec k n bs = Some (vs, r) -> bs = concat vs ++ r /\ Forall (fun v => length v = k) vs /\ length vs = n.
Proof.
  induction n as [|n IH]; intros bs vs r H; cbn [spec_flba_dec] in *.
  - injection H as <- <-. repeat split; constructor.
  - destruct (DeltaBits.take k bs) as [[v rest]|] eqn:T; [|discriminate].
    destruct (spec_flba_dec k n rest) as [[vs' r']|] eqn:E; [|discriminate].
    injection H as <- <-. destruct (DeltaBits.take_spec _ _ _ _ T) as [-> Hl]. destruct (IH _ _ _ E) as (-> & HF & HL).
    cbn [concat length]. rewrite <- app_assoc. repeat split; [constructor; assumption|lia].
Qed.

Lemma bytes_concat (vs : list (list N)) r : DeltaBits.bytes (concat vs ++ r) -> Forall DeltaBits.bytes vs.
Proof.
  induction vs as [|v vs IH]; intros H; [constructor|]. cbn [concat] in H. unfold DeltaBits.bytes in *.
  rewrite <- app_assoc in H. apply Forall_app in H. destruct H as [Hv H]. constructor; [exact Hv|apply IH; exact H].
Qed.

Lemma fixed_values_bytes k n bs vs r :
  DeltaBits.bytes bs -> (0 < k)%nat -> spec_flba_dec k n bs = Some (vs, r) ->
  rmap (map (le_bytes_f k)) (strip (dec_fixed k bs (N.of_nat n))) = Ok vs.
Proof.
  intros B Hs H. rewrite (plain_fixed_decode_accepts k n bs _ r Hs (flba_as_fixed _ _ _ _ _ H)).
  cbn [strip rmap]. f_equal. destruct (flba_shape _ _ _ _ _ H) as (-> & HF & _).
  pose proof (bytes_concat _ _ B) as HB. clear -HF HB.
  induction vs as [|v vs IH]; [reflexivity|].
  inversion HF as [|? ? Hlv HF']; inversion HB as [|? ? Hbv HB']; subst. cbn [map].
  rewrite IH by assumption. f_equal. rewrite le_bytes_f_eq. apply le_bytes_num. exact Hbv.
Qed.

Definition plain_proved (t : Z) : Prop :=
  t = E_CARQUET_PHYSICAL_INT32 \/ t = E_CARQUET_PHYSICAL_FLOAT \/ t = E_CARQUET_PHYSICAL_INT64 \/
  t = E_CARQUET_PHYSICAL_DOUBLE \/ t = E_CARQUET_PHYSICAL_BYTE_ARRAY.

(** carquet_decode_plain returns the values the PLAIN specification reads, for INT32 / FLOAT / INT64 / DOUBLE (through
    Enc/PlainProofs.plain_fixed_decode_accepts) and BYTE_ARRAY (plain_byte_array_decode_accepts) *)
Theorem plain_accepts_thm : forall t tlen, plain_proved t -> forall n bs vals,
  DeltaBits.bytes bs -> len bs < 2 ^ 60 -> plain_values t tlen n bs = Some vals ->
  decode_plain t (N.of_nat tlen) bs (N.of_nat n) = Ok vals.
Proof.
  intros t tlen Ht n bs vals B L H.
  unfold plain_proved in Ht. decompose [or] Ht; subst t; unfold plain_values in H; cbn in H.
  - destruct (spec_flba_dec 4 n bs) as [[vs r]|] eqn:E; [|discriminate]. injection H as <-.
    apply (fixed_values_bytes 4 n bs vs r B); [lia|exact E].
  - destruct (spec_flba_dec 4 n bs) as [[vs r]|] eqn:E; [|discriminate]. injection H as <-.
    apply (fixed_values_bytes 4 n bs vs r B); [lia|exact E].
  - destruct (spec_flba_dec 8 n bs) as [[vs r]|] eqn:E; [|discriminate]. injection H as <-.
    apply (fixed_values_bytes 8 n bs vs r B); [lia|exact E].
  - destruct (spec_flba_dec 8 n bs) as [[vs r]|] eqn:E; [|discriminate]. injection H as <-.
    apply (fixed_values_bytes 8 n bs vs r B); [lia|exact E].
  - destruct (spec_ba_dec n bs) as [[vs r]|] eqn:E; [|discriminate]. injection H as <-.
    unfold decode_plain. cbn. rewrite (plain_byte_array_decode_accepts n bs vs r E). reflexivity.
Qed.

Lemma chunks_concat k : forall vs r, Forall (fun v => length v = k) vs ->
  chunks k (length vs) (concat vs ++ r) = vs.
Proof.
  induction vs as [|v vs IH]; intros r HF; [reflexivity|]. inversion HF as [|? ? Hv HF']; subst.
  cbn [length chunks concat]. rewrite <- app_assoc.
  rewrite firstn_app, Nat.sub_diag, firstn_O, app_nil_r, firstn_all.
  rewrite skipn_app, Nat.sub_diag, skipn_O, skipn_all. cbn [app]. rewrite IH by exact HF'. reflexivity.
Qed.

Lemma concat_length_fixed k (vs : list (list N)) : Forall (fun v => length v = k) vs -> length (concat vs) = (k * length vs)%nat.
Proof.
  induction vs as [|v vs IH]; intros HF; [cbn; lia|]. inversion HF as [|? ? Hv HF']; subst.
  cbn [concat length]. rewrite app_length, IH by exact HF'. lia.
Qed.

(** FIXED_LEN_BYTE_ARRAY *)
Lemma plain_accepts_flba tlen n bs vals :
  plain_values E_CARQUET_PHYSICAL_FIXED_LEN_BYTE_ARRAY tlen n bs = Some vals ->
  decode_plain E_CARQUET_PHYSICAL_FIXED_LEN_BYTE_ARRAY (N.of_nat tlen) bs (N.of_nat n) = Ok vals.
Proof.
  intros H. unfold plain_values in H. cbn in H.
  destruct (Nat.eqb_spec tlen 0) as [K0|K0]; [discriminate|].
  destruct (spec_flba_dec tlen n bs) as [[vs r]|] eqn:E; [|discriminate]. injection H as <-.
  destruct (flba_shape _ _ _ _ _ E) as (-> & HF & HL).
  pose proof (concat_length_fixed tlen vs HF) as Hlen. rewrite HL in Hlen.
  unfold decode_plain. cbn [Z.eqb E_CARQUET_PHYSICAL_FIXED_LEN_BYTE_ARRAY E_CARQUET_PHYSICAL_BOOLEAN E_CARQUET_PHYSICAL_INT32
    E_CARQUET_PHYSICAL_INT64 E_CARQUET_PHYSICAL_INT96 E_CARQUET_PHYSICAL_FLOAT E_CARQUET_PHYSICAL_DOUBLE
    E_CARQUET_PHYSICAL_BYTE_ARRAY Pos.eqb].
  unfold plain_decode_flba.
  assert (E0 : (N.of_nat tlen =? 0) = false) by (apply N.eqb_neq; lia). rewrite E0.
  assert (E1 : (len (concat vs ++ r) / N.of_nat tlen <? N.of_nat n) = false).
  { apply N.ltb_ge. apply N.div_le_lower_bound; [lia|]. unfold len. rewrite app_length, Hlen. lia. }
  rewrite E1.
  replace (N.to_nat (N.of_nat n * N.of_nat tlen)) with (length (concat vs)) by lia.
  rewrite DeltaBits.take_app. cbn [strip rmap]. rewrite !Nat2N.id. rewrite <- HL.
  rewrite <- (app_nil_r (concat vs)). rewrite (chunks_concat tlen vs [] HF). reflexivity.
Qed.

(** INT96: three 32-bit words per value in the decoder, twelve bytes in the format *)
Lemma le_bytes_le_num4 (v : list N) : DeltaBits.bytes v -> length v = 4%nat -> le_bytes_f 4 (le_num_f v) = v.
Proof. intros B L. rewrite le_bytes_f_eq, le_num_f_eq. rewrite <- L. apply le_bytes_num. exact B. Qed.

Lemma read_fixed_int96 : forall n bs vs r, DeltaBits.bytes bs -> spec_flba_dec 12 n bs = Some (vs, r) ->
  exists ws, read_fixed 4 (3 * n) bs = Ok ws /\ map bytes_of_triple (triples ws) = vs.
Proof.
  induction n as [|n IH]; intros bs vs r B H; cbn [spec_flba_dec] in H.
  - injection H as <- <-. exists []. split; reflexivity.
  - destruct (DeltaBits.take 12 bs) as [[v rest]|] eqn:T; [|discriminate].
    destruct (spec_flba_dec 12 n rest) as [[vs' r']|] eqn:E; [|discriminate]. injection H as <- <-.
    destruct (DeltaBits.take_spec _ _ _ _ T) as [-> L]. unfold DeltaBits.bytes in B. apply Forall_app in B. destruct B as [Bv Br].
    destruct (IH rest vs' r' Br E) as (ws' & Hr & Hm).
    replace (3 * S n)%nat with (S (S (S (3 * n)))) by lia.
    do 12 (destruct v as [|? v]; [discriminate L|]). destruct v; [|discriminate L].
    cbn [read_fixed DeltaBits.take app]. rewrite Hr. eexists. split; [reflexivity|].
    cbn [triples map bytes_of_triple]. rewrite Hm. f_equal.
    repeat match goal with H : Forall _ (_ :: _) |- _ => inversion H; clear H; subst end.
    rewrite !le_bytes_le_num4 by (try reflexivity; repeat constructor; assumption). reflexivity.
Qed.

Lemma plain_accepts_int96 tlen n bs vals : DeltaBits.bytes bs ->
  plain_values E_CARQUET_PHYSICAL_INT96 tlen n bs = Some vals ->
  decode_plain E_CARQUET_PHYSICAL_INT96 (N.of_nat tlen) bs (N.of_nat n) = Ok vals.
Proof.
  intros B H. unfold plain_values in H. cbn in H.
  destruct (spec_flba_dec 12 n bs) as [[vs r]|] eqn:E; [|discriminate]. injection H as <-.
  destruct (read_fixed_int96 _ _ _ _ B E) as (ws & Hr & Hm).
  destruct (flba_shape _ _ _ _ _ E) as (Eb & HF & HL).
  pose proof (concat_length_fixed 12 vs HF) as Hlen. rewrite HL in Hlen.
  unfold decode_plain. cbn [Z.eqb E_CARQUET_PHYSICAL_FIXED_LEN_BYTE_ARRAY E_CARQUET_PHYSICAL_BOOLEAN E_CARQUET_PHYSICAL_INT32
    E_CARQUET_PHYSICAL_INT64 E_CARQUET_PHYSICAL_INT96 E_CARQUET_PHYSICAL_FLOAT E_CARQUET_PHYSICAL_DOUBLE
    E_CARQUET_PHYSICAL_BYTE_ARRAY Pos.eqb].
  unfold plain_decode_int96.
  assert (E1 : (len bs / 12 <? N.of_nat n) = false).
  { apply N.ltb_ge. apply N.div_le_lower_bound; [discriminate|]. subst bs. unfold len. rewrite app_length, Hlen. lia. }
  rewrite E1, Nat2N.id, Hr. cbn [strip rmap]. rewrite Hm. reflexivity.
Qed.

(** BOOLEAN: bit i of the stream *)
Lemma all_some_app {A} : forall (l1 l2 : list (option A)) r, all_some (l1 ++ l2) = Some r ->
  exists r1 r2, all_some l1 = Some r1 /\ all_some l2 = Some r2 /\ r = r1 ++ r2.
Proof.
  induction l1 as [|o l1 IH]; intros l2 r H; cbn [app all_some] in *.
  - exists [], r. repeat split. exact H.
  - destruct o as [x|]; [|discriminate]. destruct (all_some (l1 ++ l2)) as [r'|] eqn:E; [|discriminate].
    injection H as <-. destruct (IH l2 r' E) as (r1 & r2 & -> & H2 & ->). exists (x :: r1), r2. repeat split. exact H2.
Qed.

Lemma seq_plus_map : forall m s k, List.seq (s + k) m = map (fun i => (i + k)%nat) (List.seq s m).
Proof. induction m as [|m IH]; intros s k; [reflexivity|]. cbn [List.seq map]. f_equal. apply (IH (S s) k). Qed.

Lemma all_some_nth {A} : forall (r : list A), all_some (map (nth_error r) (List.seq 0 (length r))) = Some r.
Proof.
  induction r as [|x r IH]; [reflexivity|]. cbn [length List.seq map nth_error all_some].
  change 1%nat with (0 + 1)%nat. rewrite seq_plus_map, map_map.
  rewrite (map_ext (fun i => nth_error (x :: r) (i + 1)) (nth_error r)) by (intros i; rewrite Nat.add_1_r; reflexivity).
  rewrite IH. reflexivity.
Qed.

Lemma bit_of_head b t i : (i < 8)%nat -> bit_of (b :: t) i = Some ((b / 2 ^ N.of_nat i) mod 2).
Proof. intros H. unfold bit_of. rewrite Nat.div_small, Nat.mod_small by exact H. reflexivity. Qed.

Lemma bit_of_tail b t i : bit_of (b :: t) (i + 8) = bit_of t i.
Proof.
  unfold bit_of. replace (i + 8)%nat with (i + 1 * 8)%nat by lia.
  rewrite Nat.div_add, Nat.mod_add by lia. rewrite Nat.add_1_r. reflexivity.
Qed.

Lemma dec_bools_spec : forall bs n bits,
  all_some (map (bit_of bs) (List.seq 0 n)) = Some bits -> dec_bools bs n = Ok bits.
Proof.
  induction bs as [|b t IH]; intros n bits H.
  - destruct n as [|n]; [injection H as <-; reflexivity|]. cbn in H. discriminate.
  - destruct n as [|n]; [injection H as <-; reflexivity|].
    cbn [dec_bools]. assert (Hm : (0 < S n)%nat) by lia. revert H Hm. generalize (S n) as m. intros m H Hm.
    set (k := Nat.min 8 m).
    assert (Hs : List.seq 0 m = List.seq 0 k ++ List.seq (0 + k) (m - k)).
    { rewrite <- seq_app. f_equal. unfold k. lia. }
    rewrite Hs, map_app in H. apply all_some_app in H. destruct H as (r1 & r2 & H1 & H2 & ->).
    assert (E1 : r1 = byte_bits k b).
    { rewrite (map_ext_in (bit_of (b :: t)) (nth_error (byte_bits k b))) in H1.
      - rewrite <- (byte_bits_length k b) in H1 at 2. rewrite all_some_nth in H1. injection H1 as <-. reflexivity.
      - intros i Hi. apply in_seq in Hi. rewrite bit_of_head by (unfold k in Hi; lia).
        symmetry. apply bit_of_byte_bits. lia. }
    subst r1. rewrite seq_plus_map, map_map in H2.
    destruct (Nat.le_gt_cases m 8) as [L|G].
    + assert (m - k = 0)%nat by (unfold k; lia). rewrite H in *. cbn in H2. injection H2 as <-.
      destruct t; reflexivity.
    + assert (Ek : k = 8%nat) by (unfold k; lia). rewrite Ek in *.
      rewrite (map_ext (fun i => bit_of (b :: t) (i + 8)) (bit_of t)) in H2 by (intros i; apply bit_of_tail).
      rewrite (IH _ _ H2). reflexivity.
Qed.

Lemma plain_accepts_boolean tlen n bs vals : len bs < 2 ^ 60 ->
  plain_values E_CARQUET_PHYSICAL_BOOLEAN tlen n bs = Some vals ->
  decode_plain E_CARQUET_PHYSICAL_BOOLEAN (N.of_nat tlen) bs (N.of_nat n) = Ok vals.
Proof.
  intros L H. unfold plain_values in H. cbn in H. unfold spec_bool_dec in H.
  destruct (all_some (map (bit_of bs) (List.seq 0 n))) as [bits|] eqn:E; [|discriminate]. injection H as <-.
  (* the stream holds bit n-1: at least ceil(n/8) bytes *)
  assert (Hn : (n <= 8 * length bs)%nat).
  { destruct n as [|n]; [lia|].
    assert (Hlast : exists x, bit_of bs n = Some x).
    { rewrite seq_S, map_app in E. apply all_some_app in E. destruct E as (r1 & r2 & _ & E2 & _).
      cbn [map all_some] in E2. destruct (bit_of bs (0 + n)) as [x|] eqn:Eb; [|discriminate]. exists x. exact Eb. }
    destruct Hlast as (x & Hx). unfold bit_of in Hx.
    destruct (nth_error bs (Nat.div n 8)) eqn:En; [|discriminate].
    assert (Hd : (Nat.div n 8 < length bs)%nat) by (apply nth_error_Some; rewrite En; discriminate).
    pose proof (Nat.div_mod n 8 ltac:(lia)) as Ed. pose proof (Nat.mod_upper_bound n 8 ltac:(lia)). lia. }
  unfold decode_plain. cbn [Z.eqb E_CARQUET_PHYSICAL_BOOLEAN]. unfold plain_decode_boolean.
  assert (Hsz : size_t (N.of_nat n + 7) = N.of_nat n + 7).
  { apply size_t_small. unfold len in L. change (2 ^ 60) with 1152921504606846976 in L.
    change (2 ^ 64) with 18446744073709551616. lia. }
  rewrite Hsz.
  assert (E1 : (len bs <? (N.of_nat n + 7) / 8) = false).
  { apply N.ltb_ge. apply N.lt_succ_r. apply N.div_lt_upper_bound; [discriminate|]. unfold len. lia. }
  rewrite E1, Nat2N.id, (dec_bools_spec _ _ _ E). reflexivity.
Qed.

Definition known_type (t : Z) : Prop :=
  t = E_CARQUET_PHYSICAL_BOOLEAN \/ t = E_CARQUET_PHYSICAL_INT32 \/ t = E_CARQUET_PHYSICAL_INT64 \/
  t = E_CARQUET_PHYSICAL_INT96 \/ t = E_CARQUET_PHYSICAL_FLOAT \/ t = E_CARQUET_PHYSICAL_DOUBLE \/
  t = E_CARQUET_PHYSICAL_BYTE_ARRAY \/ t = E_CARQUET_PHYSICAL_FIXED_LEN_BYTE_ARRAY.

(** carquet_decode_plain returns the values the PLAIN specification reads, for every type (for a type id the format
    does not define the specification reads nothing) *)
Theorem plain_accepts_all_thm : forall t tlen n bs vals,
  DeltaBits.bytes bs -> len bs < 2 ^ 60 -> plain_values t tlen n bs = Some vals ->
  decode_plain t (N.of_nat tlen) bs (N.of_nat n) = Ok vals.
Proof.
  intros t tlen n bs vals B L H.
  destruct (Z.eq_dec t E_CARQUET_PHYSICAL_BOOLEAN) as [->|N0]; [apply plain_accepts_boolean; assumption|].
  destruct (Z.eq_dec t E_CARQUET_PHYSICAL_INT96) as [->|N3]; [apply plain_accepts_int96; assumption|].
  destruct (Z.eq_dec t E_CARQUET_PHYSICAL_FIXED_LEN_BYTE_ARRAY) as [->|N7]; [apply plain_accepts_flba; assumption|].
  destruct (Z.eq_dec t E_CARQUET_PHYSICAL_INT32) as [->|N1]; [apply plain_accepts_thm; [left; reflexivity|assumption..]|].
  destruct (Z.eq_dec t E_CARQUET_PHYSICAL_FLOAT) as [->|N4]; [apply plain_accepts_thm; [right; left; reflexivity|assumption..]|].
  destruct (Z.eq_dec t E_CARQUET_PHYSICAL_INT64) as [->|N2]; [apply plain_accepts_thm; [right; right; left; reflexivity|assumption..]|].
  destruct (Z.eq_dec t E_CARQUET_PHYSICAL_DOUBLE) as [->|N5]; [apply plain_accepts_thm; [right; right; right; left; reflexivity|assumption..]|].
  destruct (Z.eq_dec t E_CARQUET_PHYSICAL_BYTE_ARRAY) as [->|N6]; [apply plain_accepts_thm; [right; right; right; right; reflexivity|assumption..]|].
  exfalso. unfold plain_values, fixed_width in H.
  repeat match type of H with context [(t =? ?c)%Z] => destruct (Z.eqb_spec t c); [contradiction|] end.
  discriminate.
Qed.

(* ================================================================== dictionary page *)



Lemma le_val_le_num l : BitpackModel.le_val l = le_num l.
Proof.
  unfold BitpackModel.le_val, le_num. induction l as [|b l IH]; [reflexivity|].
  cbn [fold_right DeltaBits.from_base]. rewrite IH. reflexivity.
Qed.

Lemma ba_entries_spec : forall n bs vs r, spec_ba_dec n bs = Some (vs, r) ->
  ba_entries n bs = Ok vs /\ length vs = n /\ (4 * n <= length bs)%nat.
Proof.
  induction n as [|n IH]; intros bs vs r H; cbn [spec_ba_dec ba_entries] in *.
  - injection H as <- <-. repeat split; cbn; lia.
  - destruct (DeltaBits.take 4 bs) as [[l4 r1]|] eqn:T; [|discriminate].
    destruct (DeltaBits.take_spec _ _ _ _ T) as [-> L4].
    destruct (2 ^ 31 <=? le_num l4); [discriminate|].
    destruct (DeltaBits.take (N.to_nat (le_num l4)) r1) as [[s r2]|] eqn:T2; [|discriminate].
    destruct (DeltaBits.take_spec _ _ _ _ T2) as [-> Ls].
    destruct (spec_ba_dec n r2) as [[vs' r']|] eqn:E; [|discriminate]. injection H as <- <-.
    destruct (IH _ _ _ E) as (IHe & HL & HB).
    assert (E1 : Nat.ltb (length (l4 ++ s ++ r2)) 4 = false) by (apply Nat.ltb_ge; rewrite app_length; lia).
    rewrite E1.
    assert (F4 : firstn 4 (l4 ++ s ++ r2) = l4) by (rewrite <- L4, firstn_app, Nat.sub_diag, firstn_O, app_nil_r; apply firstn_all).
    rewrite F4, le_val_le_num.
    assert (E2 : (len (l4 ++ s ++ r2) <? 4 + le_num l4) = false).
    { apply N.ltb_ge. unfold len. rewrite !app_length. lia. }
    rewrite E2.
    assert (S4 : skipn 4 (l4 ++ s ++ r2) = s ++ r2) by (rewrite <- L4, skipn_app, Nat.sub_diag, skipn_O, skipn_all; reflexivity).
    assert (S5 : skipn (4 + N.to_nat (le_num l4)) (l4 ++ s ++ r2) = r2).
    { rewrite skipn_plus, S4, <- Ls, skipn_app, Nat.sub_diag, skipn_O, skipn_all. reflexivity. }
    rewrite S5, S4, IHe. rewrite <- Ls at 1. rewrite firstn_app, Nat.sub_diag, firstn_O, app_nil_r, firstn_all.
    repeat split; [cbn [length]; lia|rewrite !app_length; lia].
Qed.


Lemma fixed_width_entry_size t tlen k : dictionary_capable t -> t <> E_CARQUET_PHYSICAL_BYTE_ARRAY ->
  fixed_width t tlen = Some k -> Foreign_dict_entry_size t (N.of_nat tlen) = Some (N.of_nat k).
Proof.
  intros Hc Hb H. unfold dictionary_capable in Hc. decompose [or] Hc; subst t; try contradiction;
    cbn in H; injection H as <-; reflexivity.
Qed.

(** carquet_read_dictionary_page returns the PLAIN entries the dictionary page holds *)
Lemma read_dictionary_page_accepts t tlen count body entries :
  dictionary_capable t -> plain_values t tlen count body = Some entries ->
  read_dictionary_page t (N.of_nat tlen) body (Z.of_nat count) = Ok (model_dict entries).
Proof.
  intros Hc H. unfold read_dictionary_page.
  destruct (Z.ltb_spec (Z.of_nat count) 0) as [L|_]; [lia|].
  replace (Z.to_N (Z.of_nat count)) with (N.of_nat count) by lia.
  unfold plain_values in H.
  assert (Hb : (t =? E_CARQUET_PHYSICAL_BOOLEAN)%Z = false).
  { unfold dictionary_capable in Hc. decompose [or] Hc; subst t; reflexivity. }
  rewrite Hb in H.
  destruct (Z.eqb_spec t E_CARQUET_PHYSICAL_BYTE_ARRAY) as [Eba|Nba].
  - destruct (spec_ba_dec count body) as [[vs r]|] eqn:E; [|discriminate]. injection H as <-.
    destruct (ba_entries_spec _ _ _ _ E) as (IHe & HL & HB).
    assert (E1 : (len body / 4 <? N.of_nat count) = false).
    { apply N.ltb_ge. apply N.div_le_lower_bound; [discriminate|]. unfold len. lia. }
    rewrite E1, Nat2N.id, IHe. unfold model_dict, len. rewrite HL. reflexivity.
  - destruct (fixed_width t tlen) as [k|] eqn:Ek; [|discriminate].
    destruct (Nat.eqb_spec k 0) as [K0|K0]; [discriminate|].
    destruct (spec_flba_dec k count body) as [[vs r]|] eqn:E; [|discriminate]. injection H as <-.
    rewrite (fixed_width_entry_size t tlen k Hc Nba Ek).
    destruct (flba_shape _ _ _ _ _ E) as (-> & HF & HL).
    assert (E0 : (N.of_nat k =? 0) = false) by (apply N.eqb_neq; lia). rewrite E0. cbn [negb andb].
    assert (Hlen : length (concat vs) = (k * count)%nat) by (rewrite (concat_length_fixed k vs HF), HL; reflexivity).
    assert (E1 : (len (concat vs ++ r) / N.of_nat k <? N.of_nat count) = false).
    { apply N.ltb_ge. apply N.div_le_lower_bound; [lia|]. unfold len. rewrite app_length, Hlen. lia. }
    rewrite E1. rewrite !Nat2N.id.
    replace (N.to_nat (N.of_nat k * N.of_nat count)) with (length (concat vs)) by lia.
    rewrite firstn_app, Nat.sub_diag, firstn_O, app_nil_r, firstn_all.
    rewrite <- HL. rewrite <- (app_nil_r (concat vs)). rewrite (chunks_concat k vs [] HF).
    unfold model_dict, len. reflexivity.
Qed.

(* ================================================================== lengths of what a page denotes *)

Lemma all_some_length {A} : forall (l : list (option A)) r, all_some l = Some r -> length r = length l.
Proof.
  induction l as [|o l IH]; intros r H; cbn [all_some] in H.
  - injection H as <-. reflexivity.
  - destruct o as [x|]; [|discriminate]. destruct (all_some l) as [r'|]; [|discriminate].
    injection H as <-. cbn [length]. rewrite (IH r' eq_refl). reflexivity.
Qed.

Lemma plain_values_length t tlen n bs vals : plain_values t tlen n bs = Some vals -> length vals = n.
Proof.
  unfold plain_values. destruct (t =? E_CARQUET_PHYSICAL_BOOLEAN)%Z.
  - unfold spec_bool_dec. destruct (all_some (map (bit_of bs) (List.seq 0%nat n))) as [bits|] eqn:E; [|discriminate].
    intros H. injection H as <-. rewrite map_length, (all_some_length _ _ E), map_length, seq_length. reflexivity.
  - destruct (t =? E_CARQUET_PHYSICAL_BYTE_ARRAY)%Z.
    + destruct (spec_ba_dec n bs) as [[vs r]|] eqn:E; [|discriminate]. intros H. injection H as <-.
      destruct (ba_entries_spec _ _ _ _ E) as (_ & HL & _). exact HL.
    + destruct (fixed_width t tlen) as [k|]; [|discriminate]. destruct (Nat.eqb k 0); [discriminate|].
      destruct (spec_flba_dec k n bs) as [[vs r]|] eqn:E; [|discriminate]. intros H. injection H as <-.
      destruct (flba_shape _ _ _ _ _ E) as (_ & _ & HL). exact HL.
Qed.

Lemma level_block_length maxlvl n bytes levels rest : LevelBlock maxlvl n bytes levels rest -> length levels = n.
Proof.
  unfold LevelBlock. destruct (maxlvl =? 0).
  - intros [-> _]. apply repeat_length.
  - intros (stream & vals & _ & _ & _ & Hn & ->). apply firstn_length_le. exact Hn.
Qed.

Lemma filter_len_le {A} (f : A -> bool) (l : list A) : (length (filter f l) <= length l)%nat.
Proof. induction l as [|x l IH]; [cbn; lia|]. cbn [filter]. destruct (f x); cbn [length]; lia. Qed.

Lemma Forall2_len {A B} (R : A -> B -> Prop) l1 l2 : Forall2 R l1 l2 -> length l1 = length l2.
Proof. induction 1; cbn [length]; congruence. Qed.

Lemma page_lengths col dict hdr body reps defs vals :
  PageDenotes col dict hdr body (reps, defs, vals) ->
  length reps = Z.to_nat (h_num_values hdr) /\ length defs = Z.to_nat (h_num_values hdr) /\
  (length vals <= Z.to_nat (h_num_values hdr))%nat.
Proof.
  intros (_ & _ & _ & _ & r1 & r2 & HR & HD & HV).
  pose proof (level_block_length _ _ _ _ _ HR) as LR. pose proof (level_block_length _ _ _ _ _ HD) as LD.
  split; [exact LR|]. split; [exact LD|].
  assert (Hnn : ((if (c_maxdef col =? 0)%N then Z.to_nat (h_num_values hdr) else count_eq (c_maxdef col) defs)
                 <= Z.to_nat (h_num_values hdr))%nat).
  { destruct (c_maxdef col =? 0); [lia|]. unfold count_eq. rewrite <- LD. apply filter_len_le. }
  destruct HV as [[_ HP]|[_ (d & _ & w & stream & ivals & _ & _ & _ & Hlen & HF)]].
  - rewrite (plain_values_length _ _ _ _ _ HP). exact Hnn.
  - rewrite <- (Forall2_len _ _ _ HF). rewrite firstn_length_le by exact Hlen. exact Hnn.
Qed.

(* ================================================================== a whole column chunk *)

Section ChunkAccepts.
  Variable gz_d zs_d : list N -> N -> res (list N).
  Variable GzipDenotes ZstdDenotes : list N -> list N -> Prop.
  (** zlib / libzstd return the bytes a valid GZIP member / ZSTD frame denotes when the destination has room *)
  Hypothesis gz_d_complete : forall stored body cap, GzipDenotes stored body -> nlen body <= cap -> gz_d stored cap = Ok body.
  Hypothesis zs_d_complete : forall stored body cap, ZstdDenotes stored body -> nlen body <= cap -> zs_d stored cap = Ok body.

  Variable col : column.
  Hypothesis plain_decode_accepts : forall n bs vals,
    DeltaBits.bytes bs -> len bs < 2 ^ 60 -> plain_values (c_type col) (c_tlen col) n bs = Some vals ->
    decode_plain (c_type col) (N.of_nat (c_tlen col)) bs (N.of_nat n) = Ok vals.
  Hypothesis Hrep : c_maxrep col < 2 ^ 32.
  Hypothesis Hdef : c_maxdef col < 2 ^ 32.

  Lemma page_body_accepts p body :
    StoredPage GzipDenotes ZstdDenotes col p body -> page_body gz_d zs_d col p = Ok body.
  Proof.
    intros (HS & Hu & Bs & Bb & _). unfold page_body.
    assert (Hcap : nlen body <= Z.to_N (h_usize (fst p))) by (rewrite Hu; unfold nlen; lia).
    assert (Hneg : (h_usize (fst p) <? 0)%Z = false) by (apply Z.ltb_ge; lia).
    unfold StoredDenotes in HS. destruct HS as [[Ec E]|[[Ec E]|[[Ec E]|[[Ec E]|[Ec E]]]]]; rewrite Ec.
    - subst body. reflexivity.
    - change (E_CARQUET_COMPRESSION_SNAPPY =? E_CARQUET_COMPRESSION_UNCOMPRESSED)%Z with false. rewrite Hneg.
      unfold decompress_page. change (Foreign_codec_dispatch E_CARQUET_COMPRESSION_SNAPPY) with (Some 1%nat).
      apply snappy_decompress_complete_thm; assumption.
    - change (E_CARQUET_COMPRESSION_LZ4_RAW =? E_CARQUET_COMPRESSION_UNCOMPRESSED)%Z with false. rewrite Hneg.
      unfold decompress_page. change (Foreign_codec_dispatch E_CARQUET_COMPRESSION_LZ4_RAW) with (Some 2%nat).
      apply lz4_decompress_complete_thm; assumption.
    - change (E_CARQUET_COMPRESSION_GZIP =? E_CARQUET_COMPRESSION_UNCOMPRESSED)%Z with false. rewrite Hneg.
      unfold decompress_page. change (Foreign_codec_dispatch E_CARQUET_COMPRESSION_GZIP) with (Some 3%nat).
      apply gz_d_complete; assumption.
    - change (E_CARQUET_COMPRESSION_ZSTD =? E_CARQUET_COMPRESSION_UNCOMPRESSED)%Z with false. rewrite Hneg.
      unfold decompress_page. change (Foreign_codec_dispatch E_CARQUET_COMPRESSION_ZSTD) with (Some 4%nat).
      apply zs_d_complete; assumption.
  Qed.

  Lemma load_data_page_accepts dict p body reps defs vals :
    StoredPage GzipDenotes ZstdDenotes col p body ->
    (is_dict_encoding (h_encoding (fst p)) = true -> dictionary_capable (c_type col)) ->
    PageDenotes col dict (fst p) body (reps, defs, vals) ->
    load_data_page gz_d zs_d col (option_map model_dict dict) p = Ok (reps, defs, vals).
  Proof.
    intros HS Hcap HP.
    pose proof (page_decode_accepts_thm col plain_decode_accepts dict (fst p) body reps defs vals Hrep Hdef) as T.
    destruct HS as (HS & Hu & Bs & Bb & Lb). specialize (T Bb Lb Hcap HP).
    unfold decode_page in T. unfold load_data_page.
    destruct (h_type (fst p) =? Foreign_page_rejected)%Z; [discriminate|].
    destruct (negb (h_type (fst p) =? Foreign_page_data)%Z); [discriminate|].
    destruct (h_num_values (fst p) <? 0)%Z; [discriminate|].
    rewrite (page_body_accepts p body (conj HS (conj Hu (conj Bs (conj Bb Lb))))). cbn [bind]. exact T.
  Qed.

  Definition dict_pages_ok (ps : list stored_page) : Prop :=
    Forall (fun p => is_dict_encoding (h_encoding (fst p)) = true -> dictionary_capable (c_type col)) ps.

  Lemma data_pages_lengths dict ps reps defs vals :
    DataPagesDenote GzipDenotes ZstdDenotes col dict ps (reps, defs, vals) ->
    length reps = length defs /\ (length vals <= length defs)%nat.
  Proof.
    intros H. remember (reps, defs, vals) as out eqn:Eo. revert reps defs vals Eo.
    induction H as [|p ps body r d v r' d' v' HS HP HT IH]; intros reps defs vals Eo; injection Eo as <- <- <-.
    - split; [reflexivity|cbn; lia].
    - destruct (page_lengths _ _ _ _ _ _ _ HP) as (L1 & L2 & L3). destruct (IH _ _ _ eq_refl) as [I1 I2].
      rewrite !app_length. lia.
  Qed.

  Lemma decode_data_pages_accepts dict ps reps defs vals :
    DataPagesDenote GzipDenotes ZstdDenotes col dict ps (reps, defs, vals) -> dict_pages_ok ps ->
    decode_data_pages gz_d zs_d col (option_map model_dict dict) (Z.of_nat (length defs)) ps = Ok (reps, defs, vals).
  Proof.
    intros H. remember (reps, defs, vals) as out eqn:Eo. revert reps defs vals Eo.
    induction H as [|p ps body r d v r' d' v' HS HP HT IH]; intros reps defs vals Eo Hok; injection Eo as <- <- <-.
    - reflexivity.
    - inversion Hok as [|? ? Hp Hps]; subst. cbn [decode_data_pages].
      destruct (Z.leb_spec (Z.of_nat (length (d ++ d'))) 0) as [L0|G0].
      + (* nothing remains: every page of the list is empty *)
        assert (Ed : d = [] /\ d' = []).
        { rewrite app_length in L0. split; [destruct d|destruct d']; try reflexivity; cbn [length] in L0; lia. }
        destruct Ed as [-> ->].
        destruct (page_lengths _ _ _ _ _ _ _ HP) as (L1 & L2 & L3). cbn [length] in *.
        destruct (data_pages_lengths _ _ _ _ _ HT) as [I1 I2]. cbn [length] in *.
        destruct r; [|cbn in L1; lia]. destruct v; [|cbn in L3; lia].
        destruct r'; [|cbn in I1; lia]. destruct v'; [|cbn in I2; lia]. reflexivity.
      + rewrite (load_data_page_accepts dict p body r d v HS Hp HP). cbn [bind fst snd].
        replace (Z.of_nat (length (d ++ d')) - Z.of_nat (length d))%Z with (Z.of_nat (length d'))
          by (rewrite app_length; lia).
        rewrite (IH r' d' v' eq_refl Hps). reflexivity.
  Qed.

  (** First sentence of the property, for one column chunk: whatever the page split, with a dictionary page whose
      offset the metadata announces or not, under each of the five codecs, the reader returns exactly the
      repetition levels, definition levels and values the chunk denotes. *)
  Theorem chunk_decode_accepts_thm : forall has_off pages reps defs vals,
    ChunkDenotes GzipDenotes ZstdDenotes col pages (reps, defs, vals) ->
    dict_pages_ok pages ->
    (has_off = true -> exists dp rest, pages = dp :: rest /\ h_type (fst dp) = E_CARQUET_PAGE_DICTIONARY) ->
    (forall dp rest, pages = dp :: rest -> h_type (fst dp) = E_CARQUET_PAGE_DICTIONARY -> dictionary_capable (c_type col)) ->
    decode_chunk gz_d zs_d col has_off (Z.of_nat (length defs)) pages = Ok (reps, defs, vals).
  Proof.
    intros has_off pages reps defs vals HC Hok Hoff Hdc. unfold decode_chunk.
    destruct (Z.leb_spec (Z.of_nat (length defs)) 0) as [L0|G0].
    { (* an empty chunk: no page is loaded *)
      assert (defs = []) by (destruct defs; [reflexivity|cbn [length] in L0; lia]). subst defs.
      assert (HL : length reps = 0%nat /\ (length vals <= 0)%nat).
      { destruct HC as [HD|(dp & rest & dbody & entries & -> & _ & _ & HD)];
          destruct (data_pages_lengths _ _ _ _ _ HD) as [I1 I2]; cbn [length] in *; lia. }
      destruct HL as [L1 L2]. destruct reps; [|cbn in L1; lia]. destruct vals; [|cbn in L2; lia]. reflexivity. }
    destruct HC as [HD|(dp & rest & dbody & entries & -> & HS & (Hty & Hnv & Hpl) & HD)].
    - (* no dictionary page *)
      destruct pages as [|p tl].
      { inversion HD; subst. cbn [length] in G0. lia. }
      destruct has_off.
      + destruct (Hoff eq_refl) as (dp & rest & E & Hty). injection E as <- <-.
        inversion HD as [|? ? body r d v r' d' v' HSp HPp HT]; subst.
        destruct HPp as (Ht & _). rewrite Ht in Hty. discriminate.
      + inversion HD as [|? ? body r d v r' d' v' HSp HPp HT]; subst.
        destruct HPp as (Ht & HPrest). rewrite Ht.
        change (E_CARQUET_PAGE_DATA =? Foreign_page_dictionary)%Z with false.
        apply (decode_data_pages_accepts None (p :: tl)); [exact HD|exact Hok].
    - (* dictionary page first: announced by the metadata or not, it is loaded as the dictionary *)
      inversion Hok as [|? ? _ Hokr]; subst.
      assert (HLD : load_dictionary gz_d zs_d col dp = Ok (model_dict entries)).
      { unfold load_dictionary. rewrite Hty. change (E_CARQUET_PAGE_DICTIONARY =? E_CARQUET_PAGE_DICTIONARY)%Z with true.
        cbn [negb]. rewrite (page_body_accepts dp dbody HS). cbn [bind].
        rewrite <- (Z2Nat.id (h_num_values (fst dp)) Hnv).
        apply read_dictionary_page_accepts; [exact (Hdc dp rest eq_refl Hty)|exact Hpl]. }
      assert (HDP : decode_data_pages gz_d zs_d col (Some (model_dict entries)) (Z.of_nat (length defs)) rest = Ok (reps, defs, vals)).
      { exact (decode_data_pages_accepts (Some entries) rest reps defs vals HD Hokr). }
      destruct has_off.
      + rewrite HLD. cbn [bind]. exact HDP.
      + rewrite Hty. change (E_CARQUET_PAGE_DICTIONARY =? Foreign_page_dictionary)%Z with true.
        rewrite HLD. cbn [bind]. exact HDP.
  Qed.
End ChunkAccepts.

(* ================================================================== the theorems without the PLAIN premise *)

Theorem page_decode_accepts_full_thm : forall col dict hdr body reps defs vals,
  c_maxrep col < 2 ^ 32 -> c_maxdef col < 2 ^ 32 -> DeltaBits.bytes body -> len body < 2 ^ 60 ->
  (is_dict_encoding (h_encoding hdr) = true -> dictionary_capable (c_type col)) ->
  PageDenotes col dict hdr body (reps, defs, vals) ->
  decode_page col (option_map model_dict dict) hdr body = Ok (reps, defs, vals).
Proof.
  intros col. apply (page_decode_accepts_thm col). intros n bs vals. apply plain_accepts_all_thm.
Qed.

Theorem chunk_decode_accepts_full_thm :
  forall (gz_d zs_d : list N -> N -> res (list N)) (GzipDenotes ZstdDenotes : list N -> list N -> Prop),
  (forall stored body cap, GzipDenotes stored body -> nlen body <= cap -> gz_d stored cap = Ok body) ->
  (forall stored body cap, ZstdDenotes stored body -> nlen body <= cap -> zs_d stored cap = Ok body) ->
  forall col, c_maxrep col < 2 ^ 32 -> c_maxdef col < 2 ^ 32 ->
  forall has_off pages reps defs vals,
  ChunkDenotes GzipDenotes ZstdDenotes col pages (reps, defs, vals) ->
  dict_pages_ok col pages ->
  (has_off = true -> exists dp rest, pages = dp :: rest /\ h_type (fst dp) = E_CARQUET_PAGE_DICTIONARY) ->
  (forall dp rest, pages = dp :: rest -> h_type (fst dp) = E_CARQUET_PAGE_DICTIONARY -> dictionary_capable (c_type col)) ->
  decode_chunk gz_d zs_d col has_off (Z.of_nat (length defs)) pages = Ok (reps, defs, vals).
Proof.
  intros gz_d zs_d GD ZD Hg Hz col. apply (chunk_decode_accepts_thm gz_d zs_d GD ZD Hg Hz col).
  intros n bs vals. apply plain_accepts_all_thm.
Qed.

(** no external code at all: chunks stored UNCOMPRESSED, SNAPPY or LZ4_RAW (carquet's own decompressors, C10) *)
Definition NoExternal (stored body : list N) : Prop := False.
Definition no_external_d (stored : list N) (cap : N) : res (list N) := Err E_DECOMPRESSION.

Theorem chunk_decode_accepts_builtin_thm : forall col, c_maxrep col < 2 ^ 32 -> c_maxdef col < 2 ^ 32 ->
  forall has_off pages reps defs vals,
  ChunkDenotes NoExternal NoExternal col pages (reps, defs, vals) ->
  dict_pages_ok col pages ->
  (has_off = true -> exists dp rest, pages = dp :: rest /\ h_type (fst dp) = E_CARQUET_PAGE_DICTIONARY) ->
  (forall dp rest, pages = dp :: rest -> h_type (fst dp) = E_CARQUET_PAGE_DICTIONARY -> dictionary_capable (c_type col)) ->
  decode_chunk no_external_d no_external_d col has_off (Z.of_nat (length defs)) pages = Ok (reps, defs, vals).
Proof.
  apply (chunk_decode_accepts_full_thm no_external_d no_external_d NoExternal NoExternal);
    intros stored body cap H; destruct H.
Qed.

(* ------------------------------------------------------------------ the hypotheses are satisfiable *)

(** an OPTIONAL INT32 column: four entries [7, NULL, 8, 9]; definition levels as one bit-packed group *)
Example page_denotes_example :
  let col := mkcol E_CARQUET_PHYSICAL_INT32 0 1 0 E_CARQUET_COMPRESSION_UNCOMPRESSED in
  let hdr := mkhdr E_CARQUET_PAGE_DATA 18 4 E_CARQUET_ENCODING_PLAIN E_CARQUET_ENCODING_RLE E_CARQUET_ENCODING_RLE in
  let body := [2;0;0;0; 3;13; 7;0;0;0; 8;0;0;0; 9;0;0;0] in
  PageDenotes col None hdr body ([0;0;0;0], [1;0;1;1], [[7;0;0;0]; [8;0;0;0]; [9;0;0;0]]) /\
  decode_page col None hdr body = Ok ([0;0;0;0], [1;0;1;1], [[7;0;0;0]; [8;0;0;0]; [9;0;0;0]]).
Proof.
  cbv zeta. split; [|vm_compute; reflexivity].
  unfold PageDenotes. cbn [h_type h_num_values h_rep_enc h_def_enc h_encoding c_maxrep c_maxdef c_type c_tlen].
  repeat split; try lia; try (right; reflexivity); try (left; reflexivity).
  exists [2;0;0;0; 3;13; 7;0;0;0; 8;0;0;0; 9;0;0;0], [7;0;0;0; 8;0;0;0; 9;0;0;0]. split; [|split].
  - cbn. split; reflexivity.
  - unfold LevelBlock. cbn [N.eqb]. exists [3;13], [1;0;1;1;0;0;0;0].
    split; [reflexivity|]. split; [reflexivity|]. split; [|split; [cbn; lia|reflexivity]].
    exists [RLit [1;0;1;1;0;0;0;0]]. split; [|split; reflexivity].
    constructor; [|constructor]. cbn [wf_run]. split; [reflexivity|]. split; [|reflexivity].
    repeat constructor.
  - left. split; [reflexivity|vm_compute; reflexivity].
Qed.

(** a dictionary-encoded REQUIRED INT32 chunk of two pages whose metadata does not announce the dictionary page *)
Example chunk_example :
  let col := mkcol E_CARQUET_PHYSICAL_INT32 0 0 0 E_CARQUET_COMPRESSION_UNCOMPRESSED in
  let dp := (mkhdr E_CARQUET_PAGE_DICTIONARY 8 2 E_CARQUET_ENCODING_PLAIN 0 0, [5;0;0;0; 6;0;0;0]) in
  let p1 := (mkhdr E_CARQUET_PAGE_DATA 3 3 E_CARQUET_ENCODING_RLE_DICTIONARY 0 0, [1; 6; 1]) in       (* RLE run: 3 x index 1 *)
  let p2 := (mkhdr E_CARQUET_PAGE_DATA 3 2 E_CARQUET_ENCODING_PLAIN_DICTIONARY 0 0, [1; 3; 2]) in     (* bit-packed group 0,1,0.. *)
  decode_chunk no_external_d no_external_d col false 5 [dp; p1; p2]
  = Ok ([0;0;0;0;0], [0;0;0;0;0], [[6;0;0;0]; [6;0;0;0]; [6;0;0;0]; [5;0;0;0]; [6;0;0;0]]) /\
  decode_chunk no_external_d no_external_d col true 5 [dp; p1; p2]
  = decode_chunk no_external_d no_external_d col false 5 [dp; p1; p2].
Proof. cbv zeta. split; vm_compute; reflexivity. Qed.

(* ================================================================== codec id 5 holding what the format defines for it *)

(** Compression.md defines codec 5 (LZ4) as the Hadoop frame: 4 bytes uncompressed size (big endian), 4 bytes compressed
    size, then the block.  carquet sends id 5 to its bare-block decoder (lz4_id5_read_as_bare_block).  For every frame
    of a page below 256 MiB the first byte (uncompressed size / 2^24) is below 16: as an LZ4 token it announces no
    literals and a match - into an output that is still empty.  The decoder refuses it: such a page is rejected, it is
    never decoded to wrong values. *)
Theorem lz4_hadoop_frame_rejected_thm : forall tok a b rest cap,
  tok < 16 -> exists e, Lz4Model.decompress (tok :: a :: b :: rest) cap = Err e.
Proof.
  intros tok a b rest cap Ht. unfold Lz4Model.decompress. cbn [length lz_loop].
  unfold lz_step.
  assert (E0 : tok / 16 = 0) by (apply N.div_small; exact Ht). rewrite E0.
  cbn [N.eqb bind fst snd N.ltb N.compare]. 
  change (nlen (a :: b :: rest) <? 2) with (N.of_nat (S (S (length rest))) <? 2).
  destruct (N.ltb_spec (N.of_nat (S (S (length rest)))) 2) as [L|_]; [lia|].
  destruct (rd_le 2 (a :: b :: rest)) as [offset|e|f] eqn:Er; cbn [bind].
  - destruct (offset =? 0) eqn:Ez; cbn [orb]; [eexists; reflexivity|].
    assert (En : (nlen (@nil N) <? offset) = true).
    { apply N.ltb_lt. apply N.eqb_neq in Ez. unfold nlen. cbn [length N.of_nat]. lia. }
    rewrite En. eexists. reflexivity.
  - eexists. reflexivity.
  - exfalso. cbn in Er. discriminate.
Qed.
