(** Bit-level facts about N shared by the models: bounds of bitwise operators, testbit beyond a
    bound, disjoint sums. *)
From Coq Require Import NArith List Bool Lia.
Local Open Scope N_scope.

Lemma testbit_high_lt a n m : a < 2^n -> n <= m -> N.testbit a m = false.
Proof.
  intros Ha Hm. rewrite <- (N.mod_small a (2^n)) by exact Ha.
  apply N.mod_pow2_bits_high. exact Hm.
Qed.

Lemma lt_pow2_of_bits a n : (forall m, n <= m -> N.testbit a m = false) -> a < 2^n.
Proof.
  intros H. assert (E : a mod 2^n = a).
  { apply N.bits_inj_iff; intro m. destruct (N.lt_ge_cases m n) as [L|G].
    - apply N.mod_pow2_bits_low; exact L.
    - rewrite N.mod_pow2_bits_high by exact G. symmetry; apply H; exact G. }
  rewrite <- E. apply N.mod_lt. apply N.pow_nonzero. discriminate.
Qed.

Lemma lxor_lt_pow2 a b n : a < 2^n -> b < 2^n -> N.lxor a b < 2^n.
Proof.
  intros Ha Hb. apply lt_pow2_of_bits; intros m Hm.
  rewrite N.lxor_spec, (testbit_high_lt a n m Ha Hm), (testbit_high_lt b n m Hb Hm). reflexivity.
Qed.

Lemma lor_lt_pow2 a b n : a < 2^n -> b < 2^n -> N.lor a b < 2^n.
Proof.
  intros Ha Hb. apply lt_pow2_of_bits; intros m Hm.
  rewrite N.lor_spec, (testbit_high_lt a n m Ha Hm), (testbit_high_lt b n m Hb Hm). reflexivity.
Qed.

Lemma land_lt_pow2_r a b n : b < 2^n -> N.land a b < 2^n.
Proof.
  intros Hb. apply lt_pow2_of_bits; intros m Hm.
  rewrite N.land_spec, (testbit_high_lt b n m Hb Hm). apply andb_false_r.
Qed.

Lemma shiftr_lt_pow2 a n k : a < 2^(n+k) -> N.shiftr a k < 2^n.
Proof.
  intros Ha. apply lt_pow2_of_bits; intros m Hm.
  rewrite N.shiftr_spec by apply N.le_0_l. apply (testbit_high_lt a (n+k)); [exact Ha|lia].
Qed.

Lemma shiftr_small a n : a < 2^n -> N.shiftr a n = 0.
Proof.
  intros Ha. apply N.bits_inj_iff; intro m. rewrite N.shiftr_spec by apply N.le_0_l.
  rewrite N.bits_0. apply (testbit_high_lt a n); [exact Ha|lia].
Qed.

Lemma land_ones_small a n : a < 2^n -> N.land a (N.ones n) = a.
Proof. intros Ha. rewrite N.land_ones. apply N.mod_small; exact Ha. Qed.

(** x + 2^k * w is a bitwise disjoint union when x < 2^k *)
Lemma add_shift_lxor x w k : x < 2^k -> x + 2^k * w = N.lxor x (2^k * w).
Proof.
  intros Hx. apply N.add_nocarry_lxor. apply N.bits_inj_iff; intro m.
  rewrite N.land_spec, N.bits_0. destruct (N.lt_ge_cases m k) as [L|G].
  - rewrite N.mul_comm, N.mul_pow2_bits_low by exact L. apply andb_false_r.
  - rewrite (testbit_high_lt x k m Hx G). reflexivity.
Qed.

Lemma lxor_cancel_l a b : N.lxor a (N.lxor a b) = b.
Proof. rewrite <- N.lxor_assoc, N.lxor_nilpotent, N.lxor_0_l. reflexivity. Qed.

Lemma lxor_cancel_r a b : N.lxor (N.lxor a b) b = a.
Proof. rewrite N.lxor_assoc, N.lxor_nilpotent, N.lxor_0_r. reflexivity. Qed.

Lemma lxor_inj_r a b c : N.lxor a c = N.lxor b c -> a = b.
Proof.
  intros H. rewrite <- (lxor_cancel_r a c), H. apply lxor_cancel_r.
Qed.

(** or-ing a value shifted above the bits of [acc] is an addition *)
Lemma lor_shift_add acc d k : acc < 2^k -> N.lor acc (d * 2^k) = acc + 2^k * d.
Proof.
  intros Hacc. rewrite add_shift_lxor by exact Hacc. rewrite (N.mul_comm d).
  symmetry. apply N.lxor_lor. apply N.bits_inj_iff; intro m. rewrite N.land_spec, N.bits_0.
  destruct (N.lt_ge_cases m k) as [L|G].
  - rewrite N.mul_comm, N.mul_pow2_bits_low by exact L. apply andb_false_r.
  - rewrite (testbit_high_lt acc _ m Hacc G). reflexivity.
Qed.
