(** Semantics library of the C -> Gallina translator for leaf functions (tools/gen.d/c2coq.py).

    The translator turns a pure C leaf function into a Gallina definition [c_<function>] in
    Gen/CLeaf_gen.v.  Every C integer value is a [Z]; every C operation is translated according to the
    C TYPE clang's typed AST gives it, with the operators below.  Target: x86-64, LP64, little-endian,
    gcc/clang (arithmetic right shift of negative values, two's complement conversions).

      type (signed?, W)     unsigned: values in [0, 2^W)          signed: values in [-2^(W-1), 2^(W-1))
      + - * at unsigned     [wrapu W (a + b)] ...                 (C: reduced modulo 2^W)
      + - * at signed       [wraps W (a + b)] ...                 (C: overflow is undefined; the translator only
                                                                   needs a total function and does not claim more)
      / %                   [cdiv] / [crem]: truncation toward zero, wrapped to the type; division by 0 yields 0
                            (C: undefined - such executions are outside the model)
      << >>                 [cshl_u W] / [cshl_s W] / [cshr W] at the promoted type of the LEFT operand;
                            a shift amount outside [0, W) yields 0 (C: undefined - outside the model; the Tie
                            lemmas carry the range hypotheses that exclude it)
      & | ^                 [Z.land] / [Z.lor] / [Z.lxor] (two's complement on Z; closed on both value ranges)
      ~                     [cnot_u W] (= 2^W - 1 - a) / [Z.lnot]
      conversion to (s?,W)  [wrapu W] / [wraps W], omitted by the translator when the source range is contained
                            in the target range; conversion to _Bool is [b2z (ctrue a)]
      comparisons, ! && ||  Coq [bool]s ([Z.ltb] ...), turned into 0/1 with [b2z] where C uses the int value
      p[i] (read)           [rd p i] = [nth (Z.to_nat i) p 0]     (out-of-range reads are NOT modelled here:
                                                                   bounds are property C08's business)
      p[i] = v              [upd p i v]                           (functional update; out of range: unchanged)
      memcpy(&v, p, k) / memcpy(p, &v, k) with v a k-byte unsigned integer: [le_load k p] / [le_store k p v]
                            (little-endian target)
      __builtin_clz/clzll/ctz/popcount...                         [clz W] / [ctz W] / [popcount]
    No proofs about the models here; facts used by the Tie lemmas are in Tie/TieLib.v. *)
From Coq Require Import ZArith List Bool.
Import ListNotations.
Local Open Scope Z_scope.

(** conversion to an unsigned / signed type of [w] bits *)
Definition wrapu (w x : Z) : Z := x mod 2 ^ w.
Definition wraps (w x : Z) : Z :=
  let y := x mod 2 ^ w in if y <? 2 ^ (w - 1) then y else y - 2 ^ w.

(** truth value of a C scalar, and the int value of a C comparison *)
Definition ctrue (x : Z) : bool := negb (x =? 0).
Definition b2z (b : bool) : Z := if b then 1 else 0.

(** shifts at a type of [w] bits *)
Definition shamt_ok (w b : Z) : bool := (0 <=? b) && (b <? w).
Definition cshl_u (w a b : Z) : Z := if shamt_ok w b then wrapu w (Z.shiftl a b) else 0.
Definition cshl_s (w a b : Z) : Z := if shamt_ok w b then wraps w (Z.shiftl a b) else 0.
Definition cshr (w a b : Z) : Z := if shamt_ok w b then Z.shiftr a b else 0.

(** ~a at an unsigned type of [w] bits *)
Definition cnot_u (w a : Z) : Z := 2 ^ w - 1 - a.

(** division and remainder (truncation toward zero); the caller wraps the quotient to the type *)
Definition cdiv (a b : Z) : Z := if b =? 0 then 0 else Z.quot a b.
Definition crem (a b : Z) : Z := if b =? 0 then 0 else Z.rem a b.

(** arrays *)
Definition rd (p : list Z) (i : Z) : Z := nth (Z.to_nat i) p 0.
Fixpoint upd_nat (p : list Z) (i : nat) (v : Z) : list Z :=
  match p with
  | [] => []
  | x :: t => match i with O => v :: t | S j => x :: upd_nat t j v end
  end.
Definition upd (p : list Z) (i v : Z) : list Z := if i <? 0 then p else upd_nat p (Z.to_nat i) v.

(** little-endian load / store of a [k]-byte unsigned integer at offset [o] of a byte array (memcpy on x86) *)
Fixpoint le_load_nat (k : nat) (p : list Z) (o : nat) : Z :=
  match k with O => 0 | S k' => nth o p 0 + 256 * le_load_nat k' p (S o) end.
Definition le_load (k : nat) (p : list Z) (o : Z) : Z := le_load_nat k p (Z.to_nat o).
Fixpoint le_store_nat (k : nat) (p : list Z) (o : nat) (v : Z) : list Z :=
  match k with O => p | S k' => le_store_nat k' (upd_nat p o (v mod 256)) (S o) (v / 256) end.
Definition le_store (k : nat) (p : list Z) (o v : Z) : list Z := le_store_nat k p (Z.to_nat o) v.

(** compiler intrinsics; the argument is a value of the unsigned type of [w] bits.
    __builtin_clz(0) and __builtin_ctz(0) are undefined in C: [clz w 0 = w], [ctz w 0 = w] here. *)
Definition clz (w x : Z) : Z := if x <=? 0 then w else w - 1 - Z.log2 x.
Fixpoint ctz_pos (p : positive) : Z :=
  match p with xO q => 1 + ctz_pos q | _ => 0 end.
Definition ctz (w x : Z) : Z := match x with Zpos p => ctz_pos p | _ => w end.
Fixpoint popcount_pos (p : positive) : Z :=
  match p with xH => 1 | xO q => popcount_pos q | xI q => 1 + popcount_pos q end.
Definition popcount (x : Z) : Z := match x with Zpos p => popcount_pos p | _ => 0 end.

(** The result of a translated function whose data-dependent loop needed more iterations than the "unroll" bound
    its target gives: a value outside every C integer type, so that no Tie lemma (whose right-hand side is a value
    of the C result type) can hold on an argument that exhausts the bound. *)
Definition loop_exhausted : Z := 2 ^ 200.
