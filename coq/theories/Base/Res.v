(** Results of modelled C functions (DESIGN section 4).
    [Err] is a behaviour the C code chooses (a status code / NULL / -1);
    [Fault] is a behaviour the safety properties forbid (memory access outside a buffer, unbounded
    recursion, exhausted fuel = non-termination within the stated bound). *)
From Coq Require Import NArith List.

Inductive fault : Type :=
  | OobRead | OobWrite | NullDeref | DepthExceeded | ShiftTooWide | DoubleFree | Leak | OutOfFuel.

Inductive res (A : Type) : Type :=
  | Ok (a : A)
  | Err (c : N)
  | Fault (f : fault).
Arguments Ok {A} a.
Arguments Err {A} c.
Arguments Fault {A} f.

Definition bind {A B} (r : res A) (k : A -> res B) : res B :=
  match r with Ok a => k a | Err c => Err c | Fault f => Fault f end.

Notation "'do' x <- r ;; k" := (bind r (fun x => k)) (at level 200, x pattern, r at level 100, k at level 200).

Definition is_fault {A} (r : res A) : bool := match r with Fault _ => true | _ => false end.
Definition is_ok {A} (r : res A) : bool := match r with Ok _ => true | _ => false end.

(** checked read of byte [i] of buffer [buf] *)
Definition rd (buf : list N) (i : nat) : res N :=
  match nth_error buf i with Some b => Ok b | None => Fault OobRead end.

Lemma bind_ok {A B} (r : res A) (k : A -> res B) b :
  bind r k = Ok b -> exists a, r = Ok a /\ k a = Ok b.
Proof. destruct r as [a|c|f]; cbn; intros H; try discriminate. exists a. split; [reflexivity|exact H]. Qed.
