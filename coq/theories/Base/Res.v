(** Shared result type of the models (DESIGN.md section 4).

    [Ok a]     the C function returns normally with value [a];
    [Err c]    a behaviour the C code chooses: it reports status code [c] (a [carquet_status_t] value,
               see Gen/Enums_gen.v: E_CARQUET_ERROR_... : Z);
    [Fault f]  a behaviour the safety properties forbid (the C code would read/write outside an
               object, recurse without bound, ...).  Models never hide one behind a default value. *)
From Coq Require Import ZArith.

Inductive fault : Set :=
| OobRead | OobWrite | NullDeref | DepthExceeded | ShiftTooWide | DoubleFree | Leak | OutOfFuel.

Inductive res (A : Type) : Type :=
| Ok (a : A)
| Err (c : Z)
| Fault (f : fault).
Arguments Ok {A} a.
Arguments Err {A} c.
Arguments Fault {A} f.

Definition bind {A B} (r : res A) (k : A -> res B) : res B :=
  match r with Ok a => k a | Err c => Err c | Fault f => Fault f end.

Definition rmap {A B} (f : A -> B) (r : res A) : res B :=
  match r with Ok a => Ok (f a) | Err c => Err c | Fault f => Fault f end.

Definition is_ok {A} (r : res A) : bool := match r with Ok _ => true | _ => false end.
Definition is_fault {A} (r : res A) : bool := match r with Fault _ => true | _ => false end.

Declare Scope res_scope.
Delimit Scope res_scope with res.
Notation "'let*' x ':=' r 'in' k" := (bind r (fun x => k))
  (at level 200, x pattern, r at level 100, k at level 200, right associativity) : res_scope.

Lemma bind_ok {A B} (a : A) (k : A -> res B) : bind (Ok a) k = k a.
Proof. reflexivity. Qed.

Lemma bind_ok_inv {A B} (r : res A) (k : A -> res B) b :
  bind r k = Ok b -> exists a, r = Ok a /\ k a = Ok b.
Proof. destruct r; simpl; intros H; try discriminate. eauto. Qed.
