(** Model of the page decoding half of src/reader/page_reader.c that closes the write/read loop (C01):

      carquet_rle_decode_levels (src/encoding/rle.c)   [decode_levels]   the inline hybrid decoder used for levels
      decode_levels_rle                                 [decode_levels_rle]
      carquet_decode_plain (src/encoding/plain.c)       [decode_plain]    dispatch on the physical type
      carquet_read_data_page_v1                         [read_data_page_v1] for flat columns (max_rep_level = 0) and
                                                                          PLAIN pages: 4-byte length prefix, levels,
                                                                          dense values
    and the assembly of (levels, dense values) into rows that the driver / any caller performs ([rows_of_page]).

    Every read is bounds-checked as in the C code; a level slot the C code would hand out without having
    written it (stream shorter than num_values) is [Fault OobRead].  Dictionary pages and data page v2 are
    outside this model (the writer produces neither). *)
From Coq Require Import NArith ZArith List Bool.
From Carquet Require Import Base.Res Gen.Enums_gen Enc.BitpackModel Enc.DeltaBits Enc.PlainModel Enc.RleModel
     Writer.TableSpec.
Import ListNotations.
Local Open Scope N_scope.

Definition ERR_DECODE : Z := E_CARQUET_ERROR_DECODE.

(** bit_width_for_max (page_reader.c) *)
Fixpoint bit_width_fuel (fuel : nat) (v : N) : nat :=
  match fuel with
  | O => O
  | S f => if v =? 0 then O else S (bit_width_fuel f (N.shiftr v 1))
  end.
Definition bit_width_for_max (max_val : N) : nat := bit_width_fuel 32 max_val.

(** the inline varint reader of carquet_rle_decode_levels:
      while (pos < input_size && shift < 32) { byte = input[pos++]; header |= (byte & 0x7F) << shift;
                                               if (!(byte & 0x80)) break; shift += 7; }
    (running out of input or of the five rounds just ends the loop) *)
Fixpoint read_hdr (fuel : nat) (shift acc : N) (bs : list N) : N * list N :=
  match fuel with
  | O => (acc, bs)
  | S f => match bs with
           | [] => (acc, bs)
           | b :: tl =>
             let acc' := N.lor acc (u32 (N.shiftl (N.land b 0x7F) shift)) in
             if N.land b 0x80 =? 0 then (acc', tl) else read_hdr f (shift + 7) acc' tl
           end
  end.

(** the group loop of a bit-packed run: for (g = 0; g < num_groups && count < max_values; g++) *)
Fixpoint lit_groups (w : nat) (groups : nat) (bs : list N) (want : nat) : res (list N * list N) :=
  match groups with
  | O => Ok ([], bs)
  | S g =>
    if Nat.eqb want 0 then Ok ([], bs)
    else if Nat.ltb (length bs) w then Ok ([], bs)                       (* pos + bytes_per_group > input_size: break *)
    else match unpack8 w bs with
         | Ok vs =>
           let got := firstn (Nat.min 8 want) vs in
           match lit_groups w g (skipn w bs) (want - length got) with
           | Ok (more, rest) => Ok (got ++ more, rest)
           | Err c => Err c
           | Fault f => Fault f
           end
         | Err c => Err c
         | Fault f => Fault f
         end
  end.

(** the outer loop: while (count < max_values && pos < input_size); every round consumes at least one byte *)
Fixpoint decode_levels_go (fuel : nat) (w : nat) (bs : list N) (want : nat) : res (list N) :=
  if Nat.eqb want 0 then Ok [] else
  match bs with
  | [] => Ok []
  | _ =>
    match fuel with
    | O => Fault OutOfFuel
    | S f =>
      let '(header, tl) := read_hdr 5 0 0 bs in
      if N.land header 1 =? 0 then
        let n := N.to_nat (N.shiftr header 1) in
        if Nat.ltb (length tl) (vbytes w) then Ok []                     (* break *)
        else
          let v := N.land (le_val (firstn (vbytes w) tl)) (value_mask w) in
          let rest := skipn (vbytes w) tl in
          let k := Nat.min n want in
          match decode_levels_go f w rest (want - k) with
          | Ok more => Ok (repeat v k ++ more)
          | Err c => Err c
          | Fault x => Fault x
          end
      else
        let groups := N.to_nat (N.shiftr header 1) in
        match lit_groups w groups tl want with
        | Ok (got, rest) =>
          match decode_levels_go f w rest (want - length got) with
          | Ok more => Ok (got ++ more)
          | Err c => Err c
          | Fault x => Fault x
          end
        | Err c => Err c
        | Fault x => Fault x
        end
    end
  end.

(** carquet_rle_decode_levels(input, input_size, bit_width, output, max_values): the levels written *)
Definition decode_levels (w : nat) (input : list N) (max_values : nat) : res (list N) :=
  decode_levels_go (S (length input)) w input max_values.

(** decode_levels_rle + the caller's use of the buffer: the [num_values] slots handed on *)
Definition decode_levels_rle (w : nat) (data : list N) (num_values : nat) : res (list N) :=
  if Nat.eqb w 0 then Ok (repeat 0 num_values)
  else match decode_levels w data num_values with
       | Ok lv => if Nat.ltb (length lv) num_values then Fault OobRead    (* slots never written are read *)
                  else Ok lv
       | Err c => Err c
       | Fault f => Fault f
       end.

Fixpoint chunk (k : nat) (n : nat) (bs : list N) : list (list N) :=
  match n with O => [] | S n' => firstn k bs :: chunk k n' (skipn k bs) end.

(** carquet_decode_plain: the [count] values as byte images *)
Definition decode_plain (t : ptype) (tlen : N) (input : list N) (count : N) : res (list value) :=
  let fixed := fun (k : nat) (r : res (list N * N)) =>
    match r with
    | Ok (vs, _) => Ok (map (le_bytes_f k) vs)
    | Err _ => Err ERR_DECODE
    | Fault f => Fault f
    end in
  match t with
  | TBool => fixed 1%nat (plain_decode_boolean input count)
  | TInt32 => fixed 4%nat (plain_decode_int32 input count)
  | TInt64 => fixed 8%nat (plain_decode_int64 input count)
  | TFloat => fixed 4%nat (plain_decode_float input count)
  | TDouble => fixed 8%nat (plain_decode_double input count)
  | TByteArray => match plain_decode_byte_array input count with
                  | Ok (vs, _) => Ok vs
                  | Err _ => Err ERR_DECODE
                  | Fault f => Fault f
                  end
  | TFlba => match plain_decode_flba input count tlen with
             | Ok (raw, _) => Ok (chunk (N.to_nat tlen) (N.to_nat count) raw)
             | Err _ => Err ERR_DECODE
             | Fault f => Fault f
             end
  end.

Definition le32_val (bs : list N) : N := le_num_f (firstn 4 bs).

(** the length-prefixed level block at the start of [page]: (levels, what follows the block) *)
Definition read_level_block (w : nat) (page : list N) (n : nat) : res (list N * list N) :=
  if len page <? 4 then Err ERR_DECODE
  else let def_size := le32_val page in
       let rest := skipn 4 page in
       if len rest <? def_size then Err ERR_DECODE
       else match decode_levels_rle w (firstn (N.to_nat def_size) rest) n with
            | Ok lv => Ok (lv, skipn (N.to_nat def_size) rest)
            | Err c => Err c
            | Fault f => Fault f
            end.

(** carquet_read_data_page_v1 on the uncompressed page, for a flat column: (definition levels, dense values) *)
Definition read_data_page_v1 (c : column) (page : list N) (num_values : N) : res (list N * list value) :=
  let md := max_def c in
  let n := N.to_nat num_values in
  match (if 0 <? md then read_level_block (bit_width_for_max md) page n else Ok (repeat md n, page)) with
  | Ok (defs, ptr) =>
    let non_null := if 0 <? md then count_eq md (firstn n defs) else n in
    match decode_plain (c_type c) (c_tlen c) ptr (N.of_nat non_null) with
    | Ok vals => Ok (firstn n defs, vals)
    | Err e => Err e
    | Fault f => Fault f
    end
  | Err e => Err e
  | Fault f => Fault f
  end.

(** what a caller sees: one row per level, the next dense value where the level is the maximum *)
Definition rows_of_page (c : column) (defs : list N) (vals : list value) : list row :=
  match c_rep c with
  | Optional => assemble 1 defs vals
  | Required => map Some vals
  end.
