(** Model of the decision the three open paths make before (and around) the Thrift parse of the footer.

    Mirrors, statement by statement,
      - src/reader/file_reader.c  read_footer        (path + stdio,   [Fread])
      - src/reader/file_reader.c  read_footer_mmap   (path + mmap,    [Mmap])
      - src/reader/mmap_reader.c  carquet_reader_open_buffer          ([Buffer])

    Which checks a path makes is *data regenerated from the sources* (Gen/Robust_gen.v, written by
    tools/gen.d/robust.py on every run): dropping a check in the C code flips a flag here, the path then
    proceeds to the read the check was guarding, and that read is a checked read of the model
    ([StFault] when it leaves the file).  The positive theorems (Reader/FooterProofs.v) go through only
    for the flag values of a safe reader.

    The Thrift parse of the footer region together with build_schema is abstracted as a section variable
    [parse : list N -> res meta] with NO assumption in this file. *)
From Coq Require Import NArith ZArith List Bool Arith.
From Carquet Require Import Base.Res Gen.Enums_gen Gen.Robust_gen.
Import ListNotations.

Inductive io_mode : Set := Fread | Mmap | Buffer.

(** "PAR1" *)
Definition magic : list N := [80; 65; 82; 49]%N.

(** little-endian value of a byte list (carquet_read_u32_le on 4 bytes) *)
Fixpoint le_val (bs : list N) : N :=
  match bs with
  | [] => 0%N
  | b :: t => (b + 256 * le_val t)%N
  end.

Fixpoint bytes_eqb (a b : list N) : bool :=
  match a, b with
  | [], [] => true
  | x :: a', y :: b' => N.eqb x y && bytes_eqb a' b'
  | _, _ => false
  end.

(** Checked reads: [None] when the range leaves the file. *)
Definition head4 (f : list N) : option (list N) :=
  if 4 <=? length f then Some (firstn 4 f) else None.
Definition tail4 (f : list N) : option (list N) :=
  if 4 <=? length f then Some (skipn (length f - 4) f) else None.
Definition len_field (f : list N) : option N :=
  if 8 <=? length f then Some (le_val (firstn 4 (skipn (length f - 8) f))) else None.

(** The checks each path makes (regenerated). *)
Definition rejects_empty (m : io_mode) : bool :=
  match m with Buffer => Open_buffer_rejects_empty | _ => false end.
Definition checks_size (m : io_mode) : bool :=
  match m with Fread => Open_fread_checks_size | Mmap => Open_mmap_checks_size | Buffer => Open_buffer_checks_size end.
Definition min_size (m : io_mode) : nat :=
  N.to_nat match m with Fread => Open_fread_min_size | Mmap => Open_mmap_min_size | Buffer => Open_buffer_min_size end.
Definition checks_lead (m : io_mode) : bool :=
  match m with Fread => Open_fread_checks_lead_magic | Mmap => Open_mmap_checks_lead_magic
             | Buffer => Open_buffer_checks_lead_magic end.
Definition checks_trail (m : io_mode) : bool :=
  match m with Fread => Open_fread_checks_trail_magic | Mmap => Open_mmap_checks_trail_magic
             | Buffer => Open_buffer_checks_trail_magic end.
Definition checks_len (m : io_mode) : bool :=
  match m with Fread => Open_fread_checks_footer_len | Mmap => Open_mmap_checks_footer_len
             | Buffer => Open_buffer_checks_footer_len end.

(** Which check fires - or which region of the file goes to the Thrift parser. *)
Inductive stage : Set :=
| StEmpty                         (* open_buffer: size == 0  -> INVALID_ARGUMENT *)
| StSize                          (* file smaller than magic + length + magic -> INVALID_FOOTER *)
| StLeadMagic                     (* -> INVALID_MAGIC *)
| StTrailMagic                    (* -> INVALID_MAGIC *)
| StFooterLen                     (* declared footer length does not fit -> INVALID_FOOTER *)
| StParse (off len : nat)         (* footer region [off, off+len) handed to parquet_parse_file_metadata *)
| StFault.                        (* the path would read outside the file *)

Definition open_stage (m : io_mode) (f : list N) : stage :=
  let n := length f in
  if rejects_empty m && (n =? 0) then StEmpty else
  if checks_size m && (n <? min_size m) then StSize else
  match (if checks_lead m then head4 f else Some magic) with
  | None => StFault
  | Some h =>
    if negb (bytes_eqb h magic) then StLeadMagic else
    match (if checks_trail m then tail4 f else Some magic) with
    | None => StFault
    | Some t =>
      if negb (bytes_eqb t magic) then StTrailMagic else
      match len_field f with
      | None => StFault
      | Some fl =>
        if (N.of_nat (n - 8) <? fl)%N
        then (if checks_len m then StFooterLen else StFault)   (* unchecked: region starts before the file *)
        else StParse (n - 8 - N.to_nat fl) (N.to_nat fl)
      end
    end
  end.

(** Status code reported for a rejecting stage. *)
Definition stage_code (s : stage) : Z :=
  match s with
  | StEmpty => E_CARQUET_ERROR_INVALID_ARGUMENT
  | StSize | StFooterLen => E_CARQUET_ERROR_INVALID_FOOTER
  | StLeadMagic | StTrailMagic => E_CARQUET_ERROR_INVALID_MAGIC
  | StParse _ _ | StFault => 0%Z
  end.

Definition region (f : list N) (off len : nat) : list N := firstn len (skipn off f).

Section Open.
  Variable meta : Type.
  (** parquet_parse_file_metadata on the footer region followed by build_schema:
      [Ok] the metadata, or [Err] the status code reported. *)
  Variable parse : list N -> res meta.

  Definition open (m : io_mode) (f : list N) : res meta :=
    match open_stage m f with
    | StParse off len => parse (region f off len)
    | StFault => Fault OobRead
    | s => Err (stage_code s)
    end.
End Open.

(** Footer length field and footer region of a file, for statements. *)
Definition footer_len (f : list N) : N := le_val (firstn 4 (skipn (length f - 8) f)).
Definition footer_region (f : list N) : list N :=
  region f (length f - 8 - N.to_nat (footer_len f)) (N.to_nat (footer_len f)).
Definition ends_with_magic (f : list N) : Prop := skipn (length f - 4) f = magic.
Definition starts_with_magic (f : list N) : Prop := firstn 4 f = magic.

Definition proper_prefix {A} (p f : list A) : Prop := exists s, s <> [] /\ f = p ++ s.
