(** Proofs for C02 (column reader part): the model of the repaired column reader delivers, for every
    history and every cut of a chunk into pages, exactly what the position-in-a-list specification says. *)
From Coq Require Import List ZArith Bool Arith Lia ZifyBool ZifyNat ZifyN.
From Carquet Require Import Base.Res Gen.Reader_gen Reader.CursorSpec Reader.CursorModel.
Import ListNotations.
Local Open Scope Z_scope.

Arguments Z.add : simpl never.
Arguments Z.sub : simpl never.
Arguments Z.of_nat : simpl never.
Arguments Z.to_nat : simpl never.
Arguments Nat.sub : simpl never.
Arguments Nat.min : simpl never.
Arguments firstn : simpl nomatch.
Arguments skipn : simpl nomatch.

(* ------------------------------------------------------------------ generic list facts *)

Lemma firstn_firstn_skipn {B} (l : list B) a b :
  firstn a l ++ firstn b (skipn a l) = firstn (a + b) l.
Proof.
  revert l; induction a as [|a IH]; intro l; [reflexivity|].
  destruct l as [|x l]; [rewrite !firstn_nil; destruct b; reflexivity|].
  cbn [Nat.add]. rewrite !firstn_cons, skipn_cons. cbn [app]. f_equal. apply IH.
Qed.

Lemma skipn_skipn' {B} (l : list B) a b : skipn b (skipn a l) = skipn (a + b) l.
Proof.
  revert l; induction a as [|a IH]; intro l; [reflexivity|].
  destruct l as [|x l]; [rewrite !skipn_nil; reflexivity|]. cbn [Nat.add]. rewrite !skipn_cons. apply IH.
Qed.

Lemma firstn_app_l {B} (l1 l2 : list B) n : (n <= length l1)%nat -> firstn n (l1 ++ l2) = firstn n l1.
Proof.
  intro H. rewrite firstn_app. replace (n - length l1)%nat with O by lia. rewrite firstn_O, app_nil_r. reflexivity.
Qed.

Lemma skipn_app_l {B} (l1 l2 : list B) n : (n <= length l1)%nat -> skipn n (l1 ++ l2) = skipn n l1 ++ l2.
Proof.
  intro H. rewrite skipn_app. replace (n - length l1)%nat with O by lia. reflexivity.
Qed.

Lemma skipn_app_r {B} (l1 l2 : list B) n : skipn (length l1 + n) (l1 ++ l2) = skipn n l2.
Proof.
  rewrite skipn_app. rewrite skipn_all2 by lia. replace (length l1 + n - length l1)%nat with n by lia. reflexivity.
Qed.

Lemma repeat_split {B} (g : B) a b : repeat g (a + b) = repeat g a ++ repeat g b.
Proof. apply repeat_app. Qed.

Lemma skipn_repeat {B} (g : B) n k : skipn k (repeat g n) = repeat g (n - k).
Proof.
  revert n; induction k as [|k IH]; intro n; [rewrite Nat.sub_0_r; reflexivity|].
  destruct n as [|n]; [reflexivity|]. cbn [repeat]. rewrite skipn_cons, IH. f_equal.
Qed.

(* ------------------------------------------------------------------ memcpy in / out *)

Lemma write_at_pad {B} (g : B) (done src : list B) m :
  (length src <= m)%nat ->
  write_at (done ++ repeat g m) (length done) src = Ok ((done ++ src) ++ repeat g (m - length src)).
Proof.
  intro H. unfold write_at. rewrite app_length, repeat_length.
  destruct (length done + length src <=? length done + m)%nat eqn:E; [|lia].
  f_equal. rewrite firstn_app_l by lia. rewrite firstn_all. rewrite <- app_assoc. f_equal. f_equal.
  rewrite skipn_app_r. apply skipn_repeat.
Qed.

Lemma copy_out_ok {B} (buf : list B) off cnt :
  (off + cnt <= length buf)%nat -> copy_out buf off cnt = Ok (firstn cnt (skipn off buf)).
Proof. intro H. unfold copy_out. destruct (off + cnt <=? length buf)%nat eqn:E; [reflexivity|lia]. Qed.

(* ------------------------------------------------------------------ levels and packed values *)

Section Levels.
Context {A : Type}.
Variable garbage : A.
Variable max_def : N.

Notation count := (count_present max_def).
Notation rebuild := (rebuild garbage max_def).

Lemma count_app l1 l2 : count (l1 ++ l2) = (count l1 + count l2)%nat.
Proof. induction l1 as [|x l1 IH]; cbn [app count_present]; [reflexivity|]. rewrite IH. lia. Qed.

Lemma count_le l : (count l <= length l)%nat.
Proof. induction l as [|x l IH]; cbn [count_present length]; [lia|]. destruct (N.eqb x max_def); lia. Qed.

Lemma count_firstn_le l n : (count (firstn n l) <= count l)%nat.
Proof.
  rewrite <- (firstn_skipn n l) at 2. rewrite count_app. lia.
Qed.

Lemma count_firstn_add l a b :
  count (firstn (a + b) l) = (count (firstn a l) + count (firstn b (skipn a l)))%nat.
Proof. rewrite <- firstn_firstn_skipn, count_app. reflexivity. Qed.

Lemma rebuild_length l vs : length (rebuild l vs) = length l.
Proof.
  revert vs; induction l as [|x l IH]; intro vs; cbn [CursorModel.rebuild length]; [reflexivity|].
  destruct (N.eqb x max_def); [destruct vs|]; cbn [length]; rewrite IH; reflexivity.
Qed.

(** only the announced number of values is looked at *)
Lemma rebuild_trim l vs : (count l <= length vs)%nat -> rebuild l vs = rebuild l (firstn (count l) vs).
Proof.
  revert vs; induction l as [|x l IH]; intros vs H; cbn [CursorModel.rebuild count_present] in *; [reflexivity|].
  destruct (N.eqb x max_def).
  - destruct vs as [|v vs]; cbn [length] in H; [lia|].
    cbn [Nat.add]. rewrite firstn_cons. f_equal. apply IH. lia.
  - cbn [Nat.add]. f_equal. apply IH. lia.
Qed.

Lemma rebuild_app l1 l2 vs :
  (count l1 <= length vs)%nat ->
  rebuild (l1 ++ l2) vs = rebuild l1 (firstn (count l1) vs) ++ rebuild l2 (skipn (count l1) vs).
Proof.
  revert vs; induction l1 as [|x l1 IH]; intros vs H; cbn [app CursorModel.rebuild count_present] in *.
  - rewrite skipn_O. reflexivity.
  - destruct (N.eqb x max_def).
    + destruct vs as [|v vs]; cbn [length] in H; [lia|].
      cbn [Nat.add]. rewrite firstn_cons, skipn_cons. cbn [app]. f_equal. apply IH. lia.
    + cbn [Nat.add app]. f_equal. apply IH. lia.
Qed.

Lemma somes_rebuild l vs : (count l <= length vs)%nat -> somes (rebuild l vs) = firstn (count l) vs.
Proof.
  revert vs; induction l as [|x l IH]; intros vs H; cbn [CursorModel.rebuild count_present somes] in *; [reflexivity|].
  destruct (N.eqb x max_def).
  - destruct vs as [|v vs]; cbn [length] in H; [lia|].
    cbn [Nat.add somes]. rewrite firstn_cons. f_equal. apply IH. lia.
  - cbn [Nat.add somes]. apply IH. lia.
Qed.

(** a window of the rows is rebuilt from the same window of the levels and the matching window of the values *)
Lemma rebuild_window l vs pos c :
  (count l <= length vs)%nat ->
  firstn c (skipn pos (rebuild l vs)) =
  rebuild (firstn c (skipn pos l))
          (firstn (count (firstn c (skipn pos l))) (skipn (count (firstn pos l)) vs)).
Proof.
  intro H.
  assert (Hp : (count (firstn pos l) <= length vs)%nat) by (pose proof (count_firstn_le l pos); lia).
  rewrite <- (firstn_skipn pos l) at 1.
  rewrite (rebuild_app _ _ _ Hp).
  rewrite skipn_app.
  rewrite skipn_all2 by (rewrite rebuild_length, firstn_length; lia).
  rewrite rebuild_length. cbn [app].
  destruct (Nat.le_gt_cases pos (length l)) as [Hle|Hgt].
  - rewrite firstn_length_le by exact Hle. replace (pos - pos)%nat with O by lia. rewrite skipn_O.
    set (l2 := skipn pos l). set (v2 := skipn (count (firstn pos l)) vs).
    assert (H2 : (count l2 <= length v2)%nat).
    { unfold l2, v2. rewrite skipn_length.
      assert (count l = count (firstn pos l) + count (skipn pos l))%nat
        by (rewrite <- count_app, firstn_skipn; reflexivity). lia. }
    assert (Hc : (count (firstn c l2) <= length v2)%nat) by (pose proof (count_firstn_le l2 c); lia).
    rewrite <- (firstn_skipn c l2) at 1.
    rewrite (rebuild_app _ _ _ Hc).
    destruct (Nat.le_gt_cases c (length l2)) as [Hc2|Hc2].
    + rewrite firstn_app_l by (rewrite rebuild_length, firstn_length; lia).
      rewrite firstn_all2; [reflexivity|]. rewrite rebuild_length, firstn_length. lia.
    + rewrite (skipn_all2 l2) by lia. cbn [CursorModel.rebuild]. rewrite app_nil_r.
      rewrite firstn_all2; [reflexivity|]. rewrite rebuild_length, firstn_length. lia.
  - rewrite (skipn_all2 l) by lia. rewrite firstn_nil. cbn [CursorModel.rebuild].
    rewrite skipn_nil, firstn_nil. reflexivity.
Qed.

End Levels.

(* ------------------------------------------------------------------ a chunk as flat level / value streams *)

Section Cursor.
Context {A : Type}.
Variable garbage : A.
Variable max_def : N.
Variable zc : bool.

Notation count := (count_present max_def).
Notation rebuild := (rebuild garbage max_def).
Notation page := (@page A).
Notation cstate := (@cstate A).

(** a decoded page holds as many packed values as its levels announce *)
Definition page_ok (p : page) : Prop := length (pg_vals p) = count (dec_levels max_def p).
(** a valid chunk: consistent pages (a page may be empty) *)
Definition chunk_ok (pages : list page) : Prop := Forall page_ok pages.

Definition flatL (ps : list page) : list N := flat_map (dec_levels max_def) ps.
Definition flatV (ps : list page) : list A := flat_map (@pg_vals A) ps.

Lemma dec_levels_length (p : page) : length (dec_levels max_def p) = length (pg_levels p).
Proof. unfold dec_levels. destruct (N.eqb max_def 0); [apply repeat_length|reflexivity]. Qed.

Lemma flatL_length ps : length (flatL ps) = total_rows ps.
Proof.
  induction ps as [|p ps IH]; cbn [flatL flat_map total_rows fold_right]; [reflexivity|].
  rewrite app_length, dec_levels_length. unfold flatL in IH. rewrite IH. reflexivity.
Qed.

Lemma total_rows_app (ps qs : list page) : total_rows (ps ++ qs) = (total_rows ps + total_rows qs)%nat.
Proof. unfold total_rows. induction ps as [|p ps IH]; cbn [app fold_right]; [reflexivity|]. rewrite IH. lia. Qed.

Lemma total_rows_cons (p : page) ps : total_rows (p :: ps) = (length (pg_levels p) + total_rows ps)%nat.
Proof. reflexivity. Qed.

Lemma flatL_app ps qs : flatL (ps ++ qs) = flatL ps ++ flatL qs.
Proof. apply flat_map_app. Qed.
Lemma flatV_app ps qs : flatV (ps ++ qs) = flatV ps ++ flatV qs.
Proof. apply flat_map_app. Qed.

Lemma pages_ok_weaken ps : chunk_ok ps -> Forall page_ok ps.
Proof. intro H. exact H. Qed.

Lemma count_flat ps : Forall page_ok ps -> count (flatL ps) = length (flatV ps).
Proof.
  induction 1 as [|p ps Hp _ IH]; [reflexivity|].
  cbn [flatL flatV flat_map]. rewrite count_app, app_length. unfold flatL, flatV in IH. rewrite IH, Hp. reflexivity.
Qed.

(** the logical rows of the chunk are the flat streams rebuilt *)
Lemma rows_of_flat ps : Forall page_ok ps -> rows_of garbage max_def ps = rebuild (flatL ps) (flatV ps).
Proof.
  induction 1 as [|p ps Hp Hps IH]; [reflexivity|].
  cbn [rows_of map concat flatL flatV flat_map].
  rewrite rebuild_app by (rewrite app_length, Hp; lia).
  rewrite <- Hp. rewrite firstn_app_l by lia. rewrite firstn_all.
  replace (length (pg_vals p)) with (length (pg_vals p) + 0)%nat by lia.
  rewrite skipn_app_r, skipn_O.
  unfold rows_of in IH. rewrite IH. reflexivity.
Qed.

Lemma rows_of_length ps : length (rows_of garbage max_def ps) = total_rows ps.
Proof.
  induction ps as [|p ps IH]; [reflexivity|].
  cbn [rows_of map concat]. rewrite app_length. unfold rows_of in IH. rewrite IH.
  unfold rows_of_page. rewrite rebuild_length, dec_levels_length. reflexivity.
Qed.

(* ------------------------------------------------------------------ the invariant *)

Variable pages : list page.
Hypothesis Hchunk : chunk_ok pages.

Notation L := (flatL pages).
Notation V := (flatV pages).
Notation total := (total_rows pages).

(** model state [st] stands at row [pos] of the chunk *)
Definition Inv (st : cstate) (pos : nat) : Prop :=
  cs_pages st = pages /\ cs_max_def st = max_def /\ cs_zc st = zc /\
  (pos <= total)%nat /\
  cs_remaining st = Z.of_nat (total - pos) /\
  if cs_loaded st then
    exists before p after,
      pages = before ++ p :: after /\ cs_cur st = length before /\
      cs_pnum st = length (pg_levels p) /\ (cs_pread st <= length (pg_levels p))%nat /\
      pos = (total_rows before + cs_pread st)%nat /\
      cs_dlevels st = dec_levels max_def p /\ cs_dvals st = dec_vals garbage p /\
      (max_def <> 0%N -> cs_pdense st = count (firstn (cs_pread st) (dec_levels max_def p)))
  else pos = O /\ cs_cur st = O.

Lemma Inv_open : Inv (open max_def zc pages) O.
Proof.
  unfold Inv, open. cbn [cs_pages cs_max_def cs_zc cs_remaining cs_loaded cs_cur].
  repeat split; try lia.
Qed.

Lemma chunk_split_ok before p after :
  pages = before ++ p :: after -> Forall page_ok before /\ page_ok p /\ chunk_ok after.
Proof.
  intro E. pose proof Hchunk as H. rewrite E in H. unfold chunk_ok in H.
  apply Forall_app in H. destruct H as [Hb Ha]. inversion Ha as [|? ? Hp Haf]; subst.
  repeat split; assumption.
Qed.

(** flat windows seen from inside the current page *)
Lemma window_levels before p after r t :
  pages = before ++ p :: after -> (r + t <= length (pg_levels p))%nat ->
  firstn t (skipn r (dec_levels max_def p)) = firstn t (skipn (total_rows before + r) L).
Proof.
  intros E Hrt. rewrite E, flatL_app. cbn [flatL flat_map]. fold (flatL after).
  rewrite <- flatL_length. rewrite skipn_app_r.
  rewrite skipn_app_l by (rewrite dec_levels_length; lia).
  rewrite firstn_app_l; [reflexivity|]. rewrite skipn_length, dec_levels_length. lia.
Qed.

Lemma count_before before p after r :
  pages = before ++ p :: after -> (r <= length (pg_levels p))%nat ->
  count (firstn (total_rows before + r) L) = (length (flatV before) + count (firstn r (dec_levels max_def p)))%nat.
Proof.
  intros E Hr. destruct (chunk_split_ok _ _ _ E) as (Hb & _ & _).
  rewrite E, flatL_app. cbn [flatL flat_map]. fold (flatL after).
  rewrite <- flatL_length. rewrite firstn_app. rewrite firstn_all2 by lia.
  replace (length (flatL before) + r - length (flatL before))%nat with r by lia.
  rewrite count_app. rewrite count_flat by exact Hb.
  rewrite firstn_app_l by (rewrite dec_levels_length; lia). reflexivity.
Qed.

Lemma window_vals before p after d c :
  pages = before ++ p :: after -> (d + c <= length (pg_vals p))%nat ->
  firstn c (skipn d (dec_vals garbage p)) = firstn c (skipn (length (flatV before) + d) V).
Proof.
  intros E Hdc. rewrite E, flatV_app. cbn [flatV flat_map]. fold (flatV after).
  rewrite skipn_app_r. unfold dec_vals.
  rewrite skipn_app_l by lia. rewrite (skipn_app_l (pg_vals p)) by lia.
  rewrite !firstn_app_l by (rewrite skipn_length; lia). reflexivity.
Qed.

(* ------------------------------------------------------------------ carquet_read_next_page *)

Lemma nth_error_middle {B} (before : list B) p after : nth_error (before ++ p :: after) (length before) = Some p.
Proof. rewrite nth_error_app2 by lia. rewrite Nat.sub_diag. reflexivity. Qed.

(** the state a successful page load leaves, followed by page_dense_read = 0 *)
Definition loaded_state (st : cstate) (p : page) : cstate :=
  {| cs_pages := cs_pages st; cs_max_def := cs_max_def st; cs_zc := cs_zc st;
     cs_remaining := cs_remaining st; cs_cur := cs_cur st; cs_loaded := true;
     cs_pnum := length (pg_levels p); cs_pread := O; cs_pdense := O;
     cs_dvals := dec_vals garbage p; cs_dlevels := dec_levels (cs_max_def st) p;
     cs_view := cs_zc st && N.eqb (cs_max_def st) 0 |}.

Lemma load_ok st p :
  nth_error (cs_pages st) (cs_cur st) = Some p ->
  load_next_page garbage st = (set_pdense (loaded_state st p) (cs_pdense st), true) /\
  set_pdense (set_pdense (loaded_state st p) (cs_pdense st)) O = loaded_state st p.
Proof. intro H. unfold load_next_page. rewrite H. split; reflexivity. Qed.

Lemma Inv_loaded_state st0 before p after pos :
  cs_pages st0 = pages -> cs_max_def st0 = max_def -> cs_zc st0 = zc ->
  (pos <= total)%nat -> cs_remaining st0 = Z.of_nat (total - pos) ->
  pages = before ++ p :: after -> cs_cur st0 = length before -> pos = total_rows before ->
  Inv (loaded_state st0 p) pos.
Proof.
  intros Hpg Hmd Hzc Hle Hrem E Hcur Hpos.
  unfold Inv, loaded_state. cbn [cs_pages cs_max_def cs_zc cs_remaining cs_loaded cs_cur cs_pnum cs_pread cs_pdense cs_dvals cs_dlevels].
  repeat split; try assumption.
  exists before, p, after. rewrite Hmd. repeat split; try assumption; try lia.
Qed.

(** pages still ahead of the reader *)
Definition ahead (st : cstate) : nat :=
  if cs_loaded st then (length (cs_pages st) - S (cs_cur st))%nat else length (cs_pages st).

(** "Load a new page if needed" (a loop that passes over empty pages): afterwards a page with unread rows is
    loaded, the position is the same *)
Lemma ensure_page_loop_spec fuel : forall st pos,
  Inv st pos -> (pos < total)%nat -> (ahead st < fuel)%nat ->
  exists st1, ensure_page_loop garbage fuel st = (st1, LOk) /\ Inv st1 pos /\ cs_loaded st1 = true /\
              (cs_pread st1 < cs_pnum st1)%nat.
Proof.
  induction fuel as [|fuel IH]; intros st pos HI Hlt Hfuel; [lia|].
  pose proof HI as (Hpg & Hmd & Hzc & Hle & Hrem & Hld).
  cbn [ensure_page_loop].
  destruct (cs_loaded st) eqn:El.
  - destruct Hld as (before & p & after & E & Hcur & Hpn & Hpr & Hpos & Hdl & Hdv & Hpd).
    cbn [negb orb].
    destruct (cs_pnum st <=? cs_pread st)%nat eqn:Ex.
    + (* page exhausted (or empty): advance to the next page, which exists because rows are left *)
      assert (Hr : cs_pread st = length (pg_levels p)) by lia.
      destruct after as [|p' after'].
      { exfalso. rewrite E, total_rows_app, total_rows_cons in Hlt. cbn [total_rows fold_right] in Hlt. lia. }
      assert (E' : pages = (before ++ [p]) ++ p' :: after') by (rewrite <- app_assoc; exact E).
      assert (Hn : nth_error (cs_pages (set_after_advance st)) (cs_cur (set_after_advance st)) = Some p').
      { cbn [set_after_advance cs_pages cs_cur]. rewrite Hpg, Hcur, E'.
        replace (S (length before)) with (length (before ++ [p])) by (rewrite app_length; cbn [length]; lia).
        apply nth_error_middle. }
      destruct (load_ok _ _ Hn) as (Hload & Hreset). rewrite Hload, Hreset.
      apply IH; [|exact Hlt|].
      * apply (Inv_loaded_state _ (before ++ [p]) p' after'); cbn [set_after_advance cs_pages cs_max_def cs_zc cs_remaining cs_cur]; try assumption.
        -- rewrite Hcur, app_length. cbn [length]. lia.
        -- rewrite total_rows_app, total_rows_cons. cbn [total_rows fold_right]. lia.
      * unfold ahead in *. rewrite El in Hfuel.
        cbn [loaded_state set_after_advance cs_loaded cs_pages cs_cur]. rewrite Hpg in *. rewrite Hcur in *.
        rewrite E in *. rewrite app_length in *. cbn [length] in *. lia.
    + exists st. repeat split; try assumption; try lia.
      rewrite El. exists before, p, after. repeat split; assumption.
  - destruct Hld as (Hpos0 & Hcur0). cbn [negb orb].
    destruct pages as [|p after] eqn:Epages.
    { cbn [total_rows fold_right] in Hlt. lia. }
    rewrite <- Epages in *.
    assert (E' : pages = [] ++ p :: after) by (rewrite Epages; reflexivity).
    assert (Hn : nth_error (cs_pages st) (cs_cur st) = Some p).
    { rewrite Hpg, Hcur0, Epages. reflexivity. }
    destruct (load_ok _ _ Hn) as (Hload & Hreset). rewrite Hload, Hreset.
    apply IH; [|exact Hlt|].
    + apply (Inv_loaded_state _ [] p after); try assumption.
    + unfold ahead in *. rewrite El in Hfuel. cbn [loaded_state cs_loaded cs_pages cs_cur].
      rewrite Hpg in *. rewrite Hcur0. rewrite Epages in *. cbn [length] in *. lia.
Qed.

Lemma ensure_page_spec st pos :
  Inv st pos -> (pos < total)%nat ->
  exists st1, ensure_page garbage st = (st1, LOk) /\ Inv st1 pos /\ cs_loaded st1 = true /\ (cs_pread st1 < cs_pnum st1)%nat.
Proof.
  intros HI Hlt. unfold ensure_page. apply ensure_page_loop_spec; [exact HI|exact Hlt|].
  unfold ahead. destruct (cs_loaded st); lia.
Qed.

Lemma i32_small z : -2^31 <= z < 2^31 -> i32 z = z.
Proof. intro H. unfold i32. rewrite Z.mod_small by lia. lia. Qed.

Lemma count_all_present l : (forall x, In x l -> x = max_def) -> count l = length l.
Proof.
  induction l as [|x l IH]; intro H; cbn [count_present length]; [reflexivity|].
  rewrite (H x (or_introl eq_refl)), N.eqb_refl. rewrite IH; [lia|]. intros y Hy. apply H. right. exact Hy.
Qed.

Lemma dec_levels_required (p : page) x : max_def = 0%N -> In x (dec_levels max_def p) -> x = max_def.
Proof.
  intros E H. unfold dec_levels in H. rewrite E in *. cbn [N.eqb] in H. apply repeat_spec in H. exact H.
Qed.

Lemma In_firstn {B} (l : list B) n x : In x (firstn n l) -> In x l.
Proof. intro H. rewrite <- (firstn_skipn n l). apply in_or_app. left. exact H. Qed.
Lemma In_skipn {B} (l : list B) n x : In x (skipn n l) -> In x l.
Proof. intro H. rewrite <- (firstn_skipn n l). apply in_or_app. right. exact H. Qed.

(** the copy-out of carquet_read_next_page, repaired version: the next [t] rows of the current page *)
Lemma copy_from_page_spec st1 pos mx :
  Inv st1 pos -> cs_loaded st1 = true -> (cs_pread st1 < cs_pnum st1)%nat -> 0 <= mx ->
  let t := Nat.min (Z.to_nat mx) (cs_pnum st1 - cs_pread st1) in
  let lv := firstn t (skipn pos L) in
  exists st',
    copy_from_page true st1 mx =
      (st', POk {| pr_vals := firstn (count lv) (skipn (count (firstn pos L)) V);
                   pr_levels := lv; pr_rows := t; pr_dense := count lv |}) /\
    Inv st' (pos + t) /\ cs_loaded st' = true /\ (pos + t <= total)%nat.
Proof.
  intros (Hpg & Hmd & Hzc & Hle & Hrem & Hld) El Hlt Hmx t lv. rewrite El in Hld.
  destruct Hld as (before & p & after & E & Hcur & Hpn & Hpr & Hpos & Hdl & Hdv & Hpd).
  destruct (chunk_split_ok _ _ _ E) as (Hb & Hp & _).
  assert (Htot : total = (total_rows before + length (pg_levels p) + total_rows after)%nat).
  { rewrite E at 1. rewrite total_rows_app, total_rows_cons. lia. }
  assert (Ht : (cs_pread st1 + t <= length (pg_levels p))%nat) by (subst t; lia).
  unfold copy_from_page. cbn [andb].
  set (avail := Z.of_nat (cs_pnum st1 - cs_pread st1)).
  assert (Etc : (if mx <? avail then mx else avail) = Z.of_nat t).
  { subst t avail. destruct (mx <? Z.of_nat (cs_pnum st1 - cs_pread st1)) eqn:Eg; lia. }
  rewrite Etc.
  destruct (Z.of_nat t <=? 0) eqn:Ez.
  { (* nothing asked for (peek): nothing changes *)
    assert (Ht0 : t = O) by lia. subst lv. rewrite Ht0. exists st1. rewrite Nat.add_0_r.
    split; [reflexivity|]. split; [|split; [exact El|lia]].
    unfold Inv. rewrite El. repeat split; try assumption. exists before, p, after. repeat split; assumption. }
  destruct (Z.of_nat t <? 0) eqn:Eneg; [lia|]. rewrite Nat2Z.id.
  rewrite copy_out_ok by (rewrite Hdl, dec_levels_length; lia).
  rewrite Hdl. rewrite (window_levels before p after _ _ E Ht). rewrite <- Hpos. fold lv.
  rewrite Hmd. cbn [andb].
  (* the packed offset and count, whichever way the code computes them *)
  set (dl := dec_levels max_def p) in *.
  assert (Hoff : (if negb (max_def =? 0)%N then cs_pdense st1 else cs_pread st1) = count (firstn (cs_pread st1) dl)).
  { destruct (N.eqb max_def 0) eqn:E0; cbn [negb].
    - apply N.eqb_eq in E0. rewrite count_all_present.
      + rewrite firstn_length. subst dl. rewrite dec_levels_length. lia.
      + intros x Hx. apply (dec_levels_required p x E0). eapply In_firstn. exact Hx.
    - apply Hpd. intro E0'. rewrite E0' in E0. discriminate. }
  assert (Hlv : lv = firstn t (skipn (cs_pread st1) dl)).
  { subst lv dl. rewrite Hpos. symmetry. apply (window_levels before p after _ _ E Ht). }
  assert (Hcnt : (if negb (max_def =? 0)%N then count lv else t) = count lv).
  { destruct (N.eqb max_def 0) eqn:E0; cbn [negb]; [|reflexivity].
    apply N.eqb_eq in E0. rewrite Hlv. rewrite count_all_present.
    - rewrite firstn_length, skipn_length. subst dl. rewrite dec_levels_length. lia.
    - intros x Hx. apply (dec_levels_required p x E0). eapply In_skipn. eapply In_firstn. exact Hx. }
  rewrite Hoff, Hcnt.
  assert (Hsum : (count (firstn (cs_pread st1) dl) + count lv = count (firstn (cs_pread st1 + t) dl))%nat).
  { rewrite Hlv. symmetry. apply count_firstn_add. }
  assert (Hbound : (count (firstn (cs_pread st1 + t) dl) <= length (pg_vals p))%nat).
  { unfold page_ok in Hp. fold dl in Hp. rewrite Hp. apply count_firstn_le. }
  rewrite copy_out_ok by (rewrite Hdv; unfold dec_vals; rewrite app_length; lia).
  rewrite Hdv. rewrite (window_vals before p after _ _ E) by lia.
  pose proof (count_before before p after _ E Hpr) as Hcb. fold dl in Hcb. rewrite <- Hcb, <- Hpos.
  eexists. split; [reflexivity|]. split; [|split].
  - unfold Inv, set_consumed.
    cbn [cs_pages cs_max_def cs_zc cs_remaining cs_loaded cs_cur cs_pnum cs_pread cs_pdense cs_dvals cs_dlevels].
    rewrite El. repeat split; try assumption; try lia.
    exists before, p, after. repeat split; try assumption; try lia.
    intro Hn. fold dl. rewrite <- Hsum. rewrite (Hpd Hn). reflexivity.
  - cbn [set_consumed cs_loaded]. exact El.
  - lia.
Qed.

(** one call of carquet_read_next_page with rows left: at least one row if one is asked for, never more
    than asked for, never past the end of the chunk, always the next rows of the flat streams *)
Lemma read_next_page_spec st pos mx :
  Inv st pos -> (pos < total)%nat -> 0 <= mx ->
  exists st' t,
    let lv := firstn t (skipn pos L) in
    read_next_page garbage true st mx =
      (st', POk {| pr_vals := firstn (count lv) (skipn (count (firstn pos L)) V);
                   pr_levels := lv; pr_rows := t; pr_dense := count lv |}) /\
    Inv st' (pos + t) /\ cs_loaded st' = true /\ (pos + t <= total)%nat /\
    (Z.of_nat t <= mx) /\ (0 < mx -> (0 < t)%nat).
Proof.
  intros HI Hlt Hmx.
  destruct (ensure_page_spec st pos HI Hlt) as (st1 & Ee & HI1 & El1 & Hr1).
  destruct (copy_from_page_spec st1 pos mx HI1 El1 Hr1 Hmx) as (st' & Ec & HI' & El' & Hle').
  exists st', (Nat.min (Z.to_nat mx) (cs_pnum st1 - cs_pread st1)).
  cbn zeta. unfold read_next_page. rewrite Ee. cbn zeta in Ec. rewrite Ec.
  split; [reflexivity|]. split; [exact HI'|]. split; [exact El'|]. split; [exact Hle'|]. split; [lia|].
  intro Hpos. lia.
Qed.

(* ------------------------------------------------------------------ carquet_column_read_batch *)

(** rows [p0, p0+n) of the chunk as levels and as packed values *)
Definition segL (p0 n : nat) : list N := firstn n (skipn p0 L).
Definition segV (p0 n : nat) : list A := firstn (count (segL p0 n)) (skipn (count (firstn p0 L)) V).

Lemma count_L : count L = length V.
Proof. apply count_flat, pages_ok_weaken, Hchunk. Qed.

Lemma segL_length p0 n : (p0 + n <= total)%nat -> length (segL p0 n) = n.
Proof. intro H. unfold segL. rewrite firstn_length, skipn_length, flatL_length. lia. Qed.

Lemma count_prefix_split p0 n : count (firstn (p0 + n) L) = (count (firstn p0 L) + count (segL p0 n))%nat.
Proof. apply count_firstn_add. Qed.

Lemma segV_length p0 n : length (segV p0 n) = count (segL p0 n).
Proof.
  unfold segV. rewrite firstn_length, skipn_length.
  pose proof (count_prefix_split p0 n). pose proof (count_firstn_le max_def L (p0 + n)). pose proof count_L. lia.
Qed.

Lemma segL_extend p0 a b : segL p0 a ++ firstn b (skipn (p0 + a) L) = segL p0 (a + b).
Proof. unfold segL. rewrite <- skipn_skipn'. apply firstn_firstn_skipn. Qed.

Lemma segV_extend p0 a b :
  segV p0 a ++ firstn (count (firstn b (skipn (p0 + a) L))) (skipn (count (firstn (p0 + a) L)) V) = segV p0 (a + b).
Proof.
  unfold segV. rewrite <- (segL_extend p0 a b), count_app.
  rewrite count_prefix_split. rewrite <- (skipn_skipn' V). apply firstn_firstn_skipn.
Qed.

(** the rows of a segment are rows [p0, p0+n) of the logical content, whatever garbage follows the values *)
Lemma seg_rows p0 n extra :
  rebuild (segL p0 n) (segV p0 n ++ extra) = firstn n (skipn p0 (rows_of garbage max_def pages)).
Proof.
  rewrite (rows_of_flat pages (pages_ok_weaken _ Hchunk)).
  rewrite (rebuild_window garbage max_def L V p0 n) by (rewrite count_L; lia).
  fold (segL p0 n). fold (segV p0 n).
  rewrite rebuild_trim by (rewrite app_length, segV_length; lia).
  rewrite firstn_app_l by (rewrite segV_length; lia).
  rewrite <- segV_length, firstn_all. reflexivity.
Qed.

Lemma somes_seg p0 n : somes (firstn n (skipn p0 (rows_of garbage max_def pages))) = segV p0 n.
Proof.
  rewrite <- (seg_rows p0 n []), app_nil_r. rewrite somes_rebuild by (rewrite segV_length; lia).
  rewrite <- segV_length. apply firstn_all.
Qed.

(** the caller's buffers while the loop runs: what was delivered, then untouched slots *)
Definition vpad (K : nat) (vd : list A) : list A := vd ++ repeat garbage (K - length vd).
Definition lpad (wd : bool) (K : nat) (ld : list N) : list N :=
  if wd then ld ++ repeat garbage_level (K - length ld) else [].

Lemma write_vpad K vd n src :
  n = length vd -> (length src <= K - length vd)%nat -> write_at (vpad K vd) n src = Ok (vpad K (vd ++ src)).
Proof.
  intros -> H. unfold vpad. rewrite write_at_pad by exact H. f_equal. f_equal. f_equal. rewrite app_length. lia.
Qed.

Lemma write_lpad K ld n src :
  n = length ld -> (length src <= K - length ld)%nat -> write_at (lpad true K ld) n src = Ok (lpad true K (ld ++ src)).
Proof.
  intros -> H. unfold lpad. rewrite write_at_pad by exact H. f_equal. f_equal. f_equal. rewrite app_length. lia.
Qed.

Lemma rb_loop_spec fuel : forall st p0 tr K wd,
  Inv st (p0 + tr) -> (tr <= K)%nat -> (K - tr < fuel)%nat ->
  let c := Nat.min K (total - p0) in
  exists st',
    rb_loop garbage true fuel st (Z.of_nat K) wd (Z.of_nat tr) (Z.of_nat (count (segL p0 tr)))
            (vpad K (segV p0 tr)) (lpad wd K (segL p0 tr)) =
    Ok (st', {| br_ret := Z.of_nat c; br_vals := vpad K (segV p0 c); br_levels := lpad wd K (segL p0 c);
                br_dense := Z.of_nat (count (segL p0 c)) |}) /\
    Inv st' (p0 + c).
Proof.
  induction fuel as [|fuel IH]; intros st p0 tr K wd HI Htr Hfuel c; [lia|].
  pose proof HI as (Hpg & Hmd & Hzc & Hle & Hrem & _).
  cbn [rb_loop]. rewrite Hrem.
  destruct ((Z.of_nat tr <? Z.of_nat K) && (Z.of_nat (total - (p0 + tr)) >? 0)) eqn:Econd.
  - (* one more page read *)
    assert (Hlt : (p0 + tr < total)%nat) by lia.
    assert (Hmx : 0 <= Z.of_nat K - Z.of_nat tr) by lia.
    destruct (read_next_page_spec st (p0 + tr) _ HI Hlt Hmx) as (st1 & t & Er & HI1 & _ & Hle1 & Htm & Htp).
    cbn zeta in Er. rewrite Er. cbn [pr_vals pr_levels pr_rows pr_dense].
    assert (Ht1 : (0 < t)%nat) by (apply Htp; lia).
    rewrite !Nat2Z.id.
    (* values *)
    assert (Hcl : (count (firstn t (skipn (p0 + tr) L)) <= t)%nat).
    { pose proof (count_le max_def (firstn t (skipn (p0 + tr) L))) as H. rewrite firstn_length in H. lia. }
    assert (Hcs : (count (segL p0 tr) <= tr)%nat).
    { pose proof (count_le max_def (segL p0 tr)) as H. rewrite segL_length in H by lia. exact H. }
    rewrite (write_vpad K (segV p0 tr) _ _ (eq_sym (segV_length p0 tr)))
      by (rewrite firstn_length, segV_length; lia).
    rewrite segV_extend.
    (* levels *)
    assert (El : (if wd then write_at (lpad wd K (segL p0 tr)) tr (firstn t (skipn (p0 + tr) L)) else Ok (lpad wd K (segL p0 tr))) = Ok (lpad wd K (segL p0 (tr + t)))).
    { destruct wd; [|reflexivity].
      rewrite (write_lpad K (segL p0 tr) tr) by (rewrite ?firstn_length, segL_length by lia; lia).
      rewrite segL_extend. reflexivity. }
    rewrite El.
    destruct (t =? 0)%nat eqn:Et0; [lia|].
    rewrite <- Nat2Z.inj_add.
    replace (Z.of_nat (count (segL p0 tr)) + Z.of_nat (count (firstn t (skipn (p0 + tr) L))))
      with (Z.of_nat (count (segL p0 (tr + t)))) by (rewrite <- (segL_extend p0 tr t), count_app; lia).
    apply IH; try lia. rewrite Nat.add_assoc. exact HI1.
  - (* loop ends: either the buffer is full or the chunk is exhausted *)
    assert (Ec : tr = c) by (subst c; lia).
    rewrite <- Ec. eexists. split; [reflexivity|]. exact HI.
Qed.

Lemma vpad_nil K : vpad K [] = repeat garbage K.
Proof. unfold vpad. cbn [app length]. rewrite Nat.sub_0_r. reflexivity. Qed.

Lemma segL_0 p0 : segL p0 0 = [].
Proof. reflexivity. Qed.
Lemma segV_0 p0 : segV p0 0 = [].
Proof. reflexivity. Qed.

(** carquet_column_read_batch with max_values > 0: exactly min(max_values, remaining) rows, the next ones *)
Lemma read_batch_spec st pos k wd :
  Inv st pos -> 0 < k ->
  let K := Z.to_nat k in
  let c := Nat.min K (total - pos) in
  exists st',
    read_batch garbage true st k wd =
    Ok (st', {| br_ret := Z.of_nat c; br_vals := vpad K (segV pos c); br_levels := lpad wd K (segL pos c);
                br_dense := Z.of_nat (count (segL pos c)) |}) /\
    Inv st' (pos + c).
Proof.
  intros HI Hk K c. pose proof HI as (_ & _ & _ & Hle & Hrem & _).
  unfold read_batch.
  destruct (k <? 0) eqn:E1; [lia|]. destruct (k =? 0) eqn:E2; [lia|].
  fold K. rewrite Hrem.
  destruct (Z.of_nat (total - pos) <=? 0) eqn:E3.
  - assert (Ec : c = O) by (subst c; lia). rewrite Ec, segL_0, segV_0, vpad_nil, Nat.add_0_r.
    exists st. split; [|exact HI]. f_equal. f_equal. f_equal.
    unfold lpad. destruct wd; [|reflexivity]. cbn [app length]. rewrite Nat.sub_0_r. reflexivity.
  - assert (HI0 : Inv st (pos + 0)) by (rewrite Nat.add_0_r; exact HI).
    assert (HK : Z.of_nat K = k) by (subst K; lia).
    destruct (rb_loop_spec (S K) st pos O K wd HI0 ltac:(lia) ltac:(lia)) as (st' & Er & HI').
    exists st'. split; [|exact HI'].
    rewrite segL_0, segV_0, vpad_nil in Er. cbn [count_present] in Er. rewrite HK in Er.
    replace (lpad wd K []) with (if wd then repeat garbage_level K else @nil N) in Er
      by (unfold lpad; destruct wd; [cbn [app length]; rewrite Nat.sub_0_r|]; reflexivity).
    exact Er.
Qed.

(** max_values = 0: the peek.  Nothing is consumed. *)
Lemma read_batch_peek st pos wd :
  Inv st pos ->
  exists st', read_batch garbage true st 0 wd = Ok (st', {| br_ret := 0; br_vals := []; br_levels := []; br_dense := 0 |}) /\ Inv st' pos.
Proof.
  intros HI. pose proof HI as (_ & _ & _ & Hle & Hrem & _). unfold read_batch. cbn [Z.ltb Z.eqb Z.compare].
  destruct ((cs_remaining st >? 0) && negb (cs_loaded st)) eqn:Ec.
  - assert (Hlt : (pos < total)%nat) by lia.
    destruct (read_next_page_spec st pos 0 HI Hlt ltac:(lia)) as (st1 & t & Er & HI1 & _ & _ & Htm & _).
    cbn zeta in Er. rewrite Er. assert (t = O) by lia. subst t. rewrite Nat.add_0_r in HI1.
    exists st1. split; [reflexivity|exact HI1].
  - exists st. split; [reflexivity|exact HI].
Qed.

(* ------------------------------------------------------------------ carquet_column_skip *)

Lemma skip_chunk_bounds : 0 < Reader_skip_chunk.
Proof. unfold Reader_skip_chunk. lia. Qed.

Lemma skip_loop_spec fuel : forall st p0 sk k,
  Inv st (p0 + sk) -> (sk <= Z.to_nat k)%nat -> 0 < k -> (Z.to_nat k - sk < fuel)%nat ->
  let c := Nat.min (Z.to_nat k) (total - p0) in
  exists st', skip_loop garbage true fuel st k (Z.of_nat sk) = Ok (st', Z.of_nat c) /\ Inv st' (p0 + c).
Proof.
  induction fuel as [|fuel IH]; intros st p0 sk k HI Hsk Hk Hfuel c; [lia|].
  pose proof HI as (_ & _ & _ & Hle & Hrem & _).
  cbn [skip_loop]. rewrite Hrem.
  destruct ((Z.of_nat sk <? k) && (Z.of_nat (total - (p0 + sk)) >? 0)) eqn:Econd.
  - pose proof skip_chunk_bounds as Hch.
    set (ts := if k - Z.of_nat sk >? Reader_skip_chunk then Reader_skip_chunk else k - Z.of_nat sk).
    assert (Hts : 0 < ts) by (subst ts; destruct (k - Z.of_nat sk >? Reader_skip_chunk) eqn:Eg; lia).
    destruct (read_batch_spec st (p0 + sk) ts false HI Hts) as (st1 & Er & HI1).
    cbn zeta in Er. rewrite Er. cbn [br_ret].
    set (c1 := Nat.min (Z.to_nat ts) (total - (p0 + sk))) in *.
    assert (Hc1 : (0 < c1)%nat) by (subst c1; lia).
    destruct (Z.of_nat c1 <=? 0) eqn:E0; [lia|].
    rewrite <- Nat2Z.inj_add.
    apply IH; try lia.
    + rewrite Nat.add_assoc. exact HI1.
    + subst c1 ts. destruct (k - Z.of_nat sk >? Reader_skip_chunk) eqn:Eg; lia.
  - assert (Ec : sk = c) by (subst c; lia). rewrite <- Ec. exists st. split; [reflexivity|exact HI].
Qed.

(** skip(n) advances by exactly min(n, remaining) rows *)
Lemma skip_spec st pos k :
  Inv st pos -> 0 <= k ->
  let c := Nat.min (Z.to_nat k) (total - pos) in
  exists st', skip garbage true st k = Ok (st', Z.of_nat c) /\ Inv st' (pos + c).
Proof.
  intros HI Hk c. pose proof HI as (_ & _ & _ & Hle & Hrem & _). unfold skip. rewrite Hrem.
  destruct ((k <=? 0) || (Z.of_nat (total - pos) <=? 0)) eqn:E.
  - assert (Ec : c = O) by (subst c; lia). rewrite Ec, Nat.add_0_r. exists st. split; [reflexivity|exact HI].
  - assert (HI0 : Inv st (pos + 0)) by (rewrite Nat.add_0_r; exact HI).
    destruct (skip_loop_spec (S (Z.to_nat k)) st pos O k HI0 ltac:(lia) ltac:(lia) ltac:(lia)) as (st' & Es & HI').
    exists st'. split; [exact Es|exact HI'].
Qed.

(* ------------------------------------------------------------------ histories *)

Definition op_ok (o : op) : Prop :=
  match o with Read k | ReadNoDef k | Skip k => 0 <= k | _ => True end.

Notation rows := (rows_of garbage max_def pages).

Lemma lpad_firstn K ld : firstn (length ld) (lpad true K ld) = ld.
Proof. unfold lpad. rewrite firstn_app_l by lia. apply firstn_all. Qed.

(** one step of a history: the model's observable output is the specification's, the invariant moves to the
    specification's next position *)
Lemma step_spec st pos o :
  Inv st pos -> op_ok o ->
  exists st' x, step garbage true st o = Ok (st', x) /\
    spec_run rows pos [o] = [x] /\ Inv st' (spec_pos rows pos [o]).
Proof.
  intros HI Hok. pose proof HI as (Hpg & Hmd & Hzc & Hle & Hrem & _).
  assert (Hlen : length rows = total) by apply rows_of_length.
  destruct o as [k|k|k| | |]; cbn [step spec_run spec_pos op_ok] in *; rewrite ?Hlen; unfold take.
  - (* Read *)
    destruct (Z.eq_dec k 0) as [->|Hk0].
    + destruct (read_batch_peek st pos true HI) as (st' & Er & HI'). rewrite Er.
      cbn [br_ret br_levels br_vals]. eexists _, _. split; [reflexivity|].
      cbn [Z.to_nat Nat.min firstn rebuild]. change (Z.to_nat 0) with O.
      replace (Nat.min 0 (total - pos)) with O by lia. rewrite Nat.add_0_r.
      split; [reflexivity|exact HI'].
    + destruct (read_batch_spec st pos k true HI ltac:(lia)) as (st' & Er & HI'). cbn zeta in Er. rewrite Er.
      cbn [br_ret br_levels br_vals]. eexists _, _. split; [reflexivity|].
      set (c := Nat.min (Z.to_nat k) (total - pos)) in *.
      split; [|exact HI'].
      f_equal. f_equal. rewrite Nat2Z.id, Hmd.
      assert (Hfl : firstn c (lpad true (Z.to_nat k) (segL pos c)) = segL pos c).
      { rewrite <- (segL_length pos c) at 1 by (subst c; lia). apply lpad_firstn. }
      rewrite Hfl. unfold vpad. symmetry. apply seg_rows.
  - (* ReadNoDef *)
    destruct (Z.eq_dec k 0) as [->|Hk0].
    + destruct (read_batch_peek st pos false HI) as (st' & Er & HI'). rewrite Er.
      cbn [br_ret br_dense br_vals]. eexists _, _. split; [reflexivity|].
      change (Z.to_nat 0) with O. replace (Nat.min 0 (total - pos)) with O by lia. rewrite Nat.add_0_r.
      split; [reflexivity|exact HI'].
    + destruct (read_batch_spec st pos k false HI ltac:(lia)) as (st' & Er & HI'). cbn zeta in Er. rewrite Er.
      cbn [br_ret br_dense br_vals]. eexists _, _. split; [reflexivity|].
      set (c := Nat.min (Z.to_nat k) (total - pos)) in *.
      split; [|exact HI'].
      f_equal. f_equal. rewrite Nat2Z.id, somes_seg. unfold vpad.
      rewrite <- segV_length. rewrite firstn_app_l by lia. symmetry. apply firstn_all.
  - (* Skip *)
    destruct (skip_spec st pos k HI ltac:(lia)) as (st' & Es & HI'). cbn zeta in Es. rewrite Es.
    eexists _, _. split; [reflexivity|]. split; [reflexivity|exact HI'].
  - (* HasNext *)
    eexists _, _. split; [reflexivity|]. split; [|exact HI].
    f_equal. f_equal. unfold has_next. rewrite Hrem.
    destruct (Z.of_nat (total - pos) >? 0) eqn:E1, (0 <? total - pos)%nat eqn:E2; try reflexivity; lia.
  - (* Remaining *)
    eexists _, _. split; [reflexivity|]. split; [|exact HI].
    f_equal. f_equal. unfold remaining. symmetry. exact Hrem.
  - (* Reopen *)
    eexists _, _. split; [reflexivity|]. split; [reflexivity|].
    rewrite Hpg, Hmd, Hzc. apply Inv_open.
Qed.

Lemma spec_run_cons o ops pos : spec_run rows pos (o :: ops) = spec_run rows pos [o] ++ spec_run rows (spec_pos rows pos [o]) ops.
Proof. destruct o; reflexivity. Qed.

Lemma spec_pos_cons o ops pos : spec_pos rows pos (o :: ops) = spec_pos rows (spec_pos rows pos [o]) ops.
Proof. destruct o; reflexivity. Qed.

Lemma run_spec ops : forall st pos,
  Inv st pos -> Forall op_ok ops -> run garbage true ops st = Ok (spec_run rows pos ops).
Proof.
  induction ops as [|o ops IH]; intros st pos HI Hok; [reflexivity|].
  inversion Hok as [|? ? Ho Hops]; subst.
  destruct (step_spec st pos o HI Ho) as (st' & x & Es & Ex & HI').
  cbn [run]. rewrite Es. rewrite (IH st' _ HI' Hops).
  rewrite spec_run_cons, Ex. reflexivity.
Qed.

End Cursor.

(* ------------------------------------------------------------------ the theorems of C02, column reader *)

Section Theorems.
Context {A : Type}.
Variable garbage : A.

(** state reached by a history *)
Fixpoint exec (ops : list op) (st : @cstate A) : res (@cstate A) :=
  match ops with
  | [] => Ok st
  | o :: t => match step garbage true st o with
              | Ok (st1, _) => exec t st1
              | Err c => Err c
              | Fault f => Fault f
              end
  end.

Lemma exec_Inv max_def zc pages (Hc : chunk_ok max_def pages) ops : forall st pos,
  Inv garbage max_def zc pages st pos -> Forall op_ok ops ->
  exists st', exec ops st = Ok st' /\
              Inv garbage max_def zc pages st' (spec_pos (rows_of garbage max_def pages) pos ops).
Proof.
  induction ops as [|o ops IH]; intros st pos HI Hok; [exists st; split; [reflexivity|exact HI]|].
  inversion Hok as [|? ? Ho Hops]; subst.
  destruct (step_spec garbage max_def zc pages Hc st pos o HI Ho) as (st1 & x & Es & _ & HI1).
  cbn [exec]. rewrite Es. rewrite spec_pos_cons. apply IH; assumption.
Qed.

(** cursor_refines: for ALL histories and ALL cuts of the chunk into (non-empty, consistent) pages the repaired
    column reader delivers what the position-in-a-list specification says *)
Theorem cursor_refines_proved max_def zc pages ops :
  chunk_ok max_def pages -> Forall op_ok ops ->
  run garbage true ops (open max_def zc pages) = Ok (spec_outputs ops (rows_of garbage max_def pages)).
Proof.
  intros Hc Hok. unfold spec_outputs. apply (run_spec garbage max_def zc pages Hc ops _ O); [apply Inv_open|exact Hok].
Qed.

(** remaining() after any history = rows of the chunk not yet delivered or skipped *)
Theorem remaining_exact_proved max_def zc pages ops st :
  chunk_ok max_def pages -> Forall op_ok ops ->
  exec ops (open max_def zc pages) = Ok st ->
  let rows := rows_of garbage max_def pages in
  remaining st = Z.of_nat (length rows - spec_pos rows 0 ops) /\
  has_next st = (0 <? length rows - spec_pos rows 0 ops)%nat.
Proof.
  intros Hc Hok He rows.
  destruct (exec_Inv max_def zc pages Hc ops _ O (Inv_open garbage max_def zc pages) Hok) as (st' & He' & HI).
  rewrite He in He'. injection He' as <-.
  destruct HI as (_ & _ & _ & Hle & Hrem & _).
  unfold rows. rewrite rows_of_length. unfold remaining, has_next. rewrite Hrem. split; [reflexivity|].
  fold rows in Hle |- *.
  destruct (Z.of_nat (total_rows pages - spec_pos rows 0 ops) >? 0) eqn:E1,
           (0 <? total_rows pages - spec_pos rows 0 ops)%nat eqn:E2; try reflexivity; lia.
Qed.

(** skip(n) after any history returns and advances by exactly min(n, remaining) *)
Theorem skip_exact_proved max_def zc pages ops st k :
  chunk_ok max_def pages -> Forall op_ok ops -> 0 <= k ->
  exec ops (open max_def zc pages) = Ok st ->
  exists st', skip garbage true st k = Ok (st', Z.min k (remaining st)) /\
              remaining st' = remaining st - Z.min k (remaining st).
Proof.
  intros Hc Hok Hk He.
  destruct (exec_Inv max_def zc pages Hc ops _ O (Inv_open garbage max_def zc pages) Hok) as (st0 & He' & HI).
  rewrite He in He'. injection He' as <-.
  set (pos := spec_pos (rows_of garbage max_def pages) 0 ops) in *.
  destruct (skip_spec garbage max_def zc pages Hc st pos k HI Hk) as (st' & Es & HI'). cbn zeta in Es.
  pose proof HI as (_ & _ & _ & Hle & Hrem & _). pose proof HI' as (_ & _ & _ & Hle' & Hrem' & _).
  exists st'. unfold remaining. rewrite Hrem, Hrem'. split; [|lia].
  rewrite Es. f_equal. f_equal. lia.
Qed.

End Theorems.

(* ------------------------------------------------------------------ examples and the pinned tree *)

(** an OPTIONAL chunk [1, NULL, 3, 4 | (empty page) | NULL, 6] in three pages, one of them without values *)
Definition ex_pages : list (@page N) :=
  [ {| pg_levels := [1;0;1;1]%N; pg_vals := [1;3;4]%N |}; {| pg_levels := []; pg_vals := [] |};
    {| pg_levels := [0;1]%N; pg_vals := [6]%N |} ].

Example ex_chunk_ok : chunk_ok 1%N ex_pages.
Proof. repeat constructor. Qed.

Example ex_ops_ok : Forall op_ok [Read 2; Remaining; Skip 1; HasNext; ReadNoDef 2; Reopen; Read 9].
Proof. repeat constructor; cbn; lia. Qed.

Example ex_run :
  run 0%N true [Read 2; Remaining; Skip 1; HasNext; ReadNoDef 2; Reopen; Read 9] (open 1%N false ex_pages) =
  Ok [ORead 2 [Some 1%N; None]; ORem 4; OSkip 1; OHas true; OReadNoDef 2 [4%N]; OReopened;
      ORead 6 [Some 1; None; Some 3; Some 4; None; Some 6]%N].
Proof. vm_compute. reflexivity. Qed.

(** The pinned tree (copy-out offset and value pointer count rows, DESIGN F5): the refinement fails on the
    one-page chunk [1, NULL, 3, 4] read with read_batch(2) twice - the second read returns [4, garbage]. *)
Theorem cursor_refines_pinned_refuted_proved :
  exists (pages : list (@page N)) ops,
    chunk_ok 1%N pages /\ Forall op_ok ops /\
    run 3200171710%N false ops (open 1%N false pages) <> Ok (spec_outputs ops (rows_of 3200171710%N 1%N pages)).
Proof.
  exists [ {| pg_levels := [1;0;1;1]%N; pg_vals := [1;3;4]%N |} ], [Read 2; Read 2].
  split; [repeat constructor|]. split; [repeat constructor; cbn; lia|].
  vm_compute. discriminate.
Qed.
