(** Proofs about the bounds model of the reader (Reader/PageBoundsModel.v) - property C04.

    Positive theorems are about [current_pchecks], the checks regenerated from the C sources; they go
    through only when those are the checks of a safe reader.  The refutations for the pinned tree
    ([pinned_pchecks]) are kept with the witnesses that were replayed on the implementation
    (DESIGN F21-F24, corpus/C04). *)
From Coq Require Import NArith ZArith List Bool Arith Lia.
From Carquet Require Import Base.Res Gen.Enums_gen Gen.Consts_gen Gen.Robust_gen
  Reader.FooterModel Reader.FooterProofs Reader.PageBoundsModel.
Import ListNotations.
Local Open Scope Z_scope.

(** The regenerated checks are all present. *)
Lemma cur_rg : pk_rg current_pchecks = true. Proof. reflexivity. Qed.
Lemma cur_col : pk_col current_pchecks = true. Proof. reflexivity. Qed.
Lemma cur_type : pk_type current_pchecks = true. Proof. reflexivity. Qed.
Lemma cur_offset : forall k, pk_offset current_pchecks k = true. Proof. destruct k; reflexivity. Qed.
Lemma cur_window : forall k, pk_window current_pchecks k = true. Proof. destruct k; reflexivity. Qed.
Lemma cur_psize : forall k, pk_psize current_pchecks k = true. Proof. destruct k; reflexivity. Qed.
Lemma cur_short : forall k, pk_short current_pchecks k = true. Proof. destruct k; reflexivity. Qed.
Lemma cur_zc : pk_zc current_pchecks = true. Proof. reflexivity. Qed.
Lemma cur_dict : pk_dict current_pchecks = true. Proof. reflexivity. Qed.
Lemma window_size_val : window_size = 256. Proof. reflexivity. Qed.
Lemma min_header_read_val : min_header_read = 8. Proof. reflexivity. Qed.

(* ------------------------------------------------------------------------------------------------ *)
(** * get_column *)

Lemma znth_some : forall A (l : list A) i, 0 <= i < Z.of_nat (length l) -> exists x, znth l i = Some x.
Proof.
  intros A l i [H0 H1]. unfold znth. destruct (i <? 0) eqn:E; [apply Z.ltb_lt in E; lia|].
  destruct (nth_error l (Z.to_nat i)) eqn:En; [eauto|].
  apply nth_error_None in En. lia.
Qed.

Lemma znth_in : forall A (l : list A) i x, znth l i = Some x -> In x l.
Proof.
  intros A l i x H. unfold znth in H. destruct (i <? 0); [discriminate|]. eapply nth_error_In; eauto.
Qed.

(** Out-of-range row-group / column indices are reported as errors (never an access). *)
Theorem get_column_index_error : forall m rg col,
  rg < 0 \/ Z.of_nat (length (fm_row_groups m)) <= rg \/ col < 0 \/ Z.of_nat (length (fm_leaves m)) <= col ->
  exists c, get_column current_pchecks m rg col = Err c /\ c <> 0.
Proof.
  intros m rg col H. unfold get_column. rewrite cur_rg, cur_col. simpl andb.
  destruct ((rg <? 0) || (rg >=? Z.of_nat (length (fm_row_groups m)))) eqn:Erg.
  - eexists. split; [reflexivity|discriminate].
  - apply orb_false_iff in Erg. destruct Erg as [E1 E2]. apply Z.ltb_ge in E1.
    rewrite Z.geb_leb in E2. apply Z.leb_gt in E2.
    destruct ((col <? 0) || (col >=? Z.of_nat (length (fm_leaves m)))) eqn:Ecol.
    + eexists. split; [reflexivity|discriminate].
    + apply orb_false_iff in Ecol. destruct Ecol as [E3 E4]. apply Z.ltb_ge in E3.
      rewrite Z.geb_leb in E4. apply Z.leb_gt in E4. lia.
Qed.

(** For metadata within the parser's limits get_column never reads outside an array, whatever the
    indices (any two C ints) and whatever the metadata says. *)
Theorem get_column_no_fault : forall m rg col,
  within_limits m -> forall ft, get_column current_pchecks m rg col <> Fault ft.
Proof.
  intros m rg col [_ [_ [_ Hl]]] ft. unfold get_column. rewrite cur_rg, cur_col, cur_type. simpl andb.
  destruct ((rg <? 0) || (rg >=? Z.of_nat (length (fm_row_groups m)))) eqn:Erg; [discriminate|].
  apply orb_false_iff in Erg. destruct Erg as [E1 E2]. apply Z.ltb_ge in E1.
  rewrite Z.geb_leb in E2. apply Z.leb_gt in E2.
  destruct ((col <? 0) || (col >=? Z.of_nat (length (fm_leaves m)))) eqn:Ecol; [discriminate|].
  apply orb_false_iff in Ecol. destruct Ecol as [E3 E4]. apply Z.ltb_ge in E3.
  rewrite Z.geb_leb in E4. apply Z.leb_gt in E4.
  destruct (znth_some _ (fm_row_groups m) rg (conj E1 E2)) as [g Hg]. rewrite Hg.
  destruct (col >=? Z.of_nat (length (rg_columns g))) eqn:Ec; [discriminate|].
  rewrite Z.geb_leb in Ec. apply Z.leb_gt in Ec.
  destruct (znth_some _ (rg_columns g) col (conj E3 Ec)) as [ch Hch]. rewrite Hch.
  destruct (negb (cc_has_metadata ch)); [discriminate|].
  destruct (znth_some _ (fm_leaves m) col (conj E3 E4)) as [si Hsi]. rewrite Hsi.
  assert (Hin : (si < length (fm_schema m))%nat).
  { rewrite Forall_forall in Hl. apply Hl. eapply znth_in; eauto. }
  destruct (nth_error (fm_schema m) si) as [el|] eqn:En; [|apply nth_error_None in En; lia].
  destruct (negb (se_has_type el) || negb (cm_type (cc_meta ch) =? se_type el)); discriminate.
Qed.

(** A column reader is only handed out when the chunk stores the type the schema declares. *)
Theorem get_column_types_agree : forall m rg col r,
  get_column current_pchecks m rg col = Ok r -> cr_type r = cr_schema_type r.
Proof.
  intros m rg col r H. unfold get_column in H. rewrite cur_rg, cur_col, cur_type in H. simpl andb in H.
  destruct ((rg <? 0) || (rg >=? Z.of_nat (length (fm_row_groups m)))); [discriminate|].
  destruct ((col <? 0) || (col >=? Z.of_nat (length (fm_leaves m)))); [discriminate|].
  destruct (znth (fm_row_groups m) rg) as [g|]; [|discriminate].
  destruct (col >=? Z.of_nat (length (rg_columns g))); [discriminate|].
  destruct (znth (rg_columns g) col) as [ch|]; [|discriminate].
  destruct (negb (cc_has_metadata ch)); [discriminate|].
  destruct (znth (fm_leaves m) col) as [si|]; [|discriminate].
  destruct (nth_error (fm_schema m) si) as [el|]; [|discriminate].
  destruct (negb (se_has_type el) || negb (cm_type (cc_meta ch) =? se_type el)) eqn:E; [discriminate|].
  apply orb_false_iff in E. destruct E as [_ E]. apply negb_false_iff in E. apply Z.eqb_eq in E.
  inversion H; subst; simpl. exact E.
Qed.

(* ------------------------------------------------------------------------------------------------ *)
(** * Page loads *)

Lemma slice_length : forall f off len,
  0 <= off -> 0 <= len -> off + len <= Z.of_nat (length f) -> Z.of_nat (length (slice f off len)) = len.
Proof.
  intros f off len H0 H1 H2. unfold slice. rewrite firstn_length, skipn_length. lia.
Qed.

Lemma in_fileb_true : forall n r, in_fileb n r = true <-> in_file n r.
Proof.
  intros n r. unfold in_fileb, in_file. rewrite !andb_true_iff, !Z.leb_le. tauto.
Qed.

Section LoadProofs.
  Variable parse_hdr : list N -> hdr_result.
  (** what is assumed of the Thrift page-header parser: it consumes at most the bytes it is given *)
  Hypothesis parse_consumes_given : forall bs h hs, parse_hdr bs = HdrOk h hs -> (hs <= length bs)%nat.
  (** ... and compressed_page_size is what thrift_read_i32 returns: a 32-bit integer *)
  Hypothesis parse_csize_i32 : forall bs h hs, parse_hdr bs = HdrOk h hs -> -2147483648 <= ph_csize h < 2147483648.

  Notation load := (load parse_hdr current_pchecks).

  (** whatever windows the widening tries, a header that parses was parsed from a window inside the bytes available *)
  Lemma widen_ok : forall fuel f off avail w h hs,
    0 <= off -> 0 <= w <= avail -> off + avail <= Z.of_nat (length f) ->
    widen parse_hdr fuel f off avail w = HdrOk h hs ->
    exists w', 0 <= w' <= avail /\ parse_hdr (slice f off w') = HdrOk h hs.
  Proof.
    induction fuel as [|fuel IH]; intros f off avail w h hs Ho Hw Ha X; cbn [widen] in X.
    - exists w. split; [lia|exact X].
    - destruct (parse_hdr (slice f off w)) as [h0 hs0|c|] eqn:E.
      + exists w. split; [lia|]. rewrite E. exact X.
      + destruct ((w <? avail) && (w <? window_max)); [|discriminate].
        apply IH in X; auto. unfold window_max. lia.
      + destruct ((w <? avail) && (w <? window_max)); [|discriminate].
        apply IH in X; auto. unfold window_max. lia.
  Qed.

  (** Every byte range of the file a page load reads lies inside the file - or the load reports an error.
      For all files, all offsets (any int64), all page headers, both I/O paths, both page kinds. *)
  Theorem page_load_in_bounds : forall p k f off,
    (exists c, load p k f off = Err c) \/
    (exists l, load p k f off = Ok l /\
       Forall (in_file (Z.of_nat (length f))) (ld_reads l) /\ in_file (Z.of_nat (length f)) (ld_body l) /\
       0 <= ld_hs l /\ r_off (ld_body l) = off + ld_hs l /\ r_len (ld_body l) = ph_csize (ld_header l) /\
       0 <= off < Z.of_nat (length f)).
  Proof.
    intros p k f off. set (n := Z.of_nat (length f)). destruct p; simpl load.
    - (* mapped *)
      unfold load_mapped. fold n. rewrite cur_offset, cur_window, cur_psize. simpl andb.
      destruct ((off <? 0) || (off >=? n)) eqn:Eo; [left; eauto|].
      apply orb_false_iff in Eo. destruct Eo as [E1 E2]. apply Z.ltb_ge in E1.
      rewrite Z.geb_leb in E2. apply Z.leb_gt in E2.
      assert (Eo2 : (off <? 0) || (off >? n) = false).
      { apply orb_false_iff. split; [apply Z.ltb_ge; lia|]. rewrite Z.gtb_ltb. apply Z.ltb_ge. lia. }
      rewrite Eo2. rewrite window_size_val.
      set (avail := n - off). set (window := Z.min avail 256).
      assert (Hg : Z.min window avail = window) by (unfold window; lia).
      rewrite Hg.
      destruct (widen parse_hdr 8 f off avail window) as [h hs| c |] eqn:Ew.
      + destruct (widen_ok 8 f off avail window h hs) as (w' & Hw' & Ep); try (unfold window, avail; lia); [exact Ew|].
        pose proof (parse_csize_i32 _ _ _ Ep) as Hi32. apply parse_consumes_given in Ep.
        assert (Hlen : Z.of_nat (length (slice f off w')) = w').
        { apply slice_length; unfold window, avail in *; lia. }
        destruct (type_verdict k (ph_type h)); [left; eauto|].
        destruct ((ph_csize h <? 0) || (ph_csize h >? avail - Z.of_nat hs)) eqn:Ec; [left; eauto|].
        apply orb_false_iff in Ec. destruct Ec as [Ec1 Ec2]. apply Z.ltb_ge in Ec1.
        rewrite Z.gtb_ltb in Ec2. apply Z.ltb_ge in Ec2.
        assert (Hmod : ph_csize h mod two64 = ph_csize h).
        { apply Z.mod_small. unfold two64. lia. }
        rewrite Hmod.
        assert (Hin : in_file n (mkRange (off + Z.of_nat hs) (ph_csize h))).
        { unfold in_file; simpl. unfold avail, window in *. lia. }
        apply in_fileb_true in Hin. rewrite Hin. right. eexists. split; [reflexivity|]. simpl.
        apply in_fileb_true in Hin.
        split; [|split; [exact Hin|]].
        * constructor; [|constructor; [exact Hin|constructor]]. unfold in_file; simpl. unfold avail, window in *. lia.
        * unfold avail, window in *. repeat split; try lia.
      + left; eauto.
      + assert (Hw : (window >? avail) = false) by (rewrite Z.gtb_ltb; apply Z.ltb_ge; unfold window; lia).
        rewrite Hw. left; eauto.
    - (* stdio *)
      unfold load_stdio. fold n. rewrite cur_short. simpl andb. rewrite window_size_val, min_header_read_val.
      destruct (off <? 0) eqn:E1; [left; eauto|]. apply Z.ltb_ge in E1.
      set (hr := Z.max 0 (Z.min 256 (n - off))).
      destruct (hr <? 8) eqn:Eh; [left; eauto|]. apply Z.ltb_ge in Eh.
      assert (Hno : 8 <= n - off) by (unfold hr in Eh; lia).
      destruct (widen parse_hdr 8 f off (n - off) hr) as [h hs| c |] eqn:Ew; [|left; eauto|left; eauto].
      destruct (widen_ok 8 f off (n - off) hr h hs) as (w' & Hw' & Ep); try (unfold hr, n in *; lia); [exact Ew|].
      apply parse_consumes_given in Ep.
      assert (Hlen : Z.of_nat (length (slice f off w')) = w') by (apply slice_length; unfold n in *; lia).
      destruct (type_verdict k (ph_type h)); [left; eauto|].
      destruct (ph_csize h <? 0) eqn:Ec; [left; eauto|]. apply Z.ltb_ge in Ec.
      set (dr := Z.max 0 (Z.min (ph_csize h) (n - (off + Z.of_nat hs)))).
      destruct (negb (dr =? ph_csize h)) eqn:Ed; [left; eauto|].
      apply negb_false_iff in Ed. apply Z.eqb_eq in Ed.
      right. eexists. split; [reflexivity|]. simpl. rewrite Ed.
      assert (Hb : in_file n (mkRange (off + Z.of_nat hs) (ph_csize h))).
      { unfold in_file; simpl. unfold dr, hr in *. lia. }
      split; [|split; [exact Hb|]].
      + constructor; [|constructor; [exact Hb|constructor]]. unfold in_file; simpl. unfold hr. lia.
      + repeat split; try lia.
  Qed.
End LoadProofs.

(* ------------------------------------------------------------------------------------------------ *)
(** * Inside a page: zero-copy view, dictionary copy, copy-out *)

Lemma value_size_nonneg : forall t tl, 0 <= value_size t tl.
Proof.
  intros t tl. unfold value_size.
  repeat match goal with |- context [if ?b then _ else _] => destruct b end; try lia.
  apply Z.mod_pos_bound. reflexivity.
Qed.

(** The view handed to read_batch lies inside the page body (or the load is refused). *)
Theorem zero_copy_view_in_body : forall r l,
  0 <= r_len (ld_body l) ->
  (exists c, zero_copy_view current_pchecks r l = Err c) \/
  (exists v, zero_copy_view current_pchecks r l = Ok v /\
     r_off v = r_off (ld_body l) /\ 0 <= r_len v <= r_len (ld_body l)).
Proof.
  intros r l Hb. unfold zero_copy_view. rewrite cur_zc. simpl andb.
  set (nv := ph_num_values (ld_header l)). set (vs := value_size (cr_type r) (cr_type_length r)).
  assert (Hvs : 0 <= vs) by apply value_size_nonneg.
  destruct (nv <? 0) eqn:En; [left; eauto|]. apply Z.ltb_ge in En.
  destruct (negb (vs =? 0) && (nv >? r_len (ld_body l) / vs)) eqn:Ec; [left; eauto|].
  right. eexists. split; [reflexivity|]. simpl. split; [reflexivity|].
  apply andb_false_iff in Ec. destruct Ec as [Ec|Ec].
  - apply negb_false_iff in Ec. apply Z.eqb_eq in Ec. rewrite Ec. lia.
  - rewrite Z.gtb_ltb in Ec. apply Z.ltb_ge in Ec.
    assert (Hp : 0 < vs \/ vs = 0) by lia. destruct Hp as [Hp|Hp]; [|rewrite Hp; lia].
    split; [apply Z.mul_nonneg_nonneg; lia|].
    apply Z.le_trans with (m := (r_len (ld_body l) / vs) * vs).
    + apply Z.mul_le_mono_nonneg_r; lia.
    + rewrite Z.mul_comm. apply Z.mul_div_le. exact Hp.
Qed.

(** The fixed-width dictionary copy stays inside the page. *)
Theorem dictionary_copy_in_bounds : forall r dn ps,
  0 <= ps ->
  (exists c, dictionary_copy current_pchecks r dn ps = Err c) \/
  (exists b, dictionary_copy current_pchecks r dn ps = Ok b /\ 0 <= b <= ps).
Proof.
  intros r dn ps Hps. unfold dictionary_copy. rewrite cur_dict. simpl andb.
  set (vs := dict_value_size (cr_type r) (cr_type_length r)).
  assert (Hvs : 0 <= vs).
  { unfold vs, dict_value_size. destruct ((cr_type r =? E_CARQUET_PHYSICAL_BOOLEAN) || (cr_type r =? E_CARQUET_PHYSICAL_BYTE_ARRAY));
      [lia|apply value_size_nonneg]. }
  destruct ((dn <? 0) || (negb (vs =? 0) && (dn >? ps / vs))) eqn:Ec; [left; eauto|].
  apply orb_false_iff in Ec. destruct Ec as [E1 E2]. apply Z.ltb_ge in E1.
  assert (Hb : 0 <= vs * dn <= ps).
  { apply andb_false_iff in E2. destruct E2 as [E2|E2].
    - apply negb_false_iff in E2. apply Z.eqb_eq in E2. rewrite E2. lia.
    - rewrite Z.gtb_ltb in E2. apply Z.ltb_ge in E2.
      assert (Hp : 0 < vs \/ vs = 0) by lia. destruct Hp as [Hp|Hp]; [|rewrite Hp; lia].
      split; [apply Z.mul_nonneg_nonneg; lia|].
      apply Z.le_trans with (m := vs * (ps / vs)).
      + apply Z.mul_le_mono_nonneg_l; lia.
      + apply Z.mul_div_le. exact Hp. }
  destruct Hb as [Hb1 Hb2]. apply Z.leb_le in Hb1. apply Z.leb_le in Hb2. rewrite Hb1, Hb2. simpl.
  right. eexists. split; [reflexivity|]. apply Z.leb_le in Hb1. apply Z.leb_le in Hb2. lia.
Qed.

(** read_batch never writes more into the caller's buffer than the caller - who sized it from the schema
    type - made room for: for every column reader get_column hands out. *)
Theorem decode_writes_in_bounds : forall m rg col r pv vr mv,
  get_column current_pchecks m rg col = Ok r -> 0 <= mv ->
  exists w, copy_out r pv vr mv = Ok w /\
            0 <= w <= mv * value_size (cr_schema_type r) (cr_type_length r).
Proof.
  intros m rg col r pv vr mv Hg Hmv. apply get_column_types_agree in Hg.
  unfold copy_out. rewrite Hg.
  set (vs := value_size (cr_schema_type r) (cr_type_length r)).
  assert (Hvs : 0 <= vs) by apply value_size_nonneg.
  destruct (Z.min mv (pv - vr) <=? 0) eqn:E.
  - eexists. split; [reflexivity|]. split; [lia|apply Z.mul_nonneg_nonneg; lia].
  - apply Z.leb_gt in E.
    assert (Hle : Z.min mv (pv - vr) * vs <= mv * vs) by (apply Z.mul_le_mono_nonneg_r; lia).
    apply Z.leb_le in Hle. rewrite Hle. eexists. split; [reflexivity|].
    apply Z.leb_le in Hle. split; [apply Z.mul_nonneg_nonneg; lia|exact Hle].
Qed.

(* ------------------------------------------------------------------------------------------------ *)
(** * Termination of the page walk *)

Section WalkProofs.
  Variable parse_hdr : list N -> hdr_result.
  Hypothesis parse_consumes_given : forall bs h hs, parse_hdr bs = HdrOk h hs -> (hs <= length bs)%nat.
  Hypothesis parse_csize_i32 : forall bs h hs, parse_hdr bs = HdrOk h hs -> -2147483648 <= ph_csize h < 2147483648.
  (** a parsed struct takes at least its stop byte *)
  Hypothesis parse_consumes_some : forall bs h hs, parse_hdr bs = HdrOk h hs -> (1 <= hs)%nat.

  Notation load := (load parse_hdr current_pchecks).
  Notation walk := (walk parse_hdr current_pchecks).

  Lemma widen_some : forall fuel f off avail w h hs,
    widen parse_hdr fuel f off avail w = HdrOk h hs -> exists bs, parse_hdr bs = HdrOk h hs.
  Proof.
    induction fuel as [|fuel IH]; intros f off avail w h hs X; cbn [widen] in X.
    - eexists; exact X.
    - destruct (parse_hdr (slice f off w)) as [h0 hs0|c|] eqn:E.
      + exists (slice f off w). rewrite E. exact X.
      + destruct ((w <? avail) && (w <? window_max)); [eapply IH; eauto|discriminate].
      + destruct ((w <? avail) && (w <? window_max)); [eapply IH; eauto|discriminate].
  Qed.

  (** the header size of a loaded page is the byte count of a successful header parse *)
  Lemma load_ok_parse : forall p k f off l, load p k f off = Ok l ->
    exists bs h hs, parse_hdr bs = HdrOk h hs /\ ld_hs l = Z.of_nat hs.
  Proof.
    intros p k f off l Hl. destruct p; simpl in Hl.
    - unfold load_mapped in Hl. rewrite cur_window in Hl.
      repeat match type of Hl with
             | (if ?b then _ else _) = _ => destruct b; try discriminate
             end.
      destruct (widen parse_hdr 8 f off _ _) as [h hs|c|] eqn:Ew; try discriminate.
      2: { repeat match type of Hl with (if ?b then _ else _) = _ => destruct b; try discriminate end. }
      destruct (widen_some _ _ _ _ _ _ _ Ew) as [bs Hbs].
      repeat match type of Hl with
             | (if ?b then _ else _) = _ => destruct b; try discriminate
             | match ?x with _ => _ end = _ => destruct x; try discriminate
             end.
      inversion Hl; subst; simpl. eauto.
    - unfold load_stdio in Hl.
      repeat match type of Hl with
             | (if ?b then _ else _) = _ => destruct b; try discriminate
             end.
      destruct (widen parse_hdr 8 f off _ _) as [h hs|c|] eqn:Ew; try discriminate.
      destruct (widen_some _ _ _ _ _ _ _ Ew) as [bs Hbs].
      repeat match type of Hl with
             | (if ?b then _ else _) = _ => destruct b; try discriminate
             | match ?x with _ => _ end = _ => destruct x; try discriminate
             end.
      inversion Hl; subst; simpl. eauto.
  Qed.

  Lemma load_ok_advances : forall p f off l, load p DataPage f off = Ok l ->
    0 <= off < Z.of_nat (length f) /\ 1 <= ld_hs l /\ 0 <= r_len (ld_body l) /\
    off + ld_hs l + r_len (ld_body l) <= Z.of_nat (length f).
  Proof.
    intros p f off l H.
    destruct (page_load_in_bounds parse_hdr parse_consumes_given parse_csize_i32 p DataPage f off) as [[c Hc]|[l' [Hl [_ [Hb [Hhs [Hoff [Hlen Hrange]]]]]]]].
    - rewrite Hc in H. discriminate.
    - rewrite Hl in H. inversion H; subst l'. clear H.
      destruct Hb as [Hb1 [Hb2 Hb3]]. split; [exact Hrange|].
      assert (H1 : 1 <= ld_hs l).
      { destruct (load_ok_parse _ _ _ _ _ Hl) as (bs & h & hs & Hp & ->). apply parse_consumes_some in Hp. lia. }
      split; [exact H1|]. split; [exact Hb2|]. lia.
  Qed.

  Lemma walk_fuel : forall fuel p f off done,
    (1 <= fuel)%nat -> (0 <= off -> Z.of_nat (length f) - off < Z.of_nat fuel) ->
    exists k, walk fuel p f off done = Ok k /\ (k <= done + fuel)%nat.
  Proof.
    induction fuel as [|fuel IH]; intros p f off done H1 Hm; [lia|].
    simpl PageBoundsModel.walk.
    destruct (load p DataPage f off) as [l|c|ft] eqn:El.
    - destruct (load_ok_advances _ _ _ _ El) as [[Ho1 Ho2] [Hhs [Hlen Hend]]].
      specialize (Hm Ho1).
      assert (Hf : (1 <= fuel)%nat) by lia.
      destruct (IH p f (off + ld_hs l + r_len (ld_body l)) (S done) Hf) as [k [Hk Hle]]; [intros; lia|].
      exists k. split; [exact Hk|lia].
    - exists done. split; [reflexivity|lia].
    - exfalso.
      destruct (page_load_in_bounds parse_hdr parse_consumes_given parse_csize_i32 p DataPage f off) as [[c Hc]|[l' [Hl _]]];
        rewrite El in *; discriminate.
  Qed.

  (** Fuel linear in the file size suffices, whatever the metadata and the page headers say: the
      reader cannot be made to loop or to revisit a page.  (length f + 1 page loads at most.) *)
  Theorem read_terminates_linear : forall p f off,
    exists k, walk (length f + 1) p f off 0 = Ok k /\ (k <= length f + 1)%nat.
  Proof.
    intros p f off.
    destruct (walk_fuel (length f + 1) p f off 0%nat) as [k [Hk Hle]]; [lia|intros; lia|].
    exists k. split; [exact Hk|lia].
  Qed.
End WalkProofs.

(* ------------------------------------------------------------------------------------------------ *)
(** * Error records *)

Theorem error_has_code_and_nul_message : forall code text,
  code <> 0 ->
  e_code (error_set code text) <> 0 /\
  (length (e_message (error_set code text)) <= N.to_nat Robust_CARQUET_ERROR_MESSAGE_MAX)%nat /\
  last (e_message (error_set code text)) 1%N = 0%N /\
  In 0%N (e_message (error_set code text)).
Proof.
  intros code text Hc. unfold error_set. cbn [e_code e_message].
  set (k := (N.to_nat Robust_CARQUET_ERROR_MESSAGE_MAX - 1)%nat).
  set (body := firstn k (filter (fun c : N => negb (c =? 0)%N) text)).
  assert (Hb : (length body <= k)%nat) by (unfold body; rewrite firstn_length; lia).
  assert (Hk : (k + 1 = N.to_nat Robust_CARQUET_ERROR_MESSAGE_MAX)%nat) by (vm_compute; reflexivity).
  split; [exact Hc|]. split.
  - rewrite app_length. simpl length. lia.
  - split; [apply last_last|]. apply in_or_app. right. left. reflexivity.
Qed.

(* ------------------------------------------------------------------------------------------------ *)
(** * open *)

Section OpenSafe.
  Variable parse : list N -> res file_meta.
  (** Premises about parquet_parse_file_metadata + build_schema (the Thrift owner's side, C13):
      the count limits of parquet_types.c hold for what it returns, leaf indices point into the
      schema, it never faults, and it never "fails" with CARQUET_OK. *)
  Hypothesis parse_within_limits : forall bs m, parse bs = Ok m -> within_limits m.
  Hypothesis parse_no_fault : forall bs ft, parse bs <> Fault ft.
  Hypothesis parse_err_nonzero : forall bs, parse bs <> Err 0.

  Theorem open_safe : forall mode f,
    (exists c, open file_meta parse mode f = Err c /\ c <> 0) \/
    (exists m, open file_meta parse mode f = Ok m /\ within_limits m).
  Proof.
    intros mode f.
    destruct (open_err_or_parse file_meta parse mode f) as [H|[off [len [_ H]]]]; [left; exact H|].
    rewrite H. destruct (parse (region f off len)) as [m|c|ft] eqn:E.
    - right. exists m. split; [reflexivity|]. eapply parse_within_limits; eauto.
    - left. exists c. split; [reflexivity|]. intros ->. eapply parse_err_nonzero; eauto.
    - exfalso. eapply parse_no_fault; eauto.
  Qed.
End OpenSafe.

(* ------------------------------------------------------------------------------------------------ *)
(** * The pinned tree: refuted (DESIGN F21-F24), witnesses replayed from corpus/C04 *)

Definition hdr_const (h : page_header) (hs : nat) : list N -> hdr_result := fun _ => HdrOk h hs.

(** F21: the mapped path used the page offset unchecked. *)
Theorem page_load_in_bounds_refuted_pinned_offset :
  exists parse_hdr f off, load parse_hdr pinned_pchecks Mapped DataPage f off = Fault OobRead.
Proof.
  exists (hdr_const (mkPH 0 8 8 false 2 0 0) 4), (repeat 0%N 32), 10001. reflexivity.
Qed.

(** F21: ... and the compressed page size (here -240, as in corpus/C04/f21_page_size_negative_mmap.json). *)
Theorem page_load_in_bounds_refuted_pinned_size :
  exists parse_hdr f off, load parse_hdr pinned_pchecks Mapped DataPage f off = Fault OobRead.
Proof.
  exists (hdr_const (mkPH 0 8 (-240) false 2 0 0) 4), (repeat 0%N 64), 8. reflexivity.
Qed.

(** F21: ... and the fixed 256-byte header window near the end of the mapping. *)
Theorem page_load_in_bounds_refuted_pinned_window :
  exists parse_hdr f off, load parse_hdr pinned_pchecks Mapped DataPage f off = Fault OobRead.
Proof.
  exists (fun _ => HdrShort), (repeat 0%N 64), 40. reflexivity.
Qed.

(** F22: zero-copy view longer than the page (463 INT64 values in a 20-byte page). *)
Theorem zero_copy_view_refuted_pinned :
  exists r l v, zero_copy_view pinned_pchecks r l = Ok v /\ r_len (ld_body l) < r_len v.
Proof.
  exists (mkCR E_CARQUET_PHYSICAL_INT64 0 E_CARQUET_PHYSICAL_INT64 (mkCM 2 0 463 4 false 0)),
         (mkLoaded (mkPH 0 20 20 false 463 0 0) 10 (mkRange 14 20) []).
  eexists. split; [reflexivity|]. reflexivity.
Qed.

(** F23: fixed-width dictionary copy beyond the page (1000 INT32 entries from a 4-byte page). *)
Theorem dictionary_copy_refuted_pinned :
  exists r dn ps, dictionary_copy pinned_pchecks r dn ps = Fault OobRead.
Proof.
  exists (mkCR E_CARQUET_PHYSICAL_INT32 0 E_CARQUET_PHYSICAL_INT32 (mkCM 1 0 10 4 true 4)), 1000, 4. reflexivity.
Qed.

(** F24: chunk type INT96 under a schema that says INT32: the copy-out overflows the caller's buffer. *)
Theorem decode_writes_in_bounds_refuted_pinned :
  exists m rg col r mv, get_column pinned_pchecks m rg col = Ok r /\ copy_out r 10 0 mv = Fault OobWrite.
Proof.
  exists (mkFM [mkSE false 0 0 1; mkSE true E_CARQUET_PHYSICAL_INT32 0 0]
               [mkRG [mkCC true (mkCM E_CARQUET_PHYSICAL_INT96 0 10 4 false 0)] 10] [1%nat]), 0, 0.
  eexists. exists 4. split; reflexivity.
Qed.

(** The same inputs on the current checks are rejected with an error. *)
Example f21_now_rejected :
  load (hdr_const (mkPH 0 8 (-240) false 2 0 0) 4) current_pchecks Mapped DataPage (repeat 0%N 64) 8
  = Err E_CARQUET_ERROR_INVALID_PAGE.
Proof. reflexivity. Qed.
Example f24_now_rejected :
  get_column current_pchecks (mkFM [mkSE false 0 0 1; mkSE true E_CARQUET_PHYSICAL_INT32 0 0]
               [mkRG [mkCC true (mkCM E_CARQUET_PHYSICAL_INT96 0 10 4 false 0)] 10] [1%nat]) 0 0
  = Err E_CARQUET_ERROR_TYPE_MISMATCH.
Proof. reflexivity. Qed.

(** Hypotheses are satisfiable by non-trivial values: a load that succeeds, a walk over two pages. *)
Example load_ok_example :
  exists l, load (hdr_const (mkPH 0 8 8 false 2 0 0) 4) current_pchecks Mapped DataPage (repeat 0%N 64) 8 = Ok l
            /\ ld_body l = mkRange 12 8.
Proof. eexists. split; reflexivity. Qed.
Example walk_example :
  walk (hdr_const (mkPH 0 8 8 false 2 0 0) 4) current_pchecks 33 Stdio (repeat 0%N 32) 4 0 = Ok 2%nat.
Proof. reflexivity. Qed.
