(** Proofs for C02 (batch reader part) and C03 (independence of the I/O mode). *)
From Coq Require Import List ZArith Bool Arith Lia ZifyBool ZifyNat ZifyN.
From Carquet Require Import Base.Res Gen.Reader_gen Reader.CursorSpec Reader.CursorModel Reader.IoModeModel
     Reader.BatchModel Reader.ReaderProofs.
Import ListNotations.
Local Open Scope Z_scope.

(* ------------------------------------------------------------------ C03: column reader *)

(** the I/O mode reaches the column reader only through the ownership flag of the decoded page, which no
    observable output depends on *)
Theorem io_mode_irrelevant_column_proved {A} (garbage : A) max_def eligible (pages : list (@page A)) ops m1 m2 :
  chunk_ok max_def pages -> Forall op_ok ops ->
  run garbage true ops (open max_def (loads_view m1 eligible) pages) =
  run garbage true ops (open max_def (loads_view m2 eligible) pages).
Proof.
  intros Hc Hok. rewrite !(cursor_refines_proved garbage max_def _ pages ops Hc Hok). reflexivity.
Qed.

(* ------------------------------------------------------------------ C03: footer location *)

Lemma list_eqb_refl l : list_eqb l l = true.
Proof.
  unfold list_eqb. rewrite Nat.eqb_refl. cbn [andb].
  induction l as [|x l IH]; [reflexivity|]. cbn [combine forallb fst snd]. rewrite N.eqb_refl. exact IH.
Qed.

(** the three footer readers locate the same bytes in every file that starts with the magic (a valid file does) *)
Theorem footer_location_irrelevant_proved file m1 m2 :
  firstn 4 file = magic -> footer_location m1 file = footer_location m2 file.
Proof.
  intro H. unfold footer_location. rewrite H, list_eqb_refl. cbn [negb]. rewrite !andb_false_r. reflexivity.
Qed.

(** a file on which the modes would differ: leading magic damaged (stdio never looks at it) *)
Example footer_head_magic_matters :
  exists file, footer_location Fread file <> footer_location Mmap file.
Proof.
  exists [88;65;82;49; 0;0;0;0; 80;65;82;49]%N. vm_compute. discriminate.
Qed.

(* ------------------------------------------------------------------ C02: one column of one batch *)

Arguments Z.add : simpl never.
Arguments Z.sub : simpl never.
Arguments Z.of_nat : simpl never.
Arguments Z.to_nat : simpl never.
Arguments Nat.sub : simpl never.
Arguments Nat.min : simpl never.
Arguments firstn : simpl nomatch.
Arguments skipn : simpl nomatch.

Section Column.
Context {A : Type}.
Variable garbage : A.
Variable m : io_mode.

Notation chunk := (@chunk A).
Notation cstate := (@cstate A).

(** a valid stored chunk: consistent pages, no definition level above the column's maximum *)
Definition chunk_okb (ch : chunk) : Prop :=
  chunk_ok (ch_max_def ch) (ch_pages ch) /\
  Forall (fun p : @page A => Forall (fun l => (l <= ch_max_def ch)%N) (pg_levels p)) (ch_pages ch).

Definition ch_rows (ch : chunk) : list (option A) := rows_of garbage (ch_max_def ch) (ch_pages ch).
Definition ch_total (ch : chunk) : nat := total_rows (ch_pages ch).

(** the column reader [cr] of chunk [ch] stands at row [pos] *)
Definition CInv (ch : chunk) (cr : cstate) (pos : nat) : Prop :=
  Inv garbage (ch_max_def ch) (loads_view m (ch_eligible ch)) (ch_pages ch) cr pos.

Lemma Forall_firstn {B} (P : B -> Prop) l n : Forall P l -> Forall P (firstn n l).
Proof. intro H. apply Forall_forall. intros x Hx. eapply Forall_forall; [exact H|]. eapply In_firstn; exact Hx. Qed.
Lemma Forall_skipn {B} (P : B -> Prop) l n : Forall P l -> Forall P (skipn n l).
Proof. intro H. apply Forall_forall. intros x Hx. eapply Forall_forall; [exact H|]. eapply In_skipn; exact Hx. Qed.

Lemma flat_levels_le ch : chunk_okb ch -> Forall (fun l => (l <= ch_max_def ch)%N) (flatL (ch_max_def ch) (ch_pages ch)).
Proof.
  intros [_ H]. unfold flatL. induction H as [|p ps Hp _ IH]; cbn [flat_map]; [constructor|].
  apply Forall_app. split; [|exact IH].
  unfold dec_levels. destruct (N.eqb (ch_max_def ch) 0) eqn:E; [|exact Hp].
  apply Forall_forall. intros x Hx. apply repeat_spec in Hx. subst x. lia.
Qed.

Lemma seg_levels_le ch pos c : chunk_okb ch -> Forall (fun l => (l <= ch_max_def ch)%N) (segL (ch_max_def ch) (ch_pages ch) pos c).
Proof. intro H. unfold segL. apply Forall_firstn, Forall_skipn, flat_levels_le, H. Qed.

Lemma bits_is_null md lv vs :
  Forall (fun l => (l <= md)%N) lv -> map (fun l => N.ltb l md) lv = map is_null (rebuild garbage md lv vs).
Proof.
  intro H. revert vs. induction H as [|l lv Hl _ IH]; intro vs; cbn [map rebuild]; [reflexivity|].
  destruct (N.eqb l md) eqn:E.
  - apply N.eqb_eq in E. subst l. rewrite N.ltb_irrefl.
    destruct vs as [|v vs]; cbn [map is_null]; f_equal; apply IH.
  - cbn [map is_null]. f_equal; [|apply IH]. apply N.eqb_neq in E. apply N.ltb_lt. lia.
Qed.

Lemma false_bits_count md lv :
  Forall (fun l => (l <= md)%N) lv -> length (filter negb (map (fun l => N.ltb l md) lv)) = count_present md lv.
Proof.
  induction 1 as [|l lv Hl _ IH]; cbn [map filter count_present length]; [reflexivity|].
  destruct (N.eqb l md) eqn:E.
  - apply N.eqb_eq in E. subst l. rewrite N.ltb_irrefl. cbn [negb length]. rewrite IH. reflexivity.
  - apply N.eqb_neq in E. assert (Hlt : N.ltb l md = true) by (apply N.ltb_lt; lia). rewrite Hlt. cbn [negb]. rewrite IH. reflexivity.
Qed.

Lemma required_all_present ch pos c :
  ch_max_def ch = 0%N -> (pos + c <= ch_total ch)%nat ->
  count_present (ch_max_def ch) (segL (ch_max_def ch) (ch_pages ch) pos c) = c /\
  count_present (ch_max_def ch) (firstn pos (flatL (ch_max_def ch) (ch_pages ch))) = pos.
Proof.
  intros E H. unfold ch_total in H.
  assert (Hall : forall x, In x (flatL (ch_max_def ch) (ch_pages ch)) -> x = ch_max_def ch).
  { intros x Hx. unfold flatL in Hx. apply in_flat_map in Hx. destruct Hx as (p & _ & Hp).
    eapply dec_levels_required; [exact E|exact Hp]. }
  split.
  - rewrite count_all_present.
    + apply segL_length. exact H.
    + intros x Hx. apply Hall. unfold segL in Hx. eapply In_skipn, In_firstn. exact Hx.
  - rewrite count_all_present.
    + rewrite firstn_length, flatL_length. lia.
    + intros x Hx. apply Hall. eapply In_firstn. exact Hx.
Qed.

(** the block of rows [pos, pos+rows) of a chunk, as a batch column exposes it *)
Definition ch_block (ch : chunk) (pos rows : nat) : batch_col A := col_block (firstn rows (skipn pos (ch_rows ch))).

Lemma ch_block_eq ch pos rows :
  chunk_okb ch -> (pos + rows <= ch_total ch)%nat ->
  ch_block ch pos rows =
  {| bc_num_values := Z.of_nat rows;
     bc_bitmap := map (fun l => N.ltb l (ch_max_def ch)) (segL (ch_max_def ch) (ch_pages ch) pos rows);
     bc_packed := segV (ch_max_def ch) (ch_pages ch) pos rows |}.
Proof.
  intros Hok Hle. destruct Hok as [Hc Hl]. unfold ch_block, col_block, ch_rows.
  f_equal.
  - rewrite firstn_length, skipn_length, rows_of_length. unfold ch_total in Hle. f_equal. lia.
  - rewrite <- (seg_rows garbage _ _ Hc pos rows []). symmetry. apply bits_is_null.
    apply seg_levels_le. split; assumption.
  - apply somes_seg. exact Hc.
Qed.

(** the copying branch *)
Lemma read_column_copy ch cr pos rows :
  chunk_okb ch -> CInv ch cr pos -> (0 < rows)%nat -> (pos + rows <= ch_total ch)%nat ->
  exists cr2 r,
    read_batch garbage true cr (Z.of_nat rows) (negb (N.eqb (ch_max_def ch) 0)) = Ok (cr2, r) /\
    CInv ch cr2 (pos + rows) /\ br_ret r = Z.of_nat rows /\
    observe_col {| cd_num := br_ret r;
                   cd_bits := if N.eqb (ch_max_def ch) 0 then repeat false (Z.to_nat (br_ret r))
                              else map (fun l => N.ltb l (ch_max_def ch)) (firstn (Z.to_nat (br_ret r)) (br_levels r));
                   cd_data := br_vals r; cd_max_def := ch_max_def ch |} = ch_block ch pos rows.
Proof.
  intros Hok HI Hr Hle. pose proof Hok as [Hc Hl]. unfold CInv in *.
  destruct (read_batch_spec garbage _ _ _ Hc cr pos (Z.of_nat rows) (negb (N.eqb (ch_max_def ch) 0)) HI ltac:(lia))
    as (cr2 & Er & HI2). cbn zeta in Er, HI2. rewrite Nat2Z.id in Er, HI2.
  unfold ch_total in Hle.
  replace (Nat.min rows (total_rows (ch_pages ch) - pos)) with rows in * by lia.
  eexists _, _. split; [exact Er|]. split; [exact HI2|]. cbn [br_ret br_levels br_vals]. split; [reflexivity|].
  rewrite (ch_block_eq ch pos rows Hok Hle). unfold observe_col. cbn [cd_num cd_bits cd_data cd_max_def]. rewrite Nat2Z.id.
  set (sl := segL (ch_max_def ch) (ch_pages ch) pos rows). set (sv := segV (ch_max_def ch) (ch_pages ch) pos rows).
  assert (Hsl : length sl = rows) by (apply segL_length; exact Hle).
  assert (Hsv : length sv = count_present (ch_max_def ch) sl) by (apply segV_length; exact Hc).
  assert (Hle_l : Forall (fun l => (l <= ch_max_def ch)%N) sl) by (apply seg_levels_le; exact Hok).
  destruct (N.eqb (ch_max_def ch) 0) eqn:E0.
  - apply N.eqb_eq in E0. cbn [negb].
    destruct (required_all_present ch pos rows E0 Hle) as [Hcnt _]. fold sl in Hcnt.
    f_equal.
    + rewrite E0. rewrite <- Hsl. clear. induction sl as [|x sl IH]; [reflexivity|]. cbn [length repeat map].
      f_equal; [|exact IH]. symmetry. apply N.ltb_ge. lia.
    + unfold vpad. rewrite firstn_app_l by lia. rewrite <- Hcnt, <- Hsv. apply firstn_all.
  - cbn [negb]. unfold lpad.
    assert (Hf : firstn rows (sl ++ repeat garbage_level (rows - length sl)) = sl).
    { rewrite firstn_app_l by lia. rewrite <- Hsl. apply firstn_all. }
    rewrite Hf. f_equal.
    rewrite false_bits_count by exact Hle_l. unfold vpad. rewrite firstn_app_l by lia. rewrite <- Hsv. apply firstn_all.
Qed.

(** the zero-copy branch (repaired): a view on exactly the rows of the batch *)
Lemma read_column_view ch cr pos rows :
  chunk_okb ch -> CInv ch cr pos -> ch_max_def ch = 0%N -> cs_loaded cr = true ->
  (rows <= cs_pnum cr - cs_pread cr)%nat -> (pos + rows <= ch_total ch)%nat ->
  exists view,
    copy_out (cs_dvals cr) (cs_pread cr) rows = Ok view /\
    CInv ch (set_zc_consumed cr rows) (pos + rows) /\
    observe_col {| cd_num := Z.of_nat rows; cd_bits := repeat false rows; cd_data := view; cd_max_def := ch_max_def ch |}
      = ch_block ch pos rows.
Proof.
  intros Hok HI E0 El Hav Hle. pose proof Hok as [Hc Hl]. unfold CInv in *.
  destruct HI as (Hpg & Hmd & Hzc & Hle0 & Hrem & Hld). rewrite El in Hld.
  destruct Hld as (before & p & after & E & Hcur & Hpn & Hpr & Hpos & Hdl & Hdv & Hpd).
  destruct (chunk_split_ok _ _ Hc _ _ _ E) as (Hb & Hp & _).
  (* a REQUIRED page holds one value per row *)
  assert (Hvals : length (pg_vals p) = length (pg_levels p)).
  { unfold page_ok in Hp. rewrite Hp. rewrite count_all_present.
    - apply dec_levels_length.
    - intros x Hx. eapply dec_levels_required; [exact E0|exact Hx]. }
  assert (Hrd : (cs_pread cr + rows <= length (pg_vals p))%nat) by lia.
  rewrite copy_out_ok by (rewrite Hdv; unfold dec_vals; rewrite app_length; lia).
  eexists. split; [reflexivity|]. split.
  - unfold Inv, set_zc_consumed.
    cbn [cs_pages cs_max_def cs_zc cs_remaining cs_loaded cs_cur cs_pnum cs_pread cs_pdense cs_dvals cs_dlevels].
    rewrite El. unfold ch_total in Hle. repeat split; try assumption; try lia.
    exists before, p, after. repeat split; try assumption; try lia; try (intro Hn; congruence).
  - rewrite (ch_block_eq ch pos rows Hok Hle). unfold observe_col. cbn [cd_num cd_bits cd_data cd_max_def].
    rewrite Nat2Z.id, E0. cbn [N.eqb].
    destruct (required_all_present ch pos rows E0 Hle) as [Hcnt Hcp]. rewrite E0 in Hcnt, Hcp.
    rewrite Hdv. rewrite (window_vals garbage _ before p after _ _ E Hrd).
    assert (Hoff : (length (flatV before) + cs_pread cr)%nat = pos).
    { pose proof (count_before _ _ Hc before p after (cs_pread cr) E Hpr) as Hcb.
      rewrite <- Hpos in Hcb. rewrite E0 in Hcb. rewrite Hcp in Hcb.
      rewrite count_all_present in Hcb.
      - rewrite firstn_length, dec_levels_length in Hcb. lia.
      - intros x Hx. rewrite <- E0. eapply dec_levels_required; [exact E0|]. rewrite E0. eapply In_firstn. exact Hx. }
    rewrite Hoff.
    assert (Hsv : segV 0%N (ch_pages ch) pos rows = firstn rows (skipn pos (flatV (ch_pages ch)))).
    { unfold segV. rewrite Hcnt, Hcp. reflexivity. }
    rewrite Hsv. f_equal.
    + assert (Hsl : length (segL 0%N (ch_pages ch) pos rows) = rows) by (apply segL_length; exact Hle).
      rewrite <- Hsl at 1. generalize (segL 0%N (ch_pages ch) pos rows). clear.
      induction l as [|x l IH]; [reflexivity|]. cbn [length repeat map]. f_equal; [|exact IH].
      symmetry. apply N.ltb_ge. lia.
    + apply firstn_all2. rewrite firstn_length. lia.
Qed.

(** one iteration of the main column loop: every column delivers exactly the [rows] rows of the batch *)
Lemma read_column_spec ch cr pos rows :
  chunk_okb ch -> CInv ch cr pos -> (0 < rows)%nat -> (pos + rows <= ch_total ch)%nat ->
  exists cr' d,
    read_column garbage true true m cr (Z.of_nat rows) = Ok (cr', Some d) /\
    CInv ch cr' (pos + rows) /\ observe_col d = ch_block ch pos rows /\ cd_num d = Z.of_nat rows.
Proof.
  intros Hok HI Hr Hle. pose proof Hok as [Hc Hl].
  assert (Hmd : cs_max_def cr = ch_max_def ch) by (destruct HI as (_ & H & _); exact H).
  unfold read_column. rewrite Hmd.
  (* the peek *)
  assert (Hpeek : exists cr1,
     (if batch_peeks m && N.eqb (ch_max_def ch) 0 && negb (cs_loaded cr)
      then match read_batch garbage true cr 0 false with
           | Ok (cr1, _) => Ok cr1 | Err c => Err c | Fault f => Fault f end
      else Ok cr) = Ok cr1 /\ CInv ch cr1 pos).
  { destruct (batch_peeks m && N.eqb (ch_max_def ch) 0 && negb (cs_loaded cr)).
    - destruct (read_batch_peek garbage _ _ _ Hc cr pos false HI) as (cr1 & Ep & HI1). rewrite Ep. exists cr1. split; [reflexivity|exact HI1].
    - exists cr. split; [reflexivity|exact HI]. }
  destruct Hpeek as (cr1 & Ep & HI1). rewrite Ep.
  destruct (cs_loaded cr1 && cs_view cr1 && (Z.of_nat (cs_pnum cr1 - cs_pread cr1) >=? Z.of_nat rows) && N.eqb (ch_max_def ch) 0) eqn:Ezc.
  - (* zero-copy *)
    apply andb_prop in Ezc. destruct Ezc as [Ezc E0]. apply andb_prop in Ezc. destruct Ezc as [Ezc Eav].
    apply andb_prop in Ezc. destruct Ezc as [El _]. apply N.eqb_eq in E0.
    rewrite Nat2Z.id.
    destruct (read_column_view ch cr1 pos rows Hok HI1 E0 El ltac:(lia) Hle) as (view & Ev & HI2 & Hobs).
    rewrite Ev. eexists _, _. split; [reflexivity|]. split; [exact HI2|]. split; [exact Hobs|reflexivity].
  - destruct (read_column_copy ch cr1 pos rows Hok HI1 Hr Hle) as (cr2 & r & Er & HI2 & Hret & Hobs).
    rewrite Er. rewrite Hret. destruct (Z.of_nat rows <? 0) eqn:En; [lia|].
    rewrite Hret in Hobs.
    eexists _, _. split; [reflexivity|]. split; [exact HI2|]. split; [exact Hobs|reflexivity].
Qed.

End Column.

(* ------------------------------------------------------------------ C02: all columns of one batch *)

Section Batch.
Context {A : Type}.
Variable garbage : A.
Variable m : io_mode.

Notation chunk := (@chunk A).
Notation cstate := (@cstate A).

(** the readers [rs] of the projected chunks [chs] all stand at row [pos] *)
Definition RInv (chs : list chunk) (rs : list cstate) (pos : nat) : Prop :=
  Forall2 (fun ch cr => CInv garbage m ch cr pos) chs rs.

Lemma prefetch_spec chs : forall rs pos,
  Forall chunk_okb chs -> RInv chs rs pos ->
  exists rs', prefetch garbage true rs = Ok rs' /\ RInv chs rs' pos.
Proof.
  induction chs as [|ch chs IH]; intros rs pos Hok HR; inversion HR as [|? cr ? rs0 Hcr Hrs]; subst.
  - exists []. split; [reflexivity|constructor].
  - inversion Hok as [|? ? Hch Hchs]; subst.
    destruct (IH rs0 pos Hchs Hrs) as (rs' & Ep & HR').
    cbn [prefetch]. rewrite Ep.
    destruct (negb (cs_loaded cr) && (cs_remaining cr >? 0)).
    + destruct Hch as [Hc _].
      destruct (read_batch_peek garbage _ _ _ Hc cr pos false Hcr) as (cr1 & Er & HI1). rewrite Er.
      exists (cr1 :: rs'). split; [reflexivity|]. constructor; assumption.
    + exists (cr :: rs'). split; [reflexivity|]. constructor; assumption.
Qed.

Lemma all_some_map {B} (l : list B) : all_some (map Some l) = Some l.
Proof. induction l as [|x l IH]; [reflexivity|]. cbn [map all_some]. rewrite IH. reflexivity. Qed.

Lemma read_columns_spec chs : forall rs pos rows,
  Forall chunk_okb chs -> Forall (fun ch => (pos + rows <= ch_total ch)%nat) chs ->
  RInv chs rs pos -> (0 < rows)%nat ->
  exists rs' ds,
    read_columns garbage true true m rs (Z.of_nat rows) = Ok (rs', map Some ds) /\
    RInv chs rs' (pos + rows) /\
    map observe_col ds = map (fun ch => ch_block garbage ch pos rows) chs /\
    Forall (fun d => cd_num d = Z.of_nat rows) ds.
Proof.
  induction chs as [|ch chs IH]; intros rs pos rows Hok Hle HR Hr; inversion HR as [|? cr ? rs0 Hcr Hrs]; subst.
  - exists [], []. repeat split; constructor.
  - inversion Hok as [|? ? Hch Hchs]; subst. inversion Hle as [|? ? Hl Hls]; subst.
    destruct (read_column_spec garbage m ch cr pos rows Hch Hcr Hr Hl) as (cr' & d & Ec & HI' & Hobs & Hnum).
    destruct (IH rs0 pos rows Hchs Hls Hrs Hr) as (rs' & ds & Ecs & HR' & Hmap & Hnums).
    cbn [read_columns]. rewrite Ec, Ecs.
    exists (cr' :: rs'), (d :: ds). split; [reflexivity|]. split; [constructor; assumption|].
    split; [cbn [map]; rewrite Hobs, Hmap; reflexivity|constructor; assumption].
Qed.

(** the chunks a projection selects from a row group *)
Definition sel (rg : @mrowgroup A) (proj : list nat) : list chunk :=
  flat_map (fun i => match nth_error rg i with Some ch => [ch] | None => [] end) proj.

Lemma open_readers_spec rg proj :
  Forall (fun i => (i < length rg)%nat) proj ->
  exists rs, open_readers m rg proj = Ok rs /\ RInv (sel rg proj) rs O /\ length (sel rg proj) = length proj.
Proof.
  induction proj as [|i proj IH]; intro H; [exists []; repeat split; constructor|].
  inversion H as [|? ? Hi Hp]; subst.
  destruct (IH Hp) as (rs & Eo & HR & Hlen).
  cbn [open_readers sel flat_map]. destruct (nth_error rg i) as [ch|] eqn:En.
  - fold (sel rg proj). rewrite Eo. eexists. split; [reflexivity|]. split.
    + cbn [app]. constructor; [apply Inv_open|exact HR].
    + cbn [app length]. rewrite Hlen. reflexivity.
  - apply nth_error_None in En. lia.
Qed.

(** a valid row group for a projection: valid chunks, indices in range, all chunks as long as the first *)
Definition rg_ok (proj : list nat) (rg : @mrowgroup A) : Prop :=
  Forall chunk_okb rg /\ Forall (fun i => (i < length rg)%nat) proj /\
  Forall (fun ch => ch_total ch = rg_rows rg) rg.

Lemma sel_in rg proj ch : In ch (sel rg proj) -> In ch rg.
Proof.
  unfold sel. intro H. apply in_flat_map in H. destruct H as (i & _ & Hi).
  destruct (nth_error rg i) as [c|] eqn:En; [|destruct Hi].
  destruct Hi as [<-|[]]. eapply nth_error_In. exact En.
Qed.

Lemma sel_ok proj rg :
  rg_ok proj rg -> Forall chunk_okb (sel rg proj) /\ Forall (fun ch => ch_total ch = rg_rows rg) (sel rg proj).
Proof.
  intros (Hok & _ & Hn). split; apply Forall_forall; intros ch Hch; apply sel_in in Hch.
  - eapply Forall_forall in Hok; eassumption.
  - eapply (proj1 (Forall_forall _ _) Hn); exact Hch.
Qed.

(** the second half of carquet_batch_reader_next: the block of min(batch_size, rows left) rows at the common
    position (an empty block for an empty row group) *)
Lemma produce_spec chs rs pos n g bs :
  chs <> [] -> Forall chunk_okb chs -> Forall (fun ch => ch_total ch = n) chs ->
  RInv chs rs pos -> (pos <= n)%nat -> 0 < bs ->
  let c := Nat.min (Z.to_nat bs) (n - pos) in
  exists rs',
    produce garbage true true m bs {| bs_rg := g; bs_readers := rs |} =
    Ok ({| bs_rg := g; bs_readers := rs' |}, NBatch (block (map (ch_rows garbage) chs) pos c)) /\
    RInv chs rs' (pos + c).
Proof.
  intros Hne Hok Hn HR Hpos Hbs c.
  destruct chs as [|ch0 chs0]; [congruence|].
  inversion HR as [|? cr0 ? rs0 Hcr0 Hrs0]; subst.
  unfold produce. cbn [bs_readers bs_rg].
  assert (Hrem : remaining cr0 = Z.of_nat (n - pos)).
  { destruct Hcr0 as (_ & _ & _ & _ & Hr & _). unfold remaining. rewrite Hr.
    inversion Hn as [|? ? H0 _]; subst. unfold ch_total. reflexivity. }
  rewrite Hrem.
  assert (Erows : (if Z.of_nat (n - pos) >? bs then bs else Z.of_nat (n - pos)) = Z.of_nat c).
  { subst c. destruct (Z.of_nat (n - pos) >? bs) eqn:E; lia. }
  rewrite Erows.
  destruct (Z.of_nat c =? 0) eqn:Ec0.
  - (* empty row group *)
    assert (c = O) by lia. exists (cr0 :: rs0). rewrite H, Nat.add_0_r. split; [|exact HR].
    f_equal. f_equal. f_equal. unfold block. f_equal.
    rewrite map_map. clear -HR. revert HR. generalize (cr0 :: rs0). generalize (ch0 :: chs0).
    induction l as [|x l IH]; intros l0 HR; inversion HR; subst; [reflexivity|]. cbn [map]. f_equal. apply IH. assumption.
  - assert (Hc : (0 < c)%nat) by lia.
    destruct (prefetch_spec (ch0 :: chs0) (cr0 :: rs0) pos Hok HR) as (rs1 & Ep & HR1). rewrite Ep.
    assert (Hle : Forall (fun ch => (pos + c <= ch_total ch)%nat) (ch0 :: chs0)).
    { apply Forall_forall. intros ch Hch. eapply Forall_forall in Hn; [|exact Hch]. cbn beta in Hn. unfold ch_total in *. subst c. lia. }
    destruct (read_columns_spec (ch0 :: chs0) rs1 pos c Hok Hle HR1 Hc) as (rs2 & ds & Er & HR2 & Hmap & Hnums).
    rewrite Er, all_some_map.
    exists rs2. split; [|exact HR2].
    f_equal. f_equal. f_equal. unfold block. f_equal.
    + destruct ds as [|d ds']; [discriminate Hmap|]. inversion Hnums; subst. assumption.
    + rewrite Hmap, map_map. reflexivity.
Qed.

End Batch.

(* ------------------------------------------------------------------ C02: the whole file through the batch reader *)

Lemma blocks_from_fuel {A} (cols : list (list (option A))) n bs : (0 < bs)%nat ->
  forall f1 f2 pos, (n - pos <= f1)%nat -> (n - pos <= f2)%nat ->
  blocks_from f1 cols n bs pos = blocks_from f2 cols n bs pos.
Proof.
  intro Hbs. induction f1 as [|f1 IH]; intros f2 pos H1 H2.
  - destruct f2 as [|f2]; [reflexivity|]. cbn [blocks_from]. destruct (n <=? pos)%nat eqn:E; [reflexivity|lia].
  - destruct f2 as [|f2].
    + cbn [blocks_from]. destruct (n <=? pos)%nat eqn:E; [reflexivity|lia].
    + cbn [blocks_from]. destruct (n <=? pos)%nat eqn:E; [reflexivity|].
      f_equal. apply IH; lia.
Qed.

Section Loop.
Context {A : Type}.
Variable garbage : A.
Variable m : io_mode.
Variable f : @mfile A.
Variable proj : list nat.
Variable bs : Z.
Hypothesis Hproj : proj <> [].
Hypothesis Hf : Forall (rg_ok proj) f.
Hypothesis Hbs : 0 < bs.

Notation bsn := (Z.to_nat bs).
Notation bstate := (@bstate A).

Definition cols_of (rg : @mrowgroup A) : list (list (option A)) := map (ch_rows garbage) (sel rg proj).

(** the batch reader stands inside row group number [g], all projected readers at row [pos] *)
Definition InRg (st : bstate) (g : nat) (rg : @mrowgroup A) (pos : nat) : Prop :=
  bs_rg st = Z.of_nat g /\ RInv garbage m (sel rg proj) (bs_readers st) pos /\
  nth_error f g = Some rg /\ (pos <= rg_rows rg)%nat.

(** the next call has to move to row group number [g] (the one before is used up, or none was opened yet) *)
Definition Exh (st : bstate) (g : nat) : Prop :=
  (g = O /\ bs_rg st = -1) \/ (exists g' rg, g = S g' /\ InRg st g' rg (rg_rows rg)).

Lemma rg_ok_at g (rg : @mrowgroup A) : nth_error f g = Some rg -> rg_ok proj rg.
Proof. intro H. eapply Forall_forall; [exact Hf|]. eapply nth_error_In. exact H. Qed.

Lemma sel_nonempty (rg : @mrowgroup A) : rg_ok proj rg -> sel rg proj <> [].
Proof.
  intros (_ & Hi & _) E.
  destruct (open_readers_spec garbage m rg proj Hi) as (_ & _ & _ & Hlen). rewrite E in Hlen. cbn [length] in Hlen.
  destruct proj; [congruence|discriminate].
Qed.

Lemma remaining_first st g rg pos :
  InRg st g rg pos ->
  exists cr0 rs0, bs_readers st = cr0 :: rs0 /\ remaining cr0 = Z.of_nat (rg_rows rg - pos).
Proof.
  intros (_ & HR & Hn & _). pose proof (rg_ok_at g rg Hn) as Hok.
  pose proof (sel_nonempty rg Hok) as Hne. destruct (sel_ok proj rg Hok) as [_ Htot].
  destruct (sel rg proj) as [|ch0 chs0] eqn:Es; [congruence|].
  inversion HR as [|? cr0 ? rs0 Hcr0 _ E1 E2]; subst. exists cr0, rs0. split; [reflexivity|].
  destruct Hcr0 as (_ & _ & _ & _ & Hr & _). unfold remaining. rewrite Hr.
  inversion Htot as [|? ? H0 _]; subst. unfold ch_total in H0. rewrite H0. reflexivity.
Qed.

Lemma advance_in_rg st g rg pos :
  InRg st g rg pos -> (pos < rg_rows rg)%nat -> advance m f proj st = Ok (st, true).
Proof.
  intros HI Hlt. destruct (remaining_first st g rg pos HI) as (cr0 & rs0 & Er & Hrem).
  destruct HI as (Hg & _). unfold advance. rewrite Hg, Er. unfold has_next. unfold remaining in Hrem. rewrite Hrem.
  destruct (Z.of_nat g <? 0) eqn:E1; [lia|]. destruct (Z.of_nat (rg_rows rg - pos) >? 0) eqn:E2; [|lia].
  reflexivity.
Qed.

Lemma advance_exh st g :
  Exh st g ->
  match nth_error f g with
  | None => exists st1, advance m f proj st = Ok (st1, false)
  | Some rg => exists rs, advance m f proj st = Ok ({| bs_rg := Z.of_nat g; bs_readers := rs |}, true) /\
                          RInv garbage m (sel rg proj) rs O
  end.
Proof.
  intro HE.
  assert (Hneed : ((bs_rg st <? 0) || match bs_readers st with cr0 :: _ => negb (has_next cr0) | [] => true end) = true
                  /\ bs_rg st + 1 = Z.of_nat g).
  { destruct HE as [[-> Hrg]|(g' & rg' & -> & HI)].
    - rewrite Hrg. split; reflexivity.
    - destruct (remaining_first st g' rg' _ HI) as (cr0 & rs0 & Er & Hrem). destruct HI as (Hg & _).
      rewrite Hg, Er. unfold has_next. unfold remaining in Hrem. rewrite Hrem, Nat.sub_diag. split; [|lia].
      destruct (Z.of_nat g' <? 0); reflexivity. }
  destruct Hneed as [Hneed Hg]. unfold advance. rewrite Hneed, Hg, Nat2Z.id.
  destruct (nth_error f g) as [rg|] eqn:En.
  - assert (Hlt : (g < length f)%nat) by (apply nth_error_Some; congruence).
    destruct (Z.of_nat g >=? Z.of_nat (length f)) eqn:E; [lia|].
    destruct (rg_ok_at g rg En) as (_ & Hi & _).
    destruct (open_readers_spec garbage m rg proj Hi) as (rs & Eo & HR & _). rewrite Eo.
    exists rs. split; [reflexivity|exact HR].
  - apply nth_error_None in En. destruct (Z.of_nat g >=? Z.of_nat (length f)) eqn:E; [|lia].
    eexists. reflexivity.
Qed.

(** calls still needed: at most one per row (one for an empty row group) and the final END_OF_DATA *)
Fixpoint cost_rest (rest : list (@mrowgroup A)) : nat :=
  match rest with [] => 1 | rg :: t => S (rg_rows rg) + cost_rest t end.

(** inside a row group: the remaining blocks of this row group, then whatever follows *)
Lemma loop_in_rg tail ctail g rg :
  (forall fuel' st', (ctail <= fuel')%nat -> Exh st' (S g) ->
     batches_loop garbage true true fuel' m f proj bs st' = Ok (tail, E_END_OF_DATA)) ->
  forall k st pos fuel,
  InRg st g rg pos -> k = (rg_rows rg - pos)%nat -> (k + ctail <= fuel)%nat ->
  batches_loop garbage true true fuel m f proj bs st =
  Ok (blocks_from k (cols_of rg) (rg_rows rg) bsn pos ++ tail, E_END_OF_DATA).
Proof.
  intro Hcont. induction k as [k IH] using lt_wf_ind. intros st pos fuel HI Hk Hfuel.
  destruct k as [|k'].
  - (* this row group is used up *)
    cbn [blocks_from app]. apply Hcont; [lia|]. right. exists g, rg. split; [reflexivity|].
    destruct HI as (H1 & H2 & H3 & H4). assert (pos = rg_rows rg) by lia. subst pos. repeat split; assumption.
  - assert (Hlt : (pos < rg_rows rg)%nat) by lia.
    destruct fuel as [|fuel]; [lia|]. cbn [batches_loop]. unfold batch_next.
    rewrite (advance_in_rg st g rg pos HI Hlt).
    pose proof HI as (Hg & HR & Hn & Hle).
    pose proof (rg_ok_at g rg Hn) as Hok. destruct (sel_ok proj rg Hok) as [Hsok Hstot].
    destruct st as [strg strs]. cbn [bs_rg bs_readers] in *.
    destruct (produce_spec garbage m (sel rg proj) strs pos (rg_rows rg) strg bs (sel_nonempty rg Hok) Hsok Hstot HR Hle Hbs)
      as (rs' & Ep & HR').
    cbn zeta in Ep. rewrite Ep.
    set (c := Nat.min bsn (rg_rows rg - pos)) in *.
    assert (Hc : (0 < c)%nat) by (subst c; lia).
    rewrite (IH (rg_rows rg - (pos + c))%nat ltac:(lia) _ (pos + c)%nat fuel); try lia.
    + cbn [blocks_from]. destruct (rg_rows rg <=? pos)%nat eqn:E; [lia|]. fold c. cbn [app]. f_equal. f_equal. f_equal. f_equal.
      unfold cols_of. apply blocks_from_fuel; lia.
    + repeat split; cbn [bs_rg bs_readers]; try assumption. subst c. lia.
Qed.

(** from the boundary before row group number [length done]: the blocks of all remaining row groups *)
Lemma loop_exh rest : forall done st fuel,
  f = done ++ rest -> Exh st (length done) -> (cost_rest rest <= fuel)%nat ->
  batches_loop garbage true true fuel m f proj bs st =
  Ok (concat (map (fun rg => rowgroup_blocks bsn (cols_of rg)) rest), E_END_OF_DATA).
Proof.
  induction rest as [|rg rest IH]; intros done st fuel Ef HE Hfuel.
  - cbn [cost_rest] in Hfuel. destruct fuel as [|fuel]; [lia|]. cbn [batches_loop map concat]. unfold batch_next.
    pose proof (advance_exh st (length done) HE) as Ha.
    assert (En : nth_error f (length done) = None) by (apply nth_error_None; rewrite Ef, app_nil_r; lia).
    rewrite En in Ha. destruct Ha as (st1 & Ea). rewrite Ea. reflexivity.
  - cbn [cost_rest] in Hfuel. destruct fuel as [|fuel]; [lia|]. cbn [batches_loop map concat]. unfold batch_next.
    pose proof (advance_exh st (length done) HE) as Ha.
    assert (En : nth_error f (length done) = Some rg) by (rewrite Ef; apply nth_error_middle).
    rewrite En in Ha. destruct Ha as (rs & Ea & HR0). rewrite Ea.
    pose proof (rg_ok_at _ rg En) as Hok. destruct (sel_ok proj rg Hok) as [Hsok Hstot].
    destruct (produce_spec garbage m (sel rg proj) rs O (rg_rows rg) (Z.of_nat (length done)) bs
                (sel_nonempty rg Hok) Hsok Hstot HR0 ltac:(lia) Hbs) as (rs' & Ep & HR').
    cbn zeta in Ep. rewrite Ep. rewrite Nat.sub_0_r in *. cbn [Nat.add] in HR'.
    set (c := Nat.min bsn (rg_rows rg)) in *.
    (* the rest of this row group, then the following ones by the induction hypothesis *)
    assert (Hcont : forall fuel' st', (cost_rest rest <= fuel')%nat -> Exh st' (S (length done)) ->
              batches_loop garbage true true fuel' m f proj bs st' =
              Ok (concat (map (fun rg => rowgroup_blocks bsn (cols_of rg)) rest), E_END_OF_DATA)).
    { intros fuel' st' Hf' HE'. apply (IH (done ++ [rg])).
      - rewrite <- app_assoc. exact Ef.
      - rewrite app_length. cbn [length]. rewrite Nat.add_1_r. exact HE'.
      - exact Hf'. }
    rewrite (loop_in_rg _ _ (length done) rg Hcont (rg_rows rg - c)%nat _ c fuel); try lia.
    + (* rowgroup_blocks of this row group = first block :: remaining blocks *)
      assert (Hrb : rowgroup_blocks bsn (cols_of rg) =
                    block (map (ch_rows garbage) (sel rg proj)) 0 c ::
                    blocks_from (rg_rows rg - c) (cols_of rg) (rg_rows rg) bsn c).
      { unfold rowgroup_blocks, cols_of.
        destruct (sel rg proj) as [|ch0 chs0] eqn:Es; [exfalso; apply (sel_nonempty rg Hok); exact Es|].
        cbn [map].
        assert (Hlen : length (ch_rows garbage ch0) = rg_rows rg).
        { unfold ch_rows. rewrite rows_of_length. inversion Hstot as [|? ? H0 _]; subst. exact H0. }
        rewrite !Hlen.
        destruct (rg_rows rg =? 0)%nat eqn:E0.
        - apply Nat.eqb_eq in E0. subst c. rewrite E0. replace (Nat.min bsn 0) with O by lia.
          cbn [Nat.sub blocks_from]. reflexivity.
        - apply Nat.eqb_neq in E0. destruct (rg_rows rg) as [|n'] eqn:En'; [congruence|].
          cbn [blocks_from]. destruct (S n' <=? 0)%nat eqn:E1; [lia|]. rewrite Nat.sub_0_r. fold c. cbn [Nat.add].
          f_equal. apply blocks_from_fuel; subst c; lia. }
      rewrite Hrb. reflexivity.
    + repeat split; cbn [bs_rg bs_readers]; try assumption. subst c. lia.
Qed.

End Loop.

(* ------------------------------------------------------------------ C02: the batch theorems *)

Section Final.
Context {A : Type}.
Variable garbage : A.

Lemma project_sel (rg : @mrowgroup A) proj :
  Forall (fun i => (i < length rg)%nat) proj ->
  project proj (map (ch_rows garbage) rg) [] = map (ch_rows garbage) (sel rg proj).
Proof.
  induction proj as [|i proj IH]; intro H; [reflexivity|]. inversion H as [|? ? Hi Hp]; subst.
  unfold project, sel in *. cbn [map flat_map]. destruct (nth_error rg i) as [ch|] eqn:En.
  - cbn [app map]. f_equal; [|apply IH; exact Hp].
    rewrite (nth_indep _ [] (ch_rows garbage ch)) by (rewrite map_length; exact Hi).
    rewrite map_nth. f_equal. apply nth_error_nth. exact En.
  - apply nth_error_None in En. lia.
Qed.

Lemma file_fuel_enough (f : @mfile A) : (cost_rest f <= file_fuel f)%nat.
Proof.
  unfold file_fuel. induction f as [|rg f IH]; cbn [cost_rest fold_right]; [lia|].
  assert (Hrg : (rg_rows rg <= fold_right (fun ch a => (total_rows (ch_pages ch) + a)%nat) O rg)%nat).
  { unfold rg_rows. destruct rg as [|ch rg]; cbn [fold_right]; lia. }
  lia.
Qed.

(** batch_refines: for every batch size, projection and I/O mode the repaired batch reader delivers exactly the
    blocks of the projected columns, row group after row group, and then END_OF_DATA *)
Theorem batch_refines_proved m (f : @mfile A) proj bs :
  proj <> [] -> Forall (rg_ok proj) f -> 0 < bs ->
  batches garbage true true m f proj bs =
  Ok (spec_batches (Z.to_nat bs) proj (table_of garbage f), E_END_OF_DATA).
Proof.
  intros Hp Hf Hbs. unfold batches.
  rewrite (loop_exh garbage m f proj bs Hp Hf Hbs f [] batch_init (file_fuel f) eq_refl).
  - f_equal. f_equal. unfold spec_batches, table_of. rewrite map_map. f_equal.
    apply map_ext_in. intros rg Hrg. unfold cols_of.
    assert (Hok : rg_ok proj rg) by (eapply Forall_forall; eassumption). destruct Hok as (_ & Hi & _).
    rewrite <- (project_sel rg proj Hi). reflexivity.
  - left. split; reflexivity.
  - apply file_fuel_enough.
Qed.

End Final.

(* ------------------------------------------------------------------ consequences, on the specification side *)

Section SpecFacts.
Context {A : Type}.

Lemma rows_of_block_col_block (rows : list (option A)) : rows_of_block (map is_null rows) (somes rows) = rows.
Proof.
  induction rows as [|[v|] rows IH]; cbn [map is_null somes rows_of_block]; [reflexivity| |]; rewrite IH; reflexivity.
Qed.

(** all columns of a row group have [n] rows *)
Definition rect (n : nat) (cols : list (list (option A))) : Prop := Forall (fun c => length c = n) cols.

Lemma block_aligned cols n pos c : rect n cols -> (pos + c <= n)%nat -> batch_aligned_prop (block cols pos c).
Proof.
  intros Hr Hle. unfold batch_aligned_prop, block. cbn [b_cols b_num_rows]. apply Forall_forall. intros x Hx.
  apply in_map_iff in Hx. destruct Hx as (rows & <- & Hin). eapply Forall_forall in Hr; [|exact Hin]. cbn beta in Hr.
  unfold col_block. cbn [bc_num_values bc_bitmap]. rewrite map_length, firstn_length, skipn_length. split; f_equal; lia.
Qed.

Lemma blocks_from_aligned cols n bs : rect n cols -> forall fuel pos, (pos <= n)%nat ->
  Forall batch_aligned_prop (blocks_from fuel cols n bs pos).
Proof.
  intro Hr. induction fuel as [|fuel IH]; intros pos Hpos; cbn [blocks_from]; [constructor|].
  destruct (n <=? pos)%nat eqn:E; [constructor|]. constructor.
  - apply (block_aligned cols n); [exact Hr|lia].
  - apply IH. lia.
Qed.

(** column [j] of the blocks from [pos] on, concatenated, is column [j] from row [pos] on *)
Lemma blocks_from_tile cols n bs j colj : rect n cols -> (0 < bs)%nat -> nth_error cols j = Some colj ->
  forall fuel pos, (n - pos <= fuel)%nat -> (pos <= n)%nat ->
  batches_column (blocks_from fuel cols n bs pos) j = skipn pos colj.
Proof.
  intros Hr Hbs Hj. assert (Hlen : length colj = n).
  { eapply Forall_forall in Hr; [exact Hr|]. eapply nth_error_In. exact Hj. }
  induction fuel as [|fuel IH]; intros pos Hf Hpos.
  - cbn [blocks_from]. unfold batches_column. cbn [map concat]. rewrite skipn_all2 by lia. reflexivity.
  - cbn [blocks_from]. destruct (n <=? pos)%nat eqn:E.
    + unfold batches_column. cbn [map concat]. rewrite skipn_all2 by lia. reflexivity.
    + unfold batches_column in *. cbn [map concat]. rewrite IH by lia.
      unfold block at 1. cbn [b_cols]. rewrite nth_error_map, Hj. cbn [option_map].
      unfold col_block. cbn [bc_bitmap bc_packed]. rewrite rows_of_block_col_block.
      rewrite <- skipn_skipn'. apply firstn_skipn.
Qed.

End SpecFacts.

Section Corollaries.
Context {A : Type}.
Variable garbage : A.

Lemma batches_column_app (l1 l2 : list (batch A)) j : batches_column (l1 ++ l2) j = batches_column l1 j ++ batches_column l2 j.
Proof. unfold batches_column. rewrite map_app, concat_app. reflexivity. Qed.

(** every column of every block is a [col_block]: its bitmap is [is_null] of the rows it rebuilds to *)
Definition is_block_col (c : batch_col A) : Prop := bc_bitmap c = map is_null (rows_of_block (bc_bitmap c) (bc_packed c)).

Lemma col_block_is_block (w : list (option A)) : is_block_col (col_block w).
Proof. unfold is_block_col, col_block. cbn [bc_bitmap bc_packed]. rewrite rows_of_block_col_block. reflexivity. Qed.

Lemma blocks_from_block_cols cols n bs fuel : forall pos,
  Forall (fun b : batch A => Forall is_block_col (b_cols b)) (blocks_from fuel cols n bs pos).
Proof.
  induction fuel as [|fuel IH]; intro pos; cbn [blocks_from]; [constructor|].
  destruct (n <=? pos)%nat; [constructor|]. constructor; [|apply IH].
  unfold block. cbn [b_cols]. apply Forall_forall. intros x Hx. apply in_map_iff in Hx. destruct Hx as (w & <- & _).
  apply col_block_is_block.
Qed.

(** the three facts for the blocks of one row group *)
Lemma rowgroup_blocks_facts bs (cols : list (list (option A))) n :
  (0 < bs)%nat -> cols <> [] -> rect n cols ->
  Forall batch_aligned_prop (rowgroup_blocks bs cols) /\
  Forall (fun b : batch A => Forall is_block_col (b_cols b)) (rowgroup_blocks bs cols) /\
  (forall j colj, nth_error cols j = Some colj -> batches_column (rowgroup_blocks bs cols) j = colj).
Proof.
  intros Hbs Hne Hr. unfold rowgroup_blocks. destruct cols as [|c0 cols']; [congruence|].
  assert (Hn : length c0 = n) by (inversion Hr; assumption). rewrite Hn.
  destruct (n =? 0)%nat eqn:E0.
  - apply Nat.eqb_eq in E0. split; [|split].
    + constructor; [|constructor]. apply (block_aligned _ n); [exact Hr|lia].
    + constructor; [|constructor]. unfold block. cbn [b_cols]. apply Forall_forall. intros x Hx.
      apply in_map_iff in Hx. destruct Hx as (w & <- & _). apply col_block_is_block.
    + intros j colj Hj. unfold batches_column. cbn [map concat]. unfold block. cbn [b_cols].
      rewrite nth_error_map, Hj. cbn [option_map]. unfold col_block. cbn [bc_bitmap bc_packed].
      rewrite rows_of_block_col_block, app_nil_r.
      assert (Hl : length colj = n). { eapply Forall_forall in Hr; [exact Hr|]. eapply nth_error_In. exact Hj. }
      destruct colj; [reflexivity|cbn [length] in Hl; lia].
  - split; [|split].
    + apply blocks_from_aligned; [exact Hr|lia].
    + apply blocks_from_block_cols.
    + intros j colj Hj. rewrite (blocks_from_tile _ n bs j colj Hr Hbs Hj) by lia. reflexivity.
Qed.

Lemma project_rect proj (rg : @mrowgroup A) :
  rg_ok proj rg -> proj <> [] ->
  rect (rg_rows rg) (project proj (map (ch_rows garbage) rg) []) /\ project proj (map (ch_rows garbage) rg) [] <> [].
Proof.
  intros Hok Hp. pose proof Hok as (_ & Hi & _). rewrite (project_sel garbage rg proj Hi).
  destruct (sel_ok proj rg Hok) as [_ Htot]. split.
  - unfold rect. apply Forall_forall. intros c Hc. apply in_map_iff in Hc. destruct Hc as (ch & <- & Hch).
    eapply Forall_forall in Htot; [|exact Hch]. cbn beta in Htot. unfold ch_rows. rewrite rows_of_length. exact Htot.
  - destruct (open_readers_spec garbage Fread rg proj Hi) as (_ & _ & _ & Hlen).
    intro E. apply map_eq_nil in E. rewrite E in Hlen. cbn [length] in Hlen. destruct proj; [congruence|discriminate].
Qed.

(** the consequences the property names, for the blocks of a whole valid file *)
Lemma spec_batches_facts bs proj (f : @mfile A) :
  (0 < bs)%nat -> proj <> [] -> Forall (rg_ok proj) f ->
  let bl := spec_batches bs proj (table_of garbage f) in
  Forall batch_aligned_prop bl /\
  Forall (fun b : batch A => Forall is_block_col (b_cols b)) bl /\
  (forall j i, nth_error proj j = Some i -> batches_column bl j = table_column (table_of garbage f) i).
Proof.
  intros Hbs Hp Hf. cbn zeta. unfold spec_batches, table_of, table_column.
  induction Hf as [|rg f Hrg _ IH]; [repeat split; try constructor; intros; reflexivity|].
  cbn [map concat]. destruct IH as (IH1 & IH2 & IH3).
  destruct (project_rect proj rg Hrg Hp) as [Hrect Hne].
  change (map (fun ch : chunk => rows_of garbage (ch_max_def ch) (ch_pages ch)) rg) with (map (ch_rows garbage) rg).
  destruct (rowgroup_blocks_facts bs _ (rg_rows rg) Hbs Hne Hrect) as (F1 & F2 & F3).
  split; [|split].
  - apply Forall_app. split; assumption.
  - apply Forall_app. split; assumption.
  - intros j i Hj. rewrite batches_column_app. rewrite (IH3 j i Hj). f_equal.
    apply F3. unfold project. rewrite nth_error_map, Hj. reflexivity.
Qed.

Theorem batch_aligned_proved m (f : @mfile A) proj bs :
  proj <> [] -> Forall (rg_ok proj) f -> 0 < bs ->
  exists bl, batches garbage true true m f proj bs = Ok (bl, E_END_OF_DATA) /\ Forall batch_aligned_prop bl.
Proof.
  intros Hp Hf Hbs. eexists. split; [apply batch_refines_proved; assumption|].
  apply (spec_batches_facts (Z.to_nat bs) proj f); [lia|assumption|assumption].
Qed.

Theorem batch_concat_proved m (f : @mfile A) proj bs :
  proj <> [] -> Forall (rg_ok proj) f -> 0 < bs ->
  exists bl, batches garbage true true m f proj bs = Ok (bl, E_END_OF_DATA) /\
    forall j i, nth_error proj j = Some i -> batches_column bl j = table_column (table_of garbage f) i.
Proof.
  intros Hp Hf Hbs. eexists. split; [apply batch_refines_proved; assumption|].
  apply (spec_batches_facts (Z.to_nat bs) proj f); [lia|assumption|assumption].
Qed.

(** bit i of the null bitmap is set exactly when row i is null - one polarity for every column, batch and mode:
    the bitmaps of projected column j, batch after batch, are [is_null] of the column's rows *)
Theorem bitmap_iff_level_proved m (f : @mfile A) proj bs :
  proj <> [] -> Forall (rg_ok proj) f -> 0 < bs ->
  exists bl, batches garbage true true m f proj bs = Ok (bl, E_END_OF_DATA) /\
    forall j i, nth_error proj j = Some i ->
      concat (map (fun b => match nth_error (b_cols b) j with Some c => bc_bitmap c | None => [] end) bl) =
      map is_null (table_column (table_of garbage f) i).
Proof.
  intros Hp Hf Hbs. eexists. split; [apply batch_refines_proved; assumption|].
  destruct (spec_batches_facts (Z.to_nat bs) proj f ltac:(lia) Hp Hf) as (_ & Hblk & Hcat).
  intros j i Hj. rewrite <- (Hcat j i Hj). unfold batches_column. rewrite concat_map, map_map.
  f_equal. apply map_ext_in. intros b Hb. eapply Forall_forall in Hblk; [|exact Hb]. cbn beta in Hblk.
  destruct (nth_error (b_cols b) j) as [c|] eqn:Ec; [|reflexivity].
  eapply Forall_forall in Hblk; [|eapply nth_error_In; exact Ec]. exact Hblk.
Qed.

(** C03: the batch reader's output does not depend on the I/O mode *)
Theorem io_mode_irrelevant_batch_proved (f : @mfile A) proj bs m1 m2 :
  proj <> [] -> Forall (rg_ok proj) f -> 0 < bs ->
  batches garbage true true m1 f proj bs = batches garbage true true m2 f proj bs.
Proof. intros Hp Hf Hbs. rewrite !batch_refines_proved by assumption. reflexivity. Qed.

End Corollaries.

(* ------------------------------------------------------------------ examples and the pinned tree *)

(** two columns, 5 rows: a REQUIRED zero-copy eligible column in pages of 2,2,1 rows next to an OPTIONAL one *)
Definition ex_file : @mfile N :=
  [[ {| ch_max_def := 0%N; ch_eligible := true;
        ch_pages := [ {| pg_levels := [0;0]%N; pg_vals := [1;2]%N |}; {| pg_levels := [0;0]%N; pg_vals := [3;4]%N |};
                      {| pg_levels := [0]%N; pg_vals := [5]%N |} ] |};
     {| ch_max_def := 1%N; ch_eligible := false;
        ch_pages := [ {| pg_levels := [1;0;1;0;1]%N; pg_vals := [1;3;5]%N |} ] |} ]].

Example ex_file_ok : Forall (rg_ok [0;1]%nat) ex_file.
Proof.
  constructor; [|constructor]. unfold rg_ok, chunk_okb, chunk_ok, page_ok. cbn.
  repeat split; repeat constructor; cbn; lia.
Qed.

Example ex_batches_mmap :
  batches 0%N true true Mmap ex_file [0;1]%nat 3 = Ok (spec_batches 3 [0;1]%nat (table_of 0%N ex_file), E_END_OF_DATA).
Proof. vm_compute. reflexivity. Qed.

(** The pinned tree (DESIGN F7): in mmap mode the first batch has 2 rows in the zero-copy column and 3 in the other;
    the batches are not those of the specification and differ from stdio mode. *)
Theorem batch_aligned_pinned_refuted_proved :
  exists (f : @mfile N) proj bs,
    Forall (rg_ok proj) f /\ proj <> [] /\ 0 < bs /\
    (forall bl c, batches 0%N true false Mmap f proj bs = Ok (bl, c) -> ~ Forall batch_aligned_prop bl) /\
    batches 0%N true false Mmap f proj bs <> batches 0%N true false Fread f proj bs.
Proof.
  exists ex_file, [0;1]%nat, 3. split; [exact ex_file_ok|]. split; [discriminate|]. split; [lia|]. split.
  - intros bl c H. vm_compute in H. injection H as <- _. intro Hall. inversion Hall as [|? ? H1 _]; subst.
    unfold batch_aligned_prop in H1. cbn in H1. inversion H1 as [|? ? _ H2]; subst.
    inversion H2 as [|? ? [H3 _] _]; subst. discriminate H3.
  - vm_compute. discriminate.
Qed.
