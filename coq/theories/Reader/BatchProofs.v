(** Proofs for C02 (batch reader part) and C03 (independence of the I/O mode). *)
From Coq Require Import List ZArith Bool Arith Lia ZifyBool ZifyNat ZifyN.
From Carquet Require Import Base.Res Gen.Reader_gen Reader.CursorSpec Reader.CursorModel Reader.IoModeModel
     Reader.BatchModel Reader.ReaderProofs.
Import ListNotations.
Local Open Scope Z_scope.

(* ------------------------------------------------------------------ C03: column reader *)

(** the I/O mode reaches the column reader only through the ownership flag of the decoded page, which no
    observable output depends on *)
Theorem io_mode_irrelevant_column_proved {A} (garbage : A) max_def eligible (pages : list (@page A)) ops m1 m2 :
  chunk_ok max_def pages -> Forall op_ok ops ->
  run garbage true ops (open max_def (loads_view m1 eligible) pages) =
  run garbage true ops (open max_def (loads_view m2 eligible) pages).
Proof.
  intros Hc Hok. rewrite !(cursor_refines_proved garbage max_def _ pages ops Hc Hok). reflexivity.
Qed.

(* ------------------------------------------------------------------ C03: footer location *)

Lemma list_eqb_refl l : list_eqb l l = true.
Proof.
  unfold list_eqb. rewrite Nat.eqb_refl. cbn [andb].
  induction l as [|x l IH]; [reflexivity|]. cbn [combine forallb fst snd]. rewrite N.eqb_refl. exact IH.
Qed.

(** the three footer readers locate the same bytes in every file that starts with the magic (a valid file does) *)
Theorem footer_location_irrelevant_proved file m1 m2 :
  firstn 4 file = magic -> footer_location m1 file = footer_location m2 file.
Proof.
  intro H. unfold footer_location. rewrite H, list_eqb_refl. cbn [negb]. rewrite !andb_false_r. reflexivity.
Qed.

(** a file on which the modes would differ: leading magic damaged (stdio never looks at it) *)
Example footer_head_magic_matters :
  exists file, footer_location Fread file <> footer_location Mmap file.
Proof.
  exists [88;65;82;49; 0;0;0;0; 80;65;82;49]%N. vm_compute. discriminate.
Qed.
