(** C02/C03 - model of the batch reader (mirror of src/reader/batch_reader.c: open_row_group_readers,
    carquet_batch_reader_next as compiled with OpenMP: prefetch phase, main phase with the zero-copy branch and the
    copying branch, null bitmap from definition levels, row-group advance decided on projected column 0).

    The column loops are modelled sequentially in column order (scheduling is C07's subject).
    [fixed7 = true] is the code after commit "fix: batch reader: a zero-copy column delivers exactly the rows of the
    batch"; [fixed7 = false] the pinned tree.  No proofs in this file. *)
From Coq Require Import List ZArith Bool Arith.
From Carquet Require Import Base.Res Gen.Enums_gen Reader.CursorSpec Reader.CursorModel Reader.IoModeModel.
Import ListNotations.
Local Open Scope Z_scope.

(** status codes regenerated from include/carquet/error.h *)
Definition E_END_OF_DATA : Z := E_CARQUET_ERROR_END_OF_DATA.
Definition E_DECODE : Z := E_CARQUET_ERROR_DECODE.
Definition E_COLUMN_NOT_FOUND : Z := E_CARQUET_ERROR_COLUMN_NOT_FOUND.

Section Model.
Context {A : Type}.
Variable garbage : A.
Variable fixed5 fixed7 : bool.

(** a column chunk as stored: its decoded pages plus what decides zero-copy eligibility *)
Record chunk : Type := {
  ch_max_def : N;
  ch_pages : list (@page A);
  ch_eligible : bool       (* codec UNCOMPRESSED, encoding PLAIN, fixed-width non-BOOLEAN type *)
}.
Definition mrowgroup := list chunk.        (* one chunk per file column *)
Definition mfile := list mrowgroup.

Record bstate : Type := {
  bs_rg : Z;                            (* current_row_group, -1 before the first call *)
  bs_readers : list (@cstate A)         (* col_readers[], one per projected column *)
}.

Definition batch_init : bstate := {| bs_rg := -1; bs_readers := [] |}.

(** what one column of a batch holds: num_values, the first num_values bits of the null bitmap, the data slots *)
Record col_data : Type := { cd_num : Z; cd_bits : list bool; cd_data : list A; cd_max_def : N }.

(** open_row_group_readers: carquet_reader_get_column for every projected column *)
Fixpoint open_readers (m : io_mode) (chunks : mrowgroup) (proj : list nat) : res (list (@cstate A)) :=
  match proj with
  | [] => Ok []
  | i :: t =>
      match nth_error chunks i with
      | None => Err E_COLUMN_NOT_FOUND
      | Some ch =>
          match open_readers m chunks t with
          | Ok rs => Ok (open (ch_max_def ch) (loads_view m (ch_eligible ch)) (ch_pages ch) :: rs)
          | Err c => Err c | Fault f => Fault f
          end
      end
  end.

(** prefetch phase: for every column, if no page is loaded and values remain, peek *)
Fixpoint prefetch (rs : list (@cstate A)) : res (list (@cstate A)) :=
  match rs with
  | [] => Ok []
  | cr :: t =>
      let r1 := if negb (cs_loaded cr) && (cs_remaining cr >? 0)
                then match read_batch garbage fixed5 cr 0 false with
                     | Ok (cr1, _) => Ok cr1 | Err c => Err c | Fault f => Fault f
                     end
                else Ok cr in
      match r1 with
      | Ok cr1 => match prefetch t with Ok t1 => Ok (cr1 :: t1) | Err c => Err c | Fault f => Fault f end
      | Err c => Err c | Fault f => Fault f
      end
  end.

Definition set_zc_consumed (st : @cstate A) (rows : nat) : @cstate A :=
  {| cs_pages := cs_pages st; cs_max_def := cs_max_def st; cs_zc := cs_zc st;
     cs_remaining := cs_remaining st - Z.of_nat rows; cs_cur := cs_cur st; cs_loaded := cs_loaded st;
     cs_pnum := cs_pnum st; cs_pread := (cs_pread st + rows)%nat; cs_pdense := cs_pdense st;
     cs_dvals := cs_dvals st; cs_dlevels := cs_dlevels st; cs_view := cs_view st |}.

(** one iteration of the main column loop: (reader afterwards, column data) or read_error *)
Definition read_column (m : io_mode) (cr : @cstate A) (rows_to_read : Z) : res (@cstate A * option col_data) :=
  let max_def := cs_max_def cr in
  let try_zero_copy := batch_peeks m && N.eqb max_def 0 && negb (cs_loaded cr) in
  match (if try_zero_copy
         then match read_batch garbage fixed5 cr 0 false with
              | Ok (cr1, _) => Ok cr1 | Err c => Err c | Fault f => Fault f end
         else Ok cr) with
  | Err c => Err c | Fault f => Fault f
  | Ok cr1 =>
    let avail := Z.of_nat (cs_pnum cr1 - cs_pread cr1) in
    let use_zero_copy :=
      if fixed7
      then cs_loaded cr1 && cs_view cr1 && (avail >=? rows_to_read) && N.eqb max_def 0
      else cs_loaded cr1 && cs_view cr1 && (cs_pread cr1 =? 0)%nat && (Z.of_nat (cs_pnum cr1) <=? rows_to_read)
           && N.eqb max_def 0 in
    if use_zero_copy then
      let n := if fixed7 then Z.to_nat rows_to_read else cs_pnum cr1 in
      let off := if fixed7 then cs_pread cr1 else O in
      (* a view: no copy; looking at slots outside the page would be a read outside the mapping's page *)
      match copy_out (cs_dvals cr1) off n with
      | Err c => Err c | Fault f => Fault f
      | Ok view =>
          Ok (set_zc_consumed cr1 n,
              Some {| cd_num := Z.of_nat n; cd_bits := repeat false n; cd_data := view; cd_max_def := max_def |})
      end
    else
      match read_batch garbage fixed5 cr1 rows_to_read (negb (N.eqb max_def 0)) with
      | Err c => Err c | Fault f => Fault f
      | Ok (cr2, r) =>
          if br_ret r <? 0 then Ok (cr2, None)
          else
            let n := Z.to_nat (br_ret r) in
            let bits := if N.eqb max_def 0 then repeat false n
                        else map (fun l => N.ltb l max_def) (firstn n (br_levels r)) in
            Ok (cr2, Some {| cd_num := br_ret r; cd_bits := bits; cd_data := br_vals r; cd_max_def := max_def |})
      end
  end.

Fixpoint read_columns (m : io_mode) (rs : list (@cstate A)) (rows_to_read : Z)
  : res (list (@cstate A) * list (option col_data)) :=
  match rs with
  | [] => Ok ([], [])
  | cr :: t =>
      match read_column m cr rows_to_read with
      | Err c => Err c | Fault f => Fault f
      | Ok (cr1, d) =>
          match read_columns m t rows_to_read with
          | Err c => Err c | Fault f => Fault f
          | Ok (t1, ds) => Ok (cr1 :: t1, d :: ds)
          end
      end
  end.

Fixpoint all_some {B} (l : list (option B)) : option (list B) :=
  match l with
  | [] => Some []
  | Some x :: t => match all_some t with Some r => Some (x :: r) | None => None end
  | None :: _ => None
  end.

(** what the caller can see of a batch column (mirror of the driver): num_values, bitmap bits, and the packed values:
    the first (number of 0 bits) slots for a column with levels, all num_values slots otherwise *)
Definition observe_col (d : col_data) : batch_col A :=
  let n := Z.to_nat (cd_num d) in
  let nv := if N.eqb (cd_max_def d) 0 then n else length (filter negb (cd_bits d)) in
  {| bc_num_values := cd_num d; bc_bitmap := cd_bits d; bc_packed := firstn nv (cd_data d) |}.

Inductive next_result : Type :=
| NEnd                      (* *batch = NULL, CARQUET_ERROR_END_OF_DATA *)
| NBatch (b : batch A).

(** carquet_batch_reader_next, first part: "Check if we need to move to next row group".
    [false] = no row group left (END_OF_DATA) *)
Definition advance (m : io_mode) (f : mfile) (proj : list nat) (st : bstate) : res (bstate * bool) :=
  let need_next :=
    (bs_rg st <? 0) || match bs_readers st with cr0 :: _ => negb (has_next cr0) | [] => true end in
  if need_next then
    let rg := bs_rg st + 1 in
    if rg >=? Z.of_nat (length f) then Ok ({| bs_rg := rg; bs_readers := bs_readers st |}, false)
    else match nth_error f (Z.to_nat rg) with
         | None => Err E_COLUMN_NOT_FOUND
         | Some chunks =>
             match open_readers m chunks proj with
             | Ok rs => Ok ({| bs_rg := rg; bs_readers := rs |}, true)
             | Err c => Err c | Fault ft => Fault ft
             end
         end
  else Ok (st, true).

(** carquet_batch_reader_next, second part: allocate the batch, rows_to_read from projected column 0, prefetch,
    read every column, num_rows from column 0 *)
Definition produce (m : io_mode) (batch_size : Z) (st1 : bstate) : res (bstate * next_result) :=
  match bs_readers st1 with
  | [] => Fault NullDeref                   (* col_readers[0] of an empty projection *)
  | cr0 :: _ =>
    let rem := remaining cr0 in
    let rows_to_read := if rem >? batch_size then batch_size else rem in
    if rows_to_read =? 0 then
      (* empty row group: a batch with zero rows, columns zero-initialised *)
      Ok (st1, NBatch {| b_num_rows := 0;
                         b_cols := map (fun _ => {| bc_num_values := 0; bc_bitmap := []; bc_packed := [] |}) (bs_readers st1) |})
    else
      match prefetch (bs_readers st1) with
      | Err c => Err c | Fault ft => Fault ft
      | Ok rs1 =>
        match read_columns m rs1 rows_to_read with
        | Err c => Err c | Fault ft => Fault ft
        | Ok (rs2, ds) =>
            match all_some ds with
            | None => Err E_DECODE
            | Some cols =>
                let nr := match cols with d :: _ => cd_num d | [] => 0 end in
                Ok ({| bs_rg := bs_rg st1; bs_readers := rs2 |},
                    NBatch {| b_num_rows := nr; b_cols := map observe_col cols |})
            end
        end
      end
  end.

(** carquet_batch_reader_next *)
Definition batch_next (m : io_mode) (f : mfile) (proj : list nat) (batch_size : Z) (st : bstate)
  : res (bstate * next_result) :=
  match advance m f proj st with
  | Err c => Err c | Fault ft => Fault ft
  | Ok (st1, false) => Ok (st1, NEnd)
  | Ok (st1, true) => produce m batch_size st1
  end.

(** the consumer loop: next until END_OF_DATA.  Every call either moves to the next row group or delivers at least
    one row of projected column 0, or is the single empty batch of an empty row group: fuel = rows + 2 * row groups + 1 *)
Fixpoint batches_loop (fuel : nat) (m : io_mode) (f : mfile) (proj : list nat) (batch_size : Z) (st : bstate)
  : res (list (batch A) * Z) :=
  match fuel with
  | O => Fault OutOfFuel
  | S fu =>
      match batch_next m f proj batch_size st with
      | Err c => Ok ([], c)                      (* the loop of the caller stops at the first status that is not OK *)
      | Fault ft => Fault ft
      | Ok (st1, NEnd) => Ok ([], E_END_OF_DATA)
      | Ok (st1, NBatch b) =>
          match batches_loop fu m f proj batch_size st1 with
          | Ok (bs, c) => Ok (b :: bs, c) | Err c => Err c | Fault ft => Fault ft
          end
      end
  end.

Definition rg_rows (rg : mrowgroup) : nat :=
  match rg with [] => O | ch :: _ => total_rows (ch_pages ch) end.

Definition file_fuel (f : mfile) : nat :=
  S (fold_right (fun rg acc => (fold_right (fun ch a => (total_rows (ch_pages ch) + a)%nat) O rg + 2 + acc)%nat) O f).

Definition batches (m : io_mode) (f : mfile) (proj : list nat) (batch_size : Z) : res (list (batch A) * Z) :=
  batches_loop (file_fuel f) m f proj batch_size batch_init.

(** the bridge to the specification: the table a file holds *)
Definition table_of (f : mfile) : table A :=
  map (fun rg => map (fun ch => rows_of garbage (ch_max_def ch) (ch_pages ch)) rg) f.

End Model.
