(** Bounds model of the reader after open: which indices it accepts, which byte ranges of the file a page
    load reads, and which buffer sizes the copy-out writes - as functions of the UNTRUSTED fields.

    Mirrors the arithmetic and the validation decisions (not malloc/free/fseek/fread themselves) of
      src/reader/file_reader.c   carquet_reader_get_column
      src/reader/page_reader.c   load_dictionary_page_mmap / load_next_page_mmap   ([Mapped]: mmap and buffer)
                                 load_dictionary_page_fread / load_next_page_fread ([Stdio])
                                 carquet_read_dictionary_page (entry count vs page size)
                                 carquet_read_next_page (copy-out into the caller's buffer)
      src/core/error.c           carquet_error_set (message truncation)

    Which checks the code makes, the 256-byte header window and the minimum header read are data
    regenerated from the sources (Gen/Robust_gen.v).  With a check switched off the model goes on to the
    access the check guards, and that access is a checked one: [Fault OobRead] / [Fault OobWrite].

    The Thrift page-header parser is a section variable (its own safety is C13/C08's business); what is
    assumed of it is stated where it is used: it consumes at most the bytes it is given. *)
From Coq Require Import NArith ZArith List Bool Arith Lia.
From Carquet Require Import Base.Res Gen.Enums_gen Gen.Consts_gen Gen.Robust_gen.
Import ListNotations.
Local Open Scope Z_scope.

(* ------------------------------------------------------------------------------------------------ *)
(** * Metadata as the reader sees it after open *)

Record schema_elem : Set := mkSE {
  se_has_type : bool; se_type : Z; se_type_length : Z; se_num_children : Z }.

Record col_meta : Set := mkCM {
  cm_type : Z; cm_codec : Z; cm_num_values : Z; cm_data_page_offset : Z;
  cm_has_dict_offset : bool; cm_dict_page_offset : Z }.

Record col_chunk : Set := mkCC { cc_has_metadata : bool; cc_meta : col_meta }.
Record row_group : Set := mkRG { rg_columns : list col_chunk; rg_num_rows : Z }.

Record file_meta : Set := mkFM {
  fm_schema : list schema_elem;
  fm_row_groups : list row_group;
  fm_leaves : list nat          (* schema->leaf_indices: leaf column -> schema element *)
}.

(** What the parser's count limits and build_schema guarantee (parquet_types.c:18-44, file_reader.c:165-195). *)
Definition within_limits (m : file_meta) : Prop :=
  (N.of_nat (length (fm_schema m)) <= Robust_CARQUET_MAX_SCHEMA_ELEMENTS)%N /\
  (N.of_nat (length (fm_row_groups m)) <= Robust_CARQUET_MAX_ROW_GROUPS)%N /\
  Forall (fun g => (N.of_nat (length (rg_columns g)) <= Robust_CARQUET_MAX_COLUMNS_PER_RG)%N) (fm_row_groups m) /\
  Forall (fun i => (i < length (fm_schema m))%nat) (fm_leaves m).

(** Checked indexing with a C int: negative or beyond the array is an out-of-bounds read. *)
Definition znth {A} (l : list A) (i : Z) : option A :=
  if i <? 0 then None else nth_error l (Z.to_nat i).

(* ------------------------------------------------------------------------------------------------ *)
(** * The validation checks the code makes (regenerated), and those of the pinned tree *)

(** [FirstDataPage]: the first page load of a chunk that has no dictionary yet - a DICTIONARY page found
    where the data pages start is accepted and loaded as the chunk's dictionary (file_reader f9ba0e6). *)
Inductive page_kind : Set := DictPage | DataPage | FirstDataPage.

Record pchecks : Set := mkPC {
  pk_rg : bool;                       (* get_column: row group index range *)
  pk_col : bool;                      (* get_column: column index range (leaves and chunk list) *)
  pk_type : bool;                     (* get_column: chunk type = schema type *)
  pk_offset : page_kind -> bool;      (* mapped load: page offset inside the mapping *)
  pk_window : page_kind -> bool;      (* mapped load: header window clamped to the mapping *)
  pk_psize : page_kind -> bool;       (* mapped load: compressed size fits *)
  pk_short : page_kind -> bool;       (* stdio load: short read of the body is an error *)
  pk_zc : bool;                       (* zero-copy view: value count checked against the page *)
  pk_dict : bool                      (* fixed-width dictionary: entry count checked against the page *)
}.

Definition current_pchecks : pchecks :=
  mkPC GetCol_checks_row_group GetCol_checks_column GetCol_checks_type_agreement
       (fun k => match k with DictPage => Page_mmap_dict_checks_offset | _ => Page_mmap_data_checks_offset end)
       (fun k => match k with DictPage => Page_mmap_dict_clamps_window | _ => Page_mmap_data_clamps_window end)
       (fun k => match k with DictPage => Page_mmap_dict_checks_page_size | _ => Page_mmap_data_checks_page_size end)
       (fun k => match k with DictPage => Page_fread_dict_checks_short_read | _ => Page_fread_data_checks_short_read end)
       Page_mmap_zero_copy_checks_num_values Page_dict_checks_fixed_size.

(** the pinned tree (commit 06cdad3): index checks and the stdio short-read check only *)
Definition pinned_pchecks : pchecks :=
  mkPC true true false (fun _ => false) (fun _ => false) (fun _ => false) (fun _ => true) false false.

(* ------------------------------------------------------------------------------------------------ *)
(** * carquet_reader_get_column *)

Record col_reader : Set := mkCR {
  cr_type : Z;            (* col_meta->type: what the decoders write *)
  cr_type_length : Z;     (* schema element's type_length *)
  cr_schema_type : Z;     (* the schema element's type: what a caller sizes its buffers from *)
  cr_meta : col_meta }.

Definition get_column (ck : pchecks) (m : file_meta) (rg col : Z) : res col_reader :=
  if pk_rg ck && ((rg <? 0) || (rg >=? Z.of_nat (length (fm_row_groups m))))
  then Err E_CARQUET_ERROR_ROW_GROUP_NOT_FOUND else
  if pk_col ck && ((col <? 0) || (col >=? Z.of_nat (length (fm_leaves m))))
  then Err E_CARQUET_ERROR_COLUMN_NOT_FOUND else
  match znth (fm_row_groups m) rg with
  | None => Fault OobRead
  | Some g =>
    if pk_col ck && (col >=? Z.of_nat (length (rg_columns g)))
    then Err E_CARQUET_ERROR_COLUMN_NOT_FOUND else
    match znth (rg_columns g) col with
    | None => Fault OobRead
    | Some ch =>
      if negb (cc_has_metadata ch) then Err E_CARQUET_ERROR_NOT_IMPLEMENTED else
      match znth (fm_leaves m) col with
      | None => Fault OobRead
      | Some si =>
        match nth_error (fm_schema m) si with
        | None => Fault OobRead
        | Some el =>
          if pk_type ck && (negb (se_has_type el) || negb (cm_type (cc_meta ch) =? se_type el))
          then Err E_CARQUET_ERROR_TYPE_MISMATCH
          else Ok (mkCR (cm_type (cc_meta ch)) (se_type_length el) (se_type el) (cc_meta ch))
        end
      end
    end
  end.

(* ------------------------------------------------------------------------------------------------ *)
(** * Value sizes *)

(** get_value_size (page_reader.c) as a C size_t: a negative type_length converts to a huge value. *)
Definition two64 : Z := 18446744073709551616.
Definition value_size (type tl : Z) : Z :=
  if type =? E_CARQUET_PHYSICAL_BOOLEAN then 1 else
  if (type =? E_CARQUET_PHYSICAL_INT32) || (type =? E_CARQUET_PHYSICAL_FLOAT) then 4 else
  if (type =? E_CARQUET_PHYSICAL_INT64) || (type =? E_CARQUET_PHYSICAL_DOUBLE) then 8 else
  if type =? E_CARQUET_PHYSICAL_INT96 then 12 else
  if type =? E_CARQUET_PHYSICAL_FIXED_LEN_BYTE_ARRAY then tl mod two64 else
  if type =? E_CARQUET_PHYSICAL_BYTE_ARRAY then 16 else 0.

Definition is_fixed_type (type : Z) : bool :=
  (type =? E_CARQUET_PHYSICAL_INT32) || (type =? E_CARQUET_PHYSICAL_INT64) || (type =? E_CARQUET_PHYSICAL_FLOAT) ||
  (type =? E_CARQUET_PHYSICAL_DOUBLE) || (type =? E_CARQUET_PHYSICAL_INT96) ||
  (type =? E_CARQUET_PHYSICAL_FIXED_LEN_BYTE_ARRAY).

(* ------------------------------------------------------------------------------------------------ *)
(** * Page loads *)

Inductive io_path : Set := Mapped | Stdio.

Record page_header : Set := mkPH {
  ph_type : Z; ph_usize : Z; ph_csize : Z; ph_has_crc : bool;
  ph_num_values : Z;        (* data_page_header.num_values *)
  ph_encoding : Z;          (* data_page_header.encoding *)
  ph_dict_num_values : Z }.

(** Result of the Thrift page-header parser on the bytes it is given. *)
Inductive hdr_result : Set :=
| HdrOk (h : page_header) (hs : nat)   (* parsed, hs bytes consumed *)
| HdrErr (c : Z)                       (* malformed *)
| HdrShort.                            (* ran off the end of the bytes it was given *)

(** A byte range of the file, [off, off+len). *)
Record range : Set := mkRange { r_off : Z; r_len : Z }.
Definition in_file (n : Z) (r : range) : Prop := 0 <= r_off r /\ 0 <= r_len r /\ r_off r + r_len r <= n.
Definition in_fileb (n : Z) (r : range) : bool := (0 <=? r_off r) && (0 <=? r_len r) && (r_off r + r_len r <=? n).

Record loaded : Set := mkLoaded {
  ld_header : page_header;
  ld_hs : Z;                 (* header size *)
  ld_body : range;           (* the page body in the file *)
  ld_reads : list range      (* every range of the file the load may read *)
}.

Definition window_size : Z := Z.of_N Page_HEADER_WINDOW.
Definition window_max : Z := Z.of_N Page_HEADER_WINDOW_MAX.
Definition min_header_read : Z := Z.of_N Page_MIN_HEADER_READ.

(** The page type a load accepts: [None] = accepted, [Some c] = rejected with status c. *)
Definition type_verdict (k : page_kind) (t : Z) : option Z :=
  match k with
  | DictPage => if t =? E_CARQUET_PAGE_DICTIONARY then None else Some E_CARQUET_ERROR_INVALID_PAGE
  | DataPage | FirstDataPage =>
      if (match k with FirstDataPage => t =? E_CARQUET_PAGE_DICTIONARY | _ => false end) then None else
      if t =? E_CARQUET_PAGE_DATA_V2 then Some E_CARQUET_ERROR_NOT_IMPLEMENTED else
      if t =? E_CARQUET_PAGE_DATA then None else Some E_CARQUET_ERROR_INVALID_PAGE
  end.

Section Load.
  (** the page-header parser, applied to the bytes of the window *)
  Variable parse_hdr : list N -> hdr_result.
  Variable ck : pchecks.

  Definition slice (f : list N) (off len : Z) : list N :=
    firstn (Z.to_nat len) (skipn (Z.to_nat off) f).

  (** parse_page_header_widening / reread_page_header_fread (/repo ae99d8d): the header is parsed from a window
      of [w] bytes; while the parse fails, more bytes are available and the window is below the maximum,
      the window is multiplied by 8 (clamped to the bytes available and to the maximum) and the parse repeated.
      Seven rounds take 256 bytes to 16 MiB; the verdict is that of the last parse. *)
  Fixpoint widen (fuel : nat) (f : list N) (off avail w : Z) : hdr_result :=
    let r := parse_hdr (slice f off w) in
    match fuel with
    | O => r
    | S fuel' =>
      match r with
      | HdrOk _ _ => r
      | _ => if (w <? avail) && (w <? window_max)
             then widen fuel' f off avail (Z.min avail (Z.min (w * 8) window_max))
             else r
      end
    end.

  (** mmap / buffer: the header is parsed in place, the body is used in place *)
  Definition load_mapped (k : page_kind) (f : list N) (off : Z) : res loaded :=
    let n := Z.of_nat (length f) in
    if pk_offset ck k && ((off <? 0) || (off >=? n)) then Err E_CARQUET_ERROR_INVALID_PAGE else
    if (off <? 0) || (off >? n) then Fault OobRead else        (* header_ptr itself leaves the mapping *)
    let avail := n - off in
    let window := if pk_window ck k then Z.min avail window_size else window_size in
    let given := Z.min window avail in
    match (if pk_window ck k then widen 8 f off avail given else parse_hdr (slice f off given)) with
    | HdrShort => if window >? avail then Fault OobRead      (* the parser reads on, beyond the mapping *)
                  else Err E_CARQUET_ERROR_THRIFT_TRUNCATED
    | HdrErr c => Err c
    | HdrOk h hs =>
      let hs := Z.of_nat hs in
      match type_verdict k (ph_type h) with Some c => Err c | None =>
      if pk_psize ck k && ((ph_csize h <? 0) || (ph_csize h >? avail - hs))
      then Err E_CARQUET_ERROR_INVALID_PAGE else
      let body := mkRange (off + hs) (ph_csize h mod two64) in   (* (size_t) of a negative size is huge *)
      if in_fileb n body
      then Ok (mkLoaded h hs body [mkRange off hs; body])
      else Fault OobRead
      end
    end.

  (** stdio: fseek + fread of the window into a local buffer, then malloc + fread of the body *)
  Definition load_stdio (k : page_kind) (f : list N) (off : Z) : res loaded :=
    let n := Z.of_nat (length f) in
    if off <? 0 then Err E_CARQUET_ERROR_FILE_SEEK else
    let header_read := Z.max 0 (Z.min window_size (n - off)) in
    if header_read <? min_header_read then Err E_CARQUET_ERROR_FILE_READ else
    match widen 8 f off (n - off) header_read with
    | HdrShort => Err E_CARQUET_ERROR_THRIFT_TRUNCATED
    | HdrErr c => Err c
    | HdrOk h hs =>
      let hs := Z.of_nat hs in
      match type_verdict k (ph_type h) with Some c => Err c | None =>
      if ph_csize h <? 0 then Err E_CARQUET_ERROR_OUT_OF_MEMORY else    (* malloc((size_t)negative) fails *)
      let data_read := Z.max 0 (Z.min (ph_csize h) (n - (off + hs))) in
      if pk_short ck k && negb (data_read =? ph_csize h) then Err E_CARQUET_ERROR_FILE_READ else
      if negb (data_read =? ph_csize h) then Fault OobRead             (* decoders would read the unread part of the buffer *)
      else Ok (mkLoaded h hs (mkRange (off + hs) (ph_csize h)) [mkRange off header_read; mkRange (off + hs) data_read])
      end
    end.

  Definition load (p : io_path) (k : page_kind) (f : list N) (off : Z) : res loaded :=
    match p with Mapped => load_mapped k f off | Stdio => load_stdio k f off end.

  (** Walking the pages of a chunk: the next page starts after header + body of the current one.
      Worst case for termination: the declared number of values never runs out. *)
  Fixpoint walk (fuel : nat) (p : io_path) (f : list N) (off : Z) (done : nat) : res nat :=
    match fuel with
    | O => Fault OutOfFuel
    | S fuel' =>
      match load p DataPage f off with
      | Err _ => Ok done                    (* the reader stops and reports the error *)
      | Fault ft => Fault ft
      | Ok l => walk fuel' p f (off + ld_hs l + r_len (ld_body l)) (S done)
      end
    end.
End Load.

(* ------------------------------------------------------------------------------------------------ *)
(** * Inside a loaded page *)

(** Zero-copy view of a data page (mapped path, uncompressed, PLAIN, fixed-width, no levels):
    the range of the file handed to read_batch as the decoded values. *)
Definition zero_copy_eligible (codec enc type : Z) : bool :=
  (codec =? E_CARQUET_COMPRESSION_UNCOMPRESSED) && (enc =? E_CARQUET_ENCODING_PLAIN) && is_fixed_type type.

Definition zero_copy_view (ck : pchecks) (r : col_reader) (l : loaded) : res range :=
  let nv := ph_num_values (ld_header l) in
  let vs := value_size (cr_type r) (cr_type_length r) in
  if pk_zc ck && (nv <? 0) then Err E_CARQUET_ERROR_INVALID_PAGE else
  if pk_zc ck && negb (vs =? 0) && (nv >? r_len (ld_body l) / vs)
  then Err E_CARQUET_ERROR_DECODE else
  if nv <? 0 then Fault OobWrite          (* memset of a negative count on the level buffers *)
  else Ok (mkRange (r_off (ld_body l)) (nv * vs)).

(** load_next_page_mmap after the header: the value count must not be negative; an eligible page without
    levels becomes a view, any other page goes to the decoders (not modelled here: [None]). *)
Definition mapped_data_page (ck : pchecks) (r : col_reader) (l : loaded) (has_levels : bool) : res (option range) :=
  if pk_zc ck && (ph_num_values (ld_header l) <? 0) then Err E_CARQUET_ERROR_INVALID_PAGE else
  if zero_copy_eligible (cm_codec (cr_meta r)) (ph_encoding (ld_header l)) (cr_type r) && negb has_levels
  then rmap Some (zero_copy_view ck r l) else Ok None.

(** Fixed-width dictionary: bytes copied out of the (decompressed) page of page_size bytes. *)
(** carquet_read_dictionary_page has its own size switch: BOOLEAN (and BYTE_ARRAY, handled apart) count 0. *)
Definition dict_value_size (type tl : Z) : Z :=
  if (type =? E_CARQUET_PHYSICAL_BOOLEAN) || (type =? E_CARQUET_PHYSICAL_BYTE_ARRAY) then 0 else value_size type tl.

Definition dictionary_copy (ck : pchecks) (r : col_reader) (dict_num_values page_size : Z) : res Z :=
  let vs := dict_value_size (cr_type r) (cr_type_length r) in
  if pk_dict ck && ((dict_num_values <? 0) || (negb (vs =? 0) && (dict_num_values >? page_size / vs)))
  then Err E_CARQUET_ERROR_DECODE else
  let bytes := vs * dict_num_values in
  if (0 <=? bytes) && (bytes <=? page_size) then Ok bytes else Fault OobRead.

(** carquet_read_next_page copy-out: the library writes to_copy values of ITS value size into a buffer
    the caller sized for max_values values of the SCHEMA's value size. *)
Definition copy_out (r : col_reader) (page_values values_read max_values : Z) : res Z :=
  let available := page_values - values_read in
  let to_copy := Z.min max_values available in
  if to_copy <=? 0 then Ok 0 else
  let written := to_copy * value_size (cr_type r) (cr_type_length r) in
  let capacity := max_values * value_size (cr_schema_type r) (cr_type_length r) in
  if written <=? capacity then Ok written else Fault OobWrite.

(* ------------------------------------------------------------------------------------------------ *)
(** * carquet_error_set *)

Record error_rec : Set := mkErr { e_code : Z; e_message : list N }.

(** vsnprintf(message, CARQUET_ERROR_MESSAGE_MAX, ...): at most MAX-1 characters, then NUL. *)
Definition error_set (code : Z) (text : list N) : error_rec :=
  mkErr code (firstn (N.to_nat Robust_CARQUET_ERROR_MESSAGE_MAX - 1) (filter (fun c => negb (c =? 0)%N) text) ++ [0%N]).
