(** Model of reading a whole file back through the public reader API, as far as C01 needs it:

      carquet_reader_open_buffer / open        [FooterModel.open]  (reader owner's model of the footer location)
      carquet_reader_get_column                [read_all]          chunk type = schema type, values_remaining =
                                                                   num_values, data_start_offset = data_page_offset
      load_next_page (mmap/buffer path)        [read_page]         bounds of the page, 256-byte header window,
                                                                   page type, CRC, decompression, read_data_page_v1
      carquet_column_read_batch(big)           [read_chunk]        page after page until values_remaining <= 0

    One read_batch call with a large count is modelled (what `DUMP 2^20` of the driver does); that any other
    consumption history delivers the same rows is C02 (Reader/CursorModel.v, ReaderProofs.cursor_refines), that
    the three I/O paths agree is C03.  Dictionary pages, data page v2 and nested columns are outside this model.

    The decompressor, the page-header parser and the footer parser (parquet_parse_file_metadata + build_schema,
    reduced to what the writer model's [file_meta] holds) are section variables. *)
From Coq Require Import NArith ZArith List Bool.
From Carquet Require Import Base.Res Gen.Enums_gen Enc.DeltaBits Util.Crc32Model
     Writer.TableSpec Writer.FileWriterModel Reader.PageDecodeModel Reader.FooterModel.
Import ListNotations.
Local Open Scope N_scope.

(** what the reader takes from a parsed PageHeader (statistics are skipped by the parser) *)
Record hdr_core : Type := mkhc {
  hc_type : Z;
  hc_uncompressed : N;
  hc_compressed : N;
  hc_crc : option N;
  hc_num_values : N;
  hc_encoding : Z;
  hc_def_encoding : Z
}.

Record read_result : Type := mkrr {
  rr_schema : list column;
  rr_num_rows : N;                             (* carquet_reader_num_rows *)
  rr_groups : list (N * list (list row))       (* per row group: num_rows of its metadata, rows of every column *)
}.

Section ReadAll.
  Variable codec : Z.                                   (* the chunks' codec (one per file in the writer) *)
  Variable decompress : list N -> N -> res (list N).    (* decompress_page(codec, src, capacity = uncompressed_page_size) *)
  Variable parse_header : list N -> res (hdr_core * N). (* parquet_parse_page_header: header, bytes consumed *)
  Variable parse_footer : list N -> res file_meta.
  Variable verify : bool.                               (* options.verify_checksums *)

  (** one data page at [off]: rows, num_values, bytes occupied (header + compressed body) *)
  Definition read_page (c : column) (file : list N) (off : N) : res (list row * N * N) :=
    if len file <=? off then Err E_CARQUET_ERROR_INVALID_PAGE else
    let avail := skipn (N.to_nat off) file in
    match parse_header (firstn 256 avail) with
    | Err e => Err e
    | Fault f => Fault f
    | Ok (h, hsize) =>
      if negb (Z.eqb (hc_type h) E_CARQUET_PAGE_DATA) then Err E_CARQUET_ERROR_INVALID_PAGE else
      if len avail - hsize <? hc_compressed h then Err E_CARQUET_ERROR_INVALID_PAGE else
      let body := firstn (N.to_nat (hc_compressed h)) (skipn (N.to_nat hsize) avail) in
      if verify && match hc_crc h with Some s => negb (crc32 body =? s) | None => false end
      then Err E_CARQUET_ERROR_CRC_MISMATCH else
      match (if Z.eqb codec E_CARQUET_COMPRESSION_UNCOMPRESSED then Ok body
             else decompress body (hc_uncompressed h)) with
      | Err e => Err e
      | Fault f => Fault f
      | Ok page =>
        if (0 <? max_def c) && negb (Z.eqb (hc_def_encoding h) E_CARQUET_ENCODING_RLE)
        then Err E_CARQUET_ERROR_INVALID_ENCODING else
        if negb (Z.eqb (hc_encoding h) E_CARQUET_ENCODING_PLAIN) then Err E_CARQUET_ERROR_NOT_IMPLEMENTED else
        match read_data_page_v1 c page (hc_num_values h) with
        | Ok (defs, vals) => Ok (rows_of_page c defs vals, hc_num_values h, hsize + hc_compressed h)
        | Err e => Err e
        | Fault f => Fault f
        end
      end
    end.

  (** pages in sequence until values_remaining is used up; every page occupies at least one byte *)
  Fixpoint read_chunk (fuel : nat) (c : column) (file : list N) (off remaining : N) : res (list row) :=
    if remaining =? 0 then Ok [] else
    match fuel with
    | O => Fault OutOfFuel
    | S f =>
      match read_page c file off with
      | Ok (rows, nv, size) =>
        match read_chunk f c file (off + size) (remaining - nv) with
        | Ok more => Ok (rows ++ more)
        | Err e => Err e
        | Fault x => Fault x
        end
      | Err e => Err e
      | Fault x => Fault x
      end
    end.

  Definition ptype_eqb (a b : ptype) : bool :=
    match a, b with
    | TBool, TBool | TInt32, TInt32 | TInt64, TInt64 | TFloat, TFloat | TDouble, TDouble
    | TByteArray, TByteArray | TFlba, TFlba => true
    | _, _ => false
    end.

  (** every column of a row group through its own column reader *)
  Fixpoint read_columns (file : list N) (sch : list column) (chunks : list chunk_meta) : res (list (list row)) :=
    match sch, chunks with
    | [], _ => Ok []
    | c :: sch', cm :: chunks' =>
      if negb (ptype_eqb (c_type (cm_col cm)) (c_type c)) then Err E_CARQUET_ERROR_INVALID_METADATA else
      match read_chunk (S (length file)) c file (cm_file_offset cm) (cm_num_values cm) with
      | Ok rows =>
        match read_columns file sch' chunks' with
        | Ok more => Ok (rows :: more)
        | Err e => Err e
        | Fault x => Fault x
        end
      | Err e => Err e
      | Fault x => Fault x
      end
    | _ :: _, [] => Err E_CARQUET_ERROR_INVALID_ARGUMENT        (* column index beyond the row group's chunks *)
    end.

  Fixpoint read_groups (file : list N) (sch : list column) (gs : list rg_meta) : res (list (N * list (list row))) :=
    match gs with
    | [] => Ok []
    | g :: gs' =>
      match read_columns file sch (rg_chunks g) with
      | Ok cols =>
        match read_groups file sch gs' with
        | Ok more => Ok ((rg_num_rows g, cols) :: more)
        | Err e => Err e
        | Fault x => Fault x
        end
      | Err e => Err e
      | Fault x => Fault x
      end
    end.

  (** open + metadata + dump of every column of every row group *)
  Definition read_all (file : list N) : res read_result :=
    match FooterModel.open file_meta parse_footer Buffer file with
    | Ok m =>
      match read_groups file (fm_schema m) (fm_groups m) with
      | Ok gs => Ok (mkrr (fm_schema m) (fm_num_rows m) gs)
      | Err e => Err e
      | Fault x => Fault x
      end
    | Err e => Err e
    | Fault x => Fault x
    end.
End ReadAll.

(** ------------------------------------------------------------------ what C01 compares *)

(** the table as a reader reports it *)
Definition result_of_table (t : table) : read_result :=
  mkrr (t_schema t) (N.of_nat (num_rows t)) (map (fun g => (N.of_nat (group_rows g), g)) (t_groups t)).

(** row groups without rows are not part of the partition the property speaks of *)
Definition drop_empty (r : read_result) : read_result :=
  mkrr (rr_schema r) (rr_num_rows r) (filter (fun g => negb (fst g =? 0)) (rr_groups r)).
