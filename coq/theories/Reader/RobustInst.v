(** The reader theorems of C04 / C18 instantiated with the Thrift engine's parser models
    (Thrift/ParquetMetaModel.v: parquet_parse_file_metadata, parquet_parse_page_header) and the schema
    engine's build_schema (Schema/SchemaModel.v): no hypothesis about a parser is left.

    The premises of the parametric theorems are proved here from the Thrift owner's theorems
    (parse_struct_good, parse_*_consumed, parse_*_never_faults) plus small lemmas about their model
    proved in this file: error statuses are never CARQUET_OK, a successful parse consumes at least one
    byte, the count limits of VALIDATE_COUNT(_STATUS) hold of the lists in the parsed record. *)
From Coq Require Import NArith ZArith List Bool Arith Lia.
From Carquet Require Import Base.Res Gen.Enums_gen Gen.Consts_gen Gen.Robust_gen.
From Carquet Require Import Thrift.ThriftModel Thrift.ThriftProofs Thrift.ParquetMetaDesc Thrift.ParquetMetaModel
  Thrift.ParquetMetaProofs.
From Carquet Require Schema.SchemaTree Schema.SchemaModel Schema.SchemaProofs.
From Carquet Require Import Reader.FooterModel Reader.FooterProofs Reader.PageBoundsModel Reader.RobustProofs.
Import ListNotations.
Local Open Scope Z_scope.

(* ------------------------------------------------------------------------------------------------ *)
(** * Error statuses of the Thrift parser are never CARQUET_OK *)

Definition nz {A} (r : res A) : Prop := forall c, r = Err c -> c <> 0.

Lemma nz_ok {A} (a : A) : nz (Ok a). Proof. intros c H; discriminate. Qed.
Lemma nz_fault {A} f : nz (@Fault A f). Proof. intros c H; discriminate. Qed.
Lemma nz_trunc {A} : nz (@Err A ST_TRUNCATED). Proof. intros c H; inversion H; subst; discriminate. Qed.
Lemma nz_decode {A} : nz (@Err A ST_DECODE). Proof. intros c H; inversion H; subst; discriminate. Qed.
Lemma nz_invtype {A} : nz (@Err A ST_INVALID_TYPE). Proof. intros c H; inversion H; subst; discriminate. Qed.
#[local] Hint Resolve nz_ok nz_fault nz_trunc nz_decode nz_invtype : nz.

Lemma nz_bind {A B} (r : res A) (k : A -> res B) : nz r -> (forall a, nz (k a)) -> nz (rbind r k).
Proof. intros Hr Hk. destruct r; simpl; auto with nz. intros c0 H; inversion H; subst; apply Hr; reflexivity. Qed.

(** the explicit `match r with Ok a => k a | Err c => Err c | Fault f => Fault f end` of the model is [rbind] *)
Ltac nz_step X HX :=
  let E := fresh "E" in
  destruct X eqn:E;
  [ | let c := fresh "c" in let H := fresh "H" in intros c H; inversion H; subst; eapply HX; eassumption
    | auto with nz ].

(** [nzd L X]: case analysis on the call X whose error statuses are nonzero by lemma L; the Err and
    Fault branches of the model's `match` are closed, the Ok branch remains. *)
Tactic Notation "nzd" constr(L) constr(X) "as" simple_intropattern(pat) :=
  let V := fresh "V" in pose proof L as V; destruct X as [pat| |]; cbn beta iota; auto with nz;
  try (let c := fresh in let H := fresh in intros c H; inversion H; subst; eapply V; reflexivity).

Lemma take_bytes_nz : forall n l, nz (take_bytes n l).
Proof.
  induction n as [|n IH]; intros l; simpl; auto with nz.
  destruct l as [|b tl]; auto with nz. nzd (IH tl) (take_bytes n tl) as [? ?].
Qed.

Lemma read_byte_raw_nz d : nz (read_byte_raw d).
Proof. unfold read_byte_raw, get_byte. destruct (has_bytes d 1); auto with nz. destruct (d_rest d); auto with nz. Qed.

Lemma reader_skip_nz n d : nz (reader_skip n d).
Proof.
  unfold reader_skip. destruct (has_bytes d n); auto with nz.
  nzd (take_bytes_nz (N.to_nat n) (d_rest d)) (take_bytes (N.to_nat n) (d_rest d)) as [? ?].
Qed.

Lemma read_varint_loop_nz : forall k s r d, nz (read_varint_loop k s r d).
Proof.
  induction k as [|k IH]; intros s r d; simpl; auto with nz.
  destruct (has_bytes d 1); auto with nz.
  nzd (read_byte_raw_nz d) (read_byte_raw d) as [byte d1].
  destruct (N.land byte 128 =? 0)%N; auto with nz.
Qed.

Lemma read_varint_nz d : nz (read_varint d).
Proof. apply read_varint_loop_nz. Qed.

Lemma read_int_nz bits d : nz (read_int bits d).
Proof. unfold read_int, read_zigzag. nzd (read_varint_nz d) (read_varint d) as [? ?]. Qed.

Lemma read_byte_nz d : nz (read_byte d).
Proof. unfold read_byte. nzd (read_byte_raw_nz d) (read_byte_raw d) as [? ?]. Qed.

Lemma read_bool_nz d : nz (read_bool d).
Proof.
  unfold read_bool. destruct (d_boolp d); auto with nz.
  nzd (read_byte_raw_nz d) (read_byte_raw d) as [? ?].
Qed.

Lemma read_binary_nz d : nz (read_binary d).
Proof.
  unfold read_binary. nzd (read_varint_nz d) (read_varint d) as [n d1].
  destruct (i32 (Z.of_N n) <? 0); auto with nz.
  destruct (has_bytes d1 (Z.to_N (i32 (Z.of_N n)))); auto with nz.
  nzd (take_bytes_nz (Z.to_nat (i32 (Z.of_N n))) (d_rest d1)) (take_bytes (Z.to_nat (i32 (Z.of_N n))) (d_rest d1)) as [? ?].
Qed.

Lemma read_struct_begin_nz d : nz (read_struct_begin d).
Proof. unfold read_struct_begin. destruct (MAX_NESTING <=? len (d_lfid d))%N; auto with nz. Qed.

Lemma read_field_begin_nz d : nz (read_field_begin d).
Proof.
  unfold read_field_begin. nzd (read_byte_raw_nz d) (read_byte_raw d) as [h d1].
  destruct (h =? 0)%N; auto with nz.
  destruct (N.land (N.shiftr h 4) 15 =? 0)%N; auto with nz.
  unfold read_i16. nzd (read_int_nz 16 d1) (read_int 16 d1) as [? ?].
Qed.

Lemma read_list_begin_nz d : nz (read_list_begin d).
Proof.
  unfold read_list_begin. nzd (read_byte_raw_nz d) (read_byte_raw d) as [h d1].
  assert (G : forall (count : Z) (d2 : decoder),
      nz (if count <? 0 then Err ST_DECODE else if negb (has_bytes d2 (Z.to_N count)) then Err ST_DECODE
          else Ok (N.land h 15, count, d2))).
  { intros count d2. destruct (count <? 0); auto with nz. destruct (negb (has_bytes d2 (Z.to_N count))); auto with nz. }
  destruct (N.land (N.shiftr h 4) 15 =? 15)%N; [|apply G].
  nzd (read_varint_nz d1) (read_varint d1) as [? ?].
Qed.

Lemma read_map_begin_nz d : nz (read_map_begin d).
Proof.
  unfold read_map_begin. nzd (read_varint_nz d) (read_varint d) as [n d1].
  destruct (i32 (Z.of_N n) <? 0); auto with nz. destruct (i32 (Z.of_N n) =? 0); auto with nz.
  destruct (negb (has_bytes d1 (Z.to_N (i32 (Z.of_N n))))); auto with nz.
  nzd (read_byte_raw_nz d1) (read_byte_raw d1) as [? ?].
Qed.

Lemma skip_elems_nz sk : (forall d, nz (sk d)) -> forall n d, nz (skip_elems sk n d).
Proof.
  intros S. induction n as [|n IH]; intros d; simpl; auto with nz. nzd (S d) (sk d) as d1.
Qed.

Lemma skip_pairs_nz skk skv : (forall d, nz (skk d)) -> (forall d, nz (skv d)) -> forall n d, nz (skip_pairs skk skv n d).
Proof.
  intros K V. induction n as [|n IH]; intros d; simpl; auto with nz.
  nzd (K d) (skk d) as d1. nzd (V d1) (skv d1) as d2.
Qed.

Lemma skip_fields_nz sk : (forall ft d, nz (sk ft d)) -> forall k d, nz (skip_fields sk k d).
Proof.
  intros S. induction k as [|k0 k IH]; intros d; simpl; auto with nz.
  nzd (read_field_begin_nz d) (read_field_begin d) as [[[ft id]|] d1].
  nzd (S ft d1) (sk ft d1) as d2.
Qed.

Lemma skip_value_nz : forall fuel ty depth el d, nz (skip_value fuel ty depth el d).
Proof.
  induction fuel as [|fuel IH]; intros ty depth el d; simpl.
  - destruct (MAX_NESTING <=? depth)%N; auto with nz.
  - destruct (MAX_NESTING <=? depth)%N; auto with nz.
    assert (Hb : nz (match read_byte_raw d with Ok (_, d1) => Ok d1 | Err c => Err c | Fault f => Fault f end)).
    { nzd (read_byte_raw_nz d) (read_byte_raw d) as [? ?]. }
    assert (Hv : nz (match read_varint d with Ok (_, d1) => Ok d1 | Err c => Err c | Fault f => Fault f end)).
    { nzd (read_varint_nz d) (read_varint d) as [? ?]. }
    assert (Hbin : nz (match read_binary d with Ok (_, d1) => Ok d1 | Err c => Err c | Fault f => Fault f end)).
    { nzd (read_binary_nz d) (read_binary d) as [? ?]. }
    assert (Hl : nz (match read_list_begin d with
                     | Ok (et, count, d1) => skip_elems (skip_value fuel et (depth + 1) true) (Z.to_nat count) d1
                     | Err c => Err c | Fault f => Fault f end)).
    { nzd (read_list_begin_nz d) (read_list_begin d) as [[et cnt] d1].
      apply skip_elems_nz. intros d0. apply IH. }
    assert (Hm : nz (match read_map_begin d with
                     | Ok (kt, vt, count, d1) =>
                         skip_pairs (skip_value fuel kt (depth + 1) true) (skip_value fuel vt (depth + 1) true) (Z.to_nat count) d1
                     | Err c => Err c | Fault f => Fault f end)).
    { nzd (read_map_begin_nz d) (read_map_begin d) as [[[kt vt] cnt] d1].
      apply skip_pairs_nz; intros d0; apply IH. }
    assert (Hs : nz (match read_struct_begin d with
                     | Ok d1 => match skip_fields (fun ft => skip_value fuel ft (depth + 1) false) (0%N :: d_rest d1) d1 with
                                | Ok d2 => Ok (read_struct_end d2) | Err c => Err c | Fault f => Fault f end
                     | Err c => Err c | Fault f => Fault f end)).
    { nzd (read_struct_begin_nz d) (read_struct_begin d) as d1.
      nzd (skip_fields_nz (fun ft => skip_value fuel ft (depth + 1) false) (fun ft d0 => IH ft (depth + 1)%N false d0) (0%N :: d_rest d1) d1)
          (skip_fields (fun ft => skip_value fuel ft (depth + 1) false) (0%N :: d_rest d1) d1) as d2. }
    destruct ty as [|p]; auto with nz.
    do 4 (try destruct p as [p|p|]); auto with nz; try (destruct el; auto with nz); try apply reader_skip_nz.
Qed.

Lemma thrift_skip_nz ty d : nz (thrift_skip ty d).
Proof. apply skip_value_nz. Qed.

(** the descriptor-driven parser *)
Lemma repeat_read_nz {A} (rd : decoder -> res (A * decoder)) : (forall d, nz (rd d)) -> forall n d, nz (repeat_read rd n d).
Proof.
  intros R. induction n as [|n IH]; intros d; cbn [repeat_read]; auto with nz.
  apply nz_bind; [apply R|]. intros [x d1]. apply nz_bind; [apply IH|]. intros [xs d2]. auto with nz.
Qed.

Lemma parse_loop_nz handle : (forall ty id r d, nz (handle ty id r d)) -> forall k r d, nz (parse_loop handle k r d).
Proof.
  intros Hh. induction k as [|k0 k IH]; intros r d; cbn [parse_loop]; auto with nz.
  apply nz_bind; [apply read_field_begin_nz|]. intros [[[ty id]|] d1]; auto with nz.
  apply nz_bind; [apply Hh|]. intros [r2 d2]. apply IH.
Qed.

Definition kind_err_nz (k : kind) : Prop :=
  match k with KListI32 _ e | KListStr _ e | KListStruct _ _ e => e <> 0 | _ => True end.

Lemma validate_count_nz c m e : e <> 0 -> nz (validate_count c m e).
Proof. intros He. unfold validate_count. destruct ((c <? 0) || (m <? c)); auto with nz. intros c0 H; inversion H; subst; exact He. Qed.

Section ParserNz.
  Variable tbl : nat -> sdesc.
  Hypothesis tbl_errs : forall sid f, In f (s_fields (tbl sid)) -> kind_err_nz (f_kind f).

  Lemma parse_field_nz ps f ty : kind_err_nz (f_kind f) -> (forall s r d, nz (ps s r d)) -> forall r d, nz (parse_field tbl ps f ty r d).
  Proof.
    intros Hk Hps r d. unfold parse_field.
    assert (Hfresh : forall s' d0, nz (do (sub, d1) <- ps s' (s_init (tbl s')) d0; Ok (MRec sub, d1))).
    { intros s' d0. apply nz_bind; [apply Hps|]. intros [sub d1]. auto with nz. }
    destruct (f_kind f) as [ | | | | | | |s'|mx er|mx er|s' mx er|s' pre|pre]; simpl in Hk.
    - apply nz_bind; [apply read_bool_nz|]. intros [b d1]; auto with nz.
    - apply nz_bind; [apply read_byte_nz|]. intros [b d1]; auto with nz.
    - apply nz_bind; [apply read_int_nz|]. intros [b d1]; auto with nz.
    - apply nz_bind; [apply read_int_nz|]. intros [b d1]; auto with nz.
    - apply nz_bind; [apply read_int_nz|]. intros [b d1]; auto with nz.
    - apply nz_bind; [unfold read_bin; apply nz_bind; [apply read_binary_nz|intros [b d1]; auto with nz]|]. intros [b d1]; auto with nz.
    - apply nz_bind; [unfold read_str; apply nz_bind; [apply read_binary_nz|intros [b d1]; auto with nz]|]. intros [b d1]; auto with nz.
    - apply nz_bind; [apply Hfresh|]. intros [b d1]; auto with nz.
    - apply nz_bind; [apply read_list_begin_nz|]. intros [[et cnt] d1].
      apply nz_bind; [apply validate_count_nz; exact Hk|]. intros _.
      apply nz_bind; [apply repeat_read_nz; intros d0; unfold read_i32_m; apply nz_bind; [apply read_int_nz|intros [z d2]; auto with nz]|].
      intros [xs d2]; auto with nz.
    - apply nz_bind; [apply read_list_begin_nz|]. intros [[et cnt] d1].
      apply nz_bind; [apply validate_count_nz; exact Hk|]. intros _.
      apply nz_bind; [apply repeat_read_nz; intros d0; unfold read_str; apply nz_bind; [apply read_binary_nz|intros [z d2]; auto with nz]|].
      intros [xs d2]; auto with nz.
    - apply nz_bind; [apply read_list_begin_nz|]. intros [[et cnt] d1].
      apply nz_bind; [apply validate_count_nz; exact Hk|]. intros _.
      apply nz_bind; [apply repeat_read_nz; intros d0; apply Hfresh|].
      intros [xs d2]; auto with nz.
    - apply Hps.
    - apply nz_bind; [apply thrift_skip_nz|]. intros d1; auto with nz.
  Qed.

  Lemma parse_struct_nz : forall fuel sid r d, nz (parse_struct tbl fuel sid r d).
  Proof.
    induction fuel as [|fuel IH]; intros sid r d; cbn [parse_struct]; auto with nz.
    apply nz_bind; [apply read_struct_begin_nz|]. intros d0.
    apply nz_bind; [|intros [r1 d1]; auto with nz].
    apply parse_loop_nz. intros ty id r0 d1. unfold handle_field.
    destruct (find_field id (s_fields (tbl sid))) as [f|] eqn:FF.
    - apply parse_field_nz; [|intros s r2 d2; apply IH].
      apply (tbl_errs sid). unfold find_field in FF. apply find_some in FF. tauto.
    - apply nz_bind; [apply thrift_skip_nz|]. intros d2; auto with nz.
  Qed.

  Lemma parse_message_nz fuel sid data : nz (parse_message tbl fuel sid data).
  Proof. unfold parse_message. apply nz_bind; [apply parse_struct_nz|]. intros [r d]; auto with nz. Qed.
End ParserNz.

Lemma carquet_tbl_errs : forall sid f, In f (s_fields (carquet_tbl sid)) -> kind_err_nz (f_kind f).
Proof.
  intros sid f Hf.
  do 18 (destruct sid as [|sid]; [cbn in Hf; repeat (destruct Hf as [<-|Hf]; [cbn; try exact I; discriminate|]); contradiction|]).
  cbn in Hf. contradiction.
Qed.

(** Error statuses of the two parsers are never CARQUET_OK. *)
Theorem parse_file_metadata_err_nonzero : forall bs c, parse_file_metadata bs = Err c -> c <> 0.
Proof. intros bs. apply (parse_message_nz carquet_tbl carquet_tbl_errs). Qed.
Theorem parse_page_header_err_nonzero : forall bs c, parse_page_header bs = Err c -> c <> 0.
Proof. intros bs. apply (parse_message_nz carquet_tbl carquet_tbl_errs). Qed.

(* ------------------------------------------------------------------------------------------------ *)
(** * A successful parse consumes at least one byte (the STOP byte at the very least) *)

Section ConsumesSome.
  Variable tbl : nat -> sdesc.
  Variable rank : nat -> nat.
  Hypothesis Hranked : ranked tbl rank.

  Lemma parse_loop_strict handle : (forall ty id, good_parse (handle ty id)) ->
    forall k r d r' d', (rem d < length k)%nat -> parse_loop handle k r d = Ok (r', d') ->
      (S (rem d') <= rem d)%nat /\ tot d' = tot d.
  Proof.
    intros G k r d r' d' Hk X. destruct k as [|k0 k]; [simpl in Hk; lia|]. simpl in Hk. cbn [parse_loop] in X.
    destruct (read_field_begin d) as [[[[ty id]|] d1]| |] eqn:RF; simpl in X; try discriminate.
    - apply read_field_begin_rem in RF. destruct RF as (R1 & R2 & R3).
      destruct (G ty id r d1) as [_ Gr]. destruct (handle ty id r d1) as [[r2 d2]| |] eqn:E; simpl in X; try discriminate.
      destruct (Gr r2 d2 eq_refl) as (S1 & S2 & S3).
      destruct (parse_loop_good handle G k r2 d2) as [_ Lr]; [lia|].
      destruct (Lr r' d' X) as (T1 & T2 & T3). split; [lia|congruence].
    - apply read_field_begin_rem in RF. destruct RF as (R1 & R2 & R3). inversion X; subst. split; [lia|congruence].
  Qed.

  Lemma parse_message_consumes_some : forall fuel sid data r c, (rank sid < fuel)%nat ->
    parse_message tbl fuel sid data = Ok (r, c) -> (1 <= c)%N.
  Proof.
    intros fuel sid data r c Hr X. unfold parse_message in X.
    destruct fuel as [|fuel]; [lia|]. cbn [parse_struct] in X.
    unfold read_struct_begin in X. destruct (MAX_NESTING <=? len (d_lfid (decoder_init data)))%N; cbn [rbind] in X; [discriminate|].
    set (d0 := with_lfid (decoder_init data) (0%Z :: d_lfid (decoder_init data))) in *.
    destruct (parse_loop (handle_field tbl (parse_struct tbl fuel) (s_fields (tbl sid))) (0%N :: d_rest d0) (s_init (tbl sid)) d0)
      as [[r1 d1]| |] eqn:E; cbn [rbind] in X; try discriminate.
    inversion X; subst. clear X.
    apply parse_loop_strict in E.
    - destruct E as [E1 E2]. unfold tot, rem in *. simpl in *. lia.
    - intros ty id. apply handle_field_good. intros f s' Hf Hs. apply (parse_struct_good tbl rank Hranked).
      pose proof (Hranked sid f s' Hf Hs). lia.
    - unfold rem. simpl. lia.
  Qed.
End ConsumesSome.

Theorem parse_page_header_consumes_some : forall bs r c, parse_page_header bs = Ok (r, c) -> (1 <= c)%N.
Proof.
  intros bs r c. unfold parse_page_header.
  apply (parse_message_consumes_some carquet_tbl carquet_rank carquet_ranked). vm_compute. lia.
Qed.

(* ------------------------------------------------------------------------------------------------ *)
(** * The page-header parser as the [parse_hdr] of PageBoundsModel *)

Definition geti (r : list mval) (slot : nat) : Z := match get_int r slot with Some z => z | None => 0 end.

(** parquet_page_header_t as the reader uses it (slots of d_page_header).  compressed_page_size lives in an
    int32_t field, hence the cast.  (data_page_header and dictionary_page_header are a C union; the Thrift
    model lays them side by side - irrelevant here: the bounds theorems hold for every header.) *)
Definition header_of (r : list mval) : page_header :=
  mkPH (geti r 0) (geti r 1) (i32 (geti r 2)) (negb (geti r 3 =? 0)) (geti r 5) (geti r 6) (geti r 11).

Definition parse_hdr_carquet (bs : list N) : hdr_result :=
  match parse_page_header bs with
  | Ok (r, c) => HdrOk (header_of r) (N.to_nat c)
  | Err c => if c =? ST_TRUNCATED then HdrShort else HdrErr c
  | Fault _ => HdrShort          (* never: parse_page_header_never_faults *)
  end.

Lemma i32_range z : -2147483648 <= i32 z < 2147483648.
Proof.
  unfold i32, scast. change (2 ^ (32 - 1)) with 2147483648. change (2 ^ 32) with 4294967296.
  pose proof (Z.mod_pos_bound (z + 2147483648) 4294967296 ltac:(lia)). lia.
Qed.

Lemma hdr_consumes_given : forall bs h hs, parse_hdr_carquet bs = HdrOk h hs -> (hs <= length bs)%nat.
Proof.
  intros bs h hs H. unfold parse_hdr_carquet in H.
  destruct (parse_page_header bs) as [[r c]|c|f] eqn:E; [|destruct (c =? ST_TRUNCATED); discriminate|discriminate].
  inversion H; subst. apply parse_page_header_consumed in E. lia.
Qed.

Lemma hdr_csize_i32 : forall bs h hs, parse_hdr_carquet bs = HdrOk h hs -> -2147483648 <= ph_csize h < 2147483648.
Proof.
  intros bs h hs H. unfold parse_hdr_carquet in H.
  destruct (parse_page_header bs) as [[r c]|c|f] eqn:E; [|destruct (c =? ST_TRUNCATED); discriminate|discriminate].
  inversion H; subst. simpl. apply i32_range.
Qed.

Lemma hdr_consumes_some : forall bs h hs, parse_hdr_carquet bs = HdrOk h hs -> (1 <= hs)%nat.
Proof.
  intros bs h hs H. unfold parse_hdr_carquet in H.
  destruct (parse_page_header bs) as [[r c]|c|f] eqn:E; [|destruct (c =? ST_TRUNCATED); discriminate|discriminate].
  inversion H; subst. apply parse_page_header_consumes_some in E. lia.
Qed.

(** C04 with carquet's page-header parser: no parser hypothesis left. *)
Theorem page_load_in_bounds_carquet : forall p k f off,
  (exists c, load parse_hdr_carquet current_pchecks p k f off = Err c) \/
  (exists l, load parse_hdr_carquet current_pchecks p k f off = Ok l /\
     Forall (in_file (Z.of_nat (length f))) (ld_reads l) /\ in_file (Z.of_nat (length f)) (ld_body l) /\
     0 <= ld_hs l /\ r_off (ld_body l) = off + ld_hs l /\ r_len (ld_body l) = ph_csize (ld_header l) /\
     0 <= off < Z.of_nat (length f)).
Proof. exact (page_load_in_bounds parse_hdr_carquet hdr_consumes_given hdr_csize_i32). Qed.

Theorem read_terminates_linear_carquet : forall p f off,
  exists k, walk parse_hdr_carquet current_pchecks (length f + 1) p f off 0 = Ok k /\ (k <= length f + 1)%nat.
Proof. exact (read_terminates_linear parse_hdr_carquet hdr_consumes_given hdr_csize_i32 hdr_consumes_some). Qed.

(** the instantiation is not vacuous: a real header, parsed by the Thrift model, loaded from a 64-byte file *)
Example page_load_carquet_example :
  let hdr := [0x15; 0x00; 0x15; 0x10; 0x15; 0x10; 0x2c; 0x15; 0x04; 0x15; 0x00; 0x15; 0x06; 0x15; 0x06; 0x00; 0x00]%N in
  exists l, load parse_hdr_carquet current_pchecks Mapped DataPage (repeat 0%N 4 ++ hdr ++ repeat 0%N 43) 4 = Ok l
            /\ ld_body l = mkRange 21 8 /\ ph_num_values (ld_header l) = 2.
Proof. eexists. split; [vm_compute; reflexivity|split; reflexivity]. Qed.

(* ------------------------------------------------------------------------------------------------ *)
(** * The count limits hold of the lists in the parsed record (VALIDATE_COUNT / VALIDATE_COUNT_STATUS) *)

Lemma nth_set_same {A} : forall n (x y : A) l, nth_error (set_nth n x l) n = Some y -> y = x.
Proof.
  induction n as [|n IH]; intros x y [|a l] H; simpl in H; try discriminate.
  - inversion H; reflexivity.
  - eapply IH; eauto.
Qed.

Lemma nth_set_other {A} : forall n m (x : A) l, n <> m -> nth_error (set_nth n x l) m = nth_error l m.
Proof.
  induction n as [|n IH]; intros m x [|a l] Hne; simpl; auto.
  - destruct m; [contradiction|reflexivity].
  - destruct m; [reflexivity|]. simpl. apply IH. congruence.
Qed.

Lemma repeat_read_spec {A} (rd : decoder -> res (A * decoder)) (R : A -> Prop) :
  (forall d x d', rd d = Ok (x, d') -> R x) ->
  forall n d xs d', repeat_read rd n d = Ok (xs, d') -> length xs = n /\ Forall R xs.
Proof.
  intros HR. induction n as [|n IH]; intros d xs d' H; cbn [repeat_read] in H.
  - inversion H; subst. split; [reflexivity|constructor].
  - destruct (rd d) as [[x d1]| |] eqn:E; simpl in H; try discriminate.
    destruct (repeat_read rd n d1) as [[ys d2]| |] eqn:E2; simpl in H; try discriminate.
    inversion H; subst. destruct (IH _ _ _ E2) as [L F]. split; [simpl; congruence|constructor; eauto].
Qed.

Lemma parse_loop_inv (P : list mval -> Prop) handle :
  (forall ty id r d r' d', P r -> handle ty id r d = Ok (r', d') -> P r') ->
  forall k r d r' d', P r -> parse_loop handle k r d = Ok (r', d') -> P r'.
Proof.
  intros Hh. induction k as [|k0 k IH]; intros r d r' d' HP X; cbn [parse_loop] in X; [discriminate|].
  destruct (read_field_begin d) as [[[[ty id]|] d1]| |]; simpl in X; try discriminate.
  - destruct (handle ty id r d1) as [[r2 d2]| |] eqn:E; simpl in X; try discriminate. eapply IH; [|exact X]. eapply Hh; eauto.
  - inversion X; subst. exact HP.
Qed.

Lemma parse_struct_inv tbl (P : list mval -> Prop) fuel sid :
  (forall ty id r d r' d', P r -> handle_field tbl (parse_struct tbl fuel) (s_fields (tbl sid)) ty id r d = Ok (r', d') -> P r') ->
  forall r d r' d', P r -> parse_struct tbl (S fuel) sid r d = Ok (r', d') -> P r'.
Proof.
  intros Hh r d r' d' HP X. cbn [parse_struct] in X.
  destruct (read_struct_begin d) as [d0| |]; cbn [rbind] in X; try discriminate.
  destruct (parse_loop (handle_field tbl (parse_struct tbl fuel) (s_fields (tbl sid))) (0%N :: d_rest d0) r d0)
    as [[r1 d1]| |] eqn:E; cbn [rbind] in X; try discriminate.
  inversion X; subst. eapply parse_loop_inv; eauto.
Qed.

Lemma validate_count_ok c m e u : validate_count c m e = Ok u -> 0 <= c <= m.
Proof. unfold validate_count. destruct ((c <? 0) || (m <? c)) eqn:E; [discriminate|]. apply orb_false_iff in E. lia. Qed.

Lemma Ok_pair_inj {A B} (a a' : A) (b b' : B) : @Ok (A * B) (a, b) = Ok (a', b') -> a = a' /\ b = b'.
Proof. intros H; inversion H; auto. Qed.

(** a scalar field: the record changes at the field's slot (and its has-flag) only *)
Ltac other_slot HQ :=
  let H := fresh in intros ? H; rewrite ?nth_set_other in H by discriminate; apply HQ; exact H.
Ltac scalar_field X HQ :=
  unfold parse_field in X; cbn [f_kind F FH f_has f_slot set_has] in X;
  repeat match type of X with
         | rbind ?c _ = _ => let E := fresh "E" in destruct c as [[? ?]| |] eqn:E; cbn [rbind] in X; try discriminate
         end;
  apply Ok_pair_inj in X; destruct X as [<- <-].

Definition MAXC : nat := Z.to_nat (lim Pq_CARQUET_MAX_COLUMNS_PER_RG).
Definition MAXS : nat := Z.to_nat (lim Pq_CARQUET_MAX_SCHEMA_ELEMENTS).
Definition MAXRG : nat := Z.to_nat (lim Pq_CARQUET_MAX_ROW_GROUPS).

(** row group record: slot 0 = columns *)
Definition rg_lim (rec : list mval) : Prop := forall cs, nth_error rec 0 = Some (MArr cs) -> (length cs <= MAXC)%nat.

Lemma list_field_result (rd : decoder -> res (mval * decoder)) (R : mval -> Prop) slot r0 mx er d r' d' :
  (forall d x d', rd d = Ok (x, d') -> R x) ->
  (do (_, count, d1) <- read_list_begin d;
   do _u <- validate_count count mx er;
   do (xs, d2) <- repeat_read rd (Z.to_nat count) d1;
   Ok (set_nth slot (MArr xs) r0, d2)) = Ok (r', d') ->
  exists xs, r' = set_nth slot (MArr xs) r0 /\ (length xs <= Z.to_nat mx)%nat /\ Forall R xs.
Proof.
  intros HR X.
  destruct (read_list_begin d) as [[[et cnt] d1]| |]; simpl in X; try discriminate.
  destruct (validate_count cnt mx er) as [u| |] eqn:V; simpl in X; try discriminate.
  destruct (repeat_read rd (Z.to_nat cnt) d1) as [[xs d2]| |] eqn:E; simpl in X; try discriminate.
  inversion X; subst. apply validate_count_ok in V. destruct (repeat_read_spec rd R HR _ _ _ _ E) as [L F].
  exists xs. split; [reflexivity|]. split; [lia|exact F].
Qed.

(** the row-group handler keeps the column-count limit *)
Lemma rg_handler_inv ps ty id r d r' d' :
  rg_lim r -> handle_field carquet_tbl ps (s_fields d_row_group) ty id r d = Ok (r', d') -> rg_lim r'.
Proof.
  intros HQ X. unfold handle_field, find_field in X. cbn [find s_fields d_row_group f_id F FH] in X.
  destruct (1 =? id).
  { unfold parse_field in X. cbn [f_kind F set_has f_has f_slot] in X.
    destruct (list_field_result _ (fun _ => True) _ _ _ _ _ _ _ (fun _ _ _ _ => I) X) as (xs & -> & L & _).
    intros cs H. apply nth_set_same in H. inversion H; subst. exact L. }
  destruct (2 =? id). { scalar_field X HQ. other_slot HQ. }
  destruct (3 =? id). { scalar_field X HQ. other_slot HQ. }
  destruct (5 =? id). { scalar_field X HQ. other_slot HQ. }
  destruct (6 =? id). { scalar_field X HQ. other_slot HQ. }
  destruct (7 =? id). { scalar_field X HQ. other_slot HQ. }
  destruct (thrift_skip ty d) as [d1| |]; simpl in X; try discriminate. inversion X; subst. exact HQ.
Qed.

(** file metadata record: slot 1 = schema, slot 3 = row groups *)
Definition rg_ok (g : mval) : Prop := forall rec, g = MRec rec -> rg_lim rec.
Definition file_lim (r : list mval) : Prop :=
  (forall xs, nth_error r 1 = Some (MArr xs) -> (length xs <= MAXS)%nat) /\
  (forall gs, nth_error r 3 = Some (MArr gs) -> (length gs <= MAXRG)%nat /\ Forall rg_ok gs).

Lemma rg_init_lim : rg_lim (s_init d_row_group).
Proof. intros cs H. cbn in H. inversion H; subst. simpl. lia. Qed.

Lemma parsed_row_group_ok f d x d' :
  (do (sub, d1) <- parse_struct carquet_tbl (S f) S_ROW_GROUP (s_init (carquet_tbl S_ROW_GROUP)) d; Ok (MRec sub, d1)) = Ok (x, d') ->
  rg_ok x.
Proof.
  intros X. destruct (parse_struct carquet_tbl (S f) S_ROW_GROUP (s_init (carquet_tbl S_ROW_GROUP)) d) as [[sub d1]| |] eqn:E;
    cbn [rbind] in X; try discriminate.
  apply Ok_pair_inj in X. destruct X as [<- <-]. intros rec Hrec. inversion Hrec; subst.
  eapply (parse_struct_inv carquet_tbl rg_lim f S_ROW_GROUP); [|apply rg_init_lim|exact E].
  intros ty id r0 d0 r' d2. apply rg_handler_inv.
Qed.

Ltac file_other HP :=
  destruct HP as [HP1 HP3]; split;
  [ let H := fresh in intros ? H; rewrite ?nth_set_other in H by discriminate; apply HP1; exact H
  | let H := fresh in intros ? H; rewrite ?nth_set_other in H by discriminate; apply HP3; exact H ].

Lemma file_handler_inv f ty id r d r' d' :
  file_lim r ->
  handle_field carquet_tbl (parse_struct carquet_tbl (S f)) (s_fields d_file_meta) ty id r d = Ok (r', d') -> file_lim r'.
Proof.
  intros HP X. unfold handle_field, find_field in X. cbn [find s_fields d_file_meta f_id F FH] in X.
  destruct (1 =? id). { scalar_field X HP. file_other HP. }
  destruct (2 =? id).
  { unfold parse_field in X. cbn [f_kind F set_has f_has f_slot] in X.
    destruct (list_field_result _ (fun _ => True) _ _ _ _ _ _ _ (fun _ _ _ _ => I) X) as (xs & -> & L & _).
    destruct HP as [HP1 HP3]. split.
    - intros ys H. apply nth_set_same in H. inversion H; subst. exact L.
    - intros gs H. rewrite nth_set_other in H by discriminate. apply HP3; exact H. }
  destruct (3 =? id). { scalar_field X HP. file_other HP. }
  destruct (4 =? id).
  { unfold parse_field in X. cbn [f_kind F set_has f_has f_slot] in X.
    destruct (list_field_result _ rg_ok _ _ _ _ _ _ _ (parsed_row_group_ok f) X) as (xs & -> & L & Fa).
    destruct HP as [HP1 HP3]. split.
    - intros ys H. rewrite nth_set_other in H by discriminate. apply HP1; exact H.
    - intros gs H. apply nth_set_same in H. inversion H; subst. split; [exact L|exact Fa]. }
  destruct (5 =? id).
  { unfold parse_field in X. cbn [f_kind F set_has f_has f_slot] in X.
    destruct (list_field_result _ (fun _ => True) _ _ _ _ _ _ _ (fun _ _ _ _ => I) X) as (xs & -> & L & _).
    file_other HP. }
  destruct (6 =? id). { scalar_field X HP. file_other HP. }
  destruct (thrift_skip ty d) as [d1| |]; simpl in X; try discriminate. inversion X; subst. exact HP.
Qed.

Lemma file_init_lim : file_lim (s_init d_file_meta).
Proof.
  split; intros l H; cbn in H; inversion H; subst; simpl; [lia|split; [lia|constructor]].
Qed.

Theorem parse_file_metadata_limits : forall bs r c, parse_file_metadata bs = Ok (r, c) -> file_lim r.
Proof.
  intros bs r c X. unfold parse_file_metadata, parse_message, FUEL in X.
  destruct (parse_struct carquet_tbl 8 S_FILE_META (s_init (carquet_tbl S_FILE_META)) (decoder_init bs)) as [[r0 d0]| |] eqn:E;
    cbn [rbind] in X; try discriminate.
  apply Ok_pair_inj in X. destruct X as [<- _].
  eapply (parse_struct_inv carquet_tbl file_lim 7 S_FILE_META); [|apply file_init_lim|exact E].
  intros ty id r1 d1 r' d'. apply file_handler_inv.
Qed.

(* ------------------------------------------------------------------------------------------------ *)
(** * The footer parser + build_schema as the [parse] of FooterModel *)

Definition getl (r : list mval) (slot : nat) : list mval := match nth_error r slot with Some (MArr l) => l | _ => [] end.
Definition getrec (v : mval) : list mval := match v with MRec l => l | _ => [] end.
Definition getrec_at (r : list mval) (slot : nat) : list mval := match nth_error r slot with Some v => getrec v | None => [] end.
Definition has_str (r : list mval) (slot : nat) : bool := match nth_error r slot with Some (MBytes (Some _)) => true | _ => false end.

(** parquet_schema_element_t -> the schema engine's element (names matter only as present / absent) *)
Definition elem_of (v : mval) : SchemaTree.elem :=
  let r := getrec v in
  SchemaTree.mkElem (if has_str r 5 then Some 0%N else None) (negb (geti r 0 =? 0)) (geti r 1) (geti r 2)
                    (negb (geti r 3 =? 0)) (geti r 4) (geti r 6) None.
Definition se_of (e : SchemaTree.elem) : schema_elem :=
  mkSE (SchemaTree.e_has_type e) (SchemaTree.e_type e) (SchemaTree.e_tlen e) (SchemaTree.e_nc e).
Definition cm_of (r : list mval) : col_meta :=
  mkCM (geti r 0) (geti r 3) (geti r 4) (geti r 8) (negb (geti r 11 =? 0)) (geti r 12).
Definition cc_of (v : mval) : col_chunk := let r := getrec v in mkCC (negb (geti r 2 =? 0)) (cm_of (getrec_at r 3)).
Definition rg_of (v : mval) : row_group := let r := getrec v in mkRG (map cc_of (getl r 0)) (geti r 2).

(** parquet_parse_file_metadata followed by build_schema; the status is the one left in the error struct *)
Definition footer_parse_carquet (bs : list N) : res file_meta :=
  match parse_file_metadata bs with
  | Ok (r, _) =>
      let elems := map elem_of (getl r 1) in
      match SchemaModel.build_schema elems with
      | SchemaModel.Ok s =>
          Ok (mkFM (map se_of elems) (map rg_of (getl r 3)) (map (fun l => fst (fst l)) (SchemaModel.s_leaves s)))
      | SchemaModel.Err c => Err c
      | SchemaModel.Fault _ => Fault OobRead       (* never: Schema.leaf_idx_bounded_thm *)
      end
  | Err c => Err c
  | Fault f => Fault f
  end.

Lemma getl_lim_schema r : file_lim r -> (length (getl r 1) <= MAXS)%nat.
Proof.
  intros [H _]. unfold getl. destruct (nth_error r 1) as [[| | |l]|] eqn:E; simpl; try lia. apply H. reflexivity.
Qed.
Lemma getl_lim_rgs r : file_lim r -> (length (getl r 3) <= MAXRG)%nat /\ Forall rg_ok (getl r 3).
Proof.
  intros [_ H]. unfold getl. destruct (nth_error r 3) as [[| | |l]|] eqn:E; simpl; try (split; [lia|constructor]). apply H. reflexivity.
Qed.

Lemma max_elems_eq : SchemaModel.MAX_ELEMS = MAXS.
Proof. reflexivity. Qed.

Lemma footer_parse_within_limits : forall bs m, footer_parse_carquet bs = Ok m -> within_limits m.
Proof.
  intros bs m X. unfold footer_parse_carquet in X.
  destruct (parse_file_metadata bs) as [[r c]| |] eqn:E; try discriminate.
  pose proof (parse_file_metadata_limits _ _ _ E) as HL.
  pose proof (getl_lim_schema r HL) as Hs. destruct (getl_lim_rgs r HL) as [Hg Hgo].
  set (elems := map elem_of (getl r 1)) in *.
  assert (Hlen : (length elems <= SchemaModel.MAX_ELEMS)%nat) by (unfold elems; rewrite map_length, max_elems_eq; exact Hs).
  pose proof (SchemaProofs.build_schema_total elems Hlen) as T.
  destruct (SchemaModel.build_schema elems) as [s| |]; try discriminate.
  inversion X; subst; clear X. destruct T as (Te & _ & _ & _ & _ & Tb).
  unfold within_limits. cbn [fm_schema fm_row_groups fm_leaves]. rewrite !map_length.
  split; [|split; [|split]].
  - unfold elems. rewrite map_length. revert Hs. unfold MAXS, lim, Pq_CARQUET_MAX_SCHEMA_ELEMENTS, Robust_CARQUET_MAX_SCHEMA_ELEMENTS. lia.
  - revert Hg. unfold MAXRG, lim, Pq_CARQUET_MAX_ROW_GROUPS, Robust_CARQUET_MAX_ROW_GROUPS. lia.
  - apply Forall_map. eapply Forall_impl; [|exact Hgo]. intros g Hgk. unfold rg_of. cbn [rg_columns]. rewrite map_length.
    destruct g as [z|o|rec|l0]; cbn [getrec]; try (unfold getl; cbn; unfold Robust_CARQUET_MAX_COLUMNS_PER_RG; lia).
    specialize (Hgk rec eq_refl). unfold getl. destruct (nth_error rec 0) as [[| | |l]|] eqn:E0; simpl; try lia.
    specialize (Hgk l E0). revert Hgk. unfold MAXC, lim, Pq_CARQUET_MAX_COLUMNS_PER_RG, Robust_CARQUET_MAX_COLUMNS_PER_RG. lia.
  - apply Forall_map. unfold SchemaProofs.leaves_in_bounds in Tb. rewrite Te in Tb.
    eapply Forall_impl; [|exact Tb]. intros l Hl. unfold elems. rewrite map_length. unfold elems in Hl. rewrite map_length in Hl. exact Hl.
Qed.

Lemma footer_parse_no_fault : forall bs ft, footer_parse_carquet bs <> Fault ft.
Proof.
  intros bs ft X. unfold footer_parse_carquet in X.
  destruct (parse_file_metadata bs) as [[r c]| |] eqn:E; try discriminate.
  - pose proof (parse_file_metadata_limits _ _ _ E) as HL. pose proof (getl_lim_schema r HL) as Hs.
    assert (Hlen : (length (map elem_of (getl r 1)) <= SchemaModel.MAX_ELEMS)%nat) by (rewrite map_length, max_elems_eq; exact Hs).
    pose proof (SchemaProofs.build_schema_total _ Hlen) as T.
    destruct (SchemaModel.build_schema (map elem_of (getl r 1))); try discriminate. exact T.
  - eapply parse_file_metadata_never_faults; eauto.
Qed.

Lemma footer_parse_err_nonzero : forall bs, footer_parse_carquet bs <> Err 0.
Proof.
  intros bs X. unfold footer_parse_carquet in X.
  destruct (parse_file_metadata bs) as [[r c]|c|] eqn:E; try discriminate.
  - pose proof (parse_file_metadata_limits _ _ _ E) as HL. pose proof (getl_lim_schema r HL) as Hs.
    assert (Hlen : (length (map elem_of (getl r 1)) <= SchemaModel.MAX_ELEMS)%nat) by (rewrite map_length, max_elems_eq; exact Hs).
    pose proof (SchemaProofs.build_schema_total _ Hlen) as T.
    destruct (SchemaModel.build_schema (map elem_of (getl r 1))) as [s|c0|]; try discriminate.
    inversion X; subst. destruct T as [[T _]|[T _]]; discriminate.
  - inversion X; subst. eapply parse_file_metadata_err_nonzero; eauto.
Qed.

(** C04 with carquet's footer parser and build_schema: no parser hypothesis left. *)
Theorem open_safe_carquet : forall mode f,
  (exists c, open file_meta footer_parse_carquet mode f = Err c /\ c <> 0) \/
  (exists m, open file_meta footer_parse_carquet mode f = Ok m /\ within_limits m).
Proof.
  exact (open_safe footer_parse_carquet footer_parse_within_limits footer_parse_no_fault footer_parse_err_nonzero).
Qed.

(** C18, first clause, with carquet's footer parser: the "parser faults" case is gone. *)
Theorem prefix_rejected_carquet : forall m (f p : list N),
  proper_prefix p f ->
  (exists c, open file_meta footer_parse_carquet m p = Err c /\ c <> 0) \/
  (12 <= length p /\ ends_with_magic p /\ (m <> Fread -> starts_with_magic p) /\
   (footer_len p <= N.of_nat (length p - 8))%N /\
   exists x, footer_parse_carquet (footer_region p) = Ok x /\ open file_meta footer_parse_carquet m p = Ok x /\ within_limits x)%nat.
Proof.
  intros m f p Hp.
  destruct (prefix_rejected_partial file_meta footer_parse_carquet m f p Hp) as [[c Hc]|[[ft [Hf _]]|H]].
  - left. exists c. split; [exact Hc|].
    destruct (open_safe_carquet m p) as [[c' [Hc' Hn]]|[x [Hx _]]]; rewrite Hc in *; [inversion Hc'; subst; exact Hn|discriminate].
  - exfalso. eapply footer_parse_no_fault; eauto.
  - right. destruct H as (H1 & H2 & H3 & H4 & x & Hx & Ho). repeat split; auto.
    exists x. repeat split; auto; eapply footer_parse_within_limits; eauto.
Qed.

(** not vacuous: a 3-column footer goes through the Thrift model, the schema engine and the limits *)
Example footer_parse_carquet_example :
  let footer := [0x15; 0x02; 0x19; 0x2c; 0x48; 0x01; 0x72; 0x15; 0x02; 0x00; 0x15; 0x02; 0x25; 0x00; 0x18; 0x01; 0x61; 0x00;
                 0x16; 0x00; 0x19; 0x0c; 0x00]%N in
  exists m, footer_parse_carquet footer = Ok m /\ length (fm_schema m) = 2%nat /\ fm_leaves m = [1%nat].
Proof. eexists. split; [vm_compute; reflexivity|split; reflexivity]. Qed.
