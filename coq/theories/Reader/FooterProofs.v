(** Proofs about the open decision (Reader/FooterModel.v).  Used by C18 (truncated files) and C04 (open
    never reads outside the file). *)
From Coq Require Import NArith ZArith List Bool Arith Lia.
From Carquet Require Import Base.Res Gen.Enums_gen Gen.Robust_gen Reader.FooterModel.
Import ListNotations.

(** The flag values of a safe reader.  These equalities hold by computation on the regenerated
    Gen/Robust_gen.v; when a check is dropped from the C code the corresponding line fails. *)
Lemma flags_size : forall m, checks_size m = true /\ min_size m = 12.
Proof. destruct m; split; reflexivity. Qed.
Lemma flags_trail : forall m, checks_trail m = true.
Proof. destruct m; reflexivity. Qed.
Lemma flags_len : forall m, checks_len m = true.
Proof. destruct m; reflexivity. Qed.
Lemma flags_lead_mapped : checks_lead Mmap = true /\ checks_lead Buffer = true.
Proof. split; reflexivity. Qed.

Lemma bytes_eqb_eq : forall a b, bytes_eqb a b = true <-> a = b.
Proof.
  induction a as [|x a IH]; destruct b as [|y b]; simpl; split; intros H; try discriminate; auto.
  - apply andb_true_iff in H. destruct H as [H1 H2]. apply N.eqb_eq in H1. apply IH in H2. congruence.
  - inversion H; subst. rewrite N.eqb_refl. simpl. apply IH. reflexivity.
Qed.

Lemma bytes_eqb_neq : forall a b, bytes_eqb a b = false <-> a <> b.
Proof.
  intros a b. split; intros H.
  - intros E. apply bytes_eqb_eq in E. congruence.
  - destruct (bytes_eqb a b) eqn:E; auto. apply bytes_eqb_eq in E. contradiction.
Qed.

(** A complete case analysis of [open_stage] for the current flags. *)
Lemma open_stage_cases : forall m f,
  let n := length f in
  (n < 12 /\ (open_stage m f = StSize \/ (m = Buffer /\ n = 0 /\ open_stage m f = StEmpty))) \/
  (12 <= n /\ checks_lead m = true /\ firstn 4 f <> magic /\ open_stage m f = StLeadMagic) \/
  (12 <= n /\ (checks_lead m = true -> firstn 4 f = magic) /\ skipn (n - 4) f <> magic /\ open_stage m f = StTrailMagic) \/
  (12 <= n /\ (checks_lead m = true -> firstn 4 f = magic) /\ skipn (n - 4) f = magic /\
     (N.of_nat (n - 8) < footer_len f)%N /\ open_stage m f = StFooterLen) \/
  (12 <= n /\ (checks_lead m = true -> firstn 4 f = magic) /\ skipn (n - 4) f = magic /\
     (footer_len f <= N.of_nat (n - 8))%N /\
     open_stage m f = StParse (n - 8 - N.to_nat (footer_len f)) (N.to_nat (footer_len f))).
Proof.
  intros m f. cbv zeta. unfold open_stage. cbv zeta. set (n := length f).
  assert (Hnd : n = length f) by reflexivity. clearbody n. rewrite <- ?Hnd.
  destruct (flags_size m) as [Hcs Hms]. rewrite Hcs, Hms, (flags_trail m), (flags_len m).
  destruct (rejects_empty m && (n =? 0)) eqn:He.
  { left. apply andb_true_iff in He. destruct He as [He1 He2]. apply Nat.eqb_eq in He2.
    split; [lia|]. right. destruct m; try discriminate. auto. }
  simpl andb.
  destruct (n <? 12) eqn:Hn.
  { left. apply Nat.ltb_lt in Hn. split; [lia|]. left. reflexivity. }
  apply Nat.ltb_ge in Hn. right.
  assert (H4 : (4 <=? n) = true) by (apply Nat.leb_le; lia).
  assert (H8 : (8 <=? n) = true) by (apply Nat.leb_le; lia).
  unfold head4, tail4, len_field. rewrite <- ?Hnd. rewrite H4, H8.
  unfold footer_len. rewrite <- ?Hnd. set (fl := le_val (firstn 4 (skipn (n - 8) f))).
  destruct (checks_lead m) eqn:Hl.
  - destruct (bytes_eqb (firstn 4 f) magic) eqn:Eh; simpl negb; cbv iota.
    + apply bytes_eqb_eq in Eh.
      destruct (bytes_eqb (skipn (n - 4) f) magic) eqn:Et; simpl negb; cbv iota.
      * apply bytes_eqb_eq in Et. right. right.
        destruct (N.of_nat (n - 8) <? fl)%N eqn:Ef.
        -- left. apply N.ltb_lt in Ef. repeat (split; [solve [auto]|]); auto.
        -- right. apply N.ltb_ge in Ef. repeat (split; [solve [auto]|]); auto.
      * apply bytes_eqb_neq in Et. right. left. auto.
    + apply bytes_eqb_neq in Eh. left. auto.
  - assert (Em : bytes_eqb magic magic = true) by reflexivity. rewrite Em. simpl negb. cbv iota.
    destruct (bytes_eqb (skipn (n - 4) f) magic) eqn:Et; simpl negb; cbv iota.
    + apply bytes_eqb_eq in Et. right. right.
      assert (Hx : false = true -> firstn 4 f = magic) by (intros; discriminate).
      destruct (N.of_nat (n - 8) <? fl)%N eqn:Ef.
      * left. apply N.ltb_lt in Ef. repeat (split; [solve [auto]|]); auto.
      * right. apply N.ltb_ge in Ef. repeat (split; [solve [auto]|]); auto.
    + apply bytes_eqb_neq in Et. right. left.
      assert (Hx : false = true -> firstn 4 f = magic) by (intros; discriminate). auto.
Qed.

(** The open decision never reads outside the file (any byte string, any mode). *)
Theorem open_stage_no_fault : forall m f, open_stage m f <> StFault.
Proof.
  intros m f.
  destruct (open_stage_cases m f) as [[_ [H|[_ [_ H]]]]|[[_ [_ [_ H]]]|[[_ [_ [_ H]]]|[[_ [_ [_ [_ H]]]]|[_ [_ [_ [_ H]]]]]]]];
    rewrite H; discriminate.
Qed.

(** When a region is handed to the parser it lies inside the file. *)
Theorem open_stage_region_in_file : forall m f off len,
  open_stage m f = StParse off len -> off + len <= length f - 8 /\ 12 <= length f.
Proof.
  intros m f off len H.
  destruct (open_stage_cases m f) as [[_ [H'|[_ [_ H']]]]|[[_ [_ [_ H']]]|[[_ [_ [_ H']]]|[[_ [_ [_ [_ H']]]]|[Hn [_ [_ [Hf H']]]]]]]];
    rewrite H' in H; try discriminate.
  inversion H; subst. split; [|exact Hn]. lia.
Qed.

Section WithParse.
  Variable meta : Type.
  Variable parse : list N -> res meta.
  Notation open := (open meta parse).

  Lemma status_nonzero : E_CARQUET_ERROR_INVALID_FOOTER <> 0%Z /\ E_CARQUET_ERROR_INVALID_MAGIC <> 0%Z
                         /\ E_CARQUET_ERROR_INVALID_ARGUMENT <> 0%Z.
  Proof. repeat split; discriminate. Qed.

  (** Files shorter than magic + length + magic are rejected by every path. *)
  Theorem short_rejected : forall m f, length f < 12 -> exists c, open m f = Err c /\ c <> 0%Z.
  Proof.
    intros m f Hn. unfold FooterModel.open.
    destruct (open_stage_cases m f) as [[_ [H|[_ [_ H]]]]|[[Hc _]|[[Hc _]|[[Hc _]|[Hc _]]]]]; try lia; rewrite H; simpl.
    - exists E_CARQUET_ERROR_INVALID_FOOTER. split; [reflexivity|discriminate].
    - exists E_CARQUET_ERROR_INVALID_ARGUMENT. split; [reflexivity|discriminate].
  Qed.

  (** A file that does not end with PAR1 is rejected with INVALID_MAGIC by every path. *)
  Theorem bad_magic_rejected : forall m f,
    12 <= length f -> ~ ends_with_magic f -> open m f = Err E_CARQUET_ERROR_INVALID_MAGIC.
  Proof.
    intros m f Hn Hm. unfold FooterModel.open, ends_with_magic in *.
    destruct (open_stage_cases m f) as [[Hc _]|[[_ [_ [_ H]]]|[[_ [_ [_ H]]]|[[_ [_ [Ht _]]]|[_ [_ [Ht _]]]]]]];
      try lia; try contradiction; rewrite H; reflexivity.
  Qed.

  (** The mapped paths (mmap, buffer) also insist on the leading PAR1 ... *)
  Theorem bad_lead_magic_rejected : forall m f,
    m <> Fread -> 12 <= length f -> ~ starts_with_magic f -> open m f = Err E_CARQUET_ERROR_INVALID_MAGIC.
  Proof.
    intros m f Hm Hn Hs. unfold FooterModel.open, starts_with_magic in *.
    assert (Hl : checks_lead m = true) by (destruct m; [contradiction| |]; apply flags_lead_mapped).
    destruct (open_stage_cases m f) as [[Hc _]|[[_ [_ [_ H]]]|[[_ [Hh [_ H]]]|[[_ [Hh _]]|[_ [Hh _]]]]]];
      try lia; try (specialize (Hh Hl); contradiction); rewrite H; reflexivity.
  Qed.

  (** A declared footer length that does not fit between the two magics is rejected. *)
  Theorem footer_len_rejected : forall m f,
    12 <= length f -> (m <> Fread -> starts_with_magic f) -> ends_with_magic f ->
    (N.of_nat (length f - 8) < footer_len f)%N ->
    open m f = Err E_CARQUET_ERROR_INVALID_FOOTER.
  Proof.
    intros m f Hn Hs He Hf. unfold FooterModel.open, starts_with_magic, ends_with_magic in *.
    destruct (open_stage_cases m f) as [[Hc _]|[[_ [Hl [Hh _]]]|[[_ [_ [Ht _]]]|[[_ [_ [_ [_ H]]]]|[_ [_ [_ [Hf' _]]]]]]]];
      try lia; try contradiction.
    - exfalso. apply Hh. apply Hs. intros ->. discriminate.
    - rewrite H. reflexivity.
  Qed.

  (** Inversion: what an accepted file looks like. *)
  Theorem open_ok_inv : forall m f x, open m f = Ok x ->
    12 <= length f /\ ends_with_magic f /\ (m <> Fread -> starts_with_magic f) /\
    (footer_len f <= N.of_nat (length f - 8))%N /\ parse (footer_region f) = Ok x.
  Proof.
    intros m f x H. unfold FooterModel.open in H.
    destruct (open_stage_cases m f) as [[_ [H'|[_ [_ H']]]]|[[_ [_ [_ H']]]|[[_ [_ [_ H']]]|[[_ [_ [_ [_ H']]]]|[Hn [Hh [Ht [Hf H']]]]]]]];
      rewrite H' in H; simpl in H; try discriminate.
    split; [exact Hn|]. split; [exact Ht|]. split.
    - intros Hm. apply Hh. destruct m; [contradiction| |]; apply flags_lead_mapped.
    - split; [exact Hf|exact H].
  Qed.

  (** open returns a status, never a fault, and a failure status is never CARQUET_OK *)
  Theorem open_err_or_parse : forall m f,
    (exists c, open m f = Err c /\ c <> 0%Z) \/
    (exists off len, off + len <= length f - 8 /\ open m f = parse (region f off len)).
  Proof.
    intros m f. unfold FooterModel.open.
    destruct (open_stage_cases m f) as [[_ [H'|[_ [_ H']]]]|[[_ [_ [_ H']]]|[[_ [_ [_ H']]]|[[_ [_ [_ [_ H']]]]|[Hn [Hh [Ht [Hf H']]]]]]]];
      rewrite H'; simpl; try (left; eexists; split; [reflexivity|discriminate]).
    right. do 2 eexists. split; [|reflexivity]. lia.
  Qed.

  (** C18, first clause, as far as it can be stated without a Thrift model: a proper prefix of ANY
      file is either rejected with an error status, or it looks like a complete Parquet file in its
      own right - it ends with PAR1, the four bytes before that are a length that fits, and the
      bytes that length designates parse as file metadata - which is the "unless" clause of the
      property made precise.  (That p is a prefix of a written file is not even needed for this
      direction.)  The middle disjunct - the parser itself faults on the region - is excluded only by
      a safety theorem about the Thrift parser (C13/C04), [parse] being arbitrary here. *)
  Theorem prefix_rejected_partial : forall m (f p : list N),
    proper_prefix p f ->
    (exists c, open m p = Err c) \/
    (exists ft, parse (footer_region p) = Fault ft /\ open m p = Fault ft) \/
    (12 <= length p /\ ends_with_magic p /\ (m <> Fread -> starts_with_magic p) /\
     (footer_len p <= N.of_nat (length p - 8))%N /\
     exists x, parse (footer_region p) = Ok x /\ open m p = Ok x).
  Proof.
    intros m f p _. unfold FooterModel.open.
    destruct (open_stage_cases m p) as [[_ [H'|[_ [_ H']]]]|[[_ [_ [_ H']]]|[[_ [_ [_ H']]]|[[_ [_ [_ [_ H']]]]|[Hn [Hh [Ht [Hf H']]]]]]]];
      rewrite H'; simpl; try (left; eexists; reflexivity).
    fold (footer_region p).
    destruct (parse (footer_region p)) as [x|c|ft] eqn:Ep.
    - right. right. split; [exact Hn|]. split; [exact Ht|]. split.
      + intros Hm. apply Hh. destruct m; [contradiction| |]; apply flags_lead_mapped.
      + split; [exact Hf|]. exists x. auto.
    - left. exists c. reflexivity.
    - right. left. exists ft. auto.
  Qed.

  (** Cuts inside the trailing magic: the file minus its last 1, 2 or 3 bytes is rejected by every
      path whatever the parser does (the last byte of such a prefix is 'R', 'A' or 'P', never '1'). *)
  Theorem cut_in_trailing_magic_rejected : forall m (body : list N) k,
    1 <= k <= 3 -> 12 <= length (body ++ firstn k magic) ->
    (m <> Fread -> starts_with_magic (body ++ firstn k magic)) ->
    open m (body ++ firstn k magic) = Err E_CARQUET_ERROR_INVALID_MAGIC.
  Proof.
    intros m body k Hk Hn Hs. apply bad_magic_rejected; [exact Hn|].
    unfold ends_with_magic. intros E.
    assert (Hl : last (skipn (length (body ++ firstn k magic) - 4) (body ++ firstn k magic)) 0%N = 49%N)
      by (rewrite E; reflexivity).
    assert (Hne : skipn (length (body ++ firstn k magic) - 4) (body ++ firstn k magic) <> []) by (rewrite E; discriminate).
    assert (Hlast : forall (l : list N) j, skipn j l <> [] -> last (skipn j l) 0%N = last l 0%N).
    { induction l as [|a l IH]; intros j Hj.
      - destruct j; simpl in Hj; contradiction.
      - destruct j; [reflexivity|]. simpl skipn in *. rewrite IH by exact Hj.
        destruct l; [destruct j; simpl in Hj; contradiction|reflexivity]. }
    rewrite Hlast in Hl by exact Hne.
    assert (Hk' : k = 1 \/ k = 2 \/ k = 3) by lia.
    destruct Hk' as [-> | [-> | ->]]; simpl firstn in Hl; rewrite last_last' in Hl || idtac.
    all: revert Hl; clear; intros Hl.
    all: repeat match type of Hl with context [last (?b ++ ?x :: ?y :: ?t)] =>
           replace (b ++ x :: y :: t) with ((b ++ [x]) ++ y :: t) in Hl by (rewrite <- app_assoc; reflexivity) end.
    all: rewrite last_last in Hl; discriminate.
  Qed.
End WithParse.

(** The "unless" clause is not vacuous: with a parser that accepts some region, a proper prefix of a
    longer file is accepted by the stdio path (a file whose data embeds a complete small file).  And
    the stdio path does not look at the leading magic at all. *)
Example prefix_accept_possible :
  exists (parse : list N -> res unit) f p,
    proper_prefix p f /\ open unit parse Fread p = Ok tt /\ open unit parse Fread f = Ok tt.
Proof.
  exists (fun _ => Ok tt).
  exists (magic ++ [0;0;0;0] ++ magic ++ [7;7;7;7] ++ [4;0;0;0] ++ magic)%N.
  exists (magic ++ [0;0;0;0] ++ magic)%N.
  split; [|split]; [|reflexivity|reflexivity].
  exists ([7;7;7;7] ++ [4;0;0;0] ++ magic)%N. split; [discriminate|reflexivity].
Qed.

Example fread_ignores_leading_magic :
  exists (parse : list N -> res unit) f,
    ~ starts_with_magic f /\ open unit parse Fread f = Ok tt /\ open unit parse Mmap f = Err E_CARQUET_ERROR_INVALID_MAGIC.
Proof.
  exists (fun _ => Ok tt). exists ([1;2;3;4] ++ [0;0;0;0] ++ magic)%N.
  split; [discriminate|split; reflexivity].
Qed.

(** Hypotheses of the theorems above are satisfiable by non-trivial values. *)
Example short_rejected_ex : exists c, open unit (fun _ => Ok tt) Mmap [80;65;82;49;80;65;82;49]%N = Err c /\ c <> 0%Z.
Proof. eexists. split; [reflexivity|discriminate]. Qed.
Example footer_len_rejected_ex :
  open unit (fun _ => Ok tt) Buffer (magic ++ [9;0;0;0] ++ magic)%N = Err E_CARQUET_ERROR_INVALID_FOOTER.
Proof. reflexivity. Qed.
