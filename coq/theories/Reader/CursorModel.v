(** C02 - model of the column reader (mirror of src/reader/page_reader.c:carquet_read_next_page,
    src/reader/column_reader.c:carquet_column_read_batch / carquet_column_skip and
    src/reader/file_reader.c:carquet_reader_get_column / has_next / remaining).

    Pages enter the model already decoded: a page is the list of its definition levels and the list of
    its packed non-null values (what carquet_read_data_page_v1 leaves in decoded_def_levels /
    decoded_values).  Byte offsets of pages inside the chunk are abstracted to page indices
    ([cs_cur] plays the role of data_start_offset + current_page).  Everything is counted in values,
    not bytes: value_size is a common factor of every pointer computation of the code.

    [fixed5 = true] is the code after commit "fix: column reader: copy packed values by non-null count";
    [fixed5 = false] is the pinned tree (copy-out offset and the caller's value pointer count rows).
    No proofs in this file. *)
From Coq Require Import List ZArith Bool Arith.
From Carquet Require Import Base.Res Gen.Reader_gen Reader.CursorSpec.
Import ListNotations.
Local Open Scope Z_scope.

(** (int32_t) cast of an int64 value *)
Definition i32 (z : Z) : Z := (z + 2 ^ 31) mod 2 ^ 32 - 2 ^ 31.

(** the level the harness pre-fills the caller's definition-level buffer with *)
Definition garbage_level : N := 23130%N.   (* 0x5A5A *)

Section Model.
Context {A : Type}.
Variable garbage : A.        (* content of an uninitialised / never written value slot *)
Variable fixed5 : bool.

Record page : Type := { pg_levels : list N; pg_vals : list A }.

(** number of levels equal to max_def = number of packed values they announce *)
Fixpoint count_present (max_def : N) (ls : list N) : nat :=
  match ls with
  | [] => O
  | l :: t => (if N.eqb l max_def then 1 else 0) + count_present max_def t
  end%nat.

(** decoded_def_levels after a page load: decoded from the page when the column has levels, otherwise
    filled with max_def_level (carquet_read_data_page_v1, "Set all to max level"; zero-copy path: memset 0) *)
Definition dec_levels (max_def : N) (p : page) : list N :=
  if N.eqb max_def 0 then repeat 0%N (length (pg_levels p)) else pg_levels p.

(** decoded_values: capacity page_num_values slots, the first non_null_count hold values *)
Definition dec_vals (p : page) : list A :=
  pg_vals p ++ repeat garbage (length (pg_levels p) - length (pg_vals p)).

Record cstate : Type := {
  cs_pages : list page;       (* the data pages of the chunk, file order (the file itself) *)
  cs_max_def : N;
  cs_zc : bool;               (* pages of this chunk load as zero-copy views in this I/O mode *)
  cs_remaining : Z;           (* values_remaining *)
  cs_cur : nat;               (* current_page, as a page index *)
  cs_loaded : bool;           (* page_loaded *)
  cs_pnum : nat;              (* page_num_values *)
  cs_pread : nat;             (* page_values_read *)
  cs_pdense : nat;            (* page_dense_read *)
  cs_dvals : list A;          (* decoded_values *)
  cs_dlevels : list N;        (* decoded_def_levels *)
  cs_view : bool              (* decoded_ownership == CARQUET_DATA_VIEW *)
}.

Definition total_rows (pages : list page) : nat :=
  fold_right (fun p acc => (length (pg_levels p) + acc)%nat) O pages.

(** carquet_reader_get_column: values_remaining = col_meta->num_values (a valid file stores the sum of
    the page counts there) *)
Definition open (max_def : N) (zc : bool) (pages : list page) : cstate :=
  {| cs_pages := pages; cs_max_def := max_def; cs_zc := zc;
     cs_remaining := Z.of_nat (total_rows pages); cs_cur := O; cs_loaded := false;
     cs_pnum := O; cs_pread := O; cs_pdense := O; cs_dvals := []; cs_dlevels := []; cs_view := false |}.

(** load_next_page (all three I/O paths end in the same state; the zero-copy path only differs in
    ownership).  Past the last page of the chunk the real code would try to parse whatever bytes follow;
    the model reports a status. *)
Definition load_next_page (st : cstate) : cstate * bool :=
  match nth_error (cs_pages st) (cs_cur st) with
  | None => (st, false)
  | Some p =>
      ({| cs_pages := cs_pages st; cs_max_def := cs_max_def st; cs_zc := cs_zc st;
          cs_remaining := cs_remaining st; cs_cur := cs_cur st; cs_loaded := true;
          cs_pnum := length (pg_levels p); cs_pread := O; cs_pdense := cs_pdense st;
          cs_dvals := dec_vals p; cs_dlevels := dec_levels (cs_max_def st) p;
          cs_view := cs_zc st && N.eqb (cs_max_def st) 0 |}, true)
  end.

Definition set_after_advance (st : cstate) : cstate :=
  {| cs_pages := cs_pages st; cs_max_def := cs_max_def st; cs_zc := cs_zc st;
     cs_remaining := cs_remaining st; cs_cur := S (cs_cur st); cs_loaded := false;
     cs_pnum := cs_pnum st; cs_pread := cs_pread st; cs_pdense := cs_pdense st;
     cs_dvals := cs_dvals st; cs_dlevels := cs_dlevels st; cs_view := cs_view st |}.

Definition set_pdense (st : cstate) (d : nat) : cstate :=
  {| cs_pages := cs_pages st; cs_max_def := cs_max_def st; cs_zc := cs_zc st;
     cs_remaining := cs_remaining st; cs_cur := cs_cur st; cs_loaded := cs_loaded st;
     cs_pnum := cs_pnum st; cs_pread := cs_pread st; cs_pdense := d;
     cs_dvals := cs_dvals st; cs_dlevels := cs_dlevels st; cs_view := cs_view st |}.

(** state after the copy-out *)
Definition set_consumed (st : cstate) (rows dense : nat) : cstate :=
  {| cs_pages := cs_pages st; cs_max_def := cs_max_def st; cs_zc := cs_zc st;
     cs_remaining := cs_remaining st - Z.of_nat rows; cs_cur := cs_cur st; cs_loaded := cs_loaded st;
     cs_pnum := cs_pnum st; cs_pread := (cs_pread st + rows)%nat; cs_pdense := (cs_pdense st + dense)%nat;
     cs_dvals := cs_dvals st; cs_dlevels := cs_dlevels st; cs_view := cs_view st |}.

(** memcpy out of a buffer: reading outside it is a fault *)
Definition copy_out {B} (buf : list B) (off cnt : nat) : res (list B) :=
  if (off + cnt <=? length buf)%nat then Ok (firstn cnt (skipn off buf)) else Fault OobRead.

(** what one call of carquet_read_next_page hands back *)
Record page_read : Type := {
  pr_vals : list A;        (* memcpy'd into the caller's value pointer *)
  pr_levels : list N;      (* memcpy'd into the caller's level pointer (when given) *)
  pr_rows : nat;           (* *values_read *)
  pr_dense : nat           (* *non_null_read *)
}.

Inductive pstatus : Type := PErr | PFault (f : fault) | POk (r : page_read).

(** carquet_read_next_page, first half: "Load a new page if needed" - a while loop since commit
    "fix: column reader: a data page without values is passed over": pages with num_values = 0 are skipped.
    Every iteration after the first moves to the next page, and loading fails past the last one, so
    length pages + 2 iterations are enough. *)
Inductive lstatus : Type := LOk | LErr | LFuel.

Fixpoint ensure_page_loop (fuel : nat) (st : cstate) : cstate * lstatus :=
  if negb (cs_loaded st) || (cs_pnum st <=? cs_pread st)%nat then
    match fuel with
    | O => (st, LFuel)
    | S f =>
        let st0 := if cs_loaded st then set_after_advance st else st in
        let '(st', ok) := load_next_page st0 in
        if ok then ensure_page_loop f (set_pdense st' O) else (st', LErr)
    end
  else (st, LOk).

Definition ensure_page (st : cstate) : cstate * lstatus :=
  ensure_page_loop (S (S (length (cs_pages st)))) st.

(** carquet_read_next_page, second half: available / to_copy, the copy-out, the state update.
    Repaired code: to_copy = min(max_values, available) computed in 64 bits, nothing to do when it is <= 0
    (peek).  Pinned code ([fixed5 = false]): max_values is cast to int32 first and a negative count reaches memcpy. *)
Definition copy_from_page (st1 : cstate) (max_values : Z) : cstate * pstatus :=
  let available := Z.of_nat (cs_pnum st1 - cs_pread st1) in
  let to_copy :=
    if fixed5 then (if max_values <? available then max_values else available)
    else (if i32 max_values >? available then available else i32 max_values) in
  if fixed5 && (to_copy <=? 0) then
    (st1, POk {| pr_vals := []; pr_levels := []; pr_rows := O; pr_dense := O |})
  else
  if to_copy <? 0 then (st1, PFault OobWrite) else      (* memcpy with a negative length *)
  let n := Z.to_nat to_copy in
  match copy_out (cs_dlevels st1) (cs_pread st1) n with
  | Fault f => (st1, PFault f) | Err _ => (st1, PErr)
  | Ok levels =>
    let has_levels := negb (N.eqb (cs_max_def st1) 0) in
    let dense_offset := if fixed5 && has_levels then cs_pdense st1 else cs_pread st1 in
    let dense_count := if fixed5 && has_levels then count_present (cs_max_def st1) levels else n in
    match copy_out (cs_dvals st1) dense_offset dense_count with
    | Fault f => (st1, PFault f) | Err _ => (st1, PErr)
    | Ok vals =>
        (set_consumed st1 n dense_count,
         POk {| pr_vals := vals; pr_levels := levels; pr_rows := n; pr_dense := dense_count |})
    end
  end.

(** carquet_read_next_page(reader, values, max_values, def_levels, NULL, &values_read, &non_null_read) *)
Definition read_next_page (st : cstate) (max_values : Z) : cstate * pstatus :=
  match ensure_page st with
  | (st1, LErr) => (st1, PErr)
  | (st1, LFuel) => (st1, PFault OutOfFuel)
  | (st1, LOk) => copy_from_page st1 max_values
  end.

(** memcpy into the caller's buffer at an element offset: writing outside it is a fault *)
Definition write_at {B} (buf : list B) (off : nat) (src : list B) : res (list B) :=
  if (off + length src <=? length buf)%nat
  then Ok (firstn off buf ++ src ++ skipn (off + length src) buf)
  else Fault OobWrite.

(** result of carquet_column_read_batch: return value, the caller's value buffer, the caller's level buffer *)
Record batch_read : Type := { br_ret : Z; br_vals : list A; br_levels : list N;
  br_dense : Z   (* total_non_null: how many value slots were filled (not visible to the C caller) *) }.

(** the while loop of carquet_column_read_batch.  Every iteration that does not leave the loop delivers
    at least one row, so [max_values] iterations are enough: the fuel is Z.to_nat max_values + 1. *)
Fixpoint rb_loop (fuel : nat) (st : cstate) (max_values : Z) (want_def : bool)
         (total_read total_nn : Z) (vbuf : list A) (lbuf : list N) : res (cstate * batch_read) :=
  match fuel with
  | O => Fault OutOfFuel
  | S f =>
    if (total_read <? max_values) && (cs_remaining st >? 0) then
      let to_read := max_values - total_read in
      let value_off := Z.to_nat (if fixed5 then total_nn else total_read) in
      match read_next_page st to_read with
      | (st1, PFault ft) => Fault ft
      | (st1, PErr) =>
          if total_read >? 0
          then Ok (st1, {| br_ret := total_read; br_vals := vbuf; br_levels := lbuf; br_dense := total_nn |})
          else Ok (st1, {| br_ret := -1; br_vals := vbuf; br_levels := lbuf; br_dense := total_nn |})
      | (st1, POk r) =>
          match write_at vbuf value_off (pr_vals r) with
          | Fault ft => Fault ft | Err c => Err c
          | Ok vbuf1 =>
            match (if want_def then write_at lbuf (Z.to_nat total_read) (pr_levels r) else Ok lbuf) with
            | Fault ft => Fault ft | Err c => Err c
            | Ok lbuf1 =>
              if (pr_rows r =? 0)%nat
              then Ok (st1, {| br_ret := total_read; br_vals := vbuf1; br_levels := lbuf1; br_dense := total_nn |})
              else rb_loop f st1 max_values want_def
                           (total_read + Z.of_nat (pr_rows r)) (total_nn + Z.of_nat (pr_dense r)) vbuf1 lbuf1
            end
          end
      end
    else Ok (st, {| br_ret := total_read; br_vals := vbuf; br_levels := lbuf; br_dense := total_nn |})
  end.

(** carquet_column_read_batch(reader, values, max_values, def_levels or NULL, NULL); the caller's buffers
    have exactly max_values slots *)
Definition read_batch (st : cstate) (max_values : Z) (want_def : bool) : res (cstate * batch_read) :=
  if max_values <? 0 then Ok (st, {| br_ret := -1; br_vals := []; br_levels := []; br_dense := 0 |})
  else if max_values =? 0 then
    (* peek: load the first page, consume nothing; the status is ignored *)
    if (cs_remaining st >? 0) && negb (cs_loaded st) then
      match read_next_page st 0 with
      | (st1, PFault ft) => Fault ft
      | (st1, _) => Ok (st1, {| br_ret := 0; br_vals := []; br_levels := []; br_dense := 0 |})
      end
    else Ok (st, {| br_ret := 0; br_vals := []; br_levels := []; br_dense := 0 |})
  else
    let vbuf := repeat garbage (Z.to_nat max_values) in
    let lbuf := if want_def then repeat garbage_level (Z.to_nat max_values) else [] in
    if cs_remaining st <=? 0 then Ok (st, {| br_ret := 0; br_vals := vbuf; br_levels := lbuf; br_dense := 0 |})
    else rb_loop (S (Z.to_nat max_values)) st max_values want_def 0 0 vbuf lbuf.

(** the while loop of carquet_column_skip: read-and-discard in chunks of Reader_skip_chunk (regenerated from column_reader.c: 1024) with def_levels = NULL *)
Fixpoint skip_loop (fuel : nat) (st : cstate) (num_values total : Z) : res (cstate * Z) :=
  match fuel with
  | O => Fault OutOfFuel
  | S f =>
    if (total <? num_values) && (cs_remaining st >? 0) then
      let to_skip := if num_values - total >? Reader_skip_chunk then Reader_skip_chunk else num_values - total in
      match read_batch st to_skip false with
      | Fault ft => Fault ft | Err c => Err c
      | Ok (st1, r) =>
          if br_ret r <=? 0 then Ok (st1, total) else skip_loop f st1 num_values (total + br_ret r)
      end
    else Ok (st, total)
  end.

Definition skip (st : cstate) (num_values : Z) : res (cstate * Z) :=
  if (num_values <=? 0) || (cs_remaining st <=? 0) then Ok (st, 0)
  else skip_loop (S (Z.to_nat num_values)) st num_values 0.

Definition has_next (st : cstate) : bool := cs_remaining st >? 0.
Definition remaining (st : cstate) : Z := cs_remaining st.

(** what the driver prints for a read with levels: walk the returned levels, a level equal to max_def
    takes the next packed value *)
Fixpoint rebuild (max_def : N) (levels : list N) (vals : list A) : list (option A) :=
  match levels with
  | [] => []
  | l :: t =>
      if N.eqb l max_def then
        match vals with
        | v :: vs => Some v :: rebuild max_def t vs
        | [] => Some garbage :: rebuild max_def t []
        end
      else None :: rebuild max_def t vals
  end.

(** one history step: (new state, what the caller observes) *)
Definition step (st : cstate) (o : op) : res (cstate * out A) :=
  match o with
  | Read k =>
      match read_batch st k true with
      | Fault ft => Fault ft | Err c => Err c
      | Ok (st1, r) =>
          let n := Z.to_nat (br_ret r) in
          Ok (st1, ORead (br_ret r) (rebuild (cs_max_def st) (firstn n (br_levels r)) (br_vals r)))
      end
  | ReadNoDef k =>
      match read_batch st k false with
      | Fault ft => Fault ft | Err c => Err c
      | Ok (st1, r) =>
          (* the caller sees the count; the packed values written are the first total_non_null slots *)
          Ok (st1, OReadNoDef (br_ret r) (firstn (Z.to_nat (br_dense r)) (br_vals r)))
      end
  | Skip k =>
      match skip st k with
      | Fault ft => Fault ft | Err c => Err c
      | Ok (st1, n) => Ok (st1, OSkip n)
      end
  | HasNext => Ok (st, OHas (has_next st))
  | Remaining => Ok (st, ORem (remaining st))
  | Reopen => Ok (open (cs_max_def st) (cs_zc st) (cs_pages st), OReopened)
  end.

Fixpoint run (ops : list op) (st : cstate) : res (list (out A)) :=
  match ops with
  | [] => Ok []
  | o :: t =>
      match step st o with
      | Fault ft => Fault ft | Err c => Err c
      | Ok (st1, x) =>
          match run t st1 with
          | Fault ft => Fault ft | Err c => Err c
          | Ok xs => Ok (x :: xs)
          end
      end
  end.

(** the bridge to the specification: logical rows of a page / of a chunk *)
Definition rows_of_page (max_def : N) (p : page) : list (option A) :=
  rebuild max_def (dec_levels max_def p) (pg_vals p).

Definition rows_of (max_def : N) (pages : list page) : list (option A) :=
  concat (map (rows_of_page max_def) pages).

End Model.
