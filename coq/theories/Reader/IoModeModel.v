(** C03 - the three ways of opening a file and the branches each one selects in the reader.

    Fread  : carquet_reader_open, use_mmap = false        -> reader->file != NULL, mmap_data == NULL, mmap_info == NULL
    Mmap   : carquet_reader_open, use_mmap = true         -> mmap_data != NULL, mmap_info != NULL
    Buffer : carquet_reader_open_buffer                   -> mmap_data != NULL, mmap_info == NULL

    Branches selected (everything else in the reader is mode independent):
    * footer: read_footer (Fread) / read_footer_mmap (Mmap) / inline in carquet_reader_open_buffer (Buffer): all three
      locate the same footer bytes (trailing magic, 4-byte length before it) and hand them to the same
      parquet_parse_file_metadata + build_schema; [footer_location] below is that computation.
    * page loading: load_next_page dispatches on mmap_data != NULL: Fread uses load_next_page_fread (always an owned,
      decoded copy), Mmap and Buffer use load_next_page_mmap, which takes the zero-copy view for pages of
      REQUIRED, uncompressed, PLAIN, fixed-width columns ([loads_view]).
    * batch reader: the explicit peek "try_zero_copy" is guarded by mmap_info != NULL ([batch_peeks]): Mmap only; the
      OpenMP prefetch phase peeks in every mode.
    No proofs in this file. *)
From Coq Require Import List ZArith Bool NArith.
Import ListNotations.

Inductive io_mode : Type := Fread | Mmap | Buffer.

(** mmap_data != NULL *)
Definition has_mapping (m : io_mode) : bool := match m with Fread => false | _ => true end.
(** mmap_info != NULL *)
Definition has_mmap_info (m : io_mode) : bool := match m with Mmap => true | _ => false end.

(** a column chunk's pages load as zero-copy views: carquet_page_is_zero_copy_eligible(codec, encoding, type) on a
    path that has a mapping; the "no levels" condition is applied where the page is loaded (CursorModel.load_next_page) *)
Definition loads_view (m : io_mode) (eligible : bool) : bool := has_mapping m && eligible.

(** the batch reader's "try_zero_copy" peek *)
Definition batch_peeks (m : io_mode) : bool := has_mmap_info m.

(** Footer location.  [size] = file size, [tail] = the last 8 bytes (4-byte little-endian footer length + magic).
    Fread: fseek(-8, SEEK_END) + fread 8, memcmp(footer_tail + 4, "PAR1"), footer_size > file_size - 8 -> error,
           footer at file_size - 8 - footer_size.   Mmap / Buffer: same arithmetic on pointers.
    The leading magic is checked by Mmap and Buffer only (read_footer never looks at it): [checks_head]. *)
Definition checks_head (m : io_mode) : bool := has_mapping m.

Definition le32 (b : list N) : option N :=
  match b with
  | [b0; b1; b2; b3] => Some (b0 + 256 * (b1 + 256 * (b2 + 256 * b3)))%N
  | _ => None
  end.

Definition magic : list N := [80; 65; 82; 49]%N.   (* "PAR1" *)

Definition list_eqb (a b : list N) : bool :=
  (length a =? length b)%nat && forallb (fun p => N.eqb (fst p) (snd p)) (combine a b).

(** [Some (offset, length)] of the footer bytes, [None] = open fails *)
Definition footer_location (m : io_mode) (file : list N) : option (N * N) :=
  let size := N.of_nat (length file) in
  if (size <? 12)%N then None else
  if checks_head m && negb (list_eqb (firstn 4 file) magic) then None else
  let tail := skipn (length file - 8) file in
  if negb (list_eqb (skipn 4 tail) magic) then None else
  match le32 (firstn 4 tail) with
  | None => None
  | Some fsz => if (size - 8 <? fsz)%N then None else Some (size - 8 - fsz, fsz)%N
  end.
