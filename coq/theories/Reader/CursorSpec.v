(** C02/C03 - specification of reading a column chunk and of the batch reader.

    Independent of the implementation model (imports no *Model file).

    A column chunk IS a list of rows, a row is [None] (null) or [Some v].  A column reader is a
    position in that list.  The output convention is the documented one (carquet.h,
    carquet_writer_write_batch / examples/nullable_columns.c): a read delivers [count] rows as
    [count] definition levels plus the non-null values packed contiguously; here a delivered block is
    written as the list of its rows, which is the same information.

    The batch reader delivers, row group after row group, blocks of at most [batch_size] rows of the
    projected columns; every block has the same number of rows in all columns; its null bitmap has bit
    i set exactly when row i is null (the polarity of src/reader/batch_reader.c and of every
    build_null_bitmap kernel). *)
From Coq Require Import List ZArith Bool Arith.
Import ListNotations.

(** history alphabet of the column reader *)
Inductive op : Type :=
| Read (k : Z)         (* carquet_column_read_batch(values, k, def_levels, NULL) *)
| ReadNoDef (k : Z)    (* carquet_column_read_batch(values, k, NULL, NULL) *)
| Skip (k : Z)         (* carquet_column_skip(k) *)
| HasNext
| Remaining
| Reopen.              (* carquet_column_reader_free + carquet_reader_get_column on the same chunk *)

Section Spec.
Context {A : Type}.

Inductive out : Type :=
| ORead (ret : Z) (rows : list (option A))
| OReadNoDef (ret : Z) (packed : list A)
| OSkip (ret : Z)
| OHas (b : bool)
| ORem (n : Z)
| OReopened.

(** the non-null values of a block of rows, in order *)
Fixpoint somes (rows : list (option A)) : list A :=
  match rows with
  | [] => []
  | Some v :: t => v :: somes t
  | None :: t => somes t
  end.

(** number of rows an operation of size k consumes at a position with [rem] rows left *)
Definition take (k : Z) (rem : nat) : nat := Nat.min (Z.to_nat k) rem.

Fixpoint spec_run (rows : list (option A)) (pos : nat) (ops : list op) : list out :=
  match ops with
  | [] => []
  | o :: ops' =>
    let rem := length rows - pos in
    match o with
    | Read k =>
        let c := take k rem in
        ORead (Z.of_nat c) (firstn c (skipn pos rows)) :: spec_run rows (pos + c) ops'
    | ReadNoDef k =>
        let c := take k rem in
        OReadNoDef (Z.of_nat c) (somes (firstn c (skipn pos rows))) :: spec_run rows (pos + c) ops'
    | Skip k =>
        let c := take k rem in
        OSkip (Z.of_nat c) :: spec_run rows (pos + c) ops'
    | HasNext => OHas (0 <? rem) :: spec_run rows pos ops'
    | Remaining => ORem (Z.of_nat rem) :: spec_run rows pos ops'
    | Reopen => OReopened :: spec_run rows 0 ops'
    end
  end.

(** position (number of rows consumed since the last re-creation) after a history *)
Fixpoint spec_pos (rows : list (option A)) (pos : nat) (ops : list op) : nat :=
  match ops with
  | [] => pos
  | o :: ops' =>
    let rem := length rows - pos in
    match o with
    | Read k | ReadNoDef k | Skip k => spec_pos rows (pos + take k rem) ops'
    | HasNext | Remaining => spec_pos rows pos ops'
    | Reopen => spec_pos rows 0 ops'
    end
  end.

(** what a history over a chunk with logical content [rows] must deliver *)
Definition spec_outputs (ops : list op) (rows : list (option A)) : list out := spec_run rows 0 ops.

(** the logical content delivered by a history: all rows handed out by reads since the last Reopen *)
Fixpoint delivered (outs : list out) (acc : list (option A)) : list (option A) :=
  match outs with
  | [] => acc
  | ORead _ rows :: t => delivered t (acc ++ rows)
  | OReopened :: t => delivered t []
  | _ :: t => delivered t acc
  end.

(* ------------------------------------------------------------------ batch reader *)

(** a row group as seen through the column readers: one list of rows per file column *)
Definition rowgroup := list (list (option A)).
Definition table := list rowgroup.

Record batch_col : Type := {
  bc_num_values : Z;
  bc_bitmap : list bool;          (* bit i of the null bitmap, i < num_values *)
  bc_packed : list A              (* the non-null values, packed *)
}.
Record batch : Type := { b_num_rows : Z; b_cols : list batch_col }.

Definition is_null (r : option A) : bool := match r with None => true | Some _ => false end.

Definition col_block (rows : list (option A)) : batch_col :=
  {| bc_num_values := Z.of_nat (length rows); bc_bitmap := map is_null rows; bc_packed := somes rows |}.

(** rows [pos, pos+c) of every projected column *)
Definition block (cols : list (list (option A))) (pos c : nat) : batch :=
  {| b_num_rows := Z.of_nat c; b_cols := map (fun rows => col_block (firstn c (skipn pos rows))) cols |}.

(** projection: the file columns selected, in the order given (indices may repeat) *)
Definition project {B} (proj : list nat) (cols : list B) (d : B) : list B := map (fun i => nth i cols d) proj.

(** blocks of one row group with [n] rows: positions 0, bs, 2bs, ... ; an empty row group gives one
    empty batch (src/reader/batch_reader.c "Handle empty row group") *)
Fixpoint blocks_from (fuel : nat) (cols : list (list (option A))) (n bs pos : nat) : list batch :=
  match fuel with
  | O => []
  | S f =>
      if n <=? pos then []
      else let c := Nat.min bs (n - pos) in block cols pos c :: blocks_from f cols n bs (pos + c)
  end.

Definition rowgroup_blocks (bs : nat) (cols : list (list (option A))) : list batch :=
  match cols with
  | [] => []
  | c0 :: _ =>
      let n := length c0 in
      if n =? 0 then [block cols 0 0] else blocks_from n cols n bs 0
  end.

Definition spec_batches (bs : nat) (proj : list nat) (t : table) : list batch :=
  concat (map (fun rg => rowgroup_blocks bs (project proj rg [])) t).

(** rebuilding rows from what a batch column exposes (bitmap + packed values) *)
Fixpoint rows_of_block (bits : list bool) (packed : list A) : list (option A) :=
  match bits with
  | [] => []
  | true :: t => None :: rows_of_block t packed
  | false :: t => match packed with
                  | v :: p => Some v :: rows_of_block t p
                  | [] => []                         (* fewer values than non-null bits: not a block *)
                  end
  end.

(** logical content of projected column j as delivered by a sequence of batches *)
Definition batches_column (bs : list batch) (j : nat) : list (option A) :=
  concat (map (fun b => match nth_error (b_cols b) j with
                        | Some c => rows_of_block (bc_bitmap c) (bc_packed c)
                        | None => []
                        end) bs).

(** the column-reader content of file column i over the whole file *)
Definition table_column (t : table) (i : nat) : list (option A) :=
  concat (map (fun rg => nth i rg []) t).

Definition batch_aligned_prop (b : batch) : Prop :=
  Forall (fun c => bc_num_values c = b_num_rows b /\ Z.of_nat (length (bc_bitmap c)) = b_num_rows b) (b_cols b).

End Spec.

Arguments out : clear implicits.
Arguments batch_col : clear implicits.
Arguments batch : clear implicits.
Arguments rowgroup : clear implicits.
Arguments table : clear implicits.
