(** Model of src/writer/column_writer.c (after the repair e43f617):

      carquet_column_writer_create        [cw_init]
      flush_current_page                  [flush_page]     nothing when the page holds no value; otherwise the
                                                           finalized page is appended to the column buffer and the
                                                           chunk totals (both including the page header) grow
      carquet_column_writer_write_batch   [cw_write_batch] add_values, then flush when the estimated size has
                                                           reached the target page size
      carquet_column_writer_finalize      [cw_finalize]    flush what is left; chunk bytes and totals

    The compressor and the page-header encoder are the section variables of PageWriterModel.Finalize. *)
From Coq Require Import NArith ZArith List Bool.
From Carquet Require Import Base.Res Gen.Writer_gen Enc.DeltaBits Writer.TableSpec Writer.PageWriterModel.
Import ListNotations.
Local Open Scope N_scope.

Record cw : Type := mkcw {
  w_page : pw;                       (* page_writer *)
  w_buf : list N;                    (* column_buffer: all finished pages *)
  w_target : N;                      (* target_page_size *)
  w_total_values : N;
  w_total_uncompressed : N;
  w_total_compressed : N;
  w_num_pages : N
}.

(** target_page_size > 0 ? target_page_size : 1 MiB *)
Definition target_of (page_size : N) : N := if 0 <? page_size then page_size else Writer_DEFAULT_PAGE_SIZE.

Definition cw_init (c : column) (page_size : N) : cw :=
  mkcw (pw_init c) [] (target_of page_size) 0 0 0 0.

Section ColumnWriter.
  Variable compress : list N -> list N.
  Variable header : page_hdr -> list N.

  Definition flush_page (w : cw) : cw :=
    if p_num_values (w_page w) =? 0 then w
    else
      let '(page, usize, csize) := finalize compress header (w_page w) in
      let header_size := len page - csize in
      mkcw (pw_init (p_col (w_page w)))                      (* carquet_page_writer_reset *)
           (w_buf w ++ page)
           (w_target w)
           (w_total_values w)
           (w_total_uncompressed w + header_size + usize)
           (w_total_compressed w + len page)
           (w_num_pages w + 1).

  Definition cw_write_batch (w : cw) (b : batch) : res cw :=
    match add_values (w_page w) b with
    | Ok p' =>
      let w1 := mkcw p' (w_buf w) (w_target w) (w_total_values w + N.of_nat (b_nrows b))
                     (w_total_uncompressed w) (w_total_compressed w) (w_num_pages w) in
      Ok (if w_target w <=? estimated_size p' then flush_page w1 else w1)
    | Err e => Err e
    | Fault f => Fault f
    end.

  (** carquet_column_writer_finalize: (chunk bytes, total_values, total_compressed, total_uncompressed) *)
  Definition cw_finalize (w : cw) : cw := flush_page w.
End ColumnWriter.
