(** C05: the bytes the writer model hands to the stream are structurally valid, for every history of calls.

    [structurally_valid file m] - stated over the model's output, no reader involved:
      - file = "PAR1" ++ data ++ footer m ++ le32 |footer m| ++ "PAR1"                      (magic, footer length)
      - [groups_layout]: the data region is exactly the row groups in order, each exactly its column chunks in
        column order, every chunk starting at its recorded file_offset = where the previous one ended (tiling
        from offset 4 to the footer without gap or overlap); row-group total_compressed_size / total_byte_size
        are the sums of the chunks' totals, file_offset is where the group starts, ordinals count from 0 and are
        left out from 32768 on (the field is an i16: ordinal_of)
      - [chunk_valid]: a chunk is exactly the concatenation of its pages header ++ stored body (page headers
        chain), each header carrying the stored body's length, its CRC-32, the length of the uncompressed body it
        was compressed from and a positive value count; the chunk's num_values, total_compressed_size and
        total_uncompressed_size are the sums over the pages, both sizes including the page headers
      - num_rows of the file is the sum over the row groups.
    (That a row group's num_rows equals every chunk's num_values holds for histories that denote a table:
    C01's write_read_roundtrip.)  The header and footer encoders and the compressor are uninterpreted. *)
From Coq Require Import NArith ZArith Arith List Bool Lia.
From Carquet Require Import Base.Res Enc.DeltaBits Util.Crc32Model
  Writer.TableSpec Writer.PageWriterModel Writer.ColumnWriterModel Writer.FileWriterModel.
Import ListNotations.
Local Open Scope N_scope.

Definition sumN (l : list N) : N := fold_right N.add 0 l.

Lemma sumN_app a b : sumN (a ++ b) = sumN a + sumN b.
Proof. induction a as [|x a IH]; [reflexivity|]. cbn [app sumN fold_right] in *. fold (sumN (a ++ b)) (sumN a). lia. Qed.

Lemma len_app {A} (a b : list A) : len (a ++ b) = len a + len b.
Proof. unfold len. rewrite app_length. lia. Qed.

(** a page as it lies in the file *)
Record page_rec : Type := mkpr { pr_hdr : page_hdr; pr_body : list N }.

Section Struct.
  Variable compress : list N -> list N.
  Variable header : page_hdr -> list N.
  Variable footer : file_meta -> list N.

  Definition page_rec_bytes (p : page_rec) : list N := header (pr_hdr p) ++ pr_body p.

  Definition page_rec_ok (p : page_rec) : Prop :=
    h_compressed (pr_hdr p) = len (pr_body p) /\ h_crc (pr_hdr p) = crc32 (pr_body p) /\
    0 < h_num_values (pr_hdr p) /\
    exists body, pr_body p = compress body /\ h_uncompressed (pr_hdr p) = len body.

  Definition hsize (p : page_rec) : N := len (header (pr_hdr p)).

  Definition chunk_valid (bytes : list N) (cm : chunk_meta) : Prop :=
    exists pages, bytes = flat_map page_rec_bytes pages /\ Forall page_rec_ok pages /\
      cm_num_values cm = sumN (map (fun p => h_num_values (pr_hdr p)) pages) /\
      cm_total_compressed cm = sumN (map (fun p => hsize p + h_compressed (pr_hdr p)) pages) /\
      cm_total_uncompressed cm = sumN (map (fun p => hsize p + h_uncompressed (pr_hdr p)) pages).

  Fixpoint chunks_layout (data : list N) (off : N) (cms : list chunk_meta) : Prop :=
    match cms with
    | [] => data = []
    | cm :: r => exists b rest, data = b ++ rest /\ cm_file_offset cm = off /\ cm_total_compressed cm = len b /\
                                chunk_valid b cm /\ chunks_layout rest (off + len b) r
    end.

  Fixpoint groups_layout (data : list N) (off : N) (ord : N) (gs : list rg_meta) : Prop :=
    match gs with
    | [] => data = []
    | g :: r => exists d rest, data = d ++ rest /\ rg_file_offset g = off /\ rg_ordinal g = ordinal_of ord /\
                               rg_total_compressed g = len d /\
                               rg_total_compressed g = sumN (map cm_total_compressed (rg_chunks g)) /\
                               rg_total_byte_size g = sumN (map cm_total_uncompressed (rg_chunks g)) /\
                               chunks_layout d off (rg_chunks g) /\ groups_layout rest (off + len d) (ord + 1) r
    end.

  Definition structurally_valid (file : list N) (m : file_meta) : Prop :=
    exists data, file = magic ++ data ++ footer m ++ le32 (len (footer m)) ++ magic /\
                 groups_layout data 4 0 (fm_groups m) /\
                 fm_num_rows m = sumN (map rg_num_rows (fm_groups m)).

  (* ---------------------------------------------------------------- column writer *)

  Record CS (w : cw) (pages : list page_rec) : Prop := mkCS {
    cs_buf : w_buf w = flat_map page_rec_bytes pages;
    cs_ok : Forall page_rec_ok pages;
    cs_values : w_total_values w = sumN (map (fun p => h_num_values (pr_hdr p)) pages) + p_num_values (w_page w);
    cs_comp : w_total_compressed w = sumN (map (fun p => hsize p + h_compressed (pr_hdr p)) pages);
    cs_uncomp : w_total_uncompressed w = sumN (map (fun p => hsize p + h_uncompressed (pr_hdr p)) pages)
  }.

  Lemma cs_init c ps : CS (cw_init c ps) [].
  Proof. constructor; try reflexivity. constructor. Qed.

  Lemma add_values_num p b p' : add_values p b = Ok p' -> p_num_values p' = p_num_values p + N.of_nat (b_nrows b).
  Proof.
    unfold add_values. 
    destruct ((0 <? max_def (p_col p)) && _); [discriminate|].
    destruct (Nat.ltb _ _); [discriminate|].
    destruct (match c_type (p_col p) with TBool => _ | _ => _ end) as [v nb].
    intros E. inversion E. reflexivity.
  Qed.

  Lemma flush_cs w pages : CS w pages -> exists pages', CS (flush_page compress header w) pages'
    /\ p_num_values (w_page (flush_page compress header w)) = 0.
  Proof.
    intros [Hb Ho Hv Hc Hu]. unfold flush_page. destruct (p_num_values (w_page w) =? 0) eqn:E.
    - exists pages. split; [constructor; assumption|]. apply N.eqb_eq, E.
    - apply N.eqb_neq in E. unfold finalize. cbn iota.
      set (h := page_header_of compress (w_page w)). set (comp := compress (page_body (w_page w))).
      assert (Hh1 : h_num_values h = p_num_values (w_page w)) by reflexivity.
      assert (Hh2 : h_compressed h = len comp) by reflexivity.
      assert (Hh3 : h_uncompressed h = len (page_body (w_page w))) by reflexivity.
      assert (Hh4 : h_crc h = crc32 comp) by reflexivity.
      exists (pages ++ [mkpr h comp]). split; [|reflexivity].
      constructor; cbn [w_buf w_total_values w_total_compressed w_total_uncompressed w_page].
      + rewrite Hb, flat_map_app. cbn [flat_map page_rec_bytes pr_hdr pr_body]. rewrite app_nil_r. reflexivity.
      + apply Forall_app. split; [exact Ho|]. constructor; [|constructor].
        unfold page_rec_ok. cbn [pr_hdr pr_body].
        split; [exact Hh2|]. split; [exact Hh4|]. split; [rewrite Hh1; lia|].
        exists (page_body (w_page w)). split; [reflexivity|exact Hh3].
      + rewrite Hv, map_app, sumN_app. cbn [map sumN fold_right pr_hdr]. rewrite Hh1.
        cbn [pw_init p_num_values]. lia.
      + rewrite Hc, map_app, sumN_app. cbn [map sumN fold_right]. unfold hsize. cbn [pr_hdr pr_body].
        rewrite len_app, Hh2. lia.
      + rewrite Hu, map_app, sumN_app. cbn [map sumN fold_right]. unfold hsize. cbn [pr_hdr pr_body].
        rewrite len_app, Hh3. fold comp. lia.
  Qed.

  Lemma pages_len pages : Forall page_rec_ok pages ->
    len (flat_map page_rec_bytes pages) = sumN (map (fun p => hsize p + h_compressed (pr_hdr p)) pages).
  Proof.
    intros H. induction H as [|p l (Hc & _) Hl IH]; [reflexivity|].
    cbn [flat_map map sumN fold_right]. fold (sumN (map (fun p => hsize p + h_compressed (pr_hdr p)) l)).
    rewrite len_app, IH. unfold page_rec_bytes. rewrite len_app, Hc. unfold hsize. lia.
  Qed.

  Lemma write_batch_cs w pages b w' : CS w pages -> cw_write_batch compress header w b = Ok w' ->
    exists pages', CS w' pages'.
  Proof.
    intros [Hb Ho Hv Hc Hu]. unfold cw_write_batch. destruct (add_values (w_page w) b) as [p'| |] eqn:E; try discriminate.
    pose proof (add_values_num _ _ _ E) as Hn.
    set (w1 := mkcw p' (w_buf w) (w_target w) (w_total_values w + N.of_nat (b_nrows b))
                    (w_total_uncompressed w) (w_total_compressed w) (w_num_pages w)).
    assert (C1 : CS w1 pages).
    { constructor; cbn [w1 w_buf w_total_values w_total_compressed w_total_uncompressed w_page]; try assumption.
      rewrite Hv, Hn. lia. }
    intros E2. inversion E2; subst w'. destruct (w_target w <=? estimated_size p').
    - destruct (flush_cs w1 pages C1) as (pages' & C & _). exists pages'. exact C.
    - exists pages. exact C1.
  Qed.

  (* ---------------------------------------------------------------- row group *)

  Definition ColS (w : cw) : Prop := exists pages, CS w pages.

  Lemma finalize_columns_layout codec : forall cws off, Forall ColS cws ->
    forall data metas tot, finalize_columns compress header codec cws off = (data, metas, tot) ->
    chunks_layout data off metas /\ len data = sumN (map cm_total_compressed metas)
    /\ tot = sumN (map cm_total_uncompressed metas).
  Proof.
    induction cws as [|cwr cws IH]; intros off Hf data metas tot E.
    - cbn in E. inversion E; subst. repeat split; reflexivity.
    - inversion Hf as [|? ? [pages C] Hf']; subst. cbn [finalize_columns] in E.
      destruct (flush_cs cwr pages C) as (pages' & C' & Hz). unfold cw_finalize in E.
      set (f := flush_page compress header cwr) in *.
      destruct (finalize_columns compress header codec cws (off + len (w_buf f))) as [[data' metas'] tot'] eqn:E'.
      inversion E; subst data metas tot. clear E.
      destruct (IH _ Hf' _ _ _ E') as (L & S1 & S2).
      destruct C' as [Hb Ho Hv Hc Hu].
      split; [|split].
      + cbn [chunks_layout]. exists (w_buf f), data'. cbn [cm_file_offset cm_total_compressed].
        repeat split; try reflexivity; [|exact L].
        exists pages'. cbn [cm_num_values cm_total_compressed cm_total_uncompressed].
        repeat split; try assumption.
        * rewrite Hv, Hz. lia.
        * rewrite Hb. apply pages_len, Ho.
      + cbn [map sumN fold_right cm_total_compressed]. rewrite len_app, S1. reflexivity.
      + cbn [map sumN fold_right cm_total_uncompressed]. rewrite S2. reflexivity.
  Qed.

  (* ---------------------------------------------------------------- file writer *)

  Lemma groups_layout_snoc : forall gs data off ord g d,
    groups_layout data off ord gs ->
    rg_file_offset g = off + len data -> rg_ordinal g = ordinal_of (ord + len gs) -> rg_total_compressed g = len d ->
    rg_total_compressed g = sumN (map cm_total_compressed (rg_chunks g)) ->
    rg_total_byte_size g = sumN (map cm_total_uncompressed (rg_chunks g)) ->
    chunks_layout d (off + len data) (rg_chunks g) ->
    groups_layout (data ++ d) off ord (gs ++ [g]).
  Proof.
    induction gs as [|g0 gs IH]; intros data off ord g d L Ho Hord Hc Hs1 Hs2 Hl.
    - cbn [groups_layout] in L. subst data. cbn [app groups_layout len length N.of_nat] in *.
      rewrite N.add_0_r in *. exists d, []. rewrite app_nil_r. repeat split; try assumption; reflexivity.
    - cbn [groups_layout] in L. destruct L as (d0 & rest & Ed & L1 & L2 & L3 & L4 & L5 & L6 & L7).
      cbn [app groups_layout]. exists d0, (rest ++ d). subst data. rewrite <- app_assoc.
      repeat split; try assumption; try reflexivity.
      apply IH; try assumption.
      + rewrite Ho, len_app. lia.
      + rewrite Hord. f_equal. unfold len. cbn [length]. lia.
      + rewrite len_app in Hl. replace (off + len d0 + len rest) with (off + (len d0 + len rest)) by lia. exact Hl.
  Qed.

  Definition cur_ok (w : fw) : Prop := match f_cur w with Some cws => Forall ColS cws | None => True end.

  Definition SInv (w : fw) : Prop :=
    cur_ok w /\
    if f_header_written w
    then exists data, f_out w = magic ++ data /\ f_offset w = 4 + len data /\
                      groups_layout data 4 0 (f_groups w) /\ f_total_rows w = sumN (map rg_num_rows (f_groups w))
    else f_out w = [] /\ f_groups w = [] /\ f_total_rows w = 0 /\ f_cur w = None.

  Lemma sinv_init sch o : SInv (fw_init sch o).
  Proof. split; [exact Logic.I|]. cbn. auto. Qed.

  Lemma ensure_header_s w : SInv w -> SInv (ensure_header w) /\ f_header_written (ensure_header w) = true.
  Proof.
    intros [C H]. unfold ensure_header. destruct (f_header_written w) eqn:E; [split; [split; [exact C|rewrite E; exact H]|exact E]|].
    destruct H as (Ho & Hg & Hr & Hc). split; [|reflexivity]. split.
    - unfold cur_ok in *. cbn [f_cur]. exact C.
    - cbn [f_header_written f_out f_offset f_groups f_total_rows]. exists []. rewrite Ho, Hg, Hr. cbn. auto.
  Qed.

  Lemma Forall_set_nth {A} (P : A -> Prop) : forall l i x, Forall P l -> P x -> Forall P (set_nth i x l).
  Proof.
    induction l as [|y l IH]; intros i x H Hx; [destruct i; constructor|].
    inversion H; subst. destruct i; cbn [set_nth]; constructor; auto.
  Qed.

  Lemma write_batch_s w col b w' st : SInv w -> fw_write_batch compress header w col b = Ok (w', st) -> SInv w'.
  Proof.
    intros I. unfold fw_write_batch. destruct (Nat.leb _ _); [intros E; inversion E; subst; exact I|].
    destruct (match f_cur w with None => MAX_ROW_GROUPS <=? len (f_groups w) | Some _ => false end);
      [intros E; inversion E; subst; apply (ensure_header_s w I)|].
    destruct (ensure_header_s w I) as [[C1 H1] Hh]. set (w0 := ensure_header w) in *. rewrite Hh in H1.
    assert (I1 : SInv (ensure_row_group w0)).
    { unfold ensure_row_group. destruct (f_cur w0) eqn:Ec; [split; [exact C1|rewrite Hh; exact H1]|].
      split; [|cbn [f_header_written f_out f_offset f_groups f_total_rows]; rewrite Hh; exact H1].
      unfold cur_ok. cbn [f_cur]. apply Forall_forall. intros x Hx. apply in_map_iff in Hx. destruct Hx as (c & <- & _).
      exists []. apply cs_init. }
    assert (Hh1 : f_header_written (ensure_row_group w0) = true)
      by (unfold ensure_row_group; destruct (f_cur w0); exact Hh).
    set (w1 := ensure_row_group w0) in *.
    destruct (f_cur w1) as [cws|] eqn:Ec; [|discriminate].
    destruct (nth_error cws col) as [cwr|] eqn:En; [|discriminate].
    destruct I1 as [C2 H2]. unfold cur_ok in C2. rewrite Ec in C2.
    destruct (cw_write_batch compress header cwr b) as [cwr'| |] eqn:Ew; try discriminate.
    - intros E; inversion E; subst w' st. split.
      + unfold cur_ok. cbn [f_cur]. apply Forall_set_nth; [exact C2|].
        assert (Hc : ColS cwr) by (rewrite Forall_forall in C2; apply C2; eapply nth_error_In; exact En).
        destruct Hc as [pages Cp]. eapply write_batch_cs; eassumption.
      + cbn [f_header_written f_out f_offset f_groups f_total_rows]. rewrite Hh1 in *. exact H2.
    - intros E; inversion E; subst w' st. split; [unfold cur_ok; rewrite Ec; exact C2|exact H2].
  Qed.

  Lemma flush_s w : SInv w -> f_header_written w = true -> SInv (flush_row_group compress header w)
    /\ f_header_written (flush_row_group compress header w) = true.
  Proof.
    intros I Hh. unfold flush_row_group. destruct (f_cur w) as [cws|] eqn:Ec; [|split; [exact I|exact Hh]].
    destruct I as [C H]. rewrite Hh in H. destruct H as (data0 & Eo & Eoff & L & Hr).
    destruct (finalize_columns compress header (o_codec (f_opts w)) cws (f_offset w)) as [[data metas] tot] eqn:Ef.
    unfold cur_ok in C. rewrite Ec in C.
    destruct (finalize_columns_layout _ cws (f_offset w) C data metas tot Ef) as (Lc & S1 & S2).
    split; [|exact Hh]. split; [exact Logic.I|].
    cbn [f_header_written f_out f_offset f_groups f_total_rows]. rewrite Hh.
    exists (data0 ++ data). split; [rewrite Eo, app_assoc; reflexivity|].
    split; [rewrite Eoff, len_app; lia|]. split.
    - apply groups_layout_snoc; cbn [rg_file_offset rg_ordinal rg_total_compressed rg_total_byte_size rg_chunks];
        try assumption; try reflexivity; try (rewrite Eoff; reflexivity).
      rewrite <- Eoff. exact Lc.
    - rewrite map_app, sumN_app, Hr. cbn [map sumN fold_right rg_num_rows]. lia.
  Qed.

  Lemma close_s w : SInv w -> structurally_valid (f_out (fw_close compress header footer w))
                                                   (metadata_of (flush_row_group compress header (ensure_header w))).
  Proof.
    intros I. destruct (ensure_header_s w I) as [I1 Hh]. destruct (flush_s _ I1 Hh) as [[_ H2] Hh2].
    rewrite Hh2 in H2. destruct H2 as (data & Eo & _ & L & Hr).
    unfold fw_close, structurally_valid. cbn [f_out]. exists data. rewrite Eo, <- app_assoc.
    split; [reflexivity|]. unfold metadata_of at 2 3. cbn [fm_groups fm_num_rows]. split; [exact L|exact Hr].
  Qed.

  Lemma metadata_close w : metadata_of (fw_close compress header footer w)
                           = metadata_of (flush_row_group compress header (ensure_header w)).
  Proof. reflexivity. Qed.

  Lemma run_ops_s : forall ops w acc sts w', SInv w ->
    run_ops compress header footer w ops acc = Ok (sts, w', true) ->
    structurally_valid (f_out w') (metadata_of w').
  Proof.
    induction ops as [|op ops IH]; intros w acc sts w' I E; [cbn in E; inversion E|].
    destruct op as [col b| |]; cbn [run_ops] in E.
    - destruct (fw_write_batch compress header w col b) as [[w1 st]| |] eqn:Ew; try discriminate.
      eapply IH; [|exact E]. eapply write_batch_s; eassumption.
    - eapply IH; [|exact E]. unfold fw_new_row_group. destruct (ensure_header_s w I) as [I1 Hh].
      apply (flush_s _ I1 Hh).
    - inversion E; subst. rewrite metadata_close. apply close_s, I.
  Qed.

  (** C05: whatever the calls were, once close is reached the file is structurally valid *)
  Theorem writer_output_valid sch opts ops sts w :
    run_writer compress header footer sch opts ops = Ok (sts, w, true) ->
    structurally_valid (f_out w) (metadata_of w).
  Proof. unfold run_writer. destruct (schema_fits sch); [|discriminate]. apply run_ops_s, sinv_init. Qed.

  Theorem writer_deterministic sch opts ops r1 r2 :
    run_writer compress header footer sch opts ops = r1 ->
    run_writer compress header footer sch opts ops = r2 -> r1 = r2.
  Proof. intros <- <-. reflexivity. Qed.
End Struct.

(** the hypotheses are satisfiable and the predicate is not vacuous: a two-column, two-row-group history with
    a toy header (4 size bytes) and footer *)
Example writer_output_valid_ex :
  let header := fun h : page_hdr => [h_uncompressed h; h_compressed h; h_num_values h; 77] in
  let footer := fun m : file_meta => [fm_num_rows m; len (fm_groups m)] in
  let c0 := mkcol [97] TInt32 Optional 0 in let c1 := mkcol [98] TBool Required 0 in
  let ops := [WBatch 0 (mkbatch [[1;0;0;0]] 2 (Some [1;0])); WBatch 1 (mkbatch [[1];[0]] 2 None); WNewRowGroup;
              WBatch 1 (mkbatch [[1]] 1 None); WBatch 0 (mkbatch [[5;0;0;0]] 1 None); WClose] in
  match run_writer (fun b => b) header footer [c0; c1] (mkopt 0 1 None) ops with
  | Ok (sts, w, true) => all_ok sts = true /\ len (f_out w) = 52 /\ fm_num_rows (metadata_of w) = 3
  | _ => False
  end.
Proof. vm_compute. auto. Qed.
