(** C01: the footer premise of the round-trip theorem discharged for carquet's own Thrift code.

    [thrift_footer m] = parquet_write_file_metadata on the record the writer builds ([footer_record]);
    [concrete_parse_footer] = parquet_parse_file_metadata + the reduction of the parsed record to [file_meta].
    For every metadata in the writer's domain ([footer_dom]: one chunk per schema column in order, numbers inside
    their Thrift fields, names that are C strings, list sizes within the parser's limits):
      - the record is in the domain of the thrift owner's round-trip theorem ([footer_wf]);
      - parse-after-write returns the record itself ([footer_norm]);
      - reducing it gives back the metadata ([meta_of_footer_record]);
    hence [thrift_footer_roundtrip]: concrete_parse_footer (thrift_footer m) = Ok m. *)
From Coq Require Import ZArith NArith List Bool Lia.
From Carquet Require Import Base.Res Gen.Consts_gen Gen.Enums_gen Gen.Writer_gen.
From Carquet Require Import Thrift.ThriftSpec Thrift.ThriftSpecProofs Thrift.ThriftModel Thrift.ThriftConform
  Thrift.ParquetMetaDesc Thrift.ParquetMetaModel Thrift.ParquetMetaSem Thrift.ParquetMetaRoundtrip.
From Carquet Require Import Writer.TableSpec Writer.FileWriterModel Reader.ReadAllModel Writer.WriterThriftModel.
From Carquet Require Writer.FileProofs.
Import ListNotations.
Local Open Scope Z_scope.

Notation footer_dom := FileProofs.footer_dom.

(* ------------------------------------------------------------------ the records, level by level *)

Definition col_meta_fields (ty : Z) (name : list N) (codec nv tu tc off : Z) : list mval :=
  [ MInt ty; MArr [MInt E_CARQUET_ENCODING_PLAIN; MInt E_CARQUET_ENCODING_RLE]; MArr [MBytes (Some name)];
    MInt codec; MInt nv; MInt tu; MInt tc; MArr []; MInt off; MInt 0; MInt 0; MInt 0; MInt 0; MInt 0;
    MRec (s_init d_stats); MArr []; MInt 0; MInt 0; MInt 0; MInt 0 ].

Definition chunk_fields (off : Z) (md : list mval) : list mval :=
  [ MBytes None; MInt off; MInt 1; MRec md; MInt 0; MInt 0; MInt 0; MInt 0; MInt 0; MInt 0; MInt 0; MInt 0 ].

Definition rg_fields (chunks : list mval) (tbs nr fo tcs ho o : Z) : list mval :=
  [ MArr chunks; MInt tbs; MInt nr; MInt 1; MInt fo; MInt 1; MInt tcs; MInt ho; MInt o ].

Definition elem_fields (ht ty tl hr rp : Z) (name : list N) (nc : Z) : list mval :=
  [ MInt ht; MInt ty; MInt tl; MInt hr; MInt rp; MBytes (Some name); MInt nc; MInt 0; MInt 0; MInt 0; MInt 0;
    MInt 0; MInt 0; MInt 0; MRec (zeros 7) ].

Lemma chunk_rec_eq cm : chunk_rec cm =
  MRec (chunk_fields (Z.of_N (cm_file_offset cm))
          (col_meta_fields (type_code (c_type (cm_col cm))) (c_name (cm_col cm)) (cm_codec cm)
             (Z.of_N (cm_num_values cm)) (Z.of_N (cm_total_uncompressed cm)) (Z.of_N (cm_total_compressed cm))
             (Z.of_N (cm_file_offset cm)))).
Proof. reflexivity. Qed.

Definition ord_has (o : option N) : Z := match o with Some _ => 1 | None => 0 end.
Definition ord_val (o : option N) : Z := Z.of_N (match o with Some n => n | None => 0%N end).

Lemma rg_rec_eq g : rg_rec g =
  MRec (rg_fields (map chunk_rec (rg_chunks g)) (Z.of_N (rg_total_byte_size g)) (Z.of_N (rg_num_rows g))
          (Z.of_N (rg_file_offset g)) (Z.of_N (rg_total_compressed g)) (ord_has (rg_ordinal g)) (ord_val (rg_ordinal g))).
Proof. unfold rg_rec, rg_fields, ord_has, ord_val, I. destruct (rg_ordinal g); reflexivity. Qed.

Lemma leaf_elem_eq c : leaf_elem c =
  MRec (elem_fields 1 (type_code (c_type c)) (Z.of_N (c_tlen c)) 1 (rep_code (c_rep c)) (c_name c) 0).
Proof. reflexivity. Qed.

Lemma root_elem_eq n : root_elem n = MRec (elem_fields 0 0 0 0 0 Writer_ROOT_NAME (Z.of_nat n)).
Proof. reflexivity. Qed.

(* ------------------------------------------------------------------ parse-after-write is the identity, level by level *)

Notation norm_c := (norm carquet_tbl).

Lemma norm_col_meta ty name codec nv tu tc off :
  norm_c 5 S_COL_META (col_meta_fields ty name codec nv tu tc off)
  = col_meta_fields ty (cstr (cstr name)) codec nv tu tc off.
Proof. reflexivity. Qed.

Lemma norm_chunk off md :
  norm_c 6 S_COL_CHUNK (chunk_fields off md) = chunk_fields off (norm_c 5 S_COL_META md).
Proof. reflexivity. Qed.

Definition norm_rec (fuel sid : nat) (x : mval) : mval :=
  match x with MRec sub => MRec (norm_c fuel sid sub) | _ => MRec (s_init (carquet_tbl sid)) end.

Lemma norm_rg chunks tbs nr fo tcs o :
  norm_c 7 S_ROW_GROUP (rg_fields chunks tbs nr fo tcs 1 o)
  = rg_fields (map (norm_rec 6 S_COL_CHUNK) chunks) tbs nr fo tcs 1 o.
Proof.
  unfold norm.
  change (fields_of carquet_tbl 7 S_ROW_GROUP (rg_fields chunks tbs nr fo tcs 1 o))
    with [ (1, VList TStruct (map (fun x => match x with MRec sub => VStruct (fields_of carquet_tbl 6 S_COL_CHUNK sub) | _ => VStruct [] end) chunks));
           (2, VI64 tbs); (3, VI64 nr); (5, VI64 fo); (6, VI64 tcs); (7, VI16 o) ].
  change (rg_fields (map (norm_rec 6 S_COL_CHUNK) chunks) tbs nr fo tcs 1 o)
    with [ MArr (map (norm_rec 6 S_COL_CHUNK) chunks); MInt tbs; MInt nr; MInt 1; MInt fo; MInt 1; MInt tcs; MInt 1; MInt o ].
  match goal with |- interp _ _ _ [(1, VList TStruct (map ?f chunks)); _; _; _; _; _] _ = _ =>
    change (MArr (map (fun x => match x with VStruct fs => MRec (interp carquet_tbl 6 S_COL_CHUNK fs (s_init (carquet_tbl S_COL_CHUNK))) | _ => MRec [] end) (map f chunks))
            :: [MInt tbs; MInt nr; MInt 1; MInt fo; MInt 1; MInt tcs; MInt 1; MInt o] = 
            [ MArr (map (norm_rec 6 S_COL_CHUNK) chunks); MInt tbs; MInt nr; MInt 1; MInt fo; MInt 1; MInt tcs; MInt 1; MInt o ])
  end.
  rewrite map_map. f_equal. f_equal. apply map_ext. intros [ | | | ]; reflexivity.
Qed.

Lemma norm_rg0 chunks tbs nr fo tcs o :
  norm_c 7 S_ROW_GROUP (rg_fields chunks tbs nr fo tcs 0 o)
  = rg_fields (map (norm_rec 6 S_COL_CHUNK) chunks) tbs nr fo tcs 0 0.
Proof.
  unfold norm.
  change (fields_of carquet_tbl 7 S_ROW_GROUP (rg_fields chunks tbs nr fo tcs 0 o))
    with [ (1, VList TStruct (map (fun x => match x with MRec sub => VStruct (fields_of carquet_tbl 6 S_COL_CHUNK sub) | _ => VStruct [] end) chunks));
           (2, VI64 tbs); (3, VI64 nr); (5, VI64 fo); (6, VI64 tcs) ].
  change (rg_fields (map (norm_rec 6 S_COL_CHUNK) chunks) tbs nr fo tcs 0 0)
    with [ MArr (map (norm_rec 6 S_COL_CHUNK) chunks); MInt tbs; MInt nr; MInt 1; MInt fo; MInt 1; MInt tcs; MInt 0; MInt 0 ].
  match goal with |- interp _ _ _ [(1, VList TStruct (map ?f chunks)); _; _; _; _] _ = _ =>
    change (MArr (map (fun x => match x with VStruct fs => MRec (interp carquet_tbl 6 S_COL_CHUNK fs (s_init (carquet_tbl S_COL_CHUNK))) | _ => MRec [] end) (map f chunks))
            :: [MInt tbs; MInt nr; MInt 1; MInt fo; MInt 1; MInt tcs; MInt 0; MInt 0] = 
            [ MArr (map (norm_rec 6 S_COL_CHUNK) chunks); MInt tbs; MInt nr; MInt 1; MInt fo; MInt 1; MInt tcs; MInt 0; MInt 0 ])
  end.
  rewrite map_map. f_equal. f_equal. apply map_ext. intros [ | | | ]; reflexivity.
Qed.

Lemma norm_elem ht ty tl hr rp name nc : (ht = 0 \/ ht = 1) -> (hr = 0 \/ hr = 1) -> 0 <= tl -> 0 <= nc ->
  (ht = 0 -> ty = 0) -> (hr = 0 -> rp = 0) ->
  norm_c 7 S_SCHEMA_ELEM (elem_fields ht ty tl hr rp name nc) = elem_fields ht ty tl hr rp (cstr (cstr name)) nc.
Proof.
  intros Ht Hr Htl Hnc T0 R0.
  assert (Etl : tl = 0 \/ (0 <? tl) = true) by (destruct (Z.ltb_spec 0 tl); [right; reflexivity | left; lia]).
  assert (Enc : nc = 0 \/ (0 <? nc) = true) by (destruct (Z.ltb_spec 0 nc); [right; reflexivity | left; lia]).
  unfold norm.
  destruct Ht as [-> | ->]; [rewrite (T0 eq_refl)|]; (destruct Hr as [-> | ->]; [rewrite (R0 eq_refl)|]);
    (destruct Etl as [-> | Etl]); (destruct Enc as [-> | Enc]);
    cbv beta iota delta [fields_of elem_fields carquet_tbl S_SCHEMA_ELEM d_schema_elem s_fields flat_map field_of present FH F f_pres f_slot f_has f_kind f_id get_int nth_error app];
    rewrite ?Etl, ?Enc; reflexivity.
Qed.

Definition file_fields (v : Z) (elems : list mval) (nr : Z) (rgs : list mval) (cb : list N) : list mval :=
  [ MInt v; MArr elems; MInt nr; MArr rgs; MArr []; MBytes (Some cb) ].

Lemma norm_file v elems nr rgs cb :
  norm_c 8 S_FILE_META (file_fields v elems nr rgs cb)
  = file_fields v (map (norm_rec 7 S_SCHEMA_ELEM) elems) nr (map (norm_rec 7 S_ROW_GROUP) rgs) (cstr (cstr cb)).
Proof.
  unfold norm.
  change (fields_of carquet_tbl 8 S_FILE_META (file_fields v elems nr rgs cb))
    with [ (1, VI32 v);
           (2, VList TStruct (map (fun x => match x with MRec sub => VStruct (fields_of carquet_tbl 7 S_SCHEMA_ELEM sub) | _ => VStruct [] end) elems));
           (3, VI64 nr);
           (4, VList TStruct (map (fun x => match x with MRec sub => VStruct (fields_of carquet_tbl 7 S_ROW_GROUP sub) | _ => VStruct [] end) rgs));
           (6, VBinary (cstr cb)) ].
  match goal with |- interp _ _ _ [_; (2, VList TStruct (map ?f elems)); _; (4, VList TStruct (map ?g rgs)); _] _ = _ =>
    change ([ MInt v;
              MArr (map (fun x => match x with VStruct fs => MRec (interp carquet_tbl 7 S_SCHEMA_ELEM fs (s_init (carquet_tbl S_SCHEMA_ELEM))) | _ => MRec [] end) (map f elems));
              MInt nr;
              MArr (map (fun x => match x with VStruct fs => MRec (interp carquet_tbl 7 S_ROW_GROUP fs (s_init (carquet_tbl S_ROW_GROUP))) | _ => MRec [] end) (map g rgs));
              MArr []; MBytes (Some (cstr (cstr cb))) ]
            = file_fields v (map (norm_rec 7 S_SCHEMA_ELEM) elems) nr (map (norm_rec 7 S_ROW_GROUP) rgs) (cstr (cstr cb)))
  end.
  rewrite !map_map. unfold file_fields. f_equal. f_equal; [|f_equal; f_equal].
  - f_equal. apply map_ext. intros [ | | | ]; reflexivity.
  - f_equal. apply map_ext. intros [ | | | ]; reflexivity.
Qed.

Lemma footer_record_eq m : footer_record m =
  file_fields (Z.of_N (fm_version m)) (root_elem (length (fm_schema m)) :: map leaf_elem (fm_schema m))
    (Z.of_N (fm_num_rows m)) (map rg_rec (fm_groups m)) (fm_created_by m).
Proof. reflexivity. Qed.

(* ------------------------------------------------------------------ the whole record *)

Lemma name_cstr n : FileProofs.name_ok n -> cstr n = n.
Proof.
  intros [H _]. apply cstr_id. eapply Forall_impl; [|exact H]. cbv beta. intros b Hb E. subst b. destruct Hb as [Hb _]. discriminate Hb.
Qed.

Lemma norm_leaf c : FileProofs.col_small c -> norm_rec 7 S_SCHEMA_ELEM (leaf_elem c) = leaf_elem c.
Proof.
  intros [Hn _]. rewrite leaf_elem_eq. unfold norm_rec.
  rewrite norm_elem; try lia; try (right; reflexivity); try (intro H; discriminate H).
  rewrite !(name_cstr _ Hn). reflexivity.
Qed.

Lemma norm_root n : norm_rec 7 S_SCHEMA_ELEM (root_elem n) = root_elem n.
Proof.
  rewrite root_elem_eq. unfold norm_rec. rewrite norm_elem; try lia; try (left; reflexivity); try reflexivity.
Qed.

Lemma norm_chunk_rec cm : FileProofs.name_ok (c_name (cm_col cm)) -> norm_rec 6 S_COL_CHUNK (chunk_rec cm) = chunk_rec cm.
Proof.
  intro Hn. rewrite chunk_rec_eq. unfold norm_rec. rewrite norm_chunk, norm_col_meta, !(name_cstr _ Hn). reflexivity.
Qed.

Lemma norm_rg_rec g : Forall (fun cm => FileProofs.name_ok (c_name (cm_col cm))) (rg_chunks g) ->
  norm_rec 7 S_ROW_GROUP (rg_rec g) = rg_rec g.
Proof.
  intro Hc. rewrite rg_rec_eq. unfold norm_rec.
  assert (E : map (norm_rec 6 S_COL_CHUNK) (map chunk_rec (rg_chunks g)) = map chunk_rec (rg_chunks g)).
  { rewrite map_map. apply map_ext_in. intros cm Hin. apply norm_chunk_rec. rewrite Forall_forall in Hc. apply Hc, Hin. }
  destruct (rg_ordinal g) as [o|]; cbn [ord_has ord_val].
  - rewrite norm_rg, E. reflexivity.
  - rewrite norm_rg0, E. reflexivity.
Qed.

Lemma dom_chunk_names m : footer_dom m ->
  Forall (fun g => Forall (fun cm => FileProofs.name_ok (c_name (cm_col cm))) (rg_chunks g)) (fm_groups m).
Proof.
  intros [Hs (_ & Hc & _)]. unfold FileProofs.meta_shape in Hs.
  eapply Forall_impl; [|exact Hs]. cbv beta. intros g Hg.
  assert (H : Forall FileProofs.col_small (map cm_col (rg_chunks g))) by (rewrite Hg; exact Hc).
  rewrite Forall_map in H. eapply Forall_impl; [|exact H]. cbv beta. intros cm [Hn _]. exact Hn.
Qed.

Theorem footer_norm m : footer_dom m -> norm_file_metadata (footer_record m) = footer_record m.
Proof.
  intro D. pose proof (dom_chunk_names m D) as Hn. destruct D as [_ (_ & Hc & _ & _ & _ & _ & _ & Hcb)].
  rewrite footer_record_eq. unfold norm_file_metadata, FUEL. rewrite norm_file.
  rewrite !(name_cstr _ Hcb). cbn [map]. rewrite norm_root. rewrite !map_map.
  assert (E1 : map (fun x => norm_rec 7 S_SCHEMA_ELEM (leaf_elem x)) (fm_schema m) = map leaf_elem (fm_schema m)).
  { apply map_ext_in. intros c Hin. apply norm_leaf. rewrite Forall_forall in Hc. apply Hc, Hin. }
  assert (E2 : map (fun x => norm_rec 7 S_ROW_GROUP (rg_rec x)) (fm_groups m) = map rg_rec (fm_groups m)).
  { apply map_ext_in. intros g Hin. apply norm_rg_rec. rewrite Forall_forall in Hn. apply Hn, Hin. }
  rewrite E1, E2. reflexivity.
Qed.

Notation wf_c := (wf carquet_tbl).
Ltac wf_fields :=
  repeat (apply Forall_cons; [ let P := fresh "P" in intro P; first [ cbn in P; discriminate P | eexists; split; [reflexivity| cbn -[wf] ] ] |]); try apply Forall_nil.


Lemma name_bytes_ok n : FileProofs.name_ok n -> bytes_ok (cstr n).
Proof.
  intro H. rewrite (name_cstr _ H). destruct H as [H L]. split; [|exact L].
  eapply Forall_impl; [|exact H]. cbv beta. intros b [_ Hb]. exact Hb.
Qed.

Lemma in_range_const b z : (- 2 ^ (b - 1) <=? z) && (z <? 2 ^ (b - 1)) = true -> in_range b z.
Proof. intro H. apply andb_prop in H. destruct H as [H1 H2]. split; [apply Z.leb_le, H1 | apply Z.ltb_lt, H2]. Qed.
Ltac rng := first [ assumption | apply in_range_const; vm_compute; reflexivity ].

Lemma wf_col_meta ty name codec nv tu tc off :
  in_range 32 ty -> FileProofs.name_ok name -> in_range 32 codec -> in_range 64 nv -> in_range 64 tu -> in_range 64 tc -> in_range 64 off ->
  wf_c 5 S_COL_META (col_meta_fields ty name codec nv tu tc off).
Proof.
  intros. change (Forall (wf_field (wf_c 4) (col_meta_fields ty name codec nv tu tc off)) (s_fields d_col_meta)).
  unfold d_col_meta, s_fields. wf_fields.
  all: try assumption.
  - split; [lia|]. split; [lia|]. apply Forall_cons; [rng|apply Forall_cons; [rng|apply Forall_nil]].
  - split; [lia|]. split; [lia|]. apply Forall_cons; [apply name_bytes_ok; assumption|apply Forall_nil].
Qed.

Lemma wf_chunk off md : in_range 64 off -> wf_c 5 S_COL_META md -> wf_c 6 S_COL_CHUNK (chunk_fields off md).
Proof.
  intros. change (Forall (wf_field (wf_c 5) (chunk_fields off md)) (s_fields d_col_chunk)).
  unfold d_col_chunk, s_fields. wf_fields.
  all: try assumption.
Qed.

Definition is_wf_rec (fuel sid : nat) (x : mval) : Prop := match x with MRec sub => wf_c fuel sid sub | _ => False end.

Lemma wf_rg chunks tbs nr fo tcs ho o :
  Z.of_nat (length chunks) <= Z.of_N MAX_COLUMNS_PER_RG -> Forall (is_wf_rec 6 S_COL_CHUNK) chunks ->
  in_range 64 tbs -> in_range 64 nr -> in_range 64 fo -> in_range 64 tcs -> (ho = 0 \/ ho = 1) -> in_range 16 o ->
  wf_c 7 S_ROW_GROUP (rg_fields chunks tbs nr fo tcs ho o).
Proof.
  intros. change (Forall (wf_field (wf_c 6) (rg_fields chunks tbs nr fo tcs ho o)) (s_fields d_row_group)).
  unfold d_row_group, s_fields. destruct H5 as [-> | ->]; wf_fields.
  all: try assumption.
  all: (split; [vm_compute in H; vm_compute; exact H|]); (split; [reflexivity|]); exact H0.
Qed.

Lemma wf_elem ht ty tl hr rp name nc : (ht = 0 \/ ht = 1) -> (hr = 0 \/ hr = 1) ->
  in_range 32 ty -> in_range 32 tl -> in_range 32 rp -> in_range 32 nc -> FileProofs.name_ok name ->
  wf_c 7 S_SCHEMA_ELEM (elem_fields ht ty tl hr rp name nc).
Proof.
  intros Ht Hr. intros. change (Forall (wf_field (wf_c 6) (elem_fields ht ty tl hr rp name nc)) (s_fields d_schema_elem)).
  unfold d_schema_elem, s_fields. destruct Ht as [-> | ->]; destruct Hr as [-> | ->]; wf_fields.
  all: try assumption.
  all: try (apply name_bytes_ok; assumption).
Qed.

Lemma wf_file v elems nr rgs cb :
  in_range 32 v -> in_range 64 nr -> FileProofs.name_ok cb ->
  Z.of_nat (length elems) <= Z.of_N MAX_SCHEMA_ELEMENTS -> Forall (is_wf_rec 7 S_SCHEMA_ELEM) elems ->
  Z.of_nat (length rgs) <= Z.of_N MAX_ROW_GROUPS -> Forall (is_wf_rec 7 S_ROW_GROUP) rgs ->
  wf_c 8 S_FILE_META (file_fields v elems nr rgs cb).
Proof.
  intros. change (Forall (wf_field (wf_c 7) (file_fields v elems nr rgs cb)) (s_fields d_file_meta)).
  unfold d_file_meta, s_fields. wf_fields.
  all: try assumption.
  all: try (apply name_bytes_ok; assumption).
  - split; [vm_compute in H2; vm_compute; exact H2|]. split; [reflexivity|]. exact H3.
  - split; [vm_compute in H4; vm_compute; exact H4|]. split; [reflexivity|]. exact H5.
Qed.

Lemma in_range64_N x : (x < 2 ^ 63)%N -> in_range 64 (Z.of_N x).
Proof. intro H. unfold in_range. change (2 ^ (64 - 1)) with 9223372036854775808. change (2 ^ 63)%N with 9223372036854775808%N in H. lia. Qed.
Lemma in_range32_N x : (x < 2 ^ 31)%N -> in_range 32 (Z.of_N x).
Proof. intro H. unfold in_range. change (2 ^ (32 - 1)) with 2147483648. change (2 ^ 31)%N with 2147483648%N in H. lia. Qed.
Lemma in_range32_Z z : (- 2 ^ 31 <= z < 2 ^ 31) -> in_range 32 z.
Proof. intro H. exact H. Qed.

Lemma type_code_range t : in_range 32 (type_code t).
Proof. destruct t; rng. Qed.
Lemma rep_code_range r : in_range 32 (rep_code r).
Proof. destruct r; rng. Qed.

Lemma root_name_ok : FileProofs.name_ok Writer_ROOT_NAME.
Proof. split; [|vm_compute; reflexivity]. unfold Writer_ROOT_NAME. repeat (apply Forall_cons; [split; reflexivity|]). apply Forall_nil. Qed.

Lemma wf_leaf c : FileProofs.col_small c -> is_wf_rec 7 S_SCHEMA_ELEM (leaf_elem c).
Proof.
  intros [Hn Ht]. rewrite leaf_elem_eq. unfold is_wf_rec.
  apply wf_elem; try (right; reflexivity); try assumption.
  - apply type_code_range. - apply in_range32_N, Ht. - apply rep_code_range. - rng.
Qed.

Lemma wf_root n : Z.of_nat n < 2 ^ 31 -> is_wf_rec 7 S_SCHEMA_ELEM (root_elem n).
Proof.
  intro H. rewrite root_elem_eq. unfold is_wf_rec.
  apply wf_elem; [left; reflexivity | left; reflexivity | apply in_range_const; reflexivity | apply in_range_const; reflexivity
                 | apply in_range_const; reflexivity | | apply root_name_ok].
  unfold in_range. change (2 ^ (32 - 1)) with 2147483648. change (2 ^ 31) with 2147483648 in H. lia.
Qed.

Lemma wf_chunk_rec cm : FileProofs.name_ok (c_name (cm_col cm)) -> FileProofs.chunk_small cm -> is_wf_rec 6 S_COL_CHUNK (chunk_rec cm).
Proof.
  intros Hn (Hc & Ho & Hv & Htc & Htu). rewrite chunk_rec_eq. unfold is_wf_rec.
  apply wf_chunk; [apply in_range64_N, Ho|].
  apply wf_col_meta; try assumption; try (apply in_range64_N; assumption).
  apply type_code_range.
Qed.

Lemma wf_rg_rec g : Z.of_nat (length (rg_chunks g)) <= Z.of_N MAX_COLUMNS_PER_RG ->
  Forall (fun cm => FileProofs.name_ok (c_name (cm_col cm))) (rg_chunks g) -> FileProofs.group_small g ->
  is_wf_rec 7 S_ROW_GROUP (rg_rec g).
Proof.
  intros Hl Hn (Hc & Hr & Hb & Ho & Htc & Hord). rewrite rg_rec_eq. unfold is_wf_rec.
  apply wf_rg; try (apply in_range64_N; assumption).
  - rewrite map_length. exact Hl.
  - rewrite Forall_map. rewrite Forall_forall in *. intros cm Hin. apply wf_chunk_rec; [apply Hn, Hin | apply Hc, Hin].
  - destruct (rg_ordinal g); [right|left]; reflexivity.
  - unfold in_range. change (2 ^ (16 - 1)) with 32768. destruct (rg_ordinal g); unfold ord_val; lia.
Qed.

Theorem footer_wf m : footer_dom m -> wf_file_metadata (footer_record m).
Proof.
  intro D. pose proof (dom_chunk_names m D) as Hn.
  destruct D as [Hs (Hv & Hc & Hse & Hcr & Hnr & Hg & Hng & Hcb)].
  rewrite footer_record_eq. unfold wf_file_metadata, FUEL. unfold DeltaBits.len, FileProofs.meta_shape in *.
  assert (Ese : MAX_SCHEMA_ELEMENTS = 10000%N) by reflexivity.
  assert (Ecr : MAX_COLUMNS_PER_RG = 10000%N) by reflexivity.
  apply wf_file; try assumption.
  - apply in_range32_N, Hv.
  - apply in_range64_N, Hnr.
  - cbn [length]. rewrite map_length. lia.
  - apply Forall_cons.
    + apply wf_root. change (2 ^ 31) with 2147483648. lia.
    + rewrite Forall_map. eapply Forall_impl; [|exact Hc]. exact wf_leaf.
  - rewrite map_length. lia.
  - rewrite Forall_map. rewrite Forall_forall in *. intros g Hin. apply wf_rg_rec; [| apply Hn, Hin | apply Hg, Hin].
    specialize (Hs g Hin). apply (f_equal (@length _)) in Hs. rewrite map_length in Hs. rewrite Hs. lia.
Qed.

(* ------------------------------------------------------------------ reducing the parsed record *)

Definition chunk_of (cc : mval * column) : chunk_meta :=
  let md := slot_rec (as_rec (fst cc)) 3 in
  mkcm (mkcol (match slot_arr md 2 with MBytes (Some n) :: _ => n | _ => [] end)
              (ptype_of_code (slot_int md 0)) (c_rep (snd cc)) (c_tlen (snd cc)))
       (slot_int md 3) (nat_N (slot_int md 8)) (nat_N (slot_int md 4)) (nat_N (slot_int md 6)) (nat_N (slot_int md 5)).
Definition group_of (sch : list column) (g : mval) : rg_meta :=
  let gr := as_rec g in
  mkrg (map chunk_of (combine (slot_arr gr 0) sch)) (nat_N (slot_int gr 2)) (nat_N (slot_int gr 1))
       (nat_N (slot_int gr 4)) (nat_N (slot_int gr 6))
       (if Z.eqb (slot_int gr 7) 0 then None else Some (nat_N (slot_int gr 8))).
Definition meta_of_record (r : list mval) : file_meta :=
  let sch := map (fun e => column_of_elem (as_rec e)) (tl (slot_arr r 1)) in
  mkfm (nat_N (slot_int r 0)) sch (nat_N (slot_int r 2)) (map (group_of sch) (slot_arr r 3)) (slot_bytes r 5).

Lemma concrete_parse_footer_eq bs : concrete_parse_footer bs =
  match parse_file_metadata bs with Ok (r, _) => Ok (meta_of_record r) | Err e => Err e | Fault f => Fault f end.
Proof. reflexivity. Qed.

Lemma ptype_code t : ptype_of_code (type_code t) = t.
Proof. destruct t; reflexivity. Qed.

Lemma column_of_leaf c : column_of_elem (as_rec (leaf_elem c)) = c.
Proof.
  destruct c as [n t r tl]. unfold column_of_elem, leaf_elem, as_rec, slot_bytes, slot_int, nat_N, I. cbn [nth_error c_name c_type c_rep c_tlen].
  rewrite ptype_code, N2Z.id. destruct r; reflexivity.
Qed.

Lemma chunk_of_rec cm : chunk_of (chunk_rec cm, cm_col cm) = cm.
Proof.
  destruct cm as [[n t r tl] codec off nv tc tu].
  unfold chunk_of, chunk_rec, as_rec, slot_rec, slot_arr, slot_int, nat_N, I.
  cbn [fst snd nth_error cm_col cm_codec cm_file_offset cm_num_values cm_total_compressed cm_total_uncompressed c_name c_type c_rep c_tlen].
  rewrite ptype_code, !N2Z.id. reflexivity.
Qed.

Lemma chunks_of_recs cs : map chunk_of (combine (map chunk_rec cs) (map cm_col cs)) = cs.
Proof. induction cs as [|cm cs IH]; [reflexivity|]. cbn [map combine]. rewrite chunk_of_rec, IH. reflexivity. Qed.

Lemma group_of_rec g : group_of (map cm_col (rg_chunks g)) (rg_rec g) = g.
Proof.
  destruct g as [cs nr tbs fo tcs o]. unfold group_of, rg_rec, as_rec, slot_arr, slot_int, nat_N, I.
  cbn [nth_error rg_chunks rg_num_rows rg_total_byte_size rg_file_offset rg_total_compressed rg_ordinal].
  rewrite chunks_of_recs. destruct o as [o|]; cbn [Z.eqb]; rewrite ?N2Z.id; reflexivity.
Qed.

Lemma meta_of_footer_record m : FileProofs.meta_shape m -> meta_of_record (footer_record m) = m.
Proof.
  intro Hs. destruct m as [v sch nr gs cb]. unfold FileProofs.meta_shape in Hs. cbn [fm_groups fm_schema] in Hs.
  unfold meta_of_record, footer_record, slot_arr, slot_int, slot_bytes, nat_N, I.
  cbn [nth_error tl fm_version fm_schema fm_num_rows fm_groups fm_created_by].
  rewrite !N2Z.id, !map_map.
  assert (E : map (fun x => column_of_elem (as_rec (leaf_elem x))) sch = sch).
  { rewrite <- (map_id sch) at 2. apply map_ext. exact column_of_leaf. }
  rewrite E. f_equal.
  rewrite <- (map_id gs) at 2. apply map_ext_in. intros g Hin. rewrite Forall_forall in Hs. rewrite <- (Hs g Hin). apply group_of_rec.
Qed.

Theorem thrift_footer_roundtrip m : footer_dom m -> concrete_parse_footer (thrift_footer m) = Ok m.
Proof.
  intro D. destruct (file_metadata_roundtrip _ (footer_wf m D)) as (bs & W & _ & P).
  unfold thrift_footer. rewrite W, concrete_parse_footer_eq, P, (footer_norm m D). f_equal. apply meta_of_footer_record. exact (proj1 D).
Qed.

Lemma thrift_footer_length m : footer_dom m -> exists bs, write_file_metadata (footer_record m) = Ok bs /\ thrift_footer m = bs.
Proof.
  intro D. destruct (file_metadata_roundtrip _ (footer_wf m D)) as (bs & W & _). exists bs. split; [exact W|]. unfold thrift_footer. rewrite W. reflexivity.
Qed.

(** the footer encoder is injective on the writer's domain: different metadata never share a footer *)
Corollary thrift_footer_injective m1 m2 : footer_dom m1 -> footer_dom m2 -> thrift_footer m1 = thrift_footer m2 -> m1 = m2.
Proof.
  intros D1 D2 E. pose proof (thrift_footer_roundtrip m1 D1) as R1. rewrite E, (thrift_footer_roundtrip m2 D2) in R1.
  inversion R1. reflexivity.
Qed.
