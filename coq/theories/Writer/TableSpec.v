(** What a table IS, independently of any writer or reader model (properties C01 and C05).

    A flat schema is a list of leaf columns (name, physical type, REQUIRED / OPTIONAL, type length).
    A value is its raw bit pattern as a byte list in memory order (little-endian numbers): BOOLEAN one byte
    (0 or 1), INT32/FLOAT 4 bytes, INT64/DOUBLE 8 bytes, FIXED_LEN_BYTE_ARRAY [type_length] bytes,
    BYTE_ARRAY any length.  A row of a column is [None] (null) or [Some value].  A table is its schema and a
    list of NON-EMPTY row groups, each holding one list of rows per column, all of the same length.

    A write history is the sequence of public writer calls; [table_of] says which table a history denotes
    (exactly tools/filecase.expected_table): rows written between two [new_row_group] calls form a row group,
    a group without rows does not exist, an OPTIONAL column written without definition levels is
    all-present.  Imports no model. *)
From Coq Require Import NArith List Bool Arith.
Import ListNotations.
Local Open Scope N_scope.

Inductive ptype : Set := TBool | TInt32 | TInt64 | TFloat | TDouble | TByteArray | TFlba.
Inductive repetition : Set := Required | Optional.

Record column : Type := mkcol {
  c_name : list N;              (* bytes of the name *)
  c_type : ptype;
  c_rep : repetition;
  c_tlen : N                    (* FIXED_LEN_BYTE_ARRAY only *)
}.

Definition value := list N.
Definition row := option value.
Definition rowgroup := list (list row).          (* one list of rows per column *)

Record table : Type := mktable {
  t_schema : list column;
  t_groups : list rowgroup
}.

(** bytes per value; [None] = variable length *)
Definition width (t : ptype) (tlen : N) : option nat :=
  match t with
  | TBool => Some 1%nat
  | TInt32 | TFloat => Some 4%nat
  | TInt64 | TDouble => Some 8%nat
  | TFlba => Some (N.to_nat tlen)
  | TByteArray => None
  end.

Definition byte_ok (b : N) : bool := b <? 256.

Definition value_ok (c : column) (v : value) : bool :=
  forallb byte_ok v &&
  match c_type c with
  | TBool => match v with [b] => b <? 2 | _ => false end
  | TByteArray => N.of_nat (length v) <? 2 ^ 31
  | t => match width t (c_tlen c) with Some k => Nat.eqb (length v) k | None => true end
  end.

Definition row_ok (c : column) (r : row) : bool :=
  match r with
  | None => match c_rep c with Optional => true | Required => false end
  | Some v => value_ok c v
  end.

Definition column_ok (c : column) : bool :=
  match c_type c with TFlba => 0 <? c_tlen c | _ => true end.

(** ------------------------------------------------------------------ write histories *)

(** One [carquet_writer_write_batch(col, values, num_values, def_levels, NULL)] call as the caller sees
    it: the dense values (only the non-null rows), the number of rows and the definition levels (or NULL). *)
Record batch : Type := mkbatch {
  b_vals : list value;
  b_nrows : nat;
  b_defs : option (list N)
}.

Inductive wop : Type :=
| WBatch (col : nat) (b : batch)
| WNewRowGroup
| WClose.

(** flat record assembly under the dense convention: level = max means "next value", else null *)
Fixpoint assemble (maxdef : N) (defs : list N) (vals : list value) : list row :=
  match defs with
  | [] => []
  | d :: ds => if d =? maxdef
               then match vals with
                    | v :: vs => Some v :: assemble maxdef ds vs
                    | [] => None :: assemble maxdef ds []          (* ill-formed batch; excluded by batch_ok *)
                    end
               else None :: assemble maxdef ds vals
  end.

Definition max_def (c : column) : N := match c_rep c with Optional => 1 | Required => 0 end.

(** the rows a batch denotes *)
Definition rows_of_batch (c : column) (b : batch) : list row :=
  match c_rep c, b_defs b with
  | Optional, Some ds => assemble 1 ds (b_vals b)
  | _, _ => map Some (b_vals b)               (* REQUIRED, or OPTIONAL without definition levels: all present *)
  end.

Definition count_eq (x : N) (l : list N) : nat := length (filter (N.eqb x) l).

(** the batch is a consistent call: as many levels as rows, as many values as non-null rows *)
Definition batch_ok (c : column) (b : batch) : bool :=
  forallb (value_ok c) (b_vals b) &&
  match c_rep c, b_defs b with
  | Optional, Some ds => Nat.eqb (length ds) (b_nrows b) && forallb (fun d => d <? 2) ds
                         && Nat.eqb (count_eq 1 ds) (length (b_vals b))
  | _, _ => Nat.eqb (length (b_vals b)) (b_nrows b)
  end.

Fixpoint app_nth {A} (n : nat) (x : list A) (l : list (list A)) : list (list A) :=
  match l with
  | [] => []
  | y :: t => match n with O => (y ++ x) :: t | S n' => y :: app_nth n' x t end
  end.

Definition all_same_length {A} (g : list (list A)) : bool :=
  match g with
  | [] => true
  | c0 :: t => forallb (fun c => Nat.eqb (length c) (length c0)) t
  end.

Definition group_rows {A} (g : list (list A)) : nat := match g with [] => O | c0 :: _ => length c0 end.

(** state of the denotation: finished groups (reversed), the current group, whether a batch call touched it *)
Fixpoint table_go (sch : list column) (ops : list wop) (done : list rowgroup) (cur : rowgroup) (touched : bool)
  : option (list rowgroup) :=
  let close_group :=
    if touched then
      if all_same_length cur then Some (if Nat.eqb (group_rows cur) 0 then done else cur :: done) else None
    else Some done in
  match ops with
  | [] => None                                        (* a history that does not end with close denotes nothing *)
  | WBatch col b :: rest =>
      match nth_error sch col with
      | None => None
      | Some c => if batch_ok c b
                  then table_go sch rest done (app_nth col (rows_of_batch c b) cur) true
                  else None
      end
  | WNewRowGroup :: rest =>
      match close_group with
      | Some done' => table_go sch rest done' (map (fun _ => []) sch) false
      | None => None
      end
  | WClose :: _ =>
      match close_group with Some done' => Some (rev done') | None => None end
  end.

Definition table_of (sch : list column) (ops : list wop) : option table :=
  if forallb column_ok sch then
    match table_go sch ops [] (map (fun _ => []) sch) false with
    | Some gs => Some (mktable sch gs)
    | None => None
    end
  else None.

(** ------------------------------------------------------------------ what C01 compares *)
Definition num_rows (t : table) : nat := fold_right (fun g acc => (group_rows g + acc)%nat) O (t_groups t).
Definition null_positions (rs : list row) : list bool := map (fun r => match r with None => true | Some _ => false end) rs.

Example table_of_ex :
  let c := mkcol [99] TInt32 Optional 0 in
  table_of [c] [WBatch 0 (mkbatch [[1;0;0;0]] 2 (Some [1;0])); WBatch 0 (mkbatch [[2;0;0;0]] 1 None);
                WNewRowGroup; WNewRowGroup; WBatch 0 (mkbatch [] 1 (Some [0])); WClose]
  = Some (mktable [c] [ [[Some [1;0;0;0]; None; Some [2;0;0;0]]]; [[None]] ]).
Proof. vm_compute. reflexivity. Qed.
