(** C01, file layer: the whole write history against the whole read-back.

      [open_written]          the file the writer closes is located and handed to the footer parser as written
      [finalize_columns_spec] the chunks of a flushed row group lie where their metadata says and read back
      [FInv], [run_ops_spec]  the writer state follows the table denotation of the history (TableSpec.table_go)
      [write_read_roundtrip]  every call OK, and reading the file back yields the table the history denotes

    Section hypotheses (named in the trusted base): codec round trip, page-header parse/encode round trip, footer
    parse/encode round trip (C13 / C09 for carquet's own code; zlib and zstd are external). *)
From Coq Require Import NArith ZArith Arith List Bool Lia.
From Carquet Require Import Base.Res Gen.Enums_gen Gen.Writer_gen Enc.DeltaBits
  Writer.TableSpec Writer.PageWriterModel Writer.ColumnWriterModel Writer.FileWriterModel
  Reader.PageDecodeModel Reader.ReadAllModel Reader.FooterModel Reader.FooterProofs
  Writer.WriterProofs Writer.ChunkProofs.
Import ListNotations.
Local Open Scope N_scope.

(* ------------------------------------------------------------------ lists *)

Lemma nth_error_set_nth_eq {A} : forall (l : list A) i x, (i < length l)%nat ->
  nth_error (FileWriterModel.set_nth i x l) i = Some x.
Proof.
  induction l as [|y l IH]; intros i x H; [cbn in H; lia|].
  destruct i; [reflexivity|]. cbn [FileWriterModel.set_nth nth_error]. apply IH. cbn in H. lia.
Qed.

Lemma nth_error_set_nth_neq {A} : forall (l : list A) i j x, i <> j ->
  nth_error (FileWriterModel.set_nth i x l) j = nth_error l j.
Proof.
  induction l as [|y l IH]; intros i j x H; [destruct i; reflexivity|].
  destruct i, j; try reflexivity; [contradiction|]. cbn [FileWriterModel.set_nth nth_error]. apply IH. lia.
Qed.

Lemma set_nth_length {A} : forall (l : list A) i x, length (FileWriterModel.set_nth i x l) = length l.
Proof. induction l as [|y l IH]; intros [|i] x; cbn; try reflexivity. f_equal. apply IH. Qed.

Lemma nth_error_app_nth_eq {A} : forall (l : list (list A)) i x r, nth_error l i = Some r ->
  nth_error (app_nth i x l) i = Some (r ++ x).
Proof.
  induction l as [|y l IH]; intros i x r H; [destruct i; discriminate|].
  destruct i; [cbn in *; inversion H; reflexivity|]. cbn [app_nth nth_error] in *. apply IH, H.
Qed.

Lemma nth_error_app_nth_neq {A} : forall (l : list (list A)) i j x, i <> j ->
  nth_error (app_nth i x l) j = nth_error l j.
Proof.
  induction l as [|y l IH]; intros i j x H; [destruct i; reflexivity|].
  destruct i, j; try reflexivity; [contradiction|]. cbn [app_nth nth_error]. apply IH. lia.
Qed.

Lemma app_nth_length {A} : forall (l : list (list A)) i x, length (app_nth i x l) = length l.
Proof. induction l as [|y l IH]; intros [|i] x; cbn; try reflexivity. f_equal. apply IH. Qed.

Lemma Forall2_nth {A B} (R : A -> B -> Prop) : forall l1 l2,
  Forall2 R l1 l2 <-> (length l1 = length l2 /\
                      forall i a b, nth_error l1 i = Some a -> nth_error l2 i = Some b -> R a b).
Proof.
  induction l1 as [|x l1 IH]; intros l2; split.
  - intros H. inversion H. split; [reflexivity|]. intros [|i]; discriminate.
  - intros [H _]. destruct l2; [constructor|discriminate].
  - intros H. inversion H as [|? y ? l2' Hxy Hr]; subst. apply IH in Hr. destruct Hr as [Hl Hn].
    split; [cbn; lia|]. intros [|i] a b Ha Hb; cbn in *; [inversion Ha; inversion Hb; subst; exact Hxy|].
    eapply Hn; eassumption.
  - intros [Hl Hn]. destruct l2 as [|y l2]; [discriminate|]. constructor.
    + apply (Hn 0%nat); reflexivity.
    + apply IH. split; [cbn in Hl; lia|]. intros i a b Ha Hb. apply (Hn (S i)); assumption.
Qed.

Lemma Forall2_impl' {A B} (R1 R2 : A -> B -> Prop) l1 l2 :
  (forall a b, R1 a b -> R2 a b) -> Forall2 R1 l1 l2 -> Forall2 R2 l1 l2.
Proof. intros H F. induction F; constructor; auto. Qed.

Lemma Forall2_len {A B} (R : A -> B -> Prop) l1 l2 : Forall2 R l1 l2 -> length l1 = length l2.
Proof. intros F. induction F; cbn; [reflexivity|f_equal; assumption]. Qed.

Lemma nth_error_combine {A B} : forall (l1 : list A) (l2 : list B) i,
  nth_error (combine l1 l2) i = match nth_error l1 i, nth_error l2 i with
                                | Some a, Some b => Some (a, b) | _, _ => None end.
Proof.
  induction l1 as [|x l1 IH]; intros l2 i; [destruct i; reflexivity|].
  destruct l2 as [|y l2]; [destruct i; cbn; [reflexivity|destruct (nth_error l1 i); reflexivity]|].
  destruct i; [reflexivity|]. cbn [combine nth_error]. apply IH.
Qed.

(* ------------------------------------------------------------------ opening the written file *)

Lemma le_val_le_num bs : FooterModel.le_val bs = le_num_f bs.
Proof. induction bs as [|b t IH]; [reflexivity|]. cbn [FooterModel.le_val le_num_f]. rewrite IH. reflexivity. Qed.

Lemma magic_eq : FooterModel.magic = FileWriterModel.magic.
Proof. reflexivity. Qed.

(** tie (a): the magic the model writes is the one regenerated from file_writer.c *)
Example magic_tied : FileWriterModel.magic = Gen.Writer_gen.Writer_MAGIC.
Proof. reflexivity. Qed.

Lemma skipn_app_exact {A} (a b : list A) n : n = length a -> skipn n (a ++ b) = b.
Proof. intros ->. rewrite skipn_app, skipn_all, Nat.sub_diag. reflexivity. Qed.

Lemma firstn_app_exact {A} (a b : list A) n : n = length a -> firstn n (a ++ b) = a.
Proof. intros ->. rewrite firstn_app, Nat.sub_diag, firstn_O, app_nil_r, firstn_all. reflexivity. Qed.

Section Open.
  Variable meta : Type.
  Variable parse : list N -> res meta.

  Notation wmagic := FileWriterModel.magic.

  (** a file of the shape the writer produces is opened by parsing exactly its footer bytes *)
  Lemma open_written data ft : len ft < 2 ^ 32 ->
    FooterModel.open meta parse Buffer (wmagic ++ data ++ ft ++ le32 (len ft) ++ wmagic) = parse ft.
  Proof.
    intros Hft. set (f := wmagic ++ data ++ ft ++ le32 (len ft) ++ wmagic).
    assert (Lf : length f = (4 + length data + length ft + 4 + 4)%nat).
    { unfold f. rewrite !app_length, le32_length. cbn [wmagic length]. lia. }
    assert (F1 : f = (wmagic ++ data ++ ft ++ le32 (len ft)) ++ wmagic) by (unfold f; rewrite <- !app_assoc; reflexivity).
    assert (F2 : f = (wmagic ++ data ++ ft) ++ le32 (len ft) ++ wmagic) by (unfold f; rewrite <- !app_assoc; reflexivity).
    assert (F3 : f = (wmagic ++ data) ++ ft ++ le32 (len ft) ++ wmagic) by (unfold f; rewrite <- !app_assoc; reflexivity).
    assert (Tail : skipn (length f - 4) f = FooterModel.magic).
    { rewrite F1 at 2. apply skipn_app_exact. rewrite Lf, !app_length, le32_length. cbn [wmagic length]. lia. }
    assert (Flen : footer_len f = len ft).
    { unfold footer_len. rewrite F2 at 2. rewrite skipn_app_exact by (rewrite Lf, !app_length; cbn [wmagic length]; lia).
      rewrite firstn_app_exact by (rewrite le32_length; reflexivity).
      rewrite le_val_le_num. unfold le32. rewrite N.mod_small by exact Hft.
      rewrite le_num_f_eq, le_bytes_f_eq. apply le_num_bytes. change (256 ^ N.of_nat 4) with (2 ^ 32). exact Hft. }
    unfold FooterModel.open.
    destruct (open_stage_cases Buffer f) as [[Hn _]|[[_ [_ [Hh _]]]|[[_ [_ [Ht _]]]|[[_ [_ [_ [Hl _]]]]|[_ [_ [_ [_ Hs]]]]]]]].
    - cbv zeta in Hn. lia.
    - exfalso. apply Hh. reflexivity.
    - exfalso. apply Ht. exact Tail.
    - exfalso. rewrite Flen in Hl. unfold len in Hl. lia.
    - rewrite Hs. f_equal. unfold region. rewrite Flen. unfold len at 1 2. rewrite Nat2N.id.
      rewrite F3. rewrite skipn_app_exact by (rewrite <- F3, Lf, app_length; cbn [wmagic length]; lia).
      apply firstn_app_exact. reflexivity.
  Qed.
End Open.

(* ------------------------------------------------------------------ the domain of the footer *)

(** What the footer encoder and parser have to agree on: the metadata the writer builds (one chunk per schema
    column, in order) with every number inside the Thrift field that carries it and names that are C strings. *)
Definition name_ok (n : list N) : Prop := Forall (fun b => 0 < b < 256) n /\ len n < 2 ^ 31.
Definition col_small (c : column) : Prop := name_ok (c_name c) /\ c_tlen c < 2 ^ 31.
Definition chunk_small (cm : chunk_meta) : Prop :=
  (- 2 ^ 31 <= cm_codec cm < 2 ^ 31)%Z /\ cm_file_offset cm < 2 ^ 63 /\ cm_num_values cm < 2 ^ 63 /\
  cm_total_compressed cm < 2 ^ 63 /\ cm_total_uncompressed cm < 2 ^ 63.
Definition group_small (g : rg_meta) : Prop :=
  Forall chunk_small (rg_chunks g) /\ rg_num_rows g < 2 ^ 63 /\ rg_total_byte_size g < 2 ^ 63 /\
  rg_file_offset g < 2 ^ 63 /\ rg_total_compressed g < 2 ^ 63 /\
  match rg_ordinal g with Some n => n <= 32767 | None => True end.
Definition meta_small (m : file_meta) : Prop :=
  fm_version m < 2 ^ 31 /\ Forall col_small (fm_schema m) /\
  len (fm_schema m) + 1 <= MAX_SCHEMA_ELEMENTS /\ len (fm_schema m) <= MAX_COLUMNS_PER_RG /\
  fm_num_rows m < 2 ^ 63 /\ Forall group_small (fm_groups m) /\ len (fm_groups m) <= MAX_ROW_GROUPS /\
  name_ok (fm_created_by m).
Definition meta_shape (m : file_meta) : Prop :=
  Forall (fun g => map cm_col (rg_chunks g) = fm_schema m) (fm_groups m).
Definition footer_dom (m : file_meta) : Prop := meta_shape m /\ meta_small m.

(** new_row_group calls of a history: each can start one more row group *)
Fixpoint newrgs (ops : list wop) : nat :=
  match ops with
  | [] => O
  | WNewRowGroup :: t => S (newrgs t)
  | _ :: t => newrgs t
  end.

Lemma map_fst_combine {A B} : forall (a : list A) (b : list B), length a = length b -> map fst (combine a b) = a.
Proof.
  induction a as [|x a IH]; intros b H; [reflexivity|]. destruct b as [|y b]; [discriminate|].
  cbn [combine map fst]. f_equal. apply IH. cbn in H. lia.
Qed.

(* ------------------------------------------------------------------ the file writer *)

Section File.
  Variable compress : list N -> list N.
  Variable decompress : list N -> N -> res (list N).
  Variable header : page_hdr -> list N.
  Variable parse_header : list N -> res (hdr_core * N).
  Variable footer : file_meta -> list N.
  Variable parse_footer : list N -> res file_meta.
  Variable verify : bool.
  Variable sch : list column.
  Variable opts : options.

  Notation codec := (o_codec opts).

  Hypothesis codec_uncompressed : Z.eqb codec E_CARQUET_COMPRESSION_UNCOMPRESSED = true -> forall b, compress b = b.
  Hypothesis codec_roundtrip : Z.eqb codec E_CARQUET_COMPRESSION_UNCOMPRESSED = false ->
    forall b, is_bytes b -> len b < 2 ^ 31 -> decompress (compress b) (len b) = Ok b.
  Hypothesis compress_bytes : forall b, is_bytes b -> len b < 2 ^ 31 -> is_bytes (compress b).
  Hypothesis header_roundtrip : forall h rest, hdr_ok h ->
    parse_header (header h ++ rest) = Ok (core_of h, len (header h)).
  Hypothesis header_small : forall h, hdr_ok h -> len (header h) <= 256.
  Hypothesis header_nonempty : forall h, hdr_ok h -> 0 < len (header h).
  Hypothesis footer_roundtrip : forall m, footer_dom m -> parse_footer (footer m) = Ok m.
  Hypothesis sch_ok : forallb column_ok sch = true.

  Notation read_chunk := (ReadAllModel.read_chunk codec decompress parse_header verify).
  Notation CInv := (CInv compress header).

  (** the chunk described by [cm] can be read from [out], and from every extension of [out] *)
  Definition chunk_at (out : list N) (cm : chunk_meta) (c : column) (rows : list row) : Prop :=
    c_type (cm_col cm) = c_type c /\
    forall more, read_chunk (S (length (out ++ more))) c (out ++ more) (cm_file_offset cm) (cm_num_values cm) = Ok rows.

  Lemma chunk_at_app out more cm c rows : chunk_at out cm c rows -> chunk_at (out ++ more) cm c rows.
  Proof. intros [T R]. split; [exact T|]. intros m. rewrite <- app_assoc. apply R. Qed.

  Definition small_chunk (cm : chunk_meta) : Prop :=
    cm_num_values cm < 2 ^ 31 /\ cm_total_uncompressed cm < 2 ^ 31 /\ cm_total_compressed cm < 2 ^ 31.

  (** a column writer of the current row group holds exactly [rows] *)
  Definition ColOK (cwr : cw) (cr : column * list row) : Prop :=
    exists ps rss pend, CInv (fst cr) cwr ps rss pend /\ concat rss ++ pend = snd cr.

  Lemma finalize_columns_spec : forall cws crs pre, Forall2 ColOK cws crs ->
    Forall (fun cr => column_ok (fst cr) = true) crs ->
    forall data metas tot, finalize_columns compress header codec cws (len pre) = (data, metas, tot) ->
    length metas = length crs /\
    data = concat (map (fun cwr => w_buf (cw_finalize compress header cwr)) cws) /\
    map cm_col metas = map fst crs /\
    (Forall small_chunk metas ->
     Forall2 (fun cm cr => chunk_at (pre ++ data) cm (fst cr) (snd cr)) metas crs).
  Proof.
    intros cws crs pre H. revert pre. induction H as [|cwr cr cws crs Hc Hr IH]; intros pre Hok data metas tot E.
    - cbn in E. inversion E; subst. repeat split; constructor.
    - inversion Hok as [|? ? Hcok Hoks]; subst.
      cbn [finalize_columns] in E.
      set (f := cw_finalize compress header cwr) in *.
      replace (len pre + len (w_buf f)) with (len (pre ++ w_buf f)) in E by apply len_app'.
      destruct (finalize_columns compress header codec cws (len (pre ++ w_buf f))) as [[data' metas'] tot'] eqn:E'.
      inversion E; subst data metas tot. clear E.
      destruct (IH (pre ++ w_buf f) Hoks data' metas' tot' E') as (Hl & Hd & Hm & Hs).
      destruct Hc as (ps & rss & pend & I & R).
      assert (Ecol0 : p_col (w_page f) = fst cr).
      { destruct (cw_finalize_inv compress header (fst cr) cwr ps rss pend I) as (ps' & rss' & I' & _).
        exact (pi_col _ _ _ (ci_page _ _ _ _ _ _ _ I')). }
      split; [cbn [length]; lia|]. split; [cbn [map concat]; rewrite Hd; reflexivity|].
      split; [cbn [map cm_col]; rewrite Ecol0, Hm; reflexivity|].
      intros Hsm. inversion Hsm as [|? ? (Bv & Bu & Bc) Hsm']; subst.
      cbn [cm_num_values cm_total_uncompressed cm_total_compressed] in Bv, Bu, Bc.
      destruct (chunk_roundtrip_inv codec compress decompress header parse_header verify
                  codec_uncompressed codec_roundtrip compress_bytes header_roundtrip header_small header_nonempty
                  (fst cr) cwr ps rss pend Hcok I Bv Bu Bc) as (Ecol & Ev & Rd).
      fold f in Ecol, Ev, Rd.
      constructor.
      + split; [cbn [cm_col]; rewrite Ecol; reflexivity|].
        intros more. cbn [cm_file_offset cm_num_values]. rewrite <- R.
        rewrite <- !app_assoc. apply Rd. rewrite !app_length. lia.
      + specialize (Hs Hsm'). rewrite <- app_assoc in Hs. exact Hs.
  Qed.

  (* ---------------------------------------------------------------- the invariant of a write history *)

  Definition nonempty (g : rowgroup) : bool := negb (Nat.eqb (group_rows g) 0).
  Definition sum_rows (gs : list rowgroup) : nat := fold_right (fun g acc => (group_rows g + acc)%nat) O gs.
  Definition empty_group : rowgroup := map (fun _ : column => @nil row) sch.

  (** a finished row group of the file against the rows it must hold *)
  Definition GroupOK (out : list N) (g : rg_meta) (rg : rowgroup) : Prop :=
    rg_num_rows g = N.of_nat (group_rows rg) /\ length rg = length sch /\ map cm_col (rg_chunks g) = sch /\
    (Forall small_chunk (rg_chunks g) ->
     Forall2 (fun cm cr => chunk_at out cm (fst cr) (snd cr)) (rg_chunks g) (combine sch rg)).

  Record FInv (w : fw) (allg : list rowgroup) (cur : rowgroup) (touched : bool) : Prop := mkFInv {
    fi_sch : f_schema w = sch;
    fi_opts : f_opts w = opts;
    fi_groups : Forall2 (GroupOK (f_out w)) (f_groups w) allg;
    fi_rows : f_total_rows w = N.of_nat (sum_rows allg);
    fi_curlen : length cur = length sch;
    fi_cur : if touched
             then exists cws, f_cur w = Some cws /\ Forall2 ColOK cws (combine sch cur)
                              /\ f_cur_rows w = N.of_nat (group_rows cur) /\ f_header_written w = true
             else f_cur w = None /\ cur = empty_group;
    fi_hdr : if f_header_written w
             then f_offset w = len (f_out w) /\ exists data, f_out w = magic ++ data
             else f_out w = [] /\ f_groups w = [] /\ f_cur w = None
  }.

  Lemma finv_init : FInv (fw_init sch opts) [] empty_group false.
  Proof.
    constructor; cbn; auto; try constructor. unfold empty_group. apply map_length.
  Qed.

  Lemma ensure_header_inv w allg cur touched : FInv w allg cur touched ->
    FInv (ensure_header w) allg cur touched /\ f_header_written (ensure_header w) = true.
  Proof.
    intros I. unfold ensure_header. destruct (f_header_written w) eqn:H; [split; [exact I|exact H]|].
    destruct I as [I1 I2 I3 I4 I5 I6 I7]. rewrite H in I7. destruct I7 as (Ho & Hg & Hc).
    split; [|reflexivity]. constructor; cbn [f_schema f_opts f_groups f_total_rows f_cur f_cur_rows f_header_written f_out f_offset];
      try assumption.
    - rewrite Hg in *. inversion I3. constructor.
    - destruct touched; [destruct I6 as (cws & E & _); rewrite Hc in E; discriminate|exact I6].
    - rewrite Ho. split; [reflexivity|]. exists []. reflexivity.
  Qed.

  Lemma combine_empty_cols_gen (l : list column) :
    Forall2 ColOK (map (fun c => cw_init c (o_page_size opts)) l) (combine l (map (fun _ : column => @nil row) l)).
  Proof.
    induction l as [|c l IH]; [constructor|]. cbn [map combine]. constructor; [|exact IH].
    exists [], [], []. split; [apply cinv_init|reflexivity].
  Qed.

  Lemma combine_empty_cols : Forall2 ColOK (map (fun c => cw_init c (o_page_size opts)) sch) (combine sch empty_group).
  Proof. apply combine_empty_cols_gen. Qed.

  Lemma group_rows_app_nth (cur : rowgroup) col x : (0 < length cur)%nat ->
    group_rows (app_nth col x cur) = if Nat.eqb col 0 then (group_rows cur + length x)%nat else group_rows cur.
  Proof.
    destruct cur as [|c0 t]; [cbn; lia|]. intros _. destruct col; cbn [app_nth group_rows Nat.eqb]; [apply app_length|reflexivity].
  Qed.

  (** carquet_writer_write_batch on a consistent call *)
  Lemma write_batch_inv w allg cur touched col c b : FInv w allg cur touched ->
    N.of_nat (length allg) < MAX_ROW_GROUPS ->
    nth_error sch col = Some c -> batch_ok c b = true ->
    exists w', fw_write_batch compress header w col b = Ok (w', OK)
               /\ FInv w' allg (app_nth col (rows_of_batch c b) cur) true.
  Proof.
    intros I Hlim Hc Hb. unfold fw_write_batch.
    assert (Hlt : (col < length sch)%nat) by (apply nth_error_Some; rewrite Hc; discriminate).
    rewrite (fi_sch _ _ _ _ I).
    assert (E0 : Nat.leb (length sch) col = false) by (apply Nat.leb_gt; exact Hlt). rewrite E0.
    assert (Elim : match f_cur w with None => MAX_ROW_GROUPS <=? len (f_groups w) | Some _ => false end = false).
    { destruct (f_cur w); [reflexivity|]. apply N.leb_gt. unfold len.
      rewrite (Forall2_len _ _ _ (fi_groups _ _ _ _ I)). exact Hlim. }
    rewrite Elim.
    destruct (ensure_header_inv w allg cur touched I) as [I1 Hh].
    set (w0 := ensure_header w) in *.
    (* the row group exists after ensure_row_group *)
    assert (RG : exists cws, f_cur (ensure_row_group w0) = Some cws /\ Forall2 ColOK cws (combine sch cur)
                  /\ f_cur_rows (ensure_row_group w0) = N.of_nat (group_rows cur)
                  /\ f_schema (ensure_row_group w0) = sch /\ f_opts (ensure_row_group w0) = opts
                  /\ f_groups (ensure_row_group w0) = f_groups w0 /\ f_offset (ensure_row_group w0) = f_offset w0
                  /\ f_total_rows (ensure_row_group w0) = f_total_rows w0
                  /\ f_header_written (ensure_row_group w0) = true /\ f_out (ensure_row_group w0) = f_out w0).
    { unfold ensure_row_group. pose proof (fi_cur _ _ _ _ I1) as C. destruct touched.
      - destruct C as (cws & E & F & R & _). rewrite E. exists cws.
        repeat split; try assumption; try reflexivity; [apply (fi_sch _ _ _ _ I1)|apply (fi_opts _ _ _ _ I1)].
      - destruct C as [E Ec]. rewrite E. eexists. cbn [f_cur f_cur_rows f_schema f_opts f_groups f_offset f_total_rows f_header_written f_out].
        rewrite (fi_sch _ _ _ _ I1), (fi_opts _ _ _ _ I1), Ec.
        repeat split; try reflexivity; [apply combine_empty_cols| |exact Hh].
        unfold empty_group. destruct sch; reflexivity. }
    destruct RG as (cws & Ecur & Fcols & Rows & S1 & S2 & S3 & S4 & S5 & S6 & S7).
    rewrite Ecur.
    apply Forall2_nth in Fcols. destruct Fcols as [Lc Nc].
    assert (Lcur : length cur = length sch) by apply (fi_curlen _ _ _ _ I).
    assert (Lcomb : length (combine sch cur) = length sch) by (rewrite combine_length; lia).
    destruct (nth_error cws col) as [cwr|] eqn:En; [|apply nth_error_None in En; lia].
    destruct (nth_error cur col) as [rows|] eqn:Er; [|apply nth_error_None in Er; lia].
    assert (Ecomb : nth_error (combine sch cur) col = Some (c, rows)) by (rewrite nth_error_combine, Hc, Er; reflexivity).
    destruct (Nc col cwr (c, rows) En Ecomb) as (ps & rss & pend & Ic & Rc). cbn [fst snd] in Ic, Rc.
    destruct (cw_write_batch_inv compress header c cwr ps rss pend b Ic Hb) as (cwr' & ps' & rss' & pend' & Ew & Ic' & Rc').
    rewrite Ew. eexists. split; [reflexivity|].
    constructor; cbn [f_schema f_opts f_groups f_total_rows f_cur f_cur_rows f_header_written f_out f_offset].
    - exact S1.
    - exact S2.
    - rewrite S3, S7. apply (fi_groups _ _ _ _ I1).
    - rewrite S5. apply (fi_rows _ _ _ _ I1).
    - rewrite app_nth_length. exact Lcur.
    - eexists. split; [reflexivity|]. split; [|split; [|exact S6]].
      + apply Forall2_nth. split; [rewrite set_nth_length, combine_length, app_nth_length; lia|].
        intros i a [ci ri] Ha Hb'. rewrite nth_error_combine in Hb'.
        destruct (Nat.eq_dec col i) as [<-|Hne].
        * rewrite nth_error_set_nth_eq in Ha by lia. inversion Ha; subst a.
          rewrite Hc, (nth_error_app_nth_eq cur col _ rows Er) in Hb'. inversion Hb'; subst ci ri.
          exists ps', rss', pend'. cbn [fst snd]. split; [exact Ic'|]. rewrite Rc', <- Rc, app_assoc. reflexivity.
        * rewrite nth_error_set_nth_neq in Ha by exact Hne. rewrite nth_error_app_nth_neq in Hb' by exact Hne.
          apply (Nc i a (ci, ri) Ha). rewrite nth_error_combine. exact Hb'.
      + rewrite Rows. rewrite group_rows_app_nth by lia. rewrite rows_of_batch_length by exact Hb.
        destruct (Nat.eqb col 0); lia.
    - rewrite S6, S4, S7. pose proof (fi_hdr _ _ _ _ I1) as Hd. rewrite Hh in Hd. exact Hd.
  Qed.

  Lemma sum_rows_snoc allg g : sum_rows (allg ++ [g]) = (sum_rows allg + group_rows g)%nat.
  Proof. induction allg as [|a l IH]; cbn [app sum_rows fold_right] in *; [lia|]. fold (sum_rows (l ++ [g])) (sum_rows l). lia. Qed.

  (** flush_row_group after ensure_header *)
  Lemma flush_inv w allg cur touched : FInv w allg cur touched -> f_header_written w = true ->
    if touched
    then FInv (flush_row_group compress header w) (allg ++ [cur]) empty_group false
    else flush_row_group compress header w = w.
  Proof.
    intros I Hh. unfold flush_row_group. pose proof (fi_cur _ _ _ _ I) as C. destruct touched.
    - destruct C as (cws & E & Fc & R & _). rewrite E, (fi_opts _ _ _ _ I).
      pose proof (fi_hdr _ _ _ _ I) as Hd. rewrite Hh in Hd. destruct Hd as [Ho [data0 Eo]].
      rewrite Ho.
      destruct (finalize_columns compress header codec cws (len (f_out w))) as [[data metas] tot] eqn:Ef.
      assert (Hok : Forall (fun cr : column * list row => column_ok (fst cr) = true) (combine sch cur)).
      { apply Forall_forall. intros [c r] Hin. apply in_combine_l in Hin. cbn [fst].
        rewrite forallb_forall in sch_ok. apply sch_ok, Hin. }
      destruct (finalize_columns_spec cws (combine sch cur) (f_out w) Fc Hok data metas tot Ef) as (Hl & Hdata & Hcols & Hs).
      rewrite map_fst_combine in Hcols by (symmetry; apply (fi_curlen _ _ _ _ I)).
      constructor; cbn [f_schema f_opts f_groups f_total_rows f_cur f_cur_rows f_header_written f_out f_offset].
      + apply (fi_sch _ _ _ _ I).
      + reflexivity.
      + apply Forall2_app.
        * eapply Forall2_impl'; [|apply (fi_groups _ _ _ _ I)]. intros g rg (G1 & G2 & G2' & G3). repeat split; try assumption.
          intros Hsm. specialize (G3 Hsm). eapply Forall2_impl'; [|exact G3]. intros cm cr. apply chunk_at_app.
        * constructor; [|constructor]. repeat split; cbn [rg_num_rows rg_chunks];
            [exact R|apply (fi_curlen _ _ _ _ I)|exact Hcols|exact Hs].
      + rewrite (fi_rows _ _ _ _ I), R, sum_rows_snoc. lia.
      + unfold empty_group. apply map_length.
      + split; reflexivity.
      + rewrite Hh. split; [rewrite len_app'; reflexivity|]. exists (data0 ++ data). rewrite Eo, app_assoc. reflexivity.
    - destruct C as [E _]. rewrite E. reflexivity.
  Qed.

  (* ---------------------------------------------------------------- reading the groups back *)

  Lemma ptype_eqb_refl t : ptype_eqb t t = true.
  Proof. destruct t; reflexivity. Qed.

  Lemma read_columns_spec out more : forall sch' metas rg, length rg = length sch' ->
    Forall2 (fun cm cr => chunk_at out cm (fst cr) (snd cr)) metas (combine sch' rg) ->
    read_columns codec decompress parse_header verify (out ++ more) sch' metas = Ok rg.
  Proof.
    induction sch' as [|c sch' IH]; intros metas rg Hl F.
    - destruct rg; [reflexivity|discriminate].
    - destruct rg as [|r rg]; [discriminate|]. cbn [combine] in F.
      inversion F as [|cm ? metas' ? [Ht Hr] F']; subst. cbn [fst snd] in Ht, Hr.
      cbn [read_columns]. rewrite Ht, ptype_eqb_refl. cbn [negb]. rewrite Hr.
      rewrite (IH metas' rg) by (cbn in Hl; try lia; exact F'). reflexivity.
  Qed.

  Lemma read_groups_spec out more : forall gs allg, Forall2 (GroupOK out) gs allg ->
    Forall (fun g => Forall small_chunk (rg_chunks g)) gs ->
    read_groups codec decompress parse_header verify (out ++ more) sch gs
    = Ok (map (fun rg => (N.of_nat (group_rows rg), rg)) allg).
  Proof.
    intros gs allg F. induction F as [|g rg gs allg (G1 & G2 & _ & G3) F IH]; intros Hs; [reflexivity|].
    inversion Hs as [|? ? Hg Hs']; subst. cbn [read_groups map].
    rewrite (read_columns_spec out more sch (rg_chunks g) rg G2 (G3 Hg)). rewrite (IH Hs'), G1. reflexivity.
  Qed.

  Lemma filter_nonempty_map allg :
    filter (fun g : N * list (list row) => negb (fst g =? 0)) (map (fun rg => (N.of_nat (group_rows rg), rg)) allg)
    = map (fun rg => (N.of_nat (group_rows rg), rg)) (filter nonempty allg).
  Proof.
    induction allg as [|g l IH]; [reflexivity|]. cbn [map filter fst]. unfold nonempty at 1.
    destruct (Nat.eqb_spec (group_rows g) 0) as [E|E].
    - rewrite E. cbn [N.of_nat N.eqb negb]. exact IH.
    - assert (N.of_nat (group_rows g) =? 0 = false) as -> by (apply N.eqb_neq; lia). cbn [negb map]. rewrite IH. reflexivity.
  Qed.

  Lemma sum_rows_filter allg : sum_rows (filter nonempty allg) = sum_rows allg.
  Proof.
    induction allg as [|g l IH]; [reflexivity|]. cbn [filter sum_rows fold_right]. unfold nonempty at 1.
    destruct (Nat.eqb_spec (group_rows g) 0) as [E|E]; cbn [negb sum_rows fold_right]; fold (sum_rows l);
      fold (sum_rows (filter nonempty l)); lia.
  Qed.

  (* ---------------------------------------------------------------- a whole history *)

  Definition created_by : list N := match o_created_by opts with Some s => s | None => carquet_name end.

  (** the closed file *)
  Definition Closed (w : fw) (allg : list rowgroup) : Prop :=
    f_schema w = sch /\ f_opts w = opts /\
    f_total_rows w = N.of_nat (sum_rows allg) /\
    Forall2 (GroupOK (f_out w)) (f_groups w) allg /\
    exists data, let m := mkfm footer_version sch (N.of_nat (sum_rows allg)) (f_groups w) created_by in
                 f_out w = magic ++ data ++ footer m ++ le32 (len (footer m)) ++ magic.

  Lemma flush_keeps_header w : f_header_written (flush_row_group compress header w) = f_header_written w.
  Proof.
    unfold flush_row_group. destruct (f_cur w); [|reflexivity].
    destruct (finalize_columns _ _ _ _ _) as [[? ?] ?]. reflexivity.
  Qed.

  Lemma close_inv w allg cur touched : FInv w allg cur touched ->
    (touched = true -> all_same_length cur = true) ->
    Closed (fw_close compress header footer w) (if touched then allg ++ [cur] else allg).
  Proof.
    intros I _. unfold fw_close.
    destruct (ensure_header_inv w allg cur touched I) as [I1 Hh].
    pose proof (flush_inv (ensure_header w) allg cur touched I1 Hh) as Fl.
    assert (I2 : FInv (flush_row_group compress header (ensure_header w)) (if touched then allg ++ [cur] else allg)
                      empty_group false).
    { destruct touched; [exact Fl|]. rewrite Fl. destruct (fi_cur _ _ _ _ I1) as [_ Ec]. rewrite <- Ec. exact I1. }
    set (w1 := flush_row_group compress header (ensure_header w)) in *.
    set (ag := if touched then allg ++ [cur] else allg) in *.
    assert (Hh1 : f_header_written w1 = true) by (unfold w1; rewrite flush_keeps_header; exact Hh).
    pose proof (fi_hdr _ _ _ _ I2) as Hd. rewrite Hh1 in Hd. destruct Hd as [_ [data Eo]].
    unfold Closed. cbn [f_out f_groups f_total_rows f_schema f_opts].
    split; [apply (fi_sch _ _ _ _ I2)|]. split; [apply (fi_opts _ _ _ _ I2)|].
    split; [apply (fi_rows _ _ _ _ I2)|]. split.
    - eapply Forall2_impl'; [|apply (fi_groups _ _ _ _ I2)]. intros g rg (G1 & G2 & G2' & G3). repeat split; try assumption.
      intros Hsm. specialize (G3 Hsm). eapply Forall2_impl'; [|exact G3]. intros cm cr. apply chunk_at_app.
    - exists data. cbv zeta. unfold metadata_of. rewrite (fi_sch _ _ _ _ I2), (fi_rows _ _ _ _ I2), (fi_opts _ _ _ _ I2).
      fold created_by. rewrite Eo, <- app_assoc. reflexivity.
  Qed.

  Lemma all_ok_snoc acc : forallb (Z.eqb OK) acc = true -> all_ok (rev (OK :: acc)) = true.
  Proof.
    intros H. unfold all_ok. cbn [rev]. rewrite forallb_app. cbn [forallb]. rewrite Z.eqb_refl.
    rewrite andb_true_r. rewrite forallb_forall in *. intros x Hx. apply H, in_rev, Hx.
  Qed.

  Lemma filter_nonempty_snoc allg cur done : filter nonempty allg = rev done ->
    filter nonempty (allg ++ [cur]) = rev (if Nat.eqb (group_rows cur) 0 then done else cur :: done).
  Proof.
    intros H. rewrite filter_app, H. cbn [filter]. unfold nonempty.
    destruct (Nat.eqb (group_rows cur) 0); cbn [negb rev]; [apply app_nil_r|reflexivity].
  Qed.

  (** the writer follows the denotation of the history *)
  Lemma run_ops_spec : forall ops w allg cur touched done acc gs,
    FInv w allg cur touched -> filter nonempty allg = rev done -> forallb (Z.eqb OK) acc = true ->
    N.of_nat (length allg + S (newrgs ops)) <= MAX_ROW_GROUPS ->
    table_go sch ops done cur touched = Some gs ->
    exists sts w' allg', run_ops compress header footer w ops acc = Ok (sts, w', true)
                         /\ all_ok sts = true /\ filter nonempty allg' = gs /\ Closed w' allg'.
  Proof.
    induction ops as [|op ops IH]; intros w allg cur touched done acc gs I Hf Ha Hlim Ht; [discriminate|].
    destruct op as [col b| |].
    - (* write_batch *)
      cbn [table_go] in Ht. destruct (nth_error sch col) as [c|] eqn:Ec; [|discriminate].
      destruct (batch_ok c b) eqn:Eb; [|discriminate].
      cbn [newrgs] in Hlim.
      destruct (write_batch_inv w allg cur touched col c b I ltac:(lia) Ec Eb) as (w' & Ew & I').
      cbn [run_ops]. rewrite Ew.
      apply (IH w' allg _ true done (OK :: acc) gs I' Hf); [|exact Hlim|exact Ht].
      cbn [forallb]. rewrite Z.eqb_refl. exact Ha.
    - (* new_row_group *)
      cbn [table_go] in Ht. cbn [run_ops]. unfold fw_new_row_group. cbn [newrgs] in Hlim.
      destruct (ensure_header_inv w allg cur touched I) as [I1 Hh].
      pose proof (flush_inv (ensure_header w) allg cur touched I1 Hh) as Fl.
      assert (Ha' : forallb (Z.eqb OK) (OK :: acc) = true) by (cbn [forallb]; rewrite Z.eqb_refl; exact Ha).
      destruct touched.
      + destruct (all_same_length cur) eqn:Es; [|discriminate].
        apply (IH _ (allg ++ [cur]) empty_group false (if Nat.eqb (group_rows cur) 0 then done else cur :: done)
                  (OK :: acc) gs Fl); [apply filter_nonempty_snoc, Hf|exact Ha'|rewrite app_length; cbn [length]; lia|exact Ht].
      + rewrite Fl. destruct (fi_cur _ _ _ _ I1) as [_ Ec].
        apply (IH _ allg empty_group false done (OK :: acc) gs); [rewrite <- Ec; exact I1|exact Hf|exact Ha'|lia|exact Ht].
    - (* close *)
      cbn [table_go] in Ht. cbn [run_ops].
      eexists _, _, (if touched then allg ++ [cur] else allg).
      split; [reflexivity|]. split; [apply all_ok_snoc, Ha|].
      destruct touched.
      + destruct (all_same_length cur) eqn:Es; [|discriminate]. inversion Ht; subst gs.
        split; [apply filter_nonempty_snoc, Hf|]. apply (close_inv w allg cur true I). intros _. exact Es.
      + inversion Ht; subst gs. split; [exact Hf|]. apply (close_inv w allg cur false I). discriminate.
  Qed.

  (** C01: a history that denotes a table - every call returns OK and reading the closed file back yields that
      table: same schema, row count, partition into non-empty row groups, null positions and values *)
  Theorem write_read_roundtrip ops t : table_of sch ops = Some t ->
    schema_fits sch = true -> N.of_nat (S (newrgs ops)) <= MAX_ROW_GROUPS ->
    exists sts w, run_writer compress header footer sch opts ops = Ok (sts, w, true) /\ all_ok sts = true /\
      (Forall (fun g => Forall small_chunk (rg_chunks g)) (f_groups w) ->
       meta_small (metadata_of w) -> len (footer (metadata_of w)) < 2 ^ 32 ->
       exists r, read_all codec decompress parse_header parse_footer verify (f_out w) = Ok r
                 /\ drop_empty r = result_of_table t).
  Proof.
    unfold table_of. rewrite sch_ok. intros Ht Hfit Hlim.
    destruct (table_go sch ops [] (map (fun _ => []) sch) false) as [gs|] eqn:Eg; [|discriminate].
    inversion Ht; subst t. clear Ht.
    destruct (run_ops_spec ops (fw_init sch opts) [] empty_group false [] [] gs finv_init eq_refl eq_refl Hlim Eg)
      as (sts & w & allg & Er & Ho & Hg & (Esch & Eopt & Erows & Gs & data & Eo)).
    exists sts, w. unfold run_writer. rewrite Hfit. split; [exact Er|]. split; [exact Ho|].
    intros Hsm Hms Hft. cbv zeta in Eo.
    assert (Em : metadata_of w = mkfm footer_version sch (N.of_nat (sum_rows allg)) (f_groups w) created_by).
    { unfold metadata_of. rewrite Esch, Erows, Eopt. reflexivity. }
    rewrite Em in Hft, Hms.
    set (m := mkfm footer_version sch (N.of_nat (sum_rows allg)) (f_groups w) created_by) in *.
    assert (Hdom : footer_dom m).
    { split; [|exact Hms]. unfold meta_shape. cbn [fm_groups fm_schema m].
      clear - Gs. induction Gs as [|g rg gs' allg' (_ & _ & Hc & _) _ IH]; constructor; assumption. }
    unfold read_all. rewrite Eo. rewrite open_written by exact Hft. rewrite (footer_roundtrip m Hdom).
    cbn [fm_schema fm_groups fm_num_rows m].
    (* the groups are read from the complete file *)
    assert (Efile : magic ++ data ++ footer m ++ le32 (len (footer m)) ++ magic = f_out w ++ []) by (rewrite app_nil_r; symmetry; exact Eo).
    rewrite Efile. rewrite (read_groups_spec (f_out w) [] (f_groups w) allg Gs Hsm).
    eexists. split; [reflexivity|].
    unfold drop_empty, result_of_table. cbn [rr_schema rr_num_rows rr_groups t_schema t_groups].
    rewrite filter_nonempty_map, Hg. f_equal.
    unfold num_rows. cbn [t_groups]. fold (sum_rows gs). rewrite <- Hg, sum_rows_filter. reflexivity.
  Qed.
End File.
