(** C18, second clause: a failing sink is reported, and OK from close means every byte was delivered.

    Proved for EVERY sink oracle (which request is refused or cut short, whether the final close of the
    descriptor fails), every buffer capacity, every buffering policy and every value fwrite may report
    after a failed request - the stream and the sink are universally quantified (Writer/Stdio.v).

    The positive theorems are about [current_checks], the checks regenerated from file_writer.c: they go
    through only when close looks at fflush, ferror and fclose.  The pinned tree did not
    ([pinned_checks]); the refutation for it is kept below with its witness. *)
From Coq Require Import NArith ZArith List Bool Arith Lia.
From Carquet Require Import Gen.Enums_gen Gen.Robust_gen Reader.FooterModel Writer.Stdio Writer.CloseModel.
Import ListNotations.

(** The regenerated flags are those of a writer whose close looks at fflush, ferror and fclose.  Whether
    the individual fwrite results are compared with the requested counts does not matter for the two
    theorems: a failed request leaves the error indicator set and close looks at it. *)
Lemma current_checks_safe : current_checks = mkChecks (chk_fwrite current_checks) true true true.
Proof. reflexivity. Qed.

(* ------------------------------------------------------------------------------------------------ *)
(** * The stdio contract: what holds of the stream whatever the oracles do *)

(** [good s b]: b is everything fwrite has been asked to write so far.
    - a refused request always leaves the error indicator set;
    - as long as no request was refused, delivered ++ pending is exactly b. *)
Definition good (s : stream) (b : list N) : Prop :=
  (failed s = true -> errf s = true) /\ (failed s = false -> deliv s ++ pend s = b).

Section StdioFacts.
  Variable cap : nat.
  Variable accept : nat -> nat -> nat.
  Variable close_ok : nat -> bool.
  Variable push_amt : nat -> nat -> nat -> nat.
  Variable ret_on_fail : nat -> nat -> nat.

  Lemma sink_write_spec : forall s chunk ok s',
    sink_write accept s chunk = (ok, s') ->
    pend s' = pend s /\ errf s' = (errf s || negb ok) /\ failed s' = (failed s || negb ok) /\
    cfailed s' = cfailed s /\ (ok = true -> deliv s' = deliv s ++ chunk).
  Proof.
    intros s chunk ok s' H. unfold sink_write in H. inversion H; subst; clear H. simpl.
    repeat split; auto.
    intros Hok. apply Nat.eqb_eq in Hok. rewrite Hok. rewrite firstn_all. reflexivity.
  Qed.

  Lemma fwrite_spec : forall s b data r s',
    good s b -> fwrite cap accept push_amt ret_on_fail s data = (r, s') ->
    good s' (b ++ data) /\ r <= length data /\ (failed s' = false -> r = length data) /\
    cfailed s' = cfailed s /\ (failed s = true -> failed s' = true).
  Proof.
    intros s b data r s' [G1 G2] H. unfold fwrite in H.
    destruct (length (pend s ++ data) <=? cap) eqn:Hc.
    - inversion H; subst; clear H. simpl. unfold good. simpl. repeat split; auto.
      intros Hf. rewrite app_assoc. rewrite (G2 Hf). reflexivity.
    - set (all := pend s ++ data) in *.
      set (t := Nat.min (length all) (Nat.max (length all - cap) (push_amt (nops s) (length (pend s)) (length data)))) in *.
      destruct (sink_write accept s (firstn t all)) as [ok s1] eqn:Es.
      destruct (sink_write_spec _ _ _ _ Es) as [Hp [He [Hf [Hcf Hd]]]].
      destruct ok.
      + inversion H; subst; clear H. simpl. unfold good. simpl.
        rewrite He, Hf, !orb_false_r. repeat split; auto.
        intros Hff. rewrite (Hd eq_refl). rewrite <- app_assoc. rewrite firstn_skipn.
        unfold all. rewrite app_assoc. rewrite (G2 Hff). reflexivity.
      + inversion H; subst; clear H. simpl. unfold good. simpl.
        rewrite He, Hf, !orb_true_r. repeat split; auto; try discriminate.
        apply Nat.le_min_r.
  Qed.

  Lemma fflush_spec : forall s b ok s',
    good s b -> fflush accept s = (ok, s') ->
    good s' b /\ (failed s' = false -> ok = true /\ pend s' = []) /\ (ok = true -> failed s' = failed s) /\
    cfailed s' = cfailed s /\ (failed s = true -> failed s' = true).
  Proof.
    intros s b ok s' [G1 G2] H. unfold fflush in H.
    destruct (pend s) as [|x p] eqn:Ep.
    - inversion H; subst; clear H. unfold good. repeat split; auto.
      intros Hf. rewrite Ep. apply G2. exact Hf.
    - destruct (sink_write accept s (x :: p)) as [ok1 s1] eqn:Es.
      destruct (sink_write_spec _ _ _ _ Es) as [Hp [He [Hf [Hcf Hd]]]].
      inversion H; subst; clear H. simpl. unfold good. simpl. rewrite He, Hf.
      destruct ok; rewrite ?orb_false_r, ?orb_true_r; repeat split; auto; try discriminate.
      intros Hff. rewrite (Hd eq_refl), app_nil_r. apply G2. exact Hff.
  Qed.

  Lemma fclose_spec : forall s b ok s',
    good s b -> fclose accept close_ok s = (ok, s') ->
    good s' b /\
    (ok = true -> failed s' = failed s /\ cfailed s' = cfailed s /\ (failed s' = false -> pend s' = [])) /\
    (ok = false -> failed s' = true \/ cfailed s' = true) /\
    (failed s = true -> failed s' = true) /\ (cfailed s = true -> cfailed s' = true).
  Proof.
    intros s b ok s' G H. unfold fclose in H.
    destruct (fflush accept s) as [okf s1] eqn:Ef.
    destruct (fflush_spec _ _ _ _ G Ef) as [[G1 G2] [Hn [Hk [Hcf Hm]]]].
    inversion H; subst; clear H. simpl. unfold good. simpl. repeat split; auto.
    - apply andb_true_iff in H. destruct H as [H1 _]. auto.
    - apply andb_true_iff in H. destruct H as [_ H2]. rewrite H2, Hcf. simpl. apply orb_false_r.
    - intros Hff. apply (Hn Hff).
    - intros Hno. destruct (failed s1) eqn:Efl; [left; reflexivity|].
      destruct (Hn eq_refl) as [Hokf _]. subst okf. simpl in Hno. rewrite Hno. right. apply orb_true_r.
    - intros Hc. rewrite Hcf, Hc. reflexivity.
  Qed.
End StdioFacts.

(* ------------------------------------------------------------------------------------------------ *)
(** * The writer over an arbitrary stream and sink, all results looked at *)



(** the bytes a fault-free run still has to emit, given whether the header is out *)
Fixpoint expect (hw : bool) (h : list wcall) : list N :=
  match h with
  | [] => []
  | c :: h' => (if hw then [] else magic) ++ payload c ++
               match c with CClose _ _ => [] | _ => expect true h' end
  end.

Lemma expect_true_payloads : forall h, expect true h = payloads h.
Proof.
  induction h as [|c h IH]; [reflexivity|]. destruct c; simpl; rewrite ?IH; reflexivity.
Qed.

Lemma expect_bytes_of : forall h, expect false h = bytes_of h.
Proof.
  destruct h as [|c h']; [reflexivity|]. unfold bytes_of. cbn [expect payloads].
  destruct c; rewrite ?expect_true_payloads; reflexivity.
Qed.

Section WriterFacts.
  Variable cap : nat.
  Variable accept : nat -> nat -> nat.
  Variable close_ok : nat -> bool.
  Variable push_amt : nat -> nat -> nat -> nat.
  Variable ret_on_fail : nat -> nat -> nat.
  Variable owns : bool.
  Variable fw : bool.        (* are fwrite results compared with the requested count *)
  Notation all_checks := (mkChecks fw true true true).

  Notation put := (put cap accept push_amt ret_on_fail all_checks).
  Notation ensure_header := (ensure_header cap accept push_amt ret_on_fail all_checks).
  Notation flush_row_group := (flush_row_group cap accept push_amt ret_on_fail all_checks).
  Notation writer_close := (writer_close cap accept close_ok push_amt ret_on_fail all_checks owns).
  Notation close_cleanup := (close_cleanup accept close_ok all_checks owns).
  Notation step := (step cap accept close_ok push_amt ret_on_fail all_checks owns).
  Notation run := (run cap accept close_ok push_amt ret_on_fail all_checks owns).

  (** mono s s': failures are never forgotten *)
  Definition mono (s s' : stream) : Prop :=
    (failed s = true -> failed s' = true) /\ (cfailed s = true -> cfailed s' = true).

  Lemma mono_refl : forall s, mono s s. Proof. split; auto. Qed.
  Lemma mono_trans : forall a b c, mono a b -> mono b c -> mono a c.
  Proof. intros a b c [H1 H2] [H3 H4]. split; auto. Qed.

  Lemma put_spec : forall s b data ok s',
    good s b -> put s data = (ok, s') ->
    good s' (b ++ data) /\ (failed s' = false -> ok = true) /\ cfailed s' = cfailed s /\ mono s s'.
  Proof.
    intros s b data ok s' G H. unfold CloseModel.put in H.
    destruct (fwrite cap accept push_amt ret_on_fail s data) as [r s1] eqn:Ew.
    destruct (fwrite_spec _ _ _ _ _ _ _ _ _ G Ew) as [G' [Hr [Hn [Hcf Hm]]]].
    inversion H; subst; clear H. simpl.
    split; [exact G'|]. split; [intros Hf; apply orb_true_iff; right; apply Nat.eqb_eq; auto|]. split; [exact Hcf|].
    split; [exact Hm|]. intros Hc. rewrite Hcf. exact Hc.
  Qed.

  Lemma OK_eqb : (OK =? OK)%Z = true. Proof. reflexivity. Qed.
  Lemma FW_eqb : (FILE_WRITE =? OK)%Z = false. Proof. reflexivity. Qed.
  Lemma FW_neq : FILE_WRITE <> OK. Proof. discriminate. Qed.

  Lemma ensure_header_spec : forall w b s w',
    good (st w) b -> ensure_header w = (s, w') ->
    good (st w') (b ++ if header_written w then [] else magic) /\
    (failed (st w') = false -> s = OK /\ header_written w' = true) /\
    (s = OK \/ s = FILE_WRITE) /\ (s = OK -> header_written w' = true) /\
    cfailed (st w') = cfailed (st w) /\ mono (st w) (st w').
  Proof.
    intros w b s w' G H. unfold CloseModel.ensure_header in H.
    destruct (header_written w) eqn:Eh.
    - inversion H; subst; clear H. rewrite app_nil_r.
      split; [exact G|]. split; [intros _; split; [reflexivity|exact Eh]|]. split; [left; reflexivity|].
      split; [intros _; exact Eh|]. split; [reflexivity|apply mono_refl].
    - destruct (put (st w) magic) as [ok s1] eqn:Ep.
      destruct (put_spec _ _ _ _ _ G Ep) as [G' [Hn [Hcf Hm]]].
      destruct ok; inversion H; subst; clear H; simpl.
      + split; [exact G'|]. split; [intros _; split; reflexivity|]. split; [left; reflexivity|].
        split; [intros _; reflexivity|]. split; [exact Hcf|exact Hm].
      + split; [exact G'|]. split; [intros Hf; specialize (Hn Hf); discriminate|]. split; [right; reflexivity|].
        split; [intros Hx; exfalso; apply FW_neq; exact Hx|]. split; [exact Hcf|exact Hm].
  Qed.

  Lemma flush_row_group_spec : forall w b rg s w',
    good (st w) b -> flush_row_group w rg = (s, w') ->
    good (st w') (b ++ rg) /\ (failed (st w') = false -> s = OK) /\ (s = OK \/ s = FILE_WRITE) /\
    header_written w' = header_written w /\ cfailed (st w') = cfailed (st w) /\ mono (st w) (st w').
  Proof.
    intros w b rg s w' G H. unfold CloseModel.flush_row_group in H.
    destruct rg as [|x rg'].
    - inversion H; subst; clear H. rewrite app_nil_r.
      split; [exact G|]. split; [intros _; reflexivity|]. split; [left; reflexivity|].
      split; [reflexivity|]. split; [reflexivity|apply mono_refl].
    - destruct (put (st w) (x :: rg')) as [ok s1] eqn:Ep.
      destruct (put_spec _ _ _ _ _ G Ep) as [G' [Hn [Hcf Hm]]].
      inversion H; subst; clear H. simpl.
      split; [exact G'|]. split; [intros Hf; rewrite (Hn Hf); reflexivity|].
      split; [destruct ok; auto|]. split; [reflexivity|]. split; [exact Hcf|exact Hm].
  Qed.

  (** cleanup keeps a failure status, and turns OK into FILE_WRITE exactly when fclose fails *)
  Lemma close_cleanup_spec : forall status w b s w',
    good (st w) b -> (status = OK \/ status = FILE_WRITE) -> close_cleanup status w = (s, w') ->
    good (st w') b /\ mono (st w) (st w') /\
    (s = OK -> status = OK /\ failed (st w') = failed (st w) /\ cfailed (st w') = cfailed (st w) /\
               (owns = true -> failed (st w') = false -> pend (st w') = []) /\
               (owns = false -> st w' = st w)).
  Proof.
    intros status w b s w' G Hs H. unfold CloseModel.close_cleanup in H.
    destruct owns eqn:Eo.
    - destruct (fclose accept close_ok (st w)) as [ok s1] eqn:Ec.
      destruct (fclose_spec _ _ _ _ _ _ G Ec) as [G' [Hk [Hno [Hm1 Hm2]]]].
      inversion H; subst; clear H. simpl. split; [exact G'|]. split; [split; assumption|].
      intros Hok. destruct Hs as [-> | ->].
      + rewrite OK_eqb in Hok. destruct ok; simpl in Hok; [|exfalso; apply FW_neq; exact Hok].
        destruct (Hk eq_refl) as [H1 [H2 H3]]. repeat split; auto. intros; discriminate.
      + rewrite FW_eqb, andb_false_r in Hok. exfalso. apply FW_neq. exact Hok.
    - inversion H; subst; clear H. split; [exact G|]. split; [apply mono_refl|].
      intros Hok. repeat split; auto. intros; discriminate.
  Qed.

  (** close: whatever happens the stream stays [good]; and an OK status means that nothing was
      refused, the descriptor closed cleanly (when owned) and nothing is left in the buffer. *)
  Lemma writer_close_spec : forall w b rg footer s w',
    good (st w) b -> cfailed (st w) = false -> writer_close w rg footer = (s, w') ->
    good (st w') (b ++ (if header_written w then [] else magic) ++ payload (CClose rg footer)) /\
    mono (st w) (st w') /\
    (s = OK -> failed (st w') = false /\ cfailed (st w') = false /\ pend (st w') = []).
  Proof.
    intros w b rg footer s w' G Hc0 H. unfold CloseModel.writer_close in H.
    destruct (ensure_header w) as [s0 w0] eqn:E0.
    destruct (ensure_header_spec _ _ _ _ G E0) as [G0 [Hn0 [Hs0 [Hh0 [Hcf0 Hm0]]]]].
    set (hd := if header_written w then [] else magic) in *.
    simpl payload.
    (* a helper: once some step has failed, the final status is not OK and [good] is vacuous *)
    assert (Hfail : forall wk bk, good (st wk) bk -> mono (st w) (st wk) -> failed (st wk) = true ->
              close_cleanup FILE_WRITE wk = (s, w') ->
              good (st w') (b ++ hd ++ rg ++ footer ++ le32_bytes (N.of_nat (length footer)) ++ magic) /\
              mono (st w) (st w') /\ (s = OK -> failed (st w') = false /\ cfailed (st w') = false /\ pend (st w') = [])).
    { intros wk bk Gk Hmk Hfk Hk.
      destruct (close_cleanup_spec _ _ _ _ _ Gk (or_intror eq_refl) Hk) as [[Gk1 Gk2] [Hmk' Hok]].
      split; [|split].
      - split; [exact Gk1|]. intros Hff. destruct Hmk' as [Hmf _]. rewrite (Hmf Hfk) in Hff. discriminate.
      - eapply mono_trans; eauto.
      - intros Hs. destruct (Hok Hs) as [Hbad _]. exfalso. apply FW_neq. exact Hbad. }
    destruct (negb (s0 =? OK)%Z) eqn:En0.
    { (* header write failed *)
      destruct Hs0 as [-> | ->]; [rewrite OK_eqb in En0; discriminate|].
      destruct (failed (st w0)) eqn:Ef0; [|destruct (Hn0 eq_refl) as [Hx _]; exfalso; apply FW_neq; exact Hx].
      eapply Hfail; eauto. }
    assert (Hs0' : s0 = OK) by (destruct Hs0 as [-> | ->]; [reflexivity|rewrite FW_eqb in En0; discriminate]).
    destruct (flush_row_group w0 rg) as [s1 w1] eqn:E1.
    destruct (flush_row_group_spec _ _ _ _ _ G0 E1) as [G1 [Hn1 [Hs1 [Hh1 [Hcf1 Hm1]]]]].
    assert (Hmw1 : mono (st w) (st w1)) by (eapply mono_trans; eauto).
    destruct (negb (s1 =? OK)%Z) eqn:En1.
    { destruct Hs1 as [-> | ->]; [rewrite OK_eqb in En1; discriminate|].
      destruct (failed (st w1)) eqn:Ef1; [|exfalso; apply FW_neq; apply Hn1; reflexivity].
      eapply Hfail; eauto. }
    destruct (put (st w1) footer) as [ok2 t2] eqn:E2.
    destruct (put_spec _ _ _ _ _ G1 E2) as [G2 [Hn2 [Hcf2 Hm2]]].
    assert (Hmw2 : mono (st w) t2) by (eapply mono_trans; eauto).
    destruct (negb ok2) eqn:En2.
    { destruct (failed t2) eqn:Ef2; [|rewrite (Hn2 eq_refl) in En2; discriminate].
      eapply (Hfail (mkW t2 (header_written w1))); eauto. }
    destruct (put t2 (le32_bytes (N.of_nat (length footer)))) as [ok3 t3] eqn:E3.
    destruct (put_spec _ _ _ _ _ G2 E3) as [G3 [Hn3 [Hcf3 Hm3]]].
    assert (Hmw3 : mono (st w) t3) by (eapply mono_trans; eauto).
    destruct (negb ok3) eqn:En3.
    { destruct (failed t3) eqn:Ef3; [|rewrite (Hn3 eq_refl) in En3; discriminate].
      eapply (Hfail (mkW t3 (header_written w1))); eauto. }
    destruct (put t3 magic) as [ok4 t4] eqn:E4.
    destruct (put_spec _ _ _ _ _ G3 E4) as [G4 [Hn4 [Hcf4 Hm4]]].
    assert (Hmw4 : mono (st w) t4) by (eapply mono_trans; eauto).
    destruct (negb ok4) eqn:En4.
    { destruct (failed t4) eqn:Ef4; [|rewrite (Hn4 eq_refl) in En4; discriminate].
      eapply (Hfail (mkW t4 (header_written w1))); eauto. }
    destruct (fflush accept t4) as [okf t5] eqn:E5.
    destruct (fflush_spec _ _ _ _ _ G4 E5) as [G5 [Hn5 [Hk5 [Hcf5 Hm5]]]].
    assert (Hmw5 : mono (st w) t5).
    { eapply mono_trans; [exact Hmw4|]. split; [exact Hm5|]. intros Hx. rewrite Hcf5. exact Hx. }
    simpl chk_fflush in H. simpl chk_ferror in H. cbv beta iota in H. rewrite !andb_true_l in H.
    set (status := if negb okf || ferror t5 then FILE_WRITE else OK) in *.
    assert (Hst : status = OK \/ status = FILE_WRITE) by (unfold status; destruct (negb okf || ferror t5); auto).
    assert (Hbytes : ((((b ++ hd) ++ rg) ++ footer) ++ le32_bytes (N.of_nat (length footer))) ++ magic =
                     b ++ hd ++ rg ++ footer ++ le32_bytes (N.of_nat (length footer)) ++ magic)
      by (rewrite <- !app_assoc; reflexivity).
    rewrite Hbytes in G5.
    destruct (close_cleanup_spec status (mkW t5 (header_written w1)) _ s w' G5 Hst H) as [G6 [Hm6 Hok6]].
    simpl st in *.
    split; [exact G6|]. split; [eapply mono_trans; eauto|].
    intros Hs. destruct (Hok6 Hs) as [Hstat [Hf6 [Hc6 [Hown Hnown]]]].
    unfold status in Hstat.
    destruct (negb okf || ferror t5) eqn:Eor; [exfalso; apply FW_neq; exact Hstat|].
    apply orb_false_iff in Eor. destruct Eor as [Eokf Eerr]. unfold ferror in Eerr.
    assert (Hf5 : failed t5 = false).
    { destruct G5 as [G5a _]. destruct (bool_dec (failed t5) true) as [E|E];
        [rewrite (G5a E) in Eerr; discriminate | apply not_true_is_false; exact E]. }
    destruct (Hn5 Hf5) as [_ Hp5].
    assert (Hc5 : cfailed t5 = false).
    { rewrite Hcf5, Hcf4, Hcf3, Hcf2, Hcf1, Hcf0. exact Hc0. }
    rewrite Hf6, Hc6. repeat split; auto.
    destruct owns eqn:Eo.
    - apply Hown; [reflexivity|]. rewrite Hf6. exact Hf5.
    - rewrite (Hnown eq_refl). exact Hp5.
  Qed.

  Lemma step_spec : forall w b c s w',
    good (st w) b -> cfailed (st w) = false -> step w c = (s, w') ->
    good (st w') (b ++ (if header_written w then [] else magic) ++ payload c) /\
    mono (st w) (st w') /\
    (match c with CClose _ _ => True | _ => failed (st w') = false -> header_written w' = true end) /\
    (match c with CClose _ _ => True | _ => cfailed (st w') = false end) /\
    (match c with CClose _ _ => s = OK -> failed (st w') = false /\ cfailed (st w') = false /\ pend (st w') = []
                | _ => True end).
  Proof.
    intros w b c s w' G Hc0 H. destruct c as [|rg|rg footer]; simpl step in H.
    - destruct (ensure_header_spec _ _ _ _ G H) as [G0 [Hn0 [Hs0 [Hh0 [Hcf0 Hm0]]]]].
      simpl payload. rewrite app_nil_r.
      split; [exact G0|]. split; [exact Hm0|]. split; [intros Hf; apply (Hn0 Hf)|].
      split; [rewrite Hcf0; exact Hc0|exact I].
    - destruct (ensure_header w) as [s0 w0] eqn:E0.
      destruct (ensure_header_spec _ _ _ _ G E0) as [G0 [Hn0 [Hs0 [Hh0 [Hcf0 Hm0]]]]].
      simpl payload.
      destruct (negb (s0 =? OK)%Z) eqn:En0.
      + inversion H; subst; clear H.
        destruct Hs0 as [-> | ->]; [rewrite OK_eqb in En0; discriminate|].
        assert (Ef0 : failed (st w') = true).
        { destruct (bool_dec (failed (st w')) true) as [E|E]; [exact E|].
          apply not_true_is_false in E. destruct (Hn0 E) as [Hx _]. exfalso. apply FW_neq. exact Hx. }
        split; [split; [apply G0|intros Hff; rewrite Ef0 in Hff; discriminate]|].
        split; [exact Hm0|]. split; [intros Hff; rewrite Ef0 in Hff; discriminate|].
        split; [rewrite Hcf0; exact Hc0|exact I].
      + destruct (flush_row_group_spec _ _ _ _ _ G0 H) as [G1 [Hn1 [Hs1 [Hh1 [Hcf1 Hm1]]]]].
        rewrite <- app_assoc in G1.
        split; [exact G1|]. split; [eapply mono_trans; eauto|].
        split.
        * intros Hf. rewrite Hh1. apply Hn0.
          destruct (bool_dec (failed (st w0)) true) as [E|E]; [|apply not_true_is_false; exact E].
          destruct Hm1 as [Hm1 _]. rewrite (Hm1 E) in Hf. discriminate.
        * split; [rewrite Hcf1, Hcf0; exact Hc0|exact I].
    - destruct (writer_close_spec _ _ _ _ _ _ G Hc0 H) as [G1 [Hm1 Hok]].
      split; [exact G1|]. split; [exact Hm1|]. split; [exact I|]. split; [exact I|exact Hok].
  Qed.

  (** A whole history.  [b] is what has been requested before it starts. *)
  Lemma run_spec : forall h w b ss w',
    good (st w) b -> cfailed (st w) = false -> run w h = (ss, w') ->
    good (st w') (b ++ expect (header_written w) h) /\ mono (st w) (st w') /\
    (ends_with_close h = true -> last ss FILE_WRITE = OK ->
       failed (st w') = false /\ cfailed (st w') = false /\ pend (st w') = []).
  Proof.
    induction h as [|c h IH]; intros w b ss w' G Hc0 H.
    - simpl in H. inversion H; subst; clear H. simpl. rewrite app_nil_r.
      split; [exact G|]. split; [apply mono_refl|]. intros; discriminate.
    - simpl run in H. destruct (step w c) as [s w1] eqn:Es.
      destruct (step_spec _ _ _ _ _ G Hc0 Es) as [G1 [Hm1 [Hh1 [Hc1 Hcl]]]].
      destruct c as [|rg|rg footer].
      + destruct (run w1 h) as [ss1 w2] eqn:Er. inversion H; subst; clear H.
        simpl payload in G1. rewrite app_nil_r in G1.
        destruct (IH _ _ _ _ G1 Hc1 Er) as [G2 [Hm2 Hend]].
        simpl expect. simpl payload.
        assert (Hx : good (st w') (b ++ (if header_written w then [] else magic) ++ [] ++ expect true h)).
        { destruct G2 as [G2a G2b]. split; [exact G2a|]. intros Hf.
          assert (Hf1 : failed (st w1) = false).
          { destruct (bool_dec (failed (st w1)) true) as [E|E]; [|apply not_true_is_false; exact E].
            destruct Hm2 as [Hm2 _]. rewrite (Hm2 E) in Hf. discriminate. }
          rewrite (Hh1 Hf1) in G2b. rewrite (G2b Hf). simpl. rewrite <- app_assoc. reflexivity. }
        split; [exact Hx|]. split; [eapply mono_trans; eauto|].
        intros He Hl. simpl ends_with_close in He.
        assert (Hl' : last ss1 FILE_WRITE = OK).
        { destruct ss1 as [|x t]; [|exact Hl].
          (* the rest of the history contains a close, so it produced at least one status *)
          exfalso. clear - He Er. revert w1 Er. induction h as [|c' h' IHh]; intros w1 Er; [discriminate|].
          simpl in Er. destruct (step w1 c') as [s' w'']. destruct c'.
          - destruct (run w'' h'); inversion Er.
          - destruct (run w'' h'); inversion Er.
          - inversion Er. }
        apply Hend; assumption.
      + destruct (run w1 h) as [ss1 w2] eqn:Er. inversion H; subst; clear H.
        destruct (IH _ _ _ _ G1 Hc1 Er) as [G2 [Hm2 Hend]].
        simpl expect. simpl payload in *.
        assert (Hx : good (st w') (b ++ (if header_written w then [] else magic) ++ rg ++ expect true h)).
        { destruct G2 as [G2a G2b]. split; [exact G2a|]. intros Hf.
          assert (Hf1 : failed (st w1) = false).
          { destruct (bool_dec (failed (st w1)) true) as [E|E]; [|apply not_true_is_false; exact E].
            destruct Hm2 as [Hm2 _]. rewrite (Hm2 E) in Hf. discriminate. }
          rewrite (Hh1 Hf1) in G2b. rewrite (G2b Hf). rewrite <- !app_assoc. reflexivity. }
        split; [exact Hx|]. split; [eapply mono_trans; eauto|].
        intros He Hl. simpl ends_with_close in He.
        assert (Hl' : last ss1 FILE_WRITE = OK).
        { destruct ss1 as [|x t]; [|exact Hl].
          exfalso. clear - He Er. revert w1 Er. induction h as [|c' h' IHh]; intros w1 Er; [discriminate|].
          simpl in Er. destruct (step w1 c') as [s' w'']. destruct c'.
          - destruct (run w'' h'); inversion Er.
          - destruct (run w'' h'); inversion Er.
          - inversion Er. }
        apply Hend; assumption.
      + inversion H; subst; clear H. simpl expect. rewrite app_nil_r.
        split; [exact G1|]. split; [exact Hm1|].
        intros _ Hl. simpl in Hl. apply Hcl. exact Hl.
  Qed.
End WriterFacts.

(* ------------------------------------------------------------------------------------------------ *)
(** * The two theorems of C18's second clause *)

Section Theorems.
  Variable cap : nat.
  Variable accept : nat -> nat -> nat.
  Variable close_ok : nat -> bool.
  Variable push_amt : nat -> nat -> nat -> nat.
  Variable ret_on_fail : nat -> nat -> nat.
  Variable owns : bool.

  Notation run_cur := (run cap accept close_ok push_amt ret_on_fail current_checks owns).

  Lemma good_init : good stream_init [].
  Proof. split; [intros; discriminate|reflexivity]. Qed.

  (** OK from close: nothing was refused by the sink, the descriptor closed cleanly, nothing is left
      in the stream's buffer, and the sink holds exactly the bytes of the fault-free run. *)
  Theorem close_ok_means_delivered_full : forall h ss w',
    ends_with_close h = true -> run_cur w_init h = (ss, w') ->
    last ss FILE_WRITE = OK ->
    sink_failed w' = false /\ pend (st w') = [] /\ deliv (st w') = bytes_of h.
  Proof.
    intros h ss w' He Hr Hl. rewrite current_checks_safe in Hr.
    destruct (run_spec cap accept close_ok push_amt ret_on_fail owns _ h w_init [] ss w' good_init eq_refl Hr) as [[_ G] [_ Hend]].
    destruct (Hend He Hl) as [Hf [Hc Hp]].
    unfold sink_failed. rewrite Hf, Hc. split; [reflexivity|]. split; [exact Hp|].
    specialize (G Hf). rewrite Hp, app_nil_r in G. rewrite G. simpl. apply expect_bytes_of.
  Qed.

  Theorem close_ok_means_delivered : forall h ss w',
    ends_with_close h = true -> run_cur w_init h = (ss, w') ->
    last ss FILE_WRITE = OK -> deliv (st w') = bytes_of h.
  Proof. intros h ss w' He Hr Hl. apply (close_ok_means_delivered_full h ss w' He Hr Hl). Qed.

  (** If any request to the sink was refused or cut short, or the close of an owned descriptor
      failed, some writer call - at the latest close - returns a status other than CARQUET_OK. *)
  Theorem sink_failure_reported : forall h ss w',
    ends_with_close h = true -> run_cur w_init h = (ss, w') ->
    sink_failed w' = true -> exists s, In s ss /\ s <> OK.
  Proof.
    intros h ss w' He Hr Hf.
    destruct (Z.eq_dec (last ss FILE_WRITE) OK) as [Hl|Hl].
    - destruct (close_ok_means_delivered_full h ss w' He Hr Hl) as [Hno _]. rewrite Hno in Hf. discriminate.
    - exists (last ss FILE_WRITE). split; [|exact Hl].
      destruct ss as [|x t].
      + (* a history that ends with close produces at least one status *)
        exfalso. clear - He Hr. revert Hr. generalize w_init. induction h as [|c h IH]; intros w0 Hr; [discriminate|].
        simpl in Hr. destruct (step cap accept close_ok push_amt ret_on_fail current_checks owns w0 c) as [s w1]. destruct c.
        * destruct (run cap accept close_ok push_amt ret_on_fail current_checks owns w1 h); inversion Hr.
        * destruct (run cap accept close_ok push_amt ret_on_fail current_checks owns w1 h); inversion Hr.
        * inversion Hr.
      + clear. generalize x. induction t as [|y t IH]; intros x0; simpl; [left; reflexivity|].
        right. apply IH.
  Qed.
End Theorems.

(* ------------------------------------------------------------------------------------------------ *)
(** * The pinned tree: refuted, with the witness that is replayed on the implementation (F25) *)

(** The sink refuses everything; the stream buffers 4096 bytes, so every fwrite "succeeds"; the
    failure surfaces in the final fflush, whose result the pinned close discarded: every call
    returns OK, nothing was delivered. *)
Definition f25_history : list wcall := [CBatch; CClose [1; 2; 3]%N [21; 0]%N].

Theorem sink_failure_unreported_pinned :
  exists cap accept close_ok push_amt ret_on_fail owns h ss w',
    ends_with_close h = true /\
    run cap accept close_ok push_amt ret_on_fail pinned_checks owns w_init h = (ss, w') /\
    sink_failed w' = true /\ (forall s, In s ss -> s = OK) /\ deliv (st w') <> bytes_of h.
Proof.
  exists 4096, (fun _ _ => 0), (fun _ => true), (fun _ _ _ => 0), (fun _ n => n), false, f25_history.
  eexists. eexists. split; [reflexivity|]. split; [vm_compute; reflexivity|].
  split; [reflexivity|]. split.
  - intros s [<-|[<-|[]]]; reflexivity.
  - discriminate.
Qed.

(** ... and the same with an owned descriptor whose close fails (fclose result discarded). *)
Theorem close_failure_unreported_pinned :
  exists cap accept close_ok push_amt ret_on_fail h ss w',
    run cap accept close_ok push_amt ret_on_fail pinned_checks true w_init h = (ss, w') /\
    sink_failed w' = true /\ (forall s, In s ss -> s = OK).
Proof.
  exists 0, (fun _ n => n), (fun _ => false), (fun _ _ _ => 0), (fun _ n => n), f25_history.
  eexists. eexists. split; [vm_compute; reflexivity|]. split; [reflexivity|].
  intros s [<-|[<-|[]]]; reflexivity.
Qed.

(** The same two scenarios on the current (repaired) checks are reported. *)
Example f25_scenario_now_reported :
  fst (run 4096 (fun _ _ => 0) (fun _ => true) (fun _ _ _ => 0) (fun _ n => n) current_checks false w_init f25_history)
  = [OK; FILE_WRITE].
Proof. vm_compute. reflexivity. Qed.

Example close_failure_now_reported :
  fst (run 0 (fun _ n => n) (fun _ => false) (fun _ _ _ => 0) (fun _ n => n) current_checks true w_init f25_history)
  = [OK; FILE_WRITE].
Proof. vm_compute. reflexivity. Qed.

(** A fault-free run delivers the whole file (hypotheses of the theorems are satisfiable). *)
Example fault_free_run :
  let r := run 8 (fun _ n => n) (fun _ => true) (fun _ _ _ => 3) (fun _ n => n) current_checks true w_init
               [CBatch; CNewRowGroup [5;6;7;8;9;10;11;12;13]%N; CBatch; CClose [1;2;3]%N [21;0]%N] in
  fst r = [OK; OK; OK; OK] /\ deliv (st (snd r)) = bytes_of [CBatch; CNewRowGroup [5;6;7;8;9;10;11;12;13]%N; CBatch; CClose [1;2;3]%N [21;0]%N]
  /\ sink_failed (snd r) = false.
Proof. vm_compute. repeat split; reflexivity. Qed.
