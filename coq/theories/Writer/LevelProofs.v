(** The reader's inline level decoder (carquet_rle_decode_levels, model Reader/PageDecodeModel.decode_levels)
    returns the values of every well-formed run stream of the hybrid encoding, cut at the number asked for;
    hence it inverts the RLE encoder of the writer ([levels_roundtrip]).  Used by Writer/WriterProofs.v. *)
From Coq Require Import NArith Arith List Bool Lia.
From Carquet Require Import Base.Res Base.Bits Enc.BitpackSpec Enc.BitpackModel Enc.BitpackProofs
  Enc.RleSpec Enc.RleModel Enc.RleVarint Enc.RleEncProofs Enc.RleDecProofs Reader.PageDecodeModel.
Import ListNotations.
Local Open Scope N_scope.

(* ------------------------------------------------------------------ the level decoder *)

Lemma read_hdr_varint f : forall shift acc bs h tl,
  read_varint f shift acc bs = Some (h, tl) -> read_hdr f shift acc bs = (h, tl).
Proof.
  induction f as [|f IH]; intros shift acc bs h tl H; [discriminate|].
  destruct bs as [|b bs]; [discriminate|]. cbn [read_varint read_hdr] in *.
  destruct (N.land b 128 =? 0); [inversion H; reflexivity|]. apply IH. exact H.
Qed.

Lemma read_hdr_uleb h tl : h < 2 ^ 32 -> read_hdr 5 0 0 (uleb128 h ++ tl) = (h, tl).
Proof. intros H. apply read_hdr_varint, read_header. exact H. Qed.

Lemma firstn_app_repeat {A} (a : A) n want (l : list A) :
  firstn want (repeat a n ++ l) = repeat a (Nat.min n want) ++ firstn (want - Nat.min n want) l.
Proof.
  rewrite firstn_app, repeat_length.
  destruct (Nat.le_gt_cases want n) as [L|G].
  - rewrite firstn_repeat by exact L. rewrite Nat.min_r by exact L.
    replace (want - n)%nat with 0%nat by lia. replace (want - want)%nat with 0%nat by lia. reflexivity.
  - rewrite firstn_all2 by (rewrite repeat_length; lia). rewrite Nat.min_l by lia. reflexivity.
Qed.

(** the group loop on the packed groups of [more] followed by [tl] *)
Lemma lit_groups_spec w : forall k more tl want,
  length more = (8 * k)%nat -> small w more ->
  exists rest, lit_groups w k (lit_bytes w more ++ tl) want = Ok (firstn want more, rest)
               /\ ((length more <= want)%nat -> rest = tl).
Proof.
  induction k as [|k IH]; intros more tl want Hl Hs.
  - destruct more; [|discriminate]. exists tl. cbn. rewrite firstn_nil. split; [reflexivity|reflexivity].
  - assert (Hm : Nat.modulo (length more) 8 = 0%nat) by (rewrite Hl, Nat.mul_comm; apply Nat.mod_mul; lia).
    assert (Hne : more <> []) by (intros ->; cbn in Hl; lia).
    destruct (split_group more Hm Hne) as (g & more' & -> & Hg & Hm').
    apply small_app in Hs. destruct Hs as [Hsg Hsm].
    rewrite app_length, Hg in Hl.
    rewrite lit_bytes_group by exact Hg. rewrite <- app_assoc.
    cbn [lit_groups]. destruct (Nat.eqb want 0) eqn:W.
    + apply Nat.eqb_eq in W. subst want. eexists. split; [reflexivity|]. rewrite app_length. lia.
    + apply Nat.eqb_neq in W.
      destruct (unpack_group w g (lit_bytes w more' ++ tl) Hg Hsg) as [U S].
      assert (Lw : Nat.ltb (length (pack_spec w g ++ lit_bytes w more' ++ tl)) w = false).
      { apply Nat.ltb_ge. rewrite app_length. unfold pack_spec. rewrite to_base_length. lia. }
      rewrite Lw, U, S.
      assert (Hgot : length (firstn (Nat.min 8 want) g) = Nat.min 8 want)
        by (rewrite firstn_length, Hg; lia).
      rewrite Hgot.
      destruct (IH more' tl (want - Nat.min 8 want)%nat ltac:(lia) Hsm) as (rest & E & R).
      rewrite E. exists rest. split.
      * f_equal. f_equal. rewrite firstn_app, Hg.
        destruct (Nat.le_gt_cases want 8) as [L|G].
        -- rewrite Nat.min_r by exact L. replace (want - want)%nat with 0%nat by lia.
           replace (want - 8)%nat with 0%nat by lia. reflexivity.
        -- rewrite Nat.min_l by lia. rewrite (firstn_all2 (n:=8) g), (firstn_all2 (n:=want) g) by lia. reflexivity.
      * intros Hw. apply R. rewrite app_length, Hg in Hw. lia.
Qed.

Lemma lit_run_bytes w vs : bytes_of_run w (RLit vs)
  = uleb128 (2 * N.of_nat (Nat.div (length vs) 8) + 1) ++ lit_bytes w vs.
Proof. reflexivity. Qed.

Lemma decode_levels_go_runs w : (w <= 32)%nat -> forall rs fuel want, Forall (wf_run w) rs ->
  (length (bytes_of_runs w rs) <= fuel)%nat ->
  decode_levels_go fuel w (bytes_of_runs w rs) want = Ok (firstn want (runs_vals rs)).
Proof.
  intros Hw. induction rs as [|r rs IH]; intros fuel want Hwf Hf.
  - cbn. destruct fuel; cbn; destruct (Nat.eqb want 0); rewrite ?firstn_nil; reflexivity.
  - inversion Hwf as [|r' rs' Hr Hrs]; subst.
    rewrite bytes_of_runs_cons in *. rewrite runs_vals_cons.
    destruct (Nat.eqb want 0) eqn:W.
    { apply Nat.eqb_eq in W. subst want. destruct fuel; reflexivity. }
    pose proof (bytes_of_run_nonempty w r) as Hne.
    remember (bytes_of_run w r ++ bytes_of_runs w rs) as bs eqn:EB.
    destruct bs as [|b0 bl].
    { symmetry in EB. apply app_eq_nil in EB. destruct EB as [EB _]. contradiction. }
    destruct fuel as [|f]; [cbn [length] in Hf; lia|].
    cbn [decode_levels_go]. rewrite W. rewrite EB in Hf |- *. clear b0 bl EB.
    apply Nat.eqb_neq in W.
    destruct r as [n v|vs].
    + destruct Hr as [Hv Hn].
      cbn [bytes_of_run run_vals]. rewrite <- app_assoc.
      rewrite read_hdr_uleb by exact Hn. rewrite land_even_1. cbn [N.eqb].
      rewrite shiftr1_even, Nat2N.id.
      assert (Lv : Nat.ltb (length (to_base 256 (value_bytes w) v ++ bytes_of_runs w rs)) (vbytes w) = false).
      { apply Nat.ltb_ge. rewrite app_length, to_base_length, vbytes_value_bytes. lia. }
      rewrite Lv. rewrite read_value by assumption.
      rewrite vbytes_value_bytes, skipn_app, to_base_length, Nat.sub_diag, skipn_O.
      rewrite skipn_all2 by (rewrite to_base_length; lia). cbn [app].
      rewrite IH; [|exact Hrs|].
      * rewrite firstn_app_repeat. reflexivity.
      * cbn [bytes_of_run] in Hf. rewrite !app_length in Hf. cbn [length] in Hf.
        pose proof (uleb_nonempty 9 (2 * N.of_nat n)) as U. unfold uleb128 in Hf.
        destruct (uleb 9 (2 * N.of_nat n)); [contradiction|cbn [length] in Hf; lia].
    + destruct Hr as (Hm & Hs & Hh).
      rewrite lit_run_bytes, <- app_assoc.
      rewrite read_hdr_uleb by exact Hh. rewrite land_odd_1. cbn [N.eqb].
      rewrite shiftr1_odd, Nat2N.id.
      assert (Hl : length vs = (8 * Nat.div (length vs) 8)%nat).
      { pose proof (Nat.div_mod (length vs) 8 ltac:(lia)) as E. rewrite Hm in E. lia. }
      destruct (lit_groups_spec w _ vs (bytes_of_runs w rs) want Hl Hs) as (rest & E & R).
      rewrite E. cbn [run_vals].
      destruct (Nat.le_gt_cases (length vs) want) as [L|G].
      * rewrite (R L). rewrite IH; [|exact Hrs|].
        -- rewrite (firstn_app want vs), (firstn_length want vs), Nat.min_r by exact L. reflexivity.
        -- rewrite lit_run_bytes, !app_length in Hf.
           pose proof (uleb_nonempty 9 (2 * N.of_nat (Nat.div (length vs) 8) + 1)) as U. unfold uleb128 in Hf.
           destruct (uleb 9 _); [contradiction|cbn [length] in Hf; lia].
      * rewrite firstn_length, Nat.min_l by lia. rewrite Nat.sub_diag.
        assert (Z0 : forall f bs, decode_levels_go f w bs 0 = Ok []) by (intros [|f0] bs; reflexivity).
        rewrite Z0. rewrite app_nil_r. rewrite firstn_app. replace (want - length vs)%nat with 0%nat by lia.
        cbn [firstn]. rewrite app_nil_r. reflexivity.
Qed.

(** every legal run stream decodes to the values it denotes (cut at the number asked for) *)
Lemma decode_levels_runs w rs n : (w <= 32)%nat -> Forall (wf_run w) rs ->
  decode_levels w (bytes_of_runs w rs) n = Ok (firstn n (runs_vals rs)).
Proof. intros Hw H. unfold decode_levels. apply decode_levels_go_runs; [exact Hw|exact H|lia]. Qed.

(** the reader's level decoder inverts the writer's level encoder *)
Theorem levels_roundtrip w vs : (w <= 32)%nat -> Forall (fun v => v < 2 ^ N.of_nat w) vs ->
  2 * N.of_nat (length vs) < 2 ^ 32 ->
  decode_levels w (encode_all w vs) (length vs) = Ok vs.
Proof.
  intros Hw Hs Hb.
  destruct (encode_all_runs w vs Hs Hb) as (rs & k & E & Hok & Hv & _).
  destruct (chunks_are_spec w rs Hok) as [C Wf].
  rewrite E, C, decode_levels_runs by assumption.
  rewrite Hv, firstn_app, Nat.sub_diag, firstn_O, app_nil_r, firstn_all. reflexivity.
Qed.

Example levels_roundtrip_ex :
  decode_levels 1 (encode_all 1 [0;1;1;1;1;1;1;1;1;1;0]) 11 = Ok [0;1;1;1;1;1;1;1;1;1;0].
Proof. vm_compute. reflexivity. Qed.

(* ------------------------------------------------------------------ the encoder's output is a byte string *)

Definition is_bytes (l : list N) : Prop := Forall (fun b => b < 256) l.

Lemma to_base_bytes n x : is_bytes (to_base 256 n x).
Proof.
  revert x. induction n as [|n IH]; intro x; cbn [to_base]; [constructor|].
  constructor; [apply N.mod_lt; discriminate|apply IH].
Qed.

Lemma uleb_bytes f x : is_bytes (uleb f x).
Proof.
  revert x. induction f as [|f IH]; intro x; cbn [uleb].
  - constructor; [|constructor]. pose proof (N.mod_lt x 128 ltac:(discriminate)). lia.
  - destruct (N.ltb_spec x 128); [constructor; [lia|constructor]|].
    constructor; [|apply IH]. pose proof (N.mod_lt x 128 ltac:(discriminate)). lia.
Qed.

Lemma is_bytes_app a b : is_bytes a -> is_bytes b -> is_bytes (a ++ b).
Proof. intros. apply Forall_app. split; assumption. Qed.

Lemma is_bytes_concat ls : Forall is_bytes ls -> is_bytes (concat ls).
Proof. intros H. induction H; cbn [concat]; [constructor|apply is_bytes_app; assumption]. Qed.

Lemma bytes_of_runs_bytes w rs : is_bytes (bytes_of_runs w rs).
Proof.
  unfold bytes_of_runs. apply is_bytes_concat. apply Forall_forall. intros l Hl.
  apply in_map_iff in Hl. destruct Hl as (r & <- & _). destruct r as [n v|vs]; cbn [bytes_of_run].
  - apply is_bytes_app; [apply uleb_bytes|apply to_base_bytes].
  - apply is_bytes_app; [apply uleb_bytes|]. apply is_bytes_concat. apply Forall_forall. intros g Hg.
    apply in_map_iff in Hg. destruct Hg as (x & <- & _). unfold pack_spec. apply to_base_bytes.
Qed.

(** the RLE encoder emits bytes (for levels that fit the width) *)
Lemma encode_all_bytes w vs : Forall (fun v => v < 2 ^ N.of_nat w) vs -> 2 * N.of_nat (length vs) < 2 ^ 32 ->
  is_bytes (encode_all w vs).
Proof.
  intros Hs Hb. destruct (encode_all_runs w vs Hs Hb) as (rs & k & E & Hok & _).
  destruct (chunks_are_spec w rs Hok) as [C _]. rewrite E, C. apply bytes_of_runs_bytes.
Qed.
